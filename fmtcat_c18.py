"""C18: deliberately invalid (and a few valid, punctuation-bearing) formats for the const-generic entry points.
`extra_formats()` has the shape of fmtlib's lists: (kind, packed u128, name).  They are appended to
harness/formats.txt by tools/genformats.py (which also keeps every format of fmtlib.all_formats())."""
from gens import pack
from fmtlib import F, STD_FLAGS

US = ord("_")


def extra_formats():
    S = STD_FLAGS
    out = [
        # contradictory flag pairs
        ("B", pack(10, flags=S | F["no_positive_mantissa_sign"] | F["required_mantissa_sign"]), "c18_bad_mantissa_sign"),
        ("F", pack(10, flags=S | F["no_exponent_notation"] | F["required_exponent_notation"]), "c18_bad_exponent_flags"),
        ("F", pack(10, flags=S | F["no_positive_exponent_sign"] | F["required_exponent_sign"]), "c18_bad_exponent_sign"),
        ("F", pack(10, flags=S | F["no_special"] | F["case_sensitive_special"]), "c18_bad_special"),
        ("F", pack(10, flags=S | F["no_special"] | F["special_digit_separator"], sep=US), "c18_bad_special_sep"),
        # consecutive separators without a position flag
        ("B", pack(10, flags=S | F["integer_consecutive_digit_separator"], sep=US), "c18_bad_int_consecutive"),
        ("F", pack(10, flags=S | F["fraction_consecutive_digit_separator"], sep=US), "c18_bad_frac_consecutive"),
        ("F", pack(10, flags=S | F["exponent_consecutive_digit_separator"], sep=US), "c18_bad_exp_consecutive"),
        # bad punctuation characters
        ("B", pack(10, flags=S | F["integer_internal_digit_separator"], sep=ord("1")), "c18_sep_is_digit"),
        ("B", pack(10, flags=S | F["integer_internal_digit_separator"], sep=ord("+")), "c18_sep_is_sign"),
        ("B", pack(10, flags=S | F["integer_internal_digit_separator"], sep=0x80), "c18_sep_not_ascii"),
        ("B", pack(16, flags=S, prefix=ord("a")), "c18_prefix_is_digit"),
        ("B", pack(16, flags=S, suffix=ord("F")), "c18_suffix_is_digit"),
        ("B", pack(16, flags=S | F["integer_internal_digit_separator"], sep=US, prefix=US), "c18_sep_eq_prefix"),
        ("B", pack(16, flags=S, prefix=ord("h"), suffix=ord("h")), "c18_prefix_eq_suffix"),
        # bad radices
        ("B", pack(1), "c18_radix1"),
        ("B", pack(37), "c18_radix37"),
        ("B", pack(0, 0, 0), "c18_radix0"),
        ("F", pack(10, 1, 10), "c18_expbase1"),
        ("F", pack(10, 10, 37), "c18_expradix37"),
        # valid radices, unsupported mantissa-radix / exponent-base pair (`check_radix!`)
        ("F", pack(8, 4, 10), "c18_mixed_8_4"),
        # valid formats carrying punctuation, to combine with clashing option characters
        ("F", pack(10, flags=S | F["integer_internal_digit_separator"] | F["fraction_internal_digit_separator"], sep=US),
         "c18_ok_sep"),
        ("F", pack(16, 16, 10, flags=S, prefix=ord("x"), suffix=ord("h")), "c18_ok_prefix_suffix"),
    ]
    return out


def by_name():
    return {n: v for _, v, n in extra_formats()}
