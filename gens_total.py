"""Generators for C10 (parsers are total) and C11 (partial and complete parsers agree).

Formats come from harness/formats.txt (kinds I/F/B = instantiated for the integer parsers / the float parsers /
both).  Strings are latin-1 `str`s (code points 0..255 = bytes).  Families:

  bytes    arbitrary bytes: all 256 values, lengths 0..40 (uniform / alphabet-biased / high and control bytes)
  junk     a well-formed numeral of the format followed by 1..6 junk bytes
  endings  a (possibly empty) numeral followed by a separator / sign / exponent / decimal point / base prefix /
           base suffix / special-string letter (the region where the look-ahead of the skip iterators decides)
  long     digit runs of 21..60 digits per component, with and without separators at leading / internal /
           trailing / consecutive positions (re-parse of a many-digit mantissa from the stored digit slices)
  special  the nan / inf / infinity strings, their prefixes and one-byte extensions, signed
  edge     hand-written edge cases ("+a", "1_", "1._1234567890123456789", ...)
"""
import os

import gens
import gens_float
from gens import INT_TYPES, hexs, pack
from gens_float import Opts, fmt_info, default_opts, digit_run, sprinkle, WHERES

ROOT = os.path.dirname(os.path.abspath(__file__))
STD = pack(10)
FLOAT_TYPES = ("f64", "f32")
INT_TYPE_NAMES = list(INT_TYPES)


# ---------------------------------------------------------------------------------------------
# formats

def catalogue():
    out = []
    for line in open(os.path.join(ROOT, "harness", "formats-total.txt")):
        t = line.split()
        if len(t) >= 3 and not t[0].startswith("#"):
            out.append((t[0], int(t[1], 16), t[2]))
    return out


def deliberately_invalid(name):
    return name.startswith("inv_") or (name.startswith("c18_") and not name.startswith("c18_ok"))


def usable(fmt, fs):
    """can `fmt` be a valid format in feature set fs (radices / flags supported by the compiled crate)"""
    info = fmt_info(fmt)
    rads = {info["radix"], info["base"], info["exprad"]}
    if "radix" in fs:
        okr = all(2 <= r <= 36 for r in rads)
    elif "pow2" in fs:
        okr = rads <= {2, 4, 8, 10, 16, 32}
    else:
        okr = rads == {10}
    if not okr:
        return False
    if "format" in fs:
        return True
    # without `format` every flag / punctuation byte is ignored or rejected: use flag-free formats only
    return info["flags"] == 0xC and not (info["sep"] or info["prefix"] or info["suffix"])


def formats_for(fs, which):
    """valid formats of the catalogue for the integer (`which`="I") or float ("F") parsers in feature set fs"""
    out = []
    seen = set()
    for kind, v, name in catalogue():
        if kind not in (which, "B") or v in seen or deliberately_invalid(name) or not usable(v, fs):
            continue
        seen.add(v)
        out.append((v, name))
    if not out:
        out = [(STD, "radix10")]
    return out


def invalid_formats_for(fs, which):
    out = []
    for kind, v, name in catalogue():
        if kind in (which, "B") and (deliberately_invalid(name) or not usable(v, fs)):
            out.append((v, name))
    return out


# ---------------------------------------------------------------------------------------------
# strings

def ch(b):
    return chr(b) if b else ""


def flipc(c, rng):
    return c.swapcase() if c.isalpha() and rng.random() < 0.3 else c


def numeral(info, o, rng, is_float, maxrun=6):
    """a (mostly) well-formed numeral of the format"""
    sep = info["sep"]
    s = rng.choice(["", "", "", "+", "-"])
    if info["prefix"] and rng.random() < 0.5:
        s += "0" + flipc(chr(info["prefix"]), rng)
    s += sprinkle(digit_run(info, rng.randint(0 if rng.random() < 0.15 else 1, maxrun), rng, zeros=True), sep, rng,
                  rng.choice(WHERES))
    if is_float:
        if rng.random() < 0.6:
            s += chr(o.dp) + sprinkle(digit_run(info, rng.randint(0, maxrun), rng, zeros=True), sep, rng, rng.choice(WHERES))
        if rng.random() < 0.5:
            er = {"radix": info["exprad"]}
            s += flipc(chr(o.exp), rng) + rng.choice(["", "", "+", "-"])
            s += sprinkle(digit_run(er, rng.randint(0 if rng.random() < 0.2 else 1, 3), rng, zeros=True), sep, rng,
                          rng.choice(WHERES))
    if info["suffix"] and rng.random() < 0.5:
        s += flipc(chr(info["suffix"]), rng)
    return s


def ending_tokens(info, o, is_float):
    sep = ch(info["sep"]) or "_"
    out = [sep, sep + sep, "+", "-", sep + "+", "+" + sep, sep + "-", "0", "0" + sep, sep + "0", " ", "\x00", "\xff"]
    if is_float:
        e, d = chr(o.exp), chr(o.dp)
        out += [e, e.swapcase(), e + "+", e + "-", e + sep, e + "+" + sep, e + sep + "1", e + "1" + sep, e + sep + sep + "1",
                e + e, d, d + sep, d + sep + sep, sep + d, d + e, sep + e, d + sep + e, d + d, e + d, d + "+", d + sep + "1"]
    if info["prefix"]:
        p = chr(info["prefix"])
        out += ["0" + p, p, "0" + p.swapcase(), "0" + p + sep, "0" + sep + p, "0" + p + p, "0" + p + "0" + p, sep + "0" + p]
    if info["suffix"]:
        x = chr(info["suffix"])
        out += [x, x.swapcase(), x + x, x + sep, sep + x, sep + sep + x, x + "1", x + " "]
        if is_float:
            out += [chr(o.exp) + x, chr(o.dp) + x, chr(o.exp) + "1" + x, chr(o.exp) + "1" + sep + x]
    out += ["n", "i", "N", "I", "na", "in", "nan", "inf", "NaN", "infinity"]
    return out


def ending_strings(info, o, rng, is_float, n):
    toks = ending_tokens(info, o, is_float)
    out = []
    # every token bare, after a sign, and after one digit
    for t in toks:
        out += [t, "-" + t, "1" + t]
    for _ in range(n):
        body = rng.choice(["", "+", "-"]) if rng.random() < 0.15 else numeral(info, o, rng, is_float, maxrun=4)
        out.append(body + rng.choice(toks))
    return out


def random_bytes(info, o, rng, n, maxlen=40):
    alpha = gens_float.alphabet(info, o)
    out = [""]
    for _ in range(n):
        ln = rng.randint(0, maxlen) if rng.random() < 0.5 else rng.randint(0, 10)
        mode = rng.random()
        if mode < 0.5:
            s = "".join(chr(rng.randrange(256)) for _ in range(ln))
        elif mode < 0.75:
            s = "".join(rng.choice(alpha) if rng.random() < 0.6 else chr(rng.randrange(256)) for _ in range(ln))
        elif mode < 0.9:
            s = "".join(chr(rng.choice((0x00, 0x01, 0x7F, 0x80, 0xFF, 0xC3, 0xA9, 0x2F, 0x3A, 0x40, 0x5B, 0x60, 0x7B, 0x0A, 0x09)))
                        for _ in range(ln))
        else:
            s = "".join(rng.choice("0123456789abcdefABCDEFxXzZ_.,+-eEpP^ nNaAiIfFtTyY'") for _ in range(ln))
        out.append(s)
    return out


def junk_strings(info, o, rng, is_float, n):
    alpha = gens_float.alphabet(info, o)
    out = []
    for _ in range(n):
        k = rng.randint(1, 6)
        junk = "".join(chr(rng.randrange(256)) if rng.random() < 0.6 else rng.choice(alpha) for _ in range(k))
        out.append(numeral(info, o, rng, is_float, maxrun=rng.choice((3, 6, 12))) + junk)
    return out


LONG_RUNS = [0, 1, 2, 19, 20, 21, 22, 25, 30, 40, 60]


def long_strings(info, o, rng, is_float, n):
    """digit runs with more than 20 digits in total, with and without separators"""
    sep = info["sep"]
    out = []
    r = info["radix"]
    one = "1"
    nine = "0123456789abcdefghijklmnopqrstuvwxyz"[r - 1]
    d19 = "".join("0123456789abcdefghijklmnopqrstuvwxyz"[(i + 1) % r] for i in range(19))
    s_ = ch(sep) or "_"
    dp = chr(o.dp) if is_float else "."
    # fixed shapes (the first is the known debug-build panic under sep_itc)
    out += [one + dp + s_ + d19, one + dp + s_ + s_ + d19, s_ + d19 + d19, d19 + s_ + d19, d19 + d19 + s_, d19 + s_ + s_ + d19,
            one + s_ + dp + d19 + "1", s_ + dp + d19 + d19, nine * 21, nine * 40, "0" * 30 + nine * 21,
            one + dp + "0" * 25 + d19 + d19, dp + d19 + d19, "-" + nine * 25 + dp + nine * 25,
            d19 + dp + s_ + d19, d19 + s_ + dp + s_ + d19 + s_, s_.join(d19 + d19), s_ + s_.join(d19 + "12") + s_]
    for _ in range(n):
        ni = rng.choice(LONG_RUNS)
        nf = rng.choice(LONG_RUNS + [None]) if is_float else None
        if ni + (nf or 0) <= 20:
            ni = rng.choice((21, 25, 40))
        s = rng.choice(["", "", "+", "-"])
        if info["prefix"] and rng.random() < 0.5:
            s += "0" + chr(info["prefix"])
        lead = rng.choice(["", "", "0", "0" * rng.randint(1, 25)])
        where = rng.choice(WHERES) if rng.random() < 0.7 else "none"
        s += sprinkle(lead + digit_run(info, ni, rng), sep, rng, where)
        if nf is not None:
            fl = rng.choice(["", "", "0" * rng.randint(1, 25)])
            where = rng.choice(WHERES) if rng.random() < 0.7 else "none"
            s += chr(o.dp) + sprinkle(fl + digit_run(info, nf, rng, zeros=True), sep, rng, where)
        if is_float and rng.random() < 0.4:
            ne = rng.choice([0, 1, 2, 3, 12, 25])
            e = "".join(rng.choice("0123456789"[:min(info["exprad"], 10)]) for _ in range(ne))
            s += flipc(chr(o.exp), rng) + rng.choice(["", "+", "-"]) + sprinkle(e, sep, rng, rng.choice(WHERES))
        if info["suffix"] and rng.random() < 0.5:
            s += chr(info["suffix"])
        if rng.random() < 0.2:
            s += rng.choice([" ", "x", dp, s_, "1", "\xff", "e", "+"])
        out.append(s)
    return out


SPECIAL_CORE = ["NaN", "nan", "inf", "infinity", "Infinity", "INF", "-inf", "+NaN", "-NaN", "+inf", "-infinity", "nan1", "infinit",
                "infinityx", "infx", "in", "i", "n", "na", "N", "-i", "-n", "+", "-", "infi", "infin", "infini", "-infinit",
                "nanx", "NaN ", "inf0", "inf.", "inf_", "_inf", "i_nf", "na_n", "nan_", "-_inf", "--inf", "+-inf", ".inf", "0inf",
                "1nan", "infe1", "nane1", "infinityinfinity", "infinf", "nannan"]


def special_strings(info, o, rng):
    out = list(SPECIAL_CORE)
    for x in (o.nan, o.inf, o.infinity):
        if x in ("-", "_"):
            continue
        t = bytes.fromhex(x).decode("latin-1")
        for sg in ("", "-", "+"):
            out += [sg + t, sg + t[:-1], sg + t + "1", sg + t + t[-1], sg + t.upper(), sg + t.lower(), sg + t + chr(o.dp),
                    sg + t + chr(o.exp) + "1"]
            if info["sep"]:
                s = chr(info["sep"])
                out += [sg + t + s, sg + s + t, sg + t[:1] + s + t[1:], sg + t[:-1] + s + t[-1:], sg + t + s + s, sg + s.join(t)]
    return out


INT_EDGE = ["", "+", "-", "a", "+a", "-a", "12a", "1_", "_1", "1__2", "1_2", "_", "__", "+_", "_+1", "+_1", "-_1_", "0", "00", "01",
            "-0", "+0", "-00", "0_", "_0", "0_1", "0a", "0x", "0x1", "0X1", "0xx", "+0x", "-0x1", "0x_1", "0_x1", "1h", "1H", "h", "1hh",
            "1_h", "0d", "0d1", "0dh", "0d1h", "1 ", " 1", "+-1", "--1", "++1", "1+", "1-", "1e5", "1.5", "9" * 50, "-" + "9" * 50,
            "0" * 50, "0" * 50 + "1", "1" + "_1" * 25, "_" * 30, "255", "256", "-128", "-129", "127", "128", "4294967296",
            "18446744073709551616", "340282366920938463463374607431768211456", "-170141183460469231731687303715884105729"]

FLOAT_EDGE = ["", "+", "-", ".", "+.", "-.", "e", "e5", ".e5", "1e", "1e+", "1e-", "1.", ".1", "1..", "1.e", "1.e5", "1e5.", "1_", "_1",
              "1._1234567890123456789", "1._12345678901234567890", "1_._1234567890123456789", "1.1234567890123456789_",
              "_1234567890123456789.5", "12345678901234567890_", "1p1_a", "1p1_", "0x1p1_a", "0x1p1_", "0x", "0x.", "0x.p", "0xp1",
              "1h", "1.5h", "1e5h", "h", "1hh", "1_h", "0d", "0d1", "0d.", "0d1.5e3h", "1 ", " 1", "1e5e5", "1.5.5", "--1", "+-1", "1+",
              "1e1_", "1e_1", "1e+_1", "1e1__2", "1.5_", "1._5", "1_.5", "1__.5", "0e", "0.", "-0", "-.e", "1e99999999999999999999",
              "1e-99999999999999999999", "0e99999999999999999999", "." + "0" * 40 + "1", "1" + "0" * 400, "9" * 800,
              "1." + "9" * 800 + "e-300", "4.9406564584124654e-324", "2.4703282292062327e-324", "1.7976931348623159e308"]


def total_strings(info, o, rng, is_float, scale=1.0):
    """{family: [strings]} for one format"""
    k = lambda n: max(1, int(n * scale))
    fam = {
        "bytes": random_bytes(info, o, rng, k(40)),
        "junk": junk_strings(info, o, rng, is_float, k(25)),
        "endings": ending_strings(info, o, rng, is_float, k(25)),
        "long": long_strings(info, o, rng, is_float, k(20)),
    }
    if is_float:
        sp = special_strings(info, o, rng)
        fam["special"] = rng.sample(sp, min(len(sp), k(30)))
        fam["edge"] = FLOAT_EDGE
    else:
        fam["edge"] = INT_EDGE
    return fam


# ---------------------------------------------------------------------------------------------
# ops

def enc(s):
    return hexs(s.encode("latin-1") if isinstance(s, str) else s)


def op_pi(ty, fmt, partial, nomulti, s, facade=False):
    return "%spi %s %x %d %d %s" % ("L" if facade else "", ty, fmt, partial, nomulti, enc(s))


def op_pf(ty, fmt, partial, o, s, facade=False):
    return "%spf %s %x %d %s %s" % ("L" if facade else "", ty, fmt, partial, o.fields(), enc(s))


def op_dpi(ty, partial, s, facade=False):
    return "%sdpi %s %d %s" % ("L" if facade else "", ty, partial, enc(s))


def op_dpf(ty, partial, s, facade=False):
    return "%sdpf %s %d %s" % ("L" if facade else "", ty, partial, enc(s))


ALT_OPTS = [
    dict(exp=ord("^"), dp=ord(",")),
    dict(exp=ord("@"), dp=ord(";")),
    dict(exp=ord("x"), dp=ord("!")),
]


def opts_for(info, rng, custom_share=0.25):
    """STANDARD-like options of the format, or (with probability custom_share) custom punctuation / special strings"""
    o = default_opts(info)
    if rng.random() >= custom_share:
        return o
    a = rng.choice(ALT_OPTS)
    m = max(info["radix"], info["exprad"])
    exp = a["exp"]
    if chr(exp).isalpha() and m > 10 and int(chr(exp), 36) < m:
        exp = ord("^")
    if exp in (info["prefix"], info["suffix"], info["sep"]) or chr(exp).lower() in (ch(info["prefix"]).lower(), ch(info["suffix"]).lower()):
        exp = ord("^")
    sp = rng.choice(gens_float.SPECIAL_OPTS)
    return Opts(exp=exp, dp=a["dp"], nan=sp[0], inf=sp[1], infinity=sp[2], lossy=rng.randint(0, 1))


def total_ops(rng, fs, scale=1.0, pair=False):
    """C10 / C11 op families {family: [ops]}: every string through the complete AND the partial entry point
    (adjacent ops), integer strings through `pi` (12 types) and float strings through `pf` (2 types)."""
    res = {}

    def add(fam, op):
        res.setdefault(fam, []).append(op)

    ifmts = formats_for(fs, "I")
    ffmts = formats_for(fs, "F")
    few = len(ffmts) < 8          # non-format feature set: few formats, spend the budget on types x strings
    sc = scale * (6.0 if few else 1.0)
    for fmt, name in ifmts:
        info = fmt_info(fmt)
        o = default_opts(info)
        isc = sc * (1.0 if (info["sep"] or info["prefix"] or info["suffix"] or info["flags"] != 0xC or few) else 0.4)
        for fam, strs in total_strings(info, o, rng, False, isc).items():
            for s in strs:
                tys = INT_TYPE_NAMES if (few and fam == "edge") else [rng.choice(INT_TYPE_NAMES)]
                for ty in tys:
                    nm = 1 if rng.random() < 0.25 else 0
                    add("int-" + fam, op_pi(ty, fmt, 0, nm, s))
                    add("int-" + fam, op_pi(ty, fmt, 1, nm, s))
    for fmt, name in ffmts:
        info = fmt_info(fmt)
        plain = not (info["sep"] or info["prefix"] or info["suffix"] or info["flags"] != 0xC)
        fsc = sc * (0.5 if (plain and not few) else 1.0)
        o0 = default_opts(info)
        for fam, strs in total_strings(info, o0, rng, True, fsc).items():
            for s in strs:
                o = o0
                if fam not in ("edge",) and rng.random() < 0.2:
                    o = opts_for(info, rng, 1.0)
                    if fam in ("endings", "junk", "long"):
                        # re-target the punctuation of the string to the custom option bytes
                        s = s.replace(chr(o0.dp), "\x01").replace(chr(o0.exp), chr(o.exp)).replace("\x01", chr(o.dp))
                tys = FLOAT_TYPES if few else [("f64" if rng.random() < 0.7 else "f32")]
                for ty in tys:
                    add("float-" + fam, op_pf(ty, fmt, 0, o, s))
                    add("float-" + fam, op_pf(ty, fmt, 1, o, s))
    # default API (no format, default options) and the `lexical` facade
    info = fmt_info(STD)
    o = default_opts(info)
    for fam, strs in total_strings(info, o, rng, False, scale * 2).items():
        for s in strs:
            ty = rng.choice(INT_TYPE_NAMES)
            fac = rng.random() < 0.3
            add("default-api", op_dpi(ty, 0, s, fac))
            add("default-api", op_dpi(ty, 1, s, fac))
    for fam, strs in total_strings(info, o, rng, True, scale * 2).items():
        for s in strs:
            ty = rng.choice(FLOAT_TYPES)
            fac = rng.random() < 0.3
            add("default-api", op_dpf(ty, 0, s, fac))
            add("default-api", op_dpf(ty, 1, s, fac))
            if rng.random() < 0.2:
                add("default-api", op_pf(ty, STD, 0, o, s, True))
                add("default-api", op_pf(ty, STD, 1, o, s, True))
    return res


def invalid_format_ops(rng, fs):
    """error paths of the entry points: formats that are invalid (in this feature set)"""
    ops = []
    strs = ["", "1", "+1", "1.5e3", "nan", "1_0", "0x1", "\xff"]
    for v, name in invalid_formats_for(fs, "I")[:40]:
        for s in strs:
            for p in (0, 1):
                ops.append(op_pi(rng.choice(INT_TYPE_NAMES), v, p, 0, s))
    for v, name in invalid_formats_for(fs, "F")[:60]:
        info = fmt_info(v)
        if not (2 <= info["radix"] <= 36 and 2 <= info["exprad"] <= 36):
            o = Opts()
        else:
            o = default_opts(info)
        for s in strs:
            for p in (0, 1):
                ops.append(op_pf(rng.choice(FLOAT_TYPES), v, p, o, s))
    return ops


# ---------------------------------------------------------------------------------------------
# C11: streams targeted at the complete/partial relation

KNOWN_FLOAT = [
    # (format name, options or None = default_opts, inputs)
    ("flag_no_required_mantissa_digits", None, ["NaN", "-inf", "-x", "-", "+x"]),
    ("flag_none", None, ["inf", "-NaN", "-1"]),
    ("sep_iltc_noreq", None, ["-_x", "_inf", "-__"]),
    ("sep_i_hexfloat_prefix", None, ["1p1_a", "1p1_", "0x1p1_a"]),
    ("radix30", None, ["infinity", "infinit", "inf"]),
    ("radix19", None, ["inf", "+Inf"]),
    ("radix28", Opts(exp=ord("x"), dp=ord("!")), ["nanx", "nan"]),
    ("mixed_32_2_10", None, ["infinity"]),
    ("sep_itc", None, ["1._1234567890123456789"]),
]


KNOWN_INT = {
    "int_nolz": ("0", "+0", "-0"), "int_nolz_sep_l": ("_0", "0"), "int_suffix_h": ("1+1", "1+", "0 h"),
    "int_prefix_x": ("0xg", "0x", "0xx"), "int_prefix_d": ("0d+", "0d"), "int_prefix_suffix_sep_iltc": ("1+_", "1h_", "10x_"),
}


def special_digit_formats(fs):
    """radix >= 19 formats in which letters of inf / NaN / infinity are digits"""
    return [(v, n) for v, n in formats_for(fs, "F") if fmt_info(v)["radix"] >= 16]


def agree_ops(rng, fs, scale=1.0):
    """{family: [ops]}; every input as the complete op followed by the partial op"""
    res = {}

    def addf(fam, ty, fmt, o, s):
        res.setdefault(fam, []).append(op_pf(ty, fmt, 0, o, s))
        res[fam].append(op_pf(ty, fmt, 1, o, s))

    def addi(fam, ty, fmt, nm, s):
        res.setdefault(fam, []).append(op_pi(ty, fmt, 0, nm, s))
        res[fam].append(op_pi(ty, fmt, 1, nm, s))

    ifmts = formats_for(fs, "I")
    ffmts = formats_for(fs, "F")
    few = len(ffmts) < 8
    k = lambda n: max(1, int(n * scale * (5 if few else 1)))
    fty = lambda: "f64" if rng.random() < 0.75 else "f32"

    # floats: the C12 syntax inputs (gens_float), both entry points on every string
    for fmt, name in ffmts:
        info = fmt_info(fmt)
        o = default_opts(info)
        plain = not (info["sep"] or info["prefix"] or info["suffix"] or info["flags"] != 0xC)
        w = 0.4 if (plain and not few) else 1.0
        kk = lambda n: max(1, int(k(n) * w))
        short = gens_float.short_strings(info, o, rng, exh=2, nsample=kk(200), maxlen=6)
        for s in short:
            addf("f-short", fty(), fmt, o, s)
        alt = Opts(exp=ord("^"), dp=ord(","))
        for s in gens_float.short_strings(info, alt, rng, exh=1, nsample=kk(40)):
            addf("f-short", fty(), fmt, alt, s)
        if gens_float.long_reliable(info) or True:
            for s in gens_float.long_strings(info, o, rng, n=kk(40)):
                addf("f-long", fty(), fmt, o, s)
        es = gens_float.exponent_strings(info, o, rng)
        for s in rng.sample(es, min(len(es), kk(40))):
            addf("f-exp", fty(), fmt, o, s)
        for sp in gens_float.SPECIAL_OPTS:
            oo = Opts(o.exp, o.dp, *sp)
            ss = gens_float.special_strings(info, oo, rng) + special_strings(info, oo, rng)
            n = kk(70) if sp is gens_float.DEFAULT_SPECIALS else kk(12)
            for s in rng.sample(ss, min(len(ss), n)):
                addf("f-special", fty(), fmt, oo, s)
        for s in ["NaN", "inf", "infinity", "-inf", "+NaN", "nan1", "infinit", "-", "+", "-nan", "in", "-i", "+infinityy"]:
            addf("f-special", "f64", fmt, o, s)
        for s in ending_strings(info, o, rng, True, kk(40)):
            addf("f-endings", fty(), fmt, o, s)
        for s in FLOAT_EDGE if (few or not plain) else FLOAT_EDGE[:40]:
            addf("f-edge", "f64", fmt, o, s)
        for s in random_bytes(info, o, rng, kk(12), maxlen=12) + junk_strings(info, o, rng, True, kk(12)):
            addf("f-bytes", fty(), fmt, o, s)
        # custom punctuation / special strings
        for _ in range(kk(6)):
            oo = opts_for(info, rng, 1.0)
            for s in ending_strings(info, oo, rng, True, 3)[-3:] + junk_strings(info, oo, rng, True, 2) + \
                    rng.sample(special_strings(info, oo, rng), 3):
                addf("f-custom", fty(), fmt, oo, s)
    # radix >= 16 formats where the letters of the special strings are digits
    for fmt, name in special_digit_formats(fs):
        info = fmt_info(fmt)
        o = default_opts(info)
        for s in SPECIAL_CORE + ["infinity1", "inf.1", "nan.", "inf^1", "infp1", "nanp1", "1inf", "1nan", "ainf", "-infinity",
                                 "+infinit", "Infinity", "INFINITY", "nAn", "iNf"]:
            addf("f-special-digits", "f64", fmt, o, s)
    # integers
    for fmt, name in ifmts:
        info = fmt_info(fmt)
        o = default_opts(info)
        plain = not (info["sep"] or info["prefix"] or info["suffix"] or info["flags"] != 0xC)
        w = 0.3 if (plain and not few) else 1.0
        kk = lambda n: max(1, int(k(n) * w))
        alpha = [a for a in gens_float.alphabet(info, o) if a not in (chr(o.dp),)] + ["a", "z"]
        alpha = list(dict.fromkeys(alpha))
        short = [""] + alpha + [a + b for a in alpha for b in alpha]
        for _ in range(kk(200)):
            short.append("".join(rng.choice(alpha) for _ in range(rng.randint(3, 6))))
        for s in short:
            addi("i-short", rng.choice(INT_TYPE_NAMES), fmt, 1 if rng.random() < 0.25 else 0, s)
        for s in INT_EDGE:
            for ty in (INT_TYPE_NAMES if few else [rng.choice(INT_TYPE_NAMES), "i32", "u8"]):
                addi("i-edge", ty, fmt, 0, s)
        for s in ending_strings(info, o, rng, False, kk(40)) + junk_strings(info, o, rng, False, kk(20)) + \
                long_strings(info, o, rng, False, kk(10)) + random_bytes(info, o, rng, kk(10), maxlen=12):
            addi("i-endings", rng.choice(INT_TYPE_NAMES), fmt, 1 if rng.random() < 0.25 else 0, s)
        ty = rng.choice(INT_TYPE_NAMES)
        vals = gens.int_strings(ty, info["radix"], rng, 1)
        for s in rng.sample(vals, min(len(vals), kk(40))):
            addi("i-values", ty, fmt, 0, s.decode("latin-1"))
    # one minimal witness per violation class found so far (always re-run; format-specific, so not in corpus/C11.ops)
    byname = {n: v for v, n in ffmts}
    for name, oo, strs in KNOWN_FLOAT:
        if name in byname:
            oo = oo or default_opts(fmt_info(byname[name]))
            for s in strs:
                addf("known", "f64", byname[name], oo, s)
    for v, name in ifmts:
        for s in ("+a", "-a", "+", "-") + KNOWN_INT.get(name, ()):
            addi("known", "i32", v, 0, s)
    # default API
    info = fmt_info(STD)
    o = default_opts(info)
    dstr_i = INT_EDGE + ending_strings(info, o, rng, False, k(40)) + junk_strings(info, o, rng, False, k(40))
    for s in dstr_i:
        ty = rng.choice(INT_TYPE_NAMES)
        fac = rng.random() < 0.25
        res.setdefault("default-api", []).append(op_dpi(ty, 0, s, fac))
        res["default-api"].append(op_dpi(ty, 1, s, fac))
    dstr_f = FLOAT_EDGE + SPECIAL_CORE + ending_strings(info, o, rng, True, k(60)) + junk_strings(info, o, rng, True, k(40)) + \
        gens_float.short_strings(info, o, rng, exh=2, nsample=k(100)) + gens_float.long_strings(info, o, rng, n=k(40))
    for s in dstr_f:
        ty = rng.choice(FLOAT_TYPES)
        fac = rng.random() < 0.25
        res["default-api"].append(op_dpf(ty, 0, s, fac))
        res["default-api"].append(op_dpf(ty, 1, s, fac))
    return res


# ---------------------------------------------------------------------------------------------
# op helpers shared by props/C10.py and props/C11.py

def op_parts(op):
    """(name, partial_index, input_bytes) of a parse op; None for other ops"""
    t = op.split(" ")
    name = t[0][1:] if t[0].startswith("L") else t[0]
    if name in ("pi", "pf"):
        pidx = 3
    elif name in ("dpi", "dpf"):
        pidx = 2
    else:
        return None
    h = t[-1]
    data = b"" if h in ("_", "-") else bytes.fromhex(h)
    return t, pidx, data


def with_input(t, pidx, partial, data):
    t2 = list(t)
    t2[pidx] = "%d" % partial
    t2[-1] = hexs(data)
    return " ".join(t2)
