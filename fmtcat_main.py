"""Formats used by the integrator's own property modules (C15, C08, C16, C09...)."""
from gens import pack


def extra_formats():
    out = []
    out.append(("B", 0xC | (10 << 104), "STANDARD"))
    # C15
    out.append(("F", pack(10, flags=0xC | (1 << 10)), "c15_no_special"))
    out.append(("F", pack(10, flags=0xC | (1 << 11)), "c15_case_sensitive_special"))
    out.append(("F", pack(10, flags=0xC | (1 << 44) | (1 << 32) | (1 << 33), sep=0x5F), "c15_special_sep"))
    out.append(("B", pack(10, flags=0xC | (1 << 5)), "reqsign10_b"))
    # C08: required/forbidden signs and exponent notation, for floats and integers
    for name, fl in (("no_pos_sign", 1 << 4), ("req_exp_notation", 1 << 14), ("no_exp_notation", 1 << 6), ("req_exp_sign", 1 << 8),
                     ("no_pos_exp_sign", 1 << 7), ("no_exp_without_frac", 1 << 9), ("req_int_digits", 1 << 0), ("req_frac_digits", 1 << 1),
                     ("req_digits_all", 0x3), ("case_sens_exp", 1 << 15), ("no_int_leading_zeros", 1 << 12), ("no_float_leading_zeros", 1 << 13)):
        out.append(("B", pack(10, flags=0xC | fl), "c08_" + name))
    for r in (2, 16, 36):
        out.append(("B", pack(r, flags=0xC | (1 << 5)), "c08_reqsign_r%d" % r))
        out.append(("F", pack(r, flags=0xC | (1 << 14)), "c08_reqexp_r%d" % r))
    return out
