"""Component-level op generator for the big-integer slow path (op `sl` of harness/src/comp_parse.rs, model in
lean/LexVerif/Model/{Slow,SlowBytes}.lean, handler lean/LexVerif/Model/Ops/Slow.lean).

    sl TY FMT MANT EXP MANY INTHEX FRACHEX|- m              error float = the crate's own moderate path (and, in the
                                                            model column, the model's own moderate path)
    sl TY FMT MANT EXP MANY INTHEX FRACHEX|- FPMANT FPEXP   explicit error float (the exact value truncated to 64 bits)

Inputs (per radix and float type): the exact midpoint between two adjacent floats (subnormal, least normal, powers of
two, random binades, greatest finite / overflow boundary) written with all its digits, cut or zero-padded to L digits
for L in 20..800 and around `max_digits(radix)`, with the last digit +-1; zero / non-zero / all-`r-1` tails beyond the cut;
the digit point inside the integer part, inside the fraction, leading zeros; odd radices (`byte_comp`): integers that are
exact ties, and the infinite expansion of a midpoint cut at L digits (below) and +1 (above); lower-case spellings.
The `Number` fields (mantissa, exponent, many_digits) follow `parse_number` (first u64_step significant digits)."""
import os
import re
import gens

U64 = (1 << 64) - 1
POW2 = (2, 4, 8, 16, 32)
MAX_DIGITS = {
    "f32": {6: 103, 10: 114, 12: 117, 14: 119, 18: 122, 20: 123, 22: 123, 24: 124, 26: 125, 28: 125, 30: 126, 34: 127, 36: 127},
    "f64": {6: 682, 10: 769, 12: 792, 14: 808, 18: 832, 20: 840, 22: 848, 24: 854, 26: 859, 28: 864, 30: 868, 34: 876, 36: 879},
}


def _load_max_digits():
    """`f32_max_digits` / `f64_max_digits` of limits.rs (falls back to the table above)"""
    try:
        import vlib
        src = open(os.path.join(vlib.REPO, "lexical-parse-float/src/limits.rs")).read()
        for ty in ("f32", "f64"):
            m = re.search(r"pub const fn %s_max_digits\(radix: u32\) -> Option<usize> \{\s*match radix \{(.*?)_ =>" % ty, src, re.S)
            d = {int(a): int(b) for a, b in re.findall(r"(\d+) => Some\((\d+)\)", m.group(1))}
            if d:
                MAX_DIGITS[ty] = d
    except Exception:
        pass


_load_max_digits()


def dval(c):
    return gens.DIGITS.index(c.upper())


def fold(s, r, acc=0):
    for c in s:
        acc = (acc * r + dval(c)) & U64
    return acc


def number_fields(int_s, frac_s, E, r):
    """(mantissa, exponent, many_digits) as `parse_number` computes them for `<int_s>.<frac_s>e<E>` (plain format,
    exponent base = radix); `frac_s` None = no point"""
    step = gens.U64_STEP[r]
    fr = frac_s or ""
    n_digits = len(int_s) + len(fr)
    if n_digits <= step:
        return fold(int_s + fr, r), E - len(fr), 0
    zi = len(int_s) - len(int_s.lstrip("0"))
    zf = (len(fr) - len(fr.lstrip("0"))) if (zi == len(int_s) and frac_s is not None) else 0
    nd = n_digits - step - zi - zf
    if nd <= 0:
        return fold(int_s + fr, r), E - len(fr), 0
    sig_int = int_s[zi:]
    k = min(step, len(sig_int))
    mant = fold(sig_int[:k], r)
    if k == step:
        return mant, (len(sig_int) - step) + E, 1
    f2 = fr.lstrip("0") if mant == 0 else fr
    take = step - k
    mant = fold(f2[:take], r, mant)
    consumed = (len(fr) - len(f2)) + take
    return mant, E - consumed, 1


def bias(ty):
    return 1075 if ty == "f64" else 150


def ideal_fp(num, den, ty):
    """the exact value truncated to a normalised 64-bit significand: (mant, exp) with value >= mant * 2^(exp - bias)"""
    e = num.bit_length() - den.bit_length()
    if (num << max(0, -e)) < (den << max(0, e)):
        e -= 1
    sh = 63 - e
    mant = (num << sh) // den if sh >= 0 else num // (den << -sh)
    return mant, e - 63 + bias(ty)


def floats_for(rng, ty, n):
    """(m, e): significand with hidden bit (or subnormal), exponent of its last bit; the midpoint to the next float is
    (2m+1) * 2^(e-1)"""
    p, eb = gens.FLOAT_TYPES[ty]
    emin = 1 - ((1 << (eb - 1)) - 1) - (p - 1)
    emax_field = (1 << eb) - 2
    out = []
    hid = 1 << (p - 1)
    full = (1 << p) - 1
    # subnormals and the least normals
    out += [(0, emin), (1, emin), (2, emin), (hid - 1, emin), (hid, emin), (hid + 1, emin), (full, emin), (hid, emin + 1)]
    out += [(rng.randrange(1, hid), emin) for _ in range(max(2, n // 6))]
    # greatest finite (midpoint = overflow boundary) and its binade
    etop = emin + emax_field - 1
    out += [(full, etop), (full - 1, etop), (hid, etop), (rng.randrange(hid, full), etop)]
    # powers of two and random significands in random binades, denser around 1.0 and around the integers
    for _ in range(n):
        k = rng.choice([rng.randint(1, emax_field), rng.randint(1, 40), (1 << (eb - 1)) - 1 + rng.randint(-5, p + 12), rng.randint(1, emax_field)])
        k = max(1, min(emax_field, k))
        m = rng.choice([hid, full, hid + 1, rng.randrange(hid, full + 1), rng.randrange(hid, full + 1) & ~1])
        out.append((m, emin + k - 1))
    return out


def split2(r):
    s = 0
    o = r
    while o % 2 == 0:
        o //= 2
        s += 1
    return o, s


def midpoint_digits(m, e, r, L=None):
    """midpoint (2m+1) * 2^(e-1) as (digit string I, J): value = int(I) * r^-J exactly (even r), or - odd r, or when L
    is given - floored to L significant digits; `exact` tells which"""
    N = 2 * m + 1
    t = e - 1
    if t >= 0:
        return gens.to_radix(N << t, r), 0, True
    k = -t
    o, s = split2(r)
    if s > 0 and L is None:
        j = -(-k // s)
        I = N * o ** j << (s * j - k)
        return gens.to_radix(I, r), j, True
    # floor to L digits
    L = L or 40
    # number of integer digits of N / 2^k (may be <= 0)
    j = 0
    while (N * r ** j) >> k == 0:
        j += 1
    lead = len(gens.to_radix((N * r ** j) >> k, r))      # 1.. digits at scale j
    J = j + (L - lead)
    if J < 0:
        J = 0
    I = (N * r ** J) >> k
    exact = ((I << k) == N * r ** J)
    return gens.to_radix(I, r), J, exact


def bump(ds, r, d):
    v = int_from(ds, r) + d
    if v <= 0:
        return None
    return gens.to_radix(v, r).rjust(len(ds), "0")


def int_from(ds, r):
    v = 0
    for c in ds:
        v = v * r + dval(c)
    return v


def forms(rng, ds, J, r, rich):
    """literal shapes (int_s, frac_s|None, E) of the value int(ds) * r^-J"""
    out = []
    n = len(ds)
    # scientific: d.ddd e(n-1-J)
    out.append((ds[:1], ds[1:] if n > 1 else None, n - 1 - J))
    # all digits integer
    out.append((ds, None, -J))
    if rich:
        # point at a random place, compensated by the exponent
        pt = rng.randint(0, n)
        out.append((ds[:pt], ds[pt:], (n - pt) - J))
        # plain positional notation when not absurdly long
        if 0 <= J <= n + 40:
            if J < n:
                out.append((ds[: n - J], ds[n - J:] if J else None, 0))
            else:
                out.append((rng.choice(["", "0", "000"]), "0" * (J - n) + ds, 0))
        elif J < 0 and -J < 60:
            out.append((ds + "0" * (-J), None, 0))
        # leading zeros in the integer part
        z = rng.randint(1, 30)
        out.append(("0" * z + ds[:1], ds[1:], n - 1 - J))
    return out


def lengths(rng, nd, md, quick):
    base = [20, 21, 25, 30, 40, 64, 100, 200, 400, 767, 768, 769, 770, 800]
    around = [nd - 1, nd, nd + 1, nd + 8]
    if md:
        around += [md - 9, md - 8, md - 2, md - 1, md, md + 1, md + 2, md + 7, md + 8, md + 9, md + 16, md + 100]
    cand = [L for L in base + around if L >= 2]
    if quick:
        cand = rng.sample(cand, min(len(cand), 7)) + [nd] + ([md - 1, md, md + 1] if md else [])
    return sorted(set(L for L in cand if 2 <= L <= 1200))


def sl_op(ty, fmt, r, int_s, frac_s, E, fp="m", lower=False):
    if lower:
        int_s = int_s.lower()
        frac_s = frac_s.lower() if frac_s is not None else None
    mant, exp, many = number_fields(int_s, frac_s, E, r)
    frac = "-" if frac_s is None else gens.hexs(frac_s)
    return "sl %s %s %d %d %d %s %s %s" % (ty, fmt, mant, exp, many, gens.hexs(int_s), frac, fp)


def value_of(int_s, frac_s, E, r):
    fr = frac_s or ""
    v = int_from(int_s + fr, r)
    e = E - len(fr)
    return (v * r ** e, 1) if e >= 0 else (v, r ** (-e))


def sl_ops(rng, fs, tier, rads, lowercase=False):
    quick = tier == "quick"
    ops = []
    rads = [r for r in rads if r not in POW2]
    if not rads:
        return ops
    nfl = (10 if quick else 60) if len(rads) == 1 else (3 if quick else 14)
    for r in rads:
        fmt = gens.fmt_hex(gens.pack(r))
        maxd = gens.DIGITS[r - 1]
        even = r % 2 == 0
        for ty in ("f64", "f32"):
            md = MAX_DIGITS[ty].get(r)
            for (m, e) in floats_for(rng, ty, nfl):
                cases = []          # (digits, J)
                if even:
                    ds, J, _ = midpoint_digits(m, e, r)
                    nd = len(ds.lstrip("0")) or 1
                    for L in lengths(rng, len(ds), md, quick):
                        if L >= len(ds):
                            base, JJ = ds + "0" * (L - len(ds)), J + (L - len(ds))
                            vs = [base, bump(base, r, 1), bump(base, r, -1)]
                        else:
                            base, JJ = ds[:L], J - (len(ds) - L)
                            vs = [base, bump(base, r, 1)]
                            if ds[L:].strip("0") == "":
                                vs.append(bump(base, r, -1))
                        cases += [(v, JJ) for v in vs if v]
                    # tails beyond the full expansion: zero, non-zero, all r-1 below
                    z = rng.choice([1, 3, 20, 200])
                    cases.append((ds + "0" * z, J + z))
                    cases.append((ds + "0" * z + "1", J + z + 1))
                    b1 = bump(ds, r, -1)
                    if b1:
                        cases.append((b1 + maxd * z, J + z))
                    if md:
                        # cut exactly at max_digits with zero and non-zero cut tails (the `+1` adjustment of parse_mantissa)
                        for L in (md - 1, md, md + 1):
                            if L > len(ds):
                                pad = ds + "0" * (L - len(ds))
                                for tail in ("0" * 9, "0" * 8 + "1", "1", "0" * 40, maxd):
                                    cases.append((pad + tail, J + (L - len(ds)) + len(tail)))
                else:
                    ds, J, exact = midpoint_digits(m, e, r)
                    if exact and J == 0:
                        cases += [(ds, 0), (bump(ds, r, 1), 0), (ds + "0" * 5, 5), (ds + "0" * 4 + "1", 5)]
                        b1 = bump(ds, r, -1)
                        if b1:
                            cases.append((b1 + maxd * 6, 6))
                    for L in rng.sample([20, 25, 30, 40, 60, 100, 200, 400, 800], 3 if quick else 9):
                        ds2, J2, ex2 = midpoint_digits(m, e, r, L)
                        cases.append((ds2, J2))
                        up = bump(ds2, r, 1)
                        if up:
                            cases.append((up, J2))
                        cases.append((ds2 + maxd * 3, J2 + 3))
                for (ds, J) in cases:
                    if ds is None or ds.strip("0") == "":
                        continue
                    fl = forms(rng, ds, J, r, rich=not quick or rng.random() < 0.3)
                    if quick:
                        fl = rng.sample(fl, min(2, len(fl)))
                    for (i_s, f_s, E) in fl:
                        low = lowercase and r > 10 and rng.random() < 0.5
                        ops.append(sl_op(ty, fmt, r, i_s, f_s, E, "m", lower=low))
                        if rng.random() < (0.25 if quick else 0.5):
                            num, den = value_of(i_s, f_s, E, r)
                            if abs(E) < 3000:
                                fm, fe = ideal_fp(num, den, ty)
                                d = rng.choice([0, 0, 0, 1, 2, 1 << 10]) if fm > (1 << 63) + (1 << 11) else 0
                                ops.append(sl_op(ty, fmt, r, i_s, f_s, E, "%d %d" % (fm - d, fe), lower=low))
    return ops


def has_lower(op):
    t = op.split(" ")
    for h in t[6:8]:
        if h not in ("-", "_") and any(0x61 <= b <= 0x7a for b in bytes.fromhex(h)):
            return True
    return False


def slow_streams(rng, fs, tier, rads):
    """`sl` ops for the generic radices of `rads` the feature set supports; `comp-sl-lower`: lower-case spellings of
    letter digits in odd radices (`compare_bytes` mis-ordered them until /repo 6651793)"""
    sup = gens.radices(fs)
    rads = [r for r in rads if r in sup and r not in POW2]
    if not rads:
        return []
    if tier == "quick" and len(rads) > 8:
        # all even radices with a digit limit rotate by thirds; every odd radix class is sampled
        k = rng.randrange(3)
        keep = [r for i, r in enumerate(rads) if i % 3 == k or r in (6, 12, 36, 3, 35)]
        rads = keep
    ops = sl_ops(rng, fs, tier, rads)
    cap = 40000 if tier == "quick" else 150000
    if len(ops) > cap:
        ops = rng.sample(ops, cap)
    out = [("comp-sl", ops)]
    odd_letters = [r for r in rads if r % 2 == 1 and r > 10]
    if odd_letters:
        low = [op for op in sl_ops(rng, fs, "quick", odd_letters[:: max(1, len(odd_letters) // 4)], lowercase=True)
               if has_lower(op)]
        if low:
            out.append(("comp-sl-lower", low))
    return out
