"""Component-level op generators for the string->float algorithms (ops cf / lm / bel / bin / sbin / fp of
harness/src/comp_parse.rs, models in lean/LexVerif/Model/{Lemire,Bellerophon,Binary,FastPath}.lean).

Inputs are model-guided: every table row (every q), the mantissas 1, 2^53-1, 2^53, 2^64-1, the number-theoretic
worst cases of hard/data (m*r^q closest to a float midpoint), random 64-bit and random sparse mantissas,
many_digits and lossy both ways.
"""
import gens

U64 = (1 << 64) - 1
POW2 = (2, 4, 8, 16, 32)
MIXED = [(4, 2), (8, 2), (16, 2), (32, 2), (16, 4)]


def is_compact(fs):
    return "compact" in fs


def hard_by_q(r, ty):
    d = {}
    for (m, q) in gens.load_hard(r, ty):
        d.setdefault(q, []).append(m)
    return d


def sparse(rng, bits=64, k=3):
    v = 0
    for _ in range(rng.randint(1, k)):
        v |= 1 << rng.randrange(bits)
    return v


def fixed_w(ty):
    p = 53 if ty == "f64" else 24
    return [1, (1 << p) - 1, 1 << p, (1 << p) + 1, U64, 1 << 63, (1 << 63) - 1, 10 ** 19 - 1]


def cf_ops(rng, fs, tier):
    """compute_float(q, w, lossy): every q of the table x fixed / worst-case / random mantissas"""
    if is_compact(fs):
        return []
    ops = []
    nrand = 4 if tier == "quick" else 40
    for ty in ("f64", "f32"):
        hard = hard_by_q(10, ty)
        allm = [m for ms in hard.values() for m in ms] or [1]
        for q in list(range(-342, 309)) + [-343, -344, -400, -1000, 309, 310, 400, 1000, -(1 << 31), (1 << 31) - 1,
                                           -(1 << 40), 1 << 40]:
            ws = list(fixed_w(ty))
            hm = hard.get(q, [])
            ws += [m for m in hm if m <= U64]
            # neighbours of the worst cases: the two-pass wrapper evaluates w and w+1
            ws += [m + 1 for m in hm[:4] if m + 1 <= U64] + [m - 1 for m in hm[:4] if m >= 1]
            if not hm:
                ws += rng.sample(allm, min(6, len(allm)))
            ws += [rng.getrandbits(64) for _ in range(nrand)]
            ws += [sparse(rng) for _ in range(nrand)]
            ws += [rng.getrandbits(rng.randint(1, 64)) for _ in range(nrand)]
            for w in ws:
                ops.append("cf %s %d %d 0" % (ty, q, w))
                if rng.random() < 0.35:
                    ops.append("cf %s %d %d 1" % (ty, q, w))
        ops.append("cf %s 0 0 0" % ty)
        ops.append("cf %s 400 0 0" % ty)
    return ops


def lm_ops(rng, fs, tier):
    """lemire(&Number, lossy): worst cases with many_digits / lossy both ways (the two-pass wrapper)"""
    if is_compact(fs):
        return []
    ops = []
    n = 3000 if tier == "quick" else 40000
    for ty in ("f64", "f32"):
        cases = gens.load_hard(10, ty)
        pick = rng.sample(cases, min(n, len(cases)))
        for (m, q) in pick:
            for mm in (m, m - 1 if m else m):
                if mm > U64:
                    continue
                for many in (0, 1):
                    ops.append("lm %s %d %d %d 0" % (ty, mm, q, many))
                if rng.random() < 0.3:
                    ops.append("lm %s %d %d %d 1" % (ty, mm, q, rng.choice([0, 1])))
        for q in (-342, -343, -100, -27, -28, 0, 1, 27, 55, 56, 100, 308, 309):
            for m in (0, 1, U64, U64 - 1, (1 << 63) - 1, 1 << 63):
                for many in (0, 1):
                    ops.append("lm %s %d %d %d 0" % (ty, m, q, many))
        for _ in range(n // 4):
            ops.append("lm %s %d %d %d %d" % (ty, rng.getrandbits(rng.randint(1, 64)), rng.randint(-345, 310),
                                              rng.choice([0, 1]), rng.choice([0, 0, 1])))
    return ops


def bel_radices(fs):
    if "radix" in fs:
        rs = [r for r in range(2, 37) if r not in POW2]
        if not is_compact(fs):
            rs = [r for r in rs if r != 10]
        return rs
    return [10] if is_compact(fs) else []


def bel_ops(rng, fs, tier):
    """bellerophon::<F, FORMAT>(&Number, lossy): per radix worst cases, many_digits and lossy both ways"""
    ops = []
    per = 150 if tier == "quick" else 3000
    if len(bel_radices(fs)) == 1:
        per *= 20          # decimal only (`compact` without `radix`): spend the whole budget on radix 10
    for r in bel_radices(fs):
        fmt = gens.fmt_hex(gens.pack(r))
        for ty in ("f64", "f32"):
            cases = gens.load_hard(r, ty)
            pick = rng.sample(cases, min(per, len(cases)))
            for (m, q) in pick:
                if m > U64:
                    continue
                for many in (0, 1):
                    for lossy in (0, 1):
                        ops.append("bel %s %s %d %d %d %d" % (ty, fmt, m, q, many, lossy))
                if m > 1:
                    ops.append("bel %s %s %d %d 1 0" % (ty, fmt, m - 1, q))
            for q in (-0x1000, -0x1001, -0xfff, 0xfff, 0x1000, 0x1001, 0, 1, -1):
                for m in (0, 1, U64, 1 << 63, (1 << 53) + 1):
                    ops.append("bel %s %s %d %d %d 0" % (ty, fmt, m, q, rng.choice([0, 1])))
            for _ in range(per // 3):
                ops.append("bel %s %s %d %d %d %d" % (ty, fmt, rng.getrandbits(rng.randint(1, 64)),
                                                      rng.randint(-900, 900) if rng.random() < 0.8 else rng.randint(-5000, 5000),
                                                      rng.choice([0, 1]), rng.choice([0, 0, 1])))
            for _ in range(per // 3):
                ops.append("bel %s %s %d %d %d 0" % (ty, fmt, sparse(rng), rng.randint(-700, 700), rng.choice([0, 1])))
    return ops


def bin_formats(fs):
    if not ("radix" in fs or "pow2" in fs):
        return []
    out = [(r, r, gens.fmt_hex(gens.pack(r))) for r in POW2]
    out += [(r, b, gens.fmt_hex(gens.pack(r, b, 10))) for (r, b) in MIXED]
    return out


def halfway_mantissas(rng, ty, n):
    """mantissas whose bits below the float's precision are exactly / nearly 100..0"""
    p = 53 if ty == "f64" else 24
    out = []
    for _ in range(n):
        width = rng.randint(p + 1, 64)
        top = rng.getrandbits(p) | (1 << (p - 1))
        if rng.random() < 0.5:
            top &= ~1
        low_bits = width - p
        half = 1 << (low_bits - 1)
        low = rng.choice([half, half, half + 1, half - 1 if half > 1 else half, 0, (1 << low_bits) - 1])
        out.append((top << low_bits) | low)
    return out


def bin_ops(rng, fs, tier):
    """binary::<F, FORMAT>(&Number, lossy): power-of-two radices and mixed-base formats"""
    ops = []
    per = 250 if tier == "quick" else 4000
    for (r, b, fmt) in bin_formats(fs):
        lg = b.bit_length() - 1
        for ty in ("f64", "f32"):
            bias = 1075 if ty == "f64" else 150
            cases = gens.load_hard(r, ty) if r == b else []
            pick = rng.sample(cases, min(per, len(cases)))
            ms = [(m, q) for (m, q) in pick if m <= U64]
            # denormal boundary, zero / infinity cut-offs: exponent*lg + bias - ctlz around 0, -63, -64, -65, 2047
            for m in halfway_mantissas(rng, ty, per // 2) + [1, U64, 1 << 63, (1 << 53) + 1, (1 << 24) + 1, 3, 0]:
                ctlz = 64 - m.bit_length()
                for target in (rng.randint(-70, 5), rng.randint(-70, 70), rng.randint(2040, 2050) if ty == "f64" else rng.randint(250, 260),
                               rng.randint(-1200, 1200)):
                    e = (target - bias + ctlz) // lg
                    ms.append((m, e))
            for (m, q) in ms:
                many = rng.choice([0, 1])
                ops.append("bin %s %s %d %d %d 0" % (ty, fmt, m, q, many))
                ops.append("bin %s %s %d %d %d %d" % (ty, fmt, m, q, 1 - many, rng.choice([0, 1])))
            for q in (-(1 << 40), 1 << 40, -(1 << 62), (1 << 62), -0x10000000, 0x10000000):
                ops.append("bin %s %s %d %d 0 0" % (ty, fmt, rng.getrandbits(64) | 1, q))
    return ops


def marker_overflow_ops(rng, fs, tier):
    """binary(): the invalid marker is `power2 + INVALID_FP` (= power2 - 32768), tested as `exp < 0` by the caller:
    half-way-even truncated mantissas at exponents with power2 around and beyond 32768 (component and API level)"""
    comp, api = [], []
    for (r, b, fmt) in bin_formats(fs):
        lg = b.bit_length() - 1
        for ty in ("f64", "f32"):
            bias = 1075 if ty == "f64" else 150
            p = 53 if ty == "f64" else 24
            ms = halfway_mantissas(rng, ty, 6) + [(1 << 63) + (1 << (63 - p))]
            for m in ms:
                ctlz = 64 - m.bit_length()
                for target in (32766, 32767, 32768, 32769, 40000, 65536 + 5, 1 << 30, 1 << 35):
                    e = (target - bias + ctlz) // lg
                    comp.append("bin %s %s %d %d 1 0" % (ty, fmt, m, e))
            if r == b:
                # API level: exactly u64_step digits forming an even half-way pattern, one more non-zero digit
                step = {2: 64, 4: 32, 8: 21, 16: 16, 32: 12}[r]
                width = step * (r.bit_length() - 1)
                top = (1 << (width - 1)) | (1 << (width - 1 - p))
                digits = gens.to_radix(top, r)
                if len(digits) != step:
                    continue
                for e in (30000 // lg, 33000 // lg, 40000 // lg, 70000 // lg):
                    for tail in ("1", "0", "01"):
                        s = digits + tail + chr(gens.exp_char(r)) + gens.exp_str(e, r)
                        api.append(gens.pf_op(ty, fmt, s, r))
    return comp, api


def sbin_ops(rng, fs, tier):
    """slow_binary::<F, FORMAT>(Number{integer, fraction, exponent}): near-halfway digit strings with zero / non-zero tails"""
    ops = []
    per = 120 if tier == "quick" else 2000
    for (r, b, fmt) in bin_formats(fs):
        lg = b.bit_length() - 1
        for ty in ("f64", "f32"):
            bias = 1075 if ty == "f64" else 150
            for m in halfway_mantissas(rng, ty, per):
                digs = gens.to_radix(m, r)
                tail = rng.choice(["", "0" * rng.randint(1, 30), "0" * rng.randint(0, 30) + "1", gens.to_radix(rng.getrandbits(40), r),
                                   "0" * 70 + "1", "0" * 70])
                s = "0" * rng.choice([0, 0, 3]) + digs + tail
                pt = rng.randint(0, len(s))
                integer, fraction = s[:pt], s[pt:]
                e = rng.choice([rng.randint(-20, 20), (rng.randint(-70, 5) - bias) // lg, rng.randint(-400, 400)])
                frac = gens.hexs(fraction) if (fraction or rng.random() < 0.5) else "-"
                ops.append("sbin %s %s %d %s %s" % (ty, fmt, e, gens.hexs(integer), frac))
            ops.append("sbin %s %s 0 _ -" % (ty, fmt))
            ops.append("sbin %s %s 0 %s %s" % (ty, fmt, gens.hexs("000"), gens.hexs("000")))
    return ops


def fp_ops(rng, fs, tier):
    """Number::try_fast_path: every radix x exponents across [min-2, max_disguised+2] x boundary mantissas; mixed-base guard"""
    ops = []
    rads = gens.radices(fs)
    nrand = 6 if tier == "quick" else 60
    fmts = [(r, gens.fmt_hex(gens.pack(r))) for r in rads]
    if "radix" in fs or "pow2" in fs:
        fmts += [(r, gens.fmt_hex(gens.pack(r, b, 10))) for (r, b) in MIXED]
    for (r, fmt) in fmts:
        for ty in ("f64", "f32"):
            p = 53 if ty == "f64" else 24
            lim = 1 << p
            base = [0, 1, 2, lim - 1, lim, lim + 1, lim // 2, 3 * (lim // 4) + 1]
            # limits are not known here: walk a generous exponent window, denser near zero
            if r in POW2:
                hi = (1100 if ty == "f64" else 140) // (r.bit_length() - 1) + 60
            else:
                hi = 80
            exps = list(range(-hi, hi + 1)) if hi <= 120 else (list(range(-60, 61)) + [rng.randint(-hi, hi) for _ in range(120)] +
                                                                list(range(hi - 70, hi + 1)) + list(range(-hi, -hi + 70)))
            for e in exps:
                ms = list(base) + [rng.getrandbits(p) for _ in range(nrand)] + [rng.getrandbits(rng.randint(1, 64)) for _ in range(2)]
                if e > 0:
                    # disguised fast path: m * r^shift around 2^p and around 2^64
                    for sh in range(1, min(e, 20) + 1):
                        ms.append(lim // r ** sh)
                        ms.append(lim // r ** sh + 1)
                        ms.append(U64 // r ** sh + rng.choice([0, 1]))
                for m in ms:
                    ops.append("fp %s %s %d %d %d %d" % (ty, fmt, m, e, 1 if rng.random() < 0.05 else 0, rng.choice([0, 0, 1])))
    cap = 90000 if tier == "quick" else 1500000
    if len(ops) > cap:
        ops = rng.sample(ops, cap)
    return ops


def algo_streams(rng, fs, tier, which=("cf", "lm", "bel", "bin", "sbin", "fp")):
    table = {"cf": cf_ops, "lm": lm_ops, "bel": bel_ops, "bin": bin_ops, "sbin": sbin_ops, "fp": fp_ops}
    out = []
    for k in which:
        ops = table[k](rng, fs, tier)
        if ops:
            out.append(("comp-" + k, ops))
    return out


def apf_streams(streams, names=("g-hard", "g-ties", "g-exp", "g-random", "g-mixed", "g-marker")):
    """pipeline tie: the API streams again as `apf` ops (same call; the model column is Model.ParseFloatAlgo:
    syntax -> try_fast_path -> moderate_path -> slow_path -> to_native, slow_radix replaced by the oracle)"""
    out = []
    for name, ops in streams:
        if name in names:
            out.append(("pipe-" + name[2:], ["apf" + o[2:] for o in ops if o.startswith("pf ")]))
    return out
