"""Component-level op streams for the float writers' digit generators (C02) and for the power-of-two writers (C06).

td TY BITS   algorithm::to_decimal (Dragonbox; non-compact builds)   -> ok <mant> <exp>
gr TY BITS   compact::grisu (compact builds)                         -> ok <digits hex> <k>
"""
import gens


def _is_finite(ty, b):
    p, eb = gens.FLOAT_TYPES[ty]
    total = p - 1 + eb
    b &= (1 << total) - 1
    return ((b >> (p - 1)) & ((1 << eb) - 1)) != (1 << eb) - 1


def shorter_interval_all(ty):
    """every float with a zero mantissa field (the compute_nearest_shorter branch): 2046 + 254 patterns"""
    p, eb = gens.FLOAT_TYPES[ty]
    return [e << (p - 1) for e in range(1, (1 << eb) - 1)]


def algo_cases(rng, ty, n_random, digits=4):
    cases = set(gens.float_bits_cases(rng, ty, n_random, rich=True))
    cases |= set(gens.midpoint_decimal_floats(ty, digits))
    cases |= set(shorter_interval_all(ty))
    p, eb = gens.FLOAT_TYPES[ty]
    # neighbours of every power of two (the asymmetric interval's neighbours) and the odd/even pairs around them
    for e in range(1, (1 << eb) - 1):
        base = e << (p - 1)
        for d in (-2, -1, 1, 2, 3):
            cases.add(base + d)
    sign = 1 << (p - 1 + eb)
    return sorted(b for b in cases if b < sign and _is_finite(ty, b))


def digit_generator_streams(tier, rng, fs):
    """`td` on non-compact feature sets, `gr` on compact ones"""
    op = "gr" if "compact" in fs.split("+") else "td"
    out = []
    for ty in ("f64", "f32"):
        n = 50000 if tier == "quick" else 400000
        cases = algo_cases(rng, ty, n, 4 if tier == "quick" else 5)
        out.append(("%s-%s" % (op, ty), ["%s %s %x" % (op, ty, b) for b in cases]))
    return out


def pow2_model_stream(tier, rng, formats, exp_for):
    """`wf` ops with DEFAULT digit options for the power-of-two writers (the ops Model.WriteBinary answers):
    every binade x {min, min+1, max, half, random} and all subnormal powers of two, for every (radix, base, exponent radix),
    with default breaks, forced scientific and forced positional notation, trim on/off."""
    ops = []
    per = 5200 if tier == "quick" else 12000
    for ty in ("f64", "f32"):
        cases = [b for b in gens.float_bits_cases(rng, ty, 600 if tier == "quick" else 6000, rich=True)]
        for (r, b, er) in formats:
            f = gens.fmt_hex(gens.pack(r, b, er))
            e = exp_for(r)
            sub = cases if len(cases) <= per else rng.sample(cases, per)
            for bits in sub:
                k = rng.random()
                if k < 0.4:
                    o = gens.wopts(exp=e, trim=rng.choice([0, 1]))
                elif k < 0.7:
                    o = gens.wopts(exp=e, pb=rng.choice([1, 2, 200, 1100]), nb=rng.choice([-1, -2, -200, -1100]), trim=rng.choice([0, 1]))
                else:
                    o = gens.wopts(exp=e, pb=1, nb=-1, trim=rng.choice([0, 1]))
                ops.append("wf %s %s %x %s -" % (ty, f, bits, o))
    return [("wf-pow2-model", ops)]
