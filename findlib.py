"""Classification of violations into the call-site classes of known_findings.json (syntax layer: C10-C13, C15).
Every predicate is deliberately narrow: format class x input shape x implementation result shape."""
import re


def fmt_fields(fmt_hex):
    f = int(fmt_hex, 16)
    d = {"raw": f, "flags": f & ((1 << 64) - 1), "sep": (f >> 64) & 255, "prefix": (f >> 88) & 255, "suffix": (f >> 96) & 255,
         "radix": (f >> 104) & 255, "base": (f >> 112) & 255, "exprad": (f >> 120) & 255}
    fl = d["flags"]
    d["req_int"] = bool(fl & 1)
    d["req_frac"] = bool(fl & 2)
    d["req_exp"] = bool(fl & 4)
    d["req_mant"] = bool(fl & 8)
    d["nolz_int"] = bool(fl & (1 << 12))
    d["nolz_float"] = bool(fl & (1 << 13))
    # separator flags per component: bit 32+k (internal), 35+k (leading), 38+k (trailing), 41+k (consecutive); k = 0 int, 1 frac, 2 exp
    for k, comp in enumerate(("int", "frac", "exp")):
        d["sep_" + comp] = "".join(ch for ch, base in (("i", 32), ("l", 35), ("t", 38), ("c", 41)) if fl & (1 << (base + k)))
    d["sep_special"] = bool(fl & (1 << 44))
    return d


def parse_op(op):
    """(kind, ty, fmt fields or None, partial, input bytes) for pi/pf/dpi/dpf ops (facade prefix stripped)"""
    t = op.split(" ")
    k = t[0].lstrip("L")
    if k in ("dpi", "dpf"):
        return k, t[1], fmt_fields("a0000000000000000000000000c"), t[2] == "1", unhex(t[3])
    if k == "pi":
        return k, t[1], fmt_fields(t[2]), t[3] == "1", unhex(t[5])
    if k == "pf":
        return k, t[1], fmt_fields(t[2]), t[3] == "1", unhex(t[-1])
    return k, None, None, False, b""


def unhex(h):
    return b"" if h in ("_", "-") else bytes.fromhex(h)


def strip_sign(b):
    return b[1:] if b[:1] in (b"+", b"-") else b


def syntax_class(op, impl):
    """class name or None"""
    k, ty, f, partial, inp = parse_op(op)
    if f is None:
        return None
    body = strip_sign(inp)
    it = impl.split(" ")
    has_sep = f["sep"] != 0 and (f["sep_int"] or f["sep_frac"] or f["sep_exp"] or f["sep_special"])
    sep_in_input = f["sep"] != 0 and bytes([f["sep"]]) in inp
    # 1. nothing (or nothing but a sign) accepted as zero when the format requires no digits
    if body == b"" and not f["req_mant"] and not f["req_int"] and it[0] == "ok":
        return "no-digits-accepted-as-zero"
    # 2. base-prefix handling swallows a leading zero (float and integer parsers)
    # (since /repo abaf3b2 only the integer algorithm with prefix AND suffix is affected, and only as a rejection)
    if k == "pi" and f["prefix"] != 0 and f["suffix"] != 0 and it[0] == "err" and body[:1] == b"0" and not sep_in_input:
        nxt = body[1:2]
        is_prefix = nxt != b"" and nxt.lower() == bytes([f["prefix"]]).lower()
        if not is_prefix:
            return "base-prefix-swallows-leading-zero"
    # 4. integer parser, base suffix together with no_integer_leading_zeros: the lone zero before the suffix is not a digit run
    if k == "pi" and f["suffix"] != 0 and f["nolz_int"] and not sep_in_input and body[:1] == b"0" \
            and body[1:2].lower() == bytes([f["suffix"]]).lower():
        return "int-zero-before-base-suffix"
    # 3. separator-capable format: a component WITHOUT separator flags mis-counts the 8-digit blocks it parses
    if k in ("pf", "pn") and f["sep"] != 0 and (not f["sep_int"] or not f["sep_frac"]):
        t = op.split(" ")
        dp = int(t[6]) if k == "pf" else 46
        expc = int(t[5]) if k == "pf" else 101
        mant = body
        for i, c in enumerate(body):
            if c in (expc, expc ^ 0x20) and f["radix"] <= 14 or (c == expc and f["radix"] > 14):
                mant = body[:i]
                break
        ip, _, fp = mant.partition(bytes([dp]))
        nd = lambda part: sum(1 for c in part if chr(c).isalnum())
        if (not f["sep_int"] and nd(ip) >= 8) or (not f["sep_frac"] and nd(fp) >= 8):
            return "sep-format-uncounted-8digit-block"
    return None


def debug_class(op, impl):
    """classes of debug-assertion panics in the parsers (C10, dbg profile only)"""
    k, ty, f, partial, inp = parse_op(op)
    if f is None or not impl.startswith("panic"):
        return None
    t = op.split(" ")
    sep = f["sep"]
    low = lambda c: bytes([c]).lower() if c else b""
    controls = [f["prefix"], f["suffix"]]
    if k == "pf":
        controls.append(int(t[5]))      # exponent character of the options
        controls.append(int(t[6]))      # decimal point
    if sep and any(c and low(c) == low(sep) for c in controls):
        return "sep-case-equals-control-char"
    comps = (f["sep_int"], f["sep_frac"], f["sep_exp"])
    if k == "pi" and sep and f["suffix"]:
        return "int-suffix-with-separator"
    if sep and any(("i" in c and "t" in c and "c" in c and "l" not in c) for c in comps):
        return "sep-itc-without-leading"
    return syntax_class(op, "err")      # e.g. the uncounted 8-digit block trips a debug_assert


def is_digit(c, radix):
    if 48 <= c <= 57:
        return c - 48 < radix
    if 65 <= c <= 90 or 97 <= c <= 122:
        return (c | 32) - 87 < radix
    return False


def c11_class(op, impl):
    """classes of known partial-vs-complete disagreements (C11); `op` is the PARTIAL op, `impl` its result"""
    k, ty, f, partial, inp = parse_op(op)
    if f is None:
        return None
    it = impl.split(" ")
    sign_len = 1 if inp[:1] in (b"+", b"-") else 0
    sep = f["sep"]
    rest = inp[sign_len:]
    first = rest[0] if rest else None     # byte right after the optional sign
    n = int(it[2]) if it[0] == "ok" and len(it) > 2 and it[2].isdigit() else None
    consumed = inp[:n] if n is not None else b""
    # known: with a base suffix the partial parser steps over the byte after the digits ("1+1" -> Ok((1, 2))): the consumed
    # prefix is digits followed by exactly one byte that is neither a digit nor the suffix
    if k == "pi" and f["suffix"] and n is not None:
        core0 = bytes(c for c in consumed[sign_len:] if not (sep and c == sep))
        if f["prefix"] and core0[:1] == b"0" and core0[1:2].lower() == bytes([f["prefix"]]).lower():
            core0 = core0[2:]                       # a base prefix before the digits
        if len(core0) >= 2 and all(is_digit(c, f["radix"]) for c in core0[:-1]) and not is_digit(core0[-1], f["radix"]) \
                and not (core0[-1] == f["suffix"] or (not (f["flags"] & 0x20000) and bytes([core0[-1]]).lower() == bytes([f["suffix"]]).lower())):
            return "int-base-suffix-partial"
    core = bytes(c for c in consumed[sign_len:] if not (sep and c == sep))     # separators stepped over on the way
    if k == "pi" and f["prefix"] and core[:1] == b"0" and core[1:2].lower() == bytes([f["prefix"]]).lower() and \
            (len(core) == 2 or (len(core) == 3 and f["suffix"] and not is_digit(core[2], f["radix"]))):
        # "0x" + non-digit: Ok without a digit; with a base suffix the byte after it is stepped over as well (both recorded)
        return "int-base-prefix-without-digits"
    if k == "pf" and f["radix"] >= 19 and first is not None and chr(first).lower() in "ni":
        return "special-letters-are-digits"
    # known: the count includes a trailing separator the complete parser rejects — hex-float formats (exponent digits tested with
    # the mantissa radix) and formats that require no digits (a separator run is then a whole "number")
    if k == "pf" and n is not None and sep and consumed[-1:] == bytes([sep]) and \
            (f["radix"] != f["exprad"] or not (f["req_mant"] or f["req_int"])):
        return "partial-count-includes-trailing-separator"
    if k == "pi" and f["nolz_int"] and rest[:1] == b"0":
        return "int-no-leading-zeros-partial"
    # partial returned Ok although the byte after the optional sign is not a digit (no digit was consumed)
    if n is not None and n <= sign_len + sum(1 for c in consumed[sign_len:] if sep and c == sep) and (first is None or not is_digit(first, f["radix"])):
        return "partial-ok-without-digit"
    return syntax_class(op, impl)


def c13_class(v):
    """root-cause classes of the C13 (digit separator) findings; `v` is a violation record of props/C13.py"""
    cls = v.get("class")
    if cls is None:
        return syntax_class(v["op"], v["implementation"])
    rel, api, flags, what = [x.strip() for x in cls.split("|")]
    fl = flags.replace("flags ", "")
    if rel == "R4" and api.startswith("pf"):
        return "sep-format-uncounted-8digit-block"
    if rel == "R4" and api.startswith("pi") and "err Empty" in what:
        return "int-partial-no-digit-differs"
    if rel == "R2" and "leading off" in what and "itc" in fl:
        return "sep-itc-accepts-leading"
    if rel == "R2" and "trailing off" in what and "ilc" in fl:
        return "sep-ilc-accepts-trailing"
    if "itc/itc/itc" in fl and "another value" in what:
        return "sep-itc-without-leading"
    if rel == "R3" and api == "pf hex" and "other count" in what:
        return "sep-exponent-digit-test-uses-mantissa-radix"
    if api == "pf dec" and ("another value" in what or "other value" in what):
        # integer and fraction components carry different separator flags
        if "=" in fl:
            return "sep-slow-path-fraction-iterated-as-integer"
        parts = fl.split("/")
        if len(parts) == 3 and parts[0] != parts[1]:
            return "sep-slow-path-fraction-iterated-as-integer"
    return None


def write_class(v):
    """classes of known findings of the writers (C09, C14, C17)"""
    t = v["op"].split(" ")
    k = t[0].lstrip("L")
    impl = v["implementation"]
    detail = v.get("detail", "")
    if k == "wi" and re.fullmatch(r"u(8|16|32|64|128|size)", t[1]) and impl.startswith("panic"):
        f = int(t[2], 16)
        if f & (1 << 5):                                   # required_mantissa_sign
            return "unsigned-plus-sign-buffer"
    if k == "wf":
        f = int(t[2], 16)
        r = (f >> 104) & 255
        kind = "decimal" if r == 10 else ("pow2" if r in (2, 4, 8, 16, 32) else "generic")
        if impl.startswith("panic") and t[-1] == "-" and kind == "decimal" and v.get("model", "-") in ("panic", "-"):
            return "float-buffer-size-const-too-small"
        if kind == "decimal" and "trim_floats did not remove" in detail:
            return "decimal-trim-after-rounding"
        # format with no_exponent_without_fraction: `.0` cannot be removed in exponent notation, yet trim shortens an
        # all-zero fraction to its mandatory single zero
        if kind == "decimal" and (f & (1 << 9)) and "trim_floats removed something else than a zero fraction" in detail:
            return "decimal-trim-shortens-zero-fraction-no-exp-without-fraction"
        if kind != "decimal" and detail:
            d = re.sub(r"[0-9]+(/[0-9]+)?", "N", detail)
            for key, name in (("is not a radix-N literal", "not-a-literal"), ("fewer than min_significant_digits", "fewer-than-min"),
                              ("more than max_significant_digits", "more-than-max"), ("units of the last kept digit away", "value-off"),
                              ("differs from the default output although no digit is cut", "value-off"),
                              ("Truncate rounded up", "value-off")):
                if key in d:
                    return "%s-digit-options-%s" % (kind, name)
    return None
