"""Deterministic op generators (every random choice derives from the rng passed in)."""
import struct

INT_TYPES = {
    "u8": (8, False), "u16": (16, False), "u32": (32, False), "u64": (64, False), "u128": (128, False),
    "usize": (64, False), "i8": (8, True), "i16": (16, True), "i32": (32, True), "i64": (64, True),
    "i128": (128, True), "isize": (64, True),
}
FLOAT_TYPES = {"f32": (24, 8), "f64": (53, 11)}
DIGITS = "0123456789ABCDEFGHIJKLMNOPQRSTUVWXYZ"


def hexs(b):
    if isinstance(b, str):
        b = b.encode("latin-1")
    return b.hex() if b else "_"


def pack(radix=10, expbase=None, expradix=None, flags=0xC, sep=0, prefix=0, suffix=0):
    if expbase is None:
        expbase = radix
    if expradix is None:
        expradix = radix
    return flags | (sep << 64) | (prefix << 88) | (suffix << 96) | (radix << 104) | (expbase << 112) | (expradix << 120)


STANDARD = 0xC | (10 << 104)


def fmt_hex(f):
    return "%x" % f


def radices(fs):
    if "radix" in fs:
        return list(range(2, 37))
    if "pow2" in fs:
        return [2, 4, 8, 10, 16, 32]
    return [10]


def has_format(fs):
    return "format" in fs


def to_radix(n, r, lower=False):
    if n == 0:
        return "0"
    s = ""
    while n:
        s = DIGITS[n % r] + s
        n //= r
    return s.lower() if lower else s


def int_range(ty):
    bits, signed = INT_TYPES[ty]
    if signed:
        return -(1 << (bits - 1)), (1 << (bits - 1)) - 1
    return 0, (1 << bits) - 1


def interesting_values(ty, r, rng, extra=6):
    lo, hi = int_range(ty)
    vals = {0, 1, hi, hi - 1, lo, lo + 1, hi + 1, lo - 1, hi + r, lo - r, (hi + 1) * r, hi * r + r - 1}
    k = 1
    p = r
    while p <= (hi + 1) * r * r:
        for d in (-1, 0, 1):
            vals.add(p + d)
            vals.add(-(p + d))
        p *= r
        k += 1
    for _ in range(extra):
        vals.add(rng.randint(lo, hi))
        vals.add(rng.randint(lo, hi) >> rng.randint(0, INT_TYPES[ty][0] - 1))
        vals.add(rng.randint(0, (hi + 1) * r))
    return sorted(vals)


JUNK = [0x00, 0x2F, 0x3A, 0x40, 0x5B, 0x60, 0x7B, 0x80, 0xFF, 0x20, 0x2E, 0x5F, 0x2B, 0x2D]


def int_strings(ty, r, rng, scale=1):
    """byte strings for the integer parser of type ty in radix r"""
    out = []
    bits, signed = INT_TYPES[ty]
    for v in interesting_values(ty, r, rng, extra=4 * scale):
        s = to_radix(abs(v), r, lower=rng.random() < 0.3)
        sign = "-" if v < 0 else rng.choice(["", "", "+"])
        out.append((sign + s).encode())
        if rng.random() < 0.3:
            out.append((sign + "0" * rng.randint(1, 40) + s).encode())
    # syntax edge cases
    out += [b"", b"+", b"-", b"+-1", b"--1", b"++1", b"-+1", b"+0", b"-0", b"00", b"0", b" 1", b"1 ", b"1_0"]
    # one illegal byte at each position of a digit string, straddling SWAR windows
    for n in (1, 3, 4, 5, 7, 8, 9, 12, 15, 16, 17, 20, 25, 39):
        base = "".join(DIGITS[rng.randrange(r)] for _ in range(n))
        if rng.random() < 0.5:
            base = "1" + base[1:]
        out.append(base.encode())
        for _ in range(2 * scale):
            pos = rng.randrange(n + 1)
            j = rng.choice(JUNK + [ord(DIGITS[r]) if r < 36 else 0x7B, ord(DIGITS[r].lower()) if r < 36 else 0x5B])
            b = bytearray(base.encode())
            b.insert(pos, j)
            if rng.random() < 0.3:
                b = bytearray(b"-") + b
            out.append(bytes(b))
            b2 = bytearray(base.encode())
            b2[min(pos, n - 1)] = j
            out.append(bytes(b2))
    # every byte value as a single character and inside a digit string (classification of all 256 bytes)
    if ty in ("u32", "i64", "u8"):
        base = ("1" + DIGITS[r - 1]).encode()
        for c in range(256):
            out.append(bytes([c]))
            out.append(base + bytes([c]))
            if ty == "i64" or c % 3 == 0:
                out.append(base * 4 + bytes([c]) + base)
    # lengths around overflow_digits
    lo, hi = int_range(ty)
    maxlen = len(to_radix(hi, r))
    for L in (maxlen - 1, maxlen, maxlen + 1, maxlen + 2):
        if L <= 0:
            continue
        for d in (DIGITS[r - 1], "1", DIGITS[rng.randrange(r)]):
            out.append((d * L).encode())
            out.append(("-" + d * L).encode())
            out.append(("1" + "0" * (L - 1)).encode())
    return out


def int_parse_ops(rng, fs, scale=1, types=None, rads=None):
    ops = []
    seen = set()
    for r in (rads or radices(fs)):
        f = fmt_hex(pack(r))
        for ty in (types or INT_TYPES):
            for s in int_strings(ty, r, rng, scale):
                for partial in ("0", "1"):
                    nm = "1" if rng.random() < 0.25 else "0"
                    op = "pi %s %s %s %s %s" % (ty, f, partial, nm, hexs(s))
                    if op not in seen:
                        seen.add(op)
                        ops.append(op)
                if r == 10 and rng.random() < 0.2:
                    ops.append("dpi %s %s %s" % (ty, rng.choice("01"), hexs(s)))
    return ops


U64_STEP = {2: 64, 3: 40, 4: 32, 5: 27, 6: 24, 7: 22, 8: 21, 9: 20, 10: 19, 11: 18, 12: 17, 13: 17, 14: 16, 15: 16,
            16: 16, 17: 15, 18: 15, 19: 15, 20: 14, 21: 14, 22: 14, 23: 14, 24: 13, 25: 13, 26: 13, 27: 13, 28: 13,
            29: 13, 30: 13, 31: 12, 32: 12, 33: 12, 34: 12, 35: 12, 36: 12}


def write_values(ty, r, rng, extra=6):
    """values of type ty that stress the writer in radix r: digit-count boundaries of r, of 2 and of 10
    (fast_log2 / jeaiii thresholds), u64_step chunk boundaries for 128-bit values, random values per bit length"""
    lo, hi = int_range(ty)
    bits = INT_TYPES[ty][0]
    vals = {0, 1, 2, hi, hi - 1, lo, lo + 1, hi // 2, hi // 2 + 1}
    for base in {r, 2, 10}:
        p = 1
        while p <= hi * base:
            for d in (-2, -1, 0, 1):
                vals.add(p + d)
                vals.add(-(p + d))
            p *= base
    # digit pairs / quadruples with inner zeros and maximal digits
    for k in range(1, 40):
        vals.add(r ** k * (r - 1))
        vals.add(r ** k + r - 1)
        vals.add((r ** k - 1) * r ** (k // 2 + 1))
        vals.add(r ** (2 * k) + 1)
    if bits == 128:
        st = r ** U64_STEP[r]
        for j in (1, 2, 3):
            for d in (-1, 0, 1):
                vals.add(st ** j + d)
                vals.add((r - 1) * st ** j + d)
                vals.add(2 ** 64 * st ** (j - 1) + d)
                vals.add((2 ** 64 - 1) * st ** j + d)
                vals.add((2 ** 64) * st ** j + d)
        for k in (10, 20, 30):
            for d in (-1, 0, 1):
                vals.add(10 ** k + d)
                vals.add((2 ** 32 - 1) * 10 ** k + d)
                vals.add(5 * 10 ** k + d)
    for b in range(1, bits + 1):
        for _ in range(max(1, extra // 3)):
            vals.add(rng.getrandbits(b))
            vals.add(-rng.getrandbits(b))
    for _ in range(extra):
        vals.add(rng.randint(lo, hi))
    return sorted(v for v in vals if lo <= v <= hi)


def int_write_ops(rng, fs, scale=1, types=None, rads=None):
    ops = []
    seen = set()
    for r in (rads or radices(fs)):
        f = fmt_hex(pack(r))
        for ty in (types or INT_TYPES):
            for v in write_values(ty, r, rng, extra=6 * scale):
                op = "wi %s %s %d -" % (ty, f, v)
                if op not in seen:
                    seen.add(op)
                    ops.append(op)
                if r == 10:
                    ops.append("dwi %s %d -" % (ty, v))
    return ops


def int_write_small_exhaustive(rng, fs, tier="quick"):
    """every u8/i8 value in every radix; every u16/i16 value in a few radices (all in thorough)"""
    ops = []
    rads = radices(fs)
    for r in rads:
        f = fmt_hex(pack(r))
        for ty in ("u8", "i8"):
            lo, hi = int_range(ty)
            for v in range(lo, hi + 1):
                ops.append("wi %s %s %d -" % (ty, f, v))
    rads16 = rads if tier != "quick" else sorted(set(rads) & {3, 10, 16, 36})
    for r in rads16:
        f = fmt_hex(pack(r))
        for ty in ("u16", "i16"):
            lo, hi = int_range(ty)
            for v in range(lo, hi + 1):
                ops.append("wi %s %s %d -" % (ty, f, v))
    if 10 in rads:
        for ty in ("u8", "i8", "u16", "i16"):
            lo, hi = int_range(ty)
            for v in range(lo, hi + 1):
                ops.append("dwi %s %d -" % (ty, v))
    return ops


def int_write_reqsign(rng, fs):
    """required_mantissa_sign formats (only meaningful with the `format` feature)"""
    ops = []
    if not has_format(fs):
        return ops
    for r in (10, 2, 7, 16, 36):
        if r not in radices(fs):
            continue
        f = fmt_hex(pack(r, flags=0xC | (1 << 5)))
        for ty in INT_TYPES:
            lo, hi = int_range(ty)
            for v in (0, 1, 5, hi, lo, hi // 3, rng.randint(lo, hi)):
                # the documented-bound buffer ("-") for these formats is C09's business (known finding there)
                ops.append("wi %s %s %d %d" % (ty, f, v, 300))
                ops.append("wi %s %s %d %d" % (ty, f, v, 130))
    return ops


def int_write_shortbuf(rng, fs):
    """buffers shorter than / equal to / one longer than the numeral (checked-slice panic paths)"""
    ops = []
    for r in radices(fs):
        f = fmt_hex(pack(r))
        for ty in INT_TYPES:
            lo, hi = int_range(ty)
            for v in (0, hi, lo, rng.randint(lo, hi), rng.randint(lo, hi) >> rng.randint(0, INT_TYPES[ty][0] - 1)):
                n = len(to_radix(abs(v), r)) + (1 if v < 0 else 0)
                for bl in sorted({0, 1, max(n - 1, 0), n, n + 1}):
                    ops.append("wi %s %s %d %d" % (ty, f, v, bl))
                    if r == 10:
                        ops.append("dwi %s %d %d" % (ty, v, bl))
    return ops


def f64_bits(x):
    return struct.unpack("<Q", struct.pack("<d", x))[0]


def f32_bits(x):
    return struct.unpack("<I", struct.pack("<f", x))[0]


# ---------------------------------------------------------------------------------------------
# floats

import os

HARD_DIR = os.path.join(os.path.dirname(os.path.abspath(__file__)), "hard", "data")
DEF_NAN, DEF_INF, DEF_INFINITY = hexs("NaN"), hexs("inf"), hexs("infinity")


def exp_char(r):
    return ord("e") if r < 15 else ord("^")


def popts(r=10, lossy=False, exp=None, dp=46, nan=DEF_NAN, inf=DEF_INF, infinity=DEF_INFINITY):
    return "%d %d %d %s %s %s" % (1 if lossy else 0, exp if exp is not None else exp_char(r), dp, nan, inf, infinity)


def wopts(mx="-", mn="-", pb="-", nb="-", rnd="r", trim=0, exp=101, dp=46, nan=DEF_NAN, inf=DEF_INF):
    return "%s %s %s %s %s %d %d %d %s %s" % (mx, mn, pb, nb, rnd, trim, exp, dp, nan, inf)


def load_hard(r, ty):
    p = os.path.join(HARD_DIR, "r%d_%s.txt" % (r, ty))
    if not os.path.exists(p):
        return []
    out = []
    for line in open(p):
        t = line.split()
        if len(t) == 2:
            out.append((int(t[0]), int(t[1])))
    return out


def exp_str(q, er):
    return ("-" if q < 0 else "") + to_radix(abs(q), er)


def lit(digits, q, r, er, point=None):
    """digits (string) with optional point position, exponent q (in radix-r positions) written in radix er"""
    e = chr(exp_char(r))
    if point is None:
        return "%s%s%s" % (digits, e, exp_str(q, er))
    point = max(0, min(len(digits), point))
    return "%s.%s%s%s" % (digits[:point], digits[point:], e, exp_str(q + (len(digits) - point), er))


def hard_variants(m, q, r, er, rng, rich):
    """literals around the worst case m*r^q"""
    d = to_radix(m, r)
    maxd = DIGITS[r - 1]
    out = [lit(d, q, r, er)]
    out.append(lit(d, q, r, er, point=rng.randint(0, len(d))))
    if rich:
        # truncation-crossing family: first u64-step digits land a unit away from the boundary
        if m > 1:
            dm = to_radix(m - 1, r)
            k = rng.choice([1, 5, 30])
            out.append(lit(dm + maxd * k, q - k, r, er))
        k = rng.choice([1, 7, 30])
        out.append(lit(d + "0" * k + "1", q - k - 1, r, er))
        out.append(lit(to_radix(m + 1, r) + "0" * 3, q - 3, r, er))
        # leading zeros / trailing zeros with compensating exponent
        z = rng.randint(1, 25)
        out.append(lit("0" * z + d + "0" * z, q - z, r, er, point=rng.randint(0, z)))
    return out


def long_tail_variants(m, q, r, er, rng):
    d = to_radix(m, r)
    maxd = DIGITS[r - 1]
    out = []
    for L in (20, 40, 767, 768, 769, 2000):
        k = L - len(d)
        if k <= 0:
            continue
        out.append(lit(d + "0" * (k - 1) + "1", q - k, r, er))
        if m > 1:
            out.append(lit(to_radix(m - 1, r) + maxd * k, q - k, r, er))
    return out


def float_fmt_for(r, fs):
    return fmt_hex(pack(r))


def pf_op(ty, fmt, s, r, partial=0, lossy=False, opts=None):
    return "pf %s %s %d %s %s" % (ty, fmt, partial, opts or popts(r, lossy), hexs(s))


def float_parse_hard_ops(rng, fs, rads, per_radix, rich=True, tails=0, lossy=False, types=("f64", "f32")):
    ops = []
    for r in rads:
        fmt = float_fmt_for(r, fs)
        for ty in types:
            cases = load_hard(r, ty)
            if not cases:
                continue
            pick = rng.sample(cases, min(per_radix, len(cases)))
            for i, (m, q) in enumerate(pick):
                for s in hard_variants(m, q, r, r, rng, rich):
                    ops.append(pf_op(ty, fmt, s, r, partial=rng.choice([0, 0, 1]), lossy=lossy))
                    if r == 10 and not lossy and rng.random() < 0.15:
                        ops.append("dpf %s %d %s" % (ty, rng.choice([0, 1]), hexs(s)))
                if i < tails:
                    for s in long_tail_variants(m, q, r, r, rng):
                        ops.append(pf_op(ty, fmt, s, r, lossy=lossy))
    return ops


def float_exp_ops(rng, fs, rads, lossy=False):
    """G-exp: exponents at the fast-path / zero / infinity cut-offs and absurd magnitudes"""
    ops = []
    for r in rads:
        fmt = float_fmt_for(r, fs)
        for ty, (p, eb) in FLOAT_TYPES.items():
            import math
            emax = int((2 ** (eb - 1)) / math.log2(r))
            emin = int((2 ** (eb - 1) + p) / math.log2(r))
            qs = set()
            for c in (0, 1, 10, 15, 22, 23, 37, 38, emax - 1, emax, emax + 1, emax + 2, emin - 1, emin, emin + 1, emin + 2,
                      emax + 19, emin + 19, 0xFFFFFFF, 0x10000000, 0x10000001, 10 ** 20, 2 ** 63, 2 ** 64 + 5):
                qs.add(c)
                qs.add(-c)
            for q in sorted(qs):
                for d in ("1", "9" if r > 9 else DIGITS[r - 1], "123456789"[:min(9, r - 1)] or "1",
                          DIGITS[r - 1] * 19, "1" + "0" * 30, "0." + "0" * 30 + "1", "0", "0.0", "17976931348623158"[:17] if r == 10 else "101"):
                    e = chr(exp_char(r))
                    s = "%s%s%s" % (d, e, exp_str(q, r))
                    ops.append(pf_op(ty, fmt, s, r, partial=rng.choice([0, 1]), lossy=lossy))
    return ops


def float_random_ops(rng, fs, rads, n, lossy=False):
    ops = []
    for r in rads:
        fmt = float_fmt_for(r, fs)
        for _ in range(n):
            ty = rng.choice(["f64", "f32"])
            nd = rng.choice([1, 2, 5, 8, 9, 15, 16, 17, 18, 19, 20, 21, 25, 40])
            d = "".join(DIGITS[rng.randrange(r)] for _ in range(nd))
            pt = rng.choice([None, rng.randint(0, nd)])
            q = rng.randint(-30, 30) if rng.random() < 0.6 else rng.randint(-400, 400)
            s = lit(d, q, r, r, point=pt) if rng.random() < 0.8 else (d if pt is None else d[:pt] + "." + d[pt:])
            s = rng.choice(["", "", "-", "+"]) + s
            if rng.random() < 0.1:
                s += rng.choice(["x", " ", "e", ".", "_", "e+", "\xff"])
            ops.append(pf_op(ty, fmt, s.encode("latin-1"), r, partial=rng.choice([0, 1]), lossy=lossy))
    return ops


# ---------------------------------------------------------------------------------------------
# float writing (G-bits)

def float_bits_cases(rng, ty, n_random, rich=True):
    """bit patterns: every binade boundary, subnormals, powers of two +-1ulp, integers, endpoint family, random"""
    p, eb = FLOAT_TYPES[ty]
    mbits = p - 1
    total = mbits + eb
    out = set()
    maxe = (1 << eb) - 1
    for e in range(0, maxe):
        base = e << mbits
        for m in (0, 1, 2, (1 << mbits) - 1, (1 << mbits) - 2, 1 << (mbits - 1)):
            out.add(base | m)
        if rich:
            out.add(base | rng.getrandbits(mbits))
    # subnormal boundaries
    for k in range(mbits):
        out.add(1 << k)
        out.add((1 << k) - 1 if k else 0)
        out.add((1 << k) + 1)
    # small integers and halves
    import struct
    def bits_of(x):
        if ty == "f64":
            return struct.unpack("<Q", struct.pack("<d", x))[0]
        return struct.unpack("<I", struct.pack("<f", x))[0]
    for i in range(0, 130):
        out.add(bits_of(float(i)))
        out.add(bits_of(i + 0.5))
        out.add(bits_of(i / 10.0))
    for k in range(0, 310 if ty == "f64" else 39):
        for d in (1.0, 5.0, 9.0, 8.55, 1.5, 2.5, 9.5, 1.2345678901234567, 9.999999999999999):
            try:
                v = float("%re%d" % (d, k))
                out.add(bits_of(v))
                v = float("%re-%d" % (d, k))
                out.add(bits_of(v))
            except (OverflowError, struct.error):
                pass
    for _ in range(n_random):
        out.add(rng.getrandbits(total - 1))
        # random mantissa with few significant bits (short decimal outputs)
        e = rng.randrange(1, maxe)
        out.add((e << mbits) | (rng.getrandbits(rng.randint(1, 12)) << rng.randint(0, mbits - 12)))
    # specials and signed zeros
    sign = 1 << (total - 1)
    inf = maxe << mbits
    res = sorted(x for x in out if x < inf)
    res += [inf, inf | 1, inf | (1 << (mbits - 1)), sign, sign | inf, sign | inf | (1 << (mbits - 1)), sign | 1, sign | bits_of(1.0)]
    return res


def midpoint_decimal_floats(ty, maxdigits=4):
    """floats f for which some short decimal D*10^E is EXACTLY a rounding-interval endpoint of f
    (the 8.55e21 family): D*10^E = (2m+1)*2^(e-1). Enumerates D up to maxdigits digits for E >= 0 where
    D*10^E is an odd multiple of a power of two with exactly p+1 significant bits."""
    p, eb = FLOAT_TYPES[ty]
    out = set()
    for E in range(0, 40 if ty == "f64" else 12):
        for D in range(1, 10 ** maxdigits):
            n = D * 10 ** E
            tz = (n & -n).bit_length() - 1
            odd = n >> tz
            if odd.bit_length() == p + 1:
                # endpoint between floats m=(odd-1)/2 and (odd+1)/2 at exponent tz+1
                for mm in ((odd - 1) // 2, (odd + 1) // 2):
                    e2 = tz + 1
                    if mm.bit_length() > p:      # carried to next binade
                        mm >>= 1
                        e2 += 1
                    if mm.bit_length() == p:
                        biased = e2 + (p - 1) + (1 << (eb - 1)) - 1
                        if 0 < biased < (1 << eb) - 1:
                            out.add((biased << (p - 1)) | (mm - (1 << (p - 1))))
    return sorted(out)


def float_write_default_ops(rng, ty, bits_list):
    ops = []
    for b in bits_list:
        ops.append("dwf %s %x -" % (ty, b))
    return ops


# ---------------------------------------------------------------------------------------------
# exact decimal ties (the literal is EXACTLY half-way between two adjacent floats)

def exact_ties(rng, ty, per_q):
    """(digits, q) with digits*10^q exactly a midpoint of two adjacent normal floats, digits <= 19 long;
    such ties exist only for a short window of q (this is Eisel-Lemire's round-to-even window)."""
    p, eb = FLOAT_TYPES[ty]
    out = []
    for q in range(-30, 40):
        got = 0
        tries = 0
        while got < per_q and tries < per_q * 60:
            tries += 1
            if q >= 0:
                f5 = 5 ** q
                need = p + 1 - f5.bit_length()
                if need < 1 and f5.bit_length() != p + 1:
                    break
                # odd t with about `need` bits, product must have exactly p+1 bits
                t = (rng.getrandbits(need + 1) | 1) if need >= 1 else 1
                odd = t * f5
                if odd.bit_length() != p + 1:
                    continue
                m = t << rng.randint(0, 6)
                if m >= 10 ** 19:
                    continue
            else:
                f5 = 5 ** (-q)
                lim = (10 ** 19 - 1) // f5
                if lim.bit_length() < p + 1:
                    break
                t = (rng.getrandbits(p + 1) | (1 << p) | 1)
                if t > lim:
                    continue
                m = t * f5
                j = rng.randint(0, 3)
                if m << j < 10 ** 19:
                    m <<= j
            out.append((m, q))
            got += 1
    return out


def exact_tie_ops(rng, fs, per_q=6, lossy=False):
    ops = []
    fmt = fmt_hex(pack(10))
    for ty in ("f64", "f32"):
        for (m, q) in exact_ties(rng, ty, per_q):
            d = str(m)
            for s in (lit(d, q, 10, 10), lit(d, q, 10, 10, point=rng.randint(0, len(d))), plain_decimal(d, q)):
                if s is None:
                    continue
                ops.append(pf_op(ty, fmt, s, 10, partial=rng.choice([0, 1]), lossy=lossy))
                if not lossy:
                    ops.append("dpf %s %d %s" % (ty, rng.choice([0, 1]), hexs(s)))
            # just above / just below the tie
            ops.append(pf_op(ty, fmt, lit(d + "0" * 20 + "1", q - 21, 10, 10), 10, lossy=lossy))
            if m > 1:
                ops.append(pf_op(ty, fmt, lit(str(m - 1) + "9" * 21, q - 21, 10, 10), 10, lossy=lossy))
    return ops


def plain_decimal(d, q):
    """digits*10^q without exponent notation (None when that would be absurdly long)"""
    if q >= 0:
        return d + "0" * q if q < 40 else None
    k = -q
    if k < len(d):
        return d[:-k] + "." + d[-k:]
    return "0." + "0" * (k - len(d)) + d if k < 60 else None


def exact_tie_radix_ops(rng, fs, rads, per_radix=6, lossy=False):
    """even radices: the exact half-way point (2^p + odd) * 2^-k between two adjacent floats has a FINITE expansion with
    k fraction digits; these reach the big-integer slow path with large powers of the radix (k up to a few hundred)"""
    ops = []
    for r in rads:
        if r % 2 or r == 10:
            continue
        fmt = fmt_hex(pack(r))
        for ty, (p, eb) in FLOAT_TYPES.items():
            kmax = 300 if ty == "f64" else 100
            for _ in range(per_radix):
                k = rng.choice([1, 2, 7, 30, 59, 60, 61, 109, 110, 111, 119, 120, 121, 150, 220, kmax])
                k = min(k, kmax)
                odd = (1 << p) | rng.getrandbits(p) | 1          # p+1 bits, odd  => exact tie between two p-bit floats
                num = odd * r ** k
                if num % (1 << k):
                    continue
                digits = to_radix(num >> k, r)                     # value * r^k, an integer
                if len(digits) <= k:
                    digits = "0" * (k - len(digits) + 1) + digits
                s = digits[:-k] + "." + digits[-k:]
                for v in (s, s + "0" * 5 + "1", s.rstrip("0")):
                    ops.append(pf_op(ty, fmt, v, r, partial=rng.choice([0, 1]), lossy=lossy))
                # the same tie scaled by a power of the radix through the exponent
                q = rng.randint(-20, 20)
                ops.append(pf_op(ty, fmt, lit(digits, q - k - q, r, r, point=len(digits) - k) if False else s + chr(exp_char(r)) + "0", r, lossy=lossy))
    return ops


def exact_tie_int_ops(rng, fs, rads, per_radix=4, lossy=False):
    """EVERY radix (odd ones too): the integer (2^p + odd) * 2^j is an exact tie between two adjacent floats and has a
    finite expansion in any radix; written as integer, with `.0`, with a far non-zero / zero tail, through a radix
    exponent, in upper-case, lower-case and mixed-case digit spellings (letter digits compare by VALUE)"""
    ops = []
    for r in rads:
        if r == 10:
            continue
        fmt = fmt_hex(pack(r))
        e = chr(exp_char(r))
        for ty, (p, eb) in FLOAT_TYPES.items():
            for i in range(per_radix):
                j = 0 if i == 0 else rng.choice([0, 1, 2, 5, 11, 40, 70])
                odd = (1 << p) | rng.getrandbits(p) | 1
                if i == 0:
                    odd = (1 << p) | 1
                n = odd << j
                up = to_radix(n, r)
                lo = up.lower()
                mixed = "".join(c.lower() if rng.random() < 0.5 else c for c in up)
                for d in (up, lo, mixed):
                    for v in (d, d + ".0", d + "." + "0" * 30 + "1", d + e + "0"):
                        ops.append(pf_op(ty, fmt, v, r, partial=0, lossy=lossy))
                    # one unit below the tie in a far fraction digit: (n-1).(r-1)(r-1)...
                    below = to_radix(n - 1, r)
                    below = below.lower() if d is lo else below
                    tail = DIGITS[r - 1] * 40
                    ops.append(pf_op(ty, fmt, below + "." + (tail.lower() if d is lo else tail), r, lossy=lossy))
                    # the tie divided by a power of the radix, expressed through the exponent
                    k = rng.randint(1, min(12, len(d) - 1))
                    ops.append(pf_op(ty, fmt, d[:-k] + "." + d[-k:] + e + to_radix(k, r), r, lossy=lossy))
    return ops


def digit_after_max(r):
    """the byte `digit_to_char` would produce for the (invalid) digit value r: ':' for 10, '[' for 36, else the next letter"""
    if r < 10:
        return 48 + r
    if r == 10:
        return 58
    return 55 + r
