"""Deterministic op generators (every random choice derives from the rng passed in)."""
import struct

INT_TYPES = {
    "u8": (8, False), "u16": (16, False), "u32": (32, False), "u64": (64, False), "u128": (128, False),
    "usize": (64, False), "i8": (8, True), "i16": (16, True), "i32": (32, True), "i64": (64, True),
    "i128": (128, True), "isize": (64, True),
}
FLOAT_TYPES = {"f32": (24, 8), "f64": (53, 11)}
DIGITS = "0123456789ABCDEFGHIJKLMNOPQRSTUVWXYZ"


def hexs(b):
    if isinstance(b, str):
        b = b.encode("latin-1")
    return b.hex() if b else "_"


def pack(radix=10, expbase=None, expradix=None, flags=0xC, sep=0, prefix=0, suffix=0):
    if expbase is None:
        expbase = radix
    if expradix is None:
        expradix = radix
    return flags | (sep << 64) | (prefix << 88) | (suffix << 96) | (radix << 104) | (expbase << 112) | (expradix << 120)


STANDARD = 0xC | (10 << 104)


def fmt_hex(f):
    return "%x" % f


def radices(fs):
    if "radix" in fs:
        return list(range(2, 37))
    if "pow2" in fs:
        return [2, 4, 8, 10, 16, 32]
    return [10]


def has_format(fs):
    return "format" in fs


def to_radix(n, r, lower=False):
    if n == 0:
        return "0"
    s = ""
    while n:
        s = DIGITS[n % r] + s
        n //= r
    return s.lower() if lower else s


def int_range(ty):
    bits, signed = INT_TYPES[ty]
    if signed:
        return -(1 << (bits - 1)), (1 << (bits - 1)) - 1
    return 0, (1 << bits) - 1


def interesting_values(ty, r, rng, extra=6):
    lo, hi = int_range(ty)
    vals = {0, 1, hi, hi - 1, lo, lo + 1, hi + 1, lo - 1, hi + r, lo - r, (hi + 1) * r, hi * r + r - 1}
    k = 1
    p = r
    while p <= (hi + 1) * r * r:
        for d in (-1, 0, 1):
            vals.add(p + d)
            vals.add(-(p + d))
        p *= r
        k += 1
    for _ in range(extra):
        vals.add(rng.randint(lo, hi))
        vals.add(rng.randint(lo, hi) >> rng.randint(0, INT_TYPES[ty][0] - 1))
        vals.add(rng.randint(0, (hi + 1) * r))
    return sorted(vals)


JUNK = [0x00, 0x2F, 0x3A, 0x40, 0x5B, 0x60, 0x7B, 0x80, 0xFF, 0x20, 0x2E, 0x5F, 0x2B, 0x2D]


def int_strings(ty, r, rng, scale=1):
    """byte strings for the integer parser of type ty in radix r"""
    out = []
    bits, signed = INT_TYPES[ty]
    for v in interesting_values(ty, r, rng, extra=4 * scale):
        s = to_radix(abs(v), r, lower=rng.random() < 0.3)
        sign = "-" if v < 0 else rng.choice(["", "", "+"])
        out.append((sign + s).encode())
        if rng.random() < 0.3:
            out.append((sign + "0" * rng.randint(1, 40) + s).encode())
    # syntax edge cases
    out += [b"", b"+", b"-", b"+-1", b"--1", b"++1", b"-+1", b"+0", b"-0", b"00", b"0", b" 1", b"1 ", b"1_0"]
    # one illegal byte at each position of a digit string, straddling SWAR windows
    for n in (1, 3, 4, 5, 7, 8, 9, 12, 15, 16, 17, 20, 25, 39):
        base = "".join(DIGITS[rng.randrange(r)] for _ in range(n))
        if rng.random() < 0.5:
            base = "1" + base[1:]
        out.append(base.encode())
        for _ in range(2 * scale):
            pos = rng.randrange(n + 1)
            j = rng.choice(JUNK + [ord(DIGITS[r]) if r < 36 else 0x7B, ord(DIGITS[r].lower()) if r < 36 else 0x5B])
            b = bytearray(base.encode())
            b.insert(pos, j)
            if rng.random() < 0.3:
                b = bytearray(b"-") + b
            out.append(bytes(b))
            b2 = bytearray(base.encode())
            b2[min(pos, n - 1)] = j
            out.append(bytes(b2))
    # lengths around overflow_digits
    lo, hi = int_range(ty)
    maxlen = len(to_radix(hi, r))
    for L in (maxlen - 1, maxlen, maxlen + 1, maxlen + 2):
        if L <= 0:
            continue
        for d in (DIGITS[r - 1], "1", DIGITS[rng.randrange(r)]):
            out.append((d * L).encode())
            out.append(("-" + d * L).encode())
            out.append(("1" + "0" * (L - 1)).encode())
    return out


def int_parse_ops(rng, fs, scale=1, types=None, rads=None):
    ops = []
    seen = set()
    for r in (rads or radices(fs)):
        f = fmt_hex(pack(r))
        for ty in (types or INT_TYPES):
            for s in int_strings(ty, r, rng, scale):
                for partial in ("0", "1"):
                    nm = "1" if rng.random() < 0.25 else "0"
                    op = "pi %s %s %s %s %s" % (ty, f, partial, nm, hexs(s))
                    if op not in seen:
                        seen.add(op)
                        ops.append(op)
                if r == 10 and rng.random() < 0.2:
                    ops.append("dpi %s %s %s" % (ty, rng.choice("01"), hexs(s)))
    return ops


U64_STEP = {2: 64, 3: 40, 4: 32, 5: 27, 6: 24, 7: 22, 8: 21, 9: 20, 10: 19, 11: 18, 12: 17, 13: 17, 14: 16, 15: 16,
            16: 16, 17: 15, 18: 15, 19: 15, 20: 14, 21: 14, 22: 14, 23: 14, 24: 13, 25: 13, 26: 13, 27: 13, 28: 13,
            29: 13, 30: 13, 31: 12, 32: 12, 33: 12, 34: 12, 35: 12, 36: 12}


def write_values(ty, r, rng, extra=6):
    """values of type ty that stress the writer in radix r: digit-count boundaries of r, of 2 and of 10
    (fast_log2 / jeaiii thresholds), u64_step chunk boundaries for 128-bit values, random values per bit length"""
    lo, hi = int_range(ty)
    bits = INT_TYPES[ty][0]
    vals = {0, 1, 2, hi, hi - 1, lo, lo + 1, hi // 2, hi // 2 + 1}
    for base in {r, 2, 10}:
        p = 1
        while p <= hi * base:
            for d in (-2, -1, 0, 1):
                vals.add(p + d)
                vals.add(-(p + d))
            p *= base
    # digit pairs / quadruples with inner zeros and maximal digits
    for k in range(1, 40):
        vals.add(r ** k * (r - 1))
        vals.add(r ** k + r - 1)
        vals.add((r ** k - 1) * r ** (k // 2 + 1))
        vals.add(r ** (2 * k) + 1)
    if bits == 128:
        st = r ** U64_STEP[r]
        for j in (1, 2, 3):
            for d in (-1, 0, 1):
                vals.add(st ** j + d)
                vals.add((r - 1) * st ** j + d)
                vals.add(2 ** 64 * st ** (j - 1) + d)
                vals.add((2 ** 64 - 1) * st ** j + d)
                vals.add((2 ** 64) * st ** j + d)
        for k in (10, 20, 30):
            for d in (-1, 0, 1):
                vals.add(10 ** k + d)
                vals.add((2 ** 32 - 1) * 10 ** k + d)
                vals.add(5 * 10 ** k + d)
    for b in range(1, bits + 1):
        for _ in range(max(1, extra // 3)):
            vals.add(rng.getrandbits(b))
            vals.add(-rng.getrandbits(b))
    for _ in range(extra):
        vals.add(rng.randint(lo, hi))
    return sorted(v for v in vals if lo <= v <= hi)


def int_write_ops(rng, fs, scale=1, types=None, rads=None):
    ops = []
    seen = set()
    for r in (rads or radices(fs)):
        f = fmt_hex(pack(r))
        for ty in (types or INT_TYPES):
            for v in write_values(ty, r, rng, extra=6 * scale):
                op = "wi %s %s %d -" % (ty, f, v)
                if op not in seen:
                    seen.add(op)
                    ops.append(op)
                if r == 10:
                    ops.append("dwi %s %d -" % (ty, v))
    return ops


def int_write_small_exhaustive(rng, fs, tier="quick"):
    """every u8/i8 value in every radix; every u16/i16 value in a few radices (all in thorough)"""
    ops = []
    rads = radices(fs)
    for r in rads:
        f = fmt_hex(pack(r))
        for ty in ("u8", "i8"):
            lo, hi = int_range(ty)
            for v in range(lo, hi + 1):
                ops.append("wi %s %s %d -" % (ty, f, v))
    rads16 = rads if tier != "quick" else sorted(set(rads) & {3, 10, 16, 36})
    for r in rads16:
        f = fmt_hex(pack(r))
        for ty in ("u16", "i16"):
            lo, hi = int_range(ty)
            for v in range(lo, hi + 1):
                ops.append("wi %s %s %d -" % (ty, f, v))
    if 10 in rads:
        for ty in ("u8", "i8", "u16", "i16"):
            lo, hi = int_range(ty)
            for v in range(lo, hi + 1):
                ops.append("dwi %s %d -" % (ty, v))
    return ops


def int_write_reqsign(rng, fs):
    """required_mantissa_sign formats (only meaningful with the `format` feature)"""
    ops = []
    if not has_format(fs):
        return ops
    for r in (10, 2, 7, 16, 36):
        if r not in radices(fs):
            continue
        f = fmt_hex(pack(r, flags=0xC | (1 << 5)))
        for ty in INT_TYPES:
            lo, hi = int_range(ty)
            for v in (0, 1, 5, hi, lo, hi // 3, rng.randint(lo, hi)):
                ops.append("wi %s %s %d -" % (ty, f, v))
                ops.append("wi %s %s %d %d" % (ty, f, v, 300))
    return ops


def int_write_shortbuf(rng, fs):
    """buffers shorter than / equal to / one longer than the numeral (checked-slice panic paths)"""
    ops = []
    for r in radices(fs):
        f = fmt_hex(pack(r))
        for ty in INT_TYPES:
            lo, hi = int_range(ty)
            for v in (0, hi, lo, rng.randint(lo, hi), rng.randint(lo, hi) >> rng.randint(0, INT_TYPES[ty][0] - 1)):
                n = len(to_radix(abs(v), r)) + (1 if v < 0 else 0)
                for bl in sorted({0, 1, max(n - 1, 0), n, n + 1}):
                    ops.append("wi %s %s %d %d" % (ty, f, v, bl))
                    if r == 10:
                        ops.append("dwi %s %d %d" % (ty, v, bl))
    return ops


def f64_bits(x):
    return struct.unpack("<Q", struct.pack("<d", x))[0]


def f32_bits(x):
    return struct.unpack("<I", struct.pack("<f", x))[0]
