import P.Tab
namespace Tab
theorem table_ok : checkAll = true := by decide +kernel
#print axioms table_ok
end Tab
