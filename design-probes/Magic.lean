namespace Magic
-- dragonbox divide_by_pow10_64: umul128_upper64(n, 2361183241434822607) >> 7 = n / 1000 for n <= n_max
theorem div1000 (n : Nat) (h : n ≤ 9007199254740991999) :
    n * 2361183241434822607 / 2^64 / 2^7 = n / 1000 := by omega
-- f32: (n * 1374389535) >> 37 = n / 100 for n < 2^32
theorem div100 (n : Nat) (h : n < 2^32) : n * 1374389535 / 2^37 = n / 100 := by omega
-- check_div_pow10 f64: n <= 1000
theorem chk (n : Nat) (h : n ≤ 1000) : n * 656 / 2^16 = n / 100 ∧ ((n * 656 % 2^16 < 656) ↔ n % 100 = 0) := by omega
-- jeaiii @5-6: first two digits of n in [10^4,10^6): (n*429497)>>32 = n / 10^4
theorem j56 (n : Nat) (h : n < 10^6) : n * 429497 / 2^32 = n / 10^4 := by omega
-- next2 step: ((y % 2^32) * 100) / 2^32 is next 2 digits
theorem j56b (n : Nat) (h : n < 10^6) : ((n * 429497 % 2^32) * 100) / 2^32 = n % 10^4 / 100 := by omega
theorem j56c (n : Nat) (h : n < 10^6) : ((((n * 429497 % 2^32) * 100) % 2^32) * 100) / 2^32 = n % 100 := by omega
end Magic
