import Std.Tactic.BVDecide
namespace Swar
def is8 (radix : BitVec 64) (v : BitVec 64) : Bool :=
  let add : BitVec 64 := 0x46 + 10 - radix
  let add := add + (add <<< 8) + (add <<< 16) + (add <<< 24)
  let add := add ||| (add <<< 32)
  let sub : BitVec 64 := 0x3030303030303030
  let a := v + add
  let b := v - sub
  ((a ||| b) &&& 0x8080808080808080) == 0

def byteOk (radix : BitVec 64) (v : BitVec 64) (i : Nat) : Bool :=
  let b := (v >>> (8*i)) &&& 0xFF
  (0x30 ≤ b) && (b < 0x30 + radix)

theorem is8_10 (v : BitVec 64) : is8 10 v = (byteOk 10 v 0 && byteOk 10 v 1 && byteOk 10 v 2 && byteOk 10 v 3 && byteOk 10 v 4 && byteOk 10 v 5 && byteOk 10 v 6 && byteOk 10 v 7) := by
  unfold is8 byteOk
  bv_decide
#print axioms is8_10
end Swar
