import Std.Tactic.BVDecide
namespace Swar2
def parse8 (radix v0 : BitVec 64) : BitVec 64 :=
  let radix2 := radix * radix
  let radix4 := radix2 * radix2
  let radix6 := radix2 * radix4
  let mask : BitVec 64 := 0x000000FF000000FF
  let mul1 := radix2 + (radix6 <<< 32)
  let mul2 := 1 + (radix4 <<< 32)
  let v := v0 - 0x3030303030303030
  let v := (v * radix) + (v >>> 8)
  let v1 := (v &&& mask) * mul1
  let v2 := ((v >>> 16) &&& mask) * mul2
  ((v1 + v2) >>> 32) &&& 0xFFFFFFFF

def dig (v : BitVec 64) (i : Nat) : BitVec 64 := ((v >>> (8*i)) &&& 0xFF) - 0x30
def byteOk (radix : BitVec 64) (v : BitVec 64) (i : Nat) : Bool :=
  let b := (v >>> (8*i)) &&& 0xFF
  (0x30 ≤ b) && (b < 0x30 + radix)

theorem parse8_10 (v : BitVec 64)
   (h : (byteOk 10 v 0 && byteOk 10 v 1 && byteOk 10 v 2 && byteOk 10 v 3 && byteOk 10 v 4 && byteOk 10 v 5 && byteOk 10 v 6 && byteOk 10 v 7) = true) :
   parse8 10 v = dig v 0 * 10000000 + dig v 1 * 1000000 + dig v 2 * 100000 + dig v 3 * 10000 + dig v 4 * 1000 + dig v 5 * 100 + dig v 6 * 10 + dig v 7 := by
  unfold parse8 dig byteOk at *
  bv_decide
#print axioms parse8_10
end Swar2
