import sys, random
from fractions import Fraction

def first_in_range(a, b, L, R):
    """smallest m>=0 with L <= (a*m) mod b <= R, 0<=L<=R<b, 0<=a<b. None if no solution."""
    # iterative version of the classic algorithm
    # returns minimal m
    def rec(a, b, L, R):
        if L == 0:
            return 0
        a %= b
        if a == 0:
            return None
        if 2*a > b:
            # flip
            r = rec(b - a, b, b - R, b - L)
            return r
        # first multiple of a that lands >= L
        k = (L + a - 1)//a
        if k*a <= R:
            return k
        # need wrap-arounds: solve for number of wraps
        # a*m = L..R + b*t  -> t*b mod a in [ -R mod a ... -L mod a]
        t = rec(a - (b % a) if b % a else 0, a, L % a, R % a) if False else None
        # use standard formulation:
        # find smallest t>=1 s.t. exists m: L + b*t <= a*m <= R + b*t  <=> (-(R + b t)) mod a <= R-L ... 
        # equivalently (b*t + L) mod a  in [a-(R-L) .. a-1] or ==0 -> use recursion on (b mod a)
        bb = b % a
        # want smallest t with  ( -L - bb*t ) mod a <= R-L   i.e. (bb*t + L -?) hmm use: ceil((L+b t)/a)*a <= R + b t
        # Let u = (-(L + b t)) mod a ; condition u <= R-L.  u = (-(L) - bb t) mod a = ((a - bb)*t + (-L % a)) mod a
        # shift: ((a-bb)*t mod a) in [ (0 - c) mod a , (R-L-c) mod a ] with c = (-L)%a
        c = (-L) % a
        lo = (0 - c) % a
        hi = (R - L - c) % a
        aa = (a - bb) % a
        if lo <= hi:
            t = rec(aa, a, lo, hi)
        else:
            # wrapped interval: [lo,a-1] U [0,hi]  -> 0 in it => t=0 but t=0 excluded earlier(since k*a>R) ; still take min of two
            t1 = rec(aa, a, lo, a-1)
            t2 = rec(aa, a, 0, hi)
            cands=[x for x in (t1,t2) if x is not None]
            t = min(cands) if cands else None
        if t is None:
            return None
        m = (L + b*t + a - 1)//a
        return m
    sys.setrecursionlimit(10000)
    return rec(a % b, b, L, R)

def closest(a, b, target, mlo, mhi, maxdelta=None):
    """find m in [mlo,mhi] making (a*m mod b) as close as possible to target; returns list of (m, dist)"""
    base = (a*mlo) % b
    best=None
    d = 1
    res=[]
    while d < b:
        L = (target - d - base) % b
        R = (target + d - base) % b
        if L <= R:
            m = first_in_range(a,b,L,R)
        else:
            c=[x for x in (first_in_range(a,b,L,b-1), first_in_range(a,b,0,R)) if x is not None]
            m = min(c) if c else None
        if m is not None and mlo + m <= mhi:
            mm = mlo+m
            v=(a*mm)%b
            return mm, v-target
        d *= 4
    return None

def round_exact(m, q, p=53, emin=-1074, emax=971):
    """exact nearest-even float bits (as integer mant, exp) for m*10^q, f64; returns python float via Fraction"""
    x = Fraction(m) * Fraction(10)**q
    return float(x)  # CPython float(Fraction) is correctly rounded

if __name__=="__main__":
    random.seed(int(sys.argv[1]) if len(sys.argv)>1 else 1)
    out=[]
    for q in range(-330, 300, 1):
        for (mlo,mhi) in ((10**18, 10**19-1),(2**52,2**53+5),(1,10**15)):
            # determine binade of x = m*10^q for m ~ mlo..mhi (take mlo)
            x = Fraction(mlo)*Fraction(10)**q
            # E = floor(log2 x)
            n,dn = x.numerator, x.denominator
            E = n.bit_length()-dn.bit_length()
            if Fraction(2)**E > x: E-=1
            for dE in (0,1,2,3):
                s = E + dE - 53   # ulp = 2^(s+1)?? midpoint spacing: floats in [2^(E),2^(E+1)) have ulp 2^(E-52); midpoints are odd multiples of 2^(E-53)
                s = E + dE - 53
                if s < -1075: s=-1075
                # want x / 2^s = odd integer  => x/2^(s+1) has frac 1/2
                # x/2^(s+1) = m * 10^q / 2^(s+1) = m * A / B
                if q>=0:
                    A = 5**q * 2**q; B = 2**(s+1) if s+1>=0 else 1
                    if s+1<0: A *= 2**(-(s+1))
                else:
                    A = 1; B = 5**(-q) * 2**(-q)
                    if s+1>=0: B *= 2**(s+1)
                    else: A *= 2**(-(s+1))
                from math import gcd
                g=gcd(A,B); A//=g; B//=g
                if B==1: continue
                target = B//2
                r = closest(A%B, B, target, mlo, mhi)
                if r:
                    m,dist=r
                    out.append((m,q,dist,B))
    for m,q,dist,B in out:
        print(f"{m}e{q}")
