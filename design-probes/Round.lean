namespace Round
structure Fmt where
  p : Nat      -- precision incl. hidden bit (53 / 24)
  ebits : Nat  -- exponent field width (11 / 8)
def f64 : Fmt := ⟨53, 11⟩
def f32 : Fmt := ⟨24, 8⟩
def Fmt.bias (f : Fmt) : Nat := 2^(f.ebits-1) - 1
/-- smallest exponent of the least significant bit: value = m * 2^(e) with e ≥ emin -/
def Fmt.eminLsb (f : Fmt) : Int := 1 - (f.bias : Int) - ((f.p : Int) - 1)   -- -1074 for f64
def bitlen (n : Nat) : Nat := if n = 0 then 0 else Nat.log2 n + 1

/-- exact floor(log2 (num/den)) for positive num, den -/
def ilog2Q (num den : Nat) : Int :=
  let e : Int := (bitlen num : Int) - (bitlen den : Int)
  -- 2^e ≤ num/den ?  i.e. den * 2^e ≤ num
  let ok := if e ≥ 0 then den * 2^e.toNat ≤ num else den ≤ num * 2^(-e).toNat
  if ok then e else e - 1

/-- Round the positive rational num/den to nearest-even; returns the IEEE bit pattern (sign = 0). -/
def roundNE (f : Fmt) (num den : Nat) : Nat :=
  if num = 0 then 0 else
  let e := ilog2Q num den                      -- 2^e ≤ x < 2^(e+1)
  let lsb0 : Int := e - ((f.p : Int) - 1)       -- exponent of last kept bit for a normal number
  let lsb : Int := if lsb0 < f.eminLsb then f.eminLsb else lsb0
  -- q = floor(x / 2^lsb), r = remainder compare
  let (n2, d2) := if lsb ≥ 0 then (num, den * 2^lsb.toNat) else (num * 2^(-lsb).toNat, den)
  let q := n2 / d2
  let rem := n2 % d2
  let q := if 2 * rem > d2 ∨ (2 * rem = d2 ∧ q % 2 = 1) then q + 1 else q
  -- renormalise if rounding carried to 2^p
  let (q, lsb) := if q = 2^f.p then (2^(f.p-1), lsb + 1) else (q, lsb)
  if q < 2^(f.p-1) then q   -- subnormal (or zero): biased exponent 0
  else
    let biased : Int := lsb + ((f.p : Int) - 1) + (f.bias : Int)
    if biased ≥ (2^f.ebits - 1 : Nat) then (2^f.ebits - 1) * 2^(f.p-1)  -- infinity
    else biased.toNat * 2^(f.p-1) + (q - 2^(f.p-1))

def hex (n : Nat) : String := String.mk (Nat.toDigits 16 n)
#eval hex (roundNE f64 1 10)               -- 3fb999999999999a
#eval hex (roundNE f64 1 3)                -- 3fd5555555555555
#eval hex (roundNE f32 1 10)               -- 3dcccccd
#eval hex (roundNE f64 (9007199254740993) 1)  -- 2^53+1 -> tie to even 4340000000000000
#eval hex (roundNE f64 5 (10^324))         -- 4.94e-324 -> 1
#eval hex (roundNE f64 2 (10^324))         -- < half min subnormal -> 0
#eval hex (roundNE f64 (2 * 10^308) 1)     -- inf 7ff0000000000000
#eval hex (roundNE f64 (17976931348623157 * 10^292) 1) -- max 7fefffffffffffff
#eval hex (roundNE f64 855 (1) * 1)        -- 
end Round
