namespace IntProbe

def digitVal (r : Nat) (c : Nat) : Option Nat :=
  let d := if 48 ≤ c ∧ c ≤ 57 then c - 48
           else if 65 ≤ c ∧ c ≤ 90 then c - 55
           else if 97 ≤ c ∧ c ≤ 122 then c - 87 else 255
  if d < r then some d else none


theorem digitVal_lt {r c d : Nat} (h : digitVal r c = some d) : d < r := by
  unfold digitVal at h
  simp only [Option.ite_none_right_eq_some] at h
  obtain ⟨h1, h2⟩ := h
  rw [← Option.some.inj h2]; exact h1

inductive Res where
  | ok (v : Nat) (n : Nat)
  | invalid (i : Nat)
  | overflow (i : Nat)
deriving DecidableEq, Repr

/-- spec: left-to-right scan with exact accumulation; `max` is the type's max -/
def specGo (r max : Nat) (partial_ : Bool) : List Nat → Nat → Nat → Res
  | [], acc, i => .ok acc i
  | c :: cs, acc, i =>
    match digitVal r c with
    | none => if partial_ then .ok acc i else .invalid i
    | some d => if acc * r + d > max then .overflow i else specGo r max partial_ cs (acc * r + d) (i+1)

/-- model: first `k` digits with wrapping arithmetic modulo 2^bits (unchecked), then checked. -/
def unchecked (r bits : Nat) (partial_ : Bool) : Nat → List Nat → Nat → Nat → (Option Res) × List Nat × Nat × Nat
  | 0, cs, acc, i => (none, cs, acc, i)
  | _+1, [], acc, i => (none, [], acc, i)
  | k+1, c :: cs, acc, i =>
    match digitVal r c with
    | none => (some (if partial_ then .ok acc i else .invalid i), cs, acc, i)
    | some d => unchecked r bits partial_ k cs ((acc * r + d) % 2^bits) (i+1)

def checked (r bits : Nat) (partial_ : Bool) : List Nat → Nat → Nat → Res
  | [], acc, i => .ok acc i
  | c :: cs, acc, i =>
    match digitVal r c with
    | none => if partial_ then .ok acc i else .invalid i
    | some d =>
      -- checked_mul then checked_add
      if acc * r ≥ 2^bits then .overflow i
      else if acc * r + d ≥ 2^bits then .overflow i
      else checked r bits partial_ cs (acc * r + d) (i+1)

def model (r bits k : Nat) (partial_ : Bool) (cs : List Nat) : Res :=
  match unchecked r bits partial_ k cs 0 0 with
  | (some res, _, _, _) => res
  | (none, rest, acc, i) => checked r bits partial_ rest acc i

theorem checked_eq_spec (r bits : Nat) (p : Bool) (cs : List Nat) (acc i : Nat) (hr : 0 < r) :
    checked r bits p cs acc i = specGo r (2^bits - 1) p cs acc i := by
  induction cs generalizing acc i with
  | nil => simp [checked, specGo]
  | cons c cs ih =>
    simp only [checked, specGo]
    cases h : digitVal r c with
    | none => simp
    | some d =>
      simp only
      have hpos : 0 < 2^bits := Nat.two_pow_pos bits
      have hd : d < r := digitVal_lt h
      by_cases h1 : acc * r ≥ 2^bits
      · have : acc * r + d > 2^bits - 1 := by omega
        simp [h1, this]
      · by_cases h2 : acc * r + d ≥ 2^bits
        · have : acc * r + d > 2^bits - 1 := by omega
          simp [h1, h2, this]
        · have : ¬ (acc * r + d > 2^bits - 1) := by omega
          simp [h1, h2, this, ih]

/-- Invariant for the unchecked prefix: with j digits consumed so far and acc < r^j, and r^(j+k) ≤ 2^bits, no wrap occurs. -/
theorem unchecked_eq_spec (r bits : Nat) (p : Bool) (hr : 1 < r) :
    ∀ (k : Nat) (cs : List Nat) (acc i j : Nat), acc < r^j → r^(j+k) ≤ 2^bits →
    (match unchecked r bits p k cs acc i with
     | (some res, _, _, _) => res
     | (none, rest, acc', i') => specGo r (2^bits - 1) p rest acc' i')
      = specGo r (2^bits - 1) p cs acc i := by
  intro k
  induction k with
  | zero => intro cs acc i j _ _; simp [unchecked]
  | succ k ih =>
    intro cs acc i j hacc hpow
    cases cs with
    | nil => simp [unchecked]
    | cons c cs =>
      simp only [unchecked, specGo]
      cases h : digitVal r c with
      | none => simp
      | some d =>
        simp only
        have hd : d < r := digitVal_lt h
        have hlt : acc * r + d < r^(j+1) := by
          have : acc + 1 ≤ r^j := hacc
          calc acc * r + d < acc * r + r := by omega
            _ = (acc + 1) * r := by rw [Nat.add_mul]; simp
            _ ≤ r^j * r := Nat.mul_le_mul_right r this
            _ = r^(j+1) := by rw [Nat.pow_succ]
        have hle : r^(j+1) ≤ 2^bits := by
          calc r^(j+1) ≤ r^(j+(k+1)) := Nat.pow_le_pow_right (by omega) (by omega)
            _ ≤ 2^bits := hpow
        have hmod : (acc * r + d) % 2^bits = acc * r + d := Nat.mod_eq_of_lt (by omega)
        have hno : ¬ (acc * r + d > 2^bits - 1) := by omega
        rw [hmod]
        simp only [hno, if_false]
        have := ih cs (acc * r + d) (i+1) (j+1) hlt (by rw [Nat.add_assoc, Nat.add_comm 1 k]; exact hpow)
        exact this

theorem model_eq_spec (r bits k : Nat) (p : Bool) (cs : List Nat) (hr : 1 < r) (hk : r^k ≤ 2^bits) :
    model r bits k p cs = specGo r (2^bits - 1) p cs 0 0 := by
  unfold model
  have h := unchecked_eq_spec r bits p hr k cs 0 0 0 (by simp) (by simpa using hk)
  revert h
  generalize unchecked r bits p k cs 0 0 = u
  obtain ⟨o, rest, acc, i⟩ := u
  cases o with
  | some res => simp
  | none => simp only; intro h; rw [checked_eq_spec _ _ _ _ _ _ (by omega)]; exact h

#print axioms model_eq_spec
example : model 10 8 2 false [50, 53, 54] = .overflow 2 := by decide
end IntProbe
