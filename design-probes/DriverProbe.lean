import P.Round
open Round
def parseCase (s : String) : Option (Nat × Int) :=
  match s.splitOn "e" with
  | [m, q] =>
    let (ip, fp) := match m.splitOn "." with
      | [a, b] => (a, b)
      | _ => (m, "")
    match (ip ++ fp).toNat?, q.toInt? with
    | some mm, some qq => some (mm, qq - fp.length)
    | _, _ => none
  | _ => none
partial def loop (h : IO.FS.Stream) : IO Unit := do
  let line ← h.getLine
  if line.isEmpty then return ()
  let s := line.trimAscii.toString
  match parseCase s with
  | some (m, q) =>
    let (n, d) := if q ≥ 0 then (m * 10^q.toNat, 1) else (m, 10^(-q).toNat)
    IO.println s!"{s} {hex (roundNE f64 n d)} {hex (roundNE f32 n d)}"
  | none => IO.println s!"{s} bad"
  loop h
def main : IO Unit := do loop (← IO.getStdin)
