# design-phase probe: regenerate P/Tab.lean (Lemire table + closed-form spec) from /repo source
import re
src=open('/repo/lexical-parse-float/src/table_lemire.rs').read()
rows=re.findall(r'\(0x([0-9a-f]+), 0x([0-9a-f]+)\)',src)
with open('Tab.lean','w') as f:
    f.write('namespace Tab\n')
    f.write('def pow5tab : Array (Nat × Nat) := #[\n')
    f.write(',\n'.join(f'  (0x{a}, 0x{b})' for a,b in rows))
    f.write(']\n')
    f.write('''
def bitlen (n : Nat) : Nat := Nat.log2 n + 1
def specRow (i : Nat) : Nat :=
  if i < 342 then
    let e := 342 - i
    let p := 5 ^ e
    let z := bitlen p - (if p = 2 ^ (bitlen p - 1) then 1 else 0)
    if e ≤ 27 then
      2 ^ (z + 127) / p + 1
    else
      let b := 2 * z + 128
      let c := 2 ^ b / p + 1
      c / 2 ^ (bitlen c - 128)
  else
    let p := 5 ^ (i - 342)
    if bitlen p ≤ 128 then p * 2 ^ (128 - bitlen p) else p / 2 ^ (bitlen p - 128)
def rowVal (r : Nat × Nat) : Nat := r.1 * 2 ^ 64 + r.2
def checkAll : Bool := (List.range 651).all fun i => rowVal pow5tab[i]! == specRow i
end Tab
''')
