use std::io::{self, BufRead};
fn main() {
    let stdin = io::stdin();
    for line in stdin.lock().lines() {
        let l = line.unwrap();
        let r64 = lexical_core::parse::<f64>(l.as_bytes());
        let r32 = lexical_core::parse::<f32>(l.as_bytes());
        match (r64, r32) {
            (Ok(a), Ok(b)) => println!("{} {:016x} {:08x}", l, a.to_bits(), b.to_bits()),
            _ => println!("{} err", l),
        }
    }
}
