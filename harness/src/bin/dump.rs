//! R (reflection dump): prints finite-domain objects of the compiled crates (tables, dispatch
//! functions evaluated on their whole domain, limits, flag constants) as `name = value` lines.
//! `extractors/*.py` turn sections of this dump into `lean/LexVerif/Gen/*.lean`.
#[path = "../dumps.rs"]
mod dumps;

fn main() {
    let which: Vec<String> = std::env::args().skip(1).collect();
    dumps::dump(&which);
}
