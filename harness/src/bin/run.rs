//! C (correspondence) side of the harness: reads one op per line on stdin, calls the real
//! rust-lexical code in-process, prints one canonical result line per op on stdout.
//!
//! Result lines:  `ok ...` | `err <Kind> <index|->` | `panic` | `nofmt` | `badop`.
//! Floats are always printed as hexadecimal bit patterns, byte strings as hex.
use std::fmt::{Debug, Display};
use std::io::{self, BufRead, Write};
use std::panic::{self, AssertUnwindSafe};
use std::str::FromStr;

use lexical_core::{
    FormattedSize, FromLexical, FromLexicalWithOptions, ParseFloatOptions, ParseIntegerOptions,
    ToLexical, ToLexicalWithOptions, WriteFloatOptions, WriteIntegerOptions,
};

#[path = "../guard.rs"]
mod guard;
#[path = "../comp.rs"]
mod comp;
#[path = "../sweep.rs"]
mod sweep;
use comp::op_pn;

// ---------------------------------------------------------------------------------------
// helpers

pub fn unhex(s: &str) -> Vec<u8> {
    if s == "-" || s == "_" {
        return Vec::new();
    }
    let b = s.as_bytes();
    let mut v = Vec::with_capacity(b.len() / 2);
    let mut i = 0;
    while i + 1 < b.len() {
        let h = (b[i] as char).to_digit(16).unwrap() as u8;
        let l = (b[i + 1] as char).to_digit(16).unwrap() as u8;
        v.push(h << 4 | l);
        i += 2;
    }
    v
}

pub fn hex(b: &[u8]) -> String {
    if b.is_empty() {
        return "_".to_string();
    }
    let mut s = String::with_capacity(b.len() * 2);
    for x in b {
        s.push_str(&format!("{:02x}", x));
    }
    s
}

fn opt_str(s: &str) -> Option<&'static [u8]> {
    if s == "-" {
        None
    } else {
        Some(Box::leak(unhex(s).into_boxed_slice()))
    }
}

pub fn err_line<E: Debug>(e: &E) -> String {
    // Debug of lexical's Error is `Kind(index)` or `Kind`.
    let d = format!("{:?}", e);
    if let Some(p) = d.find('(') {
        format!("err {} {}", &d[..p], &d[p + 1..d.len() - 1])
    } else {
        format!("err {} -", d)
    }
}

pub trait IntTy:
    Copy
    + Display
    + FromStr
    + FormattedSize
    + FromLexical
    + ToLexical
    + FromLexicalWithOptions<Options = ParseIntegerOptions>
    + ToLexicalWithOptions<Options = WriteIntegerOptions>
{
}
macro_rules! int_ty { ($($t:ty)*) => ($( impl IntTy for $t {} )*) }
int_ty! { u8 u16 u32 u64 u128 usize i8 i16 i32 i64 i128 isize }

pub trait FloatTy:
    Copy
    + FormattedSize
    + FromLexical
    + ToLexical
    + FromLexicalWithOptions<Options = ParseFloatOptions>
    + ToLexicalWithOptions<Options = WriteFloatOptions>
{
    fn bits_hex(self) -> String;
    fn from_bits_hex(s: &str) -> Self;
    /// parse results: every NaN is printed as `nan`
    fn parsed_hex(self) -> String;
}
impl FloatTy for f32 {
    fn bits_hex(self) -> String {
        if self.is_nan() {
            return "nan".to_string();
        }
        format!("{:x}", self.to_bits())
    }
    fn from_bits_hex(s: &str) -> Self {
        f32::from_bits(u32::from_str_radix(s, 16).unwrap())
    }
    fn parsed_hex(self) -> String {
        if self.is_nan() { "nan".to_string() } else { self.bits_hex() }
    }
}
impl FloatTy for f64 {
    fn bits_hex(self) -> String {
        if self.is_nan() {
            return "nan".to_string();
        }
        format!("{:x}", self.to_bits())
    }
    fn from_bits_hex(s: &str) -> Self {
        f64::from_bits(u64::from_str_radix(s, 16).unwrap())
    }
    fn parsed_hex(self) -> String {
        if self.is_nan() { "nan".to_string() } else { self.bits_hex() }
    }
}

// ---------------------------------------------------------------------------------------
// ops (generic over type and const format)

/// pi: args = [partial, nomulti, hexinput]
fn op_pi<T: IntTy, const F: u128>(facade: bool, a: &[&str]) -> String {
    let partial = a[0] == "1";
    let mut b = ParseIntegerOptions::builder();
    b = b.no_multi_digit(a[1] == "1");
    let opts = match b.build() {
        Ok(o) => o,
        Err(e) => return format!("opt{}", err_line(&e)),
    };
    let input = guard::GuardedBuf::from_bytes(&unhex(a[2]));
    let bytes = input.as_slice();
    if partial {
        let r = if facade {
            lexical::parse_partial_with_options::<T, _, F>(bytes, &opts)
        } else {
            lexical_core::parse_partial_with_options::<T, F>(bytes, &opts)
        };
        match r {
            Ok((v, n)) => format!("ok {} {}", v, n),
            Err(e) => err_line(&e),
        }
    } else {
        let r = if facade {
            lexical::parse_with_options::<T, _, F>(bytes, &opts)
        } else {
            lexical_core::parse_with_options::<T, F>(bytes, &opts)
        };
        match r {
            Ok(v) => format!("ok {} -", v),
            Err(e) => err_line(&e),
        }
    }
}

/// wi: args = [value, buflen|-]
fn op_wi<T: IntTy, const F: u128>(facade: bool, a: &[&str]) -> String {
    let v: T = match a[0].parse() {
        Ok(v) => v,
        Err(_) => return "badop".into(),
    };
    let opts = WriteIntegerOptions::new();
    if facade {
        let s = lexical::to_string_with_options::<T, F>(v, &opts);
        return format!("ok {}", hex(s.as_bytes()));
    }
    let bound = opts.buffer_size_const::<T, F>();
    let len = if a[1] == "-" { bound } else { a[1].parse().unwrap() };
    let mut buf = guard::GuardedBuf::new(len, 0xAA);
    let out = lexical_core::write_with_options::<T, F>(v, buf.as_mut_slice(), &opts);
    let n = out.len();
    let res = hex(&buf.as_slice()[..n]);
    format!("ok {} {}", res, if buf.tail_intact(n, 0xAA) { "clean" } else { "dirty" })
}

pub fn pf_opts(a: &[&str]) -> Result<ParseFloatOptions, String> {
    // [lossy, exp, dp, nan, inf, infinity]
    let b = ParseFloatOptions::builder()
        .lossy(a[0] == "1")
        .exponent(a[1].parse().unwrap())
        .decimal_point(a[2].parse().unwrap())
        .nan_string(opt_str(a[3]))
        .inf_string(opt_str(a[4]))
        .infinity_string(opt_str(a[5]));
    b.build().map_err(|e| format!("opt{}", err_line(&e)))
}

/// pf: args = [partial, lossy, exp, dp, nan, inf, infinity, hexinput]
fn op_pf<T: FloatTy, const F: u128>(facade: bool, a: &[&str]) -> String {
    let partial = a[0] == "1";
    let opts = match pf_opts(&a[1..7]) {
        Ok(o) => o,
        Err(s) => return s,
    };
    let input = guard::GuardedBuf::from_bytes(&unhex(a[7]));
    let bytes = input.as_slice();
    if partial {
        let r = if facade {
            lexical::parse_partial_with_options::<T, _, F>(bytes, &opts)
        } else {
            lexical_core::parse_partial_with_options::<T, F>(bytes, &opts)
        };
        match r {
            Ok((v, n)) => format!("ok {} {}", v.parsed_hex(), n),
            Err(e) => err_line(&e),
        }
    } else {
        let r = if facade {
            lexical::parse_with_options::<T, _, F>(bytes, &opts)
        } else {
            lexical_core::parse_with_options::<T, F>(bytes, &opts)
        };
        match r {
            Ok(v) => format!("ok {} -", v.parsed_hex()),
            Err(e) => err_line(&e),
        }
    }
}

fn opt_usize(s: &str) -> Option<core::num::NonZeroUsize> {
    if s == "-" {
        None
    } else {
        core::num::NonZeroUsize::new(s.parse().unwrap())
    }
}
fn opt_i32(s: &str) -> Option<core::num::NonZeroI32> {
    if s == "-" {
        None
    } else {
        core::num::NonZeroI32::new(s.parse().unwrap())
    }
}

fn wf_opts(a: &[&str]) -> Result<WriteFloatOptions, String> {
    // [max, min, posbrk, negbrk, round(r|t), trim, exp, dp, nan, inf]
    let b = WriteFloatOptions::builder()
        .max_significant_digits(opt_usize(a[0]))
        .min_significant_digits(opt_usize(a[1]))
        .positive_exponent_break(opt_i32(a[2]))
        .negative_exponent_break(opt_i32(a[3]))
        .round_mode(if a[4] == "t" {
            lexical_core::write_float_options::RoundMode::Truncate
        } else {
            lexical_core::write_float_options::RoundMode::Round
        })
        .trim_floats(a[5] == "1")
        .exponent(a[6].parse().unwrap())
        .decimal_point(a[7].parse().unwrap())
        .nan_string(opt_str(a[8]))
        .inf_string(opt_str(a[9]));
    b.build().map_err(|e| format!("opt{}", err_line(&e)))
}

/// wf: args = [bits, <10 option fields>, buflen|-]
fn op_wf<T: FloatTy, const F: u128>(facade: bool, a: &[&str]) -> String {
    let v = T::from_bits_hex(a[0]);
    let opts = match wf_opts(&a[1..11]) {
        Ok(o) => o,
        Err(s) => return s,
    };
    if facade {
        let s = lexical::to_string_with_options::<T, F>(v, &opts);
        return format!("ok {}", hex(s.as_bytes()));
    }
    let bound = opts.buffer_size_const::<T, F>();
    let len = if a[11] == "-" { bound } else { a[11].parse().unwrap() };
    let mut buf = guard::GuardedBuf::new(len, 0xAA);
    let out = lexical_core::write_with_options::<T, F>(v, buf.as_mut_slice(), &opts);
    let n = out.len();
    let res = hex(&buf.as_slice()[..n]);
    format!(
        "ok {} {} {}",
        res,
        if buf.tail_intact(n, 0xAA) { "clean" } else { "dirty" },
        bound
    )
}

/// bs: args = [<10 option fields>]  -> buffer_size_const
fn op_bs<T: FloatTy, const F: u128>(_facade: bool, a: &[&str]) -> String {
    let opts = match wf_opts(&a[0..10]) {
        Ok(o) => o,
        Err(s) => return s,
    };
    format!("ok {}", opts.buffer_size_const::<T, F>())
}

include!(concat!(env!("OUT_DIR"), "/formats_gen.rs"));

// ---------------------------------------------------------------------------------------
// default-API ops (no const format)

fn d_pi<T: IntTy>(facade: bool, a: &[&str]) -> String {
    let input = guard::GuardedBuf::from_bytes(&unhex(a[1]));
    let bytes = input.as_slice();
    if a[0] == "1" {
        let r = if facade { lexical::parse_partial::<T, _>(bytes) } else { lexical_core::parse_partial::<T>(bytes) };
        match r {
            Ok((v, n)) => format!("ok {} {}", v, n),
            Err(e) => err_line(&e),
        }
    } else {
        let r = if facade { lexical::parse::<T, _>(bytes) } else { lexical_core::parse::<T>(bytes) };
        match r {
            Ok(v) => format!("ok {} -", v),
            Err(e) => err_line(&e),
        }
    }
}
fn d_pf<T: FloatTy>(facade: bool, a: &[&str]) -> String {
    let input = guard::GuardedBuf::from_bytes(&unhex(a[1]));
    let bytes = input.as_slice();
    if a[0] == "1" {
        let r = if facade { lexical::parse_partial::<T, _>(bytes) } else { lexical_core::parse_partial::<T>(bytes) };
        match r {
            Ok((v, n)) => format!("ok {} {}", v.parsed_hex(), n),
            Err(e) => err_line(&e),
        }
    } else {
        let r = if facade { lexical::parse::<T, _>(bytes) } else { lexical_core::parse::<T>(bytes) };
        match r {
            Ok(v) => format!("ok {} -", v.parsed_hex()),
            Err(e) => err_line(&e),
        }
    }
}
fn d_wi<T: IntTy>(facade: bool, a: &[&str]) -> String {
    let v: T = match a[0].parse() {
        Ok(v) => v,
        Err(_) => return "badop".into(),
    };
    if facade {
        return format!("ok {}", hex(lexical::to_string(v).as_bytes()));
    }
    let len = if a[1] == "-" { T::FORMATTED_SIZE_DECIMAL } else { a[1].parse().unwrap() };
    let mut buf = guard::GuardedBuf::new(len, 0xAA);
    let n = lexical_core::write(v, buf.as_mut_slice()).len();
    let disp = format!("{}", v);
    format!(
        "ok {} {} {}",
        hex(&buf.as_slice()[..n]),
        if buf.tail_intact(n, 0xAA) { "clean" } else { "dirty" },
        if disp.as_bytes() == &buf.as_slice()[..n] { "display" } else { "nodisplay" }
    )
}
fn d_wf<T: FloatTy>(facade: bool, a: &[&str]) -> String {
    let v = T::from_bits_hex(a[0]);
    if facade {
        return format!("ok {}", hex(lexical::to_string(v).as_bytes()));
    }
    let len = if a[1] == "-" { T::FORMATTED_SIZE_DECIMAL } else { a[1].parse().unwrap() };
    let mut buf = guard::GuardedBuf::new(len, 0xAA);
    let n = lexical_core::write(v, buf.as_mut_slice()).len();
    format!("ok {} {}", hex(&buf.as_slice()[..n]), if buf.tail_intact(n, 0xAA) { "clean" } else { "dirty" })
}

macro_rules! by_int {
    ($ty:expr, $f:ident, $($args:expr),*) => {
        match $ty {
            "u8" => $f::<u8>($($args),*), "u16" => $f::<u16>($($args),*), "u32" => $f::<u32>($($args),*),
            "u64" => $f::<u64>($($args),*), "u128" => $f::<u128>($($args),*), "usize" => $f::<usize>($($args),*),
            "i8" => $f::<i8>($($args),*), "i16" => $f::<i16>($($args),*), "i32" => $f::<i32>($($args),*),
            "i64" => $f::<i64>($($args),*), "i128" => $f::<i128>($($args),*), "isize" => $f::<isize>($($args),*),
            _ => return "badop".into(),
        }
    };
}
macro_rules! by_float {
    ($ty:expr, $f:ident, $($args:expr),*) => {
        match $ty {
            "f32" => $f::<f32>($($args),*), "f64" => $f::<f64>($($args),*),
            _ => return "badop".into(),
        }
    };
}

fn parse_fmt(s: &str) -> u128 {
    u128::from_str_radix(s.trim_start_matches("0x"), 16).unwrap()
}

fn run_op(line: &str) -> String {
    let t: Vec<&str> = line.split(' ').collect();
    if t.is_empty() {
        return "badop".into();
    }
    let (facade, op) = if let Some(r) = t[0].strip_prefix('L') { (true, r) } else { (false, t[0]) };
    let nofmt = || "nofmt".to_string();
    match op {
        // formatted APIs: op ty fmt args...
        "pi" => by_int!(t[1], dispatch_pi, parse_fmt(t[2]), facade, &t[3..]).unwrap_or_else(nofmt),
        "wi" => by_int!(t[1], dispatch_wi, parse_fmt(t[2]), facade, &t[3..]).unwrap_or_else(nofmt),
        // `apf`: the same API call; the model column is the *algorithmic* pipeline model (Model.ParseFloatAlgo)
        "pf" | "apf" => by_float!(t[1], dispatch_pf, parse_fmt(t[2]), facade, &t[3..]).unwrap_or_else(nofmt),
        "wf" => by_float!(t[1], dispatch_wf, parse_fmt(t[2]), facade, &t[3..]).unwrap_or_else(nofmt),
        "bs" => by_float!(t[1], dispatch_bs, parse_fmt(t[2]), facade, &t[3..]).unwrap_or_else(nofmt),
        // default APIs: op ty args...
        "dpi" => by_int!(t[1], d_pi, facade, &t[2..]),
        "dpf" => by_float!(t[1], d_pf, facade, &t[2..]),
        "dwi" => by_int!(t[1], d_wi, facade, &t[2..]),
        "dwf" => by_float!(t[1], d_wf, facade, &t[2..]),
        _ => match sweep::run(op, &t[1..]) {
            Some(r) => r,
            None => comp::run_comp(op, &t[1..]),
        },
    }
}

fn main() {
    let args: Vec<String> = std::env::args().collect();
    if args.len() > 1 && args[1] == "--formats" {
        for f in INT_FORMATS {
            println!("I {:x}", f);
        }
        for f in FLOAT_FORMATS {
            println!("F {:x}", f);
        }
        return;
    }
    // LEXVERIF_PANICMSG=1: print each panic's location and message to stderr (diagnosis only)
    if std::env::var("LEXVERIF_PANICMSG").is_ok() {
        panic::set_hook(Box::new(|info| eprintln!("{}", info)));
    } else {
        panic::set_hook(Box::new(|_| {}));
    }
    let stdin = io::stdin();
    let stdout = io::stdout();
    let mut out = io::BufWriter::with_capacity(1 << 16, stdout.lock());
    let flush_each = std::env::var("LEXVERIF_FLUSH").is_ok();
    for line in stdin.lock().lines() {
        let line = line.unwrap();
        let line = line.trim_end();
        if line.is_empty() || line.starts_with('#') {
            continue;
        }
        let r = panic::catch_unwind(AssertUnwindSafe(|| run_op(line)));
        match r {
            Ok(s) => writeln!(out, "{}", s).unwrap(),
            Err(_) => writeln!(out, "panic").unwrap(),
        }
        if flush_each {
            out.flush().unwrap();
        }
    }
    out.flush().unwrap();
}
