//! Component-level ops (internal functions of the crates), used for component correspondence.
use lexical_util::format as f;

fn hex128(s: &str) -> u128 {
    u128::from_str_radix(s.trim_start_matches("0x"), 16).unwrap()
}

pub fn run_comp(op: &str, a: &[&str]) -> String {
    match op {
        // fe HEX128 -> Debug name of `format_error_impl(x)` (run-time hook, cfg lexical_verif)
        "fe" => format!("{:?}", f::verif_format_error(hex128(a[0]))),
        // vp HEX128 EXP DP -> is_valid_options_punctuation(format, exponent, decimal_point)
        "vp" => {
            let e: u8 = a[1].parse().unwrap();
            let d: u8 = a[2].parse().unwrap();
            format!("{}", f::is_valid_options_punctuation(hex128(a[0]), e, d))
        },
        // rb HEX128 -> NumberFormatBuilder::rebuild(x).build_unchecked() as hex
        "rb" => format!("{:x}", f::NumberFormatBuilder::rebuild(hex128(a[0])).build_unchecked()),
        _ => "badop".into(),
    }
}
