//! Component-level ops (internal functions of the crates), used for component correspondence.
pub fn run_comp(_op: &str, _a: &[&str]) -> String {
    "badop".into()
}
