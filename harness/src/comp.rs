//! Component-level ops (internal functions of the crates), used for component correspondence.
use lexical_parse_float::parse::{parse_mantissa_sign, parse_number};
use lexical_util::format as f;
use lexical_util::iterator::{AsBytes, Iter};

#[path = "comp_write.rs"]
mod comp_write;
#[path = "comp_parse.rs"]
pub mod comp_parse;
#[path = "comp_opts.rs"]
mod comp_opts;

fn hex128(s: &str) -> u128 {
    u128::from_str_radix(s.trim_start_matches("0x"), 16).unwrap()
}

pub fn run_comp(op: &str, a: &[&str]) -> String {
    match op {
        // fe HEX128 -> Debug name of `format_error_impl(x)` (run-time hook, cfg lexical_verif)
        "fe" => format!("{:?}", f::verif_format_error(hex128(a[0]))),
        // vp HEX128 EXP DP -> is_valid_options_punctuation(format, exponent, decimal_point)
        "vp" => {
            let e: u8 = a[1].parse().unwrap();
            let d: u8 = a[2].parse().unwrap();
            format!("{}", f::is_valid_options_punctuation(hex128(a[0]), e, d))
        },
        // rb HEX128 -> NumberFormatBuilder::rebuild(x).build_unchecked() as hex
        "rb" => format!("{:x}", f::NumberFormatBuilder::rebuild(hex128(a[0])).build_unchecked()),
        // pn FMT PARTIAL LOSSY EXP DP NAN INF INFINITY HEX
        "pn" => crate::dispatch_pn(crate::parse_fmt(a[0]), &a[1..]).unwrap_or_else(|| "nofmt".to_string()),
        // algorithm components (comp_parse.rs): cf / lm (no format), bel / bin / sbin / fp TY FMT ..
        "cf" => comp_parse::op_cf(a),
        "lm" => comp_parse::op_lm(a),
        "bel" | "bin" | "sbin" | "fp" | "sl" => {
            let mut v: Vec<&str> = vec![op, a[0]];
            v.extend_from_slice(&a[2..]);
            crate::dispatch_alg(crate::parse_fmt(a[1]), &v).unwrap_or_else(|| "nofmt".to_string())
        },
        "td" | "gr" => comp_write::run(op, a),
        // po / wo: option validators (comp_opts.rs)
        "po" | "wo" => comp_opts::run(op, a),
        // fs TY HEX -> `core::str::FromStr` of Rust itself: `ok <bits|value> -` | `err FromStr -` (C12: STANDARD vs FromStr)
        "fs" => op_fs(a[0], &crate::unhex(a[1])),
        _ => "badop".into(),
    }
}

/// Rust's own `str::parse::<TY>()`; non-UTF-8 input is `err` (a `&str` cannot hold it).
pub fn op_fs(ty: &str, bytes: &[u8]) -> String {
    let s = match core::str::from_utf8(bytes) {
        Ok(s) => s,
        Err(_) => return "err FromStr -".into(),
    };
    macro_rules! int {
        ($t:ty) => {
            match s.parse::<$t>() {
                Ok(v) => format!("ok {} -", v),
                Err(_) => "err FromStr -".to_string(),
            }
        };
    }
    match ty {
        "f32" => match s.parse::<f32>() {
            Ok(v) if v.is_nan() => "ok nan -".into(),
            Ok(v) => format!("ok {:x} -", v.to_bits()),
            Err(_) => "err FromStr -".into(),
        },
        "f64" => match s.parse::<f64>() {
            Ok(v) if v.is_nan() => "ok nan -".into(),
            Ok(v) => format!("ok {:x} -", v.to_bits()),
            Err(_) => "err FromStr -".into(),
        },
        "u8" => int!(u8), "u16" => int!(u16), "u32" => int!(u32), "u64" => int!(u64), "u128" => int!(u128),
        "usize" => int!(usize), "i8" => int!(i8), "i16" => int!(i16), "i32" => int!(i32), "i64" => int!(i64),
        "i128" => int!(i128), "isize" => int!(isize),
        _ => "badop".into(),
    }
}

/// pn: args = [partial, lossy, exp, dp, nan, inf, infinity, hexinput]
/// Calls `parse_number::<FORMAT, PARTIAL>` after `parse_mantissa_sign` and the emptiness test,
/// exactly as `parse_partial` / `parse_complete` do.
/// Result: `ok <mantissa> <exponent> <many 0|1> <neg 0|1> <count> <integer hex> <fraction hex|->`
///       | `empty <cursor>` (nothing after the sign: parse_number is not called) | `err Kind idx`.
pub fn op_pn<const F: u128>(a: &[&str]) -> String {
    let partial = a[0] == "1";
    let opts = match crate::pf_opts(&a[1..7]) {
        Ok(o) => o,
        Err(s) => return s,
    };
    let input = crate::guard::GuardedBuf::from_bytes(&crate::unhex(a[7]));
    let bytes = input.as_slice();
    let mut byte = bytes.bytes::<F>();
    let is_negative = match parse_mantissa_sign(&mut byte) {
        Ok(b) => b,
        Err(e) => return crate::err_line(&e),
    };
    if lexical_util::iterator::DigitsIter::is_consumed(&mut byte.integer_iter()) {
        return format!("empty {}", byte.cursor());
    }
    let r = if partial {
        parse_number::<F, true>(byte.clone(), is_negative, &opts)
    } else {
        parse_number::<F, false>(byte.clone(), is_negative, &opts)
    };
    match r {
        Ok((n, count)) => format!(
            "ok {} {} {} {} {} {} {}",
            n.mantissa,
            n.exponent,
            n.many_digits as u8,
            n.is_negative as u8,
            count,
            crate::hex(n.integer),
            match n.fraction {
                Some(f) => crate::hex(f),
                None => "-".to_string(),
            }
        ),
        Err(e) => crate::err_line(&e),
    }
}
