//! R dump, number→string side: `dragonbox`, `grisu`, `int_tables`, `sizes`.
//!
//! Line format: `key value...` (space separated; numbers decimal unless the key says hex).
//! Long vectors are printed on one line: `vec NAME LO HI v_LO … v_HI` (HI inclusive).
#![allow(dead_code, unused_imports, unused_macros)]

fn vec_line<I: Iterator<Item = i64>>(name: &str, lo: i64, hi: i64, it: I) {
    let mut s = String::new();
    s.push_str(&format!("vec {} {} {}", name, lo, hi));
    for v in it {
        s.push(' ');
        s.push_str(&v.to_string());
    }
    println!("{}", s);
}

pub fn dump_write(want: &dyn Fn(&str) -> bool) {
    if want("dragonbox") {
        println!("section dragonbox");
        dragonbox();
    }
    if want("grisu") {
        println!("section grisu");
        grisu();
    }
    if want("int_tables") {
        println!("section int_tables");
        int_tables();
    }
    if want("sizes") {
        println!("section sizes");
        sizes();
    }
}

// ---------------------------------------------------------------------------------------------
// dragonbox

#[cfg(feature = "compact")]
fn dragonbox() {
    println!("absent compact");
}

#[cfg(not(feature = "compact"))]
fn dragonbox() {
    use lexical_util::num::Float;
    use lexical_write_float::algorithm::*;
    use lexical_write_float::table::*;

    println!("pow5_32_range {} {} {}", SMALLEST_F32_POW5, LARGEST_F32_POW5, N32_POWERS_OF_FIVE);
    println!("pow5_32_len {}", DRAGONBOX32_POWERS_OF_FIVE.len());
    for (i, v) in DRAGONBOX32_POWERS_OF_FIVE.iter().enumerate() {
        println!("pow5_32 {} {}", i, v);
    }
    println!("pow5_64_range {} {} {}", SMALLEST_F64_POW5, LARGEST_F64_POW5, N64_POWERS_OF_FIVE);
    println!("pow5_64_len {}", DRAGONBOX64_POWERS_OF_FIVE.len());
    for (i, v) in DRAGONBOX64_POWERS_OF_FIVE.iter().enumerate() {
        // accessor functions of the algorithm decide which half is which
        println!("pow5_64 {} {} {}", i, high(v), low(v));
    }
    // does the accessor used by the writer agree with direct indexing on every legal exponent?
    let mut ok = true;
    for e in SMALLEST_F32_POW5..=LARGEST_F32_POW5 {
        let p = unsafe { <f32 as DragonboxFloat>::dragonbox_power(e) };
        ok &= p == DRAGONBOX32_POWERS_OF_FIVE[(e - SMALLEST_F32_POW5) as usize];
    }
    for e in SMALLEST_F64_POW5..=LARGEST_F64_POW5 {
        let p = unsafe { <f64 as DragonboxFloat>::dragonbox_power(e) };
        ok &= p == DRAGONBOX64_POWERS_OF_FIVE[(e - SMALLEST_F64_POW5) as usize];
    }
    println!("dragonbox_power_is_index {}", ok);

    macro_rules! consts {
        ($t:ident) => {{
            let n = stringify!($t);
            println!("const {} KAPPA {}", n, <$t as DragonboxFloat>::KAPPA);
            println!("const {} DECIMAL_DIGITS {}", n, <$t as DragonboxFloat>::DECIMAL_DIGITS);
            println!("const {} FC_PM_HALF_LOWER {}", n, <$t as DragonboxFloat>::FC_PM_HALF_LOWER);
            println!("const {} DIV_BY_5_THRESHOLD {}", n, <$t as DragonboxFloat>::DIV_BY_5_THRESHOLD);
            println!("const {} MANTISSA_SIZE {}", n, <$t as Float>::MANTISSA_SIZE);
            println!("const {} EXPONENT_SIZE {}", n, <$t as Float>::EXPONENT_SIZE);
            println!("const {} EXPONENT_BIAS {}", n, <$t as Float>::EXPONENT_BIAS);
            println!("const {} DENORMAL_EXPONENT {}", n, <$t as Float>::DENORMAL_EXPONENT);
            println!("const {} MAX_EXPONENT {}", n, <$t as Float>::MAX_EXPONENT);
            // what `exponent()` really returns on the extreme finite values
            println!("const {} MIN_FINITE_EXPONENT {}", n, <$t>::from_bits(1).exponent());
            println!("const {} MIN_NORMAL_EXPONENT {}", n, <$t>::MIN_POSITIVE.exponent());
            println!("const {} MAX_FINITE_EXPONENT {}", n, <$t>::MAX.exponent());
            // endpoint predicates over every finite exponent (and one beyond on each side)
            let lo = <$t>::from_bits(1).exponent() as i64 - 1;
            let hi = <$t>::MAX.exponent() as i64 + 1;
            vec_line(&format!("is_right_endpoint_{}", n), lo, hi, (lo..=hi).map(|e| is_right_endpoint::<$t>(e as i32) as i64));
            vec_line(&format!("is_left_endpoint_{}", n), lo, hi, (lo..=hi).map(|e| is_left_endpoint::<$t>(e as i32) as i64));
        }};
    }
    consts!(f32);
    consts!(f64);

    // log approximations on their whole documented domains
    vec_line("floor_log5_pow2", -1492, 1492, (-1492..=1492).map(|q| floor_log5_pow2(q) as i64));
    vec_line("floor_log10_pow2", -1700, 1700, (-1700..=1700).map(|q| floor_log10_pow2(q) as i64));
    vec_line("floor_log2_pow10", -1233, 1233, (-1233..=1233).map(|q| floor_log2_pow10(q) as i64));
    vec_line(
        "floor_log5_pow2_minus_log5_3",
        -2427,
        2427,
        (-2427..=2427).map(|q| floor_log5_pow2_minus_log5_3(q) as i64),
    );
    vec_line(
        "floor_log10_pow2_minus_log10_4_over_3",
        -1700,
        1700,
        (-1700..=1700).map(|q| floor_log10_pow2_minus_log10_4_over_3(q) as i64),
    );
    // floor_log2 on 0, every power of two, every 2^(j+1)-1, and the two arguments the writer uses
    println!("floor_log2 0 {}", floor_log2(0));
    for j in 0..64u32 {
        let a = 1u64 << j;
        let b = if j == 63 { u64::MAX } else { (1u64 << (j + 1)) - 1 };
        println!("floor_log2 {} {}", a, floor_log2(a));
        println!("floor_log2 {} {}", b, floor_log2(b));
    }
    for bits in [24u32, 25, 53, 54] {
        for n in [(1u64 << bits) + 1, (1u64 << bits) - 1] {
            let factors = count_factors(5, n) + 1;
            let arg = pow64(10, factors) / 3;
            println!("count_factors5 {} {}", n, count_factors(5, n));
            println!("floor_log2 {} {}", arg, floor_log2(arg));
        }
    }
    for e in 0..=19u32 {
        println!("pow64_10 {} {}", e, pow64(10, e));
    }
    for e in 0..=9u32 {
        println!("pow32_10 {} {}", e, pow32(10, e));
    }
}

// ---------------------------------------------------------------------------------------------
// grisu

#[cfg(not(feature = "compact"))]
fn grisu() {
    println!("absent not-compact");
}

#[cfg(feature = "compact")]
fn grisu() {
    use lexical_util::num::Float;
    use lexical_write_float::compact::*;
    use lexical_write_float::table::*;

    println!("grisu_len {}", GRISU_POWERS_OF_TEN.len());
    for (i, v) in GRISU_POWERS_OF_TEN.iter().enumerate() {
        let acc = <f64 as GrisuFloat>::grisu_power(i);
        let acc32 = <f32 as GrisuFloat>::grisu_power(i);
        let dec = verif_fast_decimal_power(i);
        let bin = verif_fast_binary_power(dec);
        println!("grisu {} {} {} {} {}", i, v, dec, bin, (acc == *v && acc32 == *v) as u8);
    }
    // fast_binary_power on every decimal exponent the table spans (and a margin)
    vec_line("fast_binary_power", -400, 400, (-400..=400).map(|q| verif_fast_binary_power(q) as i64));
    // cached_grisu_power over the range its debug assertion admits; a panic (index out of the
    // table) is printed as such
    let prev = std::panic::take_hook();
    std::panic::set_hook(Box::new(|_| {}));
    for exp in -1140..=1089i32 {
        match std::panic::catch_unwind(|| verif_cached_grisu_power(exp)) {
            Ok((mant, bexp, k)) => println!("cached {} {} {} {}", exp, mant, bexp, k),
            Err(_) => println!("cached {} panic", exp),
        }
    }
    std::panic::set_hook(prev);
    macro_rules! consts {
        ($t:ident) => {{
            let n = stringify!($t);
            println!("const {} MANTISSA_SIZE {}", n, <$t as Float>::MANTISSA_SIZE);
            println!("const {} DENORMAL_EXPONENT {}", n, <$t as Float>::DENORMAL_EXPONENT);
            println!("const {} MAX_EXPONENT {}", n, <$t as Float>::MAX_EXPONENT);
            println!("const {} MIN_FINITE_EXPONENT {}", n, <$t>::from_bits(1).exponent());
            println!("const {} MAX_FINITE_EXPONENT {}", n, <$t>::MAX.exponent());
            // exponent of the normalised upper boundary, the argument of cached_grisu_power
            let b = |x: $t| {
                let w = from_float(x);
                let (_, upper) = normalized_boundaries::<$t>(&w);
                upper.exp
            };
            println!("const {} MIN_UPPER_EXP {}", n, b(<$t>::from_bits(1)));
            println!("const {} MAX_UPPER_EXP {}", n, b(<$t>::MAX));
        }};
    }
    consts!(f32);
    consts!(f64);
}

// ---------------------------------------------------------------------------------------------
// integer tables

fn int_tables() {
    use lexical_util::digit::*;
    use lexical_util::step::*;

    // steps exist under every feature set
    for r in 2..=36u32 {
        println!("u64_step {} {}", r, u64_step(r));
        for bits in [8usize, 16, 32, 64, 128] {
            for s in [false, true] {
                println!("step {} {} {} {} {}", r, bits, s as u8, min_step(r, bits, s), max_step(r, bits, s));
            }
        }
    }
    for d in 0..36u32 {
        println!("digit_to_char {} {}", d, digit_to_char(d));
    }
    for r in 2..=36u32 {
        let mut s = format!("digit_to_char_const {}", r);
        for d in 0..r {
            s.push_str(&format!(" {}", digit_to_char_const(d, r)));
        }
        println!("{}", s);
    }
    int_tables_noncompact();
}

#[cfg(feature = "compact")]
fn int_tables_noncompact() {
    println!("absent compact");
}

#[cfg(not(feature = "compact"))]
fn int_tables_noncompact() {
    use lexical_util::div128::u128_divrem;
    use lexical_util::step::u64_step;
    use lexical_write_integer::decimal::{fast_digit_count, fast_log10};
    use lexical_write_integer::digit_count::fast_log2;
    use lexical_write_integer::table::*;

    fn hexline(name: &str, t: &[u8]) {
        let mut s = String::with_capacity(t.len() * 2 + 32);
        s.push_str(&format!("table {} {} ", name, t.len()));
        for b in t {
            s.push_str(&format!("{:02x}", b));
        }
        println!("{}", s);
    }
    let mut named: Vec<(u32, &'static [u8])> = Vec::new();
    macro_rules! tables {
        ($($r:literal $name:ident ;)*) => {$(
            hexline(stringify!($name), &$name);
            named.push(($r, &$name));
        )*};
    }
    tables! { 10 DIGIT_TO_BASE10_SQUARED ; }
    #[cfg(feature = "power-of-two")]
    tables! {
        2 DIGIT_TO_BASE2_SQUARED ; 4 DIGIT_TO_BASE4_SQUARED ; 8 DIGIT_TO_BASE8_SQUARED ;
        16 DIGIT_TO_BASE16_SQUARED ; 32 DIGIT_TO_BASE32_SQUARED ;
    }
    #[cfg(feature = "radix")]
    tables! {
        3 DIGIT_TO_BASE3_SQUARED ; 5 DIGIT_TO_BASE5_SQUARED ; 6 DIGIT_TO_BASE6_SQUARED ;
        7 DIGIT_TO_BASE7_SQUARED ; 9 DIGIT_TO_BASE9_SQUARED ; 11 DIGIT_TO_BASE11_SQUARED ;
        12 DIGIT_TO_BASE12_SQUARED ; 13 DIGIT_TO_BASE13_SQUARED ; 14 DIGIT_TO_BASE14_SQUARED ;
        15 DIGIT_TO_BASE15_SQUARED ; 17 DIGIT_TO_BASE17_SQUARED ; 18 DIGIT_TO_BASE18_SQUARED ;
        19 DIGIT_TO_BASE19_SQUARED ; 20 DIGIT_TO_BASE20_SQUARED ; 21 DIGIT_TO_BASE21_SQUARED ;
        22 DIGIT_TO_BASE22_SQUARED ; 23 DIGIT_TO_BASE23_SQUARED ; 24 DIGIT_TO_BASE24_SQUARED ;
        25 DIGIT_TO_BASE25_SQUARED ; 26 DIGIT_TO_BASE26_SQUARED ; 27 DIGIT_TO_BASE27_SQUARED ;
        28 DIGIT_TO_BASE28_SQUARED ; 29 DIGIT_TO_BASE29_SQUARED ; 30 DIGIT_TO_BASE30_SQUARED ;
        31 DIGIT_TO_BASE31_SQUARED ; 33 DIGIT_TO_BASE33_SQUARED ; 34 DIGIT_TO_BASE34_SQUARED ;
        35 DIGIT_TO_BASE35_SQUARED ; 36 DIGIT_TO_BASE36_SQUARED ;
    }

    // get_table dispatch: which named table (by content) each radix resolves to
    #[cfg(feature = "power-of-two")]
    {
        let mut gt: Vec<(u32, &'static [u8])> = Vec::new();
        macro_rules! gettab {
            ($($r:literal)*) => {$( gt.push(($r, get_table::<{ $r as u128 }, 0xFF, 0>())); )*};
        }
        gettab! { 2 4 8 10 16 32 }
        #[cfg(feature = "radix")]
        gettab! { 3 5 6 7 9 11 12 13 14 15 17 18 19 20 21 22 23 24 25 26 27 28 29 30 31 33 34 35 36 }
        gt.sort_by_key(|x| x.0);
        for (r, t) in gt {
            let mut s = format!("get_table {} {}", r, t.len());
            for (nr, nt) in named.iter() {
                if *nt == t {
                    s.push_str(&format!(" {}", nr));
                }
            }
            println!("{}", s);
        }
    }

    // fast_log2 / fast_log10 per unsigned type on 0 and both ends of every bit length
    macro_rules! logs {
        ($($t:ident)*) => {$(
            println!("fast_log {} 0 {} {}", stringify!($t), fast_log2(0 as $t), fast_log10(0 as $t));
            for j in 0..<$t>::BITS {
                let a: $t = 1 << j;
                let b: $t = if j == <$t>::BITS - 1 { <$t>::MAX } else { (1 << (j + 1)) - 1 };
                println!("fast_log {} {} {} {}", stringify!($t), a, fast_log2(a), fast_log10(a));
                println!("fast_log {} {} {} {}", stringify!($t), b, fast_log2(b), fast_log10(b));
            }
        )*};
    }
    logs! { u8 u16 u32 u64 u128 usize }

    // fast_digit_count on both ends of every bit length and around every power of ten
    let mut probes: Vec<u32> = vec![0];
    for j in 0..32u32 {
        probes.push(1 << j);
        probes.push(if j == 31 { u32::MAX } else { (1 << (j + 1)) - 1 });
    }
    let mut p = 1u32;
    for _ in 0..9 {
        p *= 10;
        probes.push(p - 1);
        probes.push(p);
        probes.push(p + 1);
    }
    probes.sort();
    probes.dedup();
    for x in probes {
        println!("fast_digit_count {} {}", x, fast_digit_count(x));
    }

    // u128_divrem probes for every radix the feature set dispatches on
    let radices: Vec<u32> = if cfg!(feature = "radix") {
        (2..=36).collect()
    } else if cfg!(feature = "power-of-two") {
        vec![2, 4, 8, 10, 16, 32]
    } else {
        vec![10]
    };
    for r in radices {
        let step = u64_step(r) as u32;
        let d: u128 = (r as u128).pow(step);
        let mut ns: Vec<u128> = vec![
            0,
            1,
            u64::MAX as u128,
            1u128 << 64,
            u128::MAX,
            u128::MAX - 1,
            1u128 << 127,
            d - 1,
            d,
            d + 1,
            d * d - 1,
            d * d,
            d.wrapping_mul(d).wrapping_mul(d >> 1),
            0x0123456789abcdef_fedcba9876543210u128,
            0xdeadbeefcafebabe_0123456789abcdefu128,
        ];
        for sh in (64..=127u32).step_by(9) {
            ns.push((1u128 << sh) - 1);
            ns.push(1u128 << sh);
        }
        let mut x: u128 = 0x9e3779b97f4a7c15_f39cc0605cedc835u128 ^ (r as u128);
        for _ in 0..12 {
            x = x.wrapping_mul(0xda942042e4dd58b5_u128).wrapping_add(0x14057b7ef767814f_u128);
            x ^= x >> 61;
            ns.push(x);
            ns.push(x >> 40);
        }
        for n in ns {
            let (q, rem) = u128_divrem(n, r);
            println!("u128_divrem {} {} {} {}", r, n, q, rem);
        }
    }
}

// ---------------------------------------------------------------------------------------------
// sizes

fn sizes() {
    use lexical_util::constants::{FormattedSize, BUFFER_SIZE};
    macro_rules! sz {
        ($($t:ident)*) => {$(
            println!("size {} {} {}", stringify!($t), <$t as FormattedSize>::FORMATTED_SIZE, <$t as FormattedSize>::FORMATTED_SIZE_DECIMAL);
        )*};
    }
    sz! { i8 i16 i32 i64 i128 isize u8 u16 u32 u64 u128 usize f32 f64 }
    println!("BUFFER_SIZE {}", BUFFER_SIZE);
    println!("lexical_core_BUFFER_SIZE {}", lexical_core::BUFFER_SIZE);
    macro_rules! lim {
        ($($t:ident)*) => {$(
            println!("limits {} {} {} {}", stringify!($t), <$t>::BITS, <$t>::MIN, <$t>::MAX);
        )*};
    }
    lim! { i8 i16 i32 i64 i128 isize u8 u16 u32 u64 u128 usize }
}
