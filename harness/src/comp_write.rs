//! Component-level ops of the float writers (C02): the digit generators before formatting.
//!   td TY BITS -> `ok <mant> <exp>`  = algorithm::to_decimal(f)            (non-compact builds)
//!   gr TY BITS -> `ok <digits hex> <k>` = compact::grisu(f, &mut digits)   (compact builds)
//! BITS is the hex bit pattern; the sign bit is cleared (the writers negate first).

#[cfg(not(feature = "compact"))]
fn td(ty: &str, bits: u64) -> String {
    use lexical_write_float::algorithm::to_decimal;
    let fp = match ty {
        "f32" => to_decimal(f32::from_bits(bits as u32 & 0x7FFF_FFFF)),
        "f64" => to_decimal(f64::from_bits(bits & 0x7FFF_FFFF_FFFF_FFFF)),
        _ => return "badop".into(),
    };
    format!("ok {} {}", fp.mant, fp.exp)
}

#[cfg(feature = "compact")]
fn td(_: &str, _: u64) -> String {
    "nofeature".into()
}

#[cfg(feature = "compact")]
fn gr(ty: &str, bits: u64) -> String {
    use lexical_write_float::compact::grisu;
    let mut digits = [0xAAu8; 32];
    let (n, k) = match ty {
        "f32" => grisu(f32::from_bits(bits as u32 & 0x7FFF_FFFF), &mut digits),
        "f64" => grisu(f64::from_bits(bits & 0x7FFF_FFFF_FFFF_FFFF), &mut digits),
        _ => return "badop".into(),
    };
    format!("ok {} {}", crate::hex(&digits[..n]), k)
}

#[cfg(not(feature = "compact"))]
fn gr(_: &str, _: u64) -> String {
    "nofeature".into()
}

pub fn run(op: &str, a: &[&str]) -> String {
    let bits = u64::from_str_radix(a[1], 16).unwrap();
    match op {
        "td" => td(a[0], bits),
        "gr" => gr(a[0], bits),
        _ => "badop".into(),
    }
}
