//! Sections of the reflection dump. Each section prints lines `key value...`.
#[path = "dumps_write.rs"]
mod dumps_write;

pub fn dump(which: &[String]) {
    let all = which.is_empty();
    let want = |s: &str| all || which.iter().any(|w| w == s);
    if want("features") {
        println!("section features");
        println!("compact {}", cfg!(feature = "compact"));
        println!("power-of-two {}", cfg!(feature = "power-of-two"));
        println!("radix {}", cfg!(feature = "radix"));
        println!("format {}", cfg!(feature = "format"));
        println!("std {}", cfg!(feature = "std"));
    }
    // number→string side: dragonbox, grisu, int_tables, sizes
    dumps_write::dump_write(&want);
}
