//! Sections of the reflection dump. Each section prints lines `key value...`.
#[path = "dumps_parse.rs"]
mod dumps_parse;
#[path = "dumps_write.rs"]
mod dumps_write;
#[path = "dumps_util.rs"]
mod dumps_util;

pub fn dump(which: &[String]) {
    let all = which.is_empty();
    let want = |s: &str| all || which.iter().any(|w| w == s);
    if want("features") {
        println!("section features");
        println!("compact {}", cfg!(feature = "compact"));
        println!("power-of-two {}", cfg!(feature = "power-of-two"));
        println!("radix {}", cfg!(feature = "radix"));
        println!("format {}", cfg!(feature = "format"));
        println!("std {}", cfg!(feature = "std"));
    }
    // lexical-util dispatch functions: digits, int_limits
    dumps_util::dump(&want);
    // number→string side: dragonbox, grisu, int_tables, sizes
    dumps_write::dump_write(&want);
    // string->float tables and limits (lemire, small_powers, large_powers, bellerophon, float_consts)
    if all || dumps_parse::SECTIONS.iter().any(|s| want(s)) {
        dumps_parse::dump(&want);
    }
    if want("format_flags") {
        format_flags();
    }
}

/// Every flag constant, mask and shift of `lexical_util::format` (format_flags.rs) as `NAME 0x…`.
/// The values are read from the compiled crate, never restated here.
fn format_flags() {
    use lexical_util::format as f;
    println!("section format_flags");
    macro_rules! p {
        ($($name:ident)*) => { $( println!("{} 0x{:x}", stringify!($name), f::$name as u128); )* };
    }
    p! {
        REQUIRED_INTEGER_DIGITS REQUIRED_FRACTION_DIGITS REQUIRED_EXPONENT_DIGITS REQUIRED_MANTISSA_DIGITS
        REQUIRED_DIGITS NO_POSITIVE_MANTISSA_SIGN REQUIRED_MANTISSA_SIGN NO_EXPONENT_NOTATION
        NO_POSITIVE_EXPONENT_SIGN REQUIRED_EXPONENT_SIGN NO_EXPONENT_WITHOUT_FRACTION NO_SPECIAL
        CASE_SENSITIVE_SPECIAL NO_INTEGER_LEADING_ZEROS NO_FLOAT_LEADING_ZEROS REQUIRED_EXPONENT_NOTATION
        CASE_SENSITIVE_EXPONENT CASE_SENSITIVE_BASE_PREFIX CASE_SENSITIVE_BASE_SUFFIX
        INTEGER_INTERNAL_DIGIT_SEPARATOR FRACTION_INTERNAL_DIGIT_SEPARATOR EXPONENT_INTERNAL_DIGIT_SEPARATOR
        INTEGER_LEADING_DIGIT_SEPARATOR FRACTION_LEADING_DIGIT_SEPARATOR EXPONENT_LEADING_DIGIT_SEPARATOR
        INTEGER_TRAILING_DIGIT_SEPARATOR FRACTION_TRAILING_DIGIT_SEPARATOR EXPONENT_TRAILING_DIGIT_SEPARATOR
        INTEGER_CONSECUTIVE_DIGIT_SEPARATOR FRACTION_CONSECUTIVE_DIGIT_SEPARATOR EXPONENT_CONSECUTIVE_DIGIT_SEPARATOR
        INTERNAL_DIGIT_SEPARATOR LEADING_DIGIT_SEPARATOR TRAILING_DIGIT_SEPARATOR CONSECUTIVE_DIGIT_SEPARATOR
        SPECIAL_DIGIT_SEPARATOR
        DIGIT_SEPARATOR_SHIFT DIGIT_SEPARATOR BASE_PREFIX_SHIFT BASE_PREFIX BASE_SUFFIX_SHIFT BASE_SUFFIX
        MANTISSA_RADIX_SHIFT MANTISSA_RADIX RADIX_SHIFT RADIX EXPONENT_BASE_SHIFT EXPONENT_BASE
        EXPONENT_RADIX_SHIFT EXPONENT_RADIX RADIX_MASK
        FLAG_MASK INTERFACE_FLAG_MASK DIGIT_SEPARATOR_FLAG_MASK EXPONENT_FLAG_MASK
        INTEGER_DIGIT_SEPARATOR_FLAG_MASK FRACTION_DIGIT_SEPARATOR_FLAG_MASK EXPONENT_DIGIT_SEPARATOR_FLAG_MASK
    }
}
