//! Sections of the reflection dump. Each section prints lines `key value...`.
#[path = "dumps_parse.rs"]
mod dumps_parse;
pub fn dump(which: &[String]) {
    let all = which.is_empty();
    let want = |s: &str| all || which.iter().any(|w| w == s);
    if want("features") {
        println!("section features");
        println!("compact {}", cfg!(feature = "compact"));
        println!("power-of-two {}", cfg!(feature = "power-of-two"));
        println!("radix {}", cfg!(feature = "radix"));
        println!("format {}", cfg!(feature = "format"));
        println!("std {}", cfg!(feature = "std"));
    }
    // string->float tables and limits (lemire, small_powers, large_powers, bellerophon, float_consts)
    if all || dumps_parse::SECTIONS.iter().any(|s| want(s)) {
        dumps_parse::dump(&want);
    }
}
