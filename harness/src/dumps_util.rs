//! R dump sections for lexical-util dispatch functions: digit classification/conversion on their whole
//! domain (256 bytes x radix 2..=36) and `Integer::overflow_digits` for the 12 integer types.
use lexical_util::digit::{char_is_digit_const, char_to_digit_const, char_to_valid_digit_const, digit_to_char_const};
use lexical_util::num::Integer;

pub const SECTIONS: &[&str] = &["digits", "int_limits"];

pub fn dump(want: &dyn Fn(&str) -> bool) {
    if want("digits") {
        println!("section digits");
        for radix in 2u32..=36 {
            // char_to_digit r: 256 entries, 255 = None
            let row: Vec<String> = (0u32..256)
                .map(|c| match char_to_digit_const(c as u8, radix) {
                    Some(d) => d.to_string(),
                    None => "255".to_string(),
                })
                .collect();
            println!("char_to_digit {} {}", radix, row.join(" "));
            let row: Vec<String> = (0u32..256).map(|c| (char_is_digit_const(c as u8, radix) as u8).to_string()).collect();
            println!("char_is_digit {} {}", radix, row.join(" "));
            let row: Vec<String> = (0u32..256).map(|c| char_to_valid_digit_const(c as u8, radix).to_string()).collect();
            println!("char_to_valid_digit {} {}", radix, row.join(" "));
            let row: Vec<String> = (0u32..radix).map(|d| digit_to_char_const(d, radix).to_string()).collect();
            println!("digit_to_char {} {}", radix, row.join(" "));
        }
    }
    if want("int_limits") {
        println!("section int_limits");
        macro_rules! od {
            ($($t:ty)*) => { $(
                let row: Vec<String> = (2u32..=36).map(|r| <$t as Integer>::overflow_digits(r).to_string()).collect();
                println!("overflow_digits {} {} {} {}", stringify!($t), <$t as Integer>::BITS, (<$t>::MIN != 0) as u8, row.join(" "));
            )* };
        }
        od! { u8 u16 u32 u64 u128 usize i8 i16 i32 i64 i128 isize }
    }
}
