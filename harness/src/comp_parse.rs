//! Component-level ops of the string->float algorithms (fast path, Eisel-Lemire, Bellerophon,
//! power-of-two), compared with the Lean models of `lean/LexVerif/Model/{FastPath,Lemire,Bellerophon,Binary}.lean`.
//!
//! An `ExtendedFloat80` is printed as `ok <bits> <mant> <exp>` when `exp >= 0` (valid; bits = `extended_to_float`, hex) and as
//! `inv <mant> <exp>` when the exponent carries the `INVALID_FP` bias (`exp < 0`).
#![allow(dead_code, unused_imports, unused_variables)]
use lexical_parse_float::float::ExtendedFloat80;
use lexical_parse_float::number::Number;

/// `ok <bits of extended_to_float(fp)> <mant> <exp>` | `inv <mant> <exp>`
fn fp_line<F: lexical_util::num::Float>(fp: ExtendedFloat80) -> String
where
    F::Unsigned: core::fmt::LowerHex,
{
    if fp.exp < 0 {
        format!("inv {} {}", fp.mant, fp.exp)
    } else {
        let f: F = lexical_parse_float::float::extended_to_float::<F>(fp);
        format!("ok {:x} {} {}", f.to_bits(), fp.mant, fp.exp)
    }
}

fn number<'a>(mant: &str, exp: &str, many: &str, neg: bool) -> Number<'a> {
    Number {
        exponent: exp.parse().unwrap(),
        mantissa: mant.parse().unwrap(),
        is_negative: neg,
        many_digits: many == "1",
        integer: &[],
        fraction: None,
    }
}

/// cf TY Q W LOSSY -> compute_float::<TY>(q, w, lossy)
pub fn op_cf(a: &[&str]) -> String {
    #[cfg(not(feature = "compact"))]
    {
        use lexical_parse_float::lemire::compute_float;
        let q: i64 = a[1].parse().unwrap();
        let w: u64 = a[2].parse().unwrap();
        let lossy = a[3] == "1";
        return match a[0] {
            "f32" => fp_line::<f32>(compute_float::<f32>(q, w, lossy)),
            "f64" => fp_line::<f64>(compute_float::<f64>(q, w, lossy)),
            _ => "badop".into(),
        };
    }
    #[allow(unreachable_code)]
    "badop".into()
}

/// lm TY MANT EXP MANY LOSSY -> lemire::<TY>(&Number{..}, lossy)
pub fn op_lm(a: &[&str]) -> String {
    #[cfg(not(feature = "compact"))]
    {
        use lexical_parse_float::lemire::lemire;
        let num = number(a[1], a[2], a[3], false);
        let lossy = a[4] == "1";
        return match a[0] {
            "f32" => fp_line::<f32>(lemire::<f32>(&num, lossy)),
            "f64" => fp_line::<f64>(lemire::<f64>(&num, lossy)),
            _ => "badop".into(),
        };
    }
    #[allow(unreachable_code)]
    "badop".into()
}

/// Format-generic ops; `a = [op, TY, args..]` (the format token already consumed by the dispatcher):
///   bel TY FMT MANT EXP MANY LOSSY   -> bellerophon::<TY, FMT>
///   bin TY FMT MANT EXP MANY LOSSY   -> binary::<TY, FMT>
///   fp  TY FMT MANT EXP MANY [NEG]   -> Number::try_fast_path::<TY, FMT>  as `some <bits>` | `none`
///   sbin TY FMT EXP INTHEX FRACHEX|- -> slow_binary::<TY, FMT>
///   sl  TY FMT MANT EXP MANY INTHEX FRACHEX|- m|FPMANT FPEXP -> slow_radix::<TY, FMT> (see `op_sl`)
pub fn op_alg<const F: u128>(a: &[&str]) -> String {
    let op = a[0];
    let ty = a[1];
    match op {
        "bel" => {
            #[cfg(any(feature = "compact", feature = "radix"))]
            {
                use lexical_parse_float::bellerophon::bellerophon;
                let num = number(a[2], a[3], a[4], false);
                let lossy = a[5] == "1";
                return match ty {
                    "f32" => fp_line::<f32>(bellerophon::<f32, F>(&num, lossy)),
                    "f64" => fp_line::<f64>(bellerophon::<f64, F>(&num, lossy)),
                    _ => "badop".into(),
                };
            }
            #[allow(unreachable_code)]
            "badop".into()
        },
        "bin" => {
            #[cfg(feature = "power-of-two")]
            {
                use lexical_parse_float::binary::binary;
                let num = number(a[2], a[3], a[4], false);
                let lossy = a[5] == "1";
                return match ty {
                    "f32" => fp_line::<f32>(binary::<f32, F>(&num, lossy)),
                    "f64" => fp_line::<f64>(binary::<f64, F>(&num, lossy)),
                    _ => "badop".into(),
                };
            }
            #[allow(unreachable_code)]
            "badop".into()
        },
        "sbin" => {
            #[cfg(feature = "power-of-two")]
            {
                use lexical_parse_float::binary::slow_binary;
                let integer = crate::unhex(a[3]);
                let fraction = if a[4] == "-" { None } else { Some(crate::unhex(a[4])) };
                let num = Number {
                    exponent: a[2].parse().unwrap(),
                    mantissa: 0,
                    is_negative: false,
                    many_digits: true,
                    integer: &integer,
                    fraction: fraction.as_deref(),
                };
                return match ty {
                    "f32" => fp_line::<f32>(slow_binary::<f32, F>(num)),
                    "f64" => fp_line::<f64>(slow_binary::<f64, F>(num)),
                    _ => "badop".into(),
                };
            }
            #[allow(unreachable_code)]
            "badop".into()
        },
        "sl" => {
            // sl TY FMT MANT EXP MANY INTHEX FRACHEX|- m | FPMANT FPEXP   (see `op_sl`)
            let integer = crate::unhex(a[5]);
            let fraction = if a[6] == "-" { None } else { Some(crate::unhex(a[6])) };
            let num = Number {
                exponent: a[3].parse().unwrap(),
                mantissa: a[2].parse().unwrap(),
                is_negative: false,
                many_digits: a[4] == "1",
                integer: &integer,
                fraction: fraction.as_deref(),
            };
            match ty {
                "f32" => op_sl::<f32, F>(num, &a[7..]),
                "f64" => op_sl::<f64, F>(num, &a[7..]),
                _ => "badop".into(),
            }
        },
        "fp" => {
            let neg = a.len() > 5 && a[5] == "1";
            let num = number(a[2], a[3], a[4], neg);
            match ty {
                "f32" => match num.try_fast_path::<f32, F>() {
                    Some(v) => format!("some {:x}", v.to_bits()),
                    None => "none".into(),
                },
                "f64" => match num.try_fast_path::<f64, F>() {
                    Some(v) => format!("some {:x}", v.to_bits()),
                    None => "none".into(),
                },
                _ => "badop".into(),
            }
        },
        _ => "badop".into(),
    }
}

/// The big-integer slow path `slow_radix::<F, FORMAT>(num, fp)` (generic radices only).
///   `.. m`            the error float is what the crate's own moderate path returns for `num`:
///                     `mod ok <bits> <mant> <exp>` when the moderate path decided (slow path not entered), else
///                     `slow <bits> <mant> <exp> via <fp.mant> <fp.exp>` (`fp` after `fp.exp -= INVALID_FP`, as parse.rs passes it)
///   `.. FPMANT FPEXP` the error float is given (already un-biased): `slow <bits> <mant> <exp>`
fn op_sl<F: lexical_parse_float::float::LemireFloat, const FMT: u128>(num: Number, rest: &[&str]) -> String
where
    F::Unsigned: core::fmt::LowerHex,
{
    use lexical_parse_float::float::extended_to_float;
    use lexical_parse_float::slow::slow_radix;
    if rest[0] == "m" {
        let mut fp = lexical_parse_float::parse::moderate_path::<F, FMT>(&num, false);
        if fp.exp >= 0 {
            return format!("mod {}", fp_line::<F>(fp));
        }
        fp.exp -= lexical_parse_float::shared::INVALID_FP;
        let r = slow_radix::<F, FMT>(num, fp);
        let f: F = extended_to_float::<F>(r);
        format!("slow {:x} {} {} via {} {}", f.to_bits(), r.mant, r.exp, fp.mant, fp.exp)
    } else {
        let fp = ExtendedFloat80 { mant: rest[0].parse().unwrap(), exp: rest[1].parse().unwrap() };
        let r = slow_radix::<F, FMT>(num, fp);
        let f: F = extended_to_float::<F>(r);
        format!("slow {:x} {} {}", f.to_bits(), r.mant, r.exp)
    }
}
