//! Native exhaustive sweeps (thorough tier, supporting evidence only — never a proof): the real code is
//! compared with Rust's standard library over a contiguous range of values inside one process.
//!   xwi TY START COUNT      write every integer (decimal, default API) and compare with `core::fmt::Display`
//!   xpi TY START COUNT      parse Display's text back, must return the value (complete and partial)
//!   xwf TY START COUNT      write every float bit pattern (default API): must re-parse (std) to the same bits,
//!                           and (non-compact) have exactly the digits of std's shortest `{:e}` formatting
//!   xpf TY START COUNT      parse std's shortest and 17/9-digit text of every bit pattern: must return the bits
//! Result: `ok <checked> <mismatches> <first mismatching value or ->`
use std::fmt::Write as _;

fn digits_of(s: &str) -> (String, i32) {
    // significant digits and decimal exponent of a decimal literal d.ddd[e±x] / ddd.ddd
    let (mant, exp) = match s.find(|c| c == 'e' || c == 'E') {
        Some(p) => (&s[..p], s[p + 1..].parse::<i32>().unwrap_or(0)),
        None => (s, 0),
    };
    let mant = mant.trim_start_matches('-');
    let (ip, fp) = match mant.find('.') {
        Some(p) => (&mant[..p], &mant[p + 1..]),
        None => (mant, ""),
    };
    let all = format!("{}{}", ip, fp);
    let lead = all.len() - all.trim_start_matches('0').len();
    let digits = all.trim_start_matches('0').trim_end_matches('0').to_string();
    // value = 0.<all> * 10^(ip.len() + exp)  => scientific exponent of first significant digit
    let sci = ip.len() as i32 + exp - lead as i32 - 1;
    (digits, sci)
}

macro_rules! sweep_int {
    ($t:ty, $start:expr, $count:expr, $write:expr) => {{
        let mut bad = 0u64;
        let mut first = String::from("-");
        let mut buf = [0u8; 64];
        let mut text = String::new();
        let start: i128 = $start;
        for k in 0..$count {
            let v = (start + k as i128) as $t;
            text.clear();
            write!(text, "{}", v).unwrap();
            let ok = if $write {
                let out = lexical_core::write(v, &mut buf);
                out == text.as_bytes()
            } else {
                lexical_core::parse::<$t>(text.as_bytes()) == Ok(v)
                    && lexical_core::parse_partial::<$t>(text.as_bytes()) == Ok((v, text.len()))
            };
            if !ok {
                bad += 1;
                if first == "-" {
                    first = text.clone();
                }
            }
        }
        format!("ok {} {} {}", $count, bad, first)
    }};
}

macro_rules! sweep_float {
    ($t:ty, $u:ty, $start:expr, $count:expr, $write:expr, $maxd:expr) => {{
        let mut bad = 0u64;
        let mut first = String::from("-");
        let mut buf = [0u8; 128];
        let mut text = String::new();
        for k in 0..$count {
            let bits = ($start as u128 + k as u128) as $u;
            let f = <$t>::from_bits(bits);
            if !f.is_finite() {
                continue;
            }
            let ok = if $write {
                let out = lexical_core::write(f, &mut buf);
                let s = core::str::from_utf8(out).unwrap_or("");
                let back: $t = s.parse().unwrap_or(<$t>::NAN);
                let mut good = back.to_bits() == bits;
                if good && !cfg!(feature = "compact") && f != 0.0 {
                    text.clear();
                    write!(text, "{:e}", f).unwrap();
                    let (d1, e1) = digits_of(&text);
                    let (d2, e2) = digits_of(s);
                    // identical, or an exact tie between two equally short neighbours (both round-trip;
                    // the Lean oracle decides closeness on the sampled stream, this sweep does not)
                    good = (d1 == d2 && e1 == e2)
                        || (d1.len() == d2.len()
                            && e1 == e2
                            && d1[..d1.len() - 1] == d2[..d2.len() - 1]
                            && (d1.as_bytes()[d1.len() - 1] as i32 - d2.as_bytes()[d2.len() - 1] as i32).abs() == 1);
                }
                if good && cfg!(feature = "compact") {
                    good = digits_of(s).0.len() <= $maxd;
                }
                good
            } else {
                text.clear();
                write!(text, "{:e}", f).unwrap();
                let a = lexical_core::parse::<$t>(text.as_bytes()).map(|x| x.to_bits()) == Ok(bits);
                text.clear();
                write!(text, "{:.*e}", $maxd - 1, f).unwrap();
                let b = lexical_core::parse::<$t>(text.as_bytes()).map(|x| x.to_bits()) == Ok(bits);
                a && b
            };
            if !ok {
                bad += 1;
                if first == "-" {
                    first = format!("{:x}", bits);
                }
            }
        }
        format!("ok {} {} {}", $count, bad, first)
    }};
}

pub fn run(op: &str, a: &[&str]) -> Option<String> {
    if !matches!(op, "xwi" | "xpi" | "xwf" | "xpf") {
        return None;
    }
    let ty = a[0];
    let start: i128 = a[1].parse().ok()?;
    let count: u64 = a[2].parse().ok()?;
    let w = op == "xwi" || op == "xwf";
    Some(match (op, ty) {
        ("xwi" | "xpi", "u8") => sweep_int!(u8, start, count, w),
        ("xwi" | "xpi", "i8") => sweep_int!(i8, start, count, w),
        ("xwi" | "xpi", "u16") => sweep_int!(u16, start, count, w),
        ("xwi" | "xpi", "i16") => sweep_int!(i16, start, count, w),
        ("xwi" | "xpi", "u32") => sweep_int!(u32, start, count, w),
        ("xwi" | "xpi", "i32") => sweep_int!(i32, start, count, w),
        ("xwi" | "xpi", "u64") => sweep_int!(u64, start, count, w),
        ("xwi" | "xpi", "i64") => sweep_int!(i64, start, count, w),
        ("xwi" | "xpi", "u128") => sweep_int!(u128, start, count, w),
        ("xwi" | "xpi", "i128") => sweep_int!(i128, start, count, w),
        ("xwf" | "xpf", "f32") => sweep_float!(f32, u32, start, count, w, 9),
        ("xwf" | "xpf", "f64") => sweep_float!(f64, u64, start, count, w, 17),
        _ => return None,
    })
}
