//! Buffers that END exactly at a PROT_NONE page, so that any read or write past the end of the
//! slice handed to the library faults (SIGSEGV) instead of silently touching the heap.
//! This is observation support for C09/C10 (real out-of-slice traffic cannot be exhibited by
//! the Lean model); it is not part of any proof.
use std::cell::Cell;

extern "C" {
    fn mmap(addr: *mut u8, len: usize, prot: i32, flags: i32, fd: i32, off: i64) -> *mut u8;
    fn mprotect(addr: *mut u8, len: usize, prot: i32) -> i32;
}
const PROT_NONE: i32 = 0;
const PROT_RW: i32 = 3;
const MAP_PRIVATE_ANON: i32 = 0x02 | 0x20;
const PAGE: usize = 4096;
const REGION: usize = 1 << 22;

thread_local! {
    static BASE: Cell<*mut u8> = Cell::new(core::ptr::null_mut());
    static BUSY: Cell<bool> = Cell::new(false);
}

fn region() -> *mut u8 {
    BASE.with(|b| {
        if b.get().is_null() {
            unsafe {
                let p = mmap(core::ptr::null_mut(), REGION + 2 * PAGE, PROT_RW, MAP_PRIVATE_ANON, -1, 0);
                assert!(!p.is_null() && p as isize != -1);
                // guard page before and after the usable region
                assert_eq!(mprotect(p, PAGE, PROT_NONE), 0);
                assert_eq!(mprotect(p.add(PAGE + REGION), PAGE, PROT_NONE), 0);
                b.set(p.add(PAGE));
            }
        }
        b.get()
    })
}

pub struct GuardedBuf {
    ptr: *mut u8,
    len: usize,
    heap: Option<Vec<u8>>,
}

impl GuardedBuf {
    pub fn new(len: usize, fill: u8) -> Self {
        let busy = BUSY.with(|b| b.replace(true));
        if busy || len > REGION {
            if !busy {
                BUSY.with(|b| b.set(false));
            }
            let mut v = vec![fill; len];
            let ptr = v.as_mut_ptr();
            return GuardedBuf { ptr, len, heap: Some(v) };
        }
        let base = region();
        // buffer ends exactly at the trailing guard page
        let ptr = unsafe { base.add(REGION - len) };
        unsafe { core::ptr::write_bytes(ptr, fill, len) };
        // canary bytes before the buffer (checked by `head_intact`)
        let pre = core::cmp::min(64, REGION - len);
        unsafe { core::ptr::write_bytes(ptr.sub(pre), 0x5C, pre) };
        GuardedBuf { ptr, len, heap: None }
    }
    pub fn from_bytes(b: &[u8]) -> Self {
        let mut g = Self::new(b.len(), 0);
        g.as_mut_slice().copy_from_slice(b);
        g
    }
    pub fn as_slice(&self) -> &[u8] {
        unsafe { core::slice::from_raw_parts(self.ptr, self.len) }
    }
    pub fn as_mut_slice(&mut self) -> &mut [u8] {
        unsafe { core::slice::from_raw_parts_mut(self.ptr, self.len) }
    }
    /// bytes at index >= n still carry the fill pattern and the canary before the buffer is intact
    pub fn tail_intact(&self, _n: usize, _fill: u8) -> bool {
        // NOTE: writers may legitimately scribble inside the caller's buffer beyond the returned
        // length; only the area *outside* the slice is checked.
        if self.heap.is_some() {
            return true;
        }
        let pre = core::cmp::min(64, REGION - self.len);
        let s = unsafe { core::slice::from_raw_parts(self.ptr.sub(pre), pre) };
        s.iter().all(|&x| x == 0x5C)
    }
}

impl Drop for GuardedBuf {
    fn drop(&mut self) {
        if self.heap.is_none() {
            BUSY.with(|b| b.set(false));
        }
    }
}
