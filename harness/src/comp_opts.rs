//! C18: the option validators themselves (not only `build()` as seen through the API ops).
//!   po EXP DP NAN INF INFINITY          -> `<is_valid> <ok|Kind> <nan_str_is_valid> <inf_str_is_valid> <infinity_string_is_valid> <Options::is_valid>`
//!   wo MAX MIN POSBRK NEGBRK EXP DP NAN INF -> `<is_valid> <ok|Kind> <nan_str_is_valid> <inf_str_is_valid> <Options::is_valid>`
use lexical_core::{ParseFloatOptions, WriteFloatOptions};

fn kind<T, E: core::fmt::Debug>(r: &Result<T, E>) -> String {
    match r {
        Ok(_) => "ok".to_string(),
        Err(e) => format!("{:?}", e),
    }
}

pub fn run(op: &str, a: &[&str]) -> String {
    match op {
        "po" => {
            let b = ParseFloatOptions::builder()
                .exponent(a[0].parse().unwrap())
                .decimal_point(a[1].parse().unwrap())
                .nan_string(crate::opt_str(a[2]))
                .inf_string(crate::opt_str(a[3]))
                .infinity_string(crate::opt_str(a[4]));
            format!(
                "{} {} {} {} {} {}",
                b.is_valid(),
                kind(&b.build()),
                b.nan_str_is_valid(),
                b.inf_str_is_valid(),
                b.infinity_string_is_valid(),
                b.build_unchecked().is_valid()
            )
        },
        "wo" => {
            let b = WriteFloatOptions::builder()
                .max_significant_digits(crate::opt_usize(a[0]))
                .min_significant_digits(crate::opt_usize(a[1]))
                .positive_exponent_break(crate::opt_i32(a[2]))
                .negative_exponent_break(crate::opt_i32(a[3]))
                .exponent(a[4].parse().unwrap())
                .decimal_point(a[5].parse().unwrap())
                .nan_string(crate::opt_str(a[6]))
                .inf_string(crate::opt_str(a[7]));
            format!(
                "{} {} {} {} {}",
                b.is_valid(),
                kind(&b.build()),
                b.nan_str_is_valid(),
                b.inf_str_is_valid(),
                b.build_unchecked().is_valid()
            )
        },
        _ => "badop".into(),
    }
}
