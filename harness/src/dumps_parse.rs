//! R dump, string→float side (C01, C05, C19): every finite-domain object the parsing algorithms
//! depend on. One item per line, `name idx… value…`, integers in decimal (signed where the Rust
//! type is signed), float values as decimal bit patterns. Sections are cfg-guarded exactly like the
//! tables they print; a section that does not exist in this feature set prints `absent 1`.
//!
//! `extractors/parse_tables.py` turns this into `lean/LexVerif/Gen/{Lemire,SmallPowers,LargePowers,
//! Bellerophon,FloatConsts}.lean`.
#![allow(unused_imports, dead_code)]

use lexical_parse_float as pf;
use lexical_util::num::Float;
use pf::float::{LemireFloat, RawFloat};
use pf::limits::{ExactFloat, MaxDigits};

pub const SECTIONS: &[&str] = &["lemire", "small_powers", "large_powers", "bellerophon", "float_consts"];

/// radices legal for the float parser in this feature set
fn radices() -> Vec<u32> {
    if cfg!(feature = "radix") {
        (2..=36).collect()
    } else if cfg!(feature = "power-of-two") {
        vec![2, 4, 8, 10, 16, 32]
    } else {
        vec![10]
    }
}

/// radices for which the small *integer* powers are defined (the big-integer code also asks for
/// the odd part of the radix, i.e. 5 in decimal-only builds)
fn int_radices() -> Vec<u32> {
    let mut v = radices();
    if !v.contains(&5) {
        v.push(5);
        v.sort();
    }
    v
}

fn is_pow2(r: u32) -> bool {
    r.is_power_of_two()
}

/// `f(0), f(1), …` until `f` panics (out-of-range table index) or `cap` is reached
fn until_panic<T>(cap: usize, f: impl Fn(usize) -> T + std::panic::RefUnwindSafe) -> Vec<T> {
    let hook = std::panic::take_hook();
    std::panic::set_hook(Box::new(|_| {}));
    let mut out = Vec::new();
    for e in 0..cap {
        match std::panic::catch_unwind(|| f(e)) {
            Ok(v) => out.push(v),
            Err(_) => break,
        }
    }
    std::panic::set_hook(hook);
    out
}

pub fn dump(want: &dyn Fn(&str) -> bool) {
    if want("lemire") {
        println!("section lemire");
        lemire();
    }
    if want("small_powers") {
        println!("section small_powers");
        small_powers();
    }
    if want("large_powers") {
        println!("section large_powers");
        large_powers();
    }
    if want("bellerophon") {
        println!("section bellerophon");
        bellerophon();
    }
    if want("float_consts") {
        println!("section float_consts");
        float_consts();
    }
}

// ---------------------------------------------------------------------------------------------

#[cfg(not(feature = "compact"))]
fn lemire() {
    use pf::table::{LARGEST_POWER_OF_FIVE, N_POWERS_OF_FIVE, POWER_OF_FIVE_128, SMALLEST_POWER_OF_FIVE};
    println!("smallest_power_of_five {}", SMALLEST_POWER_OF_FIVE);
    println!("largest_power_of_five {}", LARGEST_POWER_OF_FIVE);
    println!("n_powers_of_five {}", N_POWERS_OF_FIVE);
    println!("table_len {}", POWER_OF_FIVE_128.len());
    // tuple order as stored: (.0, .1); compute_product_approx reads `let (lo5, hi5) = TABLE[i]`
    for (i, row) in POWER_OF_FIVE_128.iter().enumerate() {
        println!("pow5 {} {} {}", i, row.0, row.1);
    }
    for q in SMALLEST_POWER_OF_FIVE..=LARGEST_POWER_OF_FIVE {
        println!("power {} {}", q, pf::lemire::verif_power(q));
    }
}

#[cfg(feature = "compact")]
fn lemire() {
    println!("absent 1");
}

// ---------------------------------------------------------------------------------------------

fn opt(v: Option<usize>) -> String {
    match v {
        Some(x) => x.to_string(),
        None => "none".to_string(),
    }
}

fn small_powers() {
    println!("tabled {}", if cfg!(feature = "compact") { 0 } else { 1 });
    for r in radices() {
        println!("radix {}", r);
    }
    for r in int_radices() {
        println!("int_radix {}", r);
    }
    // limits: total functions (they have fall-through arms), printed on the whole of 2..=36
    for r in 2..=36u32 {
        let (lo, hi) = <f32 as ExactFloat>::exponent_limit(r);
        println!("f32_exponent_limit {} {} {}", r, lo, hi);
        let (lo, hi) = <f64 as ExactFloat>::exponent_limit(r);
        println!("f64_exponent_limit {} {} {}", r, lo, hi);
        println!("f32_mantissa_limit {} {}", r, <f32 as ExactFloat>::mantissa_limit(r));
        println!("f64_mantissa_limit {} {}", r, <f64 as ExactFloat>::mantissa_limit(r));
        println!("f32_max_digits {} {}", r, opt(<f32 as MaxDigits>::max_digits(r)));
        println!("f64_max_digits {} {}", r, opt(<f64 as MaxDigits>::max_digits(r)));
        println!("u32_power_limit {} {}", r, pf::limits::u32_power_limit(r));
        println!("u64_power_limit {} {}", r, pf::limits::u64_power_limit(r));
        println!("f32_min_exponent_fast_path {} {}", r, f32::min_exponent_fast_path(r));
        println!("f32_max_exponent_fast_path {} {}", r, f32::max_exponent_fast_path(r));
        println!("f32_max_exponent_disguised_fast_path {} {}", r, f32::max_exponent_disguised_fast_path(r));
        println!("f64_min_exponent_fast_path {} {}", r, f64::min_exponent_fast_path(r));
        println!("f64_max_exponent_fast_path {} {}", r, f64::max_exponent_fast_path(r));
        println!("f64_max_exponent_disguised_fast_path {} {}", r, f64::max_exponent_disguised_fast_path(r));
        println!("u64_step {} {}", r, lexical_util::step::u64_step(r));
        for bits in [8usize, 16, 32, 64, 128] {
            for signed in [false, true] {
                let s = if signed { 1 } else { 0 };
                println!("min_step {} {} {} {}", r, bits, s, lexical_util::step::min_step(r, bits, signed));
                println!("max_step {} {} {} {}", r, bits, s, lexical_util::step::max_step(r, bits, signed));
            }
        }
    }
    // small integer powers: `int_pow_fast_path(e, r)` (= get_small_int_power without `compact`)
    for r in int_radices() {
        let lim = pf::limits::u64_power_limit(r) as usize;
        let vals: Vec<u64> = if cfg!(feature = "compact") || is_pow2(r) {
            (0..=lim).map(|e| <f64 as RawFloat>::int_pow_fast_path(e, r)).collect()
        } else {
            until_panic(4096, move |e| <f64 as RawFloat>::int_pow_fast_path(e, r))
        };
        println!("int_pow_len {} {}", r, vals.len());
        for (e, v) in vals.iter().enumerate() {
            println!("int_pow {} {} {}", r, e, v);
        }
    }
    // small float powers: `pow_fast_path(e, r)` as bit patterns
    for r in radices() {
        let lim = <f32 as ExactFloat>::exponent_limit(r).1 as usize;
        let vals: Vec<u32> = if cfg!(feature = "compact") || is_pow2(r) {
            (0..=lim).map(|e| <f32 as RawFloat>::pow_fast_path(e, r).to_bits()).collect()
        } else {
            until_panic(4096, move |e| <f32 as RawFloat>::pow_fast_path(e, r).to_bits())
        };
        println!("f32_pow_len {} {}", r, vals.len());
        for (e, v) in vals.iter().enumerate() {
            println!("f32_pow {} {} {}", r, e, v);
        }
        let lim = <f64 as ExactFloat>::exponent_limit(r).1 as usize;
        let vals: Vec<u64> = if cfg!(feature = "compact") || is_pow2(r) {
            (0..=lim).map(|e| <f64 as RawFloat>::pow_fast_path(e, r).to_bits()).collect()
        } else {
            until_panic(4096, move |e| <f64 as RawFloat>::pow_fast_path(e, r).to_bits())
        };
        println!("f64_pow_len {} {}", r, vals.len());
        for (e, v) in vals.iter().enumerate() {
            println!("f64_pow {} {} {}", r, e, v);
        }
    }
}

// ---------------------------------------------------------------------------------------------

fn large_powers() {
    println!("limb_bits {}", pf::bigint::Limb::BITS);
    println!("bigint_bits {}", pf::bigint::VERIF_BIGINT_BITS);
    println!("bigint_limbs {}", pf::bigint::VERIF_BIGINT_LIMBS);
    #[cfg(feature = "radix")]
    println!("bigfloat_bits {}", pf::bigint::VERIF_BIGFLOAT_BITS);
    for r in 2..=36u32 {
        let (odd, shift) = pf::bigint::split_radix(r);
        println!("split_radix {} {} {}", r, odd, shift);
        println!("integral_binary_factor {} {}", r, pf::slow::integral_binary_factor(r));
    }
    #[cfg(not(feature = "compact"))]
    for r in 2..=36u32 {
        // total function: radices without a dedicated arm fall through to a default table
        let (limbs, step) = pf::table::get_large_int_power(r);
        let mut s = format!("large {} {} {}", r, step, limbs.len());
        for l in limbs.iter() {
            s.push_str(&format!(" {}", l));
        }
        println!("{}", s);
    }
    #[cfg(feature = "compact")]
    println!("large_absent 1");
}

// ---------------------------------------------------------------------------------------------

#[cfg(any(feature = "compact", feature = "radix"))]
fn bellerophon() {
    for r in 2..=36u32 {
        let p = pf::table::bellerophon_powers(r);
        println!(
            "bell {} {} {} {} {} {} {} {}",
            r,
            p.step,
            p.bias,
            p.log2,
            p.log2_shift,
            p.small.len(),
            p.large.len(),
            p.small_int.len()
        );
        for i in 0..p.small.len() {
            println!("bell_small {} {} {} {}", r, i, p.small[i], p.get_small(i).exp);
        }
        for i in 0..p.large.len() {
            println!("bell_large {} {} {} {}", r, i, p.large[i], p.get_large(i).exp);
        }
        for i in 0..p.small_int.len() {
            println!("bell_small_int {} {} {}", r, i, p.get_small_int(i));
        }
    }
}

#[cfg(not(any(feature = "compact", feature = "radix")))]
fn bellerophon() {
    println!("absent 1");
}

// ---------------------------------------------------------------------------------------------

fn consts_of<F: LemireFloat>(name: &str)
where
    F::Unsigned: std::fmt::Display,
{
    println!("{} bits {}", name, F::BITS);
    println!("{} sign_mask {}", name, F::SIGN_MASK);
    println!("{} exponent_mask {}", name, F::EXPONENT_MASK);
    println!("{} hidden_bit_mask {}", name, F::HIDDEN_BIT_MASK);
    println!("{} mantissa_mask {}", name, F::MANTISSA_MASK);
    println!("{} carry_mask {}", name, F::CARRY_MASK);
    println!("{} infinity_bits {}", name, F::INFINITY_BITS);
    println!("{} negative_infinity_bits {}", name, F::NEGATIVE_INFINITY_BITS);
    println!("{} exponent_size {}", name, F::EXPONENT_SIZE);
    println!("{} mantissa_size {}", name, F::MANTISSA_SIZE);
    println!("{} exponent_bias {}", name, F::EXPONENT_BIAS);
    println!("{} denormal_exponent {}", name, F::DENORMAL_EXPONENT);
    println!("{} max_exponent {}", name, F::MAX_EXPONENT);
    println!("{} max_mantissa_fast_path {}", name, F::MAX_MANTISSA_FAST_PATH);
    println!("{} infinite_power {}", name, F::INFINITE_POWER);
    println!("{} min_exponent_round_to_even {}", name, F::MIN_EXPONENT_ROUND_TO_EVEN);
    println!("{} max_exponent_round_to_even {}", name, F::MAX_EXPONENT_ROUND_TO_EVEN);
    println!("{} minimum_exponent {}", name, F::MINIMUM_EXPONENT);
    println!("{} smallest_power_of_ten {}", name, F::SMALLEST_POWER_OF_TEN);
    println!("{} largest_power_of_ten {}", name, F::LARGEST_POWER_OF_TEN);
    println!("{} min_exponent_fast_path_10 {}", name, F::min_exponent_fast_path(10));
    println!("{} max_exponent_fast_path_10 {}", name, F::max_exponent_fast_path(10));
    println!("{} max_exponent_disguised_fast_path_10 {}", name, F::max_exponent_disguised_fast_path(10));
}

fn float_consts() {
    consts_of::<f32>("f32");
    consts_of::<f64>("f64");
    println!("shared invalid_fp {}", pf::shared::INVALID_FP);
    for n in 0..=64u64 {
        println!("lower_n_mask {} {}", n, pf::mask::lower_n_mask(n));
    }
    for n in 0..=64u64 {
        println!("lower_n_halfway {} {}", n, pf::mask::lower_n_halfway(n));
    }
    for n in 0..64u64 {
        println!("nth_bit {} {}", n, pf::mask::nth_bit(n));
    }
}
