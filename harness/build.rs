// Generates the const-generic dispatch tables from formats.txt.
// Line format:  <I|F|B> <hex u128> <name>    (I: integer APIs, F: float APIs, B: both)
use std::{env, fs, path::Path};

fn main() {
    println!("cargo:rerun-if-changed=formats.txt");
    println!("cargo:rerun-if-env-changed=LEXVERIF_FORMATS");
    let path = env::var("LEXVERIF_FORMATS").unwrap_or_else(|_| "formats.txt".to_string());
    println!("cargo:rerun-if-changed={}", path);
    let text = fs::read_to_string(&path).expect("formats file");
    let mut ints = Vec::new();
    let mut floats = Vec::new();
    for line in text.lines() {
        let line = line.trim();
        if line.is_empty() || line.starts_with('#') {
            continue;
        }
        let mut it = line.split_whitespace();
        let kind = it.next().unwrap();
        let hex = it.next().unwrap().trim_start_matches("0x").to_string();
        if kind == "I" || kind == "B" {
            if !ints.contains(&hex) {
                ints.push(hex.clone());
            }
        }
        if kind == "F" || kind == "B" {
            if !floats.contains(&hex) {
                floats.push(hex.clone());
            }
        }
    }
    let mut out = String::new();
    for (name, list, bound) in [
        ("dispatch_pi", &ints, "IntTy"),
        ("dispatch_wi", &ints, "IntTy"),
        ("dispatch_pf", &floats, "FloatTy"),
        ("dispatch_wf", &floats, "FloatTy"),
        ("dispatch_bs", &floats, "FloatTy"),
    ] {
        let inner = &name[9..];
        out.push_str(&format!(
            "pub fn {name}<T: {bound}>(fmt: u128, facade: bool, a: &[&str]) -> Option<String> {{\n    match fmt {{\n"
        ));
        for h in list.iter() {
            out.push_str(&format!(
                "        0x{h}u128 => Some(op_{inner}::<T, 0x{h}u128>(facade, a)),\n"
            ));
        }
        out.push_str("        _ => None,\n    }\n}\n");
    }
    // component-level ops: not generic over the float type
    out.push_str("pub fn dispatch_pn(fmt: u128, a: &[&str]) -> Option<String> {\n    match fmt {\n");
    for h in floats.iter() {
        out.push_str(&format!("        0x{h}u128 => Some(op_pn::<0x{h}u128>(a)),\n"));
    }
    out.push_str("        _ => None,\n    }\n}\n");
    // algorithm components (bellerophon / binary / slow_binary / try_fast_path): plain-flag formats with legal radices only
    out.push_str("pub fn dispatch_alg(fmt: u128, a: &[&str]) -> Option<String> {\n    match fmt {\n");
    for h in floats.iter() {
        let v = u128::from_str_radix(h, 16).unwrap();
        let radix = (v >> 104) & 0xff;
        let base = (v >> 112) & 0xff;
        let plain = v & ((1u128 << 104) - 1) == 0xc;
        if plain && (2..=36).contains(&radix) && (2..=36).contains(&base) {
            out.push_str(&format!("        0x{h}u128 => Some(crate::comp::comp_parse::op_alg::<0x{h}u128>(a)),\n"));
        }
    }
    out.push_str("        _ => None,\n    }\n}\n");
    out.push_str("pub const INT_FORMATS: &[u128] = &[");
    for h in ints.iter() {
        out.push_str(&format!("0x{h}u128, "));
    }
    out.push_str("];\npub const FLOAT_FORMATS: &[u128] = &[");
    for h in floats.iter() {
        out.push_str(&format!("0x{h}u128, "));
    }
    out.push_str("];\n");
    let dest = Path::new(&env::var("OUT_DIR").unwrap()).join("formats_gen.rs");
    fs::write(dest, out).unwrap();
}
