import LexVerif.Model.ParseNumber
import LexVerif.Model.FastPath
import LexVerif.Model.Lemire
import LexVerif.Model.Bellerophon
import LexVerif.Model.Binary
/-!
# Model.ParseFloatAlgo — `parse_complete` / `parse_partial` with the numeric conversion spelled out

`Model.ParseNumber.parseFloatModel` stops at the `Number` and converts it with the exact arithmetic of `Spec`
(`numberBits` → `litBits`). Here the conversion is the one of `lexical-parse-float/src/parse.rs`:

```
if let Some(value) = num.try_fast_path::<_, FORMAT>() { return Ok(value); }
let mut fp = moderate_path::<F, FORMAT>(&num, options.lossy());
if fp.exp < 0 { fp.exp -= shared::INVALID_FP; fp = slow_path::<F, FORMAT>(num, fp); }
Ok(to_native!(F, fp, is_negative))
```

* `tryFastPath` (`Model.FastPath`), `moderatePath` = the `cfg` ladder of `moderate_path` over
  `Lemire.lemire` / `Bellerophon.bellerophon` / `Binary.binary`;
* `slowPath`: `slow_binary` is modelled (`Binary.slowBinary`); `slow_radix` (`slow.rs`, `bigint.rs`) is **not** —
  it is the parameter `slow : SlowRadix`, constrained only by the contract `Props.C01Main.SlowPathCorrect`;
* `toNative`: `extended_to_float`, then `-float` when negative.

Mathlib-free.
-/
namespace LexVerif.Model.ParseFloatAlgo
open LexVerif.Spec LexVerif.Model

/-- `slow_radix::<F, FORMAT>(num, fp)` as an uninterpreted function of what it reads: the format, the float
type, the `Number` (digit slices, exponent) and the un-biased estimate -/
abbrev SlowRadix := Cfg → FTy → Number → ExtendedFloat80 → ExtendedFloat80

/-- `is_power_two!` -/
def isPowerTwo (r : Nat) : Bool := r = 2 || r = 4 || r = 8 || r = 16 || r = 32

/-- the part of a `Number` the fast and moderate paths read -/
def numOf (n : Number) : Num := ⟨n.mantissa, n.exponent, n.isNegative, n.manyDigits⟩

/-- which moderate-path algorithm a build dispatches to -/
inductive Backend where
  | lemire | bellerophon | binary
deriving DecidableEq, Repr

/-- the `cfg` ladder of `moderate_path::<F, FORMAT>` (`radix` = `format.mantissa_radix()`) -/
def backend (feats : Features) (radix : Nat) : Backend :=
  if feats.compact then
    if feats.powerOfTwo then (if isPowerTwo radix then .binary else .bellerophon)
    else .bellerophon
  else if feats.radix then
    if radix = 10 then .lemire else if isPowerTwo radix then .binary else .bellerophon
  else if feats.powerOfTwo then
    if radix = 10 then .lemire else .binary
  else .lemire

/-- `moderate_path::<F, FORMAT>(&num, lossy)` -/
def moderatePath (c : Cfg) (F : FTy) (n : Num) (lossy : Bool) : AlgoRes :=
  match backend c.feats c.mantissaRadix with
  | .lemire => Lemire.lemire F n lossy
  | .bellerophon => Bellerophon.bellerophon F (Bellerophon.powersOf c.feats c.mantissaRadix) n lossy
  | .binary => Binary.binary F c.exponentBase n lossy

/-- `slow_path::<F, FORMAT>(num, fp)` -/
def slowPath (slow : SlowRadix) (c : Cfg) (F : FTy) (n : Number) (fp : ExtendedFloat80) : ExtendedFloat80 :=
  if c.feats.powerOfTwo && isPowerTwo c.mantissaRadix then
    Binary.slowBinary F c.feats.compact c.mantissaRadix c.exponentBase
      ((smallSetOf c.feats).u64Step c.mantissaRadix) n.exponent n.integer n.fraction
  else slow c F n fp

/-- `to_native!(F, fp, is_negative)` -/
def toNative (F : FTy) (fp : ExtendedFloat80) (neg : Bool) : Nat :=
  FastPath.withSign F neg (extendedToFloat F fp)

/-- the numeric half of `parse_complete` / `parse_partial`: IEEE bits, or `none` for a panic -/
def numberToFloat (slow : SlowRadix) (c : Cfg) (F : FTy) (n : Number) (lossy : Bool) : Option Nat :=
  match FastPath.tryFastPath (smallSetOf c.feats) F c.mantissaRadix c.exponentBase (numOf n) with
  | .some v => some v
  | .panic => none
  | .none =>
    match moderatePath c F (numOf n) lossy with
    | .panic => none
    | .ok fp =>
      if fp.exp < 0 then
        -- `fp.exp -= shared::INVALID_FP`: exact on `i32` (`exp < 0` and `INVALID_FP = -32768`)
        some (toNative F (slowPath slow c F n { fp with exp := fp.exp - invalidFp }) n.isNegative)
      else some (toNative F fp n.isNegative)

/-- `renderParsed` with the algorithmic conversion -/
def renderParsedAlgo (slow : SlowRadix) (c : Cfg) (F : FTy) (lossy isPartial : Bool) (p : Parsed) : String :=
  let cnt (n : Nat) : String := if isPartial then toString n else "-"
  match p with
  | .zero n => s!"ok 0 {cnt n}"
  | .number n count =>
    match numberToFloat slow c F n lossy with
    | some bits => s!"ok {toHex bits} {cnt count}"
    | none => "panic"
  | .special .nan _ count => s!"ok nan {cnt count}"
  | .special .inf neg count => s!"ok {toHex (F.fmt.infBits + if neg then F.fmt.signBit else 0)} {cnt count}"

/-- `parse_with_options` / `parse_partial_with_options` for a float type, numeric conversion included; same
entry-point validation as `parseFloatModel` -/
def parseFloatAlgoModel (slow : SlowRadix) (feats : Features) (fmt : Format) (o : POpts) (isPartial : Bool)
    (F : FTy) (input : List Nat) (lossy : Bool := false) (debug : Bool := false) : String :=
  match optionsError o with
  | some e => s!"opterr {e} -"
  | none =>
    let fe := formatError feats fmt
    if fe.isSome then s!"err {fe.getD ""} -"
    else if !isValidOptionsPunctuation feats fmt o.exp o.dp then "err InvalidPunctuation -"
    else if !checkRadix feats fmt then "err InvalidRadix -"
    else
      let c : Cfg := ⟨feats, fmt, debug⟩
      match parseFloatSyntax c o isPartial input fe.isNone with
      | .ok p => renderParsedAlgo slow c F lossy isPartial p
      | .error e => renderErr e

/-- the digit content of a `Number` as a literal: the digit values of the stored integer / fraction slices and
the explicit exponent (what `numberBits` rounds for a truncated mantissa) -/
def numberLit (c : Cfg) (n : Number) : FloatLit :=
  ⟨n.isNegative, sliceDigits c .integer n.integer,
    (match n.fraction with | some fd => sliceDigits c .fraction fd | none => []), n.explicitExp⟩

/-- an executable stand-in for `slow_radix` (non-vacuity witness of its contract, and the driver column): the
float nearest to the exact digits (specification arithmetic), re-encoded as an extended float -/
def slowOracle : SlowRadix := fun c F n _ =>
  let bits := litBits F.fmt c.mantissaRadix c.exponentBase { numberLit c n with neg := false }
  { mant := bits % 2 ^ F.ms, exp := (bits / 2 ^ F.ms : Nat) }

end LexVerif.Model.ParseFloatAlgo
