import LexVerif.Gen.Grisu
import LexVerif.Model.Dragonbox
/-!
# Model.Grisu — `lexical-write-float/src/compact.rs` (`grisu` and everything below it; `compact` builds)

`grisu(float)` → `(digits, k)`: the digit characters and the decimal exponent of the LAST digit
(`value ≈ digits · 10^k`). Mirrors `from_float`, `normalize`, `normalized_boundaries`, `mul`,
`cached_grisu_power`, `generate_digits`, `round_digit`. All arithmetic is `u64` / `i32` as written
(`u64`, `i32` reductions; shifts reduced modulo the width like a release build).

`cached_grisu_power` multiplies by the `f64` constant `ONE_LOG_TEN = 0.30102999566398114` and truncates: the model uses
the exact rational value of that double (`2711437152599295 / 2^53`) — the rounding of the product cannot change the
truncation because no `n · ONE_LOG_TEN`, `0 < |n| ≤ 1400`, is within `4·10^-4` of an integer — and
`Proof/GrisuCached.lean` proves the model equal to the table of `cached_grisu_power` dumped from the compiled crate on its
whole admissible argument range. The table of powers is `Gen.Grisu.powersOfTen` (R).
-/
namespace LexVerif.Model.Grisu
open LexVerif.Gen.Grisu
open LexVerif.Model.Dragonbox (FTy u64 i32 sub64 shl64 shr64)

structure Fp where
  mant : Nat
  exp : Int
deriving Repr, DecidableEq

def clz64 (x : Nat) : Nat := if x = 0 then 64 else 63 - Nat.log2 x

/-- `from_float` -/
def fromFloat (t : FTy) (bits : Nat) : Fp := ⟨t.mantissa bits, t.exponent bits⟩

/-- `normalize` -/
def normalize (fp : Fp) : Fp :=
  if fp.mant ≠ 0 then
    let shift := clz64 fp.mant
    ⟨shl64 fp.mant shift, i32 (fp.exp - shift)⟩
  else fp

/-- `normalized_boundaries` → `(lower, upper)` -/
def normalizedBoundaries (t : FTy) (fp : Fp) : Fp × Fp :=
  let upper := normalize ⟨u64 (shl64 fp.mant 1 + 1), i32 (fp.exp - 1)⟩
  let lShift : Int := (if fp.mant = t.hiddenBit then 1 else 0) + 1
  let lowerMant := sub64 (shl64 fp.mant lShift) 1
  let lowerExp := i32 (fp.exp - lShift)
  (⟨shl64 lowerMant (i32 (lowerExp - upper.exp)), upper.exp⟩, upper)

/-- `mul` -/
def mul (x y : Fp) : Fp :=
  let lomask := 2 ^ 32 - 1
  let x1 := x.mant >>> 32
  let x0 := x.mant &&& lomask
  let y1 := y.mant >>> 32
  let y0 := y.mant &&& lomask
  let x1y0 := u64 (x1 * y0)
  let x0y1 := u64 (x0 * y1)
  let x0y0 := u64 (x0 * y0)
  let x1y1 := u64 (x1 * y1)
  let tmp := u64 ((x1y0 &&& lomask) + (x0y1 &&& lomask) + (x0y0 >>> 32))
  let tmp := u64 (tmp + 2 ^ 31)
  ⟨u64 (x1y1 + (x1y0 >>> 32) + (x0y1 >>> 32) + (tmp >>> 32)), i32 (i32 (x.exp + y.exp) + 64)⟩

/-- `fast_binary_power` -/
def fastBinaryPower (q : Int) : Int := i32 (i32 (q * (152170 + 65536)) / 2 ^ 16 - 63)

/-- `fast_decimal_power` -/
def fastDecimalPower (index : Nat) : Int := i32 (i32 ((index : Int) * 8) - 348)

/-- the loop of `cached_grisu_power`; `idx` is a `usize` (an underflow would index out of range: FAULT/PANIC = `none`) -/
def cachedLoop (exp : Int) : Nat → Int → Option (Fp × Int)
  | 0, _ => none
  | fuel + 1, idx =>
    if idx < 0 then none else
    match powersOfTen[idx.toNat]? with
    | none => none                                   -- `GRISU_POWERS_OF_TEN[index]` panics
    | some mant =>
      let decexp := fastDecimalPower idx.toNat
      let binexp := fastBinaryPower decexp
      let current := i32 (i32 (exp + binexp) + 64)
      if current < -60 then cachedLoop exp fuel (idx + 1)
      else if current > -32 then cachedLoop exp fuel (idx - 1)
      else some (⟨mant, binexp⟩, i32 (-348 + i32 (idx * 8)))

/-- `cached_grisu_power` -/
def cachedGrisuPower (exp : Int) : Option (Fp × Int) :=
  -- approx = -((exp + NPOWERS) as f64) * ONE_LOG_TEN, truncated to i32
  let n : Int := -(i32 (exp + 87))
  let approx : Int := Int.tdiv (n * 2711437152599295) (2 ^ 53)
  let idx : Int := Int.tdiv (i32 (approx - (-348))) 8
  cachedLoop exp 100 idx

/-- `round_digit`: decrements the last digit while the conditions hold; returns the decrement count -/
def roundDigit (delta kappa mant : Nat) : Nat → Nat → Nat → Nat × Nat
  | 0, rem, dec => (rem, dec)
  | fuel + 1, rem, dec =>
    if rem < mant ∧ sub64 delta rem ≥ kappa
        ∧ (u64 (rem + kappa) < mant ∨ sub64 mant rem > sub64 (u64 (rem + kappa)) mant) then
      roundDigit delta kappa mant fuel (u64 (rem + kappa)) (dec + 1)
    else (rem, dec)

def decLast (ds : List Nat) (dec : Nat) : List Nat :=
  match ds.reverse with
  | [] => []
  | d :: rest => (((d + 256 - dec % 256) % 256) :: rest).reverse

/-- first loop of `generate_digits` (`kappa = 10 … 1`) -/
def genLoop1 (delta wmant part2 shift : Nat) :
    Nat → Nat → Nat → Nat → List Nat → Int → Sum (List Nat × Int) (List Nat × Nat)
  -- returns `inl (digits, k)` when finished, `inr (digits, kappa)` to continue with the second loop
  | 0, _, _, kappa, ds, _ => .inr (ds, kappa)
  | fuel + 1, part1, div, kappa, ds, k =>
    if kappa = 0 then .inr (ds, kappa) else
    let digit := part1 / div
    let ds := if digit ≠ 0 ∨ ds ≠ [] then ds ++ [(48 + digit) % 256] else ds
    let part1 := sub64 part1 (u64 (digit * div))
    let kappa := kappa - 1
    let tmp := u64 (shl64 part1 shift + part2)
    if tmp ≤ delta then
      let (_, dec) := roundDigit delta (shl64 div shift) wmant 20 tmp 0
      .inl (decLast ds dec, i32 (k + kappa))
    else genLoop1 delta wmant part2 shift fuel part1 (div / 10) kappa ds k

/-- second loop (`kappa ≤ 0`) -/
def genLoop2 (wmant oneMant shift : Nat) :
    Nat → Nat → Nat → Int → Nat → List Nat → Int → Option (List Nat × Int)
  | 0, _, _, _, _, _, _ => none
  | fuel + 1, part2, delta, kappa, ten, ds, k =>
    let part2 := u64 (part2 * 10)
    let delta := u64 (delta * 10)
    let kappa := i32 (kappa - 1)
    let digit := part2 >>> shift
    let ds := if digit ≠ 0 ∨ ds ≠ [] then ds ++ [(48 + digit) % 256] else ds
    let part2 := part2 &&& (oneMant - 1)
    if part2 < delta then
      let (_, dec) := roundDigit delta oneMant (u64 (wmant * ten)) 20 part2 0
      some (decLast ds dec, i32 (k + kappa))
    else genLoop2 wmant oneMant shift fuel part2 delta kappa (u64 (ten * 10)) ds k

/-- `generate_digits` -/
def generateDigits (fp upper lower : Fp) (k : Int) : Option (List Nat × Int) :=
  let wmant := sub64 upper.mant fp.mant
  let delta := sub64 upper.mant lower.mant
  let shift : Nat := ((-upper.exp) % 64).toNat
  let oneMant := shl64 1 (-upper.exp)
  let part1 := upper.mant >>> shift
  let part2 := upper.mant &&& (oneMant - 1)
  match genLoop1 delta wmant part2 shift 11 part1 1000000000 10 [] k with
  | .inl r => some r
  | .inr (ds, kappa) => genLoop2 wmant oneMant shift 64 part2 delta (kappa : Int) 10 ds k

/-- `grisu` on a finite non-zero float (sign removed): digit characters and the exponent of the last digit -/
def grisu (t : FTy) (bits : Nat) : Option (List Nat × Int) :=
  let w := fromFloat t bits
  let (lower, upper) := normalizedBoundaries t w
  let w := normalize w
  match cachedGrisuPower upper.exp with
  | none => none
  | some (cp, ki) =>
    let w := mul w cp
    let upper := mul upper cp
    let lower := mul lower cp
    let lower : Fp := ⟨u64 (lower.mant + 1), lower.exp⟩
    let upper : Fp := ⟨sub64 upper.mant 1, upper.exp⟩
    generateDigits w upper lower (i32 (-ki))

end LexVerif.Model.Grisu

/-! ## literals of compact.rs (see `Model/Dragonbox.lean`, section "literals") -/
namespace LexVerif.Model.Grisu

def litBinPowMulA : Nat := 152170
def litBinPowMulB : Nat := 65536
def litBinPowShift : Nat := 16
def litBinPowBias : Nat := 63
def litDecPowStep : Nat := 8
def litDecPowFirst : Nat := 348
def litNPowers : Nat := 87
def litExpMax : Nat := 32
def litExpMin : Nat := 60

def fastBinaryPowerLiterals : List Nat := [litBinPowMulA, litBinPowMulB, litBinPowShift, litBinPowBias]
def fastDecimalPowerLiterals : List Nat := [litDecPowStep, litDecPowFirst]
/-- `debug_assert!(((-1075 - 64 - 1)..=(1024 + 64 + 1))…)`, `NPOWERS = 87`, `FIRSTPOWER = -348`, `STEPPOWERS = 8`,
`EXPMAX = -32`, `EXPMIN = -60`, `+ 64`, `idx += 1`, `idx -= 1` (the `f64` literal `ONE_LOG_TEN` is not an integer literal) -/
def cachedGrisuPowerLiterals : List Nat :=
  [1075, 64, 1, 1024, 64, 1, litNPowers, litDecPowFirst, litDecPowStep, litExpMax, litExpMin, 64, 1, 1]
def mulLiterals : List Nat := [32, 0, 32, 0, 32, 32, 32, 1, 32, 1, 32, 32, 32, 64]
def normalizeLiterals : List Nat := [0]
def normalizedBoundariesLiterals : List Nat := [1, 1, 1, 1, 1]
def roundDigitLiterals : List Nat := [1, 1, 1]
def generateDigitsLiterals : List Nat :=
  [0, 1, 1, 0, 10, 1000000000, 0, 0, 0, 10, 1, 1, 10, 10, 10, 10, 1, 0, 0, 10, 1, 1, 10]
def grisuLiterals : List Nat := [1, 1]

end LexVerif.Model.Grisu
