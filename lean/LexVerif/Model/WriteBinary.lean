import LexVerif.Model.Dragonbox
import LexVerif.Model.FormatDecimal
import LexVerif.Spec.Decimal
/-!
# Model.WriteBinary — `lexical-write-float/src/binary.rs` and `hex.rs` with DEFAULT digit options

`write_float` for mantissa radix 2/4/8/16/32 (exponent base = radix: `binary.rs`; the mixed pairs
4/2, 8/2, 16/2, 32/2, 16/4: `hex.rs`, which shares the two positional layouts with `binary.rs`).
Default digit options = no `max_significant_digits` (so `truncate_and_round` is the identity and returns
`significant_bits(mantissa)`); `min_significant_digits` is modelled as written.

Two layers: the layout functions return a `Layout` (integer digits, fraction digits as digit VALUES, whether a point
is written, the explicit exponent) and `render` turns it into bytes. The mantissa digits are `Spec.toDigits` (the
integer writer `write_mantissa` is C03's subject); the exponent is written by `FormatDecimal.writeExponent`.
Rust integer semantics: `/` `%` are the truncating `Int.tdiv` / `Int.tmod`; `wrapping_neg` and `i32` sums are reduced
with `i32`; `mantissa << shl` is reduced to the width of the float's unsigned type.
-/
namespace LexVerif.Model.WriteBinary
open LexVerif.Spec LexVerif.Model
open LexVerif.Model.Dragonbox (FTy i32)

/-- `fast_log2(x) = 32 - 1 - (x | 1).leading_zeros()` -/
def fastLog2 (x : Nat) : Int := (Nat.log2 (x ||| 1) : Int)

/-- `significant_bits(value) = BITS - value.leading_zeros()` -/
def significantBits (x : Nat) : Nat := if x = 0 then 0 else Nat.log2 x + 1

/-- `fast_ceildiv(value, base) = (value + base - 1) / base` -/
def fastCeildiv (value base : Int) : Int := Int.tdiv (i32 (i32 (value + base) - 1)) base

/-- `inverse_remainder` -/
def inverseRemainder (rem base : Int) : Int := if rem = 0 then 0 else i32 (base - rem)

/-- `calculate_shl` -/
def calculateShl (exp bpd : Int) : Int :=
  if exp < 0 then inverseRemainder (Int.tmod (i32 (-exp)) bpd) bpd else Int.tmod exp bpd

/-- `binary::scale_sci_exp` -/
def scaleSciExp (sciExp bpd : Int) : Int :=
  if sciExp < 0 then i32 (-(fastCeildiv (i32 (-sciExp)) bpd)) else Int.tdiv sciExp bpd

/-- `hex::scale_sci_exp` -/
def scaleSciExpHex (sciExp bpd bpb : Int) : Int :=
  if sciExp < 0 then
    let floor := fastCeildiv (i32 (-sciExp)) bpd
    i32 (-(Int.tdiv (i32 (floor * bpd)) bpb))
  else
    let floor := Int.tdiv sciExp bpd
    Int.tdiv (i32 (floor * bpd)) bpb

/-- `rtrim_char_count(…, b'0')` applied: the digits without their trailing zeros -/
def rtrimZeros (ds : List Nat) : List Nat := (ds.reverse.dropWhile (· = 0)).reverse

/-- `mantissa << shl` in the unsigned type of width `w` -/
def shlW (w m : Nat) (shl : Int) : Nat := (m <<< (shl % w).toNat) % 2 ^ w

structure Layout where
  int : List Nat
  frac : List Nat
  point : Bool
  exp : Option Int
deriving Repr, DecidableEq

def pad (exact count : Nat) : List Nat := if exact > count then List.replicate (exact - count) 0 else []

/-- the significant digits: `(mantissa << calculate_shl(exp, bits_per_digit)).write_mantissa::<FORMAT>()` -/
def mantissaDigits (w r m : Nat) (exp : Int) : List Nat :=
  toDigits r (shlW w m (calculateShl exp (fastLog2 r)))

/-- `write_float_scientific` (binary.rs and hex.rs differ only in `scaled`) -/
def sciLayout (fmt : Format) (o : WOpts) (w r m : Nat) (exp : Int) (scaled : Int) : Layout :=
  let ds := mantissaDigits w r m exp
  let d0 := ds.headD 0
  let rest := rtrimZeros ds.tail
  let digitCount := 1 + rest.length
  let exact := minExactDigits digitCount o
  if ¬ fmt.noExponentWithoutFraction ∧ digitCount = 1 ∧ o.trim then ⟨[d0], [], false, some scaled⟩
  else if exact < 2 then ⟨[d0], [0], true, some scaled⟩
  else ⟨[d0], rest ++ pad exact digitCount, true, some scaled⟩

/-- `write_float_negative_exponent` -/
def negLayout (o : WOpts) (w r m : Nat) (exp sciExp : Int) : Layout :=
  let zeroDigits := (fastCeildiv (i32 (-sciExp)) (fastLog2 r)).toNat
  let tr := rtrimZeros (mantissaDigits w r m exp)
  let digitCount := tr.length
  let exact := minExactDigits digitCount o
  ⟨[0], List.replicate (zeroDigits - 1) 0 ++ tr ++ pad exact digitCount, true, none⟩

/-- `write_float_positive_exponent` -/
def posLayout (o : WOpts) (w r m : Nat) (exp sciExp : Int) : Layout :=
  let tr := rtrimZeros (mantissaDigits w r m exp)
  let digitCount := tr.length
  let leading := (Int.tdiv sciExp (fastLog2 r)).toNat + 1
  if leading ≥ digitCount then
    let int := tr ++ List.replicate (leading - digitCount) 0
    if o.trim then ⟨int, [], false, none⟩
    else
      let digitCount := digitCount + 1
      ⟨int, [0] ++ pad (minExactDigits digitCount o) digitCount, true, none⟩
  else
    ⟨tr.take leading, tr.drop leading ++ pad (minExactDigits digitCount o) digitCount, true, none⟩

/-- `binary::write_float` / `hex::write_float` on a non-negative finite float given as `(mantissa, exponent)`:
the `write_float!` notation choice is made on the BINARY scientific exponent -/
def layoutME (fmt : Format) (o : WOpts) (w m : Nat) (exp : Int) : Layout :=
  let r := fmt.mantissaRadix
  let b := fmt.exponentBase
  let mantissaBits := significantBits m
  let sciExp : Int := if m = 0 then 0 else i32 (i32 (exp + mantissaBits) - 1)
  let minExp := o.negBreak.getD (-5)
  let maxExp := o.posBreak.getD 9
  let outside := sciExp < minExp ∨ sciExp > maxExp
  let require := fmt.requiredExponentNotation ∨ outside
  if ¬ fmt.noExponentNotation ∧ require then
    let scaled := if r ≠ b then scaleSciExpHex sciExp (fastLog2 r) (fastLog2 b) else scaleSciExp sciExp (fastLog2 r)
    sciLayout fmt o w r m exp scaled
  else if sciExp < 0 then negLayout o w r m exp sciExp
  else posLayout o w r m exp sciExp

def render (fmt : Format) (feats : Features) (o : WOpts) (l : Layout) : List Nat :=
  chars l.int ++ (if l.point then [o.dp] ++ chars l.frac else [])
    ++ (match l.exp with
        | some x => writeExponent fmt feats x o.exp fmt.exponentRadix
        | none => [])

/-- the writer on the bit pattern of a finite float, sign already removed -/
def layoutBits (fmt : Format) (o : WOpts) (t : FTy) (bits : Nat) : Layout :=
  layoutME fmt o t.bits (t.mantissa bits) (t.exponent bits)

def isPow2Radix (r : Nat) : Bool := r = 2 ∨ r = 4 ∨ r = 8 ∨ r = 16 ∨ r = 32

/-- the `(radix, exponent_base)` pairs the writers accept: equal, or one of hex.rs' documented pairs -/
def validPair (r b : Nat) : Bool :=
  (isPow2Radix r && r = b) || (r, b) ∈ [(4, 2), (8, 2), (16, 2), (32, 2), (16, 4)]

/-- `WriteFloat::write_float` for a power-of-two radix: sign, specials, digits. `none` = PANIC (disabled special). -/
def writeFloat (fmt : Format) (feats : Features) (o : WOpts) (t : FTy) (bits : Nat) : Option (List Nat) :=
  let neg := bits &&& t.signMask ≠ 0
  let mag := bits &&& (t.signMask - 1)
  let isSpecial := mag &&& t.exponentMask = t.exponentMask
  let isNaN := isSpecial ∧ mag &&& t.mantissaMask ≠ 0
  let sign : List Nat :=
    if neg ∧ ¬ isNaN then [45] else if feats.format ∧ fmt.requiredMantissaSign then [43] else []
  if isNaN then o.nan.map (sign ++ ·)
  else if isSpecial then o.inf.map (sign ++ ·)
  else some (sign ++ render fmt feats o (layoutBits fmt o t mag))

end LexVerif.Model.WriteBinary

/-! ## literals of binary.rs / hex.rs (see `Model/Dragonbox.lean`, section "literals") -/
namespace LexVerif.Model.WriteBinary

/-- `debug_assert!(matches!(x, 2 | 4 | 8 | 16 | 32))`, `32 - 1 - (x | 1).leading_zeros()` -/
def fastLog2Literals : List Nat := [2, 4, 8, 16, 32, 32, 1, 1]
def fastCeildivLiterals : List Nat := [0, 1]
def inverseRemainderLiterals : List Nat := [0, 0, 0]
def calculateShlLiterals : List Nat := [0]
def scaleSciExpLiterals : List Nat := [0]
def hexScaleSciExpLiterals : List Nat := [0]
/-- `exp + mantissa_bits as i32 - 1`, `sci_exp = 0` -/
def writeFloatLiterals : List Nat := [1, 0]
/-- the documented `(radix, base)` pairs of hex.rs' `debug_assert!`, then `- 1`, `= 0` -/
def hexWriteFloatLiterals : List Nat := [4, 2, 8, 2, 16, 2, 32, 2, 16, 4, 1, 0]
def writeFloatScientificLiterals : List Nat := [2, 1, 1, 0, 1, 1, 2, 1, 1, 2, 1, 2, 1, 1]
def writeFloatNegativeExponentLiterals : List Nat := [0, 2, 1, 0, 1, 2, 1, 1]
def writeFloatPositiveExponentLiterals : List Nat := [0, 1, 1, 1, 1, 1, 0, 1, 1]
def truncateAndRoundLiterals : List Nat := [1]

end LexVerif.Model.WriteBinary
