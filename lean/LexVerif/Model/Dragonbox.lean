import LexVerif.Gen.Dragonbox
/-!
# Model.Dragonbox — `lexical-write-float/src/algorithm.rs` (`to_decimal` and everything below it)

Mirrors the control flow of the CURRENT source (after fix commits c0f7332 — 32-bit mask in the binary32
integer check — and 9f5296f — `DIV_BY_5_THRESHOLD`), for `f32` and `f64`, for the two variants the default
writer uses (`compute_nearest_shorter`, `compute_nearest_normal`).

Conventions: every machine integer is a `Nat`/`Int` reduced explicitly (`u32`, `u64`, `u128`, `i32`);
shifts by an `i32`/`usize` amount are reduced modulo the width like a release build does; the unchecked
cache access `index_unchecked!(TABLE[index])` returns `none` (= FAULT) outside the table.
The caches, `KAPPA`, `FC_PM_HALF_LOWER`, `DIV_BY_5_THRESHOLD` and the float layout constants are read from
`Gen.Dragonbox` (regenerated from the compiled crate on every run); the `floor_log*` approximations and the
magic numbers are the literals of the source (S) — `Proof/DragonboxLogs.lean` proves them equal to the dumped
tables `Gen.Logs`.
-/
namespace LexVerif.Model.Dragonbox
open LexVerif.Gen.Dragonbox

/-! ## fixed-width helpers -/
def u32 (n : Nat) : Nat := n % 2 ^ 32
def u64 (n : Nat) : Nat := n % 2 ^ 64
def u128 (n : Nat) : Nat := n % 2 ^ 128
/-- two's complement reduction to `i32` -/
def i32 (x : Int) : Int := (x + 2 ^ 31) % 2 ^ 32 - 2 ^ 31
/-- `a - b` on `u64` (wrapping) -/
def sub64 (a b : Nat) : Nat := u64 (a + (2 ^ 64 - u64 b))
def sub32 (a b : Nat) : Nat := u32 (a + (2 ^ 32 - u32 b))
/-- `x >> s` on a 64-bit value with an `i32`/`usize` amount (release build: amount masked with 63) -/
def shr64 (x : Nat) (s : Int) : Nat := x >>> (s % 64).toNat
/-- `x << s` on `u64` -/
def shl64 (x : Nat) (s : Int) : Nat := u64 (x <<< (s % 64).toNat)
def shr32 (x : Nat) (s : Int) : Nat := x >>> (s % 32).toNat
def shl32 (x : Nat) (s : Int) : Nat := u32 (x <<< (s % 32).toNat)

/-! ## float types -/
inductive FTy | f32 | f64
deriving DecidableEq, Repr

def FTy.ofName : String → Option FTy
  | "f32" => some .f32 | "f64" => some .f64 | _ => none

def FTy.bits : FTy → Nat | .f32 => 32 | .f64 => 64
def FTy.mantissaSize : FTy → Int | .f32 => F32.mantissaSize | .f64 => F64.mantissaSize
def FTy.exponentSize : FTy → Int | .f32 => F32.exponentSize | .f64 => F64.exponentSize
def FTy.exponentBias : FTy → Int | .f32 => F32.exponentBias | .f64 => F64.exponentBias
def FTy.denormalExponent : FTy → Int | .f32 => F32.denormalExponent | .f64 => F64.denormalExponent
def FTy.kappa : FTy → Int | .f32 => F32.kappa | .f64 => F64.kappa
def FTy.fcPmHalfLower : FTy → Int | .f32 => F32.fcPmHalfLower | .f64 => F64.fcPmHalfLower
def FTy.divBy5Threshold : FTy → Int | .f32 => F32.divBy5Threshold | .f64 => F64.divBy5Threshold

def FTy.ms (t : FTy) : Nat := t.mantissaSize.toNat
def FTy.mantissaMask (t : FTy) : Nat := 2 ^ t.ms - 1
def FTy.hiddenBit (t : FTy) : Nat := 2 ^ t.ms
def FTy.signMask (t : FTy) : Nat := 2 ^ (t.bits - 1)
def FTy.exponentMask (t : FTy) : Nat := (2 ^ t.exponentSize.toNat - 1) * 2 ^ t.ms

/-- `Float::is_denormal` -/
def FTy.isDenormal (t : FTy) (bits : Nat) : Bool := bits &&& t.exponentMask = 0
/-- `Float::exponent`: value = mantissa · 2^exponent -/
def FTy.exponent (t : FTy) (bits : Nat) : Int :=
  if t.isDenormal bits then t.denormalExponent
  else (((bits &&& t.exponentMask) >>> t.ms : Nat) : Int) - t.exponentBias
/-- `Float::mantissa` (with the hidden bit) -/
def FTy.mantissa (t : FTy) (bits : Nat) : Nat :=
  let s := bits &&& t.mantissaMask
  if t.isDenormal bits then s else s + t.hiddenBit

/-! ## LOG — the five approximations, literals as in the source -/
def floorLog5Pow2 (q : Int) : Int := i32 (q * 225799) / 2 ^ 19
def floorLog10Pow2 (q : Int) : Int := i32 (q * 315653) / 2 ^ 20
def floorLog2Pow10 (q : Int) : Int := i32 (q * 1741647) / 2 ^ 19
def floorLog5Pow2MinusLog5_3 (q : Int) : Int := i32 (i32 (q * 451597) - 715764) / 2 ^ 20
def floorLog10Pow2MinusLog10_4Over3 (q : Int) : Int := i32 (i32 (q * 1262611) - 524031) / 2 ^ 22

/-- `floor_log2`: the counting loop (`-1` for 0) -/
def floorLog2 (n : Nat) : Int := if n = 0 then -1 else (Nat.log2 n : Int)

/-! ## POW -/
def pow32 (radix exp : Nat) : Nat := u32 (radix ^ exp)
def pow64 (radix exp : Nat) : Nat := u64 (radix ^ exp)

/-- `count_factors(radix, n)` -/
def countFactorsGo (radix : Nat) : Nat → Nat → Nat → Nat
  | 0, _, c => c
  | fuel + 1, n, c => if n ≠ 0 ∧ n % radix = 0 then countFactorsGo radix fuel (n / radix) (c + 1) else c
def countFactors (radix n : Nat) : Nat := countFactorsGo radix 64 n 0

/-! ## endpoints -/
def isEndpoint (exponent lower upper : Int) : Bool := lower ≤ exponent && exponent ≤ upper

def isRightEndpoint (t : FTy) (exponent : Int) : Bool :=
  let factors := countFactors 5 (u64 (2 ^ (t.ms + 1)) + 1) + 1
  isEndpoint exponent 0 (2 + floorLog2 (pow64 10 factors / 3))

def isLeftEndpoint (t : FTy) (exponent : Int) : Bool :=
  let factors := countFactors 5 (u64 (2 ^ (t.ms + 2)) - 1) + 1
  isEndpoint exponent 2 (2 + floorLog2 (pow64 10 factors / 3))

/-! ## MUL -/
def umul128Upper64 (x y : Nat) : Nat := u64 (u128 (x * y) >>> 64)

/-- returns `(hi, lo)` of the upper 128 bits of `x · (hi·2^64 + lo)` -/
def umul192Upper128 (x hi lo : Nat) : Nat × Nat :=
  let r := u128 (u128 (x * hi) + umul128Upper64 x lo)
  (u64 (r >>> 64), u64 r)

/-- returns `(hi, lo)` of the lower 128 bits of `x · (yhi·2^64 + ylo)` -/
def umul192Lower128 (x yhi ylo : Nat) : Nat × Nat :=
  let hi := u64 (x * yhi)
  let hiLo := u128 (x * ylo)
  (u64 (hi + u64 (hiLo >>> 64)), u64 hiLo)

def umul96Upper64 (x y : Nat) : Nat := umul128Upper64 (shl64 x 32) y
def umul96Lower64 (x y : Nat) : Nat := u64 (x * y)

/-! ## DIV -/
def divideByPow10_32 (n exp : Nat) : Nat :=
  if exp = 2 then u32 (u64 (n * 1374389535) >>> 37) else n / pow32 exp 10

def divideByPow10_64 (n exp nMax : Nat) : Nat :=
  if exp = 3 ∧ nMax ≤ 15534100272597517998 then umul128Upper64 n 2361183241434822607 >>> 7
  else n / pow64 exp 10

structure Div10Info where
  magic : Nat
  shift : Nat

def f32Div10Info : Div10Info := ⟨6554, 16⟩
def f64Div10Info : Div10Info := ⟨656, 16⟩

def FTy.div10Info : FTy → Div10Info | .f32 => f32Div10Info | .f64 => f64Div10Info

/-- `check_div_pow10!` -/
def checkDivPow10 (t : FTy) (n : Nat) : Nat × Bool :=
  let info := t.div10Info
  let m := u32 (n * info.magic)
  let mask := u32 (1 <<< info.shift) - 1
  (m >>> info.shift, (m &&& mask) < info.magic)

/-- `div_pow10!` -/
def divPow10 (t : FTy) (n : Nat) : Nat := u32 (n * t.div10Info.magic) >>> t.div10Info.shift

def divideByPow10 (t : FTy) (n exp nMax : Nat) : Nat :=
  match t with
  | .f32 => divideByPow10_32 (u32 n) exp
  | .f64 => divideByPow10_64 n exp nMax

/-! ## trailing zeros -/
def modInv5U32 : Nat := 0xCCCCCCCD
def modInv25U32 : Nat := u32 (modInv5U32 * modInv5U32)
def modInv5U64 : Nat := 0xCCCCCCCCCCCCCCCD
def modInv25U64 : Nat := u64 (modInv5U64 * modInv5U64)

def rotr32 (n r : Nat) : Nat :=
  let r := r &&& 31
  (n >>> r) ||| shl32 n (32 - r)
def rotr64 (n r : Nat) : Nat :=
  let r := r &&& 63
  (n >>> r) ||| shl64 n (64 - r)

/-- the `loop { quo = rotr32(n * MOD_INV_25, 2); if quo <= MAX/100 { n = quo; s += 2 } else break }` -/
def rtzLoop32 : Nat → Nat → Nat → Nat × Nat
  | 0, n, s => (n, s)
  | fuel + 1, n, s =>
    let quo := rotr32 (u32 (n * modInv25U32)) 2
    if quo ≤ (2 ^ 32 - 1) / 100 then rtzLoop32 fuel quo (s + 2) else (n, s)

def rtzLoop64 : Nat → Nat → Nat → Nat × Nat
  | 0, n, s => (n, s)
  | fuel + 1, n, s =>
    let quo := rotr64 (u64 (n * modInv25U64)) 2
    if quo ≤ (2 ^ 64 - 1) / 100 then rtzLoop64 fuel quo (s + 2) else (n, s)

/-- loop and the final single-digit step, 32 bits; a non-zero `u32` has at most 9 trailing zeros -/
def rtz32From (n s : Nat) : Nat × Nat :=
  let p := rtzLoop32 16 n s
  let quo := rotr32 (u32 (p.1 * modInv5U32)) 1
  if quo ≤ (2 ^ 32 - 1) / 10 then (quo, p.2 ||| 1) else (p.1, p.2)

def rtz64From (n s : Nat) : Nat × Nat :=
  let p := rtzLoop64 16 n s
  let quo := rotr64 (u64 (p.1 * modInv5U64)) 1
  if quo ≤ (2 ^ 64 - 1) / 10 then (quo, p.2 ||| 1) else (p.1, p.2)

/-- `remove_trailing_zeros` -/
def removeTrailingZeros (t : FTy) (mantissa : Nat) : Nat × Nat :=
  match t with
  | .f32 => rtz32From (u32 mantissa) 0
  | .f64 =>
    let magic := 12379400392853802749
    let nm := u128 (mantissa * magic)
    let high := u64 (nm >>> 64)
    let mask := 2 ^ (90 - 64) - 1
    let low := u64 nm
    if high &&& mask = 0 ∧ low < magic then rtz32From (u32 (high >>> (90 - 64))) 8
    else rtz64From mantissa 0

/-- `process_trailing_zeros`: policy "remove" for both types -/
def processTrailingZeros (t : FTy) (mantissa : Nat) (exponent : Int) : Nat × Int :=
  let p := removeTrailingZeros t mantissa
  (p.1, i32 (exponent + p.2))

/-! ## cache access -/
/-- `F::dragonbox_power(exponent)`: `(hi, lo)`; `lo = 0` for f32 whose power is a single `u64` -/
def dragonboxPower (t : FTy) (exponent : Int) : Option (Nat × Nat) :=
  match t with
  | .f32 =>
    let idx := exponent - smallestF32Pow5
    if 0 ≤ idx then (pow5_32[idx.toNat]?).map (fun p => (p, 0)) else none
  | .f64 =>
    let idx := exponent - smallestF64Pow5
    if 0 ≤ idx then
      match pow5_64Hi[idx.toNat]?, pow5_64Lo[idx.toNat]? with
      | some h, some l => some (h, l)
      | _, _ => none
    else none

/-! ## the per-type arithmetic (`impl DragonboxFloat for f32 / f64`) -/
def computeLeftEndpoint (t : FTy) (pow5 : Nat × Nat) (beta : Int) : Nat :=
  let p := pow5.1
  let zeroCarry := p >>> (t.ms + 2)
  let mantissaShift : Int := 64 - t.ms - 1
  shr64 (sub64 p zeroCarry) (mantissaShift - beta)

def computeRightEndpoint (t : FTy) (pow5 : Nat × Nat) (beta : Int) : Nat :=
  let p := pow5.1
  let zeroCarry := p >>> (t.ms + 1)
  let mantissaShift : Int := 64 - t.ms - 1
  shr64 (u64 (p + zeroCarry)) (mantissaShift - beta)

def computeRoundUp (t : FTy) (pow5 : Nat × Nat) (beta : Int) : Nat :=
  let shift : Int := 64 - t.mantissaSize - 2
  u64 (shr64 pow5.1 (shift - beta) + 1) / 2

def computeMul (t : FTy) (u : Nat) (pow5 : Nat × Nat) : Nat × Bool :=
  match t with
  | .f32 =>
    let r := umul96Upper64 u pow5.1
    (r >>> 32, u32 r = 0)
  | .f64 =>
    let (hi, lo) := umul192Upper128 u pow5.1 pow5.2
    (hi, lo = 0)

def computeMulParity (t : FTy) (twoF : Nat) (pow5 : Nat × Nat) (beta : Int) : Bool × Bool :=
  match t with
  | .f32 =>
    let r := umul96Lower64 twoF pow5.1
    let parity := shr64 r (64 - beta) &&& 1
    let isInteger := 0xFFFFFFFF &&& shr64 r (32 - beta)
    (parity ≠ 0, isInteger = 0)
  | .f64 =>
    let (rhi, rlo) := umul192Lower128 twoF pow5.1 pow5.2
    let parity := shr64 rhi (64 - beta) &&& 1
    let isInteger := shl64 rhi beta ||| shr64 rlo (64 - beta)
    (parity ≠ 0, isInteger = 0)

def computeDelta (_t : FTy) (pow5 : Nat × Nat) (beta : Int) : Nat :=
  u32 (shr64 pow5.1 (64 - 1 - beta))

/-- `RoundMode::Round.prefer_round_down` -/
def preferRoundDown (significand : Nat) : Bool := significand % 2 ≠ 0

/-! ## the two algorithms -/

/-- `compute_nearest_shorter` (interval type `Closed`) -/
def computeNearestShorter (t : FTy) (bits : Nat) : Option (Nat × Int) :=
  let exponent := t.exponent bits
  let minusK := floorLog10Pow2MinusLog10_4Over3 exponent
  let beta := i32 (exponent + floorLog2Pow10 (i32 (-minusK)))
  (dragonboxPower t (i32 (-minusK))).map fun pow5 =>
    let xi := computeLeftEndpoint t pow5 beta
    let zi := computeRightEndpoint t pow5 beta
    -- `Closed`: the right endpoint is included, nothing to decrease
    let xi := if ¬ isLeftEndpoint t exponent then u64 (xi + 1) else xi
    let significand := zi / 10
    if u64 (significand * 10) ≥ xi then
      processTrailingZeros t significand (i32 (minusK + 1))
    else
      let significand := computeRoundUp t pow5 beta
      let bitsI : Int := t.mantissaSize
      let lower : Int := i32 (i32 (i32 (-floorLog5Pow2MinusLog5_3 (bitsI + 4)) - 2) - bitsI)
      let upper : Int := i32 (i32 (i32 (-floorLog5Pow2 (bitsI + 2)) - 2) - bitsI)
      let roundDown := preferRoundDown significand
      let significand :=
        if roundDown ∧ exponent ≥ lower ∧ exponent ≤ upper then sub64 significand 1
        else if significand < xi then u64 (significand + 1) else significand
      (significand, minusK)

/-- `compute_nearest_normal` (interval type `Symmetric(is_even)`) -/
def computeNearestNormal (t : FTy) (bits : Nat) : Option (Nat × Int) :=
  let mantissa := t.mantissa bits
  let exponent := t.exponent bits
  let isEven := mantissa % 2 = 0
  let kappa := t.kappa
  let minusK := i32 (floorLog10Pow2 exponent - kappa)
  (dragonboxPower t (i32 (-minusK))).map fun pow5 =>
    let beta := i32 (exponent + floorLog2Pow10 (i32 (-minusK)))
    let twoFc := shl64 mantissa 1
    let deltai := computeDelta t pow5 beta
    let (zi, isZInteger) := computeMul t (shl64 (twoFc ||| 1) beta) pow5
    let bigDivisor := pow32 10 (kappa.toNat + 1)
    let smallDivisor := pow32 10 kappa.toNat
    let exp := kappa.toNat + 1
    let nMax := sub64 (u64 (shl64 1 (t.mantissaSize + 1) * bigDivisor)) 1
    let significand := divideByPow10 t zi exp nMax
    let r := u32 (sub64 zi (u64 (bigDivisor * significand)))
    -- Step 2: the three-way comparison of `r` with `deltai`
    let (significand, r, shortCircuit) : Nat × Nat × Bool :=
      if r < deltai then
        if r = 0 ∧ ¬ isEven ∧ isZInteger then (sub64 significand 1, bigDivisor, false)
        else (significand, r, true)
      else if r > deltai then (significand, r, false)
      else
        let twoFl := sub64 twoFc 1
        if ¬ isEven ∨ exponent < t.fcPmHalfLower ∨ exponent > t.divBy5Threshold then
          let parity := (computeMulParity t twoFl pow5 beta).1
          (significand, r, parity)
        else
          let (xiParity, xIsInteger) := computeMulParity t twoFl pow5 beta
          (significand, r, ¬ (¬ xiParity ∧ ¬ xIsInteger))
    if shortCircuit then
      processTrailingZeros t significand (i32 (i32 (minusK + kappa) + 1))
    else
      -- Step 3
      let significand := u64 (significand * 10)
      let dist := u32 (sub32 r (deltai / 2) + smallDivisor / 2)
      let approxYParity : Bool := ((dist ^^^ (smallDivisor / 2)) &&& 1) != 0
      let (dist, isDistDivByKappa) := checkDivPow10 t dist
      let significand := u64 (significand + dist)
      let significand :=
        if isDistDivByKappa then
          let (yiParity, isYInteger) := computeMulParity t twoFc pow5 beta
          let roundDown := preferRoundDown significand
          if (yiParity ≠ approxYParity) ∨ (isYInteger ∧ roundDown) then sub64 significand 1 else significand
        else significand
      (significand, i32 (minusK + kappa))

/-- `to_decimal`: `(mant, exp)` with value `mant · 10^exp`; `none` = FAULT (cache index out of range) -/
def toDecimal (t : FTy) (bits : Nat) : Option (Nat × Int) :=
  let mantissaBits := bits &&& t.mantissaMask
  if bits &&& (t.signMask - 1) = 0 then some (0, 0)
  else if mantissaBits = 0 then computeNearestShorter t bits
  else computeNearestNormal t bits

end LexVerif.Model.Dragonbox

/-! ## literals

The integer literals of the transcribed function bodies of algorithm.rs, per function in source order (doc comments
excluded, `debug_assert!` arguments included), as named constants for the magic numbers. `Props/LiteralsModelWrite.lean`
proves (a) each list equal to the list re-extracted from /repo on every run (`Gen.Literals.WriteFloatAlgorithm.k_*`) and
(b) by `rfl` that the model functions above are their bodies instantiated with these constants. -/
namespace LexVerif.Model.Dragonbox

def litLog5Pow2Mul : Nat := 225799
def litLog5Pow2Shift : Nat := 19
def litLog10Pow2Mul : Nat := 315653
def litLog10Pow2Shift : Nat := 20
def litLog2Pow10Mul : Nat := 1741647
def litLog2Pow10Shift : Nat := 19
def litLog5Pow2M3Mul : Nat := 451597
def litLog5Pow2M3Sub : Nat := 715764
def litLog5Pow2M3Shift : Nat := 20
def litLog10Pow2M43Mul : Nat := 1262611
def litLog10Pow2M43Sub : Nat := 524031
def litLog10Pow2M43Shift : Nat := 22
def litDiv100Magic : Nat := 1374389535
def litDiv100Shift : Nat := 37
def litDiv1000Guard : Nat := 15534100272597517998
def litDiv1000Magic : Nat := 2361183241434822607
def litDiv1000Shift : Nat := 7
def litRtzMagic : Nat := 12379400392853802749
def litRtzBits : Nat := 90
def litRtzS8 : Nat := 8
def litIntegerMask32 : Nat := 4294967295

def floorLog5Pow2Literals : List Nat := [litLog5Pow2Mul, litLog5Pow2Shift]
def floorLog10Pow2Literals : List Nat := [litLog10Pow2Mul, litLog10Pow2Shift]
def floorLog2Pow10Literals : List Nat := [litLog2Pow10Mul, litLog2Pow10Shift]
def floorLog5Pow2MinusLog5_3Literals : List Nat := [litLog5Pow2M3Mul, litLog5Pow2M3Sub, litLog5Pow2M3Shift]
def floorLog10Pow2MinusLog10_4Over3Literals : List Nat := [litLog10Pow2M43Mul, litLog10Pow2M43Sub, litLog10Pow2M43Shift]
/-- `if exp == 2 { (n * MAGIC) >> 37 } else { pow32(exp, 10) … }` -/
def divideByPow10_32Literals : List Nat := [2, litDiv100Magic, litDiv100Shift, 10]
/-- `if exp == 3 && n_max <= GUARD { umul128_upper64(n, MAGIC) >> 7 } else { pow64(exp, 10) … }` -/
def divideByPow10_64Literals : List Nat := [3, litDiv1000Guard, litDiv1000Magic, litDiv1000Shift, 10]
/-- f32 body, then f64 body: `debug_assert!(mantissa != 0)`, `s = 0`, `rotr(·, 2)`, `MAX / 100`, `s += 2`, `rotr(·, 1)`,
`MAX / 10`, `s |= 1`; f64: magic, `>> 64`, `(1 << (90 - 64)) - 1`, `== 0`, `>> (90 - 64)`, `s = 8`, the 32-bit loop, the 64-bit loop -/
def removeTrailingZerosLiterals : List Nat :=
  [0, 0, 2, 100, 2, 1, 10, 1,
   0, litRtzMagic, 64, 1, litRtzBits, 64, 1, 0, litRtzBits, 64, litRtzS8, 2, 100, 2, 1, 10, 1,
   0, 2, 100, 2, 1, 10, 1]
def rotr32Literals : List Nat := [31, 32]
def rotr64Literals : List Nat := [63, 64]
def umul128Upper64Literals : List Nat := [64]
def umul192Upper128Literals : List Nat := [64]
def umul192Lower128Literals : List Nat := [64]
def umul96Upper64Literals : List Nat := [32]
def computeLeftEndpointLiterals : List Nat := [2, 64, 1]
def computeRightEndpointLiterals : List Nat := [1, 64, 1]
def computeRoundUpLiterals : List Nat := [64, 2, 1, 2]
/-- f32 `(r >> 32, r as u32 == 0)`; f64 `lo == 0` -/
def computeMulLiterals : List Nat := [32, 0, 0]
/-- f32: `debug_assert!((1..64)…)`, `>> (64 - beta)`, `& 1`, `0xFFFF_FFFF & (r >> (32 - beta))`, `!= 0`, `== 0`; f64 likewise -/
def computeMulParityLiterals : List Nat := [1, 64, 64, 1, litIntegerMask32, 32, 0, 0, 1, 64, 64, 1, 64, 0, 0]
def computeDeltaLiterals : List Nat := [64, 1, 64, 1]
def isRightEndpointLiterals : List Nat := [0, 5, 1, 1, 1, 1, 2, 10, 3]
def isLeftEndpointLiterals : List Nat := [2, 5, 1, 2, 1, 1, 2, 10, 3]
def countFactorsLiterals : List Nat := [0, 0, 0, 1]
def preferRoundDownLiterals : List Nat := [2, 0]
/-- `zi -= 1`, `xi += 1`, `zi / 10`, `significand * 10`, `minus_k + 1`, `bits + 4`, `- 2`, `bits + 2`, `- 2`,
`significand -= 1`, `significand += 1` -/
def computeNearestShorterLiterals : List Nat := [1, 1, 10, 10, 1, 4, 2, 2, 2, 1, 1]
def computeNearestNormalLiterals : List Nat :=
  [2, 0, 1, 1, 10, 1, 10, 1, 1, 1, 1, 0, 1, 1, 0, 1, 10, 2, 2, 2, 1, 0, 1]
def toDecimalLiterals : List Nat := [0, 0, 0, 0]
/-- `check_div_pow10!`: two `debug_assert!`s (`$exp + 2 < floor_log10_pow2(31)`, `pow64(10, $exp + 1)`), `(1u32 << shift) - 1` -/
def checkDivPow10MacroLiterals : List Nat := [2, 31, 10, 1, 1, 1]

end LexVerif.Model.Dragonbox
