import LexVerif.Model.Format
import LexVerif.Gen.FormatFlags
/-!
# Model.FormatError — validation of the packed number format, and the format builder

Mirrors, function by function,
* `lexical-util/src/format_flags.rs` (extractors, `is_valid_*`, `is_valid_options_punctuation`, `is_valid_radix`),
* `format_error_impl` of `feature_format.rs` (cargo feature `format`) and of `not_feature_format.rs`,
* `lexical-util/src/digit.rs::char_is_digit_const`, `ascii.rs::is_valid_ascii`,
* `lexical-util/src/format_builder.rs` (`new`, setters, getters, `build_unchecked`, `build_strict`, `rebuild`).

Every mask, flag and shift is the *generated* constant `Gen.FormatFlags.*` (dumped from the compiled crate on
every run), never a literal: a changed mask in the Rust source changes this model.
`u128` values are `Nat`s `< 2^128`; `cfg!(feature = …)` is a field of `Features`.
-/
namespace LexVerif.Model.FormatError
open LexVerif.Model
namespace G
export LexVerif.Gen.FormatFlags (REQUIRED_INTEGER_DIGITS REQUIRED_FRACTION_DIGITS REQUIRED_EXPONENT_DIGITS
  REQUIRED_MANTISSA_DIGITS NO_POSITIVE_MANTISSA_SIGN REQUIRED_MANTISSA_SIGN NO_EXPONENT_NOTATION
  NO_POSITIVE_EXPONENT_SIGN REQUIRED_EXPONENT_SIGN NO_EXPONENT_WITHOUT_FRACTION NO_SPECIAL CASE_SENSITIVE_SPECIAL
  NO_INTEGER_LEADING_ZEROS NO_FLOAT_LEADING_ZEROS REQUIRED_EXPONENT_NOTATION CASE_SENSITIVE_EXPONENT
  CASE_SENSITIVE_BASE_PREFIX CASE_SENSITIVE_BASE_SUFFIX INTEGER_INTERNAL_DIGIT_SEPARATOR
  FRACTION_INTERNAL_DIGIT_SEPARATOR EXPONENT_INTERNAL_DIGIT_SEPARATOR INTEGER_LEADING_DIGIT_SEPARATOR
  FRACTION_LEADING_DIGIT_SEPARATOR EXPONENT_LEADING_DIGIT_SEPARATOR INTEGER_TRAILING_DIGIT_SEPARATOR
  FRACTION_TRAILING_DIGIT_SEPARATOR EXPONENT_TRAILING_DIGIT_SEPARATOR INTEGER_CONSECUTIVE_DIGIT_SEPARATOR
  FRACTION_CONSECUTIVE_DIGIT_SEPARATOR EXPONENT_CONSECUTIVE_DIGIT_SEPARATOR SPECIAL_DIGIT_SEPARATOR
  DIGIT_SEPARATOR_SHIFT DIGIT_SEPARATOR BASE_PREFIX_SHIFT BASE_PREFIX BASE_SUFFIX_SHIFT BASE_SUFFIX
  MANTISSA_RADIX_SHIFT MANTISSA_RADIX EXPONENT_BASE_SHIFT EXPONENT_BASE EXPONENT_RADIX_SHIFT EXPONENT_RADIX
  FLAG_MASK DIGIT_SEPARATOR_FLAG_MASK INTEGER_DIGIT_SEPARATOR_FLAG_MASK FRACTION_DIGIT_SEPARATOR_FLAG_MASK
  EXPONENT_DIGIT_SEPARATOR_FLAG_MASK)
end G

/-! ## format_flags.rs: extractors -/

/-- `from_flag!(format, FLAG)` / `has_flag!`: `format & FLAG != 0` -/
def hasFlag (f flag : Nat) : Bool := f &&& flag != 0

/-- `((format & MASK) >> SHIFT) as u8` -/
def byteField (f mask shift : Nat) : Nat := ((f &&& mask) >>> shift) % 256
/-- `((format & MASK) >> SHIFT) as u32` -/
def u32Field (f mask shift : Nat) : Nat := ((f &&& mask) >>> shift) % 2 ^ 32

def digitSeparator (f : Nat) : Nat := byteField f G.DIGIT_SEPARATOR G.DIGIT_SEPARATOR_SHIFT
def basePrefix (f : Nat) : Nat := byteField f G.BASE_PREFIX G.BASE_PREFIX_SHIFT
def baseSuffix (f : Nat) : Nat := byteField f G.BASE_SUFFIX G.BASE_SUFFIX_SHIFT
def mantissaRadix (f : Nat) : Nat := u32Field f G.MANTISSA_RADIX G.MANTISSA_RADIX_SHIFT
/-- `exponent_base`: the stored byte, or the mantissa radix when it is 0 -/
def exponentBase (f : Nat) : Nat :=
  let radix := u32Field f G.EXPONENT_BASE G.EXPONENT_BASE_SHIFT
  if radix = 0 then mantissaRadix f else radix
def exponentRadix (f : Nat) : Nat :=
  let radix := u32Field f G.EXPONENT_RADIX G.EXPONENT_RADIX_SHIFT
  if radix = 0 then mantissaRadix f else radix

/-! ## digit.rs / ascii.rs -/

/-- `char_to_valid_digit_const(c: u8, radix: u32) -> u32` -/
def charToValidDigit (c radix : Nat) : Nat :=
  if radix ≤ 10 then (c + 256 - 48) % 256      -- c.wrapping_sub(b'0') as u32
  else if 48 ≤ c ∧ c ≤ 57 then c - 48
  else if 65 ≤ c ∧ c ≤ 90 then c - 65 + 10
  else if 97 ≤ c ∧ c ≤ 122 then c - 97 + 10
  else 0xFF

/-- `char_is_digit_const` = `char_to_digit_const(c, radix).is_some()` -/
def charIsDigit (c radix : Nat) : Bool := charToValidDigit c radix < radix

/-- `is_valid_ascii` -/
def isValidAscii (c : Nat) : Bool := (0x09 ≤ c && c ≤ 0x0d) || (0x20 ≤ c && c < 0x7F)

/-! ## format_flags.rs: validators -/

/-- `is_valid_exponent_flags` -/
def isValidExponentFlags (f : Nat) : Bool :=
  f &&& G.NO_EXPONENT_NOTATION == 0 || f &&& G.REQUIRED_EXPONENT_NOTATION == 0

def isValidOptionalControlRadix (radix value : Nat) : Bool :=
  !charIsDigit value radix && value != 43 && value != 45 && (isValidAscii value || value == 0)

def isValidOptionalControl (f value : Nat) : Bool :=
  let mradix := mantissaRadix f
  let eradix := exponentRadix f
  let radix := if mradix > eradix then mradix else eradix
  isValidOptionalControlRadix radix value

def isValidControl (f value : Nat) : Bool := value != 0 && isValidOptionalControl f value

def isValidDigitSeparator (feats : Features) (f : Nat) : Bool :=
  let value := digitSeparator f
  if feats.format then isValidOptionalControl f value else value == 0

def isValidBasePrefix (feats : Features) (f : Nat) : Bool :=
  let value := basePrefix f
  if feats.format && feats.powerOfTwo then isValidOptionalControl f value else value == 0

def isValidBaseSuffix (feats : Features) (f : Nat) : Bool :=
  let value := baseSuffix f
  if feats.format && feats.powerOfTwo then isValidOptionalControl f value else value == 0

/-- `is_valid_punctuation` -/
def isValidPunctuation (feats : Features) (f : Nat) : Bool :=
  if !feats.format && digitSeparator f != 0 then false
  else
    let separator := digitSeparator f
    let pre := basePrefix f
    let suf := baseSuffix f
    if separator = 0 ∧ pre = 0 ∧ suf = 0 then true
    else if pre = 0 ∧ suf = 0 then true
    else if separator = 0 ∧ suf = 0 then true
    else if separator = 0 ∧ pre = 0 then true
    else separator != pre && separator != suf && pre != suf

/-- `is_valid_options_punctuation(format, exponent, decimal_point)` -/
def isValidOptionsPunctuation (feats : Features) (f exponent decimalPoint : Nat) : Bool :=
  if !isValidControl f decimalPoint || !isValidControl f exponent then false
  else if decimalPoint = exponent then false
  else if feats.format && digitSeparator f == decimalPoint then false
  else if feats.format && digitSeparator f == exponent then false
  else if feats.format && basePrefix f == decimalPoint then false
  else if feats.format && basePrefix f == exponent then false
  else if feats.format && baseSuffix f == decimalPoint then false
  else if feats.format && baseSuffix f == exponent then false
  else true

/-- `is_valid_radix` -/
def isValidRadix (feats : Features) (radix : Nat) : Bool :=
  if feats.radix then 2 ≤ radix && radix ≤ 36
  else if feats.powerOfTwo then
    radix == 2 || radix == 4 || radix == 8 || radix == 10 || radix == 16 || radix == 32
  else radix == 10

/-! ## `format_error_impl` -/

/-- `radix_error_impl` (identical in both files) -/
def radixError (feats : Features) (f : Nat) : String :=
  if !isValidRadix feats (mantissaRadix f) then "InvalidMantissaRadix"
  else if !isValidRadix feats (exponentBase f) then "InvalidExponentBase"
  else if !isValidRadix feats (exponentRadix f) then "InvalidExponentRadix"
  else "Success"

/-- `feature_format.rs::format_error_impl` -/
def formatErrorFormat (feats : Features) (f : Nat) : String :=
  if !isValidRadix feats (mantissaRadix f) then "InvalidMantissaRadix"
  else if !isValidRadix feats (exponentBase f) then "InvalidExponentBase"
  else if !isValidRadix feats (exponentRadix f) then "InvalidExponentRadix"
  else if !isValidDigitSeparator feats f then "InvalidDigitSeparator"
  else if !isValidBasePrefix feats f then "InvalidBasePrefix"
  else if !isValidBaseSuffix feats f then "InvalidBaseSuffix"
  else if !isValidPunctuation feats f then "InvalidPunctuation"
  else if !isValidExponentFlags f then "InvalidExponentFlags"
  else if hasFlag f G.NO_POSITIVE_MANTISSA_SIGN && hasFlag f G.REQUIRED_MANTISSA_SIGN then "InvalidMantissaSign"
  else if hasFlag f G.NO_POSITIVE_EXPONENT_SIGN && hasFlag f G.REQUIRED_EXPONENT_SIGN then "InvalidExponentSign"
  else if hasFlag f G.NO_SPECIAL && hasFlag f G.CASE_SENSITIVE_SPECIAL then "InvalidSpecial"
  else if hasFlag f G.NO_SPECIAL && hasFlag f G.SPECIAL_DIGIT_SEPARATOR then "InvalidSpecial"
  else if (f &&& G.INTEGER_DIGIT_SEPARATOR_FLAG_MASK) == G.INTEGER_CONSECUTIVE_DIGIT_SEPARATOR then
    "InvalidConsecutiveIntegerDigitSeparator"
  else if (f &&& G.FRACTION_DIGIT_SEPARATOR_FLAG_MASK) == G.FRACTION_CONSECUTIVE_DIGIT_SEPARATOR then
    "InvalidConsecutiveFractionDigitSeparator"
  else if (f &&& G.EXPONENT_DIGIT_SEPARATOR_FLAG_MASK) == G.EXPONENT_CONSECUTIVE_DIGIT_SEPARATOR then
    "InvalidConsecutiveExponentDigitSeparator"
  else "Success"

/-- `not_feature_format.rs::format_error_impl` -/
def formatErrorNoFormat (feats : Features) (f : Nat) : String :=
  let validFlags := G.REQUIRED_EXPONENT_DIGITS ||| G.REQUIRED_MANTISSA_DIGITS
  if !isValidRadix feats (mantissaRadix f) then "InvalidMantissaRadix"
  else if !isValidRadix feats (exponentBase f) then "InvalidExponentBase"
  else if !isValidRadix feats (exponentRadix f) then "InvalidExponentRadix"
  else if !isValidDigitSeparator feats f then "InvalidDigitSeparator"
  else if !isValidBasePrefix feats f then "InvalidBasePrefix"
  else if !isValidBaseSuffix feats f then "InvalidBaseSuffix"
  else if !isValidPunctuation feats f then "InvalidPunctuation"
  else if (f &&& G.FLAG_MASK) != validFlags then "InvalidFlags"
  else "Success"

/-- `format_error_impl` of whichever file is compiled (`#![cfg(feature = "format")]` / `not(…)`). -/
def formatError (feats : Features) (f : Nat) : String :=
  if feats.format then formatErrorFormat feats f else formatErrorNoFormat feats f

/-- `NumberFormat::<FORMAT>::is_valid` -/
def isValid (feats : Features) (f : Nat) : Bool := formatError feats f == "Success"

/-! ## format_builder.rs

`OptionU8 = Option<NonZeroU8>` is modelled by the byte itself with `0` for `None`
(`NonZeroU8::new` and `unwrap_or_zero` are then both the identity; this is the representation rustc uses).
The 31 `bool` fields are one function `Flag → Bool`; setters and getters are field updates / reads. -/

inductive Flag
  | requiredIntegerDigits | requiredFractionDigits | requiredExponentDigits | requiredMantissaDigits
  | noPositiveMantissaSign | requiredMantissaSign | noExponentNotation | noPositiveExponentSign
  | requiredExponentSign | noExponentWithoutFraction | noSpecial | caseSensitiveSpecial
  | noIntegerLeadingZeros | noFloatLeadingZeros | requiredExponentNotation | caseSensitiveExponent
  | caseSensitiveBasePrefix | caseSensitiveBaseSuffix
  | integerInternalSep | fractionInternalSep | exponentInternalSep
  | integerLeadingSep | fractionLeadingSep | exponentLeadingSep
  | integerTrailingSep | fractionTrailingSep | exponentTrailingSep
  | integerConsecutiveSep | fractionConsecutiveSep | exponentConsecutiveSep
  | specialSep
deriving DecidableEq, Repr

namespace Flag
/-- in the order of `add_flags!` in `build_unchecked` -/
def all : List Flag :=
  [requiredIntegerDigits, requiredFractionDigits, requiredExponentDigits, requiredMantissaDigits,
   noPositiveMantissaSign, requiredMantissaSign, noExponentNotation, noPositiveExponentSign,
   requiredExponentSign, noExponentWithoutFraction, noSpecial, caseSensitiveSpecial,
   noIntegerLeadingZeros, noFloatLeadingZeros, requiredExponentNotation, caseSensitiveExponent,
   caseSensitiveBasePrefix, caseSensitiveBaseSuffix,
   integerInternalSep, fractionInternalSep, exponentInternalSep,
   integerLeadingSep, fractionLeadingSep, exponentLeadingSep,
   integerTrailingSep, fractionTrailingSep, exponentTrailingSep,
   integerConsecutiveSep, fractionConsecutiveSep, exponentConsecutiveSep, specialSep]

/-- the flag constant of `format_flags.rs` (generated) -/
def mask : Flag → Nat
  | requiredIntegerDigits => G.REQUIRED_INTEGER_DIGITS
  | requiredFractionDigits => G.REQUIRED_FRACTION_DIGITS
  | requiredExponentDigits => G.REQUIRED_EXPONENT_DIGITS
  | requiredMantissaDigits => G.REQUIRED_MANTISSA_DIGITS
  | noPositiveMantissaSign => G.NO_POSITIVE_MANTISSA_SIGN
  | requiredMantissaSign => G.REQUIRED_MANTISSA_SIGN
  | noExponentNotation => G.NO_EXPONENT_NOTATION
  | noPositiveExponentSign => G.NO_POSITIVE_EXPONENT_SIGN
  | requiredExponentSign => G.REQUIRED_EXPONENT_SIGN
  | noExponentWithoutFraction => G.NO_EXPONENT_WITHOUT_FRACTION
  | noSpecial => G.NO_SPECIAL
  | caseSensitiveSpecial => G.CASE_SENSITIVE_SPECIAL
  | noIntegerLeadingZeros => G.NO_INTEGER_LEADING_ZEROS
  | noFloatLeadingZeros => G.NO_FLOAT_LEADING_ZEROS
  | requiredExponentNotation => G.REQUIRED_EXPONENT_NOTATION
  | caseSensitiveExponent => G.CASE_SENSITIVE_EXPONENT
  | caseSensitiveBasePrefix => G.CASE_SENSITIVE_BASE_PREFIX
  | caseSensitiveBaseSuffix => G.CASE_SENSITIVE_BASE_SUFFIX
  | integerInternalSep => G.INTEGER_INTERNAL_DIGIT_SEPARATOR
  | fractionInternalSep => G.FRACTION_INTERNAL_DIGIT_SEPARATOR
  | exponentInternalSep => G.EXPONENT_INTERNAL_DIGIT_SEPARATOR
  | integerLeadingSep => G.INTEGER_LEADING_DIGIT_SEPARATOR
  | fractionLeadingSep => G.FRACTION_LEADING_DIGIT_SEPARATOR
  | exponentLeadingSep => G.EXPONENT_LEADING_DIGIT_SEPARATOR
  | integerTrailingSep => G.INTEGER_TRAILING_DIGIT_SEPARATOR
  | fractionTrailingSep => G.FRACTION_TRAILING_DIGIT_SEPARATOR
  | exponentTrailingSep => G.EXPONENT_TRAILING_DIGIT_SEPARATOR
  | integerConsecutiveSep => G.INTEGER_CONSECUTIVE_DIGIT_SEPARATOR
  | fractionConsecutiveSep => G.FRACTION_CONSECUTIVE_DIGIT_SEPARATOR
  | exponentConsecutiveSep => G.EXPONENT_CONSECUTIVE_DIGIT_SEPARATOR
  | specialSep => G.SPECIAL_DIGIT_SEPARATOR

/-- the value `NumberFormatBuilder::new()` gives the field -/
def default : Flag → Bool
  | requiredExponentDigits => true
  | requiredMantissaDigits => true
  | _ => false
end Flag

structure Builder where
  digitSeparator : Nat    -- OptionU8
  basePrefix : Nat        -- OptionU8
  baseSuffix : Nat        -- OptionU8
  mantissaRadix : Nat     -- u8
  exponentBase : Nat      -- OptionU8
  exponentRadix : Nat     -- OptionU8
  flags : Flag → Bool

namespace Builder
/-- `NumberFormatBuilder::new()` -/
def new : Builder :=
  { digitSeparator := 0, basePrefix := 0, baseSuffix := 0, mantissaRadix := 10, exponentBase := 0,
    exponentRadix := 0, flags := Flag.default }

/-- all fields are in the range of their Rust type (`u8`) -/
def InRange (b : Builder) : Prop :=
  b.digitSeparator < 256 ∧ b.basePrefix < 256 ∧ b.baseSuffix < 256 ∧ b.mantissaRadix < 256 ∧
  b.exponentBase < 256 ∧ b.exponentRadix < 256

/-! setters (each Rust setter is `self.field = value; self`) and getters (`self.field`) -/
def setFlag (b : Builder) (fl : Flag) (v : Bool) : Builder :=
  { b with flags := fun x => if x = fl then v else b.flags x }
def getFlag (b : Builder) (fl : Flag) : Bool := b.flags fl
/-- composite setters: `required_digits`, `internal_digit_separator`, `digit_separator_flags`, … call the
single-flag setters one after the other -/
def setFlags (b : Builder) (fls : List Flag) (v : Bool) : Builder := fls.foldl (fun b fl => b.setFlag fl v) b
def setDigitSeparator (b : Builder) (c : Nat) : Builder := { b with digitSeparator := c }
def setBasePrefix (b : Builder) (c : Nat) : Builder := { b with basePrefix := c }
def setBaseSuffix (b : Builder) (c : Nat) : Builder := { b with baseSuffix := c }
def setMantissaRadix (b : Builder) (r : Nat) : Builder := { b with mantissaRadix := r }
def setExponentBase (b : Builder) (r : Nat) : Builder := { b with exponentBase := r }
def setExponentRadix (b : Builder) (r : Nat) : Builder := { b with exponentRadix := r }

/-- the flag words produced by `add_flags!` -/
def flagWord (b : Builder) : Nat :=
  Flag.all.foldl (fun format fl => if b.flags fl then format ||| fl.mask else format) 0

/-- `build_unchecked` -/
def build (b : Builder) : Nat :=
  let format := b.flagWord
  let format :=
    if format &&& G.DIGIT_SEPARATOR_FLAG_MASK != 0 then format ||| (b.digitSeparator <<< G.DIGIT_SEPARATOR_SHIFT)
    else format
  let format := format ||| (b.basePrefix <<< G.BASE_PREFIX_SHIFT)
  let format := format ||| (b.baseSuffix <<< G.BASE_SUFFIX_SHIFT)
  let format := format ||| (b.mantissaRadix <<< G.MANTISSA_RADIX_SHIFT)
  let format := format ||| (b.exponentBase <<< G.EXPONENT_BASE_SHIFT)
  let format := format ||| (b.exponentRadix <<< G.EXPONENT_RADIX_SHIFT)
  format

/-- `build_strict`: the packed value, or a panic carrying the error's name -/
def buildStrict (feats : Features) (b : Builder) : Except String Nat :=
  let packed := b.build
  let e := formatError feats packed
  if e = "Success" then .ok packed else .error e
end Builder

/-- `NumberFormatBuilder::rebuild(format)` (`… as u8` is `% 256`) -/
def rebuild (f : Nat) : Builder :=
  { digitSeparator := digitSeparator f
    basePrefix := basePrefix f
    baseSuffix := baseSuffix f
    mantissaRadix := mantissaRadix f % 256
    exponentBase := exponentBase f % 256
    exponentRadix := exponentRadix f % 256
    flags := fun fl => hasFlag f fl.mask }

end LexVerif.Model.FormatError
