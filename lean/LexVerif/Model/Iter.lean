import LexVerif.Spec.Numeral
import LexVerif.Model.Format
/-!
# Model.Iter — the byte iterators of `lexical-util` (`iterator.rs`, `noskip.rs`, `skip.rs`)

One model for both builds: with cargo feature `format` off every flag getter of `NumberFormat` is a
constant (`not_feature_format.rs`), there is no digit separator and every iterator is the contiguous
no-skip iterator; `Cfg` answers the getters accordingly, so the functions below specialise to
`noskip.rs`.

State = `Bytes` (`slc`, `index`, the three digit counts). The four component iterators
(`integer_iter`, `fraction_iter`, `exponent_iter`, `special_iter`) are *views* of the same `Bytes`
(`&mut` borrow in Rust), so every iterator operation is a function `Comp → Bytes → … × Bytes`.

Conventions (BUILDING.md): unchecked indexing ⇒ `Err.fault`; `panic!/unwrap/unreachable!` ⇒ `Err.panic`;
`debug_assert!` ⇒ `Err.panic` only when `Cfg.debug`. Loops carry explicit fuel; running out of fuel is
`Err.fault "fuel"` (to be proved unreachable in C10).
-/
namespace LexVerif.Model
open LexVerif.Spec (digitVal)

/-- failure results -/
inductive Err where
  | err (kind : String) (idx : Nat)   -- `Error::Kind(idx)`
  | panic (tag : String)
  | fault (tag : String)
deriving Repr, DecidableEq

/-- compile-time configuration: feature set, packed format, debug-assertion build -/
structure Cfg where
  feats : Features
  fmt : Format
  debug : Bool := false
deriving Repr

namespace Cfg
variable (c : Cfg)
/-- flag getter: the packed bit with `format`, the constant of `not_feature_format.rs` without -/
@[inline] def flag (withFormat : Format → Bool) (without : Bool) : Bool :=
  if c.feats.format then withFormat c.fmt else without
def requiredIntegerDigits := c.flag Format.requiredIntegerDigits false
def requiredFractionDigits := c.flag Format.requiredFractionDigits false
def requiredExponentDigits := c.flag Format.requiredExponentDigits true
def requiredMantissaDigits := c.flag Format.requiredMantissaDigits true
def noPositiveMantissaSign := c.flag Format.noPositiveMantissaSign false
def requiredMantissaSign := c.flag Format.requiredMantissaSign false
def noExponentNotation := c.flag Format.noExponentNotation false
def noPositiveExponentSign := c.flag Format.noPositiveExponentSign false
def requiredExponentSign := c.flag Format.requiredExponentSign false
def noExponentWithoutFraction := c.flag Format.noExponentWithoutFraction false
def noSpecial := c.flag Format.noSpecial false
def caseSensitiveSpecial := c.flag Format.caseSensitiveSpecial false
def noFloatLeadingZeros := c.flag Format.noFloatLeadingZeros false
def requiredExponentNotation := c.flag Format.requiredExponentNotation false
def caseSensitiveExponent := c.flag Format.caseSensitiveExponent false
def caseSensitiveBasePrefix := c.flag Format.caseSensitiveBasePrefix false
def caseSensitiveBaseSuffix := c.flag Format.caseSensitiveBaseSuffix false
def specialSep := c.flag Format.specialSep false
def digitSeparator : Nat := if c.feats.format then c.fmt.digitSeparator else 0
def basePrefix : Nat := if c.feats.format then c.fmt.basePrefix else 0
def baseSuffix : Nat := if c.feats.format then c.fmt.baseSuffix else 0
def mantissaRadix : Nat := c.fmt.mantissaRadix
def exponentBase : Nat := c.fmt.exponentBase
def exponentRadix : Nat := c.fmt.exponentRadix
end Cfg

/-- the four digit iterators of `Bytes` -/
inductive Comp where
  | integer | fraction | exponent | special
deriving Repr, DecidableEq

/-- per-component separator flags (internal, leading, trailing, consecutive) -/
structure SepFlags where
  i : Bool
  l : Bool
  t : Bool
  c : Bool
deriving Repr, DecidableEq

def SepFlags.none : SepFlags := ⟨false, false, false, false⟩
def SepFlags.any (f : SepFlags) : Bool := f.i || f.l || f.t || f.c

def Cfg.sepFlags (c : Cfg) : Comp → SepFlags
  | .integer => ⟨c.flag Format.integerInternalSep false, c.flag Format.integerLeadingSep false,
                 c.flag Format.integerTrailingSep false, c.flag Format.integerConsecutiveSep false⟩
  | .fraction => ⟨c.flag Format.fractionInternalSep false, c.flag Format.fractionLeadingSep false,
                  c.flag Format.fractionTrailingSep false, c.flag Format.fractionConsecutiveSep false⟩
  | .exponent => ⟨c.flag Format.exponentInternalSep false, c.flag Format.exponentLeadingSep false,
                  c.flag Format.exponentTrailingSep false, c.flag Format.exponentConsecutiveSep false⟩
  | .special => .none

/-- `Bytes::IS_CONTIGUOUS` (`DIGIT_SEPARATOR == 0`; always true in `noskip.rs`) -/
def Cfg.bytesContiguous (c : Cfg) : Bool := c.digitSeparator = 0

/-- `<component iterator>::IS_CONTIGUOUS` (`FORMAT & mask == 0`) -/
def Cfg.iterContiguous (c : Cfg) : Comp → Bool
  | .special => !c.specialSep
  | k => !(c.sepFlags k).any

/-- `is_digit_separator` -/
def Cfg.isSep (c : Cfg) (x : Nat) : Bool := c.digitSeparator ≠ 0 && x = c.digitSeparator

/-- `is_digit` of *every* skip iterator: `char_is_digit_const(value, format.mantissa_radix())`
(also for the exponent iterator — the `$radix_cb` macro argument is unused). -/
def Cfg.isDigit (c : Cfg) (x : Nat) : Bool := (digitVal c.mantissaRadix x).isSome

/-- `u8::eq_ignore_ascii_case` -/
def lowerAscii (x : Nat) : Nat := if 65 ≤ x ∧ x ≤ 90 then x + 32 else x
def eqIgnoreCase (a b : Nat) : Bool := lowerAscii a = lowerAscii b

/-! ## `Bytes` -/

structure Bytes where
  slc : List Nat
  index : Nat := 0
  ic : Nat := 0     -- integer_count
  fc : Nat := 0     -- fraction_count
  ec : Nat := 0     -- exponent_count
deriving Repr, DecidableEq

namespace Bytes
def new (s : List Nat) : Bytes := { slc := s }
def cursor (b : Bytes) : Nat := b.index
def bufferLength (b : Bytes) : Nat := b.slc.length
def isBufferEmpty (b : Bytes) : Bool := b.index ≥ b.slc.length
/-- `as_slice` (release behaviour; the `debug_assert` is in `stepBy`) -/
def asSlice (b : Bytes) : List Nat := b.slc.drop b.index
/-- `first`: no skipping -/
def first (b : Bytes) : Option Nat := b.slc[b.index]?
def firstIsCased (b : Bytes) (v : Nat) : Bool := b.first == some v
def firstIsUncased (b : Bytes) (v : Nat) : Bool :=
  match b.first with
  | some x => eqIgnoreCase x v
  | none => false
def firstIs (b : Bytes) (v : Nat) (cased : Bool) : Bool :=
  if cased then b.firstIsCased v else b.firstIsUncased v

/-- `Bytes::current_count` -/
def currentCount (c : Cfg) (b : Bytes) : Nat :=
  if c.bytesContiguous then b.index else b.ic + b.fc + b.ec

/-- `<iterator>::current_count` -/
def iterCount (c : Cfg) (k : Comp) (b : Bytes) : Nat :=
  if c.iterContiguous k then b.index
  else match k with
    | .integer => b.ic | .fraction => b.fc | .exponent => b.ec | .special => b.ic

/-- `<iterator>::increment_count` (a no-op in `noskip.rs` and for the special iterator) -/
def incCount (c : Cfg) (k : Comp) (b : Bytes) : Bytes :=
  if !c.feats.format then b
  else match k with
    | .integer => { b with ic := b.ic + 1 }
    | .fraction => { b with fc := b.fc + 1 }
    | .exponent => { b with ec := b.ec + 1 }
    | .special => b

/-- `step_by_unchecked_impl(count, is_contiguous)`; `noskip.rs` has the contiguous asserts only. -/
def stepBy (c : Cfg) (contig : Bool) (n : Nat) (b : Bytes) : Except Err Bytes :=
  if c.debug && b.index > b.slc.length then .error (.panic "as_slice: cursor > len")
  else if c.debug && b.slc.length - b.index < n then .error (.panic "step_by: len < count")
  else if c.debug && !contig && n ≠ 0 && n ≠ 1 then .error (.panic "step_by: count > 1 on skip iterator")
  else if c.debug && !contig && n ≠ 0 && b.slc[b.index]? = some c.fmt.digitSeparator then
    .error (.panic "step_by: on digit separator")
  else .ok { b with index := b.index + n }

/-- `Iter::step_unchecked` -/
def stepUnchecked (c : Cfg) (contig : Bool) (b : Bytes) : Except Err Bytes :=
  if c.debug && b.index ≥ b.slc.length then .error (.panic "step_unchecked: empty") else b.stepBy c contig 1

/-- `byte.step_unchecked()` on the `Bytes` object itself -/
def step (c : Cfg) (b : Bytes) : Except Err Bytes := b.stepUnchecked c c.bytesContiguous
end Bytes

/-! ## The 15 separator predicates -/

inductive Pred where
  | i | l | t | il | it | lt | ilt | ic | lc | tc | ilc | itc | ltc | iltc
deriving Repr, DecidableEq

def Pred.consecutive : Pred → Bool
  | .ic | .lc | .tc | .ilc | .itc | .ltc | .iltc => true
  | _ => false

/-- what `peek` of a component iterator does: `match format.digit_separator_flags() & mask` -/
inductive Skip where
  | noskip
  | pred (p : Pred)
  | unreachable          -- the `_ => unreachable!()` arm: consecutive flag alone
deriving Repr, DecidableEq

def SepFlags.skip : SepFlags → Skip
  | ⟨false, false, false, false⟩ => .noskip
  | ⟨true, false, false, false⟩ => .pred .i
  | ⟨false, true, false, false⟩ => .pred .l
  | ⟨false, false, true, false⟩ => .pred .t
  | ⟨true, true, false, false⟩ => .pred .il
  | ⟨true, false, true, false⟩ => .pred .it
  | ⟨false, true, true, false⟩ => .pred .lt
  | ⟨true, true, true, false⟩ => .pred .ilt
  | ⟨true, false, false, true⟩ => .pred .ic
  | ⟨false, true, false, true⟩ => .pred .lc
  | ⟨false, false, true, true⟩ => .pred .tc
  | ⟨true, true, false, true⟩ => .pred .ilc
  | ⟨true, false, true, true⟩ => .pred .itc
  | ⟨false, true, true, true⟩ => .pred .ltc
  | ⟨true, true, true, true⟩ => .pred .iltc
  | ⟨false, false, false, true⟩ => .unreachable

def Cfg.skip (c : Cfg) : Comp → Skip
  | .special => if c.specialSep then .pred .iltc else .noskip
  | k => (c.sepFlags k).skip

/-- `slc.get(index.wrapping_sub(1))` -/
def getPrev (s : List Nat) (i : Nat) : Option Nat := if i = 0 then none else s[i - 1]?

/-- `indexing!(@prevc)` then `slc.get`: the first non-separator byte strictly before `i`, scanning down -/
def prevcByte (c : Cfg) (s : List Nat) : Nat → Option Nat
  | 0 => none
  | i + 1 =>
    match s[i]? with
    | some x => if c.isSep x then prevcByte c s i else some x
    | none => none

/-- first non-separator byte of a suffix -/
def firstNonSep (c : Cfg) : List Nat → Option Nat
  | [] => none
  | x :: xs => if c.isSep x then firstNonSep c xs else some x

/-- `indexing!(@nextc)` then `slc.get` -/
def nextcByte (c : Cfg) (s : List Nat) (i : Nat) : Option Nat := firstNonSep c (s.drop (i + 1))

/-- the neighbourhood a predicate looks at -/
structure Nbr where
  prev : Option Nat
  next : Option Nat
  prevc : Option Nat
  nextc : Option Nat
deriving Repr, DecidableEq

def nbr (c : Cfg) (s : List Nat) (i : Nat) : Nbr :=
  ⟨getPrev s i, s[i + 1]?, prevcByte c s i, nextcByte c s i⟩

/-! ### switches for proposed repairs of `skip.rs` (default `false` = the code as it is)

* `Fix.itc` — `fixes/C13-sep-itc-accepts-leading.diff`: `is_itc!(@first …)` asks "`prevc` IS a digit" (as `is_it!` does)
  instead of "`prevc` is NOT a digit"; repairs the findings sep-itc-accepts-leading, sep-itc-without-leading-value and
  C10-dbg-sep-itc-without-leading.
* `Fix.ilc` — `fixes/C13-sep-ilc-accepts-trailing.diff`: `is_ilc!(@internal …)` uses `map_or(false, is_digit)` (as
  `is_il!` does) instead of `map_or(true, …)`: a separator at the end of the input is not followed by a digit. -/
namespace Fix
def itc : Bool := true
def ilc : Bool := true
end Fix

/-- `is_x!(@first …)` / `is_x!(@internal …)`, transcribed macro by macro -/
def Pred.holds (c : Cfg) (n : Nbr) (first : Bool) : Pred → Bool
  | .i => if first then n.prev.any c.isDigit && n.next.any c.isDigit else n.next.any c.isDigit
  | .ic => if first then n.prevc.any c.isDigit && n.nextc.any c.isDigit else n.nextc.any c.isDigit
  | .l => if first then n.prev.all (fun x => !c.isDigit x && !c.isSep x) && n.next.all (fun x => !c.isSep x)
          else false
  | .lc => if first then n.prevc.all (fun x => !c.isDigit x) else false
  | .t => if first then n.next.all (fun x => !c.isDigit x && !c.isSep x) && n.prev.all (fun x => !c.isSep x)
          else n.next.all (fun x => !c.isDigit x && !c.isSep x)
  | .tc => n.nextc.all (fun x => !c.isDigit x)
  | .il => if first then
             (if n.prev.any c.isDigit then n.next.any c.isDigit else n.prev.all (fun x => !c.isSep x))
           else n.next.any c.isDigit
  | .ilc => if first then n.nextc.any c.isDigit || n.prevc.all (fun x => !c.isDigit x)
            else (if Fix.ilc then n.nextc.any c.isDigit else n.nextc.all c.isDigit)
  | .it => if first then
             (if n.prev.any c.isDigit then n.next.all (fun x => !c.isSep x)
              else n.next.all (fun x => !c.isDigit x && !c.isSep x))
           else n.next.all (fun x => !c.isSep x)
  | .itc => if first then
              (if Fix.itc then n.prevc.any c.isDigit else n.prevc.any (fun x => !c.isDigit x))
                || n.nextc.all (fun x => !c.isDigit x)
            else true
  | .lt => if first then
             !n.prev.any c.isSep && !n.next.any c.isSep && !(n.prev.any c.isDigit && n.next.any c.isDigit)
           else n.next.all (fun x => !c.isDigit x && !c.isSep x)
  | .ltc => if first then !(n.prevc.any c.isDigit && n.nextc.any c.isDigit)
            else n.nextc.all (fun x => !c.isDigit x)
  | .ilt => if first then !n.next.any c.isSep && !n.prev.any c.isSep else n.next.all (fun x => !c.isSep x)
  | .iltc => true

/-- number of leading separator bytes -/
def countSeps (c : Cfg) : List Nat → Nat
  | [] => 0
  | x :: xs => if c.isSep x then countSeps c xs + 1 else 0

/-- `peek_1!` / `peek_n!` for predicate `p`; `cnt` is the iterator's `current_count()` -/
def peekPred (c : Cfg) (p : Pred) (cnt : Nat) (b : Bytes) : Option Nat × Bytes :=
  match b.slc[b.index]? with
  | none => (none, b)
  | some v =>
    if c.isSep v then
      if p.holds c (nbr c b.slc b.index) (cnt == 0) then
        let idx := if p.consecutive then b.index + 1 + countSeps c (b.slc.drop (b.index + 1)) else b.index + 1
        (b.slc[idx]?, { b with index := idx })
      else (some v, b)
    else (some v, b)

/-- `DigitsIter::peek` of the component iterator `k` (may advance `index` over separators) -/
def peek (c : Cfg) (k : Comp) (b : Bytes) : Except Err (Option Nat × Bytes) :=
  match c.skip k with
  | .noskip => .ok (b.slc[b.index]?, b)
  | .pred p => .ok (peekPred c p (b.iterCount c k) b)
  | .unreachable => .error (.panic "unreachable: consecutive digit separator flag alone")

/-- `<iterator>::step_unchecked` -/
def iterStep (c : Cfg) (k : Comp) (b : Bytes) : Except Err Bytes := b.stepUnchecked c (c.iterContiguous k)

/-- `is_consumed`: `is_buffer_empty` in `noskip.rs`, `peek().is_none()` in `skip.rs` (state may advance) -/
def isConsumed (c : Cfg) (k : Comp) (b : Bytes) : Except Err (Bool × Bytes) :=
  if !c.feats.format then .ok (b.isBufferEmpty, b)
  else do
    let (v, b) ← peek c k b
    pure (v.isNone, b)

/-- `read_if_value_cased` -/
def readIfValueCased (c : Cfg) (k : Comp) (v : Nat) (b : Bytes) : Except Err (Bool × Bytes) := do
  let (x, b) ← peek c k b
  if x == some v then
    let b ← iterStep c k b
    pure (true, b)
  else pure (false, b)

/-- `read_if_value_uncased` = `read_if(|x| x.eq_ignore_ascii_case(&value))` -/
def readIfValueUncased (c : Cfg) (k : Comp) (v : Nat) (b : Bytes) : Except Err (Bool × Bytes) := do
  let (x, b) ← peek c k b
  match x with
  | some y =>
    if eqIgnoreCase y v then
      let b ← iterStep c k b
      pure (true, b)
    else pure (false, b)
  | none => pure (false, b)

def readIfValue (c : Cfg) (k : Comp) (v : Nat) (cased : Bool) (b : Bytes) : Except Err (Bool × Bytes) :=
  if cased then readIfValueCased c k v b else readIfValueUncased c k v b

/-- loop of `skip_zeros` -/
def skipZerosLoop (c : Cfg) (k : Comp) : Nat → Bytes → Except Err Bytes
  | 0, _ => .error (.fault "fuel")
  | fuel + 1, b => do
    let (hit, b) ← readIfValueCased c k 48 b
    if hit then skipZerosLoop c k fuel (b.incCount c k) else pure b

/-- `skip_zeros`: returns the number of zeros skipped (difference of `current_count`) -/
def skipZeros (c : Cfg) (k : Comp) (b : Bytes) : Except Err (Nat × Bytes) := do
  let start := b.iterCount c k
  let b' ← skipZerosLoop c k (b.slc.length + 1) b
  pure (b'.iterCount c k - start, b')

/-- `Iterator::next` of a skip iterator (used by `starts_with*` on the special iterator) -/
def iterNext (c : Cfg) (k : Comp) (b : Bytes) : Except Err (Option Nat × Bytes) := do
  let (v, b) ← peek c k b
  match v with
  | none => pure (none, b)
  | some x =>
    let b := { b with index := b.index + 1 }
    let b := if c.feats.format && !c.iterContiguous k && c.isDigit x then b.incCount c k else b
    pure (some x, b)

/-- `peek_u64` as the 8 raw bytes (contiguous iterators only) -/
def peekBytes (c : Cfg) (k : Comp) (n : Nat) (b : Bytes) : Option (List Nat) :=
  if c.iterContiguous k && b.slc.length - b.index ≥ n && b.index ≤ b.slc.length then some ((b.slc.drop b.index).take n)
  else none

/-- `take_n` (contiguous iterators only): the sub-buffer `slc[..end]` positioned at the cursor, and the advanced iterator -/
def takeN (c : Cfg) (k : Comp) (n : Nat) (b : Bytes) : Option (Bytes × Bytes) :=
  if c.iterContiguous k then
    let e := min b.slc.length (n + b.index)
    some ({ slc := b.slc.take e, index := b.index }, { b with index := e })
  else none

end LexVerif.Model
