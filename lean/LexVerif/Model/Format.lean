/-!
# Model.Format — the packed 128-bit number format as a record

Bit positions mirror `lexical-util/src/format_flags.rs`; `Gen/FormatFlags.lean` (regenerated from the
compiled crate on every run) restates them and `Props/C18.lean` proves the two agree.
-/
namespace LexVerif.Model

structure Format where
  raw : Nat
deriving Repr, DecidableEq

namespace Format
def bit (f : Format) (i : Nat) : Bool := f.raw / 2 ^ i % 2 = 1
def byteAt (f : Format) (shift : Nat) : Nat := f.raw / 2 ^ shift % 256

def requiredIntegerDigits (f : Format) := f.bit 0
def requiredFractionDigits (f : Format) := f.bit 1
def requiredExponentDigits (f : Format) := f.bit 2
def requiredMantissaDigits (f : Format) := f.bit 3
def noPositiveMantissaSign (f : Format) := f.bit 4
def requiredMantissaSign (f : Format) := f.bit 5
def noExponentNotation (f : Format) := f.bit 6
def noPositiveExponentSign (f : Format) := f.bit 7
def requiredExponentSign (f : Format) := f.bit 8
def noExponentWithoutFraction (f : Format) := f.bit 9
def noSpecial (f : Format) := f.bit 10
def caseSensitiveSpecial (f : Format) := f.bit 11
def noIntegerLeadingZeros (f : Format) := f.bit 12
def noFloatLeadingZeros (f : Format) := f.bit 13
def requiredExponentNotation (f : Format) := f.bit 14
def caseSensitiveExponent (f : Format) := f.bit 15
def caseSensitiveBasePrefix (f : Format) := f.bit 16
def caseSensitiveBaseSuffix (f : Format) := f.bit 17
def integerInternalSep (f : Format) := f.bit 32
def fractionInternalSep (f : Format) := f.bit 33
def exponentInternalSep (f : Format) := f.bit 34
def integerLeadingSep (f : Format) := f.bit 35
def fractionLeadingSep (f : Format) := f.bit 36
def exponentLeadingSep (f : Format) := f.bit 37
def integerTrailingSep (f : Format) := f.bit 38
def fractionTrailingSep (f : Format) := f.bit 39
def exponentTrailingSep (f : Format) := f.bit 40
def integerConsecutiveSep (f : Format) := f.bit 41
def fractionConsecutiveSep (f : Format) := f.bit 42
def exponentConsecutiveSep (f : Format) := f.bit 43
def specialSep (f : Format) := f.bit 44
def digitSeparator (f : Format) := f.byteAt 64
def basePrefix (f : Format) := f.byteAt 88
def baseSuffix (f : Format) := f.byteAt 96
def mantissaRadix (f : Format) := f.byteAt 104
def exponentBaseRaw (f : Format) := f.byteAt 112
def exponentRadixRaw (f : Format) := f.byteAt 120
/-- `exponent_base`: 0 means "same as the mantissa radix" -/
def exponentBase (f : Format) := if f.exponentBaseRaw = 0 then f.mantissaRadix else f.exponentBaseRaw
def exponentRadix (f : Format) := if f.exponentRadixRaw = 0 then f.mantissaRadix else f.exponentRadixRaw
def flagBits (f : Format) : Nat := f.raw % 2 ^ 64
def standard : Format := ⟨12 + 10 * 2 ^ 104⟩
end Format

/-- Cargo feature set the crate was compiled with. -/
structure Features where
  compact : Bool := false
  powerOfTwo : Bool := false
  radix : Bool := false
  format : Bool := false
  std : Bool := true
deriving Repr, DecidableEq

def Features.ofString (s : String) : Features :=
  let has (k : String) := (s.splitOn "+").contains k
  { compact := has "compact", powerOfTwo := has "power-of-two" || has "radix", radix := has "radix",
    format := has "format", std := !has "nostd" }

end LexVerif.Model
