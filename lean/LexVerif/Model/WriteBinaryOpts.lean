import LexVerif.Model.WriteBinary
/-!
# Model.WriteBinaryOpts — `binary.rs` / `hex.rs` under digit options (`max_significant_digits`, round mode)

`binary::truncate_and_round` as the code is NOW (/repo 2a1d05a): it keeps `max_digits · bits_per_digit` mantissa BITS
counted from the top bit — independently of where the digit boundaries are (`(exp + bits − 1) mod bits_per_digit`) —
rounds half-even on bits, returns the SHIFTED mantissa together with the bit count of the unshifted one (+1 on carry),
and the layout functions then write `shifted << calculate_shl(exp)` with the ORIGINAL exponent.
`layoutMB` is `WriteBinary.layoutME` with the bit count as a parameter (`layoutME_eq`); `min_significant_digits`,
`trim_floats` and the notation flags are handled by the layouts exactly as in `Model.WriteBinary`.

`pow2DigitFix` selects the repaired `truncate_and_round` of `fixes/C14-pow2-digit-options.diff` (default: current code).
-/
namespace LexVerif.Model.WriteBinary
open LexVerif.Spec LexVerif.Model
open LexVerif.Model.Dragonbox (FTy i32)

/-- which `truncate_and_round` the code under test has: `false` = /repo HEAD, `true` = after
`fixes/C14-pow2-digit-options.diff` -/
def pow2DigitFix : Bool := true

/-- `usize::saturating_mul` -/
def satMul (a b : Nat) : Nat := min (a * b) (2 ^ 64 - 1)

/-- `binary::truncate_and_round(mantissa, radix, options)` → `(mantissa', mantissa_bits)`; `w` = width of the
unsigned type (for `leading_zeros`) -/
def truncateAndRoundCur (w m r : Nat) (o : WOpts) : Nat × Nat :=
  let mb := significantBits m
  let bpd := (fastLog2 r).toNat
  let maxBits := match o.maxDigits with | some d => satMul d bpd | none => 2 ^ 64 - 1
  if maxBits < mb then
    let shr := mb - maxBits
    let sh := m >>> shr
    if o.truncate then (sh, mb)
    else
      let low := m % 2 ^ shr
      let halfway := 2 ^ (shr - 1)
      let up : Nat := if low > halfway ∨ (sh % 2 = 1 ∧ low = halfway) then 1 else 0
      let sh' := (sh + up) % 2 ^ w
      let initial := w - significantBits sh
      let final := w - significantBits sh'
      (sh', mb + (initial - final))
  else (m, mb)

/-- the repaired version (`fixes/C14-pow2-digit-options.diff`): the bits of `max_digits` DIGITS are kept — the leading
digit only holds `(sci_exp mod bits_per_digit) + 1` bits — and the mantissa is shifted back so that it still belongs to
the exponent `exp` -/
def truncateAndRoundFixed (w m r : Nat) (exp : Int) (o : WOpts) : Nat × Nat :=
  let mb := significantBits m
  let bpd := (fastLog2 r).toNat
  let sci : Int := exp + mb - 1
  let unused := bpd - 1 - (sci % bpd).toNat
  let maxBits := match o.maxDigits with | some d => satMul d bpd - unused | none => 2 ^ 64 - 1
  if maxBits < mb then
    let shr := mb - maxBits
    let sh := m >>> shr
    if o.truncate then (sh <<< shr, mb)
    else
      let low := m % 2 ^ shr
      let halfway := 2 ^ (shr - 1)
      let up : Nat := if low > halfway ∨ (sh % 2 = 1 ∧ low = halfway) then 1 else 0
      let sh' := (sh + up) % 2 ^ w
      let initial := w - significantBits sh
      let final := w - significantBits sh'
      ((sh' <<< shr) % 2 ^ w, mb + (initial - final))
  else (m, mb)

def truncateAndRoundSel (fixed : Bool) (w m r : Nat) (exp : Int) (o : WOpts) : Nat × Nat :=
  if fixed then truncateAndRoundFixed w m r exp o else truncateAndRoundCur w m r o

def truncateAndRoundBits (w m r : Nat) (exp : Int) (o : WOpts) : Nat × Nat :=
  truncateAndRoundSel pow2DigitFix w m r exp o

/-- `binary::write_float` / `hex::write_float` after `truncate_and_round`: `WriteBinary.layoutME` with the bit count
as a parameter -/
def layoutMB (fmt : Format) (o : WOpts) (w m mb : Nat) (exp : Int) : Layout :=
  let r := fmt.mantissaRadix
  let b := fmt.exponentBase
  let sciExp : Int := if m = 0 then 0 else i32 (i32 (exp + mb) - 1)
  let minExp := o.negBreak.getD (-5)
  let maxExp := o.posBreak.getD 9
  let outside := sciExp < minExp ∨ sciExp > maxExp
  let require := fmt.requiredExponentNotation ∨ outside
  if ¬ fmt.noExponentNotation ∧ require then
    let scaled := if r ≠ b then scaleSciExpHex sciExp (fastLog2 r) (fastLog2 b) else scaleSciExp sciExp (fastLog2 r)
    sciLayout fmt o w r m exp scaled
  else if sciExp < 0 then negLayout o w r m exp sciExp
  else posLayout o w r m exp sciExp

theorem layoutME_eq (fmt : Format) (o : WOpts) (w m : Nat) (exp : Int) :
    layoutME fmt o w m exp = layoutMB fmt o w m (significantBits m) exp := rfl

/-- the writers under digit options, on `(mantissa, exponent)`; `fixed` selects the `truncate_and_round` -/
def layoutMEOWith (fixed : Bool) (fmt : Format) (o : WOpts) (w m : Nat) (exp : Int) : Layout :=
  let tr := truncateAndRoundSel fixed w m fmt.mantissaRadix exp o
  layoutMB fmt o w tr.1 tr.2 exp

def layoutBitsOWith (fixed : Bool) (fmt : Format) (o : WOpts) (t : FTy) (bits : Nat) : Layout :=
  layoutMEOWith fixed fmt o t.bits (t.mantissa bits) (t.exponent bits)

/-- `WriteFloat::write_float` for a power-of-two radix with any digit options. `none` = PANIC (disabled special). -/
def writeFloatOWith (fixed : Bool) (fmt : Format) (feats : Features) (o : WOpts) (t : FTy) (bits : Nat) :
    Option (List Nat) :=
  let neg := bits &&& t.signMask ≠ 0
  let mag := bits &&& (t.signMask - 1)
  let isSpecial := mag &&& t.exponentMask = t.exponentMask
  let isNaN := isSpecial ∧ mag &&& t.mantissaMask ≠ 0
  let sign : List Nat :=
    if neg ∧ ¬ isNaN then [45] else if feats.format ∧ fmt.requiredMantissaSign then [43] else []
  if isNaN then o.nan.map (sign ++ ·)
  else if isSpecial then o.inf.map (sign ++ ·)
  else some (sign ++ render fmt feats o (layoutBitsOWith fixed fmt o t mag))

/-- the code under test -/
def layoutMEO (fmt : Format) (o : WOpts) (w m : Nat) (exp : Int) : Layout := layoutMEOWith pow2DigitFix fmt o w m exp
def writeFloatO (fmt : Format) (feats : Features) (o : WOpts) (t : FTy) (bits : Nat) : Option (List Nat) :=
  writeFloatOWith pow2DigitFix fmt feats o t bits

end LexVerif.Model.WriteBinary
