import LexVerif.Model.Iter
import LexVerif.Spec.StdFloat
/-!
# Model.ParseNumber — the float *syntax* layer of `lexical-parse-float/src/parse.rs`

`parse_mantissa_sign`, `parse_exponent_sign` (`parse_sign!`), `parse_number` (complete), `parse_digits`,
`parse_8digits`, `parse_u64_digits`, `parse_complete_number`, the special-value parsers, `starts_with*`,
the `parse_number!` fall-back, `parse_complete` / `parse_partial` up to the `Number`, `check_radix!` and
the validation of the API entry points (`api.rs`). The numeric conversion of a `Number` is *not* modelled
here: `parseFloatModel` uses the exact arithmetic of `Spec` (`litBits`).

Everything follows the Rust control flow statement by statement, including behaviour that looks wrong.
(Since /repo 7e8a135 `try_parse_8digits` counts the 8 digits it steps over with the `format` feature, and since
12a2453 a contiguous component iterator's `current_count()` is the cursor: `tryParse8`, `Bytes.iterCount`.)
-/
namespace LexVerif.Model
open LexVerif.Spec (POpts Fmt litBits FloatLit toHex toDigits)

def pow2_64 : Nat := 18446744073709551616

/-- `Number` of `number.rs`; `explicitExp` is extra (the `explicit_exponent` local, needed for the exact value) -/
structure Number where
  mantissa : Nat
  exponent : Int
  isNegative : Bool
  manyDigits : Bool
  integer : List Nat
  fraction : Option (List Nat)
  explicitExp : Int := 0
deriving Repr, DecidableEq

/-! ## small dispatch functions -/

/-- `shared::log2` -/
def log2Radix (r : Nat) : Int :=
  if r = 2 then 1 else if r = 4 then 2 else if r = 8 then 3 else if r = 16 then 4 else if r = 32 then 5 else 1

/-- `u64_step(radix)` = `min_step(radix, 64, false)` of `lexical-util/src/step.rs` (per feature set) -/
def u64StepTable : List Nat :=
  [64, 40, 32, 27, 24, 22, 21, 20, 19, 18, 17, 17, 16, 16, 16, 15, 15, 15, 14, 14, 14, 14, 13, 13, 13, 13, 13,
   13, 13, 12, 12, 12, 12, 12, 12]

def u64Step (feats : Features) (r : Nat) : Nat :=
  if feats.radix then (if 2 ≤ r ∧ r ≤ 36 then u64StepTable.getD (r - 2) 1 else 1)
  else if feats.powerOfTwo then
    (if r = 2 then 64 else if r = 4 then 32 else if r = 8 then 21 else if r = 10 then 19
     else if r = 16 then 16 else if r = 32 then 12 else 1)
  else 19

/-- `char_to_valid_digit_const` -/
def charToValidDigit (ch r : Nat) : Nat :=
  if r ≤ 10 then (ch + 256 - 48) % 256
  else if 48 ≤ ch ∧ ch ≤ 57 then ch - 48
  else if 65 ≤ ch ∧ ch ≤ 90 then ch - 55
  else if 97 ≤ ch ∧ ch ≤ 122 then ch - 87
  else 255

/-- `char_to_digit_const` -/
def charToDigit (ch r : Nat) : Option Nat :=
  let d := charToValidDigit ch r
  if d < r then some d else none

/-! ## signs -/

/-- `parse_sign!` with `is_signed = true` -/
def parseSign (c : Cfg) (noPositive required : Bool) (invalidPositive missing : String) (b : Bytes) :
    Except Err (Bool × Bytes) :=
  match b.first with
  | some 43 =>
    if !noPositive then do
      let b ← b.step c
      pure (false, b)
    else .error (.err invalidPositive b.index)
  | some 45 => do
    let b ← b.step c
    pure (true, b)
  | _ => if required then .error (.err missing b.index) else pure (false, b)

def parseMantissaSign (c : Cfg) (b : Bytes) : Except Err (Bool × Bytes) :=
  parseSign c c.noPositiveMantissaSign c.requiredMantissaSign "InvalidPositiveSign" "MissingSign" b

def parseExponentSign (c : Cfg) (b : Bytes) : Except Err (Bool × Bytes) :=
  parseSign c c.noPositiveExponentSign c.requiredExponentSign "InvalidPositiveExponentSign" "MissingExponentSign" b

/-! ## digits -/

/-- `parse_digits`: the digit values handed to the callback, and the iterator state afterwards -/
def parseDigitsLoop (c : Cfg) (k : Comp) (radix : Nat) : Nat → Bytes → Except Err (List Nat × Bytes)
  | 0, _ => .error (.fault "fuel")
  | fuel + 1, b => do
    let (v, b) ← peek c k b
    match v with
    | none => pure ([], b)
    | some ch =>
      match charToDigit ch radix with
      | none => pure ([], b)
      | some d => do
        let b ← iterStep c k b
        let (ds, b) ← parseDigitsLoop c k radix fuel (b.incCount c k)
        pure (d :: ds, b)

def parseDigits (c : Cfg) (k : Comp) (radix : Nat) (b : Bytes) : Except Err (List Nat × Bytes) :=
  parseDigitsLoop c k radix (b.slc.length + 1) b

/-- mantissa callback: `mantissa.wrapping_mul(radix).wrapping_add(digit)` -/
def foldMantissa (radix : Nat) (m : Nat) (ds : List Nat) : Nat :=
  ds.foldl (fun acc d => (acc * radix + d) % pow2_64) m

/-- exponent callback with the saturation at `0x10000000` -/
def foldExponent (radix : Nat) (e : Nat) (ds : List Nat) : Nat :=
  ds.foldl (fun acc d => if acc < 0x10000000 then acc * radix + d else acc) e

/-- `is_8digits` (bytewise form of the SWAR test) -/
def is8Digits (radix : Nat) (bs : List Nat) : Bool := bs.all fun x => 48 ≤ x && x < 48 + radix

/-- value of `algorithm::parse_8digits` on 8 digit bytes (Horner) -/
def val8Digits (radix : Nat) (bs : List Nat) : Nat := bs.foldl (fun acc x => acc * radix + (x - 48)) 0

/-- `algorithm::try_parse_8digits::<u64, _, FORMAT>` -/
def tryParse8 (c : Cfg) (k : Comp) (b : Bytes) : Except Err (Option Nat × Bytes) :=
  if c.debug && c.mantissaRadix > 10 then .error (.panic "try_parse_8digits: radix > 10")
  else if c.debug && !c.iterContiguous k then .error (.panic "try_parse_8digits: not contiguous")
  else
    match peekBytes c k 8 b with
    | none => pure (none, b)
    | some bs =>
      if is8Digits c.mantissaRadix bs then do
        let b ← b.stepBy c (c.iterContiguous k) 8
        -- `if cfg!(feature = "format") { for _ in 0..8 { iter.increment_count(); } }`
        let b := (List.range 8).foldl (fun b _ => b.incCount c k) b
        pure (some (val8Digits c.mantissaRadix bs), b)
      else pure (none, b)

/-- `can_try_parse_multidigit!` -/
def canMultidigit (c : Cfg) (k : Comp) : Bool :=
  c.iterContiguous k && (!c.feats.powerOfTwo || c.mantissaRadix ≤ 10)

/-- `format.radix8()` as used (`as u64` of a wrapping `u32` product) -/
def radix8 (r : Nat) : Nat :=
  let r2 := r * r % 2 ^ 32
  let r4 := r2 * r2 % 2 ^ 32
  r4 * r4 % 2 ^ 32

def parse8Loop (c : Cfg) (k : Comp) : Nat → Bytes → Nat → Except Err (Nat × Bytes)
  | 0, _, _ => .error (.fault "fuel")
  | fuel + 1, b, m => do
    let (v, b) ← tryParse8 c k b
    match v with
    | some x => parse8Loop c k fuel b ((m * radix8 c.mantissaRadix + x) % pow2_64)
    | none => pure (m, b)

/-- `parse_8digits` (absent with `compact`) -/
def parse8Digits (c : Cfg) (k : Comp) (b : Bytes) (m : Nat) : Except Err (Nat × Bytes) :=
  if c.feats.compact then pure (m, b)
  else if canMultidigit c k then
    if c.debug && c.mantissaRadix ≥ 16 then .error (.panic "parse_8digits: radix >= 16")
    else parse8Loop c k (b.slc.length + 1) b m
  else pure (m, b)

/-- 8-digit part of `parse_u64_digits`: `while *step > 8 { … }` -/
def u64Loop8 (c : Cfg) (k : Comp) : Nat → Bytes → Nat → Nat → Except Err (Bytes × Nat × Nat)
  | 0, _, _, _ => .error (.fault "fuel")
  | fuel + 1, b, m, step =>
    if step > 8 then do
      let (v, b) ← tryParse8 c k b
      match v with
      | some x => u64Loop8 c k fuel b ((m * radix8 c.mantissaRadix + x) % pow2_64) (step - 8)
      | none => pure (b, m, step)
    else pure (b, m, step)

/-- single-digit part of `parse_u64_digits` (`*mantissa * radix + digit` is overflow-checked in debug builds) -/
def u64Loop1 (c : Cfg) (k : Comp) : Nat → Bytes → Nat → Nat → Except Err (Bytes × Nat × Nat)
  | 0, _, _, _ => .error (.fault "fuel")
  | fuel + 1, b, m, step => do
    let (v, b) ← peek c k b
    match v with
    | none => pure (b, m, step)
    | some ch =>
      if step > 0 then
        let d := charToValidDigit ch c.mantissaRadix
        let m' := m * c.mantissaRadix + d
        if c.debug && m' ≥ pow2_64 then .error (.panic "parse_u64_digits: overflow")
        else do
          let b ← iterStep c k b
          u64Loop1 c k fuel (b.incCount c k) (m' % pow2_64) (step - 1)
      else pure (b, m, step)

/-- `parse_u64_digits` -/
def parseU64Digits (c : Cfg) (k : Comp) (b : Bytes) (m step : Nat) : Except Err (Bytes × Nat × Nat) := do
  let (b, m, step) ←
    if !c.feats.compact && canMultidigit c k then
      (if c.debug && c.mantissaRadix ≥ 16 then .error (.panic "parse_u64_digits: radix >= 16")
       else u64Loop8 c k (b.slc.length + 1) b m step)
    else pure (b, m, step)
  u64Loop1 c k (b.slc.length + 1) b m step

/-! ## `parse_number`, phase by phase -/

/-- SWITCH for the open finding C12-base-prefix-swallows-leading-zero (and its views C08/C11/C15-…).
`false` (default) = `parse_number` of the current /repo: a leading `0` is consumed as the start of a base prefix and
`is_prefix = true` even when the prefix character does not follow.
`true` = /repo with `fixes/C12-base-prefix-swallows-leading-zero.diff` applied: the cursor in front of the `0` is
remembered, `is_prefix = true` only when the prefix character follows, otherwise `iter.set_cursor(prefix_start)`.
Flip it when the repair is committed in /repo (the theorems that must change then are listed in `Props/C12Prefix.lean`). -/
def prefixRepair : Bool := false

/-- base-prefix handling (`format` only). Returns `is_prefix` and the advanced `Bytes`. -/
def prefixPhase (c : Cfg) (b : Bytes) : Except Err (Bool × Bytes) :=
  if c.feats.format && c.basePrefix ≠ 0 then do
    let (zero, b1) ← readIfValueCased c .integer 48 b
    if zero then
      let (hit, b2) ← readIfValue c .integer c.basePrefix c.caseSensitiveBasePrefix b1
      if prefixRepair then
        -- repaired: `if read_if_value(prefix) { is_prefix = true; … } else { unsafe { iter.set_cursor(prefix_start) } }`
        if hit then
          if b2.isBufferEmpty && c.requiredIntegerDigits then .error (.err "EmptyInteger" b2.index) else pure (true, b2)
        else if b.index ≤ b2.slc.length then pure (false, { b2 with index := b.index })
        else if c.debug then .error (.panic "set_cursor: index > buffer_length") else .error (.fault "set_cursor")
      else
        if hit && b2.isBufferEmpty && c.requiredIntegerDigits then .error (.err "EmptyInteger" b2.index)
        else pure (true, b2)
    else pure (false, b1)
  else pure (false, b)

/-- `start.as_slice().get_unchecked(..n)` with its `debug_assert` -/
def sliceTo (c : Cfg) (start : Bytes) (n : Nat) (tag : String) : Except Err (List Nat) :=
  if n ≤ start.asSlice.length then pure (start.asSlice.take n)
  else if c.debug then .error (.panic tag) else .error (.fault tag)

/-- scaling of the implicit exponent for mixed bases -/
def scaleExponent (c : Cfg) (implicit : Int) : Except Err Int :=
  if c.mantissaRadix = c.exponentBase then pure implicit
  else
    let bpd := log2Radix c.mantissaRadix
    let bpb := log2Radix c.exponentBase
    if c.debug && bpd % bpb ≠ 0 then .error (.panic "exponent must be a power of base")
    else pure (Int.tdiv (implicit * bpd) bpb)

structure IntPart where
  isPrefix : Bool
  start : Bytes
  byte : Bytes
  mantissa : Nat
  nDigits : Nat
  integerDigits : List Nat

def integerPhase (c : Cfg) (b : Bytes) : Except Err IntPart := do
  let (isPrefix, byte) ← prefixPhase c b
  let start := byte
  let (mantissa, byte) ← parse8Digits c .integer byte 0
  let (ds, byte) ← parseDigits c .integer c.mantissaRadix byte
  let mantissa := foldMantissa c.mantissaRadix mantissa ds
  let nDigits := byte.currentCount c - start.currentCount c
  if c.feats.format && c.requiredIntegerDigits && nDigits = 0 then .error (.err "EmptyInteger" byte.index)
  else
    let bDigits := if c.feats.format && !c.iterContiguous .integer then byte.index - start.index else nDigits
    let integerDigits ← sliceTo c start bDigits "integer get_unchecked(..b_digits)"
    if c.feats.format && !isPrefix && c.noFloatLeadingZeros
        && integerDigits.length > 1 && integerDigits.head? = some 48 then
      .error (.err "InvalidLeadingZeros" start.index)
    else pure ⟨isPrefix, start, byte, mantissa, nDigits, integerDigits⟩

structure FracPart where
  byte : Bytes
  mantissa : Nat
  nAfterDot : Nat
  exponent : Int
  fraction : Option (List Nat)
  hasDecimal : Bool

def fractionPhase (c : Cfg) (o : POpts) (byte : Bytes) (mantissa : Nat) : Except Err FracPart :=
  if byte.firstIsCased o.dp then do
    let byte ← byte.step c
    let before := byte
    let (mantissa, byte) ← parse8Digits c .fraction byte mantissa
    let (ds, byte) ← parseDigits c .fraction c.mantissaRadix byte
    let mantissa := foldMantissa c.mantissaRadix mantissa ds
    let nAfterDot := byte.currentCount c - before.currentCount c
    let bAfterDot := if c.feats.format && !c.iterContiguous .fraction then byte.index - before.index else nAfterDot
    let fractionDigits ← sliceTo c before bAfterDot "fraction get_unchecked(..b_after_dot)"
    let exponent ← scaleExponent c (-(nAfterDot : Int))
    if c.feats.format && c.requiredFractionDigits && nAfterDot = 0 then .error (.err "EmptyFraction" byte.index)
    else pure ⟨byte, mantissa, nAfterDot, exponent, some fractionDigits, true⟩
  else pure ⟨byte, mantissa, 0, 0, none, false⟩

structure ExpPart where
  byte : Bytes
  explicit : Int
  exponent : Int

def exponentPhase (c : Cfg) (hasExponent : Bool) (byte : Bytes) (fraction : Option (List Nat)) (exponent : Int) :
    Except Err ExpPart :=
  if hasExponent then do
    let byte ← byte.step c
    if c.feats.format && c.noExponentNotation then .error (.err "InvalidExponent" (byte.index - 1))
    else if c.feats.format && c.noExponentWithoutFraction && fraction.isNone then
      .error (.err "ExponentWithoutFraction" (byte.index - 1))
    else
      let (negExp, byte) ← parseExponentSign c byte
      let before := byte.currentCount c
      let (ds, byte) ← parseDigits c .exponent c.exponentRadix byte
      let mag := foldExponent c.exponentRadix 0 ds
      if c.requiredExponentDigits && byte.currentCount c - before = 0 then .error (.err "EmptyExponent" byte.index)
      else
        let explicit : Int := if negExp then -(mag : Int) else (mag : Int)
        pure ⟨byte, explicit, exponent + explicit⟩
  else if c.feats.format && c.requiredExponentNotation then .error (.err "MissingExponent" byte.index)
  else pure ⟨byte, 0, exponent⟩

/-- base-suffix handling (`format` only) -/
def suffixPhase (c : Cfg) (byte : Bytes) : Except Err Bytes :=
  if c.feats.format && c.baseSuffix ≠ 0 && byte.firstIs c.baseSuffix c.caseSensitiveBaseSuffix then byte.step c
  else pure byte

/-- the re-parse when more than `step` digits were seen -/
def manyDigitsPhase (c : Cfg) (o : POpts) (neg : Bool) (ip : IntPart) (fp : FracPart) (ep : ExpPart)
    (nDigits step : Nat) (exponent0 : Int) (endIdx : Nat) : Except Err (Number × Nat) := do
  let nd := nDigits - step
  let (zi, zeros) ← skipZeros c .integer ip.start
  let nd := nd - zi
  let zeros ← if zeros.firstIsCased o.dp then zeros.step c else pure zeros
  let (zf, _) ← skipZeros c .fraction zeros
  let nd := nd - zf
  if nd > 0 then
    let integer := Bytes.new ip.integerDigits
    let (_, integer) ← skipZeros c .integer integer
    let (integer, mantissa, step) ← parseU64Digits c .integer integer 0 step
    let (implicit, mantissa) : Int × Nat ←
      if step = 0 || (c.feats.format && !c.bytesContiguous && fp.fraction.isNone) then
        pure ((ip.nDigits : Int) - (integer.currentCount c : Int), mantissa)
      else
        match fp.fraction with
        | none => .error (.panic "fraction_digits.unwrap()")
        | some fd => do
          let fraction := Bytes.new fd
          let fraction ← if mantissa = 0 then (do let (_, f) ← skipZeros c .fraction fraction; pure f) else pure fraction
          let (fraction, mantissa, _) ← parseU64Digits c .fraction fraction mantissa step
          pure (-(fraction.currentCount c : Int), mantissa)
    let exponent ← scaleExponent c implicit
    pure (⟨mantissa, exponent + ep.explicit, neg, true, ip.integerDigits, fp.fraction, ep.explicit⟩, endIdx)
  else
    pure (⟨fp.mantissa, exponent0, neg, false, ip.integerDigits, fp.fraction, ep.explicit⟩, endIdx)

/-- `parse_number::<FORMAT, IS_PARTIAL>` -/
def parseNumber (c : Cfg) (isPartial : Bool) (o : POpts) (b : Bytes) (neg : Bool) (formatValid : Bool := true) :
    Except Err (Number × Nat) := do
  if c.debug && !formatValid then .error (.panic "debug_assert format.is_valid()")
  else if c.debug && b.isBufferEmpty then .error (.panic "debug_assert !is_buffer_empty()")
  else
    let ip ← integerPhase c b
    let fp ← fractionPhase c o ip.byte ip.mantissa
    let byte := fp.byte
    let hasExponent := byte.firstIs o.exp (c.caseSensitiveExponent && c.feats.format)
    let nDigits := ip.nDigits + fp.nAfterDot
    if c.requiredMantissaDigits && (nDigits = 0 || (c.feats.format && byte.currentCount c = 0)) then
      let (anyv, _) ← peek c .integer ip.start
      if fp.hasDecimal || hasExponent || anyv.isNone || isPartial then .error (.err "EmptyMantissa" byte.index)
      else .error (.err "InvalidDigit" ip.start.index)
    else
      let ep ← exponentPhase c hasExponent byte fp.fraction fp.exponent
      let byte ← suffixPhase c ep.byte
      let endIdx := byte.index
      let step := u64Step c.feats c.mantissaRadix
      let exponent : Int := if c.feats.format && !c.requiredMantissaDigits && nDigits = 0 then 0 else ep.exponent
      if nDigits ≤ step then
        pure (⟨fp.mantissa, exponent, neg, false, ip.integerDigits, fp.fraction, ep.explicit⟩, endIdx)
      else manyDigitsPhase c o neg ip fp ep nDigits step exponent endIdx

/-- `parse_complete_number` -/
def parseCompleteNumber (c : Cfg) (o : POpts) (b : Bytes) (neg : Bool) (formatValid : Bool := true) :
    Except Err Number := do
  let (n, count) ← parseNumber c false o b neg formatValid
  if count = b.bufferLength then pure n else .error (.err "InvalidDigit" count)

/-! ## specials -/

/-- `shared::starts_with(byte.special_iter(), string.iter())` -/
def startsWith (c : Cfg) : List Nat → Bytes → Except Err (Bool × Bytes)
  | [], b => pure (true, b)
  | y :: ys, b => do
    let (x, b) ← iterNext c .special b
    if x = some y then startsWith c ys b else pure (false, b)

/-- `shared::starts_with_uncased`: equal iff the XOR is 0 or 0x20 -/
def startsWithUncased (c : Cfg) : List Nat → Bytes → Except Err (Bool × Bytes)
  | [], b => pure (true, b)
  | y :: ys, b => do
    let (x, b) ← iterNext c .special b
    match x with
    | none => pure (false, b)
    | some xi =>
      let x := Nat.xor xi y
      if x ≠ 0 && x ≠ 32 then pure (false, b) else startsWithUncased c ys b

/-- `is_special_eq`: 0 = no match, otherwise the cursor after the match (and after trimming) -/
def isSpecialEq (c : Cfg) (b : Bytes) (s : List Nat) : Except Err Nat := do
  let (hit, b) ← if c.feats.format && c.caseSensitiveSpecial then startsWith c s b else startsWithUncased c s b
  if hit then
    let (_, b) ← peek c .special b
    pure b.index
  else pure 0

inductive Special where
  | nan | inf
deriving Repr, DecidableEq

/-- `parse_positive_special` -/
def parsePositiveSpecial (c : Cfg) (o : POpts) (b : Bytes) : Except Err (Option (Special × Nat)) :=
  if c.feats.format && c.noSpecial then pure none
  else do
    let length := b.bufferLength - b.index
    let try1 (str : Option (List Nat)) : Except Err Nat :=
      match str with
      | some s => if length ≥ s.length then isSpecialEq c b s else pure 0
      | none => pure 0
    let n ← try1 o.nan
    if n ≠ 0 then pure (some (.nan, n))
    else
      let n ← try1 o.infinity
      if n ≠ 0 then pure (some (.inf, n))
      else
        let n ← try1 o.inf
        if n ≠ 0 then pure (some (.inf, n)) else pure none

/-- `parse_special` (complete): the match must cover the buffer -/
def parseSpecialComplete (c : Cfg) (o : POpts) (b : Bytes) : Except Err (Option Special) := do
  match ← parsePositiveSpecial c o b with
  | some (s, n) => if n = b.bufferLength then pure (some s) else pure none
  | none => pure none

/-! ## `parse_complete` / `parse_partial` up to the `Number` -/

inductive Parsed where
  | zero (count : Nat)                       -- `Ok(F::ZERO)`: nothing after the sign, digits not required
  | number (n : Number) (count : Nat)
  | special (s : Special) (neg : Bool) (count : Nat)
deriving Repr, DecidableEq

/-- sign, emptiness test, `parse_number!` with its fall-back to the specials -/
def parseFloatSyntax (c : Cfg) (o : POpts) (isPartial : Bool) (input : List Nat) (formatValid : Bool := true) :
    Except Err Parsed := do
  let byte := Bytes.new input
  let (neg, byte) ← parseMantissaSign c byte
  let (consumed, byte) ← isConsumed c .integer byte
  if consumed then
    if c.requiredIntegerDigits || c.requiredMantissaDigits then .error (.err "Empty" byte.index)
    else pure (.zero byte.index)
  else if isPartial then
    match parseNumber c true o byte neg formatValid with
    | .ok (n, count) => pure (.number n count)
    | .error (.err k i) =>
      match ← parsePositiveSpecial c o byte with
      | some (s, count) => pure (.special s neg count)
      | none => .error (.err k i)
    | .error e => .error e
  else
    match parseCompleteNumber c o byte neg formatValid with
    | .ok n => pure (.number n input.length)
    | .error (.err k i) =>
      match ← parseSpecialComplete c o byte with
      | some s => pure (.special s neg input.length)
      | none => .error (.err k i)
    | .error e => .error e

/-! ## format / option validation of the entry points -/

def isValidAscii (x : Nat) : Bool := (9 ≤ x && x ≤ 13) || (32 ≤ x && x < 127)
def isValidLetter (x : Nat) : Bool := (65 ≤ x && x ≤ 90) || (97 ≤ x && x ≤ 122)

/-- `flags::is_valid_radix` -/
def isValidRadix (feats : Features) (r : Nat) : Bool :=
  if feats.radix then 2 ≤ r && r ≤ 36
  else if feats.powerOfTwo then r = 2 || r = 4 || r = 8 || r = 10 || r = 16 || r = 32
  else r = 10

/-- `is_valid_optional_control` -/
def isValidOptionalControl (fmt : Format) (v : Nat) : Bool :=
  let radix := if fmt.mantissaRadix > fmt.exponentRadix then fmt.mantissaRadix else fmt.exponentRadix
  (charToDigit v radix).isNone && v ≠ 43 && v ≠ 45 && (isValidAscii v || v = 0)

def isValidControl (fmt : Format) (v : Nat) : Bool := v ≠ 0 && isValidOptionalControl fmt v

def flagMask : Nat := (2 ^ 18 - 1) + (2 ^ 13 - 1) * 2 ^ 32

/-- `is_valid_punctuation` -/
def isValidPunctuation (feats : Features) (fmt : Format) : Bool :=
  if !feats.format && fmt.digitSeparator ≠ 0 then false
  else
    let s := fmt.digitSeparator
    let p := fmt.basePrefix
    let x := fmt.baseSuffix
    if (p = 0 && x = 0) || (s = 0 && x = 0) || (s = 0 && p = 0) then true
    else s ≠ p && s ≠ x && p ≠ x

/-- `NumberFormat::error()` = `format_error_impl` of `feature_format.rs` / `not_feature_format.rs`; `none` = Success -/
def formatError (feats : Features) (fmt : Format) : Option String :=
  let sepMaskIs (base : Nat) : Bool :=   -- component mask == consecutive flag alone
    !fmt.bit base && !fmt.bit (base + 3) && !fmt.bit (base + 6) && fmt.bit (base + 9)
  if !isValidRadix feats fmt.mantissaRadix then some "InvalidMantissaRadix"
  else if !isValidRadix feats fmt.exponentBase then some "InvalidExponentBase"
  else if !isValidRadix feats fmt.exponentRadix then some "InvalidExponentRadix"
  else if !(if feats.format then isValidOptionalControl fmt fmt.digitSeparator else fmt.digitSeparator = 0) then
    some "InvalidDigitSeparator"
  else if !(if feats.format && feats.powerOfTwo then isValidOptionalControl fmt fmt.basePrefix else fmt.basePrefix = 0) then
    some "InvalidBasePrefix"
  else if !(if feats.format && feats.powerOfTwo then isValidOptionalControl fmt fmt.baseSuffix else fmt.baseSuffix = 0) then
    some "InvalidBaseSuffix"
  else if !isValidPunctuation feats fmt then some "InvalidPunctuation"
  else if !feats.format then
    (if Nat.land fmt.raw flagMask ≠ 12 then some "InvalidFlags" else none)
  else if fmt.noExponentNotation && fmt.requiredExponentNotation then some "InvalidExponentFlags"
  else if fmt.noPositiveMantissaSign && fmt.requiredMantissaSign then some "InvalidMantissaSign"
  else if fmt.noPositiveExponentSign && fmt.requiredExponentSign then some "InvalidExponentSign"
  else if fmt.noSpecial && fmt.caseSensitiveSpecial then some "InvalidSpecial"
  else if fmt.noSpecial && fmt.specialSep then some "InvalidSpecial"
  else if sepMaskIs 32 then some "InvalidConsecutiveIntegerDigitSeparator"
  else if sepMaskIs 33 then some "InvalidConsecutiveFractionDigitSeparator"
  else if sepMaskIs 34 then some "InvalidConsecutiveExponentDigitSeparator"
  else none

/-- `is_valid_options_punctuation` -/
def isValidOptionsPunctuation (feats : Features) (fmt : Format) (exp dp : Nat) : Bool :=
  if !isValidControl fmt dp || !isValidControl fmt exp then false
  else if dp = exp then false
  else if feats.format && (fmt.digitSeparator = dp || fmt.digitSeparator = exp || fmt.basePrefix = dp
      || fmt.basePrefix = exp || fmt.baseSuffix = dp || fmt.baseSuffix = exp) then false
  else true

/-- `check_radix!`: `true` = passes -/
def checkRadix (feats : Features) (fmt : Format) : Bool :=
  if (formatError feats fmt).isSome then false
  else if feats.powerOfTwo && fmt.mantissaRadix ≠ fmt.exponentBase then
    let r := fmt.mantissaRadix
    let b := fmt.exponentBase
    (r = 4 && b = 2) || (r = 8 && b = 2) || (r = 16 && b = 2) || (r = 32 && b = 2) || (r = 16 && b = 4)
  else true

/-- `OptionsBuilder::build` of `lexical-parse-float/src/options.rs`; `none` = Ok -/
def optionsError (o : POpts) : Option String :=
  let strErr (s : List Nat) (a b : Nat) (invalid tooLong : String) : Option String :=
    if s.isEmpty || !(s.head? = some a || s.head? = some b) then some invalid
    else if !s.all isValidLetter then some invalid
    else if s.length > 50 then some tooLong
    else none
  if !isValidAscii o.exp then some "InvalidExponentSymbol"
  else if !isValidAscii o.dp then some "InvalidDecimalPoint"
  else
    match (match o.nan with | some s => strErr s 78 110 "InvalidNanString" "NanStringTooLong" | none => none) with
    | some e => some e
    | none =>
      if o.inf.isSome && o.infinity.isNone then some "InfinityStringTooShort"
      else
        match (match o.inf with | some s => strErr s 73 105 "InvalidInfString" "InfStringTooLong" | none => none) with
        | some e => some e
        | none =>
          match o.infinity with
          | some s =>
            (match strErr s 73 105 "InvalidInfinityString" "InfinityStringTooLong" with
             | some e => some e
             | none => if s.length < (o.inf.getD []).length then some "InfinityStringTooShort" else none)
          | none => none

/-! ## API level -/

/-- digits an iterator over a stored slice yields (separators skipped), as digit values; stops at a non-digit -/
def sliceDigits (c : Cfg) (k : Comp) (s : List Nat) : List Nat :=
  match parseDigits { c with debug := false } k c.mantissaRadix (Bytes.new s) with
  | .ok (ds, _) => ds
  | .error _ => []

/-- exact value of a parsed `Number` as IEEE bits (specification arithmetic) -/
def numberBits (c : Cfg) (f : Fmt) (n : Number) : Nat :=
  let r := c.mantissaRadix
  let b := c.exponentBase
  if n.manyDigits then
    litBits f r b ⟨n.isNegative, sliceDigits c .integer n.integer,
      (match n.fraction with | some fd => sliceDigits c .fraction fd | none => []), n.explicitExp⟩
  else
    litBits f r b ⟨n.isNegative, toDigits r n.mantissa, [], n.exponent⟩

def renderErr : Err → String
  | .err k i => s!"err {k} {i}"
  | .panic _ => "panic"
  | .fault _ => "fault"

def renderParsed (c : Cfg) (f : Fmt) (isPartial : Bool) (p : Parsed) : String :=
  let cnt (n : Nat) : String := if isPartial then toString n else "-"
  match p with
  | .zero n => s!"ok 0 {cnt n}"
  | .number n count => s!"ok {toHex (numberBits c f n)} {cnt count}"
  | .special .nan _ count => s!"ok nan {cnt count}"
  | .special .inf neg count => s!"ok {toHex (f.infBits + if neg then f.signBit else 0)} {cnt count}"

/-- `parse_with_options` / `parse_partial_with_options` of `lexical-core` for a float type, as the harness line -/
def parseFloatModel (feats : Features) (fmt : Format) (o : POpts) (isPartial : Bool) (f : Fmt) (input : List Nat)
    (debug : Bool := false) : String :=
  match optionsError o with
  | some e => s!"opterr {e} -"
  | none =>
    let fe := formatError feats fmt
    -- both entry points of `api.rs` validate (the partial one since /repo commit e9d14fa)
    if fe.isSome then s!"err {fe.getD ""} -"
    else if !isValidOptionsPunctuation feats fmt o.exp o.dp then "err InvalidPunctuation -"
    else if !checkRadix feats fmt then "err InvalidRadix -"
    else
      let c : Cfg := ⟨feats, fmt, debug⟩
      match parseFloatSyntax c o isPartial input fe.isNone with
      | .ok p => renderParsed c f isPartial p
      | .error e => renderErr e

/-- `parse` / `parse_partial` (no options, STANDARD format): only `check_radix!` -/
def parseFloatDefaultModel (feats : Features) (isPartial : Bool) (f : Fmt) (input : List Nat) (debug : Bool := false) : String :=
  let fmt := Format.standard
  if !checkRadix feats fmt then "err InvalidRadix -"
  else
    let c : Cfg := ⟨feats, fmt, debug⟩
    match parseFloatSyntax c {} isPartial input with
    | .ok p => renderParsed c f isPartial p
    | .error e => renderErr e

/-- component op `pn`: what `harness/src/comp.rs::op_pn` prints -/
def parseNumberOp (feats : Features) (fmt : Format) (o : POpts) (isPartial : Bool) (input : List Nat)
    (debug : Bool := false) : String :=
  match optionsError o with
  | some e => s!"opterr {e} -"
  | none =>
    let c : Cfg := ⟨feats, fmt, debug⟩
    let r : Except Err String := do
      let (neg, byte) ← parseMantissaSign c (Bytes.new input)
      let (consumed, byte) ← isConsumed c .integer byte
      if consumed then pure s!"empty {byte.index}"
      else
        let (n, count) ← parseNumber c isPartial o byte neg (formatError feats fmt).isNone
        let b01 (x : Bool) : String := if x then "1" else "0"
        let fr := match n.fraction with | some fd => Spec.hexBytes fd | none => "-"
        pure s!"ok {n.mantissa} {n.exponent} {b01 n.manyDigits} {b01 n.isNegative} {count} {Spec.hexBytes n.integer} {fr}"
    match r with
    | .ok s => s
    | .error e => renderErr e

end LexVerif.Model
