import LexVerif.Model.ExtFloat
import LexVerif.Gen.Lemire
/-!
# Model.Lemire — the Eisel–Lemire moderate path (lexical-parse-float/src/lemire.rs)

`lemire`, `compute_float`, `compute_error`, `compute_error_scaled`, `power`, `full_multiplication`,
`compute_product_approx`, transcribed statement by statement; `u64`/`u128` arithmetic is `Nat` reduced
modulo `2^64` exactly where the Rust wraps or truncates.

Tie: **R** — the table `POWER_OF_FIVE_128`, `SMALLEST/LARGEST_POWER_OF_FIVE` (`Gen.Lemire`) and the
`LemireFloat` constants (`Gen.FloatConsts`); **S** — every literal of the function bodies is a named
`def` in the section *literals* below (a source translator can regenerate exactly that section);
**C** — ops `cf` (compute_float) and `lm` (lemire).
-/
namespace LexVerif.Model.Lemire
open LexVerif.Spec LexVerif.Proof.Tables LexVerif.Model

/-! ## literals of lemire.rs (S) -/

/-- `0xFFFF_FFFF_FFFF_FFFF` in `if !lossy && lo == 0xFFFF_FFFF_FFFF_FFFF` and in the `mask` of
`compute_product_approx` -/
def litAllOnes : Nat := 0xFFFFFFFFFFFFFFFF
/-- `(-27..=55).contains(&q)` -/
def litSafeLo : Int := -27
def litSafeHi : Int := 55
/-- `lo <= 1` in the round-to-even test -/
def litTieLo : Nat := 1
/-- `mantissa & 3 == 1` -/
def litTieMask : Nat := 3
def litTieVal : Nat := 1
/-- `F::MANTISSA_SIZE as usize + 3` (precision) and `upperbit + 64 - F::MANTISSA_SIZE - 3` -/
def litPrecisionExtra : Nat := 3
/-- `-power2 + 1 >= 64` -/
def litSubnormalLimit : Int := 64
/-- `power`: `(q.wrapping_mul(152_170 + 65536) >> 16) + 63` -/
def litPowerMulA : Int := 152170
def litPowerMulB : Int := 65536
def litPowerShift : Nat := 16
def litPowerAdd : Int := 63
/-- `compute_error_scaled`: `… - hilz - lz - 62` -/
def litErrorBias : Int := 62

/-- the integer literals of `compute_float` in source order, assembled from the named literals above (plain
numerals: shift amounts `63`, `64`, the `0`/`1`/`2` of `fp_zero`, `& 1`, `>> 1`, `1 << MANTISSA_SIZE`, …).
`extractors/literals.py` extracts the same list from the source text (`Gen.Literals.parse_float_lemire_compute_float`):
equating the two ties every literal of the model to /repo. -/
def computeFloatLiterals : List Nat :=
  [0, 0, 0, 0, litPrecisionExtra, litAllOnes, (-litSafeLo).toNat, litSafeHi.toNat, 63, 64, litPrecisionExtra, 0, 1,
   litSubnormalLimit.toNat, 1, 1, 1, 1, litTieLo, litTieMask, litTieVal, 64, litPrecisionExtra, 1, 1, 1, 2, 1, 1, 1]
/-- `compute_product_approx` -/
def computeProductApproxLiterals : List Nat := [64, 64, litAllOnes, litAllOnes, 1]
/-- `power` -/
def powerLiterals : List Nat := [litPowerMulA.toNat, litPowerMulB.toNat, litPowerShift, litPowerAdd.toNat]
/-- `compute_error_scaled` -/
def computeErrorScaledLiterals : List Nat := [63, 1, litErrorBias.toNat]
/-- `compute_error`: `F::MANTISSA_SIZE as usize + 3`, `.1` -/
def computeErrorLiterals : List Nat := [litPrecisionExtra, 1]
/-- `lemire`: `fp.exp >= 0`, `num.mantissa + 1` -/
def lemireLiterals : List Nat := [0, 1]
/-- `full_multiplication`: `r >> 64` -/
def fullMultiplicationLiterals : List Nat := [64]

example : computeFloatLiterals =
    [0, 0, 0, 0, 3, 18446744073709551615, 27, 55, 63, 64, 3, 0, 1, 64, 1, 1, 1, 1, 1, 3, 1, 64, 3, 1, 1, 1, 2, 1, 1, 1] ∧
    computeProductApproxLiterals = [64, 64, 18446744073709551615, 18446744073709551615, 1] ∧
    powerLiterals = [152170, 65536, 16, 63] ∧ computeErrorScaledLiterals = [63, 1, 62] := by decide

/-! ## functions -/

/-- `power(q: i32) -> i32` -/
def power (q : Int) : Int :=
  sar (wrapI32 (q * (litPowerMulA + litPowerMulB))) litPowerShift + litPowerAdd

/-- `full_multiplication(a, b) -> (lo, hi)` -/
def fullMultiplication (a b : Nat) : Nat × Nat :=
  let r := a * b
  (r % 2 ^ 64, r / 2 ^ 64 % 2 ^ 64)

/-- `compute_product_approx(q, w, precision) -> (lo, hi)`; `none` = the checked table index panics.
Note the Rust names: `let (lo5, hi5) = POWER_OF_FIVE_128[index]` binds the row's **first** word (the high
64 bits of the 128-bit power) to `lo5`. -/
def computeProductApprox (q : Int) (w precision : Nat) : Option (Nat × Nat) :=
  let mask := if precision < 64 then shr litAllOnes precision else litAllOnes
  let index := asU64 (wrapI64 (q - Gen.Lemire.smallestPowerOfFive))
  match Gen.Lemire.powerOfFive128[index]? with
  | none => none
  | some (lo5, hi5) =>
    let (firstLo, firstHi) := fullMultiplication w lo5
    if firstHi % (mask + 1) = mask then           -- `first_hi & mask == mask` (`mask = 2^k − 1`)
      let secondHi := (fullMultiplication w hi5).2
      let firstLo' := wrap64 (firstLo + secondHi)
      let firstHi' := if secondHi > firstLo' then wrap64 (firstHi + 1) else firstHi
      some (firstLo', firstHi')
    else some (firstLo, firstHi)

/-- `compute_error_scaled::<F>(q, w, lz)` -/
def computeErrorScaled (F : FTy) (q : Int) (w : Nat) (lz : Int) : ExtendedFloat80 :=
  let hilz : Nat := if shr w 63 % 2 = 1 then 0 else 1        -- `(w >> 63) as i32 ^ 1`
  let w := shl64 w hilz
  let power2 := power (wrapI32 q) + F.C.exponentBias - hilz - lz - litErrorBias
  { mant := w, exp := power2 + invalidFp }

/-- `compute_error::<F>(q, w)` -/
def computeError (F : FTy) (q : Int) (w : Nat) : AlgoRes :=
  let lz := clz64 w
  let w := shl64m w lz
  match computeProductApprox q w (F.ms + litPrecisionExtra) with
  | none => .panic
  | some (_, hi) => .ok (computeErrorScaled F q hi lz)

def fpZero : ExtendedFloat80 := { mant := 0, exp := 0 }
def fpInf (F : FTy) : ExtendedFloat80 := { mant := 0, exp := F.C.infinitePower }

/-- second half of `compute_float`: from the product words `(lo, hi)` to the rounded float
(split off only so that proofs can name it; the Rust has one function) -/
def cfRound (F : FTy) (q : Int) (lo hi lz : Nat) : AlgoRes :=
  let upperbit := shr hi 63
  let sh := upperbit + 64 - F.ms - litPrecisionExtra
  let mantissa := shr hi sh
  let power2 : Int := power (wrapI32 q) + upperbit - lz - F.C.minimumExponent
  if power2 ≤ 0 then
    if -power2 + 1 ≥ litSubnormalLimit then .ok fpZero
    else
      -- subnormal
      let mantissa := shr mantissa (-power2 + 1).toNat
      let mantissa := wrap64 (mantissa + mantissa % 2)
      let mantissa := shr mantissa 1
      let power2 : Int := if mantissa ≥ shl64 1 F.ms then 1 else 0
      .ok { mant := mantissa, exp := power2 }
  else
    let mantissa :=
      if lo ≤ litTieLo && decide (q ≥ F.C.minExponentRoundToEven) && decide (q ≤ F.C.maxExponentRoundToEven)
          && mantissa % (litTieMask + 1) == litTieVal && shl64 mantissa sh == hi
      then mantissa - mantissa % 2        -- `mantissa &= !1`
      else mantissa
    let mantissa := wrap64 (mantissa + mantissa % 2)
    let mantissa := shr mantissa 1
    -- rounding up overflowed: mantissa = hidden bit only, exponent + 1
    let carry : Bool := decide (mantissa ≥ shl64 2 F.ms)
    let mantissa := if carry then shl64 1 F.ms else mantissa
    let power2 := if carry then power2 + 1 else power2
    -- `mantissa &= !(1 << MANTISSA_SIZE)`
    let mantissa := mantissa - (mantissa / 2 ^ F.ms % 2) * 2 ^ F.ms
    if power2 ≥ F.C.infinitePower then .ok (fpInf F)
    else .ok { mant := mantissa, exp := power2 }

/-- `compute_float::<F>(q, w, lossy)` -/
def computeFloat (F : FTy) (q : Int) (w : Nat) (lossy : Bool) : AlgoRes :=
  if w = 0 ∨ q < F.C.smallestPowerOfTen then .ok fpZero
  else if q > F.C.largestPowerOfTen then .ok (fpInf F)
  else
    let lz := clz64 w
    let w := shl64m w lz
    match computeProductApprox q w (F.ms + litPrecisionExtra) with
    | none => .panic
    | some (lo, hi) =>
      if !lossy && lo == litAllOnes && !(decide (litSafeLo ≤ q) && decide (q ≤ litSafeHi)) then
        .ok (computeErrorScaled F q hi lz)
      else cfRound F q lo hi lz

/-- `lemire::<F>(num, lossy)`: the two-pass wrapper for truncated mantissas -/
def lemire (F : FTy) (n : Num) (lossy : Bool) : AlgoRes :=
  match computeFloat F n.exponent n.mantissa lossy with
  | .panic => .panic
  | .ok fp =>
    if !lossy && n.manyDigits && decide (fp.exp ≥ 0) then
      -- `num.mantissa + 1`: wraps in release builds (debug builds panic on `u64::MAX`)
      match computeFloat F n.exponent (wrap64 (n.mantissa + 1)) false with
      | .panic => .panic
      | .ok fp1 => if fp ≠ fp1 then computeError F n.exponent n.mantissa else .ok fp
    else .ok fp

end LexVerif.Model.Lemire
