import LexVerif.Model.OptionsValid
import LexVerif.Model.Ops.ParseFloat
import LexVerif.Model.Ops.WriteFloat
/-!
# Model.Ops.OptionsValid — line-protocol handler for the option validators (C18)

Placed before the ParseFloat / WriteFloat handlers: an API op (`pf`, `wf`, `bs` and their `L` facade forms) whose
options are rejected by `OptionsBuilder::build` is answered here (`opterr <Kind> -`, the harness builds the options
first); everything else falls through (`none`). Component ops (harness/src/comp_opts.rs):
  `po EXP DP NAN INF INFINITY`             → `<is_valid> <ok|Kind> <nan_str_is_valid> <inf_str_is_valid> <infinity_string_is_valid> <Options::is_valid>`
  `wo MAX MIN POSBRK NEGBRK EXP DP NAN INF` → `<is_valid> <ok|Kind> <nan_str_is_valid> <inf_str_is_valid> <Options::is_valid>`
-/
namespace LexVerif.Model.Ops.OptionsValid
open LexVerif.Model LexVerif.Spec LexVerif.Model.OptionsValid

def kindOf : Except String Unit → String
  | .ok _ => "ok"
  | .error e => e

def opterr : Except String Unit → Option String
  | .ok _ => none
  | .error e => some s!"opterr {e} -"

def handle (_feats : Features) (t : List String) : Option String :=
  let op := t.headD ""
  let op := if op.startsWith "L" then (op.drop 1).toString else op
  match op, t.tail with
  | "pf", _ty :: _f :: _p :: rest =>
    if rest.length < 6 then none else opterr (ParseFloat.build (Ops.ParseFloat.optsOf (rest.take 6)))
  | "wf", _ty :: _f :: _b :: rest =>
    if rest.length < 10 then none else opterr (WriteFloat.build (Ops.WriteFloat.wOptsOf (rest.take 10)))
  | "bs", _ty :: _f :: rest =>
    if rest.length < 10 then none else opterr (WriteFloat.build (Ops.WriteFloat.wOptsOf (rest.take 10)))
  | "po", [e, d, nan, inf, infinity] =>
    let o := Ops.ParseFloat.optsOf ["0", e, d, nan, inf, infinity]
    some s!"{ParseFloat.isValid o} {kindOf (ParseFloat.build o)} {ParseFloat.nanStrIsValid o} {ParseFloat.infStrIsValid o} {ParseFloat.infinityStringIsValid o} {ParseFloat.isValid o}"
  | "wo", [mx, mn, pb, nb, e, d, nan, inf] =>
    let o := Ops.WriteFloat.wOptsOf [mx, mn, pb, nb, "r", "0", e, d, nan, inf]
    some s!"{WriteFloat.isValid o} {kindOf (WriteFloat.build o)} {WriteFloat.nanStrIsValid o} {WriteFloat.infStrIsValid o} {WriteFloat.isValid o}"
  | _, _ => none

end LexVerif.Model.Ops.OptionsValid
