import LexVerif.Model.FastPath
import LexVerif.Model.Lemire
import LexVerif.Model.Binary
/-!
# Model.Ops.ParseAlgos — line-protocol handlers for the string→float algorithm components

```
cf  TY Q W LOSSY                    compute_float::<TY>(q, w, lossy)
lm  TY MANT EXP MANY LOSSY          lemire::<TY>(&Number{..}, lossy)
bel TY FMT MANT EXP MANY LOSSY      bellerophon::<TY, FMT>
bin TY FMT MANT EXP MANY LOSSY      binary::<TY, FMT>
sbin TY FMT EXP INTHEX FRACHEX|-    slow_binary::<TY, FMT>
fp  TY FMT MANT EXP MANY [NEG]      Number::try_fast_path::<TY, FMT>   -> `some <bits>` | `none`
```
An `ExtendedFloat80` is rendered `ok <bits> <mant> <exp>` (valid, `exp ≥ 0`; bits = `extended_to_float`) / `inv <mant> <exp>` (invalid marker).
`spec` is the contract: a **valid** non-lossy result is the correctly rounded float (`roundNE`) of
`mantissa·base^exponent` — also when `many_digits` is set (the truncated digits may all be zero, so a valid
answer must in particular be right for the mantissa itself); an invalid one is unconstrained here.
-/
namespace LexVerif.Model.Ops.ParseAlgos
open LexVerif LexVerif.Spec LexVerif.Model

def natD (s : String) : Nat := s.toNat?.getD 0
def intD (s : String) : Int := s.toInt?.getD 0
def fmtOf (s : String) : Format := ⟨(ofHex s).getD 0⟩

def numOf (mant exp many : String) (neg : Bool := false) : Num :=
  { mantissa := natD mant, exponent := intD exp, isNegative := neg, manyDigits := many = "1" }

def handle (feats : Features) (t : List String) : Option String :=
  match t with
  | ["cf", ty, q, w, lossy] =>
    (FTy.ofName ty).map fun F => (Lemire.computeFloat F (intD q) (natD w) (lossy = "1")).render F
  | ["lm", ty, m, e, many, lossy] =>
    (FTy.ofName ty).map fun F => (Lemire.lemire F (numOf m e many) (lossy = "1")).render F
  | "fp" :: ty :: f :: m :: e :: many :: rest =>
    (FTy.ofName ty).map fun F =>
      let fmt := fmtOf f
      (FastPath.tryFastPath (smallSetOf feats) F fmt.mantissaRadix fmt.exponentBase
        (numOf m e many (rest.headD "0" = "1"))).render
  | ["bel", ty, f, m, e, many, lossy] =>
    (FTy.ofName ty).map fun F =>
      let fmt := fmtOf f
      (Bellerophon.bellerophon F (Bellerophon.powersOf feats fmt.mantissaRadix) (numOf m e many) (lossy = "1")).render F
  | ["bin", ty, f, m, e, many, lossy] =>
    (FTy.ofName ty).map fun F =>
      (Binary.binary F (fmtOf f).exponentBase (numOf m e many) (lossy = "1")).render F
  | ["sbin", ty, f, e, ih, fh] =>
    (FTy.ofName ty).map fun F =>
      let fmt := fmtOf f
      let r := fmt.mantissaRadix
      (AlgoRes.ok (Binary.slowBinary F feats.compact r fmt.exponentBase ((smallSetOf feats).u64Step r) (intD e)
        (unhexBytes ih) (if fh = "-" then none else some (unhexBytes fh)))).render F
  | _ => none

/-- the value the float with significand field `mant` and biased exponent `exp` denotes, as bits -/
def bitsOf (F : FTy) (fp : ExtendedFloat80) : Nat := extendedToFloat F fp

/-- contract of a moderate-path result for the exact value `num/den`:
valid ⇒ exactly `roundNE`; so the prediction is `ok <the correct mant> <the correct exp>` or any `inv`. -/
def contract (F : FTy) (num den : Nat) : String :=
  s!"ok {toHex (roundNE F.fmt num den)} || inv"

def powFrac (r : Nat) (e : Int) (m : Nat) : Nat × Nat :=
  if e ≥ 0 then (m * r ^ e.toNat, 1) else (m, r ^ (-e).toNat)

/-- exponents beyond this are not evaluated exactly by the oracle column (`10^(2^31)` is not computable);
the cut-off theorems cover them -/
def specExpLimit : Nat := 20000

def specGuard (e : String) (r : Unit → Option String) : Option String :=
  if (intD e).natAbs > specExpLimit then none else r ()

def spec (_feats : Features) (t : List String) : Option String :=
  match t with
  | ["cf", ty, q, w, "0"] =>
    specGuard q fun _ => (FTy.ofName ty).map fun F => let x := powFrac 10 (intD q) (natD w); contract F x.1 x.2
  | ["lm", ty, m, e, many, "0"] =>
    -- `many_digits` with a mantissa of 0 or ≥ 10^19 cannot come out of `parse_number` (≤ 19 digits are
    -- accumulated): there the wrapper may even panic (`compute_error` with an exponent beyond the table)
    if many = "1" ∧ (natD m = 0 ∨ natD m ≥ 10 ^ 19) then none else
    specGuard e fun _ => (FTy.ofName ty).map fun F => let x := powFrac 10 (intD e) (natD m); contract F x.1 x.2
  | ["bel", ty, f, m, e, _many, "0"] =>
    specGuard e fun _ => (FTy.ofName ty).map fun F =>
      let x := powFrac (fmtOf f).mantissaRadix (intD e) (natD m); contract F x.1 x.2 ++ " || panic"
  | ["bin", ty, f, m, e, _many, "0"] =>
    specGuard e fun _ => (FTy.ofName ty).map fun F =>
      let fmt := fmtOf f
      let x := powFrac fmt.exponentBase (intD e) (natD m); contract F x.1 x.2
  | ["sbin", ty, f, e, ih, fh] =>
    -- contract of `slow_binary`: it is called only after `binary` declined (the first `u64_step` significant
    -- digits are exactly half-way above an even significand); the value is (those digits + 0.rest)·base^e
    specGuard e fun _ => (FTy.ofName ty).map fun F =>
      let fmt := fmtOf f
      let r := fmt.mantissaRadix
      let step := (smallSetOf _feats).u64Step r
      let fr := if fh = "-" then [] else unhexBytes fh
      let sig := ((unhexBytes ih ++ fr).map fun c => Binary.digitVal c r).dropWhile (· = 0)
      let val := fun (l : List Nat) => l.foldl (fun acc d => acc * r + d) 0
      let first := val (sig.take step)
      match Binary.binary F fmt.exponentBase { mantissa := first, exponent := intD e, manyDigits := true } false with
      | .ok fp =>
        if fp.exp < 0 then
          let x := powFrac fmt.exponentBase (intD e) (val sig)
          contract F x.1 (x.2 * r ^ (sig.length - step))
        else "-"
      | .panic => "-"
  | "fp" :: ty :: f :: m :: e :: _many :: rest =>
    specGuard e fun _ => (FTy.ofName ty).map fun F =>
      let fmt := fmtOf f
      let x := powFrac fmt.exponentBase (intD e) (natD m)
      let b := roundNE F.fmt x.1 x.2 + (if rest.headD "0" = "1" then F.fmt.signBit else 0)
      s!"some {toHex b} || none"
  | _ => none

end LexVerif.Model.Ops.ParseAlgos
