import LexVerif.Model.FormatError
import LexVerif.Spec.FormatValid
import LexVerif.Spec.Float
/-!
# Model.Ops.FormatError — line-protocol handlers for C18

Component ops (harness/src/comp.rs):
  `fe HEX128`          → `format_error_impl(x)` as the Debug name of the error
  `vp HEX128 EXP DP`   → `is_valid_options_punctuation(x, exp, dp)` as `true`/`false`
  `rb HEX128`          → `NumberFormatBuilder::rebuild(x).build_unchecked()` as hex
API ops `pi`/`pf`/`wi`/`wf` are answered only when the format (or, for `pf`, the punctuation) is rejected at the
entry point; everything else is left to the other handlers (`none`).
-/
namespace LexVerif.Model.Ops.FormatError
open LexVerif.Model LexVerif.Model.FormatError LexVerif.Spec

def fmtOf (s : String) : Nat := (ofHex s).getD 0

/-- `check_radix!` of lexical-parse-float/src/parse.rs (after the format error test) and the `assert!(matches!…)`
of write.rs: with `power-of-two`, a mantissa radix different from the exponent base must be one of five pairs -/
def mixedRadixOk (feats : Features) (f : Nat) : Bool :=
  if feats.powerOfTwo then
    let r := mantissaRadix f
    let b := exponentBase f
    r == b || (r, b) ∈ [(4, 2), (8, 2), (16, 2), (32, 2), (16, 4)]
  else true

/-- model of the `*_with_options` entry points as far as configuration checks go -/
def handle (feats : Features) (t : List String) : Option String :=
  match t with
  | ["fe", h] => some (formatError feats (fmtOf h))
  | ["vp", h, e, d] => some (toString (isValidOptionsPunctuation feats (fmtOf h) e.toNat! d.toNat!))
  | ["rb", h] => some (toHex (rebuild (fmtOf h)).build)
  -- lexical-parse-integer/src/api.rs: both entry points test `format.is_valid()` first
  | ["pi", _ty, h, _partial, _nomulti, _input] =>
    let e := formatError feats (fmtOf h)
    if e ≠ "Success" then some s!"err {e} -" else none
  -- lexical-parse-float/src/api.rs
  | ["pf", _ty, h, partial_, _lossy, exp, dp, _nan, _inf, _infinity, _input] =>
    let f := fmtOf h
    let exp := exp.toNat!
    let dp := dp.toNat!
    -- harness: `ParseFloatOptions::builder()…build()` comes first
    if !isValidAscii exp then some "opterr InvalidExponentSymbol -"
    else if !isValidAscii dp then some "opterr InvalidDecimalPoint -"
    else
      let e := formatError feats f
      -- both entry points validate the format and the option punctuation first
      -- (the partial one since /repo fix e9d14fa), then `check_radix!`
      let _ := partial_
      if e ≠ "Success" then some s!"err {e} -"
      else if !isValidOptionsPunctuation feats f exp dp then some "err InvalidPunctuation -"
      else if !mixedRadixOk feats f then some "err InvalidRadix -"
      else none
  -- lexical-write-integer/src/api.rs: `assert!(NumberFormat::<{ FORMAT }> {}.is_valid())`
  | ["wi", _ty, h, _v, _buf] =>
    if formatError feats (fmtOf h) ≠ "Success" then some "panic" else none
  -- lexical-write-float/src/write.rs: `assert!(format.is_valid())`, then the mixed-radix assert
  | "wf" :: _ty :: h :: _bits :: _max :: _min :: _pos :: _neg :: _round :: _trim :: exp :: dp :: _ =>
    let f := fmtOf h
    if !isValidAscii exp.toNat! then some "opterr InvalidExponentSymbol -"
    else if !isValidAscii dp.toNat! then some "opterr InvalidDecimalPoint -"
    else if formatError feats f ≠ "Success" then some "panic"
    else if !mixedRadixOk feats f then some "panic"
    else none
  | _ => none

/-- documented (lexical-util/src/api.rs, "Panics": mantissa radix ≠ exponent base only for five pairs) -/
def mixedRadixDocumented (feats : Features) (u : Unpacked) : Bool :=
  !feats.powerOfTwo || u.mantissaRadix == u.exponentBase ||
    (u.mantissaRadix, u.exponentBase) ∈ [(4, 2), (8, 2), (16, 2), (32, 2), (16, 4)]

/-- specification column for the same ops: what the property demands -/
def spec (feats : Features) (t : List String) : Option String :=
  match t with
  | ["fe", h] => some (firstViolated feats (unpack (fmtOf h)))
  | ["vp", h, e, d] =>
    some (toString (decide (OptionsPunctuationValid feats (unpack (fmtOf h)) e.toNat! d.toNat!)))
  | ["pi", _ty, h, _partial, _nomulti, _input] =>
    let e := firstViolated feats (unpack (fmtOf h))
    if e ≠ "Success" then some s!"err {e} -" else none
  | ["pf", _ty, h, _partial, _lossy, exp, dp, _nan, _inf, _infinity, _input] =>
    let u := unpack (fmtOf h)
    let e := firstViolated feats u
    if ¬ ValidAscii exp.toNat! then some "opterr"  -- kind and order: Model.OptionsValid / props/C18.py op_check
    else if ¬ ValidAscii dp.toNat! then some "opterr"
    else if e ≠ "Success" then some s!"err {e} -"
    else if ¬ OptionsPunctuationValid feats u exp.toNat! dp.toNat! then some "err InvalidPunctuation -"
    else if !mixedRadixDocumented feats u then some "err InvalidRadix -"
    else none
  -- writers return a slice, not a `Result`: the documented reaction to an invalid format is a panic
  | ["wi", _ty, h, _v, _buf] =>
    if firstViolated feats (unpack (fmtOf h)) ≠ "Success" then some "panic" else none
  | "wf" :: _ty :: h :: _bits :: _max :: _min :: _pos :: _neg :: _round :: _trim :: exp :: dp :: _ =>
    if ¬ ValidAscii exp.toNat! then some "opterr"  -- kind and order: Model.OptionsValid / props/C18.py op_check
    else if ¬ ValidAscii dp.toNat! then some "opterr"
    else if firstViolated feats (unpack (fmtOf h)) ≠ "Success" then some "panic"
    else if !mixedRadixDocumented feats (unpack (fmtOf h)) then some "panic" else none
  | _ => none

end LexVerif.Model.Ops.FormatError
