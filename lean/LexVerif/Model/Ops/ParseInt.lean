import LexVerif.Model.ParseInt
import LexVerif.Spec.Float
/-!
# Model.Ops.ParseInt — line-protocol handler for `pi` / `dpi` (and the facade variants `Lpi` / `Ldpi`)

Answers only for the "plain" grammar (`flagBits = 12`, no prefix / suffix / digit separator) and a radix
the feature set accepts; everything else is left to other handlers (`none`).
-/
namespace LexVerif.Model.Ops.ParseInt
open LexVerif.Spec LexVerif.Model

def isPlain (fmt : Format) : Bool :=
  fmt.flagBits = 12 && fmt.basePrefix = 0 && fmt.baseSuffix = 0 && fmt.digitSeparator = 0

/-- radices `format.is_valid()` accepts under the feature set -/
def radixOk (feats : Features) (r : Nat) : Bool :=
  r = 10 || (feats.radix && 2 ≤ r && r ≤ 36) || (feats.powerOfTwo && (r = 2 || r = 4 || r = 8 || r = 16 || r = 32))

def run (feats : Features) (ty : String) (fmt : Format) (partial_ noMulti : Bool) (input : List Nat) : Option String :=
  match IntTy.ofName ty with
  | none => none
  | some t =>
    if isPlain fmt && radixOk feats fmt.mantissaRadix then
      some ((ParseInt.parseInt feats t fmt.mantissaRadix partial_ noMulti input).render partial_)
    else none

def handle (feats : Features) (t : List String) : Option String :=
  let op := t.headD ""
  let op := if op.startsWith "L" then (op.drop 1).toString else op
  match op, t.tail with
  | "dpi", [ty, p, h] => run feats ty Format.standard (p = "1") false (unhexBytes h)
  | "pi", [ty, f, p, nm, h] => run feats ty ⟨(ofHex f).getD 0⟩ (p = "1") (nm = "1") (unhexBytes h)
  | _, _ => none

end LexVerif.Model.Ops.ParseInt
