import LexVerif.Spec.Float
import LexVerif.Model.WriteInt
/-!
# Model.Ops.WriteInt — line-protocol handler for `wi` / `dwi` (and the `L…` facade variants)

`wi TY FMT VALUE BUFLEN|-`, `dwi TY VALUE BUFLEN|-`. The buffer is pre-filled with `0xAA` like the
harness' guarded buffer; the answer is `ok <hex of the returned slice> clean|dirty` where `clean`
means that no byte past the returned slice was changed.
-/
namespace LexVerif.Model.Ops.WriteInt
open LexVerif.Spec LexVerif.Model LexVerif.Model.WriteInt

def render (fill : Nat) : Res (Buf × Nat) → String
  | .ok (buf, n) =>
    let tail := buf.drop n
    s!"ok {hexBytes (buf.take n)} {if tail.all (· == fill) then "clean" else "dirty"}"
  | .fault => "fault"
  | .panic => "panic"

def run (feats : Features) (ty : String) (fmt : Option Format) (v : String) (buflen : String) (facade : Bool) :
    Option String :=
  match IntTy.ofName ty, v.toInt? with
  | some t, some x =>
    let radix := match fmt with | some f => f.mantissaRadix | none => 10
    let reqSign := match fmt with | some f => f.requiredMantissaSign | none => false
    let len :=
      if facade then bufferSizeConstFmt feats t radix reqSign + 1
      else if buflen = "-" then bufferSizeConstFmt feats t radix reqSign else buflen.toNat?.getD 0
    let r := writeInt feats t radix reqSign fmt.isSome x (List.replicate len 170)
    some (if facade then (match r with | .ok (buf, n) => s!"ok {hexBytes (buf.take n)}" | _ => render 170 r)
          else render 170 r)
  | _, _ => none

def handle (feats : Features) (t : List String) : Option String :=
  let op := t.headD ""
  let facade := op.startsWith "L"
  let op := if facade then (op.drop 1).toString else op
  match op, t.tail with
  | "dwi", [ty, v, bl] => run feats ty none v bl facade
  | "dwi", [ty, v] => run feats ty none v "-" facade
  | "wi", [ty, f, v, bl] => run feats ty (some ⟨((LexVerif.Spec.ofHex f).getD 0)⟩) v bl facade
  | "wi", [ty, f, v] => run feats ty (some ⟨((LexVerif.Spec.ofHex f).getD 0)⟩) v "-" facade
  | _, _ => none

end LexVerif.Model.Ops.WriteInt
