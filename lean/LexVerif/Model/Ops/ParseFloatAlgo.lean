import LexVerif.Model.ParseFloatAlgo
import LexVerif.Model.Ops.ParseFloat
/-!
# Model.Ops.ParseFloatAlgo — line-protocol handler for `apf`

`apf TY FMT PARTIAL <6 option fields> HEX` is the same API call as `pf` (`parse_with_options` /
`parse_partial_with_options`); the model column is `parseFloatAlgoModel` — syntax, `try_fast_path`,
`moderate_path`, `slow_path`, `to_native!` — with `slow_radix` replaced by the specification arithmetic
(`slowOracle`). Ties the composition (the `cfg` ladder of `moderate_path`, the `fp.exp < 0` test, the
`slow_binary` dispatch, the sign) to the implementation; the contract column is the one of `pf`.
-/
namespace LexVerif.Model.Ops.ParseFloatAlgo
open LexVerif LexVerif.Spec LexVerif.Model LexVerif.Model.ParseFloatAlgo LexVerif.Model.Ops.ParseFloat

def handle (feats : Features) (t : List String) : Option String :=
  let op := t.headD ""
  let op := if op.startsWith "L" then (op.drop 1).toString else op
  match op, t.tail with
  | "apf", ty :: f :: p :: rest =>
    match FTy.ofName ty with
    | some F =>
      let o := optsOf (rest.take 6)
      some (parseFloatAlgoModel slowOracle feats (fmtOf f) o (p = "1") F (unhexBytes (rest.getD 6 "_")) o.lossy dbgMode)
    | none => none
  | _, _ => none

end LexVerif.Model.Ops.ParseFloatAlgo
