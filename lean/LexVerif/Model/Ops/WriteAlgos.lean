import LexVerif.Spec.Float
import LexVerif.Spec.Shortest
import LexVerif.Model.Dragonbox
import LexVerif.Model.Format
/-!
# Model.Ops.WriteAlgos — line-protocol handlers for the float-writer components

* `td TY BITS` → `ok <mant> <exp>`: `algorithm::to_decimal` (non-compact builds), model `Model.Dragonbox.toDecimal`;
  specification column: every `(D, E)` of `Spec.shortest` (the implementation must return one of them).
-/
namespace LexVerif.Model.Ops.WriteAlgos
open LexVerif.Spec LexVerif.Model

def clearSign (bitsW : Nat) (b : Nat) : Nat := b % 2 ^ (bitsW - 1)

def runTd (ty bits : String) : Option String :=
  match Dragonbox.FTy.ofName ty, ofHex bits with
  | some t, some b =>
    match Dragonbox.toDecimal t (clearSign t.bits b) with
    | some (m, e) => some s!"ok {m} {e}"
    | none => some "fault"
  | _, _ => none

def handle (feats : Features) (t : List String) : Option String :=
  match t with
  | ["td", ty, bits] => if feats.compact then some "nofeature" else runTd ty bits
  | _ => none

/-- specification of `td`: the candidates of the oracle -/
def spec (feats : Features) (t : List String) : Option String :=
  match t with
  | ["td", ty, bits] =>
    if feats.compact then some "nofeature" else
    match Fmt.ofName ty, ofHex bits with
    | some f, some b =>
      let mag := b % f.signBit
      if mag = 0 then some "ok 0 0"
      else if f.isSpecial mag then some "-"
      else some (" || ".intercalate ((shortest f mag).map fun (d, e) => s!"ok {d} {e}"))
    | _, _ => none
  | _ => none

end LexVerif.Model.Ops.WriteAlgos
