import LexVerif.Spec.Float
import LexVerif.Spec.Shortest
import LexVerif.Model.Dragonbox
import LexVerif.Model.Format
import LexVerif.Model.WriteBinary
import LexVerif.Model.WriteBinaryOpts
import LexVerif.Model.Grisu
import LexVerif.Model.WriteRadixInt
/-!
# Model.Ops.WriteAlgos — line-protocol handlers for the float-writer components

* `td TY BITS` → `ok <mant> <exp>`: `algorithm::to_decimal` (non-compact builds), model `Model.Dragonbox.toDecimal`;
  specification column: every `(D, E)` of `Spec.shortest` (the implementation must return one of them).
* `gr TY BITS` → `ok <digits hex> <k>`: `compact::grisu` (compact builds), model `Model.Grisu.grisu`.
* `wf …` for power-of-two radix formats with default digit options: model `Model.WriteBinary.writeFloat` (bytes).
-/
namespace LexVerif.Model.Ops.WriteAlgos
open LexVerif.Spec LexVerif.Model

def clearSign (bitsW : Nat) (b : Nat) : Nat := b % 2 ^ (bitsW - 1)

def runTd (ty bits : String) : Option String :=
  match Dragonbox.FTy.ofName ty, ofHex bits with
  | some t, some b =>
    match Dragonbox.toDecimal t (clearSign t.bits b) with
    | some (m, e) => some s!"ok {m} {e}"
    | none => some "fault"
  | _, _ => none

def runGr (ty bits : String) : Option String :=
  match Dragonbox.FTy.ofName ty, ofHex bits with
  | some t, some b =>
    match Grisu.grisu t (clearSign t.bits b) with
    | some (ds, k) => some s!"ok {hexBytes ds} {k}"
    | none => some "fault"
  | _, _ => none

def optNat (s : String) : Option Nat := if s = "-" then none else s.toNat?
def optInt (s : String) : Option Int := if s = "-" then none else s.toInt?
def optBytes (s : String) : Option (List Nat) := if s = "-" then none else some (unhexBytes s)

def wOptsOf (a : List String) : WOpts :=
  { maxDigits := optNat (a.getD 0 "-"), minDigits := optNat (a.getD 1 "-"),
    posBreak := optInt (a.getD 2 "-"), negBreak := optInt (a.getD 3 "-"),
    truncate := a.getD 4 "r" = "t", trim := a.getD 5 "0" = "1",
    exp := (a.getD 6 "101").toNat?.getD 0, dp := (a.getD 7 "46").toNat?.getD 0,
    nan := optBytes (a.getD 8 "-"), inf := optBytes (a.getD 9 "-") }

/-- `wf` for power-of-two radix formats, default digit options, plain flags, documented buffer: model bytes -/
def runWf (feats : Features) (ty f bits : String) (opts : List String) (buflen : String) : Option String :=
  match Dragonbox.FTy.ofName ty, ofHex f, ofHex bits with
  | some t, some fr, some b =>
    let fmt : Format := ⟨fr⟩
    let o := wOptsOf opts
    let r := fmt.mantissaRadix
    let plain := fmt.flagBits = 12 ∧ fmt.basePrefix = 0 ∧ fmt.baseSuffix = 0 ∧ fmt.digitSeparator = 0
    let punct := (digitVal r o.exp).isNone ∧ (digitVal r o.dp).isNone ∧ o.exp ≠ o.dp
      ∧ o.exp ≠ 43 ∧ o.exp ≠ 45 ∧ o.dp ≠ 43 ∧ o.dp ≠ 45
    if feats.powerOfTwo ∧ WriteBinary.validPair r fmt.exponentBase ∧ WriteBinary.isPow2Radix r
        ∧ (2 ≤ fmt.exponentRadix ∧ fmt.exponentRadix ≤ 36)
        ∧ (feats.radix ∨ WriteBinary.isPow2Radix fmt.exponentRadix ∨ fmt.exponentRadix = 10)
        ∧ plain ∧ punct ∧ o.maxDigits ≠ some 0 ∧ o.minDigits ≠ some 0 ∧ o.nan.isSome ∧ o.inf.isSome
        ∧ (buflen = "-" ∨ buflen.toNat?.getD 0 ≥ 4000) then
      match WriteBinary.writeFloatO fmt feats o t b with
      | some bytes => some s!"ok {hexBytes bytes}"
      | none => some "panic"
    else none
  | _, _, _ => none

/-- `wf` in a generic radix (radix.rs) for floats with an integral value below the mantissa limit, default digit options -/
def runWfRadixInt (feats : Features) (ty f bits : String) (opts : List String) (buflen : String) : Option String :=
  match Dragonbox.FTy.ofName ty, ofHex f, ofHex bits with
  | some t, some fr, some b =>
    let fmt : Format := ⟨fr⟩
    let o := wOptsOf opts
    let r := fmt.mantissaRadix
    let plain := fmt.flagBits = 12 ∧ fmt.basePrefix = 0 ∧ fmt.baseSuffix = 0 ∧ fmt.digitSeparator = 0
    let punct := (digitVal r o.exp).isNone ∧ (digitVal r o.dp).isNone ∧ o.exp ≠ o.dp
      ∧ o.exp ≠ 43 ∧ o.exp ≠ 45 ∧ o.dp ≠ 43 ∧ o.dp ≠ 45
    let mag := b &&& (t.signMask - 1)
    let special := mag &&& t.exponentMask = t.exponentMask
    if feats.radix ∧ 2 ≤ r ∧ r ≤ 36 ∧ ¬ WriteBinary.isPow2Radix r ∧ r ≠ 10 ∧ fmt.exponentBase = r
        ∧ 2 ≤ fmt.exponentRadix ∧ fmt.exponentRadix ≤ 36
        ∧ plain ∧ punct ∧ o.maxDigits.isNone ∧ o.minDigits.isNone ∧ buflen = "-" ∧ ¬ special then
      match WriteRadixInt.integralValue t mag with
      | some n =>
        let sign : List Nat := if b &&& t.signMask ≠ 0 then [45] else []
        some s!"ok {hexBytes (sign ++ WriteBinary.render fmt feats o (WriteRadixInt.layoutInt fmt o WriteRadixInt.exactOps n))}"
      | none => none
    else none
  | _, _, _ => none

def handle (feats : Features) (t : List String) : Option String :=
  match t with
  | ["td", ty, bits] => if feats.compact then some "nofeature" else runTd ty bits
  | ["gr", ty, bits] => if feats.compact then runGr ty bits else some "nofeature"
  | "wf" :: ty :: f :: bits :: rest =>
    if rest.length = 11 then
      (runWf feats ty f bits (rest.take 10) (rest.getD 10 "-")).orElse
        fun _ => runWfRadixInt feats ty f bits (rest.take 10) (rest.getD 10 "-")
    else none
  | _ => none

/-- specification of `td`: the candidates of the oracle -/
def spec (feats : Features) (t : List String) : Option String :=
  match t with
  | ["td", ty, bits] =>
    if feats.compact then some "nofeature" else
    match Fmt.ofName ty, ofHex bits with
    | some f, some b =>
      let mag := b % f.signBit
      if mag = 0 then some "ok 0 0"
      else if f.isSpecial mag then some "-"
      else some (" || ".intercalate ((shortest f mag).map fun (d, e) => s!"ok {d} {e}"))
    | _, _ => none
  | _ => none

end LexVerif.Model.Ops.WriteAlgos
