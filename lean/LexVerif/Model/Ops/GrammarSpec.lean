import LexVerif.Spec.Grammar
import LexVerif.Model.ParseNumber
/-!
# Model.Ops.GrammarSpec — SPEC column of complete-parse `pf` / `pi` ops for non-plain formats

Answers with the documented grammar (`Spec.Grammar`) when
* the op is a *complete* parse (partial parses: no statement, `-`),
* the format carries syntax flags / a base prefix / suffix / a digit separator (plain formats keep the
  `parseStdComplete` oracle of `Driver.specOf`; `Props.C12.grammar_standard_eq_std` shows both agree),
* options, format and punctuation pass the entry-point validation (otherwise the configuration handlers speak),
* the input does not contain the format's digit-separator byte (C12's scope; C13 covers the rest).

Result: `ok <bits> -` through `Spec.litBits`, `ok nan -`, or a bare `err` (error kinds and indices are not part
of the grammar).
-/
namespace LexVerif.Model.Ops.GrammarSpec
open LexVerif LexVerif.Spec LexVerif.Model

def optB (s : String) : Option (List Nat) := if s = "-" then none else some (unhexBytes s)

def optsOf (a : List String) : POpts :=
  { lossy := a.getD 0 "0" = "1", exp := (a.getD 1 "101").toNat?.getD 0, dp := (a.getD 2 "46").toNat?.getD 0,
    nan := optB (a.getD 3 "-"), inf := optB (a.getD 4 "-"), infinity := optB (a.getD 5 "-") }

def fmtOf (s : String) : Format := ⟨(ofHex s).getD 0⟩

def isPlain (fmt : Format) : Bool :=
  fmt.flagBits = 12 && fmt.basePrefix = 0 && fmt.baseSuffix = 0 && fmt.digitSeparator = 0

def specPF (feats : Features) (f : Fmt) (fmt : Format) (o : POpts) (input : List Nat) : Option String :=
  if isPlain fmt then none
  else if (optionsError o).isSome || (formatError feats fmt).isSome
      || !isValidOptionsPunctuation feats fmt o.exp o.dp || !checkRadix feats fmt then none
  else if !separatorFree fmt input then none
  else some ((grammarFloatComplete feats fmt o input).render f fmt.mantissaRadix fmt.exponentBase false)

def specPI (feats : Features) (t : IntTy) (fmt : Format) (input : List Nat) : Option String :=
  if isPlain fmt then none
  else if (formatError feats fmt).isSome then none
  else if !separatorFree fmt input then none
  else some (grammarIntComplete feats fmt t input).render

def spec (feats : Features) (t : List String) : Option String :=
  let op := t.headD ""
  let op := if op.startsWith "L" then (op.drop 1).toString else op
  match op, t.tail with
  | "pf", ty :: f :: "0" :: rest =>
    match Fmt.ofName ty with
    | some ft => specPF feats ft (fmtOf f) (optsOf (rest.take 6)) (unhexBytes (rest.getD 6 "_"))
    | none => none
  | "pi", [ty, f, "0", _nm, h] =>
    match IntTy.ofName ty with
    | some it => specPI feats it (fmtOf f) (unhexBytes h)
    | none => none
  | _, _ => none

end LexVerif.Model.Ops.GrammarSpec
