import LexVerif.Model.SlowBytes
import LexVerif.Model.Lemire
import LexVerif.Spec.Numeral
/-!
# Model.Ops.Slow — line-protocol handler for the big-integer slow path

```
sl TY FMT MANT EXP MANY INTHEX FRACHEX|- m                slow_radix::<TY, FMT>(num, moderate_path(num) un-biased)
sl TY FMT MANT EXP MANY INTHEX FRACHEX|- FPMANT FPEXP     slow_radix::<TY, FMT>(num, ExtendedFloat80{FPMANT, FPEXP})
```
`Number { mantissa: MANT, exponent: EXP, many_digits: MANY, integer, fraction }`. Results (harness `op_sl`):
`mod ok <bits> <mant> <exp>` — the moderate path decided, the slow path is not entered;
`slow <bits> <mant> <exp> via <fp.mant> <fp.exp>` — the slow path's answer and the error float it was given
(what parse.rs passes: `fp.exp -= INVALID_FP`); `slow <bits> <mant> <exp>` for an explicit error float; `panic`.

Model column (`m`): the *model's own* moderate path (`Model.Lemire` / `Model.Bellerophon`) feeds the slow-path
model, so the composition is compared, including the error float itself (`via …`).
Spec column: `roundNE` of the exact value of the digit string, whose leading significant digit has weight
`radix^(EXP + #digits(MANT) − 1)` (so that the contract is independent of the model's `scientific_exponent`);
for an explicit error float only when it brackets the value (`b ≤ x ≤ b + ulp`), the slow path's precondition.
-/
namespace LexVerif.Model.Ops.Slow
open LexVerif LexVerif.Spec LexVerif.Model LexVerif.Model.Slow

def natD (s : String) : Nat := s.toNat?.getD 0
def intD (s : String) : Int := s.toInt?.getD 0
def fmtOf (s : String) : Format := ⟨(ofHex s).getD 0⟩

def isPow2Radix (r : Nat) : Bool := r = 2 || r = 4 || r = 8 || r = 16 || r = 32

/-- `parse::moderate_path::<F, FORMAT>(num, false)` for a generic (non power-of-two) radix -/
def moderate (feats : Features) (F : FTy) (radix : Nat) (n : Num) : Option AlgoRes :=
  if isPow2Radix radix then none
  else if feats.compact then some (Bellerophon.bellerophon F (Bellerophon.powersOf feats radix) n false)
  else if radix = 10 then some (Lemire.lemire F n false)
  else if feats.radix then some (Bellerophon.bellerophon F (Bellerophon.powersOf feats radix) n false)
  else none

def renderSlow (F : FTy) (r : Option ExtendedFloat80) : String :=
  match r with
  | none => "panic"
  | some r => s!"slow {toHex (extendedToFloat F r)} {r.mant} {r.exp}"

def handle (feats : Features) (t : List String) : Option String :=
  match t with
  | "sl" :: ty :: f :: m :: e :: many :: ih :: fh :: rest =>
    (FTy.ofName ty).bind fun F =>
      let radix := (fmtOf f).mantissaRadix
      let E := envOf feats
      let sn : SNum := ⟨natD m, intD e, unhexBytes ih, if fh = "-" then none else some (unhexBytes fh)⟩
      match rest with
      | ["m"] =>
        (moderate feats F radix { mantissa := natD m, exponent := intD e, manyDigits := many = "1" }).map fun r =>
          match r with
          | .panic => "panic"
          | .ok fp =>
            if fp.exp ≥ 0 then "mod " ++ (AlgoRes.ok fp).render F
            else
              let fp' : ExtendedFloat80 := { fp with exp := fp.exp - invalidFp }
              match slowRadix E F feats.radix radix sn fp' with
              | none => "panic"
              | some r => renderSlow F (some r) ++ s!" via {fp'.mant} {fp'.exp}"
      | [fm, fe] =>
        if isPow2Radix radix then none
        else some (renderSlow F (slowRadix E F feats.radix radix sn ⟨natD fm, intD fe⟩))
      | _ => none
  | _ => none

/-! ## specification column -/

def specExpLimit : Nat := 20000

/-- significant digits (values) of the literal -/
def sigDigits (radix : Nat) (integer fraction : List Nat) : List Nat :=
  ((integer ++ fraction).map fun c => Binary.digitVal c radix).dropWhile (· = 0)

/-- exact value `(num, den)` of the digit string whose leading digit has weight `radix^(exp + nd − 1)` -/
def exactValue (radix : Nat) (sig : List Nat) (exp : Int) (nd : Nat) : Nat × Nat :=
  let e : Int := exp + nd - sig.length
  if e ≥ 0 then (ofDigits radix sig * radix ^ e.toNat, 1) else (ofDigits radix sig, radix ^ (-e).toNat)

/-- the slow path's precondition on an explicit error float: with `b` = `fp` rounded down to the float format,
`b ≤ x ≤ next(b)` (no upper bound when `b` is already infinite) -/
def brackets (F : FTy) (fp : ExtendedFloat80) (num den : Nat) : Bool :=
  let b := extendedToFloat F (Bellerophon.round F fp Bellerophon.roundDown)
  if b ≥ F.fmt.infBits then false
  else
    let lo := (F.fmt.decode b).toFrac
    let hiOk :=
      if b + 1 ≥ F.fmt.infBits then true
      else let hi := (F.fmt.decode (b + 1)).toFrac; decide (num * hi.2 ≤ hi.1 * den)
    decide (lo.1 * den ≤ num * lo.2) && hiOk

def spec (_feats : Features) (t : List String) : Option String :=
  match t with
  | "sl" :: ty :: f :: m :: e :: _many :: ih :: fh :: rest =>
    (FTy.ofName ty).bind fun F =>
      let radix := (fmtOf f).mantissaRadix
      let sig := sigDigits radix (unhexBytes ih) (if fh = "-" then [] else unhexBytes fh)
      let md := if natD m = 0 then [] else toDigits radix (natD m)
      if (intD e).natAbs > specExpLimit || sig.isEmpty || !(md.isPrefixOf sig) || radix < 2 then some "-"
      else
        let x := exactValue radix sig (intD e) md.length
        let bits := toHex (roundNE F.fmt x.1 x.2)
        match rest with
        | ["m"] => some s!"mod ok {bits} || slow {bits}"
        | [fm, fe] => if brackets F ⟨natD fm, intD fe⟩ x.1 x.2 then some s!"slow {bits}" else some "-"
        | _ => none
  | _ => none

end LexVerif.Model.Ops.Slow
