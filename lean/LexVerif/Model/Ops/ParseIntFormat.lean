import LexVerif.Model.ParseIntFormat
import LexVerif.Model.Ops.ParseInt
import LexVerif.Model.FormatError
/-!
# Model.Ops.ParseIntFormat — model column of `pi` ops for builds with cargo feature `format`, non-plain formats

`Model.Ops.ParseInt.handle` answers the plain formats (and every build without `format`);
`Model.Ops.FormatError.handle` (earlier in `Driver.modelHandlers`) answers formats rejected by `format.is_valid()`.
What is left — a valid format with syntax flags, base prefix / suffix or a digit separator — is answered here by
`Model.ParseIntFormat.parseIntFormat` (release build).

`Dpi …` (not produced by any registered generator) is the same op evaluated in the model's debug mode
(`debug-assertions` + `overflow-checks`), used to compare against the `dbg` profile of the harness
(`tools/intfmt_dbg.py`).
-/
namespace LexVerif.Model.Ops.ParseIntFormat
open LexVerif.Spec LexVerif.Model

def run (feats : Features) (ty : String) (fmt : Format) (partial_ noMulti debug : Bool) (input : List Nat) :
    Option String :=
  match IntTy.ofName ty with
  | none => none
  | some t =>
    if feats.format && !ParseInt.isPlain fmt then
      some (ParseIntFormat.render partial_
        (ParseIntFormat.parseIntFormat ⟨⟨feats, fmt, debug⟩, t, partial_, noMulti⟩ input))
    else none

def handle (feats : Features) (t : List String) : Option String :=
  let op := t.headD ""
  let op := if op.startsWith "L" then (op.drop 1).toString else op
  match op, t.tail with
  | "pi", [ty, f, p, nm, h] => run feats ty ⟨(ofHex f).getD 0⟩ (p = "1") (nm = "1") false (unhexBytes h)
  | "Dpi", [ty, f, p, nm, h] =>
    -- debug build; plain formats included (the format model is also valid for them)
    match IntTy.ofName ty with
    | some t =>
      let e := FormatError.formatError feats ((ofHex f).getD 0)
      if e ≠ "Success" then some s!"err {e} -"
      else if feats.format then
        some (ParseIntFormat.render (p = "1")
          (ParseIntFormat.parseIntFormat ⟨⟨feats, ⟨(ofHex f).getD 0⟩, true⟩, t, p = "1", nm = "1"⟩ (unhexBytes h)))
      else none
    | none => none
  | _, _ => none

end LexVerif.Model.Ops.ParseIntFormat
