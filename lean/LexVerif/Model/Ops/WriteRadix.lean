import LexVerif.Model.WriteRadix
import LexVerif.Model.Ops.WriteFloat
/-!
# Model.Ops.WriteRadix — model column of `wf` / `Lwf` for generic-radix formats (radix.rs)

Everything around the back-end (buffer-size assert, format validity, sign, specials, back-end dispatch) is
`Model.WriteFloat.writeFloatB` with the `buffer_size_const` of the code under test (`Ops.WriteFloat.writeFloatCur`); when it answers `.other .radix signLen` (finite value, generic radix, `radix` feature)
the digits and the layout come from `Model.WriteRadix.writeFloat` run on `&mut bytes[signLen..]`.
Answers `ok <hex> clean <bound>` (`ok <hex>` for the facade) | `panic`; `none` for every other op.
-/
namespace LexVerif.Model.Ops.WriteRadix
open LexVerif.Spec LexVerif.Model LexVerif.Model.WriteFloat
open LexVerif.Model.WriteInt (Res)
open LexVerif.Model.Ops.WriteFloat (wOptsOf fmtOf signOf bufOf boundOf writeFloatCur)

def runWF (feats : Features) (ty : String) (fmt : Format) (bitsHex : String) (o : WOpts) (buflen : String)
    (facade : Bool) : Option String :=
  match Fmt.ofName ty with
  | none => none
  | some f =>
    if (wOptsError o).isSome then none else
    let bits := (ofHex bitsHex).getD 0
    let bound := boundOf feats f fmt o
    let buf := bufOf feats f fmt o (if facade then "-" else buflen)
    match writeFloatCur feats f fmt o false bits ([0], 0) buf with
    | .other .radix signLen =>
      let mag := bits % f.signBit
      match WriteRadix.writeFloat WriteRadix.repoHasCarryFix feats f fmt o mag (buf.length - signLen)
          WriteRadix.repoHasWindowFix WriteRadix.repoHasMinPadFix with
      | .ok text =>
        let out := signOf feats f fmt bits ++ text
        if out.length > buf.length then some "panic"
        else if facade then some s!"ok {hexBytes out}" else some s!"ok {hexBytes out} clean {bound}"
      | _ => some "panic"
    | _ => none

def handle (feats : Features) (t : List String) : Option String :=
  let op := t.headD ""
  let facade := op.startsWith "L"
  let op := if facade then (op.drop 1).toString else op
  match op, t.tail with
  | "wf", ty :: f :: b :: rest =>
    if rest.length < 10 then none
    else runWF feats ty (fmtOf f) b (wOptsOf (rest.take 10)) (rest.getD 10 "-") facade
  | _, _ => none

end LexVerif.Model.Ops.WriteRadix
