import LexVerif.Spec.Shortest
import LexVerif.Model.WriteFloat
/-!
# Model.Ops.WriteFloat — line-protocol handlers for the float writers

```
wf   TY FMT BITS MAX MIN POSBRK NEGBRK r|t TRIM EXP DP NAN INF BUFLEN|-     (Lwf: facade)
dwf  TY BITS [BUFLEN|-]                                                       (Ldwf: facade)
bs   TY FMT <10 option fields>                                                buffer_size_const
jfmt TY FMT BITS <10 option fields> DIGITSHEX SCIEXP          list-level formatting model on given digits
jbuf TY FMT BITS <10 option fields> DIGITSHEX SCIEXP BUFLEN|- [dbg]   buffer-faithful model on given digits
```
Model column (`handle`): the buffer-faithful model `WriteFloat.writeFloat` — `ok <hex> clean <bound>` | `panic` |
`opterr <Kind> -`; digits come from the exact oracle `Spec.shortest` (Dragonbox builds; `-` for finite non-zero values
of `compact` builds, whose digits are Grisu's, and for non-decimal back-ends unless the call panics up front).
Spec column (`spec`): the list-level statement — sign, special strings, `writeDecimal` of the shortest digits; with an
explicit `BUFLEN` below `buffer_size_const` a `panic` is also acceptable.
`jbuf` answers `ok <hex> clean <bound> <hi>` (`hi` = 1 + highest index written) | `panic` | `fault`.
-/
namespace LexVerif.Model.Ops.WriteFloat
open LexVerif.Spec LexVerif.Model LexVerif.Model.WriteFloat
open LexVerif.Model.WriteInt (Res)

/-- `buffer_size_const` of the code under test (the formula since /repo fb7040b; `bufferSizeConstOld` is the one before) -/
def boundOf (feats : Features) (f : Fmt) (fmt : Format) (o : WOpts) : Nat := bufferSizeConst feats f fmt o

/-- `write_float` of the code under test -/
def writeFloatCur (feats : Features) (f : Fmt) (fmt : Format) (o : WOpts) (debug : Bool) (bits : Nat)
    (digits : List Nat × Int) (buf : List Nat) : Outcome :=
  writeFloatB (boundOf feats f fmt o) feats f fmt o debug bits digits buf

def optNat (s : String) : Option Nat := if s = "-" then none else s.toNat?
def optInt (s : String) : Option Int := if s = "-" then none else s.toInt?
def optBytes (s : String) : Option (List Nat) := if s = "-" then none else some (unhexBytes s)

/-- the harness builds `Option<NonZero…>`: `0` becomes `None` -/
def nz (x : Option Nat) : Option Nat := match x with | some 0 => none | y => y
def nzi (x : Option Int) : Option Int := match x with | some 0 => none | y => y

def wOptsOf (a : List String) : WOpts :=
  { maxDigits := nz (optNat (a.getD 0 "-")), minDigits := nz (optNat (a.getD 1 "-")),
    posBreak := nzi (optInt (a.getD 2 "-")), negBreak := nzi (optInt (a.getD 3 "-")),
    truncate := a.getD 4 "r" = "t", trim := a.getD 5 "0" = "1",
    exp := (a.getD 6 "101").toNat?.getD 0, dp := (a.getD 7 "46").toNat?.getD 0,
    nan := optBytes (a.getD 8 "-"), inf := optBytes (a.getD 9 "-") }

def defaultWOpts : WOpts := {}

def fmtOf (s : String) : Format := ⟨(ofHex s).getD 0⟩

def signOf (feats : Features) (f : Fmt) (fmt : Format) (bits : Nat) : List Nat :=
  if f.isNeg bits ∧ ¬ f.isNaN bits then [45] else if feats.format ∧ fmt.requiredMantissaSign then [43] else []

/-- digit candidates of the exact oracle (`[]`: none available) -/
def oracleDigits (feats : Features) (f : Fmt) (bits : Nat) : List (List Nat × Int) :=
  let mag := bits % f.signBit
  if f.isSpecial bits then [([0], 0)]
  else if mag = 0 then [([0], 0)]
  else if feats.compact then []
  else (shortest f mag).map fun (d, e) =>
    let ds := decDigits d
    (ds, e + (ds.length : Int) - 1)

def renderOutcome (facade : Bool) (bound : Nat) : Outcome → String
  | .done w =>
    if facade then s!"ok {hexBytes (w.bytes.take w.len)}" else s!"ok {hexBytes (w.bytes.take w.len)} clean {bound}"
  | .panic => "panic"
  | .fault => "fault"
  | .other _ _ => "-"

def bufOf (feats : Features) (f : Fmt) (fmt : Format) (o : WOpts) (buflen : String) : List Nat :=
  let bound := boundOf feats f fmt o
  List.replicate (if buflen = "-" then bound else buflen.toNat?.getD 0) 170

/-- model column of a `wf`-like call -/
def runWF (feats : Features) (ty : String) (fmt : Format) (bitsHex : String) (o : WOpts) (buflen : String)
    (facade dflt : Bool) : Option String :=
  match Fmt.ofName ty with
  | none => none
  | some f =>
    match wOptsError o with
    | some e => some s!"opterr {e} -"
    | none =>
      let bits := (ofHex bitsHex).getD 0
      let bound := boundOf feats f fmt o
      let buf := bufOf feats f fmt o (if facade then "-" else buflen)
      let cands := if backend feats fmt ≠ .decimal ∧ ¬ f.isSpecial bits then [] else oracleDigits feats f bits
      -- with no digit candidates only the digit-independent up-front asserts can be predicted
      let outs := match cands with
        | [] =>
          if buf.length < bound ∨ ¬ FormatError.isValid feats fmt.raw ∨ ¬ mixedRadixOk feats fmt then ["panic"] else ["-"]
        | _ => cands.map fun c =>
            let r := renderOutcome facade bound (writeFloatCur feats f fmt o false bits c buf)
            if dflt ∧ ¬ facade then String.intercalate " " ((r.splitOn " ").take 3) else r
      some (" || ".intercalate outs.eraseDups)

def handle (feats : Features) (t : List String) : Option String :=
  let op := t.headD ""
  let facade := op.startsWith "L"
  let op := if facade then (op.drop 1).toString else op
  match op, t.tail with
  | "wf", ty :: f :: b :: rest =>
    if rest.length < 10 then none
    else runWF feats ty (fmtOf f) b (wOptsOf (rest.take 10)) (rest.getD 10 "-") facade false
  | "dwf", ty :: b :: rest => runWF feats ty Format.standard b defaultWOpts (rest.headD "-") facade true
  | "bs", ty :: f :: rest =>
    match Fmt.ofName ty with
    | none => none
    | some fl =>
      let o := wOptsOf (rest.take 10)
      match wOptsError o with
      | some e => some s!"opterr {e} -"
      | none => some s!"ok {boundOf feats fl (fmtOf f) o}"
  | _, _ => none

/-- list-level specification of a `wf`-like call -/
def specWF (feats : Features) (ty : String) (fmt : Format) (bitsHex : String) (o : WOpts) (buflen : String)
    (facade : Bool) : Option String :=
  match Fmt.ofName ty with
  | none => none
  | some f =>
    match wOptsError o with
    | some e => some s!"opterr {e} -"
    | none =>
      let bits := (ofHex bitsHex).getD 0
      let bound := boundOf feats f fmt o
      let short := ¬ facade ∧ buflen ≠ "-" ∧ buflen.toNat?.getD 0 < bound
      if ¬ FormatError.isValid feats fmt.raw ∨ ¬ mixedRadixOk feats fmt then some "panic"
      else
        let sign := signOf feats f fmt bits
        let body : List String :=
          if f.isNaN bits then [match o.nan with | some s => s!"ok {hexBytes (sign ++ s)}" | none => "panic"]
          else if f.isInf bits then [match o.inf with | some s => s!"ok {hexBytes (sign ++ s)}" | none => "panic"]
          else if backend feats fmt ≠ .decimal then ["-"]
          else
            match oracleDigits feats f bits with
            | [] => ["-"]
            | cands => cands.map fun c => s!"ok {hexBytes (sign ++ writeDecimal fmt feats c.1 c.2 o)}"
        if body.contains "-" then some "-"
        else some (" || ".intercalate (body.eraseDups ++ (if short then ["panic"] else [])))

def spec (feats : Features) (t : List String) : Option String :=
  let op := t.headD ""
  let facade := op.startsWith "L"
  let op := if facade then (op.drop 1).toString else op
  match op, t.tail with
  | "wf", ty :: f :: b :: rest =>
    if rest.length < 10 then none
    else specWF feats ty (fmtOf f) b (wOptsOf (rest.take 10)) (rest.getD 10 "-") facade
  | "dwf", ty :: b :: rest => specWF feats ty Format.standard b defaultWOpts (rest.headD "-") facade
  | "bs", ty :: f :: rest =>
    match Fmt.ofName ty with
    | none => none
    | some fl =>
      let o := wOptsOf (rest.take 10)
      match wOptsError o with
      | some e => some s!"opterr {e} -"
      | none => some s!"ok {boundOf feats fl (fmtOf f) o}"
  | "jfmt", ty :: f :: b :: rest =>
    match Fmt.ofName ty with
    | none => none
    | some fl =>
      let bits := (ofHex b).getD 0
      let o := wOptsOf (rest.take 10)
      let ds := unhexBytes (rest.getD 10 "_")
      let sci := (rest.getD 11 "0").toInt?.getD 0
      let fmt := fmtOf f
      some s!"ok {hexBytes (signOf feats fl fmt bits ++ writeDecimal fmt feats ds sci o)}"
  | "jbuf", ty :: f :: b :: rest =>
    match Fmt.ofName ty with
    | none => none
    | some fl =>
      let bits := (ofHex b).getD 0
      let o := wOptsOf (rest.take 10)
      let ds := unhexBytes (rest.getD 10 "_")
      let sci := (rest.getD 11 "0").toInt?.getD 0
      let fmt := fmtOf f
      let bound := boundOf feats fl fmt o
      let buf := bufOf feats fl fmt o (rest.getD 12 "-")
      let dbg := rest.getD 13 "" = "dbg"
      some (match writeFloatCur feats fl fmt o dbg bits (ds, sci) buf with
        | .done w => s!"ok {hexBytes (w.bytes.take w.len)} clean {bound} {w.hi}"
        | .panic => "panic"
        | .fault => "fault"
        | .other _ _ => "-")
  | _, _ => none

end LexVerif.Model.Ops.WriteFloat
