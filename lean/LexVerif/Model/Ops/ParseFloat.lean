import LexVerif.Model.ParseNumber
/-!
# Model.Ops.ParseFloat — line-protocol handler for `pf`, `dpf` (API level) and `pn` (component level)
-/
namespace LexVerif.Model.Ops.ParseFloat
open LexVerif LexVerif.Spec LexVerif.Model

def optB (s : String) : Option (List Nat) := if s = "-" then none else some (unhexBytes s)

/-- `[lossy, exp, dp, nan, inf, infinity]` -/
def optsOf (a : List String) : POpts :=
  { lossy := a.getD 0 "0" = "1", exp := (a.getD 1 "101").toNat?.getD 0, dp := (a.getD 2 "46").toNat?.getD 0,
    nan := optB (a.getD 3 "-"), inf := optB (a.getD 4 "-"), infinity := optB (a.getD 5 "-") }

/-- `true` = model the debug-assertion / overflow-check build of the harness (`--profile dbg`).
The handler signature carries no profile, so this is a compile-time switch: set to `true`, `lake build driver`,
and compare against `.cache/target/<set>/dbg/run` (done by hand on 2026-09-26: 0 mismatches, all 56 `panic`
results of the long-digit stream predicted). -/
def dbgMode : Bool := false

def fmtOf (s : String) : Format := ⟨(ofHex s).getD 0⟩

def handle (feats : Features) (t : List String) : Option String :=
  let op := t.headD ""
  let op := if op.startsWith "L" then (op.drop 1).toString else op
  match op, t.tail with
  | "pf", ty :: f :: p :: rest =>
    match Fmt.ofName ty with
    | some ft => some (parseFloatModel feats (fmtOf f) (optsOf (rest.take 6)) (p = "1") ft (unhexBytes (rest.getD 6 "_")) dbgMode)
    | none => none
  | "dpf", [ty, p, h] =>
    match Fmt.ofName ty with
    | some ft => some (parseFloatDefaultModel feats (p = "1") ft (unhexBytes h) dbgMode)
    | none => none
  | "pn", f :: p :: rest =>
    some (parseNumberOp feats (fmtOf f) (optsOf (rest.take 6)) (p = "1") (unhexBytes (rest.getD 6 "_")) dbgMode)
  | _, _ => none

end LexVerif.Model.Ops.ParseFloat
