import LexVerif.Model.FormatDecimal
import LexVerif.Model.FormatError
import LexVerif.Model.WriteInt
import LexVerif.Spec.Float
import LexVerif.Gen.Sizes
/-!
# Model.WriteFloat — `WriteFloat::write_float`, buffer-faithful decimal layout, `buffer_size_const`, option validation

Mirrors
* `lexical-write-float/src/write.rs` (`write_float`: `check_buffer` assert, format validity assert, mixed-radix assert,
  sign handling, specials, back-end dispatch by cargo feature and radix),
* the three layout functions of `algorithm.rs` (Dragonbox builds) **and** of `compact.rs` (Grisu builds) together with
  `shared.rs` (`truncate_and_round_decimal`, `round_up`, `min_exact_digits`, `write_exponent(_sign)`, `write_float!`),
  *on a buffer*: every `bytes[i] = …`, `bytes[i..j].fill(…)`, sub-slicing `&mut bytes[k..]` and `copy_to_dst` is a checked
  operation that PANICs when out of range, and the highest index written is tracked (`WBuf.hi` = 1 + that index),
* `Options::buffer_size_const` of `lexical-write-float/src/options.rs` (and the integer one through `Model.WriteInt`),
  with `FORMATTED_SIZE(_DECIMAL)` taken from `Gen.Sizes` (dumped from the compiled crate),
* `OptionsBuilder::build` / `is_valid` of `lexical-write-float/src/options.rs`.

Reading notes (checked against the source):
* None of `write.rs`, `shared.rs`, the three layout functions of `algorithm.rs` and of `compact.rs` contains `unsafe`,
  `get_unchecked` or raw pointers: all indexing there is checked (⇒ PANIC, never FAULT).  The only `unsafe` in
  `algorithm.rs` is the Dragonbox cache lookup `dragonbox_power` (digit generation, not part of this layer).
* The digit writers are called through their *contract*:
  - Dragonbox builds: `F::write_digits(bytes, mant)` = `u64::decimal` / `u32::decimal` = `jeaiii::from_u64` / `from_u32`,
    whose first statement is `&mut buffer[..20]` / `&mut buffer[..10]` (PANIC when the slice is shorter, whatever the
    digit count), and which then writes exactly the digits at the front (`Model.WriteInt.fromU64/fromU32`, C03).
    The exponent is written by `u32::write_exponent_signed`: `jeaiii::from_u32` (again `&mut buffer[..10]`) when the
    exponent radix is 10 or the build has no `power-of-two`; otherwise `radix()` (slice of exactly the digit count).
  - `compact` builds: digits come from a 32-byte temporary and are copied with `copy_to_dst` into exact sub-slices; the
    exponent goes through `Compact::compact` (temporary + `copy_to_dst`): exactly the digit count is demanded.
* The non-compact functions truncate/round *after* the notation was chosen (on the un-carried exponent); the compact
  `write_float` truncates/rounds *first* and chooses the notation on the carried exponent.
-/
namespace LexVerif.Model.WriteFloat
open LexVerif.Spec LexVerif.Model
open LexVerif.Model.WriteInt (Res)

/-! ## effective format flags -/

/-- without the `format` feature every syntax flag of `NumberFormat` is the constant `false`
(`not_feature_format.rs`); radices are kept -/
def effFmt (feats : Features) (fmt : Format) : Format :=
  if feats.format then fmt else ⟨fmt.raw - fmt.raw % 2 ^ 64⟩

/-! ## list level: the `compact` variant and the dispatch -/

/-- `compact::write_float` on lists: round first, carry into the exponent, choose the notation on the carried
exponent, lay out without further rounding. -/
def writeDigitsC (fmt : Format) (feats : Features) (ds : List Nat) (sciExp : Int) (o : WOpts) : List Nat :=
  let tr := truncateAndRound ds o
  let sci := sciExp + (if tr.2 then 1 else 0)
  let o' := { o with maxDigits := none }
  let minExp := o.negBreak.getD (-5)
  let maxExp := o.posBreak.getD 9
  let outside := sci < minExp ∨ sci > maxExp
  let require := fmt.requiredExponentNotation ∨ outside
  if ¬ fmt.noExponentNotation ∧ require then writeScientific fmt feats tr.1 sci o' fmt.exponentRadix
  else if sci < 0 then writeNegative tr.1 sci o'
  else writePositive tr.1 sci o'

/-- `algorithm::write_float` on lists (as `Model.writeDigits`, with the format's exponent radix) -/
def writeDigitsN (fmt : Format) (feats : Features) (ds : List Nat) (sciExp : Int) (o : WOpts) : List Nat :=
  let minExp := o.negBreak.getD (-5)
  let maxExp := o.posBreak.getD 9
  let outside := sciExp < minExp ∨ sciExp > maxExp
  let require := fmt.requiredExponentNotation ∨ outside
  if ¬ fmt.noExponentNotation ∧ require then writeScientific fmt feats ds sciExp o fmt.exponentRadix
  else if sciExp < 0 then writeNegative ds sciExp o
  else writePositive ds sciExp o

/-- the decimal back-end selected by the feature set, on lists -/
def writeDecimal (fmt : Format) (feats : Features) (ds : List Nat) (sciExp : Int) (o : WOpts) : List Nat :=
  if feats.compact then writeDigitsC (effFmt feats fmt) feats ds sciExp o
  else writeDigitsN (effFmt feats fmt) feats ds sciExp o

/-! ## buffers with a high-water mark -/

structure WBuf where
  bytes : List Nat
  /-- 1 + highest index written so far (0: nothing written) -/
  hi : Nat
deriving Repr, DecidableEq

/-- the list `l` with `xs` copied over positions `off .. off + xs.length` (pointwise; length-preserving) -/
def upd (l : List Nat) (off : Nat) (xs : List Nat) : List Nat :=
  l.mapIdx fun i x => if off ≤ i ∧ i < off + xs.length then xs.getD (i - off) 0 else x

namespace WBuf
def len (b : WBuf) : Nat := b.bytes.length
/-- effect of writing `xs` at `off` (in range).  An empty write counts `off` itself as reached; wherever the layout
functions write an empty slice (`fill(i..i)`, an absent exponent sign, fraction digits already in place) `off` is
at or below the mark already, so the mark stays exact. -/
def put (b : WBuf) (off : Nat) (xs : List Nat) : WBuf :=
  ⟨upd b.bytes off xs, max b.hi (off + xs.length)⟩
/-- `bytes[i] = v` -/
def set (b : WBuf) (i v : Nat) : Res WBuf :=
  if i < b.len then .ok (b.put i [v]) else .panic
/-- `bytes[i]` -/
def get (b : WBuf) (i : Nat) : Res Nat :=
  if i < b.len then .ok (b.bytes.getD i 0) else .panic
/-- `copy_to_dst(&mut bytes[off..off + xs.len()], xs)` / a digit writer's effect -/
def blit (b : WBuf) (off : Nat) (xs : List Nat) : Res WBuf :=
  if off + xs.length ≤ b.len then .ok (b.put off xs) else .panic
/-- `bytes[i..j].fill(v)` (slice index order and end are checked) -/
def fill (b : WBuf) (i j v : Nat) : Res WBuf :=
  if i ≤ j ∧ j ≤ b.len then .ok (b.put i (List.replicate (j - i) v)) else .panic
/-- `&mut bytes[k..]` exists and is at least `need` long (`&mut (&mut bytes[k..])[..need]`) -/
def demand (b : WBuf) (k need : Nat) : Res Unit :=
  if k ≤ b.len ∧ need ≤ b.len - k then .ok () else .panic
end WBuf

/-- cursor + buffer -/
structure Out where
  buf : WBuf
  cursor : Nat
deriving Repr, DecidableEq

/-! ## digit-writer contracts -/

/-- slice length `F::write_digits` demands (Dragonbox builds): `jeaiii::from_u64` → `[..20]`, `from_u32` → `[..10]` -/
def mantNeed (f : Fmt) : Nat := if f.p = 24 then 10 else 20

/-- slice length `u32::write_exponent_signed` demands for `count` exponent digits -/
def expNeed (feats : Features) (expRadix count : Nat) : Nat :=
  if feats.compact then count
  else if ¬ feats.powerOfTwo ∨ expRadix = 10 then 10
  else count

/-- sign bytes of `shared::write_exponent_sign` -/
def expSign (fmt : Format) (feats : Features) (exp : Int) : List Nat :=
  if exp < 0 then [45] else if feats.format ∧ fmt.requiredExponentSign then [43] else []

/-- `shared::write_exponent` at `cursor`.  The optional sign is written with `blit`: for the empty sign this only
asks `cursor ≤ len`, which is exactly what the `&mut bytes[*cursor..]` that follows demands. -/
def writeExponentB (fmt : Format) (feats : Features) (b : WBuf) (cursor : Nat) (exp : Int) (expChar : Nat) : Res Out := do
  let b ← b.set cursor expChar
  let b ← b.blit (cursor + 1) (expSign fmt feats exp)
  let c2 := cursor + 1 + (expSign fmt feats exp).length
  let digits := numeral fmt.exponentRadix exp.natAbs
  let _ ← b.demand c2 (expNeed feats fmt.exponentRadix digits.length)
  let b ← b.blit c2 digits
  .ok ⟨b, c2 + digits.length⟩

/-- trailing zeros: `bytes[cursor..cursor + zeros].fill(b'0')` when `count < exact` -/
def padZeros (b : WBuf) (cursor count exact : Nat) : Res Out :=
  if count < exact then do
    let b ← b.fill cursor (cursor + (exact - count)) 48
    .ok ⟨b, cursor + (exact - count)⟩
  else .ok ⟨b, cursor⟩

/-! ## Dragonbox builds (`algorithm.rs`) -/

/-- the fraction part of `write_float_scientific` (both back-ends): what follows `bytes[1] = decimal_point`.
`frac` = the digits after the first one when they still have to be copied (`compact`), `[]` when they are in place. -/
def sciBody (fmt : Format) (count : Nat) (frac : List Nat) (o : WOpts) (b : WBuf) : Res Out :=
  let exact := minExactDigits count o
  if ¬ fmt.noExponentWithoutFraction ∧ count = 1 ∧ o.trim then .ok ⟨b, 1⟩
  else if count < exact then b.blit 2 frac >>= fun b => padZeros b (count + 1) count exact
  else if count = 1 then b.set 2 48 >>= fun b => .ok ⟨b, 3⟩
  else b.blit 2 frac >>= fun b => .ok ⟨b, count + 1⟩

/-- `algorithm::write_float_scientific` -/
def sciN (fmt : Format) (feats : Features) (need : Nat) (ds : List Nat) (sciExp : Int) (o : WOpts) (b : WBuf) : Res Out := do
  let _ ← b.demand 1 need                      -- `&mut bytes[1..]`, then the digit writer's `[..need]`
  let b ← b.blit 1 (chars ds)
  let tr := truncateAndRound ds o
  let b ← b.blit 1 (chars tr.1)                -- in-place rounding inside the digits already written
  let d0 ← b.get 1
  let b ← b.set 0 d0
  let b ← b.set 1 o.dp
  -- fix C14-decimal-trim-after-rounding: `digits[1..digit_count]` all `0` under `trim_floats` ⇒ `digit_count = 1`
  -- (reads inside the digits just written: no new index check can fail)
  let r ← sciBody fmt (trimSci o tr.1).length [] o b        -- the fraction digits are already in place
  writeExponentB fmt feats r.buf r.cursor (sciExp + (if tr.2 then 1 else 0)) o.exp

/-- `algorithm::write_float_negative_exponent` -/
def negN (need : Nat) (ds : List Nat) (sciExp : Int) (o : WOpts) (b : WBuf) : Res Out := do
  let k := sciExp.natAbs
  let cursor := k + 1
  let b ← b.fill 0 cursor 48
  let _ ← b.demand cursor need
  let b ← b.blit cursor (chars ds)
  let tr := truncateAndRound ds o
  let b ← b.blit cursor (chars tr.1)
  let count := tr.1.length
  let exact := minExactDigits count o
  if tr.2 ∧ cursor = 2 then do
    let b ← b.set 0 49
    if o.trim then .ok ⟨b, 1⟩
    else do
      let b ← b.set 1 o.dp
      let b ← b.set 2 48
      -- `digit_count += 1`: the `0` after the point is a written digit (/repo fix of the carry padding)
      padZeros b 3 (count + 1) (minExactDigits (count + 1) o)
  else if tr.2 then do
    let b ← b.set 1 o.dp
    let x ← b.get cursor
    let b ← b.set (cursor - 1) x
    padZeros b cursor count exact
  else do
    let b ← b.set 1 o.dp
    padZeros b (cursor + count) count exact

/-- `algorithm::write_float_positive_exponent` -/
def posN (need : Nat) (ds : List Nat) (sciExp : Int) (o : WOpts) (b : WBuf) : Res Out := do
  let _ ← b.demand 0 need
  let b ← b.blit 0 (chars ds)
  let tr := truncateAndRound ds o
  let b ← b.blit 0 (chars tr.1)
  let leading := sciExp.toNat + 1 + (if tr.2 then 1 else 0)
  -- fix C14-decimal-trim-after-rounding: `bytes[leading..digit_count]` all `0` under `trim_floats` ⇒ integral
  let kept := trimPos o leading tr.1
  let count := kept.length
  if leading ≥ count then do
    let b ← b.fill count leading 48
    if ¬ o.trim then do
      let b ← b.set leading o.dp
      let b ← b.set (leading + 1) 48
      padZeros b (leading + 2) (leading + 1) (minExactDigits (leading + 1) o)
    else .ok ⟨b, leading⟩
  else do
    -- `&mut bytes[leading..count + 1]`, shift right by one, write the point
    let _ ← b.demand leading (count + 1 - leading)
    let b ← b.blit (leading + 1) (chars (kept.drop leading))
    let b ← b.set leading o.dp
    padZeros b (count + 1) count (minExactDigits count o)

/-- `algorithm::write_float` (the `write_float!` choice on the un-carried exponent) -/
def decimalN (fmt : Format) (feats : Features) (need : Nat) (ds : List Nat) (sciExp : Int) (o : WOpts) (b : WBuf) : Res Out :=
  let minExp := o.negBreak.getD (-5)
  let maxExp := o.posBreak.getD 9
  let outside := sciExp < minExp ∨ sciExp > maxExp
  let require := fmt.requiredExponentNotation ∨ outside
  if ¬ fmt.noExponentNotation ∧ require then sciN fmt feats need ds sciExp o b
  else if sciExp < 0 then negN need ds sciExp o b
  else posN need ds sciExp o b

/-! ## `compact` builds (`compact.rs`) -/

/-- `compact::write_float_scientific` once `digit_count` is final -/
def sciCLayout (fmt : Format) (feats : Features) (ds : List Nat) (sciExp : Int) (o : WOpts) (b : WBuf) : Res Out := do
  let b ← b.set 0 (digitChar (ds.headD 0))
  let b ← b.set 1 o.dp
  let r ← sciBody fmt ds.length (chars ds.tail) o b
  writeExponentB fmt feats r.buf r.cursor sciExp o.exp

/-- `compact::write_float_scientific` (digits already rounded): fix C14-decimal-trim-after-rounding (compact part)
first drops an all-zero fraction under `trim_floats` (reads inside the 32-byte temporary only) -/
def sciC (fmt : Format) (feats : Features) (ds : List Nat) (sciExp : Int) (o : WOpts) (b : WBuf) : Res Out :=
  sciCLayout fmt feats (trimSci o ds) sciExp o b

/-- `compact::write_float_negative_exponent` -/
def negC (ds : List Nat) (sciExp : Int) (o : WOpts) (b : WBuf) : Res Out := do
  let k := sciExp.natAbs
  let count := ds.length
  let b ← b.set 0 48
  let b ← b.set 1 o.dp
  let b ← b.fill 2 (k + 1) 48
  let b ← b.blit (k + 1) (chars ds)
  padZeros b (k + 1 + count) count (minExactDigits count o)

/-- `compact::write_float_positive_exponent` once `digit_count` is final -/
def posCLayout (ds : List Nat) (sciExp : Int) (o : WOpts) (b : WBuf) : Res Out := do
  let leading := sciExp.toNat + 1
  let count := ds.length
  if leading ≥ count then do
    let b ← b.blit 0 (chars ds)
    let b ← b.fill count leading 48
    if ¬ o.trim then do
      let b ← b.set leading o.dp
      let b ← b.set (leading + 1) 48
      padZeros b (leading + 2) (leading + 1) (minExactDigits (leading + 1) o)
    else .ok ⟨b, leading⟩
  else do
    let b ← b.blit 0 (chars (ds.take leading))
    let b ← b.set leading o.dp
    let b ← b.blit (leading + 1) (chars (ds.drop leading))
    padZeros b (count + 1) count (minExactDigits count o)

/-- `compact::write_float_positive_exponent`: fix C14-decimal-trim-after-rounding (compact part) first drops the digits
past the point when they are all zero under `trim_floats` -/
def posC (ds : List Nat) (sciExp : Int) (o : WOpts) (b : WBuf) : Res Out :=
  posCLayout (trimPos o (sciExp.toNat + 1) ds) sciExp o b

/-- does the rounded digit string end in `0` (the `debug_assert!(rtrim_char_count(..) == 0 || digit_count == 1)`
at the top of the compact layout functions) -/
def endsInZero (ds : List Nat) : Bool := ds.length ≠ 1 && ds.getLast? = some 0

/-- `compact::write_float` after `grisu`: round in the 32-byte temporary, carry, choose on the carried exponent.
`debug`: debug-assertion build. -/
def decimalC (fmt : Format) (feats : Features) (debug : Bool) (ds : List Nat) (sciExp : Int) (o : WOpts) (b : WBuf) : Res Out :=
  if ds.length > 32 then .panic else
  let tr := truncateAndRound ds o
  let sci := sciExp + (if tr.2 then 1 else 0)
  let o' := { o with maxDigits := none }
  let minExp := o.negBreak.getD (-5)
  let maxExp := o.posBreak.getD 9
  let outside := sci < minExp ∨ sci > maxExp
  let require := fmt.requiredExponentNotation ∨ outside
  if debug ∧ endsInZero tr.1 then .panic
  else if ¬ fmt.noExponentNotation ∧ require then sciC fmt feats tr.1 sci o' b
  else if sci < 0 then negC tr.1 sci o' b
  else posC tr.1 sci o' b

/-- the decimal back-end on a buffer -/
def decimalB (fmt : Format) (feats : Features) (f : Fmt) (debug : Bool) (ds : List Nat) (sciExp : Int) (o : WOpts)
    (b : WBuf) : Res Out :=
  if feats.compact then decimalC (effFmt feats fmt) feats debug ds sciExp o b
  else decimalN (effFmt feats fmt) feats (mantNeed f) ds sciExp o b

/-! ## `buffer_size_const` -/

/-- `(FORMATTED_SIZE, FORMATTED_SIZE_DECIMAL)` rows of the feature set (`Gen.Sizes`, dumped from the crate):
`power-of-two`/`radix` builds use the radix sizes -/
def sizeRows (feats : Features) : List (Nat × Nat) :=
  if feats.powerOfTwo then (if feats.compact then Gen.Sizes.sizesCompactRadix else Gen.Sizes.sizesRadix)
  else Gen.Sizes.sizesDefault

/-- index of a type in `Gen.Sizes.types` -/
def typeIndex (name : String) : Nat := (Gen.Sizes.types.map (·.name)).idxOf name

def formattedSize (feats : Features) (name : String) : Nat := ((sizeRows feats).getD (typeIndex name) (0, 0)).1
def formattedSizeDecimal (feats : Features) (name : String) : Nat := ((sizeRows feats).getD (typeIndex name) (0, 0)).2

def tyName (f : Fmt) : String := if f.p = 24 then "f32" else "f64"

/-- `i32::abs` in a release build (`i32::MIN` wraps to itself) -/
def absI32 (x : Int) : Int := if x = -(2 ^ 31) then x else if x < 0 then -x else x
/-- `as usize` of an `i32` -/
def asUsize (x : Int) : Nat := (x % (2 ^ 64 : Int)).toNat

/-- significant-digit allowance of `buffer_size_const` -/
def sizeDigits (radix : Nat) (o : WOpts) : Nat :=
  let formatted := if radix = 10 then 28 else 64
  let d := match o.maxDigits with | some mx => min formatted mx | none => formatted
  match o.minDigits with | some mn => max d mn | none => d

/-- exponent / leading-zero allowance of `buffer_size_const` -/
def sizeExp (feats : Features) (fmt : Format) (o : WOpts) : Nat :=
  if ¬ (effFmt feats fmt).noExponentNotation then
    let minExp := o.negBreak.getD (-5)
    let maxExp := o.posBreak.getD 9
    let exp := asUsize (max (absI32 minExp) maxExp)
    if feats.powerOfTwo ∧ exp < 13 then 13 else if exp < 5 then 5 else exp
  else if feats.powerOfTwo then 1075 else 324

/-- `lexical_write_float::Options::buffer_size_const::<T, FORMAT>` -/
def bufferSizeConstOld (feats : Features) (f : Fmt) (fmt : Format) (o : WOpts) : Nat :=
  let fs := if fmt.mantissaRadix = 10 then formattedSizeDecimal feats (tyName f) else formattedSize feats (tyName f)
  max (2 + sizeExp feats fmt o + sizeDigits fmt.mantissaRadix o) fs

/-! ### the repaired formula (`fixes/C09-buffer-size-const.diff`)

Two changes, both only ever enlarge the result: `max_significant_digits` no longer shrinks the digit allowance (all
generated digits are written before they are truncated, and the digit writer claims a fixed 20/10-byte window), and the
exponent allowance is at least 12 (symbol, sign and the exponent writer's fixed 10-byte window). -/

def sizeDigitsFixed (radix : Nat) (o : WOpts) : Nat :=
  let formatted := if radix = 10 then 28 else 64
  match o.minDigits with | some mn => max formatted mn | none => formatted

def sizeExpFixed (feats : Features) (fmt : Format) (o : WOpts) : Nat :=
  if ¬ (effFmt feats fmt).noExponentNotation then
    let minExp := o.negBreak.getD (-5)
    let maxExp := o.posBreak.getD 9
    let exp := asUsize (max (absI32 minExp) maxExp)
    if feats.powerOfTwo ∧ exp < 13 then 13 else if exp < 12 then 12 else exp
  else if feats.powerOfTwo then 1075 else 324

/-- `buffer_size_const` after `fixes/C09-buffer-size-const.diff` -/
def bufferSizeConst (feats : Features) (f : Fmt) (fmt : Format) (o : WOpts) : Nat :=
  let fs := if fmt.mantissaRadix = 10 then formattedSizeDecimal feats (tyName f) else formattedSize feats (tyName f)
  max (2 + sizeExpFixed feats fmt o + sizeDigitsFixed fmt.mantissaRadix o) fs

/-- `lexical_write_integer::Options::buffer_size_const::<T, FORMAT>` from `Gen.Sizes` -/
def intBufferSizeConstOld (feats : Features) (name : String) (radix : Nat) : Nat :=
  if radix = 10 then formattedSizeDecimal feats name else formattedSize feats name

/-! ## option validation -/

def isValidLetter (c : Nat) : Bool := (0x41 ≤ c && c ≤ 0x5a) || (0x61 ≤ c && c ≤ 0x7a)

/-- error of one special string in `OptionsBuilder::build` -/
def specialError (s : Option (List Nat)) (a b : Nat) (invalid tooLong : String) : Option String :=
  match s with
  | none => none
  | some s =>
    if s.isEmpty || !(s.head? = some a || s.head? = some b) then some invalid
    else if !s.all isValidLetter then some invalid
    else if s.length > 50 then some tooLong
    else none

/-- `OptionsBuilder::build` of lexical-write-float: `none` = `Ok`, otherwise the `Error` kind.
`maxDigits`/`minDigits`/breaks are `Option<NonZero…>`; `unwrap_or_zero`/`unwrap_or_max` as in the source. -/
def wOptsError (o : WOpts) : Option String :=
  match specialError o.nan 78 110 "InvalidNanString" "NanStringTooLong" with
  | some e => some e
  | none =>
    match specialError o.inf 73 105 "InvalidInfString" "InfStringTooLong" with
    | some e => some e
    | none =>
      let minD := o.minDigits.getD 0
      if (match o.maxDigits with | some mx => decide (mx < minD) | none => false) then some "InvalidFloatPrecision"
      else if o.negBreak.getD 0 > 0 then some "InvalidNegativeExponentBreak"
      else if o.posBreak.getD 0 < 0 then some "InvalidPositiveExponentBreak"
      else if !FormatError.isValidAscii o.exp then some "InvalidExponentSymbol"
      else if !FormatError.isValidAscii o.dp then some "InvalidDecimalPoint"
      else none

/-- `Options::is_valid` (= `rebuild().is_valid()`): punctuation and special strings only -/
def wOptsIsValid (o : WOpts) : Bool :=
  let strOk (s : Option (List Nat)) (a b : Nat) : Bool :=
    match s with
    | none => true
    | some s => !(s.length = 0 || s.length > 50) && (s.head? = some a || s.head? = some b) && s.all isValidLetter
  FormatError.isValidAscii o.exp && FormatError.isValidAscii o.dp && strOk o.nan 78 110 && strOk o.inf 73 105

/-! ## `WriteFloat::write_float` -/

inductive Backend where
  | decimal | hex | binary | radix
deriving Repr, DecidableEq

/-- back-end chosen by `write_float` for a non-special value -/
def backend (feats : Features) (fmt : Format) : Backend :=
  let radix := fmt.mantissaRadix
  if ¬ feats.powerOfTwo then .decimal
  else if radix = 10 then .decimal
  else if radix ≠ fmt.exponentBase then .hex
  else if ¬ feats.radix then .binary
  else if radix = 2 ∨ radix = 4 ∨ radix = 8 ∨ radix = 16 ∨ radix = 32 then .binary
  else .radix

/-- the `assert!(matches!((radix, exponent_base), (4,2)|(8,2)|(16,2)|(32,2)|(16,4)))` of `power-of-two` builds -/
def mixedRadixOk (feats : Features) (fmt : Format) : Bool :=
  let r := fmt.mantissaRadix
  let b := fmt.exponentBase
  !feats.powerOfTwo || r = b || (b = 2 && (r = 4 || r = 8 || r = 16 || r = 32)) || (r = 16 && b = 4)

/-- result of the whole call: returned length, buffer, high-water mark -/
structure Written where
  bytes : List Nat
  len : Nat
  hi : Nat
deriving Repr, DecidableEq

inductive Outcome where
  | done (w : Written)
  | panic
  | fault
  /-- a non-decimal back-end runs on `&mut bytes[signLen..]` (modelled elsewhere) -/
  | other (which : Backend) (signLen : Nat)
deriving Repr, DecidableEq

/-- run `f` on `&mut bytes[k..]` (k = 0 or 1 after the sign byte) -/
def onTail (pre : List Nat) (rest : List Nat) (f : WBuf → Res Out) : Outcome :=
  match f ⟨rest, 0⟩ with
  | .ok r =>
    .done ⟨pre ++ r.buf.bytes, pre.length + r.cursor, if r.buf.hi = 0 then pre.length else pre.length + r.buf.hi⟩
  | .panic => .panic
  | .fault => .fault

/-- `write_special` = `copy_to_dst(bytes, s)` -/
def writeSpecial (s : Option (List Nat)) (b : WBuf) : Res Out :=
  match s with
  | none => .panic
  | some s => do
    let b ← b.blit 0 s
    .ok ⟨b, s.length⟩

/-- the caller's `&mut bytes[..count]` -/
def finalCheck : Outcome → Outcome
  | .done w => if w.len ≤ w.bytes.length then .done w else .panic
  | x => x

/-- `WriteFloat::write_float::<FORMAT>(self, bytes, options)`; `digits` = what the decimal digit generator
(Dragonbox / Grisu) returns for `|self|`: significant digit values and scientific exponent (`([0], 0)` for zero).
The caller's `&mut bytes[..count]` is the final `len ≤ bytes.length` check. -/
def writeFloatB (bound : Nat) (feats : Features) (f : Fmt) (fmt : Format) (o : WOpts) (debug : Bool) (bits : Nat)
    (digits : List Nat × Int) (buf : List Nat) : Outcome :=
  -- assert!(check_buffer(..)); assert!(format.is_valid()); mixed-radix assert
  if buf.length < bound then .panic
  else if ¬ FormatError.isValid feats fmt.raw then .panic
  else if ¬ mixedRadixOk feats fmt then .panic
  else
    let neg := f.isNeg bits ∧ ¬ f.isNaN bits                        -- needs_negative_sign
    let plus := feats.format ∧ fmt.requiredMantissaSign
    let sign : List Nat := if neg then [45] else if plus then [43] else []
    -- `bytes[0] = sign` (checked), `&mut bytes[1..]`
    if sign.length > buf.length then .panic
    else
      let rest := buf.drop sign.length
      let out :=
        if ¬ f.isSpecial bits then
          match backend feats fmt with
          | .decimal => onTail sign rest (decimalB fmt feats f debug digits.1 digits.2 o)
          | be => .other be sign.length
        else if f.isNaN bits then onTail sign rest (writeSpecial o.nan)
        else onTail sign rest (writeSpecial o.inf)
      finalCheck out

/-- `write_float` with the current `buffer_size_const` in `check_buffer` -/
def writeFloatOld (feats : Features) (f : Fmt) (fmt : Format) (o : WOpts) (debug : Bool) (bits : Nat)
    (digits : List Nat × Int) (buf : List Nat) : Outcome :=
  writeFloatB (bufferSizeConstOld feats f fmt o) feats f fmt o debug bits digits buf

/-- `write_float` with the repaired `buffer_size_const` in `check_buffer` -/
def writeFloat (feats : Features) (f : Fmt) (fmt : Format) (o : WOpts) (debug : Bool) (bits : Nat)
    (digits : List Nat × Int) (buf : List Nat) : Outcome :=
  writeFloatB (bufferSizeConst feats f fmt o) feats f fmt o debug bits digits buf

end LexVerif.Model.WriteFloat
