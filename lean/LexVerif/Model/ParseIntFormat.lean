import LexVerif.Model.ParseInt
import LexVerif.Model.Iter
/-!
# Model.ParseIntFormat — `lexical-parse-integer/src/algorithm.rs` compiled WITH cargo feature `format`

Statement-by-statement model of the `#[cfg(feature = "format")]` expansion of `algorithm!`
(`algorithm_complete` / `algorithm_partial`) and of its helper macros `parse_sign!`, `required_digits!`,
`into_ok_complete!/partial!`, `invalid_digit_complete!/partial!`, `fmt_invalid_digit!`,
`parse_1digit_unchecked!/checked!`, `parse_digits_unchecked!/checked!`, on top of the skip iterators of
`Model.Iter` (`lexical-util/src/skip.rs`, `iterator.rs`). The arithmetic (`wrapping_*`, `checked_*`, SWAR
`try_parse_4digits/8digits`, `overflow_digits`) is shared with `Model.ParseInt`.

Faithful INCLUDING behaviour that contradicts the properties (known_findings.json C11-int-*, C12-base-prefix-*,
C12-no-digits-*, C13-*, C10-dbg-int-suffix-with-separator): nothing is repaired here.

Conventions (BUILDING.md)
* `Env.c.debug = true` models a build with `debug-assertions` and `overflow-checks` (harness profile `dbg`):
  every `debug_assert!` on the path, and the `usize` subtractions that are not `wrapping_*`, yield `Err.panic`.
* `unsafe { iter.step_unchecked() }`, `Bytes::from_parts`, `set_cursor`, `step_by_unchecked`: the safety
  precondition is tested and `Err.fault "unchecked"` returned when it fails (proved unreachable in `Props/C04Format.lean`).
* loops over a skip iterator carry fuel (`buffer length + 1`, each `next()` moves the cursor by at least one byte);
  running out of fuel is `Err.fault "fuel"`.
* the result keeps the index also for the complete parser (`Ok(value)` drops it): the renderer and `complete` project.
-/
namespace LexVerif.Model.ParseIntFormat
open LexVerif.Spec LexVerif.Model
open LexVerif.Model.ParseInt (charToDigit overflowDigits toInt mulAddWrapping mulAddChecked loop8 loop4 canMulti)

/-- what the entry point returns: `Ok((value, index))`, or `Error::Kind(index)` / panic / fault -/
abbrev Res := Except Err (Int × Nat)

/-- decidable equality of results (for `decide`d witnesses); named, so that it cannot clash with a derived instance -/
instance exceptDecEq {ε α : Type} [DecidableEq ε] [DecidableEq α] : DecidableEq (Except ε α)
  | .ok a, .ok b => if h : a = b then isTrue (by rw [h]) else isFalse (fun h' => by cases h'; exact h rfl)
  | .error a, .error b => if h : a = b then isTrue (by rw [h]) else isFalse (fun h' => by cases h'; exact h rfl)
  | .ok _, .error _ => isFalse (fun h => by cases h)
  | .error _, .ok _ => isFalse (fun h => by cases h)

/-- statement sequence with early `return`: `.error r` = the function returned `r` -/
abbrev Flow (α : Type) := Except Res α

/-- compile-time parameters of one instantiation `algorithm_*::<T, FORMAT>(bytes, options)` -/
structure Env where
  c : Cfg
  t : IntTy
  partial_ : Bool
  noMulti : Bool
deriving Repr

namespace Env
variable (e : Env)
/-- `NumberFormat::<FORMAT>::MANTISSA_RADIX` (= `format.radix()`) -/
def radix : Nat := e.c.mantissaRadix
/-- `IntegerDigitsIterator::IS_CONTIGUOUS` -/
def contig : Bool := e.c.iterContiguous .integer
/-- `required_digits!()` -/
def requiredDigits : Bool := e.c.requiredIntegerDigits || e.c.requiredMantissaDigits
/-- `as_cast(radix)` into `T` -/
def radixT : Nat := e.radix % 2 ^ e.t.bits
end Env

/-- an iterator operation inside the algorithm: its failure is the function's result -/
def liftI {α : Type} : Except Err α → Flow α
  | .ok a => .ok a
  | .error x => .error (.error x)

def err (kind : String) (i : Nat) : Res := .error (.err kind i)

/-- `a - b` on `usize`: wraps in release, panics with `overflow-checks` -/
def usizeSub (debug : Bool) (a b : Nat) : Except Err Nat :=
  if b ≤ a then .ok (a - b)
  else if debug then .error (.panic "attempt to subtract with overflow")
  else .ok (a + 2 ^ 64 - b)

/-- `into_ok_complete!` / `into_ok_partial!` (`as_cast` of a `T` into `T` is the identity) -/
def intoOk (e : Env) (value index count : Nat) : Res :=
  if e.requiredDigits && count == 0 then err "Empty" index else .ok (toInt e.t value, index)

/-- `invalid_digit_complete!` / `invalid_digit_partial!` (`$index - 1`) -/
def invalidDigit (e : Env) (value index count : Nat) : Res :=
  match usizeSub e.c.debug index 1 with
  | .error x => .error x
  | .ok i => if e.partial_ then intoOk e value i count else err "InvalidDigit" i

/-- `unsafe { iter.step_unchecked() }` on the integer iterator -/
def stepChecked (c : Cfg) (b : Bytes) : Except Err Bytes :=
  if b.index ≥ b.slc.length then .error (.fault "unchecked") else iterStep c .integer b

/-- `is_suffix` of `fmt_invalid_digit!` (`uncased_base_suffix` holds `CASE_SENSITIVE_BASE_SUFFIX`) -/
def isSuffixByte (c : Cfg) (ch : Nat) : Bool :=
  if c.caseSensitiveBaseSuffix then ch == c.baseSuffix else eqIgnoreCase ch c.baseSuffix

/-- outcome of `fmt_invalid_digit!`: `break` out of the digit loop, or `return` -/
inductive Inv where
  | brk
  | ret (r : Res)

/-- `fmt_invalid_digit!($value, $iter, $c, $start_index, $invalid_digit, $is_end)`; `b` is the iterator after
`next()` returned the non-digit `ch`. -/
def fmtInvalidDigit (e : Env) (b : Bytes) (ch startIndex value : Nat) (isEnd : Bool) : Inv :=
  if e.c.debug && !(e.contig || isEnd) then .ret (.error (.panic "fmt_invalid_digit: !is_contiguous && !is_end"))
  else
    let baseSuffix := e.c.baseSuffix
    let fin (b : Bytes) : Inv := .ret (invalidDigit e value b.cursor (b.iterCount e.c .integer))
    if baseSuffix ≠ 0 then
      match usizeSub e.c.debug b.cursor startIndex with
      | .error x => .ret (.error x)
      | .ok diff =>
        if diff > 1 then
          if isSuffixByte e.c ch && isEnd && b.isBufferEmpty then .brk
          else if !b.isBufferEmpty then
            match stepChecked e.c b with
            | .error x => .ret (.error x)
            | .ok b => fin b
          else fin b
        else fin b
    else fin b

/-- `parse_1digit_unchecked!`: `sub` selects `wrapping_sub` -/
def parse1Unchecked (e : Env) (sub isEnd : Bool) (startIndex : Nat) : Nat → Bytes → Nat → Flow (Bytes × Nat)
  | 0, _, _ => .error (.error (.fault "fuel"))
  | fuel + 1, b, value =>
    match iterNext e.c .integer b with
    | .error x => .error (.error x)
    | .ok (none, b) => .ok (b, value)
    | .ok (some ch, b) =>
      match charToDigit ch e.radix with
      | none =>
        match fmtInvalidDigit e b ch startIndex value isEnd with
        | .brk => .ok (b, value)
        | .ret r => .error r
      | some d => parse1Unchecked e sub isEnd startIndex fuel b (mulAddWrapping e.t sub value e.radixT d)

/-- `parse_1digit_checked!`: `sub` selects `checked_sub` / `Underflow`; `$is_end` is always `true` -/
def parse1Checked (e : Env) (sub : Bool) (startIndex : Nat) : Nat → Bytes → Nat → Flow (Bytes × Nat)
  | 0, _, _ => .error (.error (.fault "fuel"))
  | fuel + 1, b, value =>
    match iterNext e.c .integer b with
    | .error x => .error (.error x)
    | .ok (none, b) => .ok (b, value)
    | .ok (some ch, b) =>
      match charToDigit ch e.radix with
      | none =>
        match fmtInvalidDigit e b ch startIndex value true with
        | .brk => .ok (b, value)
        | .ret r => .error r
      | some d =>
        match mulAddChecked e.t sub value e.radixT d with
        | some v => parse1Checked e sub startIndex fuel b v
        | none =>
          match usizeSub e.c.debug b.cursor 1 with
          | .error x => .error (.error x)
          | .ok i => .error (err (if sub then "Underflow" else "Overflow") i)

/-- the `while let Some(v) = try_parse_Ndigits(..)` loops of `Model.ParseInt` run on `as_slice()` of a contiguous
iterator (`peek_u64`/`peek_u32` need `IS_CONTIGUOUS`); the cursor they return is written back.
`try_parse_8digits`' `debug_assert!`s: radix ≤ 10 and `IS_CONTIGUOUS`.

Digit count (repo fix 7e8a135): with the `format` feature every block stepped over is followed by 8 / 4 calls of
`iter.increment_count()`, i.e. `integer_count += cursor' - cursor`; written back into `ic` below. In the INTEGER parser
this is unobservable: the fast paths run only for `Iter::IS_CONTIGUOUS` (`can_try_parse_multidigits`), and a contiguous
component iterator's `current_count()` is the cursor (repo fix 12a2453, `Bytes.iterCount`), which is what every reader
of the count in `algorithm!` goes through (`skip_zeros`, `fmt_invalid_digit!`, the leading-zero block, the final
`$into_ok!`; the `peek_*!` predicates read it for non-contiguous iterators only); `Bytes::current_count` (the sum of the
three counts) is never called, the `Bytes` object is local to `algorithm!`, and the `take_n` sub-buffer (`from_parts`:
counts 0) is dropped after its loop. Proved: `Proof.PIF.iterCount_ic_irrelevant`, and the characterisations of
`Proof/ParseIntFormatSimple.lean` hold for every value of `ic`. (The float parser reads the count of the non-contiguous
`Bytes`; its model `Model.ParseNumber` counts the blocks separately.) -/
def multiLoop (e : Env) (sub : Bool) (b : Bytes) (value : Nat) : Flow (Bytes × Nat) :=
  let useMulti := e.contig && canMulti e.c.feats e.radix && !e.noMulti
  let wide := useMulti && decide (e.t.bits ≥ 64) && decide (b.bufferLength ≥ 8)
  let mid := useMulti && decide (e.t.bits = 32) && decide (b.bufferLength ≥ 4)
  if wide || mid then
    if e.c.debug && decide (e.radix > 10) then .error (.error (.panic "try_parse_Ndigits: radix > 10"))
    else if e.c.debug && decide (b.index > b.slc.length) then .error (.error (.panic "as_slice: cursor > len"))
    else
      match (if wide then loop8 e.t e.radix sub b.asSlice value b.index else loop4 e.t e.radix sub b.asSlice value b.index) with
      | .error _ => .error (.error (.fault "unchecked"))
      | .ok (_, value, cursor) =>
        .ok ({ b with index := cursor, ic := if e.c.feats.format then b.ic + (cursor - b.index) else b.ic }, value)
  else .ok (b, value)

/-- `parse_digits_unchecked!` -/
def parseDigitsUnchecked (e : Env) (sub isEnd : Bool) (startIndex : Nat) (b : Bytes) (value : Nat) :
    Flow (Bytes × Nat) :=
  match multiLoop e sub b value with
  | .error r => .error r
  | .ok (b, value) => parse1Unchecked e sub isEnd startIndex (b.slc.length + 1) b value

/-- `parse_digits_checked!`: the `take_n(overflow_digits)` prefix (contiguous integer iterators only), then the
checked loop on the advanced iterator -/
def parseDigitsChecked (e : Env) (sub : Bool) (startIndex : Nat) (b : Bytes) (value od : Nat) : Flow (Bytes × Nat) :=
  let pre : Flow (Bytes × Nat) :=
    if e.contig then
      -- take_n: `end = slc.len().min(n + cursor)`, `Bytes::from_parts(&slc[..end], cursor)`, `set_cursor(end)`
      let end_ := min b.slc.length (od + b.index)
      if end_ < b.index then .error (.error (.fault "unchecked"))
      else
        let small : Bytes := { slc := b.slc.take end_, index := b.index }
        match parseDigitsUnchecked e sub false startIndex small value with
        | .error r => .error r
        | .ok (_, value) => .ok ({ b with index := end_ }, value)
    else .ok (b, value)
  match pre with
  | .error r => .error r
  | .ok (b, value) => parse1Checked e sub startIndex (b.slc.length + 1) b value

/-- `parse_sign::<T, FORMAT>` (`parse_sign!` with `T::IS_SIGNED`, `no_positive_mantissa_sign`,
`required_mantissa_sign`, `InvalidPositiveSign`, `MissingSign`) -/
def parseSign (e : Env) (b : Bytes) : Except Err (Bool × Bytes) :=
  let stepB (b : Bytes) : Except Err Bytes :=
    if b.index ≥ b.slc.length then .error (.fault "unchecked") else b.step e.c
  match b.first with
  | some 43 =>
    if !e.c.noPositiveMantissaSign then
      match stepB b with
      | .error x => .error x
      | .ok b => .ok (false, b)
    else .error (.err "InvalidPositiveSign" b.cursor)
  | some 45 =>
    if e.t.signed then
      match stepB b with
      | .error x => .error x
      | .ok b => .ok (true, b)
    else if e.c.requiredMantissaSign then .error (.err "MissingSign" b.cursor)
    else .ok (false, b)
  | _ => if e.c.requiredMantissaSign then .error (.err "MissingSign" b.cursor) else .ok (false, b)

/-- `if base_prefix != 0 && zeros == 1 { if iter.read_if_value(base_prefix, …).is_some() { … } }`: returns `is_prefix`,
the iterator and the new `start_index` -/
def readPrefix (e : Env) (b : Bytes) (zeros startIndex : Nat) : Flow (Bool × Bytes × Nat) :=
  if e.c.basePrefix ≠ 0 && zeros == 1 then
    match readIfValue e.c .integer e.c.basePrefix e.c.caseSensitiveBasePrefix b with
    | .error x => .error (.error x)
    | .ok (true, b) =>
      if b.isBufferEmpty then .error (err "Empty" b.cursor) else .ok (true, b, startIndex + 1)
    | .ok (false, b) => .ok (false, b, startIndex)
  else .ok (false, b, startIndex)

/-- `if !is_prefix && format.no_integer_leading_zeros() && zeros != 0 { … }` (every arm of its `match` returns) -/
def leadingZeroCheck (e : Env) (isPrefix : Bool) (b : Bytes) (zeros startIndex : Nat) : Flow (Bytes × Nat) :=
  if !isPrefix && e.c.flag Format.noIntegerLeadingZeros false && zeros != 0 then
    match usizeSub e.c.debug b.cursor zeros with
    | .error x => .error (.error x)
    | .ok index =>
      if zeros > 1 then .error (err "InvalidLeadingZeros" index)
      else
        match peek e.c .integer b with
        | .error x => .error (.error x)
        | .ok (some ch, b) =>
          match charToDigit ch e.radix with
          | some _ => .error (err "InvalidLeadingZeros" index)
          | none => .error (invalidDigit e 0 (b.cursor + 1) (b.iterCount e.c .integer))
        | .ok (none, b) => .error (intoOk e 0 b.cursor (b.iterCount e.c .integer))
  else .ok (b, startIndex)

/-- the `if format.has_base_prefix() || format.no_integer_leading_zeros() { … }` block; returns the iterator
and the new `start_index` -/
def prefixZeros (e : Env) (b : Bytes) (startIndex : Nat) : Flow (Bytes × Nat) :=
  if e.c.basePrefix ≠ 0 || e.c.flag Format.noIntegerLeadingZeros false then
    match skipZeros e.c .integer b with
    | .error x => .error (.error x)
    | .ok (zeros, b) =>
      match readPrefix e b zeros (startIndex + zeros) with
      | .error r => .error r
      | .ok (isPrefix, b, startIndex) => leadingZeroCheck e isPrefix b zeros startIndex
  else .ok (b, startIndex)

/-- `if cannot_overflow && is_negative { parse_digits_unchecked!(value, iter, wrapping_sub, …, true) }` -/
def negBlock (e : Env) (cannotOverflow isNegative : Bool) (b : Bytes) (startIndex : Nat) : Flow (Bytes × Nat) :=
  if cannotOverflow && isNegative then parseDigitsUnchecked e true true startIndex b 0 else .ok (b, 0)

/-- (no `else` before it) `if cannot_overflow { … } else if is_negative { … } else { … }` -/
def mainBlock (e : Env) (cannotOverflow isNegative : Bool) (b : Bytes) (value startIndex od : Nat) :
    Flow (Bytes × Nat) :=
  if cannotOverflow then parseDigitsUnchecked e false true startIndex b value
  else if isNegative then parseDigitsChecked e true startIndex b value od
  else parseDigitsChecked e false startIndex b value od

/-- the part of `algorithm!` after `let overflow_digits = T::overflow_digits(radix);`: `cannot_overflow`, the four
digit-loop branches and the final `$into_ok!` -/
def digitsBody (e : Env) (isNegative : Bool) (b : Bytes) (startIndex od : Nat) : Flow Res :=
  if e.c.debug && decide (b.index > b.slc.length) then .error (.error (.panic "as_slice: cursor > len"))
  else
    let cannotOverflow := decide (b.asSlice.length ≤ od)
    match negBlock e cannotOverflow isNegative b startIndex with
    | .error r => .error r
    | .ok (b, value) =>
      match mainBlock e cannotOverflow isNegative b value startIndex od with
      | .error r => .error r
      | .ok (b, value) => .ok (intoOk e value b.bufferLength (b.iterCount e.c .integer))

/-- the part of `algorithm!` after the prefix / leading-zero block -/
def digitsPhase (e : Env) (isNegative : Bool) (b : Bytes) (startIndex : Nat) : Flow Res :=
  digitsBody e isNegative b startIndex (overflowDigits e.t e.radix)

/-- `algorithm!` with the `format` feature -/
def algorithm (e : Env) (s : List Nat) : Flow Res :=
  match parseSign e (Bytes.new s) with
  | .error x => .error (.error x)
  | .ok (isNegative, b) =>
    if b.isBufferEmpty then
      if e.requiredDigits then .error (err "Empty" b.cursor) else .error (intoOk e 0 b.cursor 0)
    else
      match prefixZeros e b b.cursor with
      | .error r => .error r
      | .ok (b, startIndex) => digitsPhase e isNegative b startIndex

/-- `algorithm_complete` / `algorithm_partial` -/
def parseIntFormat (e : Env) (s : List Nat) : Res :=
  match algorithm e s with
  | .ok r => r
  | .error r => r

/-- the complete parser's `Result<T>` -/
def complete (c : Cfg) (t : IntTy) (noMulti : Bool) (s : List Nat) : Except Err Int :=
  (parseIntFormat ⟨c, t, false, noMulti⟩ s).map Prod.fst

/-- the partial parser's `Result<(T, usize)>` -/
def partial_ (c : Cfg) (t : IntTy) (noMulti : Bool) (s : List Nat) : Res :=
  parseIntFormat ⟨c, t, true, noMulti⟩ s

/-- canonical result line (harness format) -/
def render (isPartial : Bool) : Res → String
  | .ok (v, n) => s!"ok {v} {if isPartial then toString n else "-"}"
  | .error (.err k i) => s!"err {k} {i}"
  | .error (.panic _) => "panic"
  | .error (.fault _) => "fault"

end LexVerif.Model.ParseIntFormat
