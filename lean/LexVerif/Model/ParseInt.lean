import LexVerif.Spec.ParseInt
import LexVerif.Model.Format
/-!
# Model.ParseInt — executable model of `lexical-parse-integer/src/algorithm.rs`

Mirrors the `#[cfg(not(feature = "format"))]` expansion of the `algorithm!` macro
(`algorithm_complete` / `algorithm_partial`) together with the no-skip iterator
(`lexical-util/src/noskip.rs`, `iterator.rs`) it runs on.

Conventions
* A value of the Rust integer type `T` is a `Nat` below `2^bits` (two's complement for signed types);
  `wrapping_*` are written with an explicit `% 2^bits`, `checked_*` go through the signed reading
  `toInt` and test the type's range.
* The iterator (`Bytes`/`DigitsIterator`) is the triple `rest = as_slice()`, `cursor`, `bufLen = buffer_length()`.
  `unsafe` steps (`step_unchecked`, `step_by_unchecked`, `from_parts`/`set_cursor` in `take_n`) test their
  safety precondition and yield `MRes.fault` when it does not hold.
* `debug_assert!`s are not modelled (release profile).
* The cargo feature `compact` only toggles `#[inline]` attributes in this crate and in
  `lexical_util::num::Integer::overflow_digits`; it changes no value, hence there is no `compact` parameter.
  `power-of-two`/`radix` matter through `can_try_parse_multidigits` (`Features.powerOfTwo`).
-/
namespace LexVerif.Model.ParseInt
open LexVerif.Spec LexVerif.Model

/-- model result: what the API returns, or an out-of-bounds access -/
inductive MRes where
  | done (r : PRes)
  | fault
deriving DecidableEq, Repr

def MRes.render (partial_ : Bool) : MRes → String
  | .done r => r.render partial_
  | .fault => "fault"

/-! ## lexical-util: digits, `overflow_digits`, fixed-width arithmetic -/

/-- `char_to_digit_const(c, radix)` (`lexical-util/src/digit.rs`), `c` a byte. -/
def charToDigit (c radix : Nat) : Option Nat :=
  let digit :=
    if radix ≤ 10 then (c + 256 - 48) % 256            -- c.wrapping_sub(b'0') as u32
    else if 48 ≤ c ∧ c ≤ 57 then c - 48
    else if 65 ≤ c ∧ c ≤ 90 then c - 65 + 10
    else if 97 ≤ c ∧ c ≤ 122 then c - 97 + 10
    else 255
  if digit < radix then some digit else none

/-- `Integer::overflow_digits(radix)` (`lexical-util/src/num.rs`):
`if radix <= 16 { size_of::<T>() * 2 - IS_SIGNED as usize } else { size_of::<T>() }`. -/
def overflowDigits (t : IntTy) (radix : Nat) : Nat :=
  if radix ≤ 16 then (t.bits / 8) * 2 - (if t.signed then 1 else 0) else t.bits / 8

/-- signed reading of a `T` bit pattern -/
def toInt (t : IntTy) (v : Nat) : Int :=
  if t.signed ∧ 2 ^ (t.bits - 1) ≤ v then (v : Int) - (2 ^ t.bits : Nat) else (v : Int)

/-- bit pattern of an in-range integer -/
def ofInt (t : IntTy) (x : Int) : Nat := (x % ((2 ^ t.bits : Nat) : Int)).toNat

def wrappingMul (t : IntTy) (a b : Nat) : Nat := (a * b) % 2 ^ t.bits
def wrappingAdd (t : IntTy) (a b : Nat) : Nat := (a + b) % 2 ^ t.bits
def wrappingSub (t : IntTy) (a b : Nat) : Nat := (a + (2 ^ t.bits - b % 2 ^ t.bits)) % 2 ^ t.bits

/-- the result of a `checked_*` operation whose exact result is `x` -/
def checked (t : IntTy) (x : Int) : Option Nat :=
  if t.minVal ≤ x ∧ x ≤ t.maxVal then some (ofInt t x) else none
def checkedMul (t : IntTy) (a b : Nat) : Option Nat := checked t (toInt t a * toInt t b)
def checkedAdd (t : IntTy) (a b : Nat) : Option Nat := checked t (toInt t a + toInt t b)
def checkedSub (t : IntTy) (a b : Nat) : Option Nat := checked t (toInt t a - toInt t b)

/-- `$value.wrapping_mul(m).$add_op(x)` with `$add_op ∈ {wrapping_add, wrapping_sub}` -/
def mulAddWrapping (t : IntTy) (sub : Bool) (value m x : Nat) : Nat :=
  if sub then wrappingSub t (wrappingMul t value m) x else wrappingAdd t (wrappingMul t value m) x

/-- `$value.checked_mul(m).and_then(|v| v.$add_op(x))` with `$add_op ∈ {checked_add, checked_sub}` -/
def mulAddChecked (t : IntTy) (sub : Bool) (value m x : Nat) : Option Nat :=
  match checkedMul t value m with
  | none => none
  | some v => if sub then checkedSub t v x else checkedAdd t v x

/-! ## SWAR: `is_4digits`, `parse_4digits`, `is_8digits`, `parse_8digits` -/

/-- little-endian word of a byte list (`u32::from_le(peek_u32())`, `u64::from_le(peek_u64())`) -/
def leWord : List Nat → Nat
  | [] => 0
  | b :: bs => b + 256 * leWord bs

def is4digits (radix v : Nat) : Bool :=
  let add := 0x46 + 10 - radix
  let add := (add + (add <<< 8) % 2 ^ 32 + (add <<< 16) % 2 ^ 32 + (add <<< 24) % 2 ^ 32) % 2 ^ 32
  let sub := 0x30303030
  let a := (v + add) % 2 ^ 32                      -- wrapping_add
  let b := (v + (2 ^ 32 - sub)) % 2 ^ 32           -- wrapping_sub
  (a ||| b) &&& 0x80808080 == 0

def parse4digits (radix v : Nat) : Nat :=
  let v := (v + (2 ^ 32 - 0x30303030)) % 2 ^ 32
  let v := ((v * radix) % 2 ^ 32 + (v >>> 8)) % 2 ^ 32
  (((v &&& 0x7f) * radix % 2 ^ 32) * radix % 2 ^ 32 + ((v >>> 16) &&& 0x7f)) % 2 ^ 32

def is8digits (radix v : Nat) : Bool :=
  let add := 0x46 + 10 - radix
  let add := (add + (add <<< 8) % 2 ^ 32 + (add <<< 16) % 2 ^ 32 + (add <<< 24) % 2 ^ 32) % 2 ^ 32
  let add := add ||| ((add <<< 32) % 2 ^ 64)
  let sub := 0x3030303030303030
  let a := (v + add) % 2 ^ 64
  let b := (v + (2 ^ 64 - sub)) % 2 ^ 64
  (a ||| b) &&& 0x8080808080808080 == 0

def parse8digits (radix v : Nat) : Nat :=
  let radix2 := radix * radix % 2 ^ 64
  let radix4 := radix2 * radix2 % 2 ^ 64
  let radix6 := radix2 * radix4 % 2 ^ 64
  let mask := 0x000000FF000000FF
  let mul1 := (radix2 + (radix6 <<< 32) % 2 ^ 64) % 2 ^ 64
  let mul2 := (1 + (radix4 <<< 32) % 2 ^ 64) % 2 ^ 64
  let v := (v + (2 ^ 64 - 0x3030303030303030)) % 2 ^ 64
  let v := ((v * radix) % 2 ^ 64 + (v >>> 8)) % 2 ^ 64
  let v1 := ((v &&& mask) * mul1) % 2 ^ 64
  let v2 := (((v >>> 16) &&& mask) * mul2) % 2 ^ 64
  (((v1 + v2) % 2 ^ 64) >>> 32) % 2 ^ 32

/-- `NumberFormat::radix2/radix4/radix8` (`u32` wrapping products) -/
def radix2 (radix : Nat) : Nat := radix * radix % 2 ^ 32
def radix4 (radix : Nat) : Nat := radix2 radix * radix2 radix % 2 ^ 32
def radix8 (radix : Nat) : Nat := radix4 radix * radix4 radix % 2 ^ 32

/-! ## the digit loops -/

/-- early return (`Except.error`) or fall through with the updated loop state -/
abbrev Flow (α : Type) := Except MRes α

/-- `into_ok_complete!` / `into_ok_partial!`. The complete parser drops the index; the model keeps it
(the renderer prints it for the partial parser only). -/
def intoOk (t : IntTy) (value index : Nat) : MRes := .done (.ok (toInt t value) index)

/-- `invalid_digit_complete!` / `invalid_digit_partial!`; `index` is `iter.cursor()` *after* `next()`. -/
def invalidDigit (t : IntTy) (partial_ : Bool) (value index : Nat) : MRes :=
  if partial_ then intoOk t value (index - 1) else .done (.invalidDigit (index - 1))

/-- `parse_1digit_unchecked!` on the iterator `(rest, cursor)`. -/
def parse1Unchecked (t : IntTy) (radix : Nat) (partial_ sub : Bool) :
    List Nat → Nat → Nat → Flow (Nat × Nat)
  | [], value, cursor => .ok (value, cursor)
  | c :: cs, value, cursor =>
    let cursor := cursor + 1                                    -- iter.next()
    match charToDigit c radix with
    | none => .error (invalidDigit t partial_ value cursor)
    | some d => parse1Unchecked t radix partial_ sub cs (mulAddWrapping t sub value (radix % 2 ^ t.bits) d) cursor

/-- `parse_1digit_checked!`; `sub` selects `checked_sub`/`Underflow`. -/
def parse1Checked (t : IntTy) (radix : Nat) (partial_ sub : Bool) :
    List Nat → Nat → Nat → Flow (Nat × Nat)
  | [], value, cursor => .ok (value, cursor)
  | c :: cs, value, cursor =>
    let cursor := cursor + 1
    match charToDigit c radix with
    | none => .error (invalidDigit t partial_ value cursor)
    | some d =>
      match mulAddChecked t sub value (radix % 2 ^ t.bits) d with
      | some v => parse1Checked t radix partial_ sub cs v cursor
      | none => .error (.done (if sub then .underflow (cursor - 1) else .overflow (cursor - 1)))

/-- `while let Some(v) = try_parse_8digits(iter) { value = value.wrapping_mul(radix8).$add_op(v) }`.
`peek_u64` is the 8-cons pattern (`as_slice().len() >= 8`), `step_by_unchecked(8)` re-tests its
precondition. Returns the iterator `(rest, cursor)` and the value. -/
def loop8 (t : IntTy) (radix : Nat) (sub : Bool) : List Nat → Nat → Nat → Flow (List Nat × Nat × Nat)
  | b0 :: b1 :: b2 :: b3 :: b4 :: b5 :: b6 :: b7 :: tl, value, cursor =>
    let bytes := leWord [b0, b1, b2, b3, b4, b5, b6, b7]
    if is8digits radix bytes then
      if (b0 :: b1 :: b2 :: b3 :: b4 :: b5 :: b6 :: b7 :: tl).length < 8 then .error .fault   -- step_by_unchecked(8)
      else
        loop8 t radix sub tl
          (mulAddWrapping t sub value (radix8 radix % 2 ^ t.bits) (parse8digits radix bytes % 2 ^ t.bits))
          (cursor + 8)
    else .ok (b0 :: b1 :: b2 :: b3 :: b4 :: b5 :: b6 :: b7 :: tl, value, cursor)
  | rest, value, cursor => .ok (rest, value, cursor)

/-- the same with `try_parse_4digits` -/
def loop4 (t : IntTy) (radix : Nat) (sub : Bool) : List Nat → Nat → Nat → Flow (List Nat × Nat × Nat)
  | b0 :: b1 :: b2 :: b3 :: tl, value, cursor =>
    let bytes := leWord [b0, b1, b2, b3]
    if is4digits radix bytes then
      if (b0 :: b1 :: b2 :: b3 :: tl).length < 4 then .error .fault
      else
        loop4 t radix sub tl
          (mulAddWrapping t sub value (radix4 radix % 2 ^ t.bits) (parse4digits radix bytes % 2 ^ t.bits))
          (cursor + 4)
    else .ok (b0 :: b1 :: b2 :: b3 :: tl, value, cursor)
  | rest, value, cursor => .ok (rest, value, cursor)

/-- `can_try_parse_multidigits` (the no-skip iterator is contiguous) -/
def canMulti (feats : Features) (radix : Nat) : Bool := !feats.powerOfTwo || radix ≤ 10

/-- `parse_digits_unchecked!` on an iterator with the given `buffer_length()`. -/
def parseDigitsUnchecked (t : IntTy) (radix : Nat) (feats : Features) (partial_ noMulti sub : Bool)
    (rest : List Nat) (cursor bufLen value : Nat) : Flow (Nat × Nat) :=
  let useMulti := canMulti feats radix && !noMulti
  let multi : Flow (List Nat × Nat × Nat) :=
    if useMulti && decide (t.bits ≥ 64) && decide (bufLen ≥ 8) then loop8 t radix sub rest value cursor
    else if useMulti && decide (t.bits = 32) && decide (bufLen ≥ 4) then loop4 t radix sub rest value cursor
    else .ok (rest, value, cursor)
  match multi with
  | .error e => .error e
  | .ok (rest, value, cursor) => parse1Unchecked t radix partial_ sub rest value cursor

/-- `parse_digits_checked!`: `take_n(overflow_digits)` prefix without checks, then the checked loop. -/
def parseDigitsChecked (t : IntTy) (radix : Nat) (feats : Features) (partial_ noMulti sub : Bool)
    (rest : List Nat) (cursor bufLen value od : Nat) : Flow (Nat × Nat) :=
  -- take_n
  let end_ := min bufLen (od + cursor)
  if end_ < cursor then .error .fault                      -- Bytes::from_parts(slc[..end], cursor)
  else if bufLen < end_ then .error .fault                 -- set_cursor(end)
  else
    let small := rest.take (end_ - cursor)
    let rest' := rest.drop (end_ - cursor)
    match parseDigitsUnchecked t radix feats partial_ noMulti sub small cursor end_ value with
    | .error e => .error e
    | .ok (value, _) => parse1Checked t radix partial_ sub rest' value end_

/-! ## `parse_sign` and `algorithm!` -/

/-- `parse_sign` without the `format` feature (`no_positive = required = false`).
Returns `is_negative` and the advanced iterator `(rest, cursor)`. -/
def parseSign (signed : Bool) (rest : List Nat) (cursor : Nat) : Flow (Bool × List Nat × Nat) :=
  match rest with                                          -- byte.integer_iter().first()
  | 43 :: _ => if rest.length < 1 then .error .fault else .ok (false, rest.drop 1, cursor + 1)
  | 45 :: _ =>
    if signed then (if rest.length < 1 then .error .fault else .ok (true, rest.drop 1, cursor + 1))
    else .ok (false, rest, cursor)
  | _ => .ok (false, rest, cursor)

/-- `algorithm!` (both `algorithm_complete` and `algorithm_partial`). -/
def parseInt (feats : Features) (t : IntTy) (radix : Nat) (partial_ noMulti : Bool) (s : List Nat) : MRes :=
  let bufLen := s.length
  match parseSign t.signed s 0 with
  | .error e => e
  | .ok (isNegative, rest, cursor) =>
    if cursor ≥ bufLen then .done (.empty cursor)          -- iter.is_buffer_empty()
    else
      let od := overflowDigits t radix
      let cannotOverflow := decide (rest.length ≤ od)
      -- if cannot_overflow && is_negative { .. }
      let st1 : Flow (List Nat × Nat × Nat) :=
        if cannotOverflow && isNegative then
          match parseDigitsUnchecked t radix feats partial_ noMulti true rest cursor bufLen 0 with
          | .error e => .error e
          | .ok (value, cursor) => .ok ([], value, cursor)   -- the loop ran `iter.next()` to `None`
        else .ok (rest, 0, cursor)
      match st1 with
      | .error e => e
      | .ok (rest, value, cursor) =>
        -- (no `else`) if cannot_overflow { .. } else if is_negative { .. } else { .. }
        let st2 : Flow (Nat × Nat) :=
          if cannotOverflow then parseDigitsUnchecked t radix feats partial_ noMulti false rest cursor bufLen value
          else if isNegative then parseDigitsChecked t radix feats partial_ noMulti true rest cursor bufLen value od
          else parseDigitsChecked t radix feats partial_ noMulti false rest cursor bufLen value od
        match st2 with
        | .error e => e
        | .ok (value, _) => intoOk t value bufLen             -- $into_ok!(value, iter.buffer_length(), ..)

end LexVerif.Model.ParseInt
