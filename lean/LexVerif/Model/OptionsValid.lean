import LexVerif.Model.FormatError
import LexVerif.Model.WriteOpts
import LexVerif.Spec.StdFloat
/-!
# Model.OptionsValid — the option validators of the four crates

Mirrors, branch by branch and in source order,
* `lexical-parse-float/src/options.rs`: `OptionsBuilder::{nan_str_is_valid, inf_str_is_valid,
  infinity_string_is_valid, is_valid, build}` (and `Options::is_valid` = `rebuild().is_valid()`),
* `lexical-write-float/src/options.rs`: `OptionsBuilder::{nan_str_is_valid, inf_str_is_valid, is_valid, build}`,
* `lexical-parse-integer/src/options.rs`, `lexical-write-integer/src/options.rs`: `is_valid`, `build` (constant),
* `lexical-util/src/ascii.rs`: `is_valid_letter`, `is_valid_letter_slice` (`is_valid_ascii` is `FormatError.isValidAscii`).

`Option<&'static [u8]>` is `Option (List Nat)`; `build` returns `Except <Error kind name> Unit` (the `Ok` payload is
`build_unchecked`, a field-by-field copy). `Option<NonZeroUsize>` / `Option<NonZeroI32>` are `Option Nat` /
`Option Int` whose payload is non-zero (`WOpts.NonZero`); `usize` is 64 bits.
-/
namespace LexVerif.Model.OptionsValid
open LexVerif.Model LexVerif.Spec
open LexVerif.Model.FormatError (isValidAscii)

/-- `MAX_SPECIAL_STRING_LENGTH` -/
def maxSpecialStringLength : Nat := 50

/-- `ascii::is_valid_letter` -/
def isValidLetter (c : Nat) : Bool := (0x41 ≤ c && c ≤ 0x5a) || (0x61 ≤ c && c ≤ 0x7a)

/-- `ascii::is_valid_letter_slice` (a `while` loop returning `false` at the first non-letter) -/
def isValidLetterSlice : List Nat → Bool
  | [] => true
  | c :: cs => if !isValidLetter c then false else isValidLetterSlice cs

/-- `unwrap_str` -/
def unwrapStr (o : Option (List Nat)) : List Nat := match o with | some x => x | none => []

/-- `matches!(s[0], a | b)`; reached only after the emptiness test, an out-of-range index would panic -/
def firstIs (s : List Nat) (a b : Nat) : Bool := match s with | [] => false | c :: _ => c == a || c == b

/-! ## lexical-parse-float -/
namespace ParseFloat

/-- `OptionsBuilder::nan_str_is_valid` -/
def nanStrIsValid (o : POpts) : Bool :=
  if o.nan.isNone then true
  else
    let nan := unwrapStr o.nan
    let length := nan.length
    if length == 0 || length > maxSpecialStringLength then false
    else if !firstIs nan 78 110 then false
    else if !isValidLetterSlice nan then false
    else true

/-- `OptionsBuilder::inf_str_is_valid` -/
def infStrIsValid (o : POpts) : Bool :=
  if o.infinity.isNone && o.inf.isSome then false
  else if o.inf.isNone then true
  else
    let inf := unwrapStr o.inf
    let length := inf.length
    let infinity := unwrapStr o.infinity
    if length == 0 || length > maxSpecialStringLength then false
    else if !firstIs inf 73 105 then false
    else if length > infinity.length then false
    else if !isValidLetterSlice inf then false
    else true

/-- `OptionsBuilder::infinity_string_is_valid` -/
def infinityStringIsValid (o : POpts) : Bool :=
  if o.infinity.isNone && o.inf.isSome then false
  else if o.infinity.isNone then true
  else
    let inf := unwrapStr o.inf
    let infinity := unwrapStr o.infinity
    let length := infinity.length
    if length == 0 || length > maxSpecialStringLength then false
    else if !firstIs infinity 73 105 then false
    else if length < inf.length then false
    else if !isValidLetterSlice infinity then false
    else true

/-- `OptionsBuilder::is_valid` (`Options::is_valid` rebuilds the builder and calls this) -/
def isValid (o : POpts) : Bool :=
  if !isValidAscii o.exp then false
  else if !isValidAscii o.dp then false
  else if !nanStrIsValid o then false
  else if !infStrIsValid o then false
  else if !infinityStringIsValid o then false
  else true

/-- one `if self.X_string.is_some() { … }` block of `build`: `some kind` = `return Err(kind)`, `none` = fall through.
Order inside the block: empty / wrong first letter, non-letter, too long. -/
def stringBlock (s : Option (List Nat)) (a b : Nat) (invalid tooLong : String) : Option String :=
  if s.isSome then
    let str := unwrapStr s
    if str.isEmpty || !firstIs str a b then some invalid
    else if !isValidLetterSlice str then some invalid
    else if str.length > maxSpecialStringLength then some tooLong
    else none
  else none

/-- the `infinity_string` block has one more branch: shorter than `inf_string` -/
def infinityBlock (o : POpts) : Option String :=
  if o.infinity.isSome then
    let inf := unwrapStr o.inf
    let infinity := unwrapStr o.infinity
    if infinity.isEmpty || !firstIs infinity 73 105 then some "InvalidInfinityString"
    else if !isValidLetterSlice infinity then some "InvalidInfinityString"
    else if infinity.length > maxSpecialStringLength then some "InfinityStringTooLong"
    else if infinity.length < inf.length then some "InfinityStringTooShort"
    else none
  else none

/-- `OptionsBuilder::build`: `.error kind`, blocks in the order of the source -/
def build (o : POpts) : Except String Unit :=
  if !isValidAscii o.exp then .error "InvalidExponentSymbol"
  else if !isValidAscii o.dp then .error "InvalidDecimalPoint"
  else match stringBlock o.nan 78 110 "InvalidNanString" "NanStringTooLong" with
  | some e => .error e
  | none =>
    if o.inf.isSome && o.infinity.isNone then .error "InfinityStringTooShort"
    else match stringBlock o.inf 73 105 "InvalidInfString" "InfStringTooLong" with
    | some e => .error e
    | none =>
      match infinityBlock o with
      | some e => .error e
      | none => .ok ()

end ParseFloat

/-! ## lexical-write-float -/
namespace WriteFloat

/-- type invariant of `Option<NonZeroUsize>` / `Option<NonZeroI32>` -/
def NonZero (o : WOpts) : Prop :=
  o.maxDigits ≠ some 0 ∧ o.minDigits ≠ some 0 ∧ o.posBreak ≠ some 0 ∧ o.negBreak ≠ some 0

def unwrapOrZeroUsize (x : Option Nat) : Nat := match x with | some v => v | none => 0
/-- `unwrap_or_max_usize`: `usize::MAX` on a 64-bit target -/
def unwrapOrMaxUsize (x : Option Nat) : Nat := match x with | some v => v | none => 2 ^ 64 - 1
def unwrapOrZeroI32 (x : Option Int) : Int := match x with | some v => v | none => 0

/-- `OptionsBuilder::nan_str_is_valid` -/
def nanStrIsValid (o : WOpts) : Bool :=
  if o.nan.isNone then true
  else
    let nan := unwrapStr o.nan
    let length := nan.length
    if length == 0 || length > maxSpecialStringLength then false
    else if !firstIs nan 78 110 then false
    else if !isValidLetterSlice nan then false
    else true

/-- `OptionsBuilder::inf_str_is_valid` -/
def infStrIsValid (o : WOpts) : Bool :=
  if o.inf.isNone then true
  else
    let inf := unwrapStr o.inf
    let length := inf.length
    if length == 0 || length > maxSpecialStringLength then false
    else if !firstIs inf 73 105 then false
    else if !isValidLetterSlice inf then false
    else true

/-- `OptionsBuilder::is_valid`: **no test of the digit counts or the exponent breaks** -/
def isValid (o : WOpts) : Bool :=
  if !isValidAscii o.exp then false
  else if !isValidAscii o.dp then false
  else if !nanStrIsValid o then false
  else if !infStrIsValid o then false
  else true

/-- `OptionsBuilder::build` -/
def build (o : WOpts) : Except String Unit :=
  match ParseFloat.stringBlock o.nan 78 110 "InvalidNanString" "NanStringTooLong" with
  | some e => .error e
  | none =>
    match ParseFloat.stringBlock o.inf 73 105 "InvalidInfString" "InfStringTooLong" with
    | some e => .error e
    | none =>
      let minDigits := unwrapOrZeroUsize o.minDigits
      let maxDigits := unwrapOrMaxUsize o.maxDigits
      if maxDigits < minDigits then .error "InvalidFloatPrecision"
      else if unwrapOrZeroI32 o.negBreak > 0 then .error "InvalidNegativeExponentBreak"
      else if unwrapOrZeroI32 o.posBreak < 0 then .error "InvalidPositiveExponentBreak"
      else if !isValidAscii o.exp then .error "InvalidExponentSymbol"
      else if !isValidAscii o.dp then .error "InvalidDecimalPoint"
      else .ok ()

end WriteFloat

/-! ## lexical-parse-integer / lexical-write-integer: nothing to validate -/
namespace ParseInteger
/-- the only option -/
structure Opts where
  noMultiDigit : Bool := true
def isValid (_ : Opts) : Bool := true
def build (_ : Opts) : Except String Unit := .ok ()
end ParseInteger

namespace WriteInteger
structure Opts where
def isValid (_ : Opts) : Bool := true
def build (_ : Opts) : Except String Unit := .ok ()
end WriteInteger

end LexVerif.Model.OptionsValid
