import LexVerif.Spec.Numeral
import LexVerif.Spec.IntType
import LexVerif.Model.Format
/-!
# Model.WriteInt — integer→string writers of `lexical-write-integer` (release-mode semantics)

Mirrors, function by function:
`api.rs` (`unsigned`, `signed`), `write.rs` (feature dispatch), `compact.rs`, `radix.rs`,
`algorithm.rs` (`write_digits`, `write_step_digits`, `algorithm`, `algorithm_u128`),
`digit_count.rs`, `decimal.rs` (digit counts), `jeaiii.rs`, and from `lexical-util`:
`div128.rs`, `mul.rs::mulhi`, `step.rs::u64_step`, `constants.rs` (`FORMATTED_SIZE*`),
`digit.rs::digit_to_char(_const)`, `algorithm.rs::copy_to_dst`.

Conventions: fixed-width values are `Nat` with explicit `% 2^bits`; `usize` is 64-bit.
Unchecked indexing (`get_unchecked*`, the `i!` macros) ⇒ `Res.fault` when out of range;
checked indexing / slicing / `assert!` / `unreachable!` / division by zero ⇒ `Res.panic`.
`debug_assert!` and debug-build overflow checks are *not* modelled (release semantics: wrap).
Loops carry a fuel argument (`loopFuel`, more than any loop can use: every iteration divides a
value `< 2^128` by at least 2); running out of fuel is reported as `fault` and proved unreachable.
-/
namespace LexVerif.Model.WriteInt
open LexVerif.Spec

inductive Res (α : Type) where
  | ok (a : α)
  | fault
  | panic
deriving Repr, DecidableEq

@[inline] def Res.bind {α β : Type} (x : Res α) (f : α → Res β) : Res β :=
  match x with
  | .ok a => f a
  | .fault => .fault
  | .panic => .panic

instance : Monad Res where
  pure := Res.ok
  bind := Res.bind

abbrev Buf := List Nat

def loopFuel : Nat := 130

/-- `usize` modulus -/
def usz : Nat := 2 ^ 64
/-- `index -= k` on `usize` in release mode (wraps) -/
def subIdx (i k : Nat) : Nat := ((usz - k) + i) % usz   -- big literal on the left: `x + 2^64` under `%` makes kernel `whnf` unfold `Nat.add` on the literal

/-- `*buf.get_unchecked_mut(i) = v` -/
def setU (b : Buf) (i v : Nat) : Res Buf := if i < b.length then .ok (b.set i v) else .fault
/-- `buf[i] = v` -/
def setC (b : Buf) (i v : Nat) : Res Buf := if i < b.length then .ok (b.set i v) else .panic
/-- `&mut buf[..n]` -/
def sliceTo (b : Buf) (n : Nat) : Res Buf := if n ≤ b.length then .ok (b.take n) else .panic

/-! ## tables and per-radix constants (isolated; tied to the crate by R/S) -/

/-- closed form of `DIGIT_TO_BASE<r>_SQUARED`: entry `i` is the two characters of `i` in radix `r` -/
def digitPairTable (r : Nat) : Nat → Nat × Nat := fun i => (digitChar (i / r), digitChar (i % r))
/-- byte length of `DIGIT_TO_BASE<r>_SQUARED` -/
def tableLen (r : Nat) : Nat := 2 * r * r
/-- `*table.get_unchecked(j)` on the flat byte table -/
def tableGet (r j : Nat) : Res Nat :=
  if j < tableLen r then
    .ok (if j % 2 = 0 then (digitPairTable r (j / 2)).1 else (digitPairTable r (j / 2)).2)
  else .fault

/-- `digit_to_char`: `TABLE[digit as usize]`, a checked index into a 36-entry table -/
def digitToChar (d : Nat) : Res Nat := if d < 36 then .ok (digitChar d) else .panic
/-- `digit_to_char_const(digit, 10)` = `digit as u8 + b'0'` (release: wrapping) -/
def digitToCharConst10 (d : Nat) : Nat := (d % 2 ^ 32 % 256 + 48) % 256

inductive DivRem where
  | pow2 (mask shr : Nat)
  | slow (d dCtlz : Nat)
  | moderate (d factor factorShr : Nat)
  | fast (d fast fastShr factor factorShr : Nat)
deriving Repr, DecidableEq

/-- `u64_step(radix)` = `min_step_<radix>(64, false)` transcribed from lexical-util/src/step.rs -/
def u64StepTable : Nat → Nat
  | 2 => 64
  | 3 => 40
  | 4 => 32
  | 5 => 27
  | 6 => 24
  | 7 => 22
  | 8 => 21
  | 9 => 20
  | 10 => 19
  | 11 => 18
  | 12 => 17
  | 13 => 17
  | 14 => 16
  | 15 => 16
  | 16 => 16
  | 17 => 15
  | 18 => 15
  | 19 => 15
  | 20 => 14
  | 21 => 14
  | 22 => 14
  | 23 => 14
  | 24 => 13
  | 25 => 13
  | 26 => 13
  | 27 => 13
  | 28 => 13
  | 29 => 13
  | 30 => 13
  | 31 => 12
  | 32 => 12
  | 33 => 12
  | 34 => 12
  | 35 => 12
  | 36 => 12
  | _ => 1

/-- per-radix `u128_divrem_<r>` constants transcribed from lexical-util/src/div128.rs -/
def divremKind : Nat → Option DivRem
  | 2 => some (.pow2 18446744073709551615 64)
  | 3 => some (.slow 12157665459056928801 0)
  | 4 => some (.pow2 18446744073709551615 64)
  | 5 => some (.moderate 7450580596923828125 105312291668557186697918027683670432319 61)
  | 6 => some (.fast 4738381338321616896 309485009821345068724781056 24 165591931273573223021296166324748699891 61)
  | 7 => some (.moderate 3909821048582988049 200683792729517998822275406364627986707 61)
  | 8 => some (.pow2 9223372036854775807 63)
  | 9 => some (.slow 12157665459056928801 0)
  | 10 => some (.fast 10000000000000000000 9671406556917033397649408 19 156927543384667019095894735580191660403 62)
  | 11 => some (.slow 5559917313492231481 1)
  | 12 => some (.slow 2218611106740436992 3)
  | 13 => some (.moderate 8650415919381337933 181410402513790565292660635782582404765 62)
  | 14 => some (.fast 2177953337809371136 1208925819614629174706176 16 1407280417134467544760816054546363235 53)
  | 15 => some (.moderate 6568408355712890625 1866504587258795246613513364166764993 55)
  | 16 => some (.pow2 18446744073709551615 64)
  | 17 => some (.moderate 2862423051509815793 68529153692836345537218837732158950089 59)
  | 18 => some (.fast 6746640616477458432 604462909807314587353088 15 232601011830094623283686247347795155951 62)
  | 19 => some (.moderate 15181127029874798299 25842538415601616733690423925257626679 60)
  | 20 => some (.fast 1638400000000000000 4951760157141521099596496896 28 239452428260295134118491722992235809941 60)
  | 21 => some (.moderate 3243919932521508681 120939747781233590383781714337497669585 60)
  | 22 => some (.slow 6221821273427820544 1)
  | 23 => some (.moderate 11592836324538749809 270731922700393644432243678371210997949 63)
  | 24 => some (.fast 876488338465357824 10141204801825835211973625643008 39 55950381945266105153185943557606235389 57)
  | 25 => some (.moderate 1490116119384765625 131640364585696483372397534604588040399 59)
  | 26 => some (.fast 2481152873203736576 151115727451828646838272 13 316239166637962178669658228673482425689 61)
  | 27 => some (.slow 4052555153018976267 2)
  | 28 => some (.fast 6502111422497947648 1237940039285380274899124224 26 241348591538561183926479953354701294803 62)
  | 29 => some (.moderate 10260628712958602189 152941450056053853841698190746050519297 62)
  | 30 => some (.slow 15943230000000000000 0)
  | 31 => some (.moderate 787662783788549761 124519929891402176328714857711808162537 58)
  | 32 => some (.pow2 1152921504606846975 60)
  | 33 => some (.slow 1667889514952984961 3)
  | 34 => some (.fast 2386420683693101056 75557863725914323419136 12 328792707121977505492535302517672775183 61)
  | 35 => some (.moderate 3379220508056640625 116097442450503652080238494022501325491 60)
  | 36 => some (.fast 4738381338321616896 309485009821345068724781056 24 165591931273573223021296166324748699891 61)
  | _ => none


/-- `u64_step(radix)` under the feature set (`step.rs::min_step`) -/
def u64Step (feats : Features) (radix : Nat) : Nat :=
  if feats.radix then u64StepTable radix
  else if feats.powerOfTwo then
    (if radix = 2 ∨ radix = 4 ∨ radix = 8 ∨ radix = 10 ∨ radix = 16 ∨ radix = 32 then u64StepTable radix else 1)
  else u64StepTable 10

/-- `is_valid_radix` (the part of `NumberFormat::is_valid` that concerns the writer) -/
def validRadix (feats : Features) (radix : Nat) : Bool :=
  if feats.radix then 2 ≤ radix && radix ≤ 36
  else if feats.powerOfTwo then radix = 2 || radix = 4 || radix = 8 || radix = 10 || radix = 16 || radix = 32
  else radix = 10

/-- `FORMATTED_SIZE_DECIMAL` (`constants.rs`) -/
def formattedSizeDecimal (t : IntTy) : Nat :=
  match t.bits, t.signed with
  | 8, true => 4 | 16, true => 6 | 32, true => 11 | 64, true => 20 | 128, true => 40
  | 8, false => 3 | 16, false => 5 | 32, false => 10 | 64, false => 20 | 128, false => 39
  | _, _ => 0
/-- `FORMATTED_SIZE` with the `power-of-two` feature -/
def formattedSizeRadix (t : IntTy) : Nat :=
  match t.bits with
  | 8 => 16 | 16 => 32 | 32 => 64 | 64 => 128 | 128 => 256 | _ => 0
def formattedSize (feats : Features) (t : IntTy) : Nat :=
  if feats.powerOfTwo then formattedSizeRadix t else formattedSizeDecimal t
/-- `Options::buffer_size_const::<T, FORMAT>()` -/
def bufferSizeConst (feats : Features) (t : IntTy) (radix : Nat) : Nat :=
  if radix = 10 then formattedSizeDecimal t else formattedSize feats t
/-- `Options::buffer_size_const::<T, FORMAT>()` as it is since the repair of the unsigned `+` defect: one more byte
when the `format` feature is on and the format requires a mantissa sign -/
def bufferSizeConstFmt (feats : Features) (t : IntTy) (radix : Nat) (reqSign : Bool) : Nat :=
  bufferSizeConst feats t radix + (if feats.format && reqSign then 1 else 0)

/-! ## compact.rs -/

def compactLoop (radix : Nat) : Nat → Nat → Nat → Buf → Res (Nat × Nat × Buf)
  | 0, _, _, _ => .fault
  | fuel + 1, value, index, digits =>
    if value ≥ radix then
      if radix = 0 then .panic else do
      let r := value % radix
      let value := value / radix
      let index := subIdx index 1
      let c ← digitToChar (r % 2 ^ 32)
      let digits ← setC digits index c
      compactLoop radix fuel value index digits
    else .ok (value, index, digits)

/-- `copy_to_dst(dst, src)`: `dst[..src.len()].copy_from_slice(src)` -/
def copyToDst (dst src : Buf) : Res (Buf × Nat) :=
  if src.length ≤ dst.length then .ok (src ++ dst.drop src.length, src.length) else .panic

/-- `Compact::compact` for an unsigned type of `bits` bits -/
def compact (bits radix value : Nat) (buffer : Buf) : Res (Buf × Nat) := do
  if bits > 128 then .panic else
  let digits : Buf := List.replicate 128 0
  let radixT := radix % 2 ^ 32 % 2 ^ bits
  let (value, index, digits) ← compactLoop radixT loopFuel value 128 digits
  let index := subIdx index 1
  let c ← digitToChar (value % 2 ^ 32)
  let digits ← setC digits index c
  if index ≤ digits.length then copyToDst buffer (digits.drop index) else .panic

/-! ## digit_count.rs / decimal.rs (counts) -/

/-- `x.leading_zeros()` for a `bits`-bit unsigned `x` -/
def clz (bits x : Nat) : Nat := if x = 0 then bits else bits - (Nat.log2 x + 1)
/-- `fast_log2`: `T::BITS - 1 - (x | 1).leading_zeros()` -/
def fastLog2 (bits x : Nat) : Nat := bits - 1 - clz bits (x ||| 1)

/-- `T::MAX.as_u32()` -/
def maxAsU32 (bits : Nat) : Nat := (2 ^ bits - 1) % 2 ^ 32

/-- `while value >= d { digits += k; value /= d; }` -/
def countLoop (d k : Nat) : Nat → Nat → Nat → Res (Nat × Nat)
  | 0, _, _ => .fault
  | fuel + 1, value, digits =>
    if value ≥ d then
      if d = 0 then .panic else countLoop d k fuel (value / d) (digits + k)
    else .ok (value, digits)

/-- `digit_count!(@naive T, radix, x)` -/
def naiveCount (bits radix value : Nat) : Res Nat :=
  -- radix = `$radix as u32`; radix2 = radix * radix; radix4 = radix2 * radix2 (u32); `from_u32` = `% 2^bits`
  ((if bits ≥ 32 ∨ (radix % 2 ^ 32 * (radix % 2 ^ 32) % 2 ^ 32) * (radix % 2 ^ 32 * (radix % 2 ^ 32) % 2 ^ 32) % 2 ^ 32 < maxAsU32 bits then
      countLoop ((radix % 2 ^ 32 * (radix % 2 ^ 32) % 2 ^ 32) * (radix % 2 ^ 32 * (radix % 2 ^ 32) % 2 ^ 32) % 2 ^ 32 % 2 ^ bits) 4 loopFuel value 1
    else Res.ok (value, 1)) >>= fun x =>
   (if bits ≥ 16 ∨ radix % 2 ^ 32 * (radix % 2 ^ 32) % 2 ^ 32 < maxAsU32 bits then
      countLoop (radix % 2 ^ 32 * (radix % 2 ^ 32) % 2 ^ 32 % 2 ^ bits) 2 loopFuel x.1 x.2
    else Res.ok x) >>= fun y =>
   countLoop (radix % 2 ^ 32 % 2 ^ bits) 1 loopFuel y.1 y.2 >>= fun z => Res.ok z.2)

/-! ## literal constants of the decimal writers (tied to the source text by `Props/C03Tie.lean`) -/
namespace Lit
/-- `fast_log10`: `(log2 * 1233) >> 12` -/
def log10Mul : Nat := 1233
def log10Shr : Nat := 12
/-- `next2`: `(*prod & LO32) * 100`, `*prod >> 32` -/
def next2Mul : Nat := 100
def hi32 : Nat := 32
/-- `u128_divrem_10_10pow10` -/
def e10D : Nat := 10000000000
def e10Fast : Nat := 18889465931478580854784
def e10FastShr : Nat := 10
def e10Factor : Nat := 73075081866545145910184241635814150983
def e10FactorShr : Nat := 31
/-- jeaiii multipliers and shifts of `write_digits!` -/
def m34 : Nat := 42949673
def m56 : Nat := 429497
def m78 : Nat := 281474978
def s78 : Nat := 16
def m9 : Nat := 1441151882
def s9 : Nat := 25
def m10 : Nat := 1441151881
def s10 : Nat := 25
def m10u64 : Nat := 11529215047
def s10u64 : Nat := 28
/-- `write_n!(@4sub …)`: `% 10000`, `/ 100` -/
def alex4 : Nat := 10000
def alex2 : Nat := 100
/-- comparison-tree thresholds of `from_u8 … from_u128` -/
def t1 : Nat := 10
def t2 : Nat := 100
def t4 : Nat := 10000
def t6 : Nat := 1000000
def t8 : Nat := 100000000
def t9 : Nat := 1000000000
def t10 : Nat := 10000000000
def t20 : Nat := 100000000000000000000
def t30 : Nat := 1000000000000000000000000000000
/-- the `&mut buffer[..N]` re-slices -/
def sliceU8 : Nat := 3
def sliceU16 : Nat := 5
def sliceU32 : Nat := 10
def sliceI64 : Nat := 19
def sliceU64 : Nat := 20
def sliceU128 : Nat := 39
end Lit

/-- `fast_log10` -/
def fastLog10 (bits x : Nat) : Nat := fastLog2 bits x * Lit.log10Mul / 2 ^ Lit.log10Shr

/-- `fast_digit_count::TABLE` -/
def fastDigitCountTable : List Nat :=
  [4294967296, 8589934582, 8589934582, 8589934582, 12884901788, 12884901788, 12884901788, 17179868184,
   17179868184, 17179868184, 21474826480, 21474826480, 21474826480, 21474826480, 25769703776, 25769703776,
   25769703776, 30063771072, 30063771072, 30063771072, 34349738368, 34349738368, 34349738368, 34349738368,
   38554705664, 38554705664, 38554705664, 41949672960, 41949672960, 41949672960, 42949672960, 42949672960]

/-- `fast_digit_count(x: u32)` -/
def fastDigitCount (x : Nat) : Res Nat :=
  match fastDigitCountTable[fastLog2 32 x]? with
  | some shift => .ok ((x + shift) % 2 ^ 64 / 2 ^ 32)
  | none => .panic

def decimalTableU64 : List Nat :=
  [10, 100, 1000, 10000, 100000, 1000000, 10000000, 100000000, 1000000000, 10000000000, 100000000000, 1000000000000, 10000000000000, 100000000000000, 1000000000000000, 10000000000000000, 100000000000000000, 1000000000000000000, 10000000000000000000]
def decimalTableU128 : List Nat :=
  [10,
   100,
   1000,
   10000,
   100000,
   1000000,
   10000000,
   100000000,
   1000000000,
   10000000000,
   100000000000,
   1000000000000,
   10000000000000,
   100000000000000,
   1000000000000000,
   10000000000000000,
   100000000000000000,
   1000000000000000000,
   10000000000000000000,
   100000000000000000000,
   1000000000000000000000,
   10000000000000000000000,
   100000000000000000000000,
   1000000000000000000000000,
   10000000000000000000000000,
   100000000000000000000000000,
   1000000000000000000000000000,
   10000000000000000000000000000,
   100000000000000000000000000000,
   1000000000000000000000000000000,
   10000000000000000000000000000000,
   100000000000000000000000000000000,
   1000000000000000000000000000000000,
   10000000000000000000000000000000000,
   100000000000000000000000000000000000,
   1000000000000000000000000000000000000,
   10000000000000000000000000000000000000,
   100000000000000000000000000000000000000]

/-- `fallback_digit_count(x, table)` -/
def fallbackDigitCount (bits x : Nat) (table : List Nat) : Nat :=
  let log10 := fastLog10 bits x
  let shiftUp := match table[log10]? with | some y => decide (x ≥ y) | none => false
  log10 + (if shiftUp then 1 else 0) + 1

/-- `DecimalCount::decimal_count` -/
def decimalCount (bits x : Nat) : Res Nat :=
  if bits = 8 ∨ bits = 16 ∨ bits = 32 then fastDigitCount (x % 2 ^ 32)
  else if bits = 64 then .ok (fallbackDigitCount 64 x decimalTableU64)
  else if bits = 128 then .ok (fallbackDigitCount 128 x decimalTableU128)
  else .panic

/-! ## mul.rs / div128.rs -/

def w128 (x : Nat) : Nat := x % 2 ^ 128

/-- `mulhi::<u128, u64>(x, y)` -/
def mulhi128 (x y : Nat) : Nat :=
  let x1 := x / 2 ^ 64
  let x0 := x % 2 ^ 64
  let y1 := y / 2 ^ 64
  let y0 := y % 2 ^ 64
  let w0 := w128 (x0 * y0)
  let m := w128 (w128 (x0 * y1) + w0 / 2 ^ 64)
  let w1 := m % 2 ^ 64
  let w2 := m / 2 ^ 64
  let w3 := w128 (w128 (x1 * y0) + w1) / 2 ^ 64
  w128 (w128 (w128 (x1 * y1) + w2) + w3)

/-- `(n - quot * d as u128) as u64` with wrapping u128 arithmetic -/
def remOf (n quot d : Nat) : Nat := w128 ((2 ^ 128 - w128 (quot * d)) + n) % 2 ^ 64

def pow2U128Divrem (n mask shr : Nat) : Res (Nat × Nat) :=
  if shr ≥ 128 then .panic else .ok (n / 2 ^ shr, Nat.land mask (n % 2 ^ 64))

def fastU128Divrem (n d fast fastShr factor factorShr : Nat) : Res (Nat × Nat) :=
  if fastShr ≥ 128 ∨ factorShr ≥ 128 then .panic else
  if n < fast then
    if d / 2 ^ fastShr = 0 then .panic else
    let quot := (n / 2 ^ fastShr) % 2 ^ 64 / (d / 2 ^ fastShr)
    .ok (quot, remOf n quot d)
  else
    let quot := mulhi128 n factor / 2 ^ factorShr
    .ok (quot, remOf n quot d)

def moderateU128Divrem (n d factor factorShr : Nat) : Res (Nat × Nat) :=
  if factorShr ≥ 128 then .panic else
  let quot := mulhi128 n factor / 2 ^ factorShr
  .ok (quot, remOf n quot d)

/-- loop body of `slow_u128_divrem`: `r = (r << 1) | (q >> 127)` -/
def slowR1 (q r : Nat) : Nat := Nat.lor (w128 (r * 2)) (q / 2 ^ 127)
/-- `q = (q << 1) | carry as u128` -/
def slowQ1 (q carry : Nat) : Nat := Nat.lor (w128 (q * 2)) carry
/-- `s = (d.wrapping_sub(r).wrapping_sub(1) as i128) >> 127` is all ones iff the top bit is set; `carry = (s & 1)` -/
def slowS (d r1 : Nat) : Nat := w128 ((2 ^ 128 - 1) + w128 ((2 ^ 128 - r1) + d)) / 2 ^ 127
/-- `r -= (d as u128) & s as u128` -/
def slowR2 (d r1 : Nat) : Nat := if slowS d r1 = 1 then w128 ((2 ^ 128 - d) + r1) else r1

/-- the `while i < sr` loop of `slow_u128_divrem`; state `(q, r, carry)` -/
def slowLoop (d : Nat) : Nat → Nat → Nat → Nat → Nat × Nat × Nat
  | 0, q, r, carry => (q, r, carry)
  | k + 1, q, r, carry => slowLoop d k (slowQ1 q carry) (slowR2 d (slowR1 q r)) (slowS d (slowR1 q r))

def slowU128Divrem (n d dCtlz : Nat) : Res (Nat × Nat) :=
  let high := n / 2 ^ 64 % 2 ^ 64
  if high = 0 then
    let low := n % 2 ^ 64
    if d = 0 then .panic else .ok (low / d, low % d)
  else
    let sr := (65 + dCtlz + (2 ^ 32 - clz 64 high)) % 2 ^ 32
    if sr = 0 ∨ sr > 128 then .panic else  -- shift amounts `128 - sr`, `sr` must be < 128 (else overflow panic / UB-free wrap)
    if sr = 128 then .panic else
    let q := w128 (n * 2 ^ (128 - sr))
    let r := n / 2 ^ sr
    let (q, r, carry) := slowLoop d sr q r 0
    .ok (Nat.lor (w128 (q * 2)) carry, r % 2 ^ 64)

def runDivRem (n : Nat) : DivRem → Res (Nat × Nat)
  | .pow2 mask shr => pow2U128Divrem n mask shr
  | .slow d c => slowU128Divrem n d c
  | .moderate d f s => moderateU128Divrem n d f s
  | .fast d fa fs f s => fastU128Divrem n d fa fs f s

/-- `u128_divrem(n, radix)` with its per-feature `match` -/
def u128Divrem (feats : Features) (n radix : Nat) : Res (Nat × Nat) :=
  let r :=
    if feats.radix then radix
    else if feats.powerOfTwo then
      (if radix = 2 ∨ radix = 4 ∨ radix = 8 ∨ radix = 10 ∨ radix = 16 ∨ radix = 32 then radix else 0)
    else 10
  match divremKind r with
  | some k => runDivRem n k
  | none => .panic   -- `unreachable!()`

/-- `DigitCount::digit_count` for `u8..u64, usize` -/
def digitCountSmall (bits value radix : Nat) : Res Nat :=
  if ¬ (2 ≤ radix ∧ radix ≤ 36) then .panic
  else if radix = 10 then decimalCount bits value
  else if radix = 2 then .ok (fastLog2 bits value + 1)
  else if radix = 4 then .ok (fastLog2 bits value / 2 + 1)
  else if radix = 8 then .ok (fastLog2 bits value / 3 + 1)
  else if radix = 16 then .ok (fastLog2 bits value / 4 + 1)
  else if radix = 32 then .ok (fastLog2 bits value / 5 + 1)
  else naiveCount bits radix value

/-- `impl DigitCount for u128` -/
def digitCountU128 (feats : Features) (value radix : Nat) : Res Nat :=
  if radix = 10 then decimalCount 128 value
  else if radix = 2 then .ok (fastLog2 128 value + 1)
  else if radix = 4 then .ok (fastLog2 128 value / 2 + 1)
  else if radix = 8 then .ok (fastLog2 128 value / 3 + 1)
  else if radix = 16 then .ok (fastLog2 128 value / 4 + 1)
  else if radix = 32 then .ok (fastLog2 128 value / 5 + 1)
  else if value ≤ 2 ^ 64 - 1 then naiveCount 64 radix (value % 2 ^ 64)
  else
    -- `let step = u64_step(radix); let (value, _) = u128_divrem(self, radix); let mut count = step;`
    u128Divrem feats value radix >>= fun q1 =>
    if q1.1 ≤ 2 ^ 64 - 1 then
      naiveCount 64 radix (q1.1 % 2 ^ 64) >>= fun c => .ok (u64Step feats radix + c)
    else
      u128Divrem feats q1.1 radix >>= fun q2 =>
      if q2.1 ≠ 0 then
        naiveCount 64 radix (q2.1 % 2 ^ 64) >>= fun c => .ok (u64Step feats radix + u64Step feats radix + c)
      else .ok (u64Step feats radix + u64Step feats radix)

def digitCount (feats : Features) (bits value radix : Nat) : Res Nat :=
  if bits = 128 then digitCountU128 feats value radix else digitCountSmall bits value radix

/-! ## algorithm.rs -/

/-- the `write_digits!` macro: two characters `table[r], table[r+1]` written below `index` -/
def put2 (radix : Nat) (buf : Buf) (index r : Nat) : Res (Buf × Nat) := do
  let index := subIdx index 1
  let c ← tableGet radix (r + 1)
  let buf ← setU buf index c
  let index := subIdx index 1
  let c ← tableGet radix r
  let buf ← setU buf index c
  pure (buf, index)

/-- the `write_digit!` macro -/
def put1 (buf : Buf) (index r : Nat) : Res (Buf × Nat) := do
  let index := subIdx index 1
  let c ← digitToChar r
  let buf ← setU buf index c
  pure (buf, index)

/-- `while value >= radix4 { … }` of `write_digits`, `T` = `bits`-bit unsigned -/
def loop4 (bits radix radix2 radix4 : Nat) : Nat → Nat → Buf → Nat → Res (Nat × Buf × Nat)
  | 0, _, _, _ => .fault
  | fuel + 1, value, buf, index =>
    if value ≥ radix4 then
      if radix4 = 0 ∨ radix2 = 0 then .panic else do
      let r := value % radix4
      let value := value / radix4
      let r1 := (2 * (r / radix2)) % 2 ^ bits % usz
      let r2 := (2 * (r % radix2)) % 2 ^ bits % usz
      let (buf, index) ← put2 radix buf index r2
      let (buf, index) ← put2 radix buf index r1
      loop4 bits radix radix2 radix4 fuel value buf index
    else .ok (value, buf, index)

/-- `while value >= radix2 { … }` of `write_digits` -/
def loop2 (bits radix radix2 : Nat) : Nat → Nat → Buf → Nat → Res (Nat × Buf × Nat)
  | 0, _, _, _ => .fault
  | fuel + 1, value, buf, index =>
    if value ≥ radix2 then
      if radix2 = 0 then .panic else do
      let r := (2 * (value % radix2)) % 2 ^ bits % usz
      let value := value / radix2
      let (buf, index) ← put2 radix buf index r
      loop2 bits radix radix2 fuel value buf index
    else .ok (value, buf, index)

/-- `write_digits::<T>(value, radix, table, buffer, index, count)`; returns the buffer and the new index -/
def writeDigits (bits value radix : Nat) (buf : Buf) (index : Nat) : Res (Buf × Nat) :=
  if ¬ (2 ≤ radix ∧ radix ≤ 36) then .panic else
  -- radix2 = radix * radix % 2^32 ; radix4 = radix2 * radix2 % 2^32 (u32 arithmetic); `T::from_u32` = `% 2^bits`
  if tableLen radix < radix * radix % 2 ^ 32 * 2 then .panic else
  ((if bits ≥ 32 ∨ (radix * radix % 2 ^ 32) * (radix * radix % 2 ^ 32) % 2 ^ 32 < maxAsU32 bits then
      loop4 bits radix (radix * radix % 2 ^ 32 % 2 ^ bits)
        ((radix * radix % 2 ^ 32) * (radix * radix % 2 ^ 32) % 2 ^ 32 % 2 ^ bits) loopFuel value buf index
    else Res.ok (value, buf, index)) >>= fun x =>
   (if bits ≥ 16 ∨ radix * radix % 2 ^ 32 < maxAsU32 bits then
      loop2 bits radix (radix * radix % 2 ^ 32 % 2 ^ bits) loopFuel x.1 x.2.1 x.2.2
    else Res.ok x) >>= fun y =>
   if y.1 < radix % 2 ^ bits then put1 y.2.1 y.2.2 (y.1 % 2 ^ 32)
   else put2 radix y.2.1 y.2.2 (2 * y.1 % usz))

/-- `write_step_digits`: `write_digits`, then `buffer[end..index].fill(b'0')` with `end = start.saturating_sub(step)`
(an unchecked range) -/
def writeStepDigits (bits value radix : Nat) (buf : Buf) (index step : Nat) : Res (Buf × Nat) :=
  writeDigits bits value radix buf index >>= fun w =>
  if index - step ≤ w.2 ∧ w.2 ≤ w.1.length then
    .ok (w.1.take (index - step) ++ List.replicate (w.2 - (index - step)) 48 ++ w.1.drop w.2, index - step)
  else .fault

/-- `get_table` (`table_radix.rs` / `table_binary.rs`): which radices have a table under the feature set -/
def hasTable (feats : Features) (radix : Nat) : Bool :=
  if feats.radix then 2 ≤ radix && radix ≤ 36
  else radix = 2 || radix = 4 || radix = 8 || radix = 10 || radix = 16 || radix = 32

/-- `algorithm::<T>(value, radix, table, buffer)` -/
def algorithm (bits value radix : Nat) (buffer : Buf) : Res (Buf × Nat) :=
  if ¬ (2 ≤ radix ∧ radix ≤ 36) then .panic else
  if tableLen radix < radix * radix * 2 % 2 ^ 32 then .panic else
  digitCountSmall bits value radix >>= fun count =>
  if ¬ count ≤ buffer.length then .panic else
  -- `let buffer = &mut buffer[..count]`, then `write_digits(value, radix, table, buffer, buffer.len(), count)`
  writeDigits bits value radix (buffer.take count) (buffer.take count).length >>= fun w =>
  Res.ok (w.1 ++ buffer.drop count, count)

/-- `algorithm_u128::<FORMAT, MASK, SHIFT>(value, table, buffer)` -/
def algorithmU128 (feats : Features) (value radix : Nat) (buffer : Buf) : Res (Buf × Nat) :=
  if ¬ validRadix feats radix then .panic else
  if ¬ (2 ≤ radix ∧ radix ≤ 36) then .panic else
  if tableLen radix < radix * radix * 2 % 2 ^ 32 then .panic else
  if value ≤ 2 ^ 64 - 1 then algorithm 64 (value % 2 ^ 64) radix buffer else
  digitCountU128 feats value radix >>= fun count =>
  if ¬ count ≤ buffer.length then .panic else
  -- `let buffer = &mut buffer[..count]`; `let (value, low) = u128_divrem(value, radix)`
  u128Divrem feats value radix >>= fun q1 =>
  writeStepDigits 64 q1.2 radix (buffer.take count) count (u64Step feats radix) >>= fun w1 =>
  if q1.1 ≤ 2 ^ 64 - 1 then
    writeDigits 64 (q1.1 % 2 ^ 64) radix w1.1 w1.2 >>= fun w2 => .ok (w2.1 ++ buffer.drop count, count)
  else
    u128Divrem feats q1.1 radix >>= fun q2 =>
    writeStepDigits 64 q2.2 radix w1.1 w1.2 (u64Step feats radix) >>= fun w2 =>
    if w2.2 ≠ 0 then
      writeDigits 64 (q2.1 % 2 ^ 64) radix w2.1 w2.2 >>= fun w3 => .ok (w3.1 ++ buffer.drop count, count)
    else .ok (w2.1 ++ buffer.drop count, count)

/-- `Radix::radix` -/
def radixWrite (feats : Features) (bits value radix : Nat) (buffer : Buf) : Res (Buf × Nat) :=
  if ¬ hasTable feats radix then .panic   -- `get_table`: `unreachable!()`
  else if bits = 128 then algorithmU128 feats value radix buffer
  else algorithm bits value radix buffer

/-! ## jeaiii.rs

Written with explicit binds and projections (no tuple patterns) so that every definition unfolds by `rfl`. -/

/-- `next2(&mut prod)`: returns the new `prod` and the two digits -/
def next2 (prod : Nat) : Nat × Nat :=
  (prod % 2 ^ 32 * Lit.next2Mul % 2 ^ 64, prod % 2 ^ 32 * Lit.next2Mul % 2 ^ 64 / 2 ^ Lit.hi32 % 2 ^ 32)

/-- `write_n!(@1 buffer, index, n)` -/
def wr1 (buf : Buf) (index n : Nat) : Res (Buf × Nat) :=
  setC buf index (digitToCharConst10 n) >>= fun b => .ok (b, index + 1)

/-- `write_n!(@2 buffer, index, r)`: table reads unchecked, buffer writes checked -/
def wr2 (buf : Buf) (index r : Nat) : Res (Buf × Nat) :=
  tableGet 10 (r % usz) >>= fun c0 => setC buf index c0 >>= fun b0 =>
  tableGet 10 (r % usz + 1) >>= fun c1 => setC b0 (index + 1) c1 >>= fun b1 => .ok (b1, index + 2)

/-- `for _ in 0..remaining { print_n!(@2 buffer, index, prod) }` -/
def print2s : Nat → Buf → Nat → Nat → Res (Buf × Nat)
  | 0, buf, index, _ => .ok (buf, index)
  | k + 1, buf, index, prod =>
    wr2 buf index ((next2 prod).2 * 2 % 2 ^ 32) >>= fun w => print2s k w.1 w.2 (next2 prod).1

/-- `print_n!(@n buffer, index, n, magic, shift, remaining)` with `index = 0` -/
def printN (buf : Buf) (n magic shift remaining : Nat) : Res (Buf × Nat) :=
  if n % 2 ^ 64 * magic % 2 ^ 64 / 2 ^ shift / 2 ^ Lit.hi32 % 2 ^ 32 < 10 then
    wr1 buf 0 (n % 2 ^ 64 * magic % 2 ^ 64 / 2 ^ shift / 2 ^ Lit.hi32 % 2 ^ 32) >>= fun w =>
      print2s remaining w.1 w.2 (n % 2 ^ 64 * magic % 2 ^ 64 / 2 ^ shift)
  else
    wr2 buf 0 (n % 2 ^ 64 * magic % 2 ^ 64 / 2 ^ shift / 2 ^ Lit.hi32 % 2 ^ 32 * 2 % 2 ^ 32) >>= fun w =>
      print2s remaining w.1 w.2 (n % 2 ^ 64 * magic % 2 ^ 64 / 2 ^ shift)

/-- `write_digits!(@1 …)` -/
def wd1 (buf : Buf) (n : Nat) : Res (Buf × Nat) := wr1 buf 0 n
/-- `write_digits!(@2 …)`: `$n * 2` is computed in the type of `n` -/
def wd2 (bits : Nat) (buf : Buf) (n : Nat) : Res (Buf × Nat) := wr2 buf 0 (n * 2 % 2 ^ bits)
/-- `write_digits!(@3 …)` (u8 only): `write_n!(@1 …, 0, y >> 32)`, `write_n!(@2 …, 1, next2(&mut y) * 2)` -/
def wd3 (buf : Buf) (n : Nat) : Res (Buf × Nat) :=
  wr1 buf 0 (n % 2 ^ 64 * Lit.m34 % 2 ^ 64 / 2 ^ Lit.hi32) >>= fun w =>
    print2s 1 w.1 1 (n % 2 ^ 64 * Lit.m34 % 2 ^ 64)
def wd34 (buf : Buf) (n : Nat) : Res (Buf × Nat) := printN buf n Lit.m34 0 1
/-- `write_digits!(@5 …)` -/
def wd5 (buf : Buf) (n : Nat) : Res (Buf × Nat) :=
  wr1 buf 0 (n % 2 ^ 64 * Lit.m56 % 2 ^ 64 / 2 ^ Lit.hi32) >>= fun w =>
    print2s 2 w.1 1 (n % 2 ^ 64 * Lit.m56 % 2 ^ 64)
def wd56 (buf : Buf) (n : Nat) : Res (Buf × Nat) := printN buf n Lit.m56 0 2
def wd78 (buf : Buf) (n : Nat) : Res (Buf × Nat) := printN buf n Lit.m78 Lit.s78 3
/-- `write_digits!(@9 …)` -/
def wd9 (buf : Buf) (n : Nat) : Res (Buf × Nat) :=
  wr1 buf 0 (n % 2 ^ 64 * Lit.m9 % 2 ^ 64 / 2 ^ Lit.s9 / 2 ^ Lit.hi32) >>= fun w =>
    print2s 4 w.1 1 (n % 2 ^ 64 * Lit.m9 % 2 ^ 64 / 2 ^ Lit.s9)
/-- `write_digits!(@10 …)` (u32 only) -/
def wd10 (buf : Buf) (n : Nat) : Res (Buf × Nat) :=
  wr2 buf 0 (n % 2 ^ 64 * Lit.m10 % 2 ^ 64 / 2 ^ Lit.s10 / 2 ^ Lit.hi32 * 2 % 2 ^ 64) >>= fun w =>
    print2s 4 w.1 2 (n % 2 ^ 64 * Lit.m10 % 2 ^ 64 / 2 ^ Lit.s10)
/-- `write_digits!(@10u64 …)` -/
def wd10u64 (buf : Buf) (n : Nat) : Res (Buf × Nat) :=
  wr2 buf 0 (n % 2 ^ 128 * Lit.m10u64 % 2 ^ 128 / 2 ^ Lit.s10u64 % 2 ^ 64 / 2 ^ Lit.hi32 * 2 % 2 ^ 64) >>= fun w =>
    print2s 4 w.1 2 (n % 2 ^ 128 * Lit.m10u64 % 2 ^ 128 / 2 ^ Lit.s10u64 % 2 ^ 64)

/-- `write_n!(@2sub buffer, index, r)`: `index -= 2`, then `write_n!(@2 …)`; returns the new index -/
def wr2sub (buf : Buf) (index r : Nat) : Res (Buf × Nat) :=
  wr2 buf (subIdx index 2) r >>= fun w => .ok (w.1, subIdx index 2)
/-- `write_n!(@4sub buffer, index, value)` on a `u64` value (the caller divides `value` by 10000) -/
def wr4sub (buf : Buf) (index value : Nat) : Res (Buf × Nat) :=
  wr2sub buf index (2 * (value % Lit.alex4 % Lit.alex2) % 2 ^ 64) >>= fun w =>
    wr2sub w.1 w.2 (2 * (value % Lit.alex4 / Lit.alex2) % 2 ^ 64)
/-- `write_digits!(@10alex buffer, n, offset)` -/
def wd10alex (buf : Buf) (n offset : Nat) : Res (Buf × Nat) :=
  wr4sub buf ((10 + offset) % usz) n >>= fun w1 =>
  wr4sub w1.1 w1.2 (n / Lit.alex4) >>= fun w2 =>
  wr2sub w2.1 w2.2 (n / Lit.alex4 / Lit.alex4 * 2 % 2 ^ 64) >>= fun w3 =>
  .ok (w3.1, (10 + offset) % usz)

/-- run `f` on `&mut buffer[..n]` and put the slice back -/
def onSlice (buffer : Buf) (n : Nat) (f : Buf → Res (Buf × Nat)) : Res (Buf × Nat) :=
  sliceTo buffer n >>= fun sub => f sub >>= fun w => .ok (w.1 ++ buffer.drop n, w.2)

def fromU8 (n : Nat) (buffer : Buf) : Res (Buf × Nat) :=
  onSlice buffer Lit.sliceU8 fun buf =>
    if n ≥ Lit.t2 then wd3 buf n else if n ≥ Lit.t1 then wd2 8 buf n else wd1 buf n

def fromU16 (n : Nat) (buffer : Buf) : Res (Buf × Nat) :=
  onSlice buffer Lit.sliceU16 fun buf =>
    if n ≥ Lit.t4 then wd5 buf n else if n ≥ Lit.t2 then wd34 buf n
    else if n ≥ Lit.t1 then wd2 16 buf n else wd1 buf n

/-- the `1 to 4 digits` subtree shared by `from_u32`, `from_u64_impl`, `from_u128` -/
def small4 (bits : Nat) (buf : Buf) (n : Nat) : Res (Buf × Nat) :=
  if n ≥ Lit.t2 then wd34 buf n else if n ≥ Lit.t1 then wd2 bits buf n else wd1 buf n

def fromU32 (n : Nat) (buffer : Buf) : Res (Buf × Nat) :=
  onSlice buffer Lit.sliceU32 fun buf =>
    if n < Lit.t4 then small4 32 buf n
    else if n < Lit.t8 then
      if n ≥ Lit.t6 then wd78 buf n else wd56 buf n
    else
      if n ≥ Lit.t9 then wd10 buf n else wd9 buf n

/-- the `5 to 10 digits` subtree shared by `from_u64_impl` and `from_u128` -/
def mid10 (buf : Buf) (n : Nat) : Res (Buf × Nat) :=
  if n ≥ Lit.t9 then wd10u64 buf n
  else if n ≥ Lit.t8 then wd9 buf n
  else if n ≥ Lit.t6 then wd78 buf n
  else wd56 buf n

def fromU64Impl (n : Nat) (buffer : Buf) (isSigned : Bool) : Res (Buf × Nat) :=
  onSlice buffer (if isSigned then Lit.sliceI64 else Lit.sliceU64) fun buf =>
    if n < Lit.t4 then small4 64 buf n
    else if n < Lit.t10 then mid10 buf n
    else
      -- `hi = (n / FACTOR) as u32`, `lo = n % FACTOR`
      fromU32 (n / Lit.t10 % 2 ^ 32) buf >>= fun w => wd10alex w.1 (n % Lit.t10) w.2

def fromU64 (n : Nat) (buffer : Buf) : Res (Buf × Nat) := fromU64Impl n buffer false
def fromI64 (n : Nat) (buffer : Buf) : Res (Buf × Nat) := fromU64Impl n buffer true

/-- `div128_rem_1e10` -/
def div128Rem1e10 (n : Nat) : Res (Nat × Nat) :=
  fastU128Divrem n Lit.e10D Lit.e10Fast Lit.e10FastShr Lit.e10Factor Lit.e10FactorShr

def fromU128 (n : Nat) (buffer : Buf) : Res (Buf × Nat) :=
  onSlice buffer Lit.sliceU128 fun buf =>
    if n < Lit.t4 then small4 128 buf n
    else if n < Lit.t10 then mid10 buf n
    else if n ≥ Lit.t30 then
      -- 4 steps: (mid, d), (mid, c), (hi, b); `a = hi as u32`
      div128Rem1e10 n >>= fun q1 => div128Rem1e10 q1.1 >>= fun q2 => div128Rem1e10 q2.1 >>= fun q3 =>
      fromU32 (q3.1 % 2 ^ 32) buf >>= fun w0 =>
      wd10alex w0.1 q3.2 w0.2 >>= fun w1 =>
      wd10alex w1.1 q2.2 w1.2 >>= fun w2 =>
      wd10alex w2.1 q1.2 w2.2
    else if n ≥ Lit.t20 then
      -- 3 steps
      div128Rem1e10 n >>= fun q1 => div128Rem1e10 q1.1 >>= fun q2 =>
      fromU64 (q2.1 % 2 ^ 64) buf >>= fun w0 =>
      wd10alex w0.1 q2.2 w0.2 >>= fun w1 =>
      wd10alex w1.1 q1.2 w1.2
    else
      -- 2 steps
      div128Rem1e10 n >>= fun q1 =>
      fromU64 (q1.1 % 2 ^ 64) buf >>= fun w0 =>
      wd10alex w0.1 q1.2 w0.2

/-- `Decimal::decimal` / `decimal_signed` by type width (`usize` = `u64`) -/
def decimal (bits value : Nat) (signedCall : Bool) (buffer : Buf) : Res (Buf × Nat) :=
  if bits = 8 then fromU8 value buffer
  else if bits = 16 then fromU16 value buffer
  else if bits = 32 then fromU32 value buffer
  else if bits = 64 then (if signedCall then fromI64 value buffer else fromU64 value buffer)
  else if bits = 128 then fromU128 value buffer
  else .panic

/-! ## write.rs / api.rs -/

/-- `WriteInteger::write_mantissa` / `write_mantissa_signed` under the three cfg variants -/
def writeMantissa (feats : Features) (bits radix value : Nat) (signedCall : Bool) (buffer : Buf) :
    Res (Buf × Nat) :=
  if feats.compact then compact bits radix value buffer
  else if ¬ feats.powerOfTwo then decimal bits value signedCall buffer
  else if radix = 10 then decimal bits value signedCall buffer
  else radixWrite feats bits value radix buffer

/-- write a sign byte at `buffer[0]`, the mantissa into `&mut buffer[1..]`, return `len + 1` -/
def withSign (c : Nat) (buffer : Buf) (f : Buf → Res (Buf × Nat)) : Res (Buf × Nat) := do
  let buffer ← setC buffer 0 c
  let (rest, n) ← f (buffer.drop 1)
  pure (c :: rest, (n + 1) % usz)

/-- `api.rs::unsigned` / `api.rs::signed` followed by `&mut bytes[..len]`.
`v` must be in range of the type; `reqSign` = `format.required_mantissa_sign()`;
`checkValid` = the `assert!(format.is_valid())` of the `_with_options` API (only its radix part is modelled). -/
def writeInt (feats : Features) (t : IntTy) (radix : Nat) (reqSign checkValid : Bool) (v : Int) (buffer : Buf) :
    Res (Buf × Nat) := do
  if checkValid ∧ ¬ validRadix feats radix then .panic else
  let bits := t.bits
  let (out, len) ←
    if ¬ t.signed then
      let value := (v % (2 ^ bits : Nat)).toNat
      if feats.format ∧ reqSign then withSign 43 buffer (writeMantissa feats bits radix value false)
      else writeMantissa feats bits radix value false buffer
    else
      if v < 0 then
        -- `Unsigned::as_cast(value.wrapping_neg())`
        let u := (v % (2 ^ bits : Nat)).toNat
        let value := (2 ^ bits - u) % 2 ^ bits
        withSign 45 buffer (writeMantissa feats bits radix value true)
      else
        let value := (v % (2 ^ bits : Nat)).toNat
        if feats.format ∧ reqSign then withSign 43 buffer (writeMantissa feats bits radix value true)
        else writeMantissa feats bits radix value true buffer
  if len ≤ out.length then .ok (out, len) else .panic

/-! ## per-function literal lists, in source order (equated with `Gen.Literals.*` in `Props/C03Tie.lean`)

Named constants (`Lit.*`, the tables) are the ones the definitions above use; plain numerals are macro arm tags
(`@3-4` ↦ `3, 4`), indices, `* 2`, `+ 1`, type widths and the like, whose role is fixed by the token-shape
theorems of `Props/Literals/*.lean`. -/
namespace Lits
open Lit
-- jeaiii.rs
def next2 : List Nat := [next2Mul, hi32]
def u128Divrem1e10 : List Nat := [e10D, e10Fast, e10FastShr, e10Factor, e10FactorShr]
def writeN : List Nat := [1, 10, 1, 2, 1, 1, 2, 2, 2, 2, 4, alex4, alex4, 2, alex2, 2, alex2, 2, 2]
def printN : List Nat := [2, 2, 2, hi32, 10, 1, 0, 2, 2, 2, 0, 2]
def writeDigits : List Nat :=
  [1, 1, 0, 2, 2, 0, 2,
   3, m34, 1, 0, hi32, 2, 1, 2,
   3, 4, 0, m34, 0, 1,
   5, m56, 1, 0, hi32, 2, 1, 2, 2, 3, 2,
   5, 6, 0, m56, 0, 2,
   7, 8, 0, m78, s78, 3,
   9, m9, s9, 1, 0, hi32, 2, 1, 2, 2, 3, 2, 2, 5, 2, 2, 7, 2,
   10, m10, s10, 2, 0, hi32, 2, 2, 2, 2, 2, 4, 2, 2, 6, 2, 2, 8, 2,
   10, m10u64, s10u64, 2, 0, hi32, 2, 2, 2, 2, 2, 4, 2, 2, 6, 2, 2, 8, 2,
   10, 10, 4, 4, 2, 2, 10]
def fromU8 : List Nat := [sliceU8, t2, 3, t1, 2, 1]
def fromU16 : List Nat := [sliceU16, t4, 5, t2, 3, 4, t1, 2, 1]
def fromU32 : List Nat := [sliceU32, t4, t2, 3, 4, t1, 2, 1, t8, t6, 7, 8, 5, 6, t9, 10, 9]
def fromU64Impl : List Nat :=
  [t10, sliceI64, sliceU64, t4, t2, 3, 4, t1, 2, 1, t9, 10, t8, 9, t6, 7, 8, 5, 6, 10]
def fromU128 : List Nat :=
  [sliceU128, t4, t2, 3, 4, t1, 2, 1, t10, t9, 10, t8, 9, t6, 7, 8, 5, 6, t30, 10, 10, 10, t20, 10, 10, 10]
-- decimal.rs
def fastLog10 : List Nat := [log10Mul, log10Shr]
def fastDigitCount : List Nat := [32] ++ fastDigitCountTable ++ [32]
def fallbackDigitCount : List Nat := [1]
def decimalCount : List Nat := [19] ++ decimalTableU64 ++ [38] ++ decimalTableU128 ++ [8, 16, 32, 64, 128]
def decimal : List Nat := [8, 16, 32, 64, 128]
-- digit_count.rs
def fastLog2 : List Nat := [1]
def digitLog : List (List Nat) := [[1], [2, 1], [3, 1], [4, 1], [5, 1]]
def digitCountMacro : List Nat := [2, 4, 8, 16, 32, 1, 32, 4, 16, 2, 1]
def digitCount : List Nat :=
  [2, 36, 10, 2, 2, 4, 4, 8, 8, 16, 16, 32, 32, 10, 2, 2, 4, 4, 8, 8, 16, 16, 32, 32, 0]
-- algorithm.rs, compact.rs, radix.rs, write.rs, api.rs
def algWriteDigitsMacro : List Nat := [2, 2, 1, 1, 1, 1]
def algWriteDigitMacro : List Nat := [1, 1, 36, 1]
def algWriteDigits : List Nat := [2, 36, 2, 32, 16]
def algorithm : List Nat := [2, 36, 2]
def algorithmU128 : List Nat := [2, 36, 2, 0, 0, 0, 0]
def compact : List Nat := [128, 128, 0, 128, 1, 1]
def radix : List Nat := [64]
def writeInteger : List Nat := [10]
def apiUnsigned : List Nat := [0, 1, 1]
def apiSigned : List Nat := [0, 1, 1, 0, 1, 1]
-- lexical-util: digit.rs, div128.rs, step.rs
def digitToChar : List Nat := [36, 36]
def digitToCharConst : List Nat := [10, 10, 10]
def slowU128Divrem : List Nat := [64, 0, 65, 128, 0, 0, 1, 1, 127, 1, 1, 127, 1, 1]
def u64Step : List Nat := [64]
/-- the literal arguments of the call inside `u128_divrem_<r>` -/
def divremArgs : Option DivRem → List Nat
  | some (.pow2 mask shr) => [mask, shr]
  | some (.slow d c) => [d, c]
  | some (.moderate d f s) => [d, f, s]
  | some (.fast d fa fs f s) => [d, fa, fs, f, s]
  | none => []
end Lits

end LexVerif.Model.WriteInt
