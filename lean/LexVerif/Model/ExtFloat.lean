import LexVerif.Spec.Float
import LexVerif.Proof.Tables.FloatConstsDefs
import LexVerif.Proof.Tables.SmallDefs
import LexVerif.Model.Format
/-!
# Model.ExtFloat — what the string→float algorithm models share

* `ExtendedFloat80` (`lexical-util/src/extended_float.rs`, alias in `lexical-parse-float/src/float.rs`):
  `mant : u64`, `exp : i32`; an **invalid** result carries `exp` biased by `shared::INVALID_FP`
  (so `exp < 0`), exactly as in the Rust.
* `FTy`: a float type = its IEEE format (`Spec.Fmt`) + the constants of `Float`/`RawFloat`/`LemireFloat`
  as the compiled crate has them (`Gen.FloatConsts`, bundled by `Proof.Tables.FloatConstSet`).
* fixed-width helpers: `u64`/`u32` are `Nat` reduced `% 2^64`, `i32`/`i64` are `Int` wrapped explicitly;
  shifts and masks are written arithmetically (`/ 2^n`, `% 2^n`) so that `omega` can see through them.
* a three-function soft-float (`ofU64`, `fmul`, `fdiv`): **IEEE assumption** — the hardware converts
  an integer / multiplies / divides two finite floats by rounding the exact result to nearest-even.

Mathlib-free (the driver links it). `Proof.Tables.*Defs` are plain definitions over `Gen`.
-/
namespace LexVerif.Model
open LexVerif.Spec LexVerif.Proof.Tables

structure ExtendedFloat80 where
  mant : Nat
  exp : Int
deriving DecidableEq, Repr

/-- result of a moderate-path algorithm: a value, or a Rust panic (checked index / division by zero) -/
inductive AlgoRes where
  | ok (fp : ExtendedFloat80)
  | panic
deriving DecidableEq, Repr


/-- a float type as the algorithms see it -/
structure FTy where
  fmt : Fmt
  C : FloatConstSet

def FTy.f32 : FTy := ⟨Spec.f32, FloatConstSet.F32⟩
def FTy.f64 : FTy := ⟨Spec.f64, FloatConstSet.F64⟩
def FTy.ofName : String → Option FTy
  | "f32" => some .f32 | "f64" => some .f64 | _ => none

/-- `F::MANTISSA_SIZE` as a shift amount -/
def FTy.ms (F : FTy) : Nat := F.C.mantissaSize.toNat

/-- `shared::INVALID_FP` -/
def invalidFp : Int := Gen.FloatConsts.invalidFp

/-- the part of `lexical_parse_float::number::Number` the moderate paths read -/
structure Num where
  mantissa : Nat
  exponent : Int
  isNegative : Bool := false
  manyDigits : Bool := false
deriving DecidableEq, Repr

/-! ## fixed-width arithmetic -/

def U64 : Nat := 2 ^ 64
def wrap64 (n : Nat) : Nat := n % 2 ^ 64
def wrap32 (n : Nat) : Nat := n % 2 ^ 32
/-- two's-complement reinterpretation of an integer as `iN` -/
def wrapI (bits : Nat) (x : Int) : Int :=
  let m := x % (2 ^ bits : Int)
  if m ≥ (2 ^ (bits - 1) : Int) then m - (2 ^ bits : Int) else m
def wrapI32 (x : Int) : Int := wrapI 32 x
def wrapI64 (x : Int) : Int := wrapI 64 x
/-- `x as u64` for a signed `x` -/
def asU64 (x : Int) : Nat := (x % (2 ^ 64 : Int)).toNat

/-- `u64::leading_zeros` -/
def clz64 (w : Nat) : Nat := 64 - bitlen (w % 2 ^ 64)
/-- `x >> n` on `u64` for `n < 64` -/
def shr (x n : Nat) : Nat := x / 2 ^ n
/-- `x << n` on `u64` for `n < 64` (bits shifted out are lost) -/
def shl64 (x n : Nat) : Nat := x * 2 ^ n % 2 ^ 64
/-- `x << n` / `x >> n` in a release build for an arbitrary `n : u32`: the amount is masked to 6 bits
(debug builds panic when `n ≥ 64`) -/
def shl64m (x n : Nat) : Nat := shl64 x (n % 64)
def shr64m (x n : Nat) : Nat := shr x (n % 64)
/-- arithmetic `x >> n` on a signed integer -/
def sar (x : Int) (n : Nat) : Int := x / (2 ^ n : Int)

/-! ## mask.rs (the functions themselves; `Gen.FloatConsts.lowerNMask` … hold their values) -/

/-- `mask::lower_n_mask` (`n ≤ 64`) -/
def lowerNMask (n : Nat) : Nat := if n = 64 then 2 ^ 64 - 1 else shl64m 1 n - 1
/-- `mask::nth_bit` (`n < 64`) -/
def nthBit (n : Nat) : Nat := shl64m 1 n
/-- `mask::lower_n_halfway` (`n ≤ 64`) -/
def lowerNHalfway (n : Nat) : Nat := if n = 0 then 0 else nthBit (n - 1)

/-! ## soft-float on non-negative finite patterns (IEEE assumption) -/

/-- `m as f32/f64` for a `u64`: nearest, ties to even -/
def ofU64 (f : Fmt) (m : Nat) : Nat := roundNE f m 1

/-- exact value of a finite non-negative pattern as a fraction -/
def fracOf (f : Fmt) (bits : Nat) : Nat × Nat := (f.decode bits).toFrac

/-- `a * b` for finite non-negative `a`, `b` -/
def fmul (f : Fmt) (a b : Nat) : Nat :=
  let x := fracOf f a
  let y := fracOf f b
  roundNE f (x.1 * y.1) (x.2 * y.2)

/-- `a / b` for finite non-negative `a`, `b` (`x/0 = +inf`, `0/0 = NaN`) -/
def fdiv (f : Fmt) (a b : Nat) : Nat :=
  let x := fracOf f a
  let y := fracOf f b
  if y.1 = 0 then (if x.1 = 0 then f.infBits + 2 ^ (f.p - 2) else f.infBits)
  else roundNE f (x.1 * y.2) (x.2 * y.1)

/-- which `Gen.SmallPowers` instance a feature set compiles (`compact`: computed, not tabled) -/
def smallSetOf (feats : Features) : SmallSet :=
  if feats.compact then SmallSet.CompactRadix
  else if feats.radix || feats.powerOfTwo then SmallSet.Radix
  else SmallSet.Default

/-- `float::extended_to_float`: `word = mant | (exp as u64) << MANTISSA_SIZE`, then `as` the
unsigned type of the float's width -/
def extendedToFloat (F : FTy) (x : ExtendedFloat80) : Nat :=
  (x.mant ||| shl64 (asU64 x.exp) F.ms) % 2 ^ F.C.bits.toNat

/-- line-protocol rendering: `ok <bits of extended_to_float, hex> <mant> <exp>` (valid) | `inv <mant> <exp>` -/
def AlgoRes.render (F : FTy) : AlgoRes → String
  | .ok fp =>
    if fp.exp < 0 then "inv " ++ toString fp.mant ++ " " ++ toString fp.exp
    else "ok " ++ toHex (extendedToFloat F fp) ++ " " ++ toString fp.mant ++ " " ++ toString fp.exp
  | .panic => "panic"

end LexVerif.Model
