import LexVerif.Model.Format
import LexVerif.Model.WriteOpts
import LexVerif.Spec.Numeral
/-!
# Model.FormatDecimal — the digit-formatting layer shared by the decimal float writers

Mirrors `lexical-write-float/src/shared.rs` (`truncate_and_round_decimal`, `round_up`,
`min_exact_digits`, `write_exponent`, the `write_float!` notation choice) and the three layout
functions at the top of `algorithm.rs` / `compact.rs` (`write_float_scientific`,
`write_float_positive_exponent`, `write_float_negative_exponent`).

Input: the significant digits as digit *values* (most significant first, no trailing zeros, `[0]` for
zero) and the scientific exponent. Output: the bytes.
-/
namespace LexVerif.Model
open LexVerif.Spec

/-- `shared::round_up`: increment the digit string; trailing max digits are dropped. -/
def roundUp (radix : Nat) (ds : List Nat) : List Nat × Bool :=
  let rec go : List Nat → List Nat × Bool      -- works on the reversed list
    | [] => ([1], true)
    | d :: rest => if d + 1 < radix then ((d + 1) :: rest, false) else go rest
  let (r, c) := go ds.reverse
  (r.reverse, c)

/-- `shared::truncate_and_round_decimal` on digit values. -/
def truncateAndRound (ds : List Nat) (o : WOpts) : List Nat × Bool :=
  match o.maxDigits with
  | none => (ds, false)
  | some mx =>
    if mx ≥ ds.length then (ds, false)
    else if o.truncate then (ds.take mx, false)
    else
      let t := ds.getD mx 0
      if t < 5 then (ds.take mx, false)
      else if t > 5 then roundUp 10 (ds.take mx)
      else
        let isOdd := ds.getD (mx - 1) 0 % 2 = 1
        let isAbove := (ds.drop (mx + 1)).any (· ≠ 0)
        if isOdd ∨ isAbove then roundUp 10 (ds.take mx) else (ds.take mx, false)

def minExactDigits (count : Nat) (o : WOpts) : Nat :=
  match o.minDigits with
  | some m => max m count
  | none => count

def zeros (n : Nat) : List Nat := List.replicate n 48
def chars (ds : List Nat) : List Nat := ds.map digitChar

/-- `shared::write_exponent`: exponent character, sign, magnitude in the exponent radix. -/
def writeExponent (fmt : Format) (feats : Features) (exp : Int) (expChar : Nat) (expRadix : Nat) : List Nat :=
  let sign : List Nat :=
    if exp < 0 then [45] else if feats.format ∧ fmt.requiredExponentSign then [43] else []
  [expChar] ++ sign ++ numeral expRadix exp.natAbs

/-- `write_float_scientific` after `truncate_and_round_decimal` (fix C14-decimal-trim-after-rounding): with
`trim_floats`, digits that are all `0` after the first one are dropped — the mantissa is integral. -/
def trimSci (o : WOpts) (ds : List Nat) : List Nat :=
  if o.trim ∧ ds.tail.all (· = 0) then ds.take 1 else ds

/-- `write_float_positive_exponent` after `leading_digits` is known (same fix): with `trim_floats`, digits past the
decimal point that are all `0` are dropped — the value is integral. -/
def trimPos (o : WOpts) (leading : Nat) (ds : List Nat) : List Nat :=
  if o.trim ∧ ds.length > leading ∧ (ds.drop leading).all (· = 0) then ds.take leading else ds

/-- digits kept by the scientific layout, and the carry -/
def roundSci (ds : List Nat) (o : WOpts) : List Nat × Bool :=
  (trimSci o (truncateAndRound ds o).1, (truncateAndRound ds o).2)

/-- digits kept by the positional layout of a value ≥ 1, and the carry -/
def roundPos (ds : List Nat) (sciExp : Int) (o : WOpts) : List Nat × Bool :=
  (trimPos o (sciExp.toNat + 1 + (if (truncateAndRound ds o).2 then 1 else 0)) (truncateAndRound ds o).1,
   (truncateAndRound ds o).2)

def writeScientific (fmt : Format) (feats : Features) (ds : List Nat) (sciExp : Int) (o : WOpts)
    (expRadix : Nat := 10) : List Nat :=
  let (ds, carried) := roundSci ds o
  let sciExp := sciExp + (if carried then 1 else 0)
  let count := ds.length
  let exact := minExactDigits count o
  let d0 := digitChar (ds.headD 0)
  let rest := chars ds.tail
  let body : List Nat :=
    if ¬ fmt.noExponentWithoutFraction ∧ count = 1 ∧ o.trim then [d0]
    else if count < exact then [d0, o.dp] ++ rest ++ zeros (exact - count)
    else if count = 1 then [d0, o.dp, 48]
    else [d0, o.dp] ++ rest
  body ++ writeExponent fmt feats sciExp o.exp expRadix

def writeNegative (ds : List Nat) (sciExp : Int) (o : WOpts) : List Nat :=
  let k := sciExp.natAbs                      -- sci_exp < 0
  let (ds, carried) := truncateAndRound ds o
  let count := ds.length
  let exact := minExactDigits count o
  if carried ∧ k = 1 then
    (if o.trim then [49]
     else [49, o.dp, 48] ++ (if count + 1 < minExactDigits (count + 1) o then zeros (minExactDigits (count + 1) o - (count + 1)) else []))
  else
    let lead := if carried then k - 2 else k - 1          -- zeros between the point and the digits
    [48, o.dp] ++ zeros lead ++ chars ds ++ (if count < exact then zeros (exact - count) else [])

def writePositive (ds : List Nat) (sciExp : Int) (o : WOpts) : List Nat :=
  let (ds, carried) := roundPos ds sciExp o
  let count := ds.length
  let leading := sciExp.toNat + 1 + (if carried then 1 else 0)
  if leading ≥ count then
    let intPart := chars ds ++ zeros (leading - count)
    if o.trim then intPart
    else
      let count' := leading + 1
      let exact := minExactDigits count' o
      intPart ++ [o.dp, 48] ++ (if exact > count' then zeros (exact - count') else [])
  else
    let exact := minExactDigits count o
    chars (ds.take leading) ++ [o.dp] ++ chars (ds.drop leading)
      ++ (if exact > count then zeros (exact - count) else [])

/-- the `write_float!` macro: notation choice, judged on the un-carried scientific exponent -/
def writeDigits (fmt : Format) (feats : Features) (ds : List Nat) (sciExp : Int) (o : WOpts) : List Nat :=
  let minExp := o.negBreak.getD (-5)
  let maxExp := o.posBreak.getD 9
  let outside := sciExp < minExp ∨ sciExp > maxExp
  let require := fmt.requiredExponentNotation ∨ outside
  if ¬ fmt.noExponentNotation ∧ require then writeScientific fmt feats ds sciExp o
  else if sciExp < 0 then writeNegative ds sciExp o
  else writePositive ds sciExp o

end LexVerif.Model
