/-! # Model.WriteOpts — `lexical_write_float::Options` as a record -/
namespace LexVerif.Model

structure WOpts where
  maxDigits : Option Nat := none
  minDigits : Option Nat := none
  posBreak : Option Int := none
  negBreak : Option Int := none
  truncate : Bool := false
  trim : Bool := false
  exp : Nat := 101      -- 'e'
  dp : Nat := 46        -- '.'
  nan : Option (List Nat) := some [78, 97, 78]
  inf : Option (List Nat) := some [105, 110, 102]
deriving Repr, DecidableEq

end LexVerif.Model
