import LexVerif.Model.WriteBinary
/-!
# Model.WriteRadixInt — the INTEGER part of `lexical-write-float/src/radix.rs` (generic radix, `radix` feature)

For a float whose value is an integer `n`, `1 ≤ n < 2^53` (f64) / `2^24` (f32), `write_float` of radix.rs takes this path:
`fraction = float - float.floor() = 0`, so `fraction > delta` is false and the fraction loop is skipped;
`(integer / base).exponent() > 0` (value ≥ 2^53 / 2^24) is false, so no `'0'` padding; then

```
loop { let remainder = integer % base; … digit_to_char(remainder as u32) …; integer = (integer - remainder) / base;
       if integer <= 0 { break } }
```
on `f64`/`f32` VALUES. The model runs this loop on the integer values through an abstract `FOps` (the three float
operations restricted to integral operands); `IeeeExact` is the IEEE-754 assumption that `%` (fmod, always exact), `-` and
`/` return the exact result when it is an integer below the mantissa limit (a representable number): under it the loop is
the radix conversion (`Props.C07.radix_integer_exact`). The driver executes the model with `exactOps`.
Default digit options (`truncate_and_round` = identity); layouts as written in `write_float_scientific` /
`write_float_nonscientific` (the latter does NOT trim the integer digits).
-/
namespace LexVerif.Model.WriteRadixInt
open LexVerif.Spec LexVerif.Model LexVerif.Model.WriteBinary
open LexVerif.Model.Dragonbox (FTy i32)

/-- float `%`, `-`, `/` on operands that are integers (given by their values) -/
structure FOps where
  frem : Nat → Nat → Nat
  fsub : Nat → Nat → Nat
  fdiv : Nat → Nat → Nat

/-- IEEE-754: the three operations are exact whenever the exact result is an integer below `lim` (hence representable) -/
def IeeeExact (lim : Nat) (ops : FOps) : Prop :=
  ∀ a b : Nat, a < lim → 0 < b → b < lim →
    ops.frem a b = a % b ∧ (b ≤ a → ops.fsub a b = a - b) ∧ ops.fsub a 0 = a ∧ (b ∣ a → ops.fdiv a b = a / b)

def exactOps : FOps := ⟨(· % ·), (· - ·), (· / ·)⟩

/-- the integer digit loop; `acc` is the buffer content right of `integer_cursor` (digit VALUES) -/
def intLoop (ops : FOps) (base : Nat) : Nat → Nat → List Nat → List Nat
  | 0, _, acc => acc
  | fuel + 1, integer, acc =>
    let remainder := ops.frem integer base
    let acc := remainder :: acc
    let integer := ops.fdiv (ops.fsub integer remainder) base
    if integer = 0 then acc else intLoop ops base fuel integer acc

def integerDigits (ops : FOps) (base n : Nat) : List Nat := intLoop ops base 64 n []

/-- `ltrim_char_count(digits, b'0')` -/
def ltrimZeroCount (ds : List Nat) : Nat := (ds.takeWhile (· = 0)).length

/-- `write_float_scientific`, no `max_significant_digits`, `sci_exp ≥ 0` -/
def sciLayout (fmt : Format) (o : WOpts) (ds : List Nat) (sciExp : Int) : Layout :=
  let d0 := ds.headD 0
  let rest := rtrimZeros ds.tail
  let digitCount := 1 + rest.length
  let exact := minExactDigits digitCount o
  if ¬ fmt.noExponentWithoutFraction ∧ digitCount = 1 ∧ o.trim then ⟨[d0], [], false, some sciExp⟩
  else if exact < 2 then ⟨[d0], [0], true, some sciExp⟩
  else ⟨[d0], rest ++ pad exact digitCount, true, some sciExp⟩

/-- `write_float_nonscientific` when all digits are integer digits (`fraction_count = 0`) -/
def nonsciLayout (o : WOpts) (ds : List Nat) : Layout :=
  if o.trim then ⟨ds, [], false, none⟩
  else ⟨ds, [0] ++ pad (minExactDigits (ds.length + 1) o) (ds.length + 1), true, none⟩

/-- `radix::write_float` on a float with integral value `n ≥ 1` below the mantissa limit -/
def layoutInt (fmt : Format) (o : WOpts) (ops : FOps) (n : Nat) : Layout :=
  let ds := integerDigits ops fmt.mantissaRadix n
  let sciExp : Int := i32 (i32 ((ds.length : Int) - (ltrimZeroCount ds : Int)) - 1)
  let minExp := o.negBreak.getD (-5)
  let maxExp := o.posBreak.getD 9
  let outside := sciExp < minExp ∨ sciExp > maxExp
  let require := fmt.requiredExponentNotation ∨ outside
  if ¬ fmt.noExponentNotation ∧ require then sciLayout fmt o ds sciExp else nonsciLayout o ds

/-- the integral value of a finite pattern (sign removed), if it is an integer in `[1, 2^(MANTISSA_SIZE+1))` -/
def integralValue (t : FTy) (mag : Nat) : Option Nat :=
  let m := t.mantissa mag
  let e := t.exponent mag
  if e ≥ 0 then (if e = 0 ∧ 0 < m then some m else none)
  else
    let s := (-e).toNat
    if m % 2 ^ s = 0 ∧ 0 < m then some (m / 2 ^ s) else none

end LexVerif.Model.WriteRadixInt
