import LexVerif.Model.ExtFloat
import LexVerif.Gen.Bellerophon
/-!
# Model.Bellerophon — Clinger's Bellerophon moderate path and the shared rounding helpers

`bellerophon`, `error_is_accurate`, `normalize`, `mul`, `BellerophonPowers::get_small/get_large/get_small_int`
(lexical-parse-float/src/bellerophon.rs, **current** code: the many-digit truncation error is booked as
`error_scale << min(ctlz + 1, 20)`, /repo commit 5dc6041), `shared::round`, `shared::round_nearest_tie_even`,
`shared::round_down` (shared.rs); the mask functions are in `Model.ExtFloat`.

Tie: **R** — `bellerophon_powers(radix)` per feature set (`Gen.Bellerophon`), float constants
(`Gen.FloatConsts`); **S** — literals in the section below; **C** — op `bel`.
`u64`/`u32` arithmetic modulo `2^64`/`2^32`; masks `2^n − 1` are applied as `% 2^n`, single-bit masks as
`/ 2^n % 2` (`Props.TablesParse.mask_functions`, `float_constants_*` say the constants have that shape).
-/
namespace LexVerif.Model.Bellerophon
open LexVerif.Spec LexVerif.Proof.Tables LexVerif.Model
open LexVerif.Gen.Bellerophon (Powers)

/-! ## literals of bellerophon.rs (S) -/

/-- `num.exponent <= -0x1000` / `>= 0x1000` -/
def litExpCut : Int := 0x1000
/-- `error_scale()` -/
def litErrorScale : Nat := 8
/-- `error_halfscale() = error_scale() / 2` -/
def litErrorHalfscale : Nat := litErrorScale / 2
/-- `if shift < 20 { shift } else { 20 }` -/
def litManyShiftCap : Nat := 20
/-- `-fp.exp + 1 > 65`, `-fp.exp + 1 == 65` -/
def litZeroShift : Int := 65

/-- the integer literals of `bellerophon` in source order (cf. `Gen.Literals.parse_float_bellerophon_bellerophon`):
the `2 | 4 | 8 | 16 | 32` of the `debug_assert!`, `fp_zero`/`fp_inf`, `mantissa == 0`, `0x1000` twice, `exponent < 0`,
`errors = 0`, `leading_zeros() + 1`, `20` twice, `exp: 0`, `errors > 0`, `errors += 1`, `-fp.exp + 1 > 65`, `== 65` -/
def bellerophonLiterals : List Nat :=
  [2, 4, 8, 16, 32, 0, 0, 0, 0, litExpCut.toNat, litExpCut.toNat, 0, 0, 1, litManyShiftCap, litManyShiftCap, 0, 0, 1,
   1, litZeroShift.toNat, 1, litZeroShift.toNat]
/-- `error_scale` -/
def errorScaleLiterals : List Nat := [litErrorScale]

example : bellerophonLiterals = [2, 4, 8, 16, 32, 0, 0, 0, 0, 4096, 4096, 0, 0, 1, 20, 20, 0, 0, 1, 1, 65, 1, 65] ∧
    errorScaleLiterals = [8] := by decide

/-! ## shared.rs rounding -/

/-- `shared::round_nearest_tie_even(fp, shift, cb)`, `0 ≤ shift ≤ 64`;
`cb is_odd is_halfway is_above` -/
def roundNearestTieEven (fp : ExtendedFloat80) (shift : Nat) (cb : Bool → Bool → Bool → Bool) :
    ExtendedFloat80 :=
  let halfway := lowerNHalfway shift
  let truncatedBits := fp.mant % (lowerNMask shift + 1)          -- `fp.mant & mask`
  let isAbove := decide (truncatedBits > halfway)
  let isHalfway := decide (truncatedBits = halfway)
  let mant := if shift = 64 then 0 else shr64m fp.mant shift
  let isOdd := decide (mant % 2 = 1)
  { mant := wrap64 (mant + (if cb isOdd isHalfway isAbove then 1 else 0)), exp := fp.exp + shift }

/-- `shared::round_down(fp, shift)` -/
def roundDown (fp : ExtendedFloat80) (shift : Nat) : ExtendedFloat80 :=
  { mant := if shift = 64 then 0 else shr64m fp.mant shift, exp := fp.exp + shift }

/-- `shared::round::<F, _>(fp, cb)` -/
def round (F : FTy) (fp : ExtendedFloat80) (cb : ExtendedFloat80 → Nat → ExtendedFloat80) :
    ExtendedFloat80 :=
  let mantissaShift : Int := 64 - F.C.mantissaSize - 1
  if -fp.exp ≥ mantissaShift then
    -- denormal (or rounds up to the smallest normal)
    let shift := -fp.exp + 1
    let fp := cb fp (min shift 64).toNat
    { fp with exp := if (fp.mant : Int) ≥ F.C.hiddenBitMask then 1 else 0 }
  else
    let fp := cb fp mantissaShift.toNat
    let carry := F.C.carryMask.toNat
    let fp := if fp.mant / carry % 2 = 1 then { mant := shr fp.mant 1, exp := fp.exp + 1 } else fp
    if fp.exp ≥ F.C.infinitePower then { mant := 0, exp := F.C.infinitePower }
    else { fp with mant := fp.mant % (F.C.mantissaMask.toNat + 1) }     -- `fp.mant &= MANTISSA_MASK`

/-! ## extended-precision arithmetic -/

/-- `normalize(fp) -> shift` -/
def normalize (fp : ExtendedFloat80) : ExtendedFloat80 × Nat :=
  if fp.mant ≠ 0 then
    let shift := clz64 fp.mant
    ({ mant := shl64m fp.mant shift, exp := fp.exp - shift }, shift)
  else (fp, 0)

/-- `mul(x, y)` -/
def mul (x y : ExtendedFloat80) : ExtendedFloat80 :=
  let lomask := 2 ^ 32
  let x1 := shr x.mant 32
  let x0 := x.mant % lomask
  let y1 := shr y.mant 32
  let y0 := y.mant % lomask
  let x1y0 := wrap64 (x1 * y0)
  let x0y1 := wrap64 (x0 * y1)
  let x0y0 := wrap64 (x0 * y0)
  let x1y1 := wrap64 (x1 * y1)
  let tmp := wrap64 (x1y0 % lomask + x0y1 % lomask + shr x0y0 32)
  let tmp := wrap64 (tmp + 2 ^ 31)                                -- round up
  { mant := wrap64 (x1y1 + shr x1y0 32 + shr x0y1 32 + shr tmp 32), exp := x.exp + y.exp + 64 }

/-- `BellerophonPowers::get_small(index)`; `none` = checked index panics -/
def getSmall (P : Powers) (index : Nat) : Option ExtendedFloat80 :=
  P.small[index]?.map fun mant =>
    { mant := mant, exp := wrapI32 ((1 - 64) + sar (wrapI64 (P.log2 * index)) P.log2Shift.toNat) }

/-- `BellerophonPowers::get_large(index)` -/
def getLarge (P : Powers) (index : Nat) : Option ExtendedFloat80 :=
  P.large[index]?.map fun mant =>
    let biasedE : Int := wrapI64 ((index : Int) * P.step - P.bias)
    { mant := mant, exp := wrapI32 ((1 - 64) + sar (wrapI64 (P.log2 * biasedE)) P.log2Shift.toNat) }

/-- `BellerophonPowers::get_small_int(index)` -/
def getSmallInt (P : Powers) (index : Nat) : Option Nat := P.smallInt[index]?

/-- `error_is_accurate::<F>(errors, fp)` -/
def errorIsAccurate (F : FTy) (errors : Nat) (fp : ExtendedFloat80) : Bool :=
  let mantissaShift : Int := 64 - F.C.mantissaSize - 1
  let extrabits : Int := if fp.exp ≤ -mantissaShift then 1 - fp.exp else 64 - F.C.mantissaSize - 1
  let maskbits := asU64 extrabits
  if extrabits > 64 then decide (fp.mant + errors < 2 ^ 64)       -- `!overflowing_add(..).1`
  else
    let extra := fp.mant % (lowerNMask maskbits + 1)              -- `fp.mant & mask`
    let halfway := lowerNHalfway maskbits
    let cmp1 := decide (halfway < min (extra + errors) (2 ^ 64 - 1))      -- saturating_add
    let cmp2 := decide (extra < min (halfway + errors) (2 ^ 64 - 1))
    !(cmp1 && cmp2)

/-- which `bellerophon_powers` a feature set compiles -/
def powersOf (feats : Features) : Nat → Powers :=
  if feats.compact then Gen.Bellerophon.CompactRadix.powers else Gen.Bellerophon.Radix.powers

/-- first half of `bellerophon` (split off only so that proofs can name it; the Rust has one function):
the early exits, or the scaled, normalised extended float with its biased exponent and the booked `errors` -/
inductive Prep where
  | zero
  | inf
  | panic
  | mid (fp : ExtendedFloat80) (errors : Nat)
deriving DecidableEq, Repr

/-- multiply the mantissa by the small power: exactly in `u64` when that does not overflow, else normalise
and use the extended-precision `mul` (booking half a unit); returns the float and the booked errors -/
def scaleSmall (w si : Nat) (sm : ExtendedFloat80) (errors : Nat) : ExtendedFloat80 × Nat :=
  if w * si ≥ 2 ^ 64 then (mul (normalize ⟨w, 0⟩).1 sm, wrap32 (errors + litErrorHalfscale))
  else ((normalize ⟨w * si, 0⟩).1, errors)

/-- multiply by the large power, book its errors, normalise (scaling the errors), bias the exponent -/
def scaleLarge (F : FTy) (fp1 : ExtendedFloat80) (e1 : Nat) (lg : ExtendedFloat80) : Prep :=
  .mid ⟨(normalize (mul fp1 lg)).1.mant, (normalize (mul fp1 lg)).1.exp + F.C.exponentBias⟩
    (wrap32 (wrap32 ((if e1 > 0 then wrap32 (e1 + 1) else e1) + litErrorHalfscale) *
      2 ^ ((normalize (mul fp1 lg)).2 % 32)))

def bellPrepare (F : FTy) (P : Powers) (n : Num) : Prep :=
  if n.mantissa = 0 ∨ n.exponent ≤ -litExpCut then .zero
  else if n.exponent ≥ litExpCut then .inf
  else
    let exponent : Int := wrapI32 (wrapI32 n.exponent + P.bias)
    if P.step = 0 then .panic                                     -- `exponent % powers.step`
    else
    let smallIndex := Int.tmod exponent P.step
    let largeIndex := Int.tdiv exponent P.step
    if exponent < 0 then .zero
    else if largeIndex.toNat ≥ P.large.size then .inf
    else
      let errors : Nat :=
        if n.manyDigits then
          let shift := clz64 n.mantissa + 1
          wrap32 (shl64m litErrorScale (if shift < litManyShiftCap then shift else litManyShiftCap) % 2 ^ 32)
        else 0
      match getSmallInt P smallIndex.toNat, getSmall P smallIndex.toNat, getLarge P largeIndex.toNat with
      | some si, some sm, some lg =>
        scaleLarge F (scaleSmall n.mantissa si sm errors).1 (scaleSmall n.mantissa si sm errors).2 lg
      | _, _, _ => .panic

/-- second half of `bellerophon`: underflow cut, the accuracy decision, rounding -/
def bellFinish (F : FTy) (fp : ExtendedFloat80) (errors : Nat) (lossy : Bool) : AlgoRes :=
  let fpZero : ExtendedFloat80 := { mant := 0, exp := 0 }
  if -fp.exp + 1 > litZeroShift then .ok fpZero
  else if !lossy && !errorIsAccurate F errors fp then .ok { fp with exp := fp.exp + invalidFp }
  else if -fp.exp + 1 = litZeroShift then .ok fpZero
  else
    .ok (round F fp fun f s =>
      roundNearestTieEven f s fun isOdd isHalfway isAbove => isAbove || (isOdd && isHalfway))

/-- `bellerophon::<F, FORMAT>(num, lossy)`; `P = bellerophon_powers(format.radix())` -/
def bellerophon (F : FTy) (P : Powers) (n : Num) (lossy : Bool) : AlgoRes :=
  match bellPrepare F P n with
  | .zero => .ok { mant := 0, exp := 0 }
  | .inf => .ok { mant := 0, exp := F.C.infinitePower }
  | .panic => .panic
  | .mid fp errors => bellFinish F fp errors lossy

end LexVerif.Model.Bellerophon
