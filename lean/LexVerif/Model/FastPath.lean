import LexVerif.Model.ExtFloat
/-!
# Model.FastPath — `Number::is_fast_path`, `Number::try_fast_path` (lexical-parse-float/src/number.rs)

Tie: **R** — `pow_fast_path`, `int_pow_fast_path`, `min/max_exponent_fast_path`,
`max_exponent_disguised_fast_path` come from `Gen.SmallPowers` (dumped from the compiled crate, per
feature set), `MAX_MANTISSA_FAST_PATH` from `Gen.FloatConsts`; **C** — op `fp`.
Float arithmetic: `ofU64`/`fmul`/`fdiv` of `Model.ExtFloat` (IEEE assumption).
-/
namespace LexVerif.Model.FastPath
open LexVerif.Spec LexVerif.Proof.Tables LexVerif.Model

inductive FastRes where
  | some (bits : Nat)
  | none
  | panic
deriving DecidableEq, Repr

def FastRes.render : FastRes → String
  | .some b => "some " ++ toHex b
  | .none => "none"
  | .panic => "panic"

/-- `Number::is_fast_path::<F, FORMAT>` (`radix = format.radix()`, the mantissa radix) -/
def isFastPath (S : SmallSet) (F : FTy) (radix : Nat) (n : Num) : Bool :=
  decide (S.minExpFast F.fmt radix ≤ n.exponent) &&
  decide (n.exponent ≤ S.maxExpDisguised F.fmt radix) &&
  decide ((n.mantissa : Int) ≤ F.C.maxMantissaFastPath) &&
  !n.manyDigits

/-- `F::pow_fast_path(e, radix)`: checked table index (⇒ panic beyond the table) -/
def powFastPath (S : SmallSet) (F : FTy) (radix e : Nat) : Option Nat := (S.floatPow F.fmt radix)[e]?
/-- `F::int_pow_fast_path(e, radix)` -/
def intPowFastPath (S : SmallSet) (radix e : Nat) : Option Nat := (S.intPow radix)[e]?

/-- literals of `try_fast_path` in source order: only `self.exponent < 0`; `is_fast_path` has none (every limit
is a constant or a table, tied by R) -/
def tryFastPathLiterals : List Nat := [0]
def isFastPathLiterals : List Nat := []

/-- attach the sign: `value = -value` -/
def withSign (F : FTy) (neg : Bool) (bits : Nat) : Nat := if neg then bits + F.fmt.signBit else bits

/-- `Number::try_fast_path::<F, FORMAT>`; `radix`/`expBase` are `format.mantissa_radix()` /
`format.exponent_base()`. The first test is the mixed-base guard of /repo commit 5add295. -/
def tryFastPath (S : SmallSet) (F : FTy) (radix expBase : Nat) (n : Num) : FastRes :=
  if radix ≠ expBase then .none
  else if isFastPath S F radix n then
    let maxExponent := S.maxExpFast F.fmt radix
    if n.exponent ≤ maxExponent then
      -- normal fast path
      let value := ofU64 F.fmt n.mantissa
      if n.exponent < 0 then
        match powFastPath S F radix (-n.exponent).toNat with
        | some p => .some (withSign F n.isNegative (fdiv F.fmt value p))
        | none => .panic
      else
        match powFastPath S F radix n.exponent.toNat with
        | some p => .some (withSign F n.isNegative (fmul F.fmt value p))
        | none => .panic
    else
      -- disguised fast path
      let shift := n.exponent - maxExponent
      match intPowFastPath S radix shift.toNat with
      | none => .panic
      | some intPower =>
        let mantissa := n.mantissa * intPower
        if mantissa ≥ 2 ^ 64 then .none              -- `checked_mul(..)?`
        else if (mantissa : Int) > F.C.maxMantissaFastPath then .none
        else
          match powFastPath S F radix maxExponent.toNat with
          | some p => .some (withSign F n.isNegative (fmul F.fmt (ofU64 F.fmt mantissa) p))
          | none => .panic
  else .none

end LexVerif.Model.FastPath
