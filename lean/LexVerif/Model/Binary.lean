import LexVerif.Model.Bellerophon
/-!
# Model.Binary — string→float for power-of-two radices

`binary`, `slow_binary`, `parse_u64_digits` (lexical-parse-float/src/binary.rs), `calculate_power2`,
`calculate_shift`, `log2` (shared.rs) — the **current** code, including the fixes 220c4cc (saturating
`calculate_power2`), ead3b71 (zero mantissa), 8f70c74 (`slow_binary` stops after `u64_step` digits),
0628223 (values in (1/2, 1) of the least denormal round up), 6cdda4d (infinity before the invalid marker).

Tie: **R** — float constants, `u64_step` (`Gen.SmallPowers`); **C** — ops `bin`, `sbin`.
-/
namespace LexVerif.Model.Binary
open LexVerif.Spec LexVerif.Proof.Tables LexVerif.Model LexVerif.Model.Bellerophon

/-- `shared::log2(radix)` -/
def log2Radix (r : Nat) : Int :=
  if r = 2 then 1 else if r = 4 then 2 else if r = 8 then 3 else if r = 16 then 4 else if r = 32 then 5 else 1

/-- `const LIMIT: i64 = (i32::MAX / 2) as i64`: the divisor is the only literal of `calculate_power2` -/
def litPower2Div : Nat := 2
def litPower2Limit : Int := ((2 ^ 31 - 1) / litPower2Div : Nat)
/-- `-power2 + 1 > 64` in `binary` (zero cut-off) -/
def litZeroCut : Int := 64
/-- `shift == 64` in `binary` -/
def litShiftFull : Nat := 64

/-- `i64::saturating_mul` -/
def satMulI64 (a b : Int) : Int :=
  let p := a * b
  if p > 2 ^ 63 - 1 then 2 ^ 63 - 1 else if p < -(2 ^ 63) then -(2 ^ 63) else p

/-- `shared::calculate_power2::<F, FORMAT>(exponent, ctlz)`; `expBase = format.exponent_base()` -/
def calculatePower2 (F : FTy) (expBase : Nat) (exponent : Int) (ctlz : Nat) : Int :=
  let power2 := wrapI64 (wrapI64 (satMulI64 exponent (log2Radix expBase) + F.C.exponentBias) - ctlz)
  if power2 > litPower2Limit then litPower2Limit
  else if power2 < -litPower2Limit then -litPower2Limit
  else power2

/-- `shared::calculate_shift::<F>(power2)` -/
def calculateShift (F : FTy) (power2 : Int) : Int :=
  let mantissaShift : Int := 64 - F.C.mantissaSize - 1
  if -power2 ≥ mantissaShift then -power2 + 1 else mantissaShift

/-- `binary::<F, FORMAT>(num, lossy)` -/
def binary (F : FTy) (expBase : Nat) (n : Num) (lossy : Bool) : AlgoRes :=
  let fpZero : ExtendedFloat80 := { mant := 0, exp := 0 }
  if n.mantissa = 0 then .ok fpZero
  else
    let ctlz := clz64 n.mantissa
    let mantissa := shl64m n.mantissa ctlz
    let power2 := calculatePower2 F expBase n.exponent ctlz
    if -power2 + 1 > litZeroCut then .ok fpZero
    -- /repo commit 6cdda4d: at or beyond the exponent of infinity whatever the rounding does
    -- (the invalid marker below is only negative for exponents below 2^15)
    else if power2 ≥ F.C.infinitePower then .ok { mant := 0, exp := F.C.infinitePower }
    else
      let shift := (calculateShift F power2).toNat
      -- `last_bit = if shift == 64 { 0 } else { 1 << shift }`, `truncated = last_bit.wrapping_sub(1)`
      let halfway := lowerNHalfway shift
      let isEven := if shift = litShiftFull then true else decide (mantissa / 2 ^ (shift % 64) % 2 = 0)
      let truncatedBits := if shift = litShiftFull then mantissa else mantissa % 2 ^ (shift % 64)
      let isHalfway := decide (truncatedBits = halfway)
      if !lossy && isEven && isHalfway && n.manyDigits then
        .ok { mant := mantissa, exp := power2 + invalidFp }
      else
        let isAbove := decide (truncatedBits > halfway)
        let roundUp := isAbove || (!isEven && isHalfway)
        .ok (round F { mant := mantissa, exp := power2 } fun f s =>
          roundNearestTieEven f s fun _ _ _ => roundUp)

/-! ## literals in source order (S tie: `Props/LiteralsModel.lean` equates them with `Gen.Literals`) -/

/-- `binary`: `2 | 4 | 8 | 16 | 32` (debug_assert), `fp_zero`, `mantissa == 0`, `-power2 + 1 > 64`, `mant: 0` of the
infinity exit, `shift == 64`, `true => 0`, `1u64 << shift`, `wrapping_sub(1)`, `mantissa & last_bit == 0` -/
def binaryLiterals : List Nat :=
  [2, 4, 8, 16, 32, 0, 0, 0, 1, litZeroCut.toNat, 0, litShiftFull, 0, 1, 1, 0]
/-- `calculate_power2` -/
def calculatePower2Literals : List Nat := [litPower2Div]
/-- `calculate_shift`: `64 - F::MANTISSA_SIZE - 1`, `-power2 + 1` -/
def calculateShiftLiterals : List Nat := [64, 1, 1]
/-- `log2`: the match arms, read off the model function -/
def log2Literals : List Nat :=
  [2, (log2Radix 2).toNat, 4, (log2Radix 4).toNat, 8, (log2Radix 8).toNat, 16, (log2Radix 16).toNat,
   32, (log2Radix 32).toNat, (log2Radix 0).toNat]
/-- `slow_binary`: the radices of the debug_assert, `mantissa = 0_u64`, `mantissa == 0` -/
def slowBinaryLiterals : List Nat := [2, 4, 8, 16, 32, 0, 0]

/-! ## slow_binary -/

structure DigitState where
  mantissa : Nat
  step : Nat
  overflowed : Bool
  zero : Bool
deriving DecidableEq, Repr

/-- ASCII digit value (`char_to_valid_digit_const`; the bytes were validated by `parse_number`) -/
def digitVal (c radix : Nat) : Nat :=
  if radix ≤ 10 then (c + 256 - 48) % 256
  else if 48 ≤ c ∧ c ≤ 57 then c - 48
  else if 65 ≤ c ∧ c ≤ 90 then c - 55
  else if 97 ≤ c ∧ c ≤ 122 then c - 87
  else 255

/-- the single-digit loop of `parse_u64_digits` -/
def parseDigitsLoop (radix : Nat) : List Nat → DigitState → DigitState
  | [], s => s
  | c :: cs, s =>
    let digit := digitVal c radix
    let s :=
      if !s.overflowed && s.step > 0 then
        let r := s.mantissa * radix + digit          -- checked_mul, checked_add
        if r < 2 ^ 64 then { s with mantissa := r }
        else { s with overflowed := true, zero := s.zero && digit == 0 }
      else { s with zero := s.zero && digit == 0 }
    parseDigitsLoop radix cs { s with step := s.step - 1 }

/-- value of 8 digits (`try_parse_8digits`), `none` if fewer than 8 bytes remain or one is not a digit -/
def parse8 (radix : Nat) (bytes : List Nat) : Option Nat :=
  if bytes.length < 8 then none
  else
    let ds := (bytes.take 8).map fun c => (c + 256 - 48) % 256
    if ds.all (· < radix) then some (ds.foldl (fun acc d => acc * radix + d) 0) else none

/-- the 8-digit loop (`while *step > 8`), with fuel = number of bytes -/
def parse8Loop (radix : Nat) : Nat → List Nat → DigitState → List Nat × DigitState
  | 0, bytes, s => (bytes, s)
  | fuel + 1, bytes, s =>
    if s.step > 8 then
      match parse8 radix bytes with
      | some v => parse8Loop radix fuel (bytes.drop 8)
          { s with mantissa := wrap64 (wrap64 (s.mantissa * radix ^ 8) + v), step := s.step - 8 }
      | none => (bytes, s)
    else (bytes, s)

/-- `parse_u64_digits::<_, FORMAT>` on a contiguous (separator-free) digit run -/
def parseU64Digits (compact : Bool) (radix : Nat) (bytes : List Nat) (s : DigitState) : DigitState :=
  if !compact && radix ≤ 10 then
    let r := parse8Loop radix bytes.length bytes s
    parseDigitsLoop radix r.1 r.2
  else parseDigitsLoop radix bytes s

def skipZeros (bytes : List Nat) : List Nat := bytes.dropWhile (· = 48)

/-- `slow_binary::<F, FORMAT>(num)`; `u64step = u64_step(radix)` -/
def slowBinary (F : FTy) (compact : Bool) (radix expBase u64step : Nat) (exponent : Int)
    (integer : List Nat) (fraction : Option (List Nat)) : ExtendedFloat80 :=
  let s : DigitState := { mantissa := 0, step := u64step, overflowed := false, zero := true }
  let s := parseU64Digits compact radix (skipZeros integer) s
  let s := match fraction with
    | some fr => parseU64Digits compact radix (if s.mantissa = 0 then skipZeros fr else fr) s
    | none => s
  let ctlz := clz64 s.mantissa
  let mantissa := shl64m s.mantissa ctlz
  let power2 := calculatePower2 F expBase exponent ctlz
  round F { mant := mantissa, exp := power2 } fun f sh =>
    roundNearestTieEven f sh fun _ _ _ => !s.zero

end LexVerif.Model.Binary
