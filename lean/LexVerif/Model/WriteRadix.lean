import LexVerif.Model.WriteFloat
/-!
# Model.WriteRadix — the WHOLE generic-radix float writer `lexical-write-float/src/radix.rs`

`radix::write_float::<F, FORMAT>` (radix 3..36, not a power of two, not 10; `radix` feature), byte-exact:
digit generation in hardware floating point, `truncate_and_round`, `shared::round_up`, `write_float_scientific`,
`write_float_nonscientific`, the `write_float!` notation choice, `shared::write_exponent`.

## the `F` layer — hardware arithmetic modelled EXACTLY

`radix.rs` is generic in `F`: an `f32` is **not** widened, every operation is done in the float's own type. A float is
its bit pattern (sign bit clear: radix.rs only ever sees non-negative values). `ival f b` is the value of pattern `b`
in units of `2^-L` (`L = unitExp f` = 1074 / 149), an integer. Every arithmetic operation is

    exact rational result of the operands' values, then IEEE round-to-nearest-even (`Spec.roundNE`)

* `fmul`, `fadd`, `fsub`, `fdiv`, `ofNat` (`as_cast` of a `u32`): rounded (`roundNE` of the exact result).
  Every subtraction radix.rs performs has a non-negative exact result (`float - floor`, `next - float`,
  `fraction - digit`, `integer - remainder`); `fsub` is the truncated difference.
* `fmod` (`%` = C `fmod`, exact by IEEE-754 / C99 — the result is always representable) and `ffloor` are ALSO written
  as "exact result then `roundNE`"; that the rounding is the identity there is a theorem
  (`Proof/WriteRadixF.lean`: `fmod_exact`, `ffloor_exact`), not an assumption of the model.
* comparisons are comparisons of patterns (patterns of non-negative floats are ordered like their values:
  `RoundNE.ival_strictMono`); `next_positive`/`prev_positive` are `± 1` on the pattern; `exponent()` reads the field.
* no operation of radix.rs can produce an infinity or NaN for finite input (`delta < fraction ≤ 1` whenever `delta` is
  scaled; quotients only shrink), so no special patterns are modelled.

## buffers

The 2200-byte scratch `buffer` is `ints ++ fracs ++ garbage ++ NUL…` with `ints` ending at `initial_cursor = 1100`:
`ints` = bytes `integer_cursor..1100`, `fracs` = bytes `1100..fraction_cursor`, `garbage` = bytes the round-up
back-trace stepped back over (they stay in the array and are visible to `truncate_and_round` reading past `end`).
Loop fuel IS the buffer capacity: the 1101st fraction digit would be `buffer[2200]` and the 1101st integer digit
`buffer[usize::MAX]` (release) / a subtraction overflow (debug) — both checked ⇒ `PANIC`, which is what running out of
fuel returns. Adequacy of the fuel (no PANIC) is `Props.C07.radix_fraction_terminates`/`radix_integer_terminates`.

The caller's `bytes` is modelled by its length only: the functions return the text they write and `hi` = 1 + the
highest index of `bytes` they touch (every access is checked ⇒ `PANIC` iff `hi > bytes.len()`), plus the explicit
slice-order panics (`digits[0]` of an empty slice, `&buffer[a..b]` with `a > b`).

Integer wrap-around: release semantics (`digit as u8 + b'0'` wraps); cursors are far below any wrap.
-/
namespace LexVerif.Model.WriteRadix
open LexVerif.Spec LexVerif.Model
open LexVerif.Model.WriteInt (Res)
open LexVerif.Model.WriteFloat (effFmt expSign expNeed)

/-! ## F layer -/

/-- `L`: values are counted in units of `2^-L` (the smallest subnormal) -/
def unitExp (f : Fmt) : Nat := f.bias + (f.p - 1) - 1
def unit (f : Fmt) : Nat := 2 ^ unitExp f

/-- value of the non-negative pattern `b` in units of `2^-L` (same formula as `Proof.RoundNE.ival`) -/
def ival (f : Fmt) (b : Nat) : Nat :=
  if b / 2 ^ (f.p - 1) = 0 then b % 2 ^ (f.p - 1)
  else (b % 2 ^ (f.p - 1) + 2 ^ (f.p - 1)) * 2 ^ (b / 2 ^ (f.p - 1) - 1)

def fmul (f : Fmt) (a b : Nat) : Nat := roundNE f (ival f a * ival f b) (unit f * unit f)
def fadd (f : Fmt) (a b : Nat) : Nat := roundNE f (ival f a + ival f b) (unit f)
def fsub (f : Fmt) (a b : Nat) : Nat := roundNE f (ival f a - ival f b) (unit f)
def fdiv (f : Fmt) (a b : Nat) : Nat := roundNE f (ival f a) (ival f b)
/-- `%` on floats = `fmod`: the exact remainder of the exact values -/
def fmod (f : Fmt) (a b : Nat) : Nat := roundNE f (ival f a % ival f b) (unit f)
def ffloor (f : Fmt) (a : Nat) : Nat := roundNE f (ival f a / unit f) 1
/-- `as u32` of a non-negative float (saturating) -/
def asU32 (f : Fmt) (a : Nat) : Nat := min (ival f a / unit f) (2 ^ 32 - 1)
/-- `F::as_cast(n)` for an integer `n` -/
def ofNat (f : Fmt) (n : Nat) : Nat := roundNE f n 1
def half (f : Fmt) : Nat := roundNE f 1 2
def one (f : Fmt) : Nat := roundNE f 1 1
/-- `Float::exponent` (`value = mantissa · 2^exponent`) -/
def exponent (f : Fmt) (b : Nat) : Int :=
  if f.expField b = 0 then f.eminLsb else (f.expField b : Int) - (f.bias : Int) - ((f.p : Int) - 1)
/-- `F::MAX.to_bits()` -/
def maxFinite (f : Fmt) : Nat := f.infBits - 1

/-! ## digit characters (`lexical-util/src/digit.rs`) -/

/-- `digit_to_char_const(digit, radix)` (release: `u8` arithmetic wraps) -/
def digitToCharConst (d r : Nat) : Nat :=
  if r ≤ 10 ∨ d < 10 then (d % 256 + 48) % 256 else ((d % 256 + 65) % 256 + 246) % 256

/-- `char_to_valid_digit_const(c, radix)` -/
def charToValidDigitConst (c r : Nat) : Nat :=
  if r ≤ 10 then (c + 208) % 256
  else if 48 ≤ c ∧ c ≤ 57 then c - 48
  else if 65 ≤ c ∧ c ≤ 90 then c - 55
  else if 97 ≤ c ∧ c ≤ 122 then c - 87
  else 255

/-- `char_to_digit_const(c, radix)` -/
def charToDigitConst (c r : Nat) : Option Nat :=
  let d := charToValidDigitConst c r
  if d < r then some d else none

/-! ## digit generation -/

/-- scratch capacity on each side of `initial_cursor` (`SIZE / 2`, `SIZE = 2200`) -/
def halfSize : Nat := 1100
/-- `MAX_DIGIT_LENGTH = BUFFER_SIZE - MAX_NONDIGIT_LENGTH` with `BUFFER_SIZE = f64::FORMATTED_SIZE = 256` (`radix`) -/
def maxDigitLength : Nat := 256 - 25

/-- the round-up back-trace over the fraction digits written so far (`acc` = those bytes, last first).
Returns the new `acc`, the bytes stepped over (in buffer order; they stay in the array) and whether it carried into
the integer.  Two versions of the source are modelled:
* `carryFix = false` — the snapshot: the found digit is incremented WITHOUT testing `digit + 1 < radix`
  (finding C07-generic-radix-roundup-invalid-digit: emits the character after the largest digit);
* `carryFix = true` — after `/repo` commit dbb7ae7 "round-up must carry past the largest digit": a largest digit is
  stepped over, the carry moves left and finally into the integer part. -/
def backtrace (carryFix : Bool) (r : Nat) : List Nat → List Nat → List Nat × List Nat × Bool
  | [], g => ([], g, true)
  | c :: rest, g =>
    match charToDigitConst c r with
    | some d =>
      if ¬ carryFix ∨ d + 1 < r then (digitToCharConst (d + 1) r :: rest, g, false)
      else backtrace carryFix r rest (c :: g)
    | none => backtrace carryFix r rest (c :: g)

/-- the fraction loop. `acc`: fraction bytes, last first. `fuel` = free bytes right of `fraction_cursor`. -/
def fracLoop (cf : Bool) (f : Fmt) (r base : Nat) : Nat → Nat → Nat → List Nat → Res (List Nat × List Nat × Bool)
  | 0, _, _, _ => .panic
  | fuel + 1, fraction, delta, acc =>
    let fraction := fmul f fraction base
    let delta := fmul f delta base
    let digit := asU32 f fraction
    let acc := digitToCharConst digit r :: acc
    let fraction := fsub f fraction (ofNat f digit)
    if (fraction > half f ∨ (fraction = half f ∧ digit % 2 = 1)) ∧ fadd f fraction delta > one f then
      .ok (backtrace cf r acc [])
    else if delta ≥ fraction then .ok (acc, [], false)
    else fracLoop cf f r base fuel fraction delta acc

/-- `while (integer / base).exponent() > 0 { integer /= base; buffer[--integer_cursor] = b'0' }` -/
def padLoop (f : Fmt) (base : Nat) : Nat → Nat → List Nat → Res (Nat × List Nat × Nat)
  | 0, integer, ints => if exponent f (fdiv f integer base) > 0 then .panic else .ok (integer, ints, 0)
  | fuel + 1, integer, ints =>
    if exponent f (fdiv f integer base) > 0 then padLoop f base fuel (fdiv f integer base) (48 :: ints)
    else .ok (integer, ints, fuel + 1)

/-- the integer digit loop -/
def digitLoop (f : Fmt) (r base : Nat) : Nat → Nat → List Nat → Res (List Nat)
  | 0, _, _ => .panic
  | fuel + 1, integer, ints =>
    let remainder := fmod f integer base
    let ints := digitToCharConst (asU32 f remainder) r :: ints
    let integer := fdiv f (fsub f integer remainder) base
    if integer = 0 then .ok ints else digitLoop f r base fuel integer ints

/-- `delta`: half the distance to the next float (previous one at `F::MAX`), at least the smallest subnormal -/
def deltaOf (f : Fmt) (bits : Nat) : Nat :=
  let d := if bits = maxFinite f then fmul f (half f) (fsub f bits (bits - 1))
           else fmul f (half f) (fsub f (bits + 1) bits)
  if 1 < d then d else 1

/-- the scratch buffer after digit generation -/
structure Gen where
  /-- bytes `integer_cursor .. initial_cursor` -/
  ints : List Nat
  /-- bytes `initial_cursor .. fraction_cursor` -/
  fracs : List Nat
  /-- bytes `fraction_cursor ..` left behind by the back-trace -/
  garbage : List Nat
deriving Repr, DecidableEq

/-- the fraction part of `write_float`: `(fraction bytes, garbage, carry into the integer)` -/
def genFraction (cf : Bool) (f : Fmt) (r bits : Nat) : Res (List Nat × List Nat × Bool) :=
  let base := ofNat f r
  let fraction := fsub f bits (ffloor f bits)
  let delta := deltaOf f bits
  if fraction > delta then
    (fracLoop cf f r base halfSize fraction delta []).bind fun x => .ok (x.1.reverse, x.2.1, x.2.2)
  else .ok ([], [], false)

/-- the integer part of `write_float` from the (possibly carried) integer value -/
def genInteger (f : Fmt) (r integer : Nat) : Res (List Nat) :=
  let base := ofNat f r
  (padLoop f base halfSize integer []).bind fun x => digitLoop f r base x.2.2 x.1 x.2.1

/-- digit generation of `radix::write_float` on the non-negative finite pattern `bits` -/
def generate (cf : Bool) (f : Fmt) (r bits : Nat) : Res Gen :=
  (genFraction cf f r bits).bind fun fr =>
    let integer := if fr.2.2 then fadd f (ffloor f bits) (one f) else ffloor f bits
    (genInteger f r integer).bind fun ints => .ok ⟨ints, fr.1, fr.2.1⟩

/-! ## rounding to `max_significant_digits` on the scratch buffer

Positions are relative to `integer_cursor` (`buf = ints ++ fracs ++ garbage ++ NUL…`, as long as the array right of
`integer_cursor`). -/

def ltrimCount (c : Nat) (l : List Nat) : Nat := (l.takeWhile (· = c)).length
def rtrimCount (c : Nat) (l : List Nat) : Nat := (l.reverse.takeWhile (· = c)).length

/-- `shared::round_up(&mut buffer[start..start+count], count, radix)` -/
def roundUpGo (r start : Nat) (buf : List Nat) : Nat → List Nat × Nat × Bool
  | 0 => (buf.set start 49, 1, true)
  | idx + 1 =>
    let c := buf.getD (start + idx) 0
    if c < digitToCharConst (r - 1) r then
      (buf.set (start + idx) (digitToCharConst (charToValidDigitConst c r + 1) r), idx + 1, false)
    else roundUpGo r start buf idx

/-- `true` once fixes/C14-generic-radix-tie-parity.diff is committed in /repo: the exact-tie test of an even radix looks
at the parity of the last kept DIGIT instead of its ASCII character -/
def repoHasTieParityFix : Bool := true

/-- `last & 1 == 0` of `truncate_and_round`: on the character (snapshot) or on the digit value (repaired) -/
def lastEven (parityFix : Bool) (last r : Nat) : Prop :=
  (if parityFix then charToValidDigitConst last r else last) % 2 = 0

instance (pf : Bool) (last r : Nat) : Decidable (lastEven pf last r) := by unfold lastEven; infer_instance

/-- `truncate_and_round(buffer, start, end, radix, options)`: new buffer, digit count, carried
(as of /repo 2de23fc: ALL leading zeros of the window are added to `max_digits` before any comparison, so
`max_digits < digit_count` below and no byte outside `start..end` is read) -/
def truncateAndRoundP (pf : Bool) (r : Nat) (o : WOpts) (buf : List Nat) (start end_ : Nat) :
    Res (List Nat × Nat × Bool) :=
  let digitCount := end_ - start
  match o.maxDigits with
  | none => .ok (buf, digitCount, false)
  | some mx =>
    if start > end_ then .panic else                       -- `&buffer[start..end]`
    let mx := mx + ltrimCount 48 ((buf.drop start).take digitCount)
    if mx ≥ digitCount then .ok (buf, digitCount, false)
    else if o.truncate then .ok (buf, mx, false)
    else
      let last := buf.getD (start + mx - 1) 0
      let first := buf.getD (start + mx) 0
      let halfway := digitToCharConst (r / 2) r
      if first < halfway then .ok (buf, mx, false)
      else if first > halfway then .ok (roundUpGo r start buf mx)
      else
        let truncated := (buf.drop (start + mx + 1)).take (end_ - (start + mx + 1))
        if r % 2 = 0 then
          if truncated.all (· = 48) ∧ lastEven pf last r then .ok (buf, mx, false) else .ok (roundUpGo r start buf mx)
        else
          match truncated.find? (· ≠ halfway) with
          | none => .ok (buf, mx, false)
          | some c => if c < halfway then .ok (buf, mx, false) else .ok (roundUpGo r start buf mx)

/-- `truncate_and_round` of the code under test -/
def truncateAndRound (r : Nat) (o : WOpts) (buf : List Nat) (start end_ : Nat) : Res (List Nat × Nat × Bool) :=
  truncateAndRoundP repoHasTieParityFix r o buf start end_

/-! ## layouts -/

/-- text written to `bytes` and 1 + the highest index of `bytes` touched -/
structure Text where
  text : List Nat
  hi : Nat
deriving Repr, DecidableEq

/-- `shared::write_exponent` at `cursor` -/
def exponentText (fmt : Format) (feats : Features) (cursor : Nat) (exp : Int) (expChar : Nat) : Text :=
  let sign := expSign fmt feats exp
  let digits := numeral fmt.exponentRadix exp.natAbs
  let c2 := cursor + 1 + sign.length
  ⟨[expChar] ++ sign ++ digits, max (c2 + expNeed feats fmt.exponentRadix digits.length) (c2 + digits.length)⟩

/-- the scratch array right of `integer_cursor` -/
def Gen.buf (g : Gen) : List Nat :=
  g.ints ++ g.fracs ++ g.garbage ++ List.replicate (halfSize - (g.fracs.length + g.garbage.length)) 0

/-- the mantissa part of `write_float_scientific` (text, 1 + highest index touched): first digit `d0`, other digits `rest` -/
def sciMant (fmt : Format) (o : WOpts) (d0 : Nat) (rest : List Nat) : List Nat × Nat :=
  let zeros := rtrimCount 48 rest
  let body := rest.take (rest.length - zeros)
  let count := 1 + body.length
  let exact := minExactDigits count o
  let hi0 := max 2 (rest.length + 2)
  if ¬ fmt.noExponentWithoutFraction ∧ count = 1 ∧ o.trim then ([d0], hi0)
  else if exact < 2 then ([d0, o.dp, 48], max hi0 3)
  else if exact > count then ([d0, o.dp] ++ body ++ List.replicate (exact - count) 48, max hi0 (exact + 1))
  else ([d0, o.dp] ++ body, hi0)

/-- `write_float_scientific` after rounding: `digits = &buffer[start..start + digit_count]` -/
def sciFinish (fmt : Format) (feats : Features) (o : WOpts) (digits : List Nat) (sciExp : Int) : Res Text :=
  match digits with
  | [] => .panic                                             -- `digits[0]`
  | d0 :: rest =>
    let mant := sciMant fmt o d0 rest
    let e := exponentText fmt feats mant.1.length sciExp o.exp
    .ok ⟨mant.1 ++ e.text, max mant.2 e.hi⟩

/-- `write_float_scientific` -/
def sciText (fmt : Format) (feats : Features) (o : WOpts) (r : Nat) (g : Gen) (sciExp : Int) : Res Text :=
  let start : Nat := if sciExp ≤ 0 then ((g.ints.length : Int) - sciExp - 1).toNat else 0
  let end_ := min (g.ints.length + g.fracs.length) (start + maxDigitLength + 1)
  (truncateAndRound r o g.buf start end_).bind fun tr =>
    sciFinish fmt feats o ((tr.1.drop start).take tr.2.1) (sciExp + (if tr.2.2 then 1 else 0))

/-- `write_float_nonscientific` after rounding (and after the carry digit was prepended):
`digits = &buffer[start..start + digit_count]`, `integerLength = initial_cursor - start` -/
def nonsciFinish (o : WOpts) (digits : List Nat) (integerLength : Nat) : Text :=
  let count := digits.length
  let integerCount := min count integerLength
  let intPart := digits.take integerCount ++ List.replicate (integerLength - integerCount) 48
  let fractionCount := count - integerLength
  let fdigits := (digits.drop integerCount).take fractionCount
  let hi0 := integerLength + 1
  if fractionCount > 0 then
    let zeros := rtrimCount 48 fdigits
    let body := fdigits.take (fractionCount - zeros)
    let exact := minExactDigits count o
    let padn := if exact > count then exact - count else 0
    ⟨intPart ++ [o.dp] ++ body ++ List.replicate padn 48,
     max (hi0 + fractionCount) (integerLength + 1 + body.length + padn)⟩
  else if o.trim then ⟨intPart, hi0⟩
  else
    let count := count + 1
    let exact := minExactDigits count o
    let padn := if exact > count then exact - count else 0
    ⟨intPart ++ [o.dp, 48] ++ List.replicate padn 48, integerLength + 2 + padn⟩

/-- `write_float_nonscientific` -/
def nonsciText (o : WOpts) (r : Nat) (g : Gen) : Res Text :=
  let end_ := min (g.ints.length + g.fracs.length) (maxDigitLength + 1)
  (truncateAndRound r o g.buf 0 end_).bind fun tr =>
    -- `start -= 1; buffer[start] = b'1'`
    if tr.2.2 ∧ g.ints.length ≥ halfSize then .panic else
    let buf := if tr.2.2 then 49 :: tr.1 else tr.1
    .ok (nonsciFinish o (buf.take tr.2.1) (g.ints.length + (if tr.2.2 then 1 else 0)))

/-- `write_float_nonscientific` after rounding, REPAIRED tail (fixes/C14-generic-digit-options-min-and-literal.diff):
the trailing zeros that are trimmed are no longer counted, an all-zero fraction is treated as absent (`"1."` becomes
`"1"` / `"1.0"`), and the `leading` zeros in front of the first significant digit do not count towards
`min_significant_digits` -/
def nonsciFinish2 (leading : Nat) (o : WOpts) (digits : List Nat) (integerLength : Nat) : Text :=
  let count := digits.length
  let integerCount := min count integerLength
  let intPart := digits.take integerCount ++ List.replicate (integerLength - integerCount) 48
  let fractionCount0 := count - integerLength
  let fdigits := (digits.drop integerCount).take fractionCount0
  let zeros := rtrimCount 48 fdigits
  let body := fdigits.take (fractionCount0 - zeros)
  let fractionCount := fractionCount0 - zeros
  let count1 := count - zeros
  let hi0 := integerLength + 1 + fractionCount0
  if fractionCount > 0 then
    let sig := count1 - min leading (count1 - 1)
    let exact := minExactDigits sig o
    let padn := if exact > sig then exact - sig else 0
    ⟨intPart ++ [o.dp] ++ body ++ List.replicate padn 48, max hi0 (integerLength + 1 + fractionCount + padn)⟩
  else if o.trim then ⟨intPart, hi0⟩
  else
    let count2 := count1 + 1
    let sig := count2 - min leading (count2 - 1)
    let exact := minExactDigits sig o
    let padn := if exact > sig then exact - sig else 0
    ⟨intPart ++ [o.dp, 48] ++ List.replicate padn 48, max hi0 (integerLength + 2 + padn)⟩

/-- `write_float_nonscientific`, REPAIRED window (fixes/C07-generic-radix-positional-truncation.diff): the
`MAX_DIGIT_LENGTH + 1` digit window starts at the first significant digit (`leading` zeros before it are kept in
addition); `minFix` selects the repaired tail `nonsciFinish2` -/
def nonsciTextW (minFix : Bool) (o : WOpts) (r : Nat) (g : Gen) : Res Text :=
  let total := g.ints.length + g.fracs.length
  let leading := min (ltrimCount 48 (g.ints ++ g.fracs)) (total - 1)
  let end_ := min total (leading + maxDigitLength + 1)
  (truncateAndRound r o g.buf 0 end_).bind fun tr =>
    if tr.2.2 ∧ g.ints.length ≥ halfSize then .panic else
    let buf := if tr.2.2 then 49 :: tr.1 else tr.1
    let il := g.ints.length + (if tr.2.2 then 1 else 0)
    .ok (if minFix then nonsciFinish2 leading o (buf.take tr.2.1) il else nonsciFinish o (buf.take tr.2.1) il)

/-- `sci_exp = initial_cursor - integer_cursor - zero_count - 1` with
`zero_count = ltrim_char_count(digits, b'0').min(digits.len() - 1)` (/repo f386e72: a zero keeps one digit) -/
def sciExpOf (g : Gen) : Int :=
  (g.ints.length : Int) - (min (ltrimCount 48 (g.ints ++ g.fracs)) ((g.ints ++ g.fracs).length - 1) : Nat) - 1

/-- the `write_float!` choice and the chosen layout -/
def layoutText (fmt : Format) (feats : Features) (o : WOpts) (r : Nat) (g : Gen) : Res Text :=
  let sciExp := sciExpOf g
  let minExp := o.negBreak.getD (-5)
  let maxExp := o.posBreak.getD 9
  let outside := sciExp < minExp ∨ sciExp > maxExp
  let require := fmt.requiredExponentNotation ∨ outside
  if ¬ fmt.noExponentNotation ∧ require then sciText fmt feats o r g sciExp else nonsciText o r g

/-- `layoutText` with the repaired positional writer -/
def layoutTextW (minFix : Bool) (fmt : Format) (feats : Features) (o : WOpts) (r : Nat) (g : Gen) : Res Text :=
  let sciExp := sciExpOf g
  let minExp := o.negBreak.getD (-5)
  let maxExp := o.posBreak.getD 9
  let outside := sciExp < minExp ∨ sciExp > maxExp
  let require := fmt.requiredExponentNotation ∨ outside
  if ¬ fmt.noExponentNotation ∧ require then sciText fmt feats o r g sciExp else nonsciTextW minFix o r g

/-- `radix::write_float::<F, FORMAT>(float, bytes, options)` for the non-negative finite pattern `bits`, on a `bytes`
slice of length `len`: the text written (= `bytes[..returned count]`) or `PANIC`.  `cf`: which back-trace (`backtrace`);
`wf`: repaired positional digit window; `mf` (only with `wf`): repaired `min_significant_digits` / trimming tail. -/
def writeFloat (cf : Bool) (feats : Features) (f : Fmt) (fmt : Format) (o : WOpts) (bits len : Nat)
    (wf : Bool := false) (mf : Bool := false) : Res (List Nat) :=
  (generate cf f fmt.mantissaRadix bits).bind fun g =>
    ((if wf then layoutTextW mf (effFmt feats fmt) feats o fmt.mantissaRadix g
      else layoutText (effFmt feats fmt) feats o fmt.mantissaRadix g)).bind fun t =>
      if t.hi > len then .panic else .ok t.text

/-- which round-up back-trace the code under test has: `true` = /repo at or after commit dbb7ae7 (carry fixed),
`false` = the original snapshot.  The driver runs the model with this value. -/
def repoHasCarryFix : Bool := true
/-- `true` once fixes/C07-generic-radix-positional-truncation.diff is committed in /repo -/
def repoHasWindowFix : Bool := true
/-- `true` once fixes/C14-generic-digit-options-min-and-literal.diff (applies after the window fix) is committed -/
def repoHasMinPadFix : Bool := true

end LexVerif.Model.WriteRadix
