import LexVerif.Model.Slow
/-!
# Model.SlowBytes — `byte_comp` / `compare_bytes` (slow.rs) on limb lists, and `slow_radix`

`byte_comp` is the slow path of the radices without a digit limit (`F::max_digits(radix) = None`: the odd
radices). It generates the digits of `b+h` one at a time with `large_quorem` — a single-limb quotient
*estimate* plus one correction — so it is modelled **on the limbs** (`List Nat`, little-endian, 64-bit), following
bigint.rs statement by statement: `small_mul`, `small_add_from`, `large_add_from`, `long_mul`, `large_mul`, `pow`,
`shl_bits`, `shl_limbs`, `shl`, `leading_zeros`, `compare`, `large_quorem`, `normalize`, with the capacity checks
of `StackVec<BIGFLOAT_LIMBS>` (`none` = `None`/failed `assert!` ⇒ panic).

`compare_bytes` compares **digit values** (`char_to_valid_digit_const(actual, radix)` against the quotient) since
/repo commit 6651793; before, it compared the raw input byte with the upper-case `digit_to_char_const(rem, radix)`,
so that a lower-case digit always compared `Greater` (found with this model, see `Props/C01Slow.lean`).

Mathlib-free, executable. Tie: **C** — op `sl` on odd radices.
-/
namespace LexVerif.Model.Slow
open LexVerif.Spec LexVerif.Proof.Tables LexVerif.Model
open LexVerif.Model.Bellerophon (round roundNearestTieEven roundDown)

abbrev Limbs := List Nat

def B64 : Nat := 2 ^ 64

/-- value of a limb list -/
def valL : Limbs → Nat
  | [] => 0
  | x :: xs => x + B64 * valL xs

/-- `StackVec::normalize` -/
def normalizeL (x : Limbs) : Limbs := (x.reverse.dropWhile (· = 0)).reverse

/-- `from_u64` / `from_u32` (push, then normalize) -/
def fromU64L (x : Nat) : Limbs := if x = 0 then [] else [x]

/-- `try_push` -/
def tryPush (cap : Nat) (x : Limbs) (v : Nat) : Option Limbs :=
  if x.length < cap then some (x ++ [v]) else none

def smallMulGo (y : Nat) : Limbs → Nat → Limbs × Nat
  | [], c => ([], c)
  | xi :: xs, c =>
    let z := xi * y + c
    let r := smallMulGo y xs (z / B64)
    ((z % B64) :: r.1, r.2)

/-- `small_mul(x, y)` -/
def smallMulL (cap : Nat) (x : Limbs) (y : Nat) : Option Limbs :=
  let r := smallMulGo y x 0
  if r.2 ≠ 0 then tryPush cap r.1 r.2 else some r.1

def smallAddFromGo : Limbs → Nat → Nat → Limbs × Nat
  | [], _, c => ([], c)
  | xi :: xs, 0, c =>
    if c = 0 then (xi :: xs, 0)
    else
      let s := xi + c
      let r := smallAddFromGo xs 0 (s / B64)
      ((s % B64) :: r.1, r.2)
  | xi :: xs, s + 1, c =>
    let r := smallAddFromGo xs s c
    (xi :: r.1, r.2)

/-- `small_add_from(x, y, start)`: the carry left at the end is pushed (wherever `start` was) -/
def smallAddFromL (cap : Nat) (x : Limbs) (y start : Nat) : Option Limbs :=
  let r := smallAddFromGo x start y
  if r.2 ≠ 0 then tryPush cap r.1 r.2 else some r.1

def addGo : Limbs → Limbs → Nat → Limbs × Nat
  | xi :: xs, yi :: ys, c =>
    let s := xi + yi + c
    let r := addGo xs ys (s / B64)
    ((s % B64) :: r.1, r.2)
  | _, _, c => ([], c)

/-- `large_add_from(x, y, start)` -/
def largeAddFromL (cap : Nat) (x y : Limbs) (start : Nat) : Option Limbs :=
  let x1 : Option Limbs :=
    if y.length > x.length - start then
      (if y.length + start > cap then none else some (x ++ List.replicate (y.length + start - x.length) 0))
    else some x
  x1.bind fun x =>
    let r := addGo (x.drop start) y 0
    let x' := x.take start ++ r.1 ++ x.drop (start + y.length)
    if r.2 ≠ 0 then smallAddFromL cap x' 1 (y.length + start) else some x'

def longMulGo (cap : Nat) (x : Limbs) : Limbs → Nat → Limbs → Option Limbs
  | [], _, z => some z
  | yi :: ys, index, z =>
    if yi ≠ 0 then
      (smallMulL cap x yi).bind fun zi =>
        (largeAddFromL cap z zi index).bind fun z => longMulGo cap x ys (index + 1) z
    else longMulGo cap x ys (index + 1) z

/-- `long_mul(x, y)` -/
def longMulL (cap : Nat) (x y : Limbs) : Option Limbs :=
  if x.length > cap then none            -- `StackVec::try_from(x)?`
  else match y with
    | [] => some (normalizeL x)
    | y0 :: ys => (smallMulL cap x y0).bind fun z => (longMulGo cap x ys 1 z).map normalizeL

/-- `large_mul(x, y)` -/
def largeMulL (cap : Nat) (x y : Limbs) : Option Limbs :=
  match y with
  | [y0] => smallMulL cap x y0
  | _ => longMulL cap y x

def iterOptL (f : Limbs → Option Limbs) : Nat → Limbs → Option Limbs
  | 0, x => some x
  | n + 1, x => (f x).bind (iterOptL f n)

/-- the free function `pow::<SIZE>(x, base, exp)` on limbs -/
def powOddL (E : Env) (cap : Nat) (x : Limbs) (base exp : Nat) : Option Limbs :=
  let afterLarge : Option (Limbs × Nat) :=
    if E.L.hasLarge then
      let step := E.L.largeStep base
      if step = 0 then none
      else (iterOptL (fun x => largeMulL cap x (E.L.largeLimbs base).toList) (exp / step) x).map fun x => (x, exp % step)
    else some (x, exp)
  afterLarge.bind fun xe =>
    let smallStep := E.S.u64PowerLimit base
    let maxNative := wrap64 (base ^ smallStep)
    if smallStep = 0 then none
    else (iterOptL (fun x => smallMulL cap x maxNative) (xe.2 / smallStep) xe.1).bind fun x =>
      let e := xe.2 % smallStep
      if e ≠ 0 then (intPowFastPath E e base).bind fun sp => smallMulL cap x (wrap64 sp) else some x

def shlBitsGo (n : Nat) : Limbs → Nat → Limbs × Nat
  | [], prev => ([], prev)
  | xi :: xs, prev =>
    let r := shlBitsGo n xs xi
    ((xi * 2 ^ n % B64 + prev / 2 ^ (64 - n)) :: r.1, r.2)

/-- `shl_bits(x, n)`, `0 < n < 64` -/
def shlBitsL (cap : Nat) (x : Limbs) (n : Nat) : Option Limbs :=
  let r := shlBitsGo n x 0
  let carry := r.2 / 2 ^ (64 - n)
  if carry ≠ 0 then tryPush cap r.1 carry else some r.1

/-- `shl_limbs(x, n)` -/
def shlLimbsL (cap : Nat) (x : Limbs) (n : Nat) : Option Limbs :=
  if n + x.length > cap then none
  else if x.isEmpty then some x else some (List.replicate n 0 ++ x)

/-- `shl(x, n)` -/
def shlL (cap : Nat) (x : Limbs) (n : Nat) : Option Limbs :=
  let rem := n % 64
  let div := n / 64
  (if rem ≠ 0 then shlBitsL cap x rem else some x).bind fun x =>
    if div ≠ 0 then shlLimbsL cap x div else some x

/-- `leading_zeros(x)`: of the top limb; 0 for an empty vector -/
def leadingZerosL (x : Limbs) : Nat :=
  match x.getLast? with
  | some v => clz64 v
  | none => 0

def compareTop : Limbs → Limbs → Ordering
  | x :: xs, y :: ys => match compare x y with
    | .eq => compareTop xs ys
    | o => o
  | _, _ => .eq

/-- `compare(x, y)` -/
def compareL (x y : Limbs) : Ordering :=
  match compare x.length y.length with
  | .eq => compareTop x.reverse y.reverse
  | o => o

/-- one pass `x[j] -= (y[j]*q + carry) & mask + borrow` of `large_quorem` (`mul = some q`) or `x[j] -= y[j] + carry`
(`mul = none`), in wrapping `u128` arithmetic -/
def subGo (mul : Option Nat) : Limbs → Limbs → Nat → Nat → Limbs
  | xj :: xs, yj :: ys, borrow, carry =>
    let p := ((match mul with | some q => yj * q | none => yj) + carry) % 2 ^ 128
    let t := (xj + 2 ^ 128 - p % B64 + 2 ^ 128 - borrow) % 2 ^ 128
    (t % B64) :: subGo mul xs ys (t / B64 % 2) (p / B64)
  | xs, _, _, _ => xs

/-- `large_quorem(x, y)`: `none` = a failed `assert!` (or `yn_1 + 1` overflowing to a zero divisor) -/
def largeQuoremL (x y : Limbs) : Option (Nat × Limbs) :=
  if y.isEmpty then none
  else if x.length > y.length then none
  else if x.length < y.length then some (0, x)
  else
    let xm1 := x.getLast?.getD 0
    let yn1 := y.getLast?.getD 0
    let d := wrap64 (yn1 + 1)
    if d = 0 then none
    else
      let q := xm1 / d
      let x := if q ≠ 0 then normalizeL (subGo (some q) x y 0 0) else x
      if compareL x y ≠ .lt then some (wrap64 (q + 1), normalizeL (subGo none x y 0 0))
      else some (q, x)

/-- outcome of one of the comparison macros -/
inductive Cmp where
  | done (o : Ordering)          -- `return …` from `compare_bytes`
  | cont (num : Limbs)           -- fell through
  | panic
deriving DecidableEq, Repr

/-- digit value of the input byte, `quorem`, `mul_small(radix).unwrap()`, compare -/
def stepDigit (cap radix : Nat) (actual : Nat) (num den : Limbs) : Cmp :=
  match largeQuoremL num den with
  | none => .panic
  | some (q, num) =>
    let actual := Binary.digitVal actual radix        -- `char_to_valid_digit_const(actual, radix)`
    let expected := q % 2 ^ 32                         -- `quorem(..) as u32`
    match smallMulL cap num radix with
    | none => .panic
    | some num =>
      if actual < expected then .done .lt
      else if actual > expected then .done .gt
      else .cont num

/-- `integer_compare!` -/
def integerCompare (cap radix : Nat) (den : Limbs) : List Nat → Limbs → Cmp
  | [], num => .cont num
  | c :: cs, num =>
    if num.isEmpty then (if anyNonzero (c :: cs) then .done .gt else .cont num)
    else match stepDigit cap radix c num den with
      | .cont num => integerCompare cap radix den cs num
      | r => r

/-- `fraction_compare!` -/
def fractionCompare (cap radix : Nat) (den : Limbs) : List Nat → Limbs → Cmp
  | [], num => if num.isEmpty then .cont num else .done .lt
  | c :: cs, num =>
    if num.isEmpty then (if anyNonzero (c :: cs) then .done .gt else .cont num)
    else match stepDigit cap radix c num den with
      | .cont num => fractionCompare cap radix den cs num
      | r => r

/-- `compare_bytes::<FORMAT>(number, num, den)`; `none` = panic -/
def compareBytes (cap radix : Nat) (integer : List Nat) (fraction : Option (List Nat)) (num den : Limbs) :
    Option Ordering :=
  let ii := Binary.skipZeros integer
  let fin : Cmp → Option Ordering := fun r => match r with
    | .done o => some o
    | .cont _ => some .eq
    | .panic => none
  if ii.isEmpty then
    match fraction with
    | none => none                         -- `number.fraction.unwrap()`
    | some fr => fin (fractionCompare cap radix den (Binary.skipZeros fr) num)
  else
    match integerCompare cap radix den ii num with
    | .cont num =>
      match fraction with
      | some fr => fin (fractionCompare cap radix den fr num)
      | none => if !num.isEmpty then some .lt else some .eq
    | r => fin r

/-- a `Bigfloat` -/
structure BF where
  data : Limbs
  exp : Int
deriving DecidableEq, Repr

/-- `Bigfloat::pow(base, exp)` -/
def bigfloatPow (E : Env) (cap : Nat) (x : BF) (base exp : Nat) : Option BF :=
  let os := E.L.splitRadix base
  (if os.1 ≠ 0 then powOddL E cap x.data os.1 exp else some x.data).map fun d =>
    { data := d, exp := if os.2 ≠ 0 then wrapI32 (x.exp + wrapI32 (wrap32 (exp * os.2) : Int)) else x.exp }

/-- `byte_comp::<F, FORMAT>(number, fp, sci_exp)` -/
def byteComp (E : Env) (F : FTy) (radix : Nat) (integer : List Nat) (fraction : Option (List Nat))
    (fp : ExtendedFloat80) (sciExp : Int) : Option ExtendedFloat80 :=
  if E.debug && fp.mant / 2 ^ 63 % 2 = 0 then none else
  let cap := E.L.bigfloatBits / E.L.limbBits
  let b := extendedToFloat F (round F fp roundDown)
  let bh := bhOf F b
  let theor : BF := ⟨fromU64L bh.mant, bh.exp⟩
  (bigfloatPow E cap ⟨fromU64L 1, 0⟩ radix sciExp.natAbs).bind fun factor =>
    let nd : Option (BF × BF) :=
      if sciExp < 0 then
        (largeMulL cap factor.data theor.data).map fun d => (⟨d, factor.exp⟩, ⟨fromU64L 1, -theor.exp⟩)
      else some (theor, factor)
    nd.bind fun nd =>
      let num := nd.1
      let den := nd.2
      let wlz := E.L.integralBinaryFactor radix
      let nlz := (leadingZerosL den.data + 2 ^ 32 - wlz) % 2 ^ 32 % 32
      let den1 : Option BF :=
        if nlz ≠ 0 then (shlBitsL cap den.data nlz).map fun d => ⟨d, den.exp - nlz⟩ else some den
      den1.bind fun den =>
        let diff := wrapI32 (den.exp - num.exp)
        let shift := diff.natAbs
        let nd2 : Option (BF × BF) :=
          if diff < 0 then (shlL cap num.data shift).map fun d => (⟨d, num.exp - shift⟩, den)
          else if diff > 0 then
            let q := if shift % 64 = 0 then shift / 64 else shift / 64 + 1
            let r := if shift % 64 = 0 then 0 else 64 - shift % 64
            let num1 : Option BF := if r ≠ 0 then (shlBitsL cap num.data r).map fun d => ⟨d, num.exp - r⟩ else some num
            num1.bind fun num =>
              if q ≠ 0 then (shlLimbsL cap den.data q).map fun d => (num, ⟨d, den.exp - 64 * q⟩) else some (num, den)
          else some (num, den)
        nd2.bind fun nd =>
          (compareBytes cap radix integer fraction nd.1.data nd.2.data).map fun ord =>
            round F fp fun f s => roundNearestTieEven f s fun isOdd _ _ => ordUp ord isOdd

/-- `slow_radix::<F, FORMAT>(num, fp)`; `radixFeature` = the crate is built with `radix` -/
def slowRadix (E : Env) (F : FTy) (radixFeature : Bool) (radix : Nat) (n : SNum) (fp : ExtendedFloat80) :
    Option ExtendedFloat80 :=
  if E.debug && fp.mant / 2 ^ 63 % 2 = 0 then none else
  let sciExp := scientificExponent radix n.mantissa n.exponent
  match routeOf E F radixFeature radix with
  | .digits d => digitComp E F radix n.integer n.fraction fp sciExp d
  | .bytes => byteComp E F radix n.integer n.fraction fp sciExp
  | .panic => none

end LexVerif.Model.Slow
