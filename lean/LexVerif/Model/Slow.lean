import LexVerif.Model.Binary
import LexVerif.Proof.Tables.LargePowersDefs
/-!
# Model.Slow — the big-integer slow path (lexical-parse-float/src/slow.rs, bigint.rs)

`slow_radix`, `digit_comp`, `positive_digit_comp`, `negative_digit_comp`, `parse_mantissa` (with the macros
`try_parse_8digits!`, `add_digit!`, `add_temporary!`, `round_up_truncated!`, `round_up_nonzero!`),
`scientific_exponent`, `b`, `bh`, and of bigint.rs: `Bigint::pow`, `pow`, `small_mul`, `small_add`, `large_mul`
(`long_mul`), `shl`/`shl_bits`/`shl_limbs`, `hi64`, `bit_length`, `compare`.

**Value-level model of the big integers**: a `StackVec<SIZE>` of 64-bit limbs is modelled by the `Nat` it
denotes. The model keeps what can be *observed* of the limb representation:

* the **capacity checks** (`try_push`, `try_resize`, `try_extend`, `shl_limbs`' explicit test) — every operation
  returns `Option`, `none` = the Rust `None`, which every caller in slow.rs `unwrap`s (⇒ panic). For a
  normalised vector (no zero top limb; all vectors here are) the length is `limbsOf x = ⌈bitlen x / 64⌉`, and
  each operation fails iff the *result* needs more than `SIZE` limbs (`long_mul`: all intermediate sums are
  bounded by the final product, see the comment at `largeMul`).
* `long_mul` with an **empty** multiplicand returns the multiplier unchanged (`z = x; if let Some(y0) = y.first()`):
  kept (`largeMul … 0 = Y`), although the slow path never multiplies a zero big integer.
* `hi64`: the top 64 bits, normalised, and whether any lower bit is set.

`byte_comp` (odd radices) is modelled on limb lists in `Model/SlowBytes.lean` (its `quorem` is an estimate +
correction on limbs, not a value-level function).

Tie: **R** — `SIZE` constants, `split_radix`, large powers and steps (`Gen.LargePowers`), `u64_power_limit`,
`max_digits`, small integer powers (`Gen.SmallPowers`), float constants; **C** — op `sl` (`Model/Ops/Slow.lean`).
Mathlib-free.
-/
namespace LexVerif.Model.Slow
open LexVerif.Spec LexVerif.Spec.PowerTables LexVerif.Proof.Tables LexVerif.Model
open LexVerif.Model.Bellerophon (round roundNearestTieEven roundDown)

/-- what one build of the crate compiles for the slow path -/
structure Env where
  S : SmallSet
  L : LargeSet
  compact : Bool
  /-- model `debug_assert!`s (the harness is a release build: `false`) -/
  debug : Bool := false

/-- `BIGINT_BITS` is 6000 with `radix`, 4000 without; large powers exist unless `compact` -/
def largeSetOf (feats : Features) : LargeSet :=
  if feats.radix then (if feats.compact then LargeSet.CompactRadix else LargeSet.Radix)
  else if feats.compact then
    { LargeSet.CompactRadix with bigintBits := LargeSet.Default.bigintBits, bigintLimbs := LargeSet.Default.bigintLimbs,
                                 bigfloatBits := LargeSet.Default.bigfloatBits }
  else LargeSet.Default

def envOf (feats : Features) : Env := { S := smallSetOf feats, L := largeSetOf feats, compact := feats.compact }

/-! ## bigint.rs, value level -/

/-- number of limbs of the normalised vector denoting `x` -/
def limbsOf (x : Nat) : Nat := (bitlen x + 63) / 64

def guard (c : Bool) (x : Nat) : Option Nat := if c then some x else none

/-- `small_mul(x, y)` (`y ≠ 0`; with `y = 0` the Rust leaves a non-normalised vector of zeros) -/
def smallMul (cap x y : Nat) : Option Nat :=
  if x = 0 then some 0 else guard (limbsOf (x * y) ≤ cap) (x * y)

/-- `small_add(x, y)` -/
def smallAdd (cap x y : Nat) : Option Nat :=
  if y = 0 then some x else guard (limbsOf (x + y) ≤ cap) (x + y)

/-- `large_mul(x, Y)` for a constant `Y` given by its limbs (normalised: the large-power tables are).
`Y.size == 1` ⇒ `small_mul`; else `*x = long_mul(Y, x)?`: `z = try_from(Y)?` (needs `Y.size ≤ SIZE`), then
`z = Y·x₀ + Σ (Y·xᵢ) << 64i`. Every partial sum is `≤ Y·x`, every `Y·xᵢ << 64i ≤ Y·x`, and the vector only
grows through checked operations, so (for `x ≠ 0`) the call fails iff `limbsOf (x·Y) > SIZE`. -/
def largeMul (cap x : Nat) (Y : Array Nat) : Option Nat :=
  if Y.size = 1 then smallMul cap x Y[0]!
  else if Y.size > cap then none
  else if x = 0 then some (limbsVal 64 Y.toList)
  else guard (limbsOf (x * limbsVal 64 Y.toList) ≤ cap) (x * limbsVal 64 Y.toList)

/-- `n` times `x ← f x?` -/
def iterOpt (f : Nat → Option Nat) : Nat → Nat → Option Nat
  | 0, x => some x
  | n + 1, x => (f x).bind (iterOpt f n)

/-- `f64::int_pow_fast_path(exponent, radix)`: a checked table index (`none` = panic), computed when `compact` -/
def intPowFastPath (E : Env) (exponent radix : Nat) : Option Nat :=
  if E.compact then some (wrap64 (radix ^ exponent)) else (E.S.intPow radix)[exponent]?

/-- the free function `pow::<SIZE>(x, base, exp)` -/
def powOdd (E : Env) (cap x base exp : Nat) : Option Nat :=
  let afterLarge : Option (Nat × Nat) :=
    if E.L.hasLarge then
      let step := E.L.largeStep base
      if step = 0 then none       -- no such arm in the dump (the Rust would not terminate): unreachable
      else (iterOpt (fun x => largeMul cap x (E.L.largeLimbs base)) (exp / step) x).map fun x => (x, exp % step)
    else some (x, exp)
  afterLarge.bind fun xe =>
    let smallStep := E.S.u64PowerLimit base
    let maxNative := wrap64 (base ^ smallStep)          -- `(base as Limb).pow(small_step)`
    if smallStep = 0 then none
    else (iterOpt (fun x => smallMul cap x maxNative) (xe.2 / smallStep) xe.1).bind fun x =>
      let e := xe.2 % smallStep
      if e ≠ 0 then (intPowFastPath E e base).bind fun sp => smallMul cap x sp else some x

/-- `shl_bits(x, n)`, `0 < n < 64` -/
def shlBits (cap x n : Nat) : Option Nat :=
  if x = 0 then some 0 else guard (limbsOf (x * 2 ^ n) ≤ cap) (x * 2 ^ n)

/-- `shl_limbs(x, n)`: `if n + x.len() > x.capacity() { None }` comes first, also for an empty vector -/
def shlLimbs (cap x n : Nat) : Option Nat :=
  if n + limbsOf x > cap then none else some (x * 2 ^ (64 * n))

/-- `shl(x, n)` -/
def shl (cap x n : Nat) : Option Nat :=
  let rem := n % 64
  let div := n / 64
  (if rem ≠ 0 then shlBits cap x rem else some x).bind fun x =>
    if div ≠ 0 then shlLimbs cap x div else some x

/-- `Bigint::pow(base, exp: u32)`: `exp * shift` is a `u32` product (wraps in release builds) -/
def bigintPow (E : Env) (x base exp : Nat) : Option Nat :=
  let cap := E.L.bigintLimbs
  let os := E.L.splitRadix base
  (if os.1 ≠ 0 then powOdd E cap x os.1 exp else some x).bind fun x =>
    if os.2 ≠ 0 then shl cap x (wrap32 (exp * os.2)) else some x

/-- `StackVec::hi64()`: the 64 most significant bits (normalised), and whether a lower bit is set -/
def hi64 (x : Nat) : Nat × Bool :=
  if x = 0 then (0, false)
  else if bitlen x ≤ 64 then (x * 2 ^ (64 - bitlen x), false)
  else (x / 2 ^ (bitlen x - 64), decide (x % 2 ^ (bitlen x - 64) ≠ 0))

/-- `bit_length` -/
def bitLength (x : Nat) : Nat := bitlen x

/-- `compare` on normalised vectors -/
def compareBig (x y : Nat) : Ordering := compare x y

/-! ## float.rs / num.rs accessors used by `b`, `bh` -/

/-- `Float::is_denormal` -/
def isDenormal (F : FTy) (bits : Nat) : Bool := F.fmt.expField bits = 0
/-- `Float::mantissa` -/
def floatMantissa (F : FTy) (bits : Nat) : Nat :=
  if isDenormal F bits then F.fmt.manField bits else F.fmt.manField bits + F.C.hiddenBitMask.toNat
/-- `Float::exponent` -/
def floatExponent (F : FTy) (bits : Nat) : Int :=
  if isDenormal F bits then F.C.denormalExponent else (F.fmt.expField bits : Int) - F.C.exponentBias

/-- `slow::b(float)` -/
def bOf (F : FTy) (bits : Nat) : ExtendedFloat80 := ⟨floatMantissa F bits, floatExponent F bits⟩
/-- `slow::bh(float)`: `mant: (fp.mant << 1) + 1, exp: fp.exp - 1` -/
def bhOf (F : FTy) (bits : Nat) : ExtendedFloat80 :=
  ⟨wrap64 (shl64 (bOf F bits).mant 1 + 1), (bOf F bits).exp - 1⟩

/-! ## scientific_exponent -/

/-- `while mantissa >= d { mantissa /= d; exponent += inc; }` (`d ≥ 2`: at most 64 rounds for a `u64`) -/
def divLoop (d : Nat) (inc : Int) : Nat → Nat → Int → Nat × Int
  | 0, m, e => (m, e)
  | fuel + 1, m, e => if m ≥ d ∧ d ≥ 2 then divLoop d inc fuel (m / d) (wrapI64 (e + inc)) else (m, e)

/-- `scientific_exponent::<FORMAT>(&num)` -/
def scientificExponent (radix : Nat) (mantissa : Nat) (exponent : Int) : Int :=
  let radix2 := wrap64 (radix * radix)
  let radix4 := wrap64 (radix2 * radix2)
  let r4 := divLoop radix4 4 64 mantissa exponent
  let r2 := divLoop radix2 2 64 r4.1 r4.2
  let r1 := divLoop radix 1 64 r2.1 r2.2
  wrapI32 r1.2

/-! ## parse_mantissa -/

/-- the loop state: `result` (the big integer), `value` (a `Limb`), `counter`, `count` -/
structure PM where
  result : Nat
  value : Nat
  counter : Nat
  count : Nat
deriving DecidableEq, Repr

/-- `add_temporary!(@mul result, power, value)` -/
def addTemporary (cap result power value : Nat) : Option Nat :=
  (smallMul cap result power).bind fun r => smallAdd cap r value

/-- `add_temporary!(@end format, result, counter, value)` -/
def addTemporaryEnd (E : Env) (radix : Nat) (st : PM) : Option Nat :=
  if st.counter ≠ 0 then
    (intPowFastPath E st.counter radix).bind fun sp => addTemporary E.L.bigintLimbs st.result (wrap64 sp) st.value
  else some st.result

/-- `can_try_parse_multidigit!(iter, radix)` on a contiguous iterator, inside `#[cfg(not(feature = "compact"))]` -/
def multidigit (E : Env) (radix : Nat) : Bool := !E.compact && radix ≤ 10

/-- `try_parse_8digits!`: `while step - counter >= 8 && max_digits - count >= 8 { 8 digits or break }` -/
def parse8Loop (radix step maxDigits : Nat) : Nat → List Nat → PM → List Nat × PM
  | 0, bs, st => (bs, st)
  | fuel + 1, bs, st =>
    if step - st.counter ≥ 8 ∧ maxDigits - st.count ≥ 8 then
      match Binary.parse8 radix bs with
      | some v => parse8Loop radix step maxDigits fuel (bs.drop 8)
          { st with value := wrap64 (wrap64 (st.value * wrap64 (radix ^ 8)) + v), counter := st.counter + 8,
                    count := st.count + 8 }
      | none => (bs, st)
    else (bs, st)

/-- `while counter < step && count < max_digits { if let Some(&c) = iter.next() { add_digit! } else { break 'outer } }`;
the flag says that the iterator was exhausted (`break 'integer` / `break 'fraction`) -/
def singleLoop (radix step maxDigits : Nat) : List Nat → PM → List Nat × PM × Bool
  | [], st => ([], st, decide (st.counter < step ∧ st.count < maxDigits))
  | c :: cs, st =>
    if st.counter < step ∧ st.count < maxDigits then
      singleLoop radix step maxDigits cs
        { st with value := wrap64 (wrap64 (st.value * radix) + Binary.digitVal c radix), counter := st.counter + 1,
                  count := st.count + 1 }
    else (c :: cs, st, false)

inductive LoopOut where
  /-- the digits of this component are exhausted (`break`); temporaries not yet flushed -/
  | exhausted (st : PM)
  /-- `count == max_digits`: temporaries flushed with `@end`; `rest` = unread bytes of this component -/
  | full (st : PM) (rest : List Nat)
  | panic
deriving DecidableEq, Repr

/-- the `'integer:` / `'fraction:` loop over the bytes of one component -/
def digitsLoop (E : Env) (radix maxDigits step maxNative : Nat) : Nat → List Nat → PM → LoopOut
  | 0, _, _ => .panic          -- fuel (never reached: each round reads `step ≥ 1` digits or leaves)
  | fuel + 1, bs, st =>
    let r8 := if multidigit E radix then parse8Loop radix step maxDigits bs.length bs st else (bs, st)
    let r1 := singleLoop radix step maxDigits r8.1 r8.2
    if r1.2.2 then .exhausted r1.2.1
    else if r1.2.1.count = maxDigits then
      match addTemporaryEnd E radix r1.2.1 with
      | none => .panic
      | some r => .full { r1.2.1 with result := r } r1.1
    else
      match addTemporary E.L.bigintLimbs r1.2.1.result maxNative r1.2.1.value with
      | none => .panic
      | some r => digitsLoop E radix maxDigits step maxNative fuel r1.1
          { result := r, value := 0, counter := 0, count := r1.2.1.count }

/-- `round_up_nonzero!`'s test: some remaining byte is not `b'0'` -/
def anyNonzero (bs : List Nat) : Bool := bs.any (· ≠ 48)

/-- `round_up_truncated!`: `result = result * radix + 1; count += 1` -/
def roundUpTruncated (E : Env) (radix : Nat) (st : PM) : Option (Nat × Nat) :=
  (addTemporary E.L.bigintLimbs st.result radix 1).map fun r => (r, st.count + 1)

/-- `parse_mantissa::<FORMAT>(num, max_digits) -> (Bigint, usize)` on separator-free digit bytes -/
def parseMantissa (E : Env) (radix maxDigits : Nat) (integer : List Nat) (fraction : Option (List Nat)) :
    Option (Nat × Nat) :=
  let step := E.S.u64PowerLimit radix
  let maxNative := wrap64 (radix ^ step)
  let run := fun (bs : List Nat) (st : PM) => digitsLoop E radix maxDigits step maxNative (bs.length + 1) bs st
  match run (Binary.skipZeros integer) ⟨0, 0, 0, 0⟩ with
  | .panic => none
  | .full st rest =>
    if anyNonzero rest then roundUpTruncated E radix st
    else match fraction with
      | some fr => if anyNonzero fr then roundUpTruncated E radix st else some (st.result, st.count)
      | none => some (st.result, st.count)
  | .exhausted st =>
    match fraction with
    | some fr =>
      match run (if st.count = 0 then Binary.skipZeros fr else fr) st with
      | .panic => none
      | .full st rest => if anyNonzero rest then roundUpTruncated E radix st else some (st.result, st.count)
      | .exhausted st => (addTemporaryEnd E radix st).map fun r => (r, st.count)
    | none => (addTemporaryEnd E radix st).map fun r => (r, st.count)

/-! ## the two digit comparisons -/

/-- `x as u32` for an `i32` -/
def asU32 (x : Int) : Nat := (x % (2 ^ 32 : Int)).toNat

/-- `positive_digit_comp::<F, FORMAT>(bigmant, exponent)` -/
def positiveDigitComp (E : Env) (F : FTy) (radix bigmant : Nat) (exponent : Int) : Option ExtendedFloat80 :=
  (bigintPow E bigmant radix (asU32 exponent)).map fun bm =>
    let h := hi64 bm
    let exp := wrapI32 (wrapI32 ((bitLength bm : Int) - 64) + F.C.exponentBias)
    round F ⟨h.1, exp⟩ fun f s =>
      roundNearestTieEven f s fun isOdd isHalfway isAbove => isAbove || (isHalfway && h.2) || (isOdd && isHalfway)

/-- the callback of the final rounding in `negative_digit_comp` / `byte_comp` -/
def ordUp (ord : Ordering) (isOdd : Bool) : Bool :=
  match ord with
  | .gt => true
  | .lt => false
  | .eq => isOdd

/-- `negative_digit_comp::<F, FORMAT>(bigmant, fp, exponent)` -/
def negativeDigitComp (E : Env) (F : FTy) (radix bigmant : Nat) (fp : ExtendedFloat80) (exponent : Int) :
    Option ExtendedFloat80 :=
  if E.debug && (fp.mant / 2 ^ 63 % 2 = 0 || exponent ≥ 0) then none else
  let b := extendedToFloat F (round F fp roundDown)
  let theor := bhOf F b
  let realExp := exponent
  let even := radix % 2 = 0
  let binaryExp : Int := if even then wrapI32 (theor.exp - realExp) else theor.exp
  let halfradixExp : Int := if even then wrapI32 (-realExp) else 0
  let radixExp : Int := if even then 0 else wrapI32 (-realExp)
  let t0 : Option Nat := some theor.mant                 -- `Bigint::from_u64`
  let t1 := if halfradixExp ≠ 0 then t0.bind fun t => bigintPow E t (radix / 2) (asU32 halfradixExp) else t0
  let t2 := if radixExp ≠ 0 then t1.bind fun t => bigintPow E t radix (asU32 radixExp) else t1
  t2.bind fun t =>
    let tr : Option (Nat × Nat) :=
      if binaryExp > 0 then (bigintPow E t 2 (asU32 binaryExp)).map fun t => (t, bigmant)
      else if binaryExp < 0 then (bigintPow E bigmant 2 (asU32 (wrapI32 (-binaryExp)))).map fun r => (t, r)
      else some (t, bigmant)
    tr.map fun p =>
      let ord := compareBig p.2 p.1
      round F fp fun f s => roundNearestTieEven f s fun isOdd _ _ => ordUp ord isOdd

/-- `digit_comp::<F, FORMAT>(num, fp, sci_exp, max_digits)` -/
def digitComp (E : Env) (F : FTy) (radix : Nat) (integer : List Nat) (fraction : Option (List Nat))
    (fp : ExtendedFloat80) (sciExp : Int) (maxDigits : Nat) : Option ExtendedFloat80 :=
  (parseMantissa E radix maxDigits integer fraction).bind fun md =>
    let exponent := wrapI32 (wrapI32 (sciExp + 1) - wrapI32 (md.2 : Int))
    if exponent ≥ 0 then positiveDigitComp E F radix md.1 exponent
    else negativeDigitComp E F radix md.1 fp exponent

/-- the part of `Number` the slow path reads -/
structure SNum where
  mantissa : Nat
  exponent : Int
  integer : List Nat
  fraction : Option (List Nat)
deriving DecidableEq, Repr

/-- the three ways `slow_radix` can go -/
inductive Route where
  | digits (maxDigits : Nat)
  | bytes
  | panic                      -- `F::max_digits(radix).unwrap()` without the `radix` feature
deriving DecidableEq, Repr

/-- `F::max_digits(format.radix())` and the `#[cfg(feature = "radix")]` split of `slow_radix` -/
def routeOf (E : Env) (F : FTy) (radixFeature : Bool) (radix : Nat) : Route :=
  match E.S.maxDigits F.fmt radix with
  | some d => .digits d
  | none => if radixFeature then .bytes else .panic

end LexVerif.Model.Slow
