import LexVerif.Spec.ParseInt
import LexVerif.Spec.StdFloat
import LexVerif.Spec.Shortest
import LexVerif.Model.FormatDecimal
import LexVerif.Model.Ops.ParseInt
import LexVerif.Model.Ops.ParseIntFormat
import LexVerif.Model.Ops.FormatError
import LexVerif.Model.Ops.WriteInt
import LexVerif.Model.Ops.ParseFloat
import LexVerif.Model.Ops.GrammarSpec
import LexVerif.Model.Ops.WriteFloat
import LexVerif.Model.Ops.WriteAlgos
import LexVerif.Model.Ops.ParseAlgos
import LexVerif.Model.Ops.OptionsValid
import LexVerif.Model.Ops.WriteRadix
import LexVerif.Model.Ops.ParseFloatAlgo
import LexVerif.Model.Ops.Slow
/-!
# Driver — line-protocol evaluator of the Lean models and specifications

Reads the same op lines as the Rust harness (`harness/src/bin/run.rs`) and prints, per op,
`M <model result> | S <spec result>`; `-` where no model / no specification applies.
Built as a `lean_exe` (every imported module is Mathlib-free).
-/
open LexVerif LexVerif.Spec LexVerif.Model

def parseNatD (s : String) : Nat := s.toNat?.getD 0
def parseIntD (s : String) : Int := s.toInt?.getD 0
def optNat (s : String) : Option Nat := if s = "-" then none else s.toNat?
def optInt (s : String) : Option Int := if s = "-" then none else s.toInt?
def optBytes (s : String) : Option (List Nat) := if s = "-" then none else some (unhexBytes s)

def isPlain (fmt : Format) : Bool :=
  fmt.flagBits = 12 && fmt.basePrefix = 0 && fmt.baseSuffix = 0 && fmt.digitSeparator = 0

/-- spec for integer parse ops -/
def specPI (ty : String) (fmt : Format) (partial_ : Bool) (input : List Nat) : String :=
  match IntTy.ofName ty with
  | none => "-"
  | some t => if isPlain fmt then (parseInt t fmt.mantissaRadix partial_ input).render partial_ else "-"

/-- spec for integer write ops: optional sign, canonical numeral -/
def specWI (ty : String) (fmt : Format) (feats : Features) (v : Int) : String :=
  let sign : List Nat :=
    if v < 0 then [45] else if feats.format ∧ fmt.requiredMantissaSign then [43] else []
  s!"ok {hexBytes (sign ++ numeral fmt.mantissaRadix v.natAbs)}"

/-- with an explicit buffer length below the documented `FORMATTED_SIZE(_DECIMAL)` a panic is also acceptable
(C03 does not speak about undersized buffers; C09 does) -/
def specWIbuf (ty : String) (fmt : Format) (feats : Features) (v : Int) (buflen : String) : String :=
  let s := specWI ty fmt feats v
  match IntTy.ofName ty, buflen.toNat? with
  | some t, some n =>
    if n < LexVerif.Model.WriteInt.bufferSizeConstFmt feats t fmt.mantissaRadix fmt.requiredMantissaSign then s ++ " || panic" else s
  | _, _ => s

def pOptsOf (a : List String) : POpts :=
  -- [lossy, exp, dp, nan, inf, infinity]
  { lossy := a.getD 0 "0" = "1", exp := parseNatD (a.getD 1 "101"), dp := parseNatD (a.getD 2 "46"),
    nan := optBytes (a.getD 3 "-"), inf := optBytes (a.getD 4 "-"), infinity := optBytes (a.getD 5 "-") }

def specPF (feats : Features) (ty : String) (fmt : Format) (partial_ : Bool) (o : POpts) (input : List Nat) : String :=
  match Fmt.ofName ty with
  | none => "-"
  | some f =>
    -- the grammar oracle speaks about valid options only (invalid ones: error paths of the entry points, model column)
    -- … and about formats the feature set supports (others: `InvalidRadix`-style errors, model column).
    -- `lossy` is ignored here: the value given is the correctly rounded one (C19 applies its 1-ulp tolerance).
    if isPlain fmt && (optionsError o).isNone && isValidOptionsPunctuation feats fmt o.exp o.dp
        && checkRadix feats fmt then
      let r := fmt.mantissaRadix
      let res := if partial_ then parseStd r fmt.exponentRadix o input else parseStdComplete r fmt.exponentRadix o input
      res.render f r fmt.exponentBase partial_
    else "-"

def wOptsOf (a : List String) : WOpts :=
  -- [max, min, posbrk, negbrk, round, trim, exp, dp, nan, inf]
  { maxDigits := optNat (a.getD 0 "-"), minDigits := optNat (a.getD 1 "-"),
    posBreak := optInt (a.getD 2 "-"), negBreak := optInt (a.getD 3 "-"),
    truncate := a.getD 4 "r" = "t", trim := a.getD 5 "0" = "1",
    exp := parseNatD (a.getD 6 "101"), dp := parseNatD (a.getD 7 "46"),
    nan := optBytes (a.getD 8 "-"), inf := optBytes (a.getD 9 "-") }

/-- spec for decimal float write ops (non-compact): shortest digits, then the formatting model -/
def specWF (ty : String) (fmt : Format) (feats : Features) (bits : Nat) (o : WOpts) : String :=
  match Fmt.ofName ty with
  | none => "-"
  | some f =>
    if fmt.mantissaRadix ≠ 10 then "-" else
    let neg := f.isNeg bits
    let mag := bits % f.signBit
    let sign : List Nat :=
      if neg ∧ ¬ f.isNaN bits then [45] else if feats.format ∧ fmt.requiredMantissaSign then [43] else []
    if f.isNaN bits then (match o.nan with | some s => s!"ok {hexBytes (sign ++ s)}" | none => "panic")
    else if f.isInf bits then (match o.inf with | some s => s!"ok {hexBytes (sign ++ s)}" | none => "panic")
    else if mag = 0 then s!"ok {hexBytes (sign ++ writeDigits fmt feats [0] 0 o)}"
    else
      let cands := shortest f mag
      let outs := cands.map fun (d, e) =>
        let ds := decDigits d
        let sci : Int := e + (ds.length : Int) - 1
        s!"ok {hexBytes (sign ++ writeDigits fmt feats ds sci o)}"
      " || ".intercalate outs

/-- compact builds use Grisu (not necessarily shortest): only specials and zeros have a byte-level spec -/
def specWF' (ty : String) (fmt : Format) (feats : Features) (bits : Nat) (o : WOpts) : String :=
  match Fmt.ofName ty with
  | none => "-"
  | some f =>
    if feats.compact ∧ ¬ (f.isSpecial bits ∨ bits % f.signBit = 0) then "-" else specWF ty fmt feats bits o

def defaultPOpts : List String := ["0", "101", "46", "4e614e", "696e66", "696e66696e697479"]
def defaultWOpts : List String := ["-", "-", "-", "-", "r", "0", "101", "46", "4e614e", "696e66"]

def fmtOf (s : String) : Format := ⟨(ofHex s).getD 0⟩

/-- judge: exact value of written bytes `out` (plain format) compared with the float it came from.
Answers `ok <roundtrips 0|1> <significant digits> <ulp distance of the exact value's nearest float>`. -/
def judgeRoundTrip (ty : String) (fmt : Format) (o : POpts) (bits : Nat) (out : List Nat) : String :=
  match Fmt.ofName ty with
  | none => "-"
  | some f =>
    let r := fmt.mantissaRadix
    match parseStdComplete r fmt.exponentRadix o out with
    | .num l _ =>
      let back := litBits f r fmt.exponentBase l
      let ds := (l.intDigits ++ l.fracDigits).dropWhile (· = 0)
      let sig := (ds.reverse.dropWhile (· = 0)).length
      -- exact equality of the literal's rational value with the float's value
      let m := ofDigits r (l.intDigits ++ l.fracDigits)
      let fl := l.fracDigits.length
      let b := fmt.exponentBase
      let (ln, ld) : Nat × Nat :=
        if l.exp ≥ 0 then (m * b ^ l.exp.toNat, r ^ fl) else (m, r ^ fl * b ^ (-l.exp).toNat)
      let d := f.decode (bits % f.signBit)
      let (fn, fd) := d.toFrac
      let exact := (l.exp.natAbs < 5000) && (ln * fd == fn * ld) && (l.neg == f.isNeg bits)
      s!"ok {if back = bits then 1 else 0} {sig} {ulpDist back bits} {if exact then 1 else 0} {l.intDigits.length} {l.fracDigits.length}"
    | .nan _ => s!"ok {if f.isNaN bits then 1 else 0} 0 0"
    | .inf neg _ => s!"ok {if bits = f.infBits + (if neg then f.signBit else 0) then 1 else 0} 0 0"
    | .err => "err"

/-- specification column -/
def specOf (feats : Features) (t : List String) : String :=
  let op := t.headD ""
  let op := if op.startsWith "L" then (op.drop 1).toString else op
  match op, t.tail with
  | "dpi", [ty, p, h] => specPI ty Format.standard (p = "1") (unhexBytes h)
  | "pi", [ty, f, p, _nm, h] => specPI ty (fmtOf f) (p = "1") (unhexBytes h)
  | "dwi", ty :: v :: rest => specWIbuf ty Format.standard feats (parseIntD v) (rest.headD "-")
  | "wi", ty :: f :: v :: rest => specWIbuf ty (fmtOf f) feats (parseIntD v) (rest.headD "-")
  | "dpf", [ty, p, h] => specPF feats ty Format.standard (p = "1") (pOptsOf defaultPOpts) (unhexBytes h)
  | "pf", ty :: f :: p :: rest => specPF feats ty (fmtOf f) (p = "1") (pOptsOf (rest.take 6)) (unhexBytes (rest.getD 6 "_"))
  | "dwf", ty :: b :: _ => specWF' ty Format.standard feats ((ofHex b).getD 0) (wOptsOf defaultWOpts)
  | "wf", ty :: f :: b :: rest => specWF' ty (fmtOf f) feats ((ofHex b).getD 0) (wOptsOf (rest.take 10))
  | "jfmt", ty :: f :: b :: rest =>
    -- formatting model applied to given digits: rest = <10 option fields> <digits hex (values)> <sciexp>
    match Fmt.ofName ty with
    | none => "-"
    | some fl =>
      let bits := (ofHex b).getD 0
      let o := wOptsOf (rest.take 10)
      let ds := unhexBytes (rest.getD 10 "_")
      let sci := parseIntD (rest.getD 11 "0")
      let fmt := fmtOf f
      let sign : List Nat :=
        if fl.isNeg bits then [45] else if feats.format ∧ fmt.requiredMantissaSign then [43] else []
      s!"ok {hexBytes (sign ++ writeDigits fmt feats ds sci o)}"
  | "jrt", ty :: f :: rest =>
    judgeRoundTrip ty (fmtOf f) (pOptsOf (rest.take 6)) ((ofHex (rest.getD 6 "0")).getD 0) (unhexBytes (rest.getD 7 "_"))
  | _, _ => "-"

/-- model column: the first handler that recognises the op answers.
Each `Model/Ops/*.lean` exposes `handle : Features → List String → Option String`. -/
def modelHandlers : List (Features → List String → Option String) :=
  [LexVerif.Model.Ops.OptionsValid.handle, LexVerif.Model.Ops.WriteRadix.handle, LexVerif.Model.Ops.Slow.handle,
   LexVerif.Model.Ops.ParseInt.handle, LexVerif.Model.Ops.FormatError.handle, LexVerif.Model.Ops.ParseIntFormat.handle, LexVerif.Model.Ops.WriteInt.handle,
   LexVerif.Model.Ops.ParseFloat.handle, LexVerif.Model.Ops.ParseFloatAlgo.handle, LexVerif.Model.Ops.ParseAlgos.handle, LexVerif.Model.Ops.WriteAlgos.handle,
   LexVerif.Model.Ops.WriteFloat.handle]

def modelOf (feats : Features) (t : List String) : String :=
  (modelHandlers.findSome? (fun h => h feats t)).getD "-"

/-- specification handlers consulted before `specOf` (configuration errors pre-empt value specifications) -/
def specHandlers : List (Features → List String → Option String) :=
  [LexVerif.Model.Ops.FormatError.spec, LexVerif.Model.Ops.Slow.spec,
   LexVerif.Model.Ops.GrammarSpec.spec,
   LexVerif.Model.Ops.ParseAlgos.spec,
   LexVerif.Model.Ops.WriteAlgos.spec,
   LexVerif.Model.Ops.WriteFloat.spec]

def specOf' (feats : Features) (t : List String) : String :=
  (specHandlers.findSome? (fun h => h feats t)).getD (specOf feats t)

def runOp (feats : Features) (t : List String) : String :=
  s!"M {modelOf feats t} | S {specOf' feats t}"

partial def loop (feats : Features) (h : IO.FS.Stream) (out : IO.FS.Stream) : IO Unit := do
  let line ← h.getLine
  if line.isEmpty then return ()
  let l := line.trimAscii.toString
  if l.isEmpty || l.startsWith "#" then loop feats h out
  else
    out.putStrLn (runOp feats (l.splitOn " "))
    loop feats h out

def main (args : List String) : IO Unit := do
  let feats := Features.ofString (args.headD "default")
  let out ← IO.getStdout
  loop feats (← IO.getStdin) out
  out.flush
