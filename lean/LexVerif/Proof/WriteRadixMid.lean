import LexVerif.Proof.WriteRadixError
import LexVerif.Proof.WriteRadixRound
import LexVerif.Proof.WriteRadixTermInt
import Mathlib.Tactic.Ring
/-!
# Proof.WriteRadixMid — the ulp clause for floats with `1 ≤ x < 2^p`

Ingredients: the spacing of patterns (`ival_step`), `delta = ulp/2` exactly (`deltaOf_ival`), the trace of the fraction
loop together with its exit condition and the growth of `delta` (`fracLoop_exit`), the numeric value of the round-up
back-trace (`backtrace_value`), the integer digits (`genInteger_ofNat`), and the conversion of a value distance into a
pattern distance by monotonicity of `roundNE` (`pattern_dist`).
-/
namespace LexVerif.Proof.WriteRadixMid
open LexVerif.Spec LexVerif.Model LexVerif.Proof.RoundNE LexVerif.Proof.WriteRadixF LexVerif.Proof.WriteRadixTerm
open LexVerif.Proof.WriteRadixWF LexVerif.Proof.WriteRadixInteger LexVerif.Proof.WriteRadixError
open LexVerif.Proof.WriteRadixFrac LexVerif.Proof.WriteRadixTermInt LexVerif.Proof.WriteRadixRound
open LexVerif.Model.WriteRadix
open LexVerif.Model.WriteInt (Res)

/-! ## spacing of patterns -/

/-- successive patterns differ by `2^(exponent field − 1)` units -/
theorem ival_step (f : Fmt) (c : Nat) :
    RoundNE.ival f (c + 1) = RoundNE.ival f c + 2 ^ (c / 2 ^ (f.p - 1) - 1) := by
  obtain ⟨k, q, rfl, h1, h2⟩ := decomp f c
  have hT := Nat.two_pow_pos (f.p - 1)
  have hk : (k * 2 ^ (f.p - 1) + q) / 2 ^ (f.p - 1) - 1 = k := by
    by_cases hk0 : k = 0
    · subst hk0
      have : (0 * 2 ^ (f.p - 1) + q) / 2 ^ (f.p - 1) ≤ 1 := by
        apply Nat.le_of_lt_succ
        rw [Nat.div_lt_iff_lt_mul hT]; omega
      omega
    · have hq := h1 (by omega)
      have : (k * 2 ^ (f.p - 1) + q) / 2 ^ (f.p - 1) = k + 1 :=
        Nat.div_eq_of_lt_le (by rw [Nat.succ_mul]; omega) (by rw [Nat.succ_mul, Nat.succ_mul]; omega)
      omega
  rw [hk, Nat.add_assoc, ival_kq f k q h1 (by omega), ival_kq f k (q + 1) (fun h => by have := h1 h; omega) (by omega)]
  ring

theorem ival_add_ge (f : Fmt) (c : Nat) : ∀ j, RoundNE.ival f c + j * 2 ^ (c / 2 ^ (f.p - 1) - 1) ≤ RoundNE.ival f (c + j)
  | 0 => by simp
  | j + 1 => by
    have ih := ival_add_ge f c j
    rw [← Nat.add_assoc, ival_step]
    have : 2 ^ (c / 2 ^ (f.p - 1) - 1) ≤ 2 ^ ((c + j) / 2 ^ (f.p - 1) - 1) :=
      Nat.pow_le_pow_right (by decide) (Nat.sub_le_sub_right (Nat.div_le_div_right (Nat.le_add_right c j)) 1)
    calc RoundNE.ival f c + (j + 1) * 2 ^ (c / 2 ^ (f.p - 1) - 1)
        = RoundNE.ival f c + j * 2 ^ (c / 2 ^ (f.p - 1) - 1) + 2 ^ (c / 2 ^ (f.p - 1) - 1) := by ring
      _ ≤ _ := by omega

theorem ival_sub_le (f : Fmt) (c : Nat) : ∀ j, j ≤ c → j ≤ 2 ^ (f.p - 1) →
    RoundNE.ival f (c - j) + j * 2 ^ (c / 2 ^ (f.p - 1) - 2) ≤ RoundNE.ival f c
  | 0, _, _ => by simp
  | j + 1, hc, hT => by
    have ih := ival_sub_le f c j (by omega) (by omega)
    have hTpos := Nat.two_pow_pos (f.p - 1)
    have e : c - j = (c - (j + 1)) + 1 := by omega
    rw [e, ival_step] at ih
    have hdiv : c / 2 ^ (f.p - 1) - 1 ≤ (c - (j + 1)) / 2 ^ (f.p - 1) := by
      by_cases hcT : 2 ^ (f.p - 1) ≤ c
      · have h1 := sub_T_div _ c hTpos hcT
        have h2 : (c - 2 ^ (f.p - 1)) / 2 ^ (f.p - 1) ≤ (c - (j + 1)) / 2 ^ (f.p - 1) :=
          Nat.div_le_div_right (by omega)
        generalize (c - 2 ^ (f.p - 1)) / 2 ^ (f.p - 1) = a1 at h1 h2
        generalize (c - (j + 1)) / 2 ^ (f.p - 1) = a2 at h2 ⊢
        generalize c / 2 ^ (f.p - 1) = a3 at h1 ⊢
        omega
      · have h0 : c / 2 ^ (f.p - 1) = 0 := Nat.div_eq_of_lt (by omega)
        rw [h0]; exact Nat.zero_le _
    have : 2 ^ (c / 2 ^ (f.p - 1) - 2) ≤ 2 ^ ((c - (j + 1)) / 2 ^ (f.p - 1) - 1) :=
      Nat.pow_le_pow_right (by decide) (by
        generalize (c - (j + 1)) / 2 ^ (f.p - 1) = a2 at hdiv ⊢
        generalize c / 2 ^ (f.p - 1) = a3 at hdiv ⊢
        omega)
    calc RoundNE.ival f (c - (j + 1)) + (j + 1) * 2 ^ (c / 2 ^ (f.p - 1) - 2)
        = RoundNE.ival f (c - (j + 1)) + 2 ^ (c / 2 ^ (f.p - 1) - 2) + j * 2 ^ (c / 2 ^ (f.p - 1) - 2) := by ring
      _ ≤ _ := by omega

/-- the pattern of 1.0 -/
theorem one_eq {f : Fmt} (h : FOK f) : one f = f.bias * 2 ^ (f.p - 1) := by
  have hb := bias_pos h.wf
  have hp := h.wf.hp
  apply ival_inj f
  obtain ⟨j, hj⟩ : ∃ j, f.bias = j + 1 := ⟨f.bias - 1, by omega⟩
  rw [(one_ival h).1, hj, Nat.succ_mul, ival_kq f j _ (fun _ => Nat.le_refl _) (by omega), unit_eq, ← Nat.pow_add]
  congr 1; unfold L; omega

/-- **value distance to pattern distance**: a rational within `a` ulps above / `b` ulps below the float `v` rounds to a
pattern at most `a` above / `2b` below `v` (`ulp = 2^k`, `k = field − 1`; below a binade boundary the spacing halves) -/
theorem pattern_dist {f : Fmt} (hf : WF f) {v N D a b : Nat} (hD : 0 < D) (hfin : v + a < f.infBits)
    (hb : 2 * b ≤ v) (hbT : 2 * b ≤ 2 ^ (f.p - 1)) (hk : 2 ≤ v / 2 ^ (f.p - 1))
    (hup : N * 2 ^ L f ≤ (RoundNE.ival f v + a * 2 ^ (v / 2 ^ (f.p - 1) - 1)) * D)
    (hlo : RoundNE.ival f v * D ≤ N * 2 ^ L f + b * 2 ^ (v / 2 ^ (f.p - 1) - 1) * D) :
    ulpDist (roundNE f N D) v ≤ max a (2 * b) := by
  have hu := Nat.two_pow_pos (L f)
  have up : roundNE f N D ≤ v + a := by
    have e : roundNE f (RoundNE.ival f (v + a)) (2 ^ L f) = v + a := roundNE_of_ival hf hfin hu rfl
    rw [← e]
    apply roundNE_mono' hf hD hu
    calc N * 2 ^ L f ≤ (RoundNE.ival f v + a * 2 ^ (v / 2 ^ (f.p - 1) - 1)) * D := hup
      _ ≤ RoundNE.ival f (v + a) * D := Nat.mul_le_mul_right _ (ival_add_ge f v a)
  have lo : v - 2 * b ≤ roundNE f N D := by
    have e : roundNE f (RoundNE.ival f (v - 2 * b)) (2 ^ L f) = v - 2 * b :=
      roundNE_of_ival hf (by omega) hu rfl
    rw [← e]
    apply roundNE_mono' hf hu hD
    have hs := ival_sub_le f v (2 * b) hb hbT
    have e2 : 2 * 2 ^ (v / 2 ^ (f.p - 1) - 2) = 2 ^ (v / 2 ^ (f.p - 1) - 1) := by
      rw [show v / 2 ^ (f.p - 1) - 1 = (v / 2 ^ (f.p - 1) - 2) + 1 by omega, Nat.pow_succ]; ring
    have hs' : RoundNE.ival f (v - 2 * b) + b * 2 ^ (v / 2 ^ (f.p - 1) - 1) ≤ RoundNE.ival f v := by
      rw [← e2]
      calc RoundNE.ival f (v - 2 * b) + b * (2 * 2 ^ (v / 2 ^ (f.p - 1) - 2))
          = RoundNE.ival f (v - 2 * b) + 2 * b * 2 ^ (v / 2 ^ (f.p - 1) - 2) := by ring
        _ ≤ _ := hs
    have h3 : RoundNE.ival f (v - 2 * b) * D + b * 2 ^ (v / 2 ^ (f.p - 1) - 1) * D ≤ RoundNE.ival f v * D := by
      rw [← Nat.add_mul]; exact Nat.mul_le_mul_right _ hs'
    omega
  unfold ulpDist
  split <;> omega

/-! ## `delta` is exactly half an ulp -/

theorem deltaOf_ival {f : Fmt} (h : FOK f) {v : Nat} (hv1 : 2 * 2 ^ (f.p - 1) ≤ v) (hv2 : v + 1 < f.infBits) :
    2 * RoundNE.ival f (deltaOf f v) = 2 ^ (v / 2 ^ (f.p - 1) - 1) := by
  have hT := Nat.two_pow_pos (f.p - 1)
  have hu := unit_pos f
  have hk : 1 ≤ v / 2 ^ (f.p - 1) - 1 := by
    have : 2 ≤ v / 2 ^ (f.p - 1) := (Nat.le_div_iff_mul_le hT).mpr hv1
    omega
  generalize hkk : v / 2 ^ (f.p - 1) - 1 = k at hk
  have hstep := ival_step f v
  rw [hkk] at hstep
  have hT2 : 1 < 2 * 2 ^ (f.p - 1) := by omega
  obtain ⟨c1, hc1⟩ := exists_pattern f k 1 hT2
  obtain ⟨c2, hc2⟩ := exists_pattern f (k - 1) 1 hT2
  rw [Nat.one_mul] at hc1 hc2
  have hc1f : c1 < f.infBits := by
    have : c1 ≤ v + 1 := le_of_ival_le f (by rw [hc1, hstep]; omega)
    omega
  have e2 : 2 * 2 ^ (k - 1) = 2 ^ k := by
    rw [show k = (k - 1) + 1 by omega, Nat.pow_succ]; simp; ring
  have hc2f : c2 < f.infBits := by
    have : c2 ≤ c1 := le_of_ival_le f (by rw [hc1, hc2, ← e2]; omega)
    omega
  have hs : fsub f (v + 1) v = c1 := by
    unfold fsub
    simp only [ival_eq]
    rw [hstep, Nat.add_sub_cancel_left, unit_eq]
    exact roundNE_of_ival h.wf hc1f (Nat.two_pow_pos _) (by rw [hc1])
  have hd : fmul f (half f) (fsub f (v + 1) v) = c2 := by
    rw [hs]
    unfold fmul
    simp only [ival_eq]
    apply roundNE_of_ival h.wf hc2f (Nat.mul_pos hu hu)
    rw [hc1, hc2, ← unit_eq]
    apply Nat.eq_of_mul_eq_mul_left (show 0 < 2 by decide)
    have hh := (half_ival h).1
    calc 2 * (RoundNE.ival f (half f) * 2 ^ k * unit f) = (2 * RoundNE.ival f (half f)) * 2 ^ k * unit f := by ring
      _ = unit f * 2 ^ k * unit f := by rw [hh]
      _ = 2 * (2 ^ (k - 1) * (unit f * unit f)) := by rw [← e2]; ring
  have hne : v ≠ maxFinite f := by unfold maxFinite; omega
  unfold deltaOf
  dsimp only
  rw [if_neg hne, hd]
  split
  · rw [hc2, e2]
  · have h0 : c2 ≠ 0 := by
      intro h0; rw [h0, ival_zero] at hc2
      have := Nat.two_pow_pos (k - 1); omega
    have : c2 = 1 := by omega
    rw [← this, hc2, e2]

/-! ## the fraction loop with its exit condition -/

theorem fracLoop_exit {f : Fmt} (h : FOK f) {r : Nat} (hr2 : 2 ≤ r) (hr36 : r ≤ 36) (hrp : r < 2 * 2 ^ (f.p - 1))
    (hpo : PredOne f r) : ∀ (fuel x delta : Nat) (acc : List Nat) (out : List Nat × List Nat × Bool),
      x < one f → delta < x → fracLoop true f r (ofNat f r) fuel x delta acc = .ok out →
      ∃ n dN, 1 ≤ n ∧ (∀ j, 1 ≤ j → unit f ≤ RoundNE.ival f delta * 2 ^ j → n ≤ j) ∧
        (∀ d ∈ (fracIter f r n x).1, d < r) ∧ (fracIter f r n x).2 < one f ∧
        RoundNE.ival f dN ≤ RoundNE.ival f delta * r ^ n + errB f * geom r n ∧
        ((out = (((fracIter f r n x).1.map (digitToCharConst · r)).reverse ++ acc, [], false) ∧
            (fracIter f r n x).2 ≤ dN) ∨
         (out = backtrace true r (((fracIter f r n x).1.map (digitToCharConst · r)).reverse ++ acc) [] ∧
            one f < fadd f (fracIter f r n x).2 dN))
  | 0, _, _, _, _, _, _, hx => by simp [fracLoop] at hx
  | fuel + 1, x, delta, acc, out, hx1, hdx, hx => by
    have hd := fracDigit_lt h hr36 hrp hpo hx1
    obtain ⟨_, _, _, hlt⟩ := frac_step h hr36 hrp (Nat.le_of_lt hx1)
    obtain ⟨_, e2⟩ := fmul_err h hr36 hrp (show delta ≤ one f by omega)
    have hone : ∀ d ∈ (fracIter f r 1 x).1, d < r := by
      intro d hd'; simp [fracIter] at hd'; rw [hd']; exact hd
    have hdbl := fmul_double h hr2 hrp (show delta < one f by omega)
    have hj1 : ∀ j, 1 ≤ j → unit f ≤ RoundNE.ival f delta * 2 ^ j → 1 ≤ j := fun j hj _ => hj
    unfold fracLoop at hx
    dsimp only at hx
    split at hx
    · rename_i hc
      simp only [Res.ok.injEq] at hx
      refine ⟨1, fmul f delta (ofNat f r), Nat.le_refl _, hj1, hone, by simpa [fracIter] using hlt,
        by simpa [geom] using e2, Or.inr ⟨by rw [← hx]; simp [fracIter], by simpa [fracIter] using hc.2⟩⟩
    · split at hx
      · rename_i hge
        simp only [Res.ok.injEq] at hx
        refine ⟨1, fmul f delta (ofNat f r), Nat.le_refl _, hj1, hone, by simpa [fracIter] using hlt,
          by simpa [geom] using e2, Or.inl ⟨by rw [← hx]; simp [fracIter], by simpa [fracIter] using hge⟩⟩
      · rename_i hnge
        obtain ⟨n, dN, h1, hb, h2, h3, h4, h5⟩ := fracLoop_exit h hr2 hr36 hrp hpo fuel _ _ _ out hlt (Nat.lt_of_not_le hnge) hx
        refine ⟨n + 1, dN, by omega, ?_, ?_, by simpa [fracIter] using h3, ?_, ?_⟩
        · intro j hj hU
          by_cases hj1' : j = 1
          · subst hj1'
            exfalso
            have hd1 : unit f ≤ RoundNE.ival f (fmul f delta (ofNat f r)) := by omega
            have := (lt_one_iff h).mp (Nat.lt_trans (Nat.lt_of_not_le hnge) hlt)
            omega
          · have := hb (j - 1) (by omega) (by
              have e : 2 ^ j = 2 * 2 ^ (j - 1) := by
                rw [show j = (j - 1) + 1 by omega, Nat.pow_succ]; simp; ring
              rw [e] at hU
              calc unit f ≤ RoundNE.ival f delta * (2 * 2 ^ (j - 1)) := hU
                _ = 2 * RoundNE.ival f delta * 2 ^ (j - 1) := by ring
                _ ≤ _ := Nat.mul_le_mul_right _ hdbl)
            omega
        · intro d hd'
          simp only [fracIter, List.mem_cons] at hd'
          rcases hd' with rfl | hd'
          · exact hd
          · exact h2 d hd'
        · calc RoundNE.ival f dN
              ≤ RoundNE.ival f (fmul f delta (ofNat f r)) * r ^ n + errB f * geom r n := h4
            _ ≤ (RoundNE.ival f delta * r + errB f) * r ^ n + errB f * geom r n :=
                Nat.add_le_add_right (Nat.mul_le_mul_right _ e2) _
            _ = RoundNE.ival f delta * r ^ (n + 1) + errB f * geom r (n + 1) := by
                rw [show geom r (n + 1) = r ^ n + geom r n from rfl]; ring
        · rcases h5 with ⟨h5, h6⟩ | ⟨h5, h6⟩
          · exact Or.inl ⟨by rw [h5]; simp [fracIter], by simpa [fracIter] using h6⟩
          · exact Or.inr ⟨by rw [h5]; simp [fracIter], by simpa [fracIter] using h6⟩

/-! ## digit values -/

/-- digit VALUE of a byte of the scratch buffer (`0-9`, `A-Z`) -/
def byteDigit (c : Nat) : Nat := if c < 58 then c - 48 else c - 55

theorem byteDigit_digitChar {d : Nat} (hd : d < 36) : byteDigit (digitChar d) = d := by
  unfold byteDigit digitChar
  split <;> split <;> omega

theorem vals_chars {r : Nat} (hr36 : r ≤ 36) : ∀ (ds : List Nat), (∀ d ∈ ds, d < r) →
    (ds.map (digitToCharConst · r)).map byteDigit = ds
  | [], _ => rfl
  | d :: t, h => by
    have hd : d < r := h d (by simp)
    simp only [List.map_cons]
    rw [digitToCharConst_eq hd hr36, byteDigit_digitChar (by omega), vals_chars hr36 t (fun x hx => h x (by simp [hx]))]

theorem charToDigitConst_char {d r : Nat} (hd : d < r) (hr36 : r ≤ 36) :
    charToDigitConst (digitToCharConst d r) r = some d := by
  unfold charToDigitConst
  rw [digitToCharConst_eq hd hr36, charToValidDigitConst_digitChar hd hr36]
  simp [hd]

/-- **numeric value of the round-up back-trace** (`rv`: digit values, last digit first): it adds one unit in the last
place (dropping the trailing largest digits), or reports the carry into the integer when all digits were largest -/
theorem backtrace_value {r : Nat} (hr36 : r ≤ 36) : ∀ (rv g : List Nat), (∀ d ∈ rv, d < r) →
    ∃ rv', (backtrace true r (rv.map (digitToCharConst · r)) g).1 = rv'.map (digitToCharConst · r) ∧
      (∀ d ∈ rv', d < r) ∧ rv'.length ≤ rv.length ∧
      ((backtrace true r (rv.map (digitToCharConst · r)) g).2.2 = false →
        ofDigits r rv'.reverse * r ^ (rv.length - rv'.length) = ofDigits r rv.reverse + 1) ∧
      ((backtrace true r (rv.map (digitToCharConst · r)) g).2.2 = true →
        rv' = [] ∧ ofDigits r rv.reverse + 1 = r ^ rv.length)
  | [], g, _ => ⟨[], by simp [backtrace], by simp, by simp, by simp [backtrace], by simp [backtrace, ofDigits]⟩
  | d :: t, g, h => by
    have hd : d < r := h d (by simp)
    have ht : ∀ x ∈ t, x < r := fun x hx => h x (by simp [hx])
    simp only [List.map_cons]
    unfold backtrace
    rw [charToDigitConst_char hd hr36]
    dsimp only
    by_cases hd1 : d + 1 < r
    · rw [if_pos (Or.inr hd1)]
      refine ⟨(d + 1) :: t, by simp, ?_, by simp, ?_, by simp⟩
      · intro x hx
        rcases List.mem_cons.mp hx with rfl | hx
        · exact hd1
        · exact ht x hx
      · intro _
        simp only [List.reverse_cons, ofDigits_snoc, List.length_cons, Nat.sub_self, Nat.pow_zero, Nat.mul_one]
        omega
    · rw [if_neg (by simp [hd1])]
      obtain ⟨rv', e1, e2, e3, e4, e5⟩ := backtrace_value hr36 t (digitToCharConst d r :: g) ht
      have hdr : d + 1 = r := by omega
      refine ⟨rv', e1, e2, by simp; omega, ?_, ?_⟩
      · intro hc
        have := e4 hc
        simp only [List.reverse_cons, ofDigits_snoc, List.length_cons]
        rw [show t.length + 1 - rv'.length = (t.length - rv'.length) + 1 by omega, Nat.pow_succ, ← Nat.mul_assoc, this]
        rw [← hdr]; ring
      · intro hc
        obtain ⟨a, b⟩ := e5 hc
        refine ⟨a, ?_⟩
        simp only [List.reverse_cons, ofDigits_snoc, List.length_cons]
        rw [Nat.pow_succ, ← b, ← hdr]; ring

/-- the integer loops on an integer `0 < n < 2^p` -/
theorem genInteger_ofNat {f : Fmt} (h : FOK f) (hp : f.p ≤ halfSize) {r : Nat} (hr : 2 ≤ r) (hr36 : r ≤ 36)
    (hrp : r < 2 * 2 ^ (f.p - 1)) {n : Nat} (h0 : 0 < n) (hn : n < 2 * 2 ^ (f.p - 1)) :
    genInteger f r (ofNat f n) = .ok ((toDigits r n).map digitChar) := by
  have hexp := exponent_fdiv_ofNat h hn hrp (by omega : 0 < r)
  have hfuel : n < 2 ^ halfSize := by
    have h2 : 2 * 2 ^ (f.p - 1) = 2 ^ f.p := by
      rw [show f.p = (f.p - 1) + 1 by have := h.wf.hp; omega, Nat.pow_succ]; simp; ring
    exact Nat.lt_of_lt_of_le hn (by rw [h2]; exact Nat.pow_le_pow_right (by decide) hp)
  have hpad : padLoop f (ofNat f r) halfSize (ofNat f n) [] = .ok (ofNat f n, [], halfSize) := by
    show padLoop f (ofNat f r) (1099 + 1) (ofNat f n) [] = _
    unfold padLoop
    rw [if_neg (by omega)]
    rfl
  unfold genInteger
  simp only [hpad, Res.bind, digitLoop_ofNat h hr hr36 hrp halfSize n [] h0 hn hfuel, List.append_nil]

/-! ## arithmetic core -/

theorem geom_double {r : Nat} (hr : 3 ≤ r) : ∀ n, 2 * geom r n + 1 ≤ r ^ n
  | 0 => by simp [geom]
  | n + 1 => by
    have ih := geom_double hr n
    rw [show geom r (n + 1) = r ^ n + geom r n from rfl, Nat.pow_succ]
    have : r ^ n * 3 ≤ r ^ n * r := Nat.mul_le_mul_left _ hr
    omega

/-- exit `delta ≥ fraction`: the digits `n . d₁…d_N` are within `(δ + B)` of the float -/
theorem core_A {iv U n x0 R K δ B gN Dt xN dN : Nat} (hiv : iv = n * U + x0) (hδ : 2 * δ = K)
    (hB : 2 * (B * gN) ≤ 16 * (K * R)) (e4 : Dt * U + xN ≤ x0 * R + B * gN) (e5 : x0 * R ≤ Dt * U + xN + B * gN)
    (hd : dN ≤ δ * R + B * gN) (hx : xN ≤ dN) :
    (n * R + Dt) * U ≤ (iv + 17 * K) * R ∧ iv * R ≤ (n * R + Dt) * U + 17 * K * R := by
  subst hiv
  have h1 : (n * R + Dt) * U = n * U * R + Dt * U := by ring
  have h2 : (n * U + x0 + 17 * K) * R = n * U * R + x0 * R + 17 * (K * R) := by ring
  have h3 : (n * U + x0) * R = n * U * R + x0 * R := by ring
  have h4 : 17 * K * R = 17 * (K * R) := by ring
  have h5 : 2 * (δ * R) = K * R := by rw [← hδ]; ring
  rw [h1, h2, h3, h4]
  generalize n * U * R = a1 at *
  generalize Dt * U = a2 at *
  generalize x0 * R = a3 at *
  generalize K * R = a4 at *
  generalize B * gN = a5 at *
  generalize δ * R = a6 at *
  omega

/-- exit by round-up: the digits after adding one unit in the last place -/
theorem core_B {iv U n x0 R K δ B gN Dt xN dN : Nat} (hiv : iv = n * U + x0) (hδ : 2 * δ = K)
    (hB : 2 * (B * gN) ≤ 16 * (K * R)) (e4 : Dt * U + xN ≤ x0 * R + B * gN) (e5 : x0 * R ≤ Dt * U + xN + B * gN)
    (hd : dN ≤ δ * R + B * gN) (hx : U < xN + dN) (hx1 : xN < U) :
    (n * R + (Dt + 1)) * U ≤ (iv + 17 * K) * R ∧ iv * R ≤ (n * R + (Dt + 1)) * U + 17 * K * R := by
  subst hiv
  have h1 : (n * R + (Dt + 1)) * U = n * U * R + Dt * U + U := by ring
  have h2 : (n * U + x0 + 17 * K) * R = n * U * R + x0 * R + 17 * (K * R) := by ring
  have h3 : (n * U + x0) * R = n * U * R + x0 * R := by ring
  have h4 : 17 * K * R = 17 * (K * R) := by ring
  have h5 : 2 * (δ * R) = K * R := by rw [← hδ]; ring
  rw [h1, h2, h3, h4]
  generalize n * U * R = a1 at *
  generalize Dt * U = a2 at *
  generalize x0 * R = a3 at *
  generalize K * R = a4 at *
  generalize B * gN = a5 at *
  generalize δ * R = a6 at *
  omega

/-- a float with a non-zero fraction is below `2^(p-1)` -/
theorem int_lt_T {f : Fmt} (v : Nat) (hx0 : RoundNE.ival f v % unit f ≠ 0) :
    RoundNE.ival f v / unit f < 2 ^ (f.p - 1) := by
  obtain ⟨k, q, hq, hq2⟩ := ival_decomp f v
  have hk : k < L f := by
    apply Nat.lt_of_not_le; intro hk
    apply hx0
    rw [hq, unit_eq]
    exact Nat.mod_eq_zero_of_dvd (Nat.dvd_trans (Nat.pow_dvd_pow 2 hk) ⟨q, Nat.mul_comm _ _⟩)
  rw [Nat.div_lt_iff_lt_mul (unit_pos f), hq, unit_eq]
  have hL : 2 ^ L f = 2 * 2 ^ (L f - 1) := by
    rw [show L f = (L f - 1) + 1 by omega, Nat.pow_succ]; simp; ring
  have : 2 ^ k ≤ 2 ^ (L f - 1) := Nat.pow_le_pow_right (by decide) (by omega)
  calc q * 2 ^ k ≤ q * 2 ^ (L f - 1) := Nat.mul_le_mul_left _ this
    _ < 2 * 2 ^ (f.p - 1) * 2 ^ (L f - 1) := Nat.mul_lt_mul_of_pos_right hq2 (Nat.two_pow_pos _)
    _ = 2 ^ (f.p - 1) * 2 ^ L f := by rw [hL]; ring

/-! ## assembly -/

theorem ofDigits_append_pow (r : Nat) (a b : List Nat) :
    ofDigits r (a ++ b) = ofDigits r a * r ^ b.length + ofDigits r b := by
  unfold ofDigits; rw [List.foldl_append, foldl_horner]

theorem digits_value {r : Nat} (hr : 2 ≤ r) (hr36 : r ≤ 36) (n : Nat) (fv : List Nat) (hfv : ∀ d ∈ fv, d < r) :
    ofDigits r (((toDigits r n).map digitChar ++ fv.map (digitToCharConst · r)).map byteDigit)
      = n * r ^ fv.length + ofDigits r fv := by
  have h1 : ((toDigits r n).map digitChar).map byteDigit = toDigits r n := by
    rw [List.map_map]
    conv => rhs; rw [← List.map_id (toDigits r n)]
    apply List.map_congr_left
    intro d hd
    exact byteDigit_digitChar (Nat.lt_of_lt_of_le (toDigits_digit_lt r n hr d hd) hr36)
  rw [List.map_append, h1, vals_chars hr36 fv hfv, ofDigits_append_pow, ofDigits_toDigits r n hr]

/-- hypotheses on the format used below (true for binary32 / binary64) -/
structure MidFmt (f : Fmt) : Prop where
  fok : FOK f
  bias2 : 2 ≤ f.bias
  tbig : 36 ≤ 2 ^ (f.p - 1)
  pH : f.p ≤ halfSize
  slack : (f.bias + f.p + 1) * 2 ^ (f.p - 1) ≤ f.infBits

/-- value of the generated fraction digits (and carry) of a float `1 ≤ v < 2^p`, scaled to a common `r^N` -/
theorem genFraction_mid {f : Fmt} (m : MidFmt f) {r : Nat} (hr3 : 3 ≤ r) (hr36 : r ≤ 36) (hpo : PredOne f r)
    {v : Nat} (hv1 : one f ≤ v) (hv2 : v < (f.bias + f.p) * 2 ^ (f.p - 1))
    {fr : List Nat × List Nat × Bool} (hfr : genFraction true f r v = .ok fr) :
    ∃ N fv, fr.1 = fv.map (digitToCharConst · r) ∧ (∀ d ∈ fv, d < r) ∧ fv.length ≤ N ∧ N ≤ f.p ∧
      (RoundNE.ival f v / unit f + (if fr.2.2 then 1 else 0) < 2 * 2 ^ (f.p - 1)) ∧
      ((RoundNE.ival f v / unit f + (if fr.2.2 then 1 else 0)) * r ^ N + ofDigits r fv * r ^ (N - fv.length)) * unit f
        ≤ (RoundNE.ival f v + 17 * 2 ^ (v / 2 ^ (f.p - 1) - 1)) * r ^ N ∧
      RoundNE.ival f v * r ^ N
        ≤ ((RoundNE.ival f v / unit f + (if fr.2.2 then 1 else 0)) * r ^ N + ofDigits r fv * r ^ (N - fv.length)) * unit f
          + 17 * 2 ^ (v / 2 ^ (f.p - 1) - 1) * r ^ N := by
  have h := m.fok
  have hT := Nat.two_pow_pos (f.p - 1)
  have hu := unit_pos f
  have hrp : r < 2 * 2 ^ (f.p - 1) := by have := m.tbig; omega
  have hone := one_eq h
  have hvfin : v + 1 < f.infBits := by
    have := m.slack
    have : (f.bias + f.p + 1) * 2 ^ (f.p - 1) = (f.bias + f.p) * 2 ^ (f.p - 1) + 2 ^ (f.p - 1) := by ring
    have := m.tbig
    omega
  have hv2T : 2 * 2 ^ (f.p - 1) ≤ v := by
    have : 2 * 2 ^ (f.p - 1) ≤ f.bias * 2 ^ (f.p - 1) := Nat.mul_le_mul_right _ m.bias2
    omega
  -- the float: integer part, fraction, ulp
  have hdm := Nat.div_add_mod (RoundNE.ival f v) (unit f)
  have hn2T : RoundNE.ival f v / unit f < 2 * 2 ^ (f.p - 1) := by
    rw [Nat.div_lt_iff_lt_mul hu, ← ival_two_pow_p h]
    exact ival_strictMono f hv2
  have hxv := fsub_ffloor_exact h.wf (show v < f.infBits by omega)
  have hx1 : fsub f v (ffloor f v) < one f := by
    rw [lt_one_iff h, hxv]; exact Nat.mod_lt _ hu
  have hδ := deltaOf_ival h hv2T hvfin
  have hkb : f.bias ≤ v / 2 ^ (f.p - 1) := by
    rw [Nat.le_div_iff_mul_le hT]; omega
  have hBK : errB f ≤ 16 * 2 ^ (v / 2 ^ (f.p - 1) - 1) := by
    unfold errB
    have : 2 ^ (f.bias + 3) = 16 * 2 ^ (f.bias - 1) := by
      rw [show f.bias + 3 = (f.bias - 1) + 4 by have := m.bias2; omega, Nat.pow_add]; ring
    rw [this]
    exact Nat.mul_le_mul_left _ (Nat.pow_le_pow_right (by decide) (by omega))
  generalize hK : 2 ^ (v / 2 ^ (f.p - 1) - 1) = K at *
  generalize hn : RoundNE.ival f v / unit f = n at *
  generalize hx0 : RoundNE.ival f v % unit f = x0 at *
  have hiv : RoundNE.ival f v = n * unit f + x0 := by rw [Nat.mul_comm]; exact hdm.symm
  unfold genFraction at hfr
  dsimp only at hfr
  split at hfr
  · rename_i hgt
    cases hl : fracLoop true f r (ofNat f r) halfSize (fsub f v (ffloor f v)) (deltaOf f v) [] with
    | ok out =>
      rw [hl] at hfr
      simp only [Res.bind, Res.ok.injEq] at hfr
      subst hfr
      obtain ⟨N, dN, hN1, hNb, hdig, hxN1, hdN, hcase⟩ :=
        fracLoop_exit h (by omega) hr36 hrp hpo halfSize _ _ [] out hx1 hgt hl
      have hNp : N ≤ f.p := by
        apply hNb f.p (by have := h.wf.hp; omega)
        have hp := h.wf.hp
        have hb2 := m.bias2
        have e1 : 2 * (RoundNE.ival f (deltaOf f v) * 2 ^ f.p) = K * 2 ^ f.p := by rw [← hδ]; ring
        have e2 : 2 * unit f ≤ K * 2 ^ f.p := by
          rw [← hK, unit_eq, ← Nat.pow_add, show 2 * 2 ^ L f = 2 ^ (L f + 1) by rw [Nat.pow_succ]; ring]
          apply Nat.pow_le_pow_right (by decide)
          unfold L; omega
        omega
      obtain ⟨_, _, _, e4, e5⟩ := fracIter_err h hr36 hrp N _ (Nat.le_of_lt hx1)
      have hlen := (fracIter_err h hr36 hrp N _ (Nat.le_of_lt hx1)).1
      rw [hxv] at e4 e5
      have hB : 2 * (errB f * geom r N) ≤ 16 * (K * r ^ N) := by
        have hg := geom_double hr3 N
        calc 2 * (errB f * geom r N) = errB f * (2 * geom r N) := by ring
          _ ≤ 16 * K * r ^ N := Nat.mul_le_mul hBK (by omega)
          _ = 16 * (K * r ^ N) := by ring
      generalize hDt : ofDigits r (fracIter f r N (fsub f v (ffloor f v))).1 = Dt at *
      generalize hxN : (fracIter f r N (fsub f v (ffloor f v))).2 = xN at *
      generalize htd : (fracIter f r N (fsub f v (ffloor f v))).1 = td at *
      rcases hcase with ⟨ho, hle⟩ | ⟨ho, hlt⟩
      · -- exit `delta ≥ fraction`
        subst ho
        obtain ⟨c1, c2⟩ := core_A hiv hδ hB e4 e5 hdN (ival_mono f hle)
        refine ⟨N, td, by simp, hdig, by omega, hNp, by simpa using hn2T, ?_, ?_⟩
        · simpa [hlen, hDt] using c1
        · simpa [hlen, hDt] using c2
      · -- exit by round-up
        have hsum : unit f < RoundNE.ival f xN + RoundNE.ival f dN := by
          apply Nat.lt_of_not_le; intro hle
          have : fadd f xN dN ≤ one f := by
            have e : roundNE f (unit f) (unit f) = one f :=
              roundNE_of_ival h.wf (one_ival h).2 hu (by rw [(one_ival h).1, unit_eq])
            rw [← e]
            unfold fadd
            simp only [ival_eq]
            exact roundNE_mono' h.wf hu hu (Nat.mul_le_mul_right _ hle)
          omega
        obtain ⟨c1, c2⟩ := core_B hiv hδ hB e4 e5 hdN hsum ((lt_one_iff h).mp hxN1)
        have hrev : (td.map (digitToCharConst · r)).reverse ++ [] = td.reverse.map (digitToCharConst · r) := by
          simp [List.map_reverse]
        rw [hrev] at ho
        obtain ⟨rv', b1, b2, b3, b4, b5⟩ := backtrace_value hr36 td.reverse []
          (fun d hd => hdig d (List.mem_reverse.mp hd))
        rw [← ho] at b1 b4 b5
        simp only [List.length_reverse, List.reverse_reverse] at b3 b4 b5
        rw [hDt] at b4 b5
        rw [hlen] at b3 b4 b5
        refine ⟨N, rv'.reverse, by rw [b1]; simp [List.map_reverse], fun d hd => b2 d (List.mem_reverse.mp hd),
          by simpa using b3, hNp, ?_, ?_, ?_⟩
        · cases hc : out.2.2 with
          | false => simpa using hn2T
          | true =>
            have hx0ne : x0 ≠ 0 := by
              intro h0
              have : RoundNE.ival f (fsub f v (ffloor f v)) = RoundNE.ival f 0 := by rw [hxv, ival_zero, h0]
              have := ival_inj f this
              omega
            have := int_lt_T (f := f) v (by rw [hx0]; exact hx0ne)
            rw [hn] at this
            simp; omega
        · cases hc : out.2.2 with
          | false =>
            have := b4 hc
            simp only [List.length_reverse, hc, Bool.false_eq_true, if_false, Nat.add_zero]
            rw [this]; exact c1
          | true =>
            obtain ⟨e1, e2⟩ := b5 hc
            subst e1
            simp only [List.reverse_nil, List.length_nil, hc, if_true, ofDigits, List.foldl_nil, Nat.zero_mul, Nat.add_zero]
            have : (n + 1) * r ^ N = n * r ^ N + (Dt + 1) := by rw [e2]; ring
            rw [this]; exact c1
        · cases hc : out.2.2 with
          | false =>
            have := b4 hc
            simp only [List.length_reverse, hc, Bool.false_eq_true, if_false, Nat.add_zero]
            rw [this]; exact c2
          | true =>
            obtain ⟨e1, e2⟩ := b5 hc
            subst e1
            simp only [List.reverse_nil, List.length_nil, hc, if_true, ofDigits, List.foldl_nil, Nat.zero_mul, Nat.add_zero]
            have : (n + 1) * r ^ N = n * r ^ N + (Dt + 1) := by rw [e2]; ring
            rw [this]; exact c2
    | fault => rw [hl] at hfr; simp [Res.bind] at hfr
    | panic => rw [hl] at hfr; simp [Res.bind] at hfr
  · rename_i hngt
    simp only [Res.ok.injEq] at hfr
    subst hfr
    have hxle : x0 ≤ RoundNE.ival f (deltaOf f v) := by
      rw [← hxv]; exact ival_mono f (Nat.le_of_not_lt hngt)
    refine ⟨0, [], rfl, by simp, by simp, Nat.zero_le _, by simpa using hn2T, ?_, ?_⟩
    · simp [ofDigits, hiv]; omega
    · simp [ofDigits, hiv]; omega

theorem fadd_one_ofNat {f : Fmt} (h : FOK f) {n : Nat} (hn : n + 1 < 2 * 2 ^ (f.p - 1)) :
    fadd f (ofNat f n) (one f) = ofNat f (n + 1) := by
  obtain ⟨hv, hfin⟩ := ofNat_ival h hn
  unfold fadd
  simp only [ival_eq]
  rw [(ofNat_ival h (show n < 2 * 2 ^ (f.p - 1) by omega)).1, (one_ival h).1]
  apply roundNE_of_ival h.wf hfin (unit_pos f)
  rw [hv, unit_eq]; ring

/-- **the ulp clause for `1 ≤ x < 2^p`**: the generated digits denote a number whose nearest float is at most 34
patterns from the input (at most 17 above, 34 below) -/
theorem error_mid {f : Fmt} (m : MidFmt f) {r : Nat} (hr3 : 3 ≤ r) (hr36 : r ≤ 36) (hpo : PredOne f r)
    {v : Nat} (hv1 : one f ≤ v) (hv2 : v < (f.bias + f.p) * 2 ^ (f.p - 1)) {g : Gen}
    (hg : generate true f r v = .ok g) :
    ulpDist (roundNE f (ofDigits r ((g.ints ++ g.fracs).map byteDigit)) (r ^ g.fracs.length)) v ≤ 34 ∧
      g.ints.length + g.fracs.length ≤ 2 * f.p := by
  have h := m.fok
  have hT := Nat.two_pow_pos (f.p - 1)
  have hu := unit_pos f
  have hrp : r < 2 * 2 ^ (f.p - 1) := by have := m.tbig; omega
  have hone := one_eq h
  have hslack : (f.bias + f.p + 1) * 2 ^ (f.p - 1) = (f.bias + f.p) * 2 ^ (f.p - 1) + 2 ^ (f.p - 1) := by ring
  have hvfin : v + 17 < f.infBits := by have := m.slack; have := m.tbig; omega
  have hv2T : 2 * 2 ^ (f.p - 1) ≤ v := by
    have : 2 * 2 ^ (f.p - 1) ≤ f.bias * 2 ^ (f.p - 1) := Nat.mul_le_mul_right _ m.bias2
    omega
  have hn1 : 1 ≤ RoundNE.ival f v / unit f := by
    rw [Nat.le_div_iff_mul_le hu, Nat.one_mul, ← (one_ival h).1]; exact ival_mono f hv1
  have hfloor : ffloor f v = ofNat f (RoundNE.ival f v / unit f) := by
    apply ival_inj f
    have hn2T : RoundNE.ival f v / unit f < 2 * 2 ^ (f.p - 1) := by
      rw [Nat.div_lt_iff_lt_mul hu, ← ival_two_pow_p h]; exact ival_strictMono f hv2
    rw [(ffloor_exact h.wf (show v < f.infBits by omega)).1, (ofNat_ival h hn2T).1]
  unfold generate at hg
  cases hfr : genFraction true f r v with
  | ok fr =>
    rw [hfr] at hg
    simp only [Res.bind] at hg
    obtain ⟨N, fv, hf1, hf2, hf3, hNp, hn', c1, c2⟩ := genFraction_mid m hr3 hr36 hpo hv1 hv2 hfr
    generalize hn : RoundNE.ival f v / unit f = n at *
    have hint : (if fr.2.2 = true then fadd f (ffloor f v) (one f) else ffloor f v)
        = ofNat f (n + (if fr.2.2 then 1 else 0)) := by
      rw [hfloor]
      cases hc : fr.2.2 with
      | false => simp
      | true => rw [hc] at hn'; simp only [if_true] at hn' ⊢; exact fadd_one_ofNat h hn'
    rw [hint, genInteger_ofNat h m.pH (by omega) hr36 hrp (by omega) hn'] at hg
    simp only [Res.ok.injEq] at hg
    subst hg
    dsimp only
    refine ⟨?_, ?_⟩
    swap
    · rw [hf1, List.length_map, List.length_map]
      have : (toDigits r (n + if fr.2.2 = true then 1 else 0)).length ≤ f.p := by
        apply toDigits_length_le _ _ f.p (by omega) (by have := h.wf.hp; omega)
        have e : 2 * 2 ^ (f.p - 1) = 2 ^ f.p := by
          rw [show f.p = (f.p - 1) + 1 by have := h.wf.hp; omega, Nat.pow_succ]; simp; ring
        calc _ < 2 ^ f.p := by rw [← e]; exact hn'
          _ ≤ r ^ f.p := Nat.pow_le_pow_left (by omega) _
      omega
    rw [hf1, digits_value (by omega) hr36 _ fv hf2, List.length_map]
    generalize n + (if fr.2.2 then 1 else 0) = n' at *
    have hscale : roundNE f (n' * r ^ fv.length + ofDigits r fv) (r ^ fv.length)
        = roundNE f (n' * r ^ N + ofDigits r fv * r ^ (N - fv.length)) (r ^ N) := by
      have hpow : r ^ N = r ^ (N - fv.length) * r ^ fv.length := by
        rw [← Nat.pow_add]; congr 1; omega
      have hk : 0 < r ^ (N - fv.length) := Nat.pow_pos (by omega)
      rw [← roundNE_scale' h.wf hk _ (Nat.pow_pos (by omega : 0 < r))]
      congr 1
      · rw [hpow]; ring
      · rw [hpow]
    rw [hscale]
    have := pattern_dist h.wf (v := v) (N := n' * r ^ N + ofDigits r fv * r ^ (N - fv.length)) (D := r ^ N)
      (a := 17) (b := 17) (Nat.pow_pos (by omega)) hvfin (by have := m.tbig; omega) (by have := m.tbig; omega)
      ((Nat.le_div_iff_mul_le hT).mpr hv2T) (by rw [← unit_eq]; exact c1) (by rw [← unit_eq]; exact c2)
    simpa using this
  | fault => rw [hfr] at hg; simp [Res.bind] at hg
  | panic => rw [hfr] at hg; simp [Res.bind] at hg

theorem midFmt_f64 : MidFmt f64 := ⟨fok_f64, by decide, by decide, by decide, by decide⟩
theorem midFmt_f32 : MidFmt f32 := ⟨fok_f32, by decide, by decide, by decide, by decide⟩

/-! ## the layout keeps all digits when they fit the 232-byte window -/

/-- all generated digits fit into the `MAX_DIGIT_LENGTH + 1 = 232` bytes the layout functions look at -/
def PositionalFits (g : Gen) : Prop := g.ints.length + g.fracs.length ≤ maxDigitLength + 1

instance (g : Gen) : Decidable (PositionalFits g) := by unfold PositionalFits; infer_instance

/-- the layouts applied to ALL generated digits (no window) -/
def layoutAll (fmt : Format) (feats : Features) (o : WOpts) (g : Gen) : Res Text :=
  let sciExp := sciExpOf g
  let minExp := o.negBreak.getD (-5)
  let maxExp := o.posBreak.getD 9
  let outside := sciExp < minExp ∨ sciExp > maxExp
  let require := fmt.requiredExponentNotation ∨ outside
  if ¬ fmt.noExponentNotation ∧ require then
    sciFinish fmt feats o
      ((g.ints ++ g.fracs).drop (if sciExp ≤ 0 then ((g.ints.length : Int) - sciExp - 1).toNat else 0)) sciExp
  else .ok (nonsciFinish o (g.ints ++ g.fracs) g.ints.length)

theorem buf_window (g : Gen) (s : Nat) :
    (g.buf.drop s).take (g.ints.length + g.fracs.length - s) = (g.ints ++ g.fracs).drop s := by
  unfold Gen.buf
  rw [List.append_assoc (g.ints ++ g.fracs)]
  by_cases hs : s ≤ (g.ints ++ g.fracs).length
  · rw [List.drop_append_of_le_length hs, List.take_append_of_le_length (by simp), List.take_of_length_le (by simp)]
  · have h1 : g.ints.length + g.fracs.length - s = 0 := by simp at hs; omega
    rw [h1, List.take_zero, List.drop_of_length_le (by omega)]

/-- **exclusion for the text**: with default `max_significant_digits` and `PositionalFits`, the text is laid out from
all generated digits — nothing is cut off by the 232-byte window (finding C07-generic-radix-positional-truncation is
exactly the failure of `PositionalFits`) -/
theorem layout_keeps_all_digits (fmt : Format) (feats : Features) (o : WOpts) (ho : o.maxDigits = none) (r : Nat)
    (g : Gen) (hfit : PositionalFits g) : layoutText fmt feats o r g = layoutAll fmt feats o g := by
  unfold PositionalFits maxDigitLength at hfit
  unfold layoutText layoutAll
  dsimp only
  split
  · unfold sciText
    dsimp only
    rw [truncateAndRound_none _ o ho]
    simp only [Res.bind, Bool.false_eq_true, if_false, Int.add_zero]
    generalize (if sciExpOf g ≤ 0 then ((g.ints.length : Int) - sciExpOf g - 1).toNat else 0) = start
    have : min (g.ints.length + g.fracs.length) (start + maxDigitLength + 1) = g.ints.length + g.fracs.length := by
      unfold maxDigitLength; omega
    rw [this, buf_window]
  · unfold nonsciText
    dsimp only
    rw [truncateAndRound_none _ o ho]
    simp only [Res.bind, Bool.false_eq_true, false_and, if_false, Nat.add_zero]
    have : min (g.ints.length + g.fracs.length) (maxDigitLength + 1) - 0 = g.ints.length + g.fracs.length - 0 := by
      unfold maxDigitLength; omega
    have hw := buf_window g 0
    rw [List.drop_zero, List.drop_zero] at hw
    rw [this, hw]

end LexVerif.Proof.WriteRadixMid
