import LexVerif.Proof.SlowBigint
import LexVerif.Proof.SlowMantissa
/-!
# Proof.SlowTables — the table facts `Bigint::pow` needs (`BigPowOk`), checked by evaluation

`bigPowOkB E base` is a Boolean check of: `split_radix(base) = (odd, shift)` with `odd·2^shift = base`; for `odd`:
the large power (when the build has one) denotes `odd^step`, fits the big integer and `step > 0`; `u64_power_limit(odd) > 0`
with `odd^limit < 2^64`; every entry of the small integer power table below the limit is the power.
`bigPowOk_of_check` turns it into the `BigPowOk` the theorems use; the instances are evaluated by the kernel for the
builds `default`, `compact`, `radix`, `compact+radix` and every base the slow path raises to a power
(`radix`, `radix/2`, `2` for the radices with a digit limit).
-/
namespace LexVerif.Proof.Slow
open LexVerif.Spec LexVerif.Spec.PowerTables LexVerif.Proof.Tables LexVerif.Model LexVerif.Model.Slow

def largeEntryB (cap : Nat) (Y : Array Nat) (V : Nat) : Bool :=
  decide (limbsVal 64 Y.toList = V) && decide (Y.size ≤ cap) && (decide (Y.size ≠ 1) || decide (Y[0]! = V))

theorem largeEntry_of_check {cap : Nat} {Y : Array Nat} {V : Nat} (h : largeEntryB cap Y V = true) :
    LargeEntry cap Y V := by
  unfold largeEntryB at h
  simp only [Bool.and_eq_true, Bool.or_eq_true, decide_eq_true_eq] at h
  exact ⟨h.1.1, h.1.2, fun h1 => by rcases h.2 with h2 | h2; exact absurd h1 h2; exact h2⟩

def powOkB (E : Env) (cap base : Nat) : Bool :=
  decide (0 < base) &&
  (!E.L.hasLarge || (decide (0 < E.L.largeStep base) &&
    largeEntryB cap (E.L.largeLimbs base) (base ^ E.L.largeStep base))) &&
  decide (0 < E.S.u64PowerLimit base) && decide (base ^ E.S.u64PowerLimit base < 2 ^ 64) &&
  (List.range (E.S.u64PowerLimit base)).all fun e => decide (intPowFastPath E e base = some (base ^ e))

theorem powOk_of_check {E : Env} {cap base : Nat} (h : powOkB E cap base = true) : PowOk E cap base := by
  unfold powOkB at h
  simp only [Bool.and_eq_true, Bool.or_eq_true, decide_eq_true_eq, Bool.not_eq_true', List.all_eq_true,
    List.mem_range] at h
  obtain ⟨⟨⟨⟨h1, h2⟩, h3⟩, h4⟩, h5⟩ := h
  refine ⟨h1, ?_, h3, h4, h5⟩
  intro hl
  rcases h2 with h2 | h2
  · rw [hl] at h2; exact absurd h2 (by decide)
  · exact ⟨h2.1, largeEntry_of_check h2.2⟩

def bigPowOkB (E : Env) (base : Nat) : Bool :=
  decide ((if (E.L.splitRadix base).1 = 0 then 1 else (E.L.splitRadix base).1) * 2 ^ (E.L.splitRadix base).2 = base) &&
  (decide ((E.L.splitRadix base).1 = 0) || powOkB E E.L.bigintLimbs (E.L.splitRadix base).1) &&
  decide ((E.L.splitRadix base).2 ≤ 5)

theorem bigPowOk_of_check {E : Env} {base : Nat} (h : bigPowOkB E base = true) : BigPowOk E base := by
  unfold bigPowOkB at h
  simp only [Bool.and_eq_true, Bool.or_eq_true, decide_eq_true_eq] at h
  obtain ⟨⟨h1, h2⟩, h3⟩ := h
  refine ⟨h1, ?_, h3⟩
  intro ho
  rcases h2 with h2 | h2
  · exact absurd h2 ho
  · exact powOk_of_check h2

/-! ## the builds -/

def envDefault : Env := envOf {}
def envCompact : Env := envOf { compact := true }
/-- `power-of-two` without `radix`: the small tables of the radix build, the decimal big-integer sizes -/
def envPow2 : Env := envOf { powerOfTwo := true }
def envRadix : Env := envOf { radix := true, powerOfTwo := true }
def envCompactRadix : Env := envOf { compact := true, radix := true, powerOfTwo := true }

/-- the radices `slow_radix` sends to `digit_comp` (those with a digit limit) -/
def digitRadices : List Nat := [6, 10, 12, 14, 18, 20, 22, 24, 26, 28, 30, 34, 36]

/-- the bases raised to a power for the radix `r`: `r` itself, `r/2`, `2` -/
def powBases (r : Nat) : List Nat := [r, r / 2, 2]

theorem pow_tables_default : (powBases 10).all (bigPowOkB envDefault) = true := by decide +kernel
theorem pow_tables_compact : (powBases 10).all (bigPowOkB envCompact) = true := by decide +kernel
theorem pow_tables_pow2 : (powBases 10).all (bigPowOkB envPow2) = true := by decide +kernel
theorem pow_tables_radix : digitRadices.all (fun r => (powBases r).all (bigPowOkB envRadix)) = true := by
  decide +kernel
theorem pow_tables_compact_radix :
    digitRadices.all (fun r => (powBases r).all (bigPowOkB envCompactRadix)) = true := by decide +kernel

/-- a build together with a radix it parses through `digit_comp` -/
def EnvRadix (E : Env) (r : Nat) : Prop :=
  ((E = envDefault ∨ E = envCompact ∨ E = envPow2) ∧ r = 10) ∨ ((E = envRadix ∨ E = envCompactRadix) ∧ r ∈ digitRadices)

/-- for such a pair the three bases are covered by the evaluated checks -/
theorem bigPowOk_of_envRadix {E : Env} {r : Nat} (h : EnvRadix E r) :
    BigPowOk E r ∧ BigPowOk E (r / 2) ∧ BigPowOk E 2 := by
  have key : ∀ E, (powBases r).all (bigPowOkB E) = true → BigPowOk E r ∧ BigPowOk E (r / 2) ∧ BigPowOk E 2 := by
    intro E hc
    unfold powBases at hc
    simp only [List.all_cons, List.all_nil, Bool.and_true, Bool.and_eq_true] at hc
    exact ⟨bigPowOk_of_check hc.1, bigPowOk_of_check hc.2.1, bigPowOk_of_check hc.2.2⟩
  rcases h with ⟨hE | hE | hE, hr⟩ | ⟨hE | hE, hr⟩
  · subst hE; subst hr; exact key _ pow_tables_default
  · subst hE; subst hr; exact key _ pow_tables_compact
  · subst hE; subst hr; exact key _ pow_tables_pow2
  · subst hE; exact key _ ((List.all_eq_true.mp pow_tables_radix) r hr)
  · subst hE; exact key _ ((List.all_eq_true.mp pow_tables_compact_radix) r hr)

/-! ## `parse_mantissa` tables -/

def mantOkB (E : Env) (radix : Nat) : Bool :=
  decide (0 < radix) && decide (0 < E.S.u64PowerLimit radix) && decide (radix ^ E.S.u64PowerLimit radix < 2 ^ 64) &&
  (List.range (E.S.u64PowerLimit radix + 1)).all fun e => decide (intPowFastPath E e radix = some (radix ^ e))

theorem mantOk_of_check {E : Env} {radix : Nat} (h : mantOkB E radix = true) : MantOk E radix := by
  unfold mantOkB at h
  simp only [Bool.and_eq_true, decide_eq_true_eq, List.all_eq_true, List.mem_range] at h
  obtain ⟨⟨⟨h1, h2⟩, h3⟩, h4⟩ := h
  refine ⟨h1, h2, h3, fun e he => h4 e (by omega), ?_⟩
  intro hm
  unfold multidigit at hm
  simp only [Bool.and_eq_true, decide_eq_true_eq] at hm
  exact hm.2

/-- `max_digits + 1` digits fit the big integer (so that no capacity check of `parse_mantissa` can fail), for both
float types -/
def mantFitB (E : Env) (radix : Nat) : Bool :=
  [f32, f64].all fun f => match E.S.maxDigits f radix with
    | some d => decide (0 < d) && decide (radix ^ (d + 1) ≤ 2 ^ (64 * E.L.bigintLimbs))
    | none => false

theorem mant_tables_default : (mantOkB envDefault 10 && mantFitB envDefault 10) = true := by decide +kernel
theorem mant_tables_compact : (mantOkB envCompact 10 && mantFitB envCompact 10) = true := by decide +kernel
theorem mant_tables_pow2 : (mantOkB envPow2 10 && mantFitB envPow2 10) = true := by decide +kernel
theorem mant_tables_radix : digitRadices.all (fun r => mantOkB envRadix r && mantFitB envRadix r) = true := by
  decide +kernel
theorem mant_tables_compact_radix :
    digitRadices.all (fun r => mantOkB envCompactRadix r && mantFitB envCompactRadix r) = true := by decide +kernel

theorem mant_of_envRadix {E : Env} {r : Nat} (h : EnvRadix E r) : mantOkB E r = true ∧ mantFitB E r = true := by
  have split : ∀ {a b : Bool}, (a && b) = true → a = true ∧ b = true := by
    intro a b h; simpa using h
  rcases h with ⟨hE | hE | hE, hr⟩ | ⟨hE | hE, hr⟩
  · subst hE; subst hr; exact split mant_tables_default
  · subst hE; subst hr; exact split mant_tables_compact
  · subst hE; subst hr; exact split mant_tables_pow2
  · subst hE; exact split ((List.all_eq_true.mp mant_tables_radix) r hr)
  · subst hE; exact split ((List.all_eq_true.mp mant_tables_compact_radix) r hr)

/-- every build parses radix 10 through `digit_comp` with one of the evaluated table sets -/
theorem envRadix_decimal (feats : Features) : EnvRadix (envOf feats) 10 := by
  obtain ⟨c, p2, r, f, sd⟩ := feats
  have h10 : 10 ∈ digitRadices := by decide
  cases c <;> cases p2 <;> cases r
  · exact Or.inl ⟨Or.inl rfl, rfl⟩
  · exact Or.inr ⟨Or.inl rfl, h10⟩
  · exact Or.inl ⟨Or.inr (Or.inr rfl), rfl⟩
  · exact Or.inr ⟨Or.inl rfl, h10⟩
  · exact Or.inl ⟨Or.inr (Or.inl rfl), rfl⟩
  · exact Or.inr ⟨Or.inr rfl, h10⟩
  · exact Or.inl ⟨Or.inr (Or.inl rfl), rfl⟩
  · exact Or.inr ⟨Or.inr rfl, h10⟩

/-! ## what defines `max_digits` -/

/-- the two facts that make `d = max_digits` a digit limit (`Proof.SlowTruncation`): the largest half-way point between
two floats is below `radix^d`, and so is the numerator `(2q+1)·(radix/2)^(L+1)` of the finest one; for both float types -/
def halfwayB (E : Env) (radix : Nat) : Bool :=
  [f32, f64].all fun f => match E.S.maxDigits f radix with
    | some d => decide (1 ≤ d) &&
        decide (2 ^ (f.p + 1) * 2 ^ (f.maxExpField - 2 - (LexVerif.Proof.RoundNE.L f + 1)) ≤ radix ^ d) &&
        decide (2 ^ (f.p + 1) * (radix / 2) ^ (LexVerif.Proof.RoundNE.L f + 1) ≤ radix ^ d)
    | none => false

theorem halfway_tables_default : halfwayB envDefault 10 = true := by decide +kernel
theorem halfway_tables_compact : halfwayB envCompact 10 = true := by decide +kernel
theorem halfway_tables_pow2 : halfwayB envPow2 10 = true := by decide +kernel
theorem halfway_tables_radix : digitRadices.all (fun r => halfwayB envRadix r) = true := by decide +kernel
theorem halfway_tables_compact_radix : digitRadices.all (fun r => halfwayB envCompactRadix r) = true := by
  decide +kernel

theorem halfway_of_envRadix {E : Env} {r : Nat} (h : EnvRadix E r) : halfwayB E r = true := by
  rcases h with ⟨hE | hE | hE, hr⟩ | ⟨hE | hE, hr⟩
  · subst hE; subst hr; exact halfway_tables_default
  · subst hE; subst hr; exact halfway_tables_compact
  · subst hE; subst hr; exact halfway_tables_pow2
  · subst hE; exact (List.all_eq_true.mp halfway_tables_radix) r hr
  · subst hE; exact (List.all_eq_true.mp halfway_tables_compact_radix) r hr

end LexVerif.Proof.Slow
