import LexVerif.Proof.ExtRound
/-!
# Proof.BinaryCorrect — `binary` (power-of-two radices) returns `roundNE`

`binary_exact`: whenever the model's `binary` answers with a **valid** extended float, its bit pattern is
`roundNE (mantissa · base^exponent)` — for every mantissa `< 2^64`, every exponent in `±2^28` (the range
`parse_number` saturates to), `lossy` and `many_digits` arbitrary, denormals, the half-way/even logic,
overflow to infinity and underflow to zero included.  (Until /repo commit 6cdda4d this needed the exclusion
`power2 < 32768`: the invalid marker `power2 + INVALID_FP` was returned before any overflow test;
`binary_marker_overflow_regression` keeps the input.)
Mathlib-free.
-/
namespace LexVerif.Proof.BinaryCorrect
open LexVerif.Spec LexVerif.Model LexVerif.Model.Bellerophon LexVerif.Model.Binary
open LexVerif.Proof.RoundNE LexVerif.Proof.ExtRound

/-! ## normalisation -/

theorem clz_norm {M : Nat} (h0 : M ≠ 0) (h64 : M < 2 ^ 64) :
    clz64 M ≤ 63 ∧ 2 ^ 63 ≤ M * 2 ^ clz64 M ∧ M * 2 ^ clz64 M < 2 ^ 64 ∧
    shl64m M (clz64 M) = M * 2 ^ clz64 M := by
  have hmod : M % 2 ^ 64 = M := Nat.mod_eq_of_lt h64
  have hlo := bitlen_lower h0
  have hup := bitlen_upper M
  have hpos := bitlen_pos h0
  have hb64 : bitlen M ≤ 64 := by
    apply Classical.byContradiction; intro hc
    have : 2 ^ 64 ≤ 2 ^ (bitlen M - 1) := Nat.pow_le_pow_right (by decide) (by omega)
    omega
  unfold clz64
  rw [hmod]
  generalize bitlen M = b at *
  have e63 : 2 ^ 63 = 2 ^ (b - 1) * 2 ^ (64 - b) := by rw [← Nat.pow_add]; congr 1; omega
  have e64 : 2 ^ 64 = 2 ^ b * 2 ^ (64 - b) := by rw [← Nat.pow_add]; congr 1; omega
  have hp := Nat.two_pow_pos (64 - b)
  have h1 : 2 ^ 63 ≤ M * 2 ^ (64 - b) := by rw [e63]; exact Nat.mul_le_mul_right _ hlo
  have h2 : M * 2 ^ (64 - b) < 2 ^ 64 := by rw [e64]; exact Nat.mul_lt_mul_of_pos_right hup hp
  refine ⟨by omega, h1, h2, ?_⟩
  unfold shl64m shl64
  rw [Nat.mod_eq_of_lt (show 64 - b < 64 by omega), Nat.mod_eq_of_lt h2]

/-! ## `calculate_power2` without saturation -/

def IsPow2Base (base lg : Nat) : Prop := base = 2 ^ lg ∧ 1 ≤ lg ∧ lg ≤ 5 ∧ log2Radix base = (lg : Int)

theorem isPow2Base_of (base : Nat) (h : base = 2 ∨ base = 4 ∨ base = 8 ∨ base = 16 ∨ base = 32) :
    ∃ lg, IsPow2Base base lg := by
  rcases h with h | h | h | h | h <;> subst h
  · exact ⟨1, by unfold IsPow2Base; decide⟩
  · exact ⟨2, by unfold IsPow2Base; decide⟩
  · exact ⟨3, by unfold IsPow2Base; decide⟩
  · exact ⟨4, by unfold IsPow2Base; decide⟩
  · exact ⟨5, by unfold IsPow2Base; decide⟩

theorem calculatePower2_eq {F p eb} (lay : Layout F p eb) {base lg : Nat} (hb : IsPow2Base base lg)
    (e : Int) (he1 : -(2 ^ 27 : Int) ≤ e) (he2 : e ≤ (2 ^ 27 : Int)) (c : Nat) (hc : c ≤ 64) :
    calculatePower2 F base e c = (lg : Int) * e + F.C.exponentBias - c := by
  obtain ⟨_, hl1, hl5, hlog⟩ := hb
  have hB : F.C.exponentBias = ((2 ^ (eb - 1) - 1 + (p - 1) : Nat) : Int) := lay.bias
  have hBlt : 2 ^ (eb - 1) - 1 + (p - 1) ≤ 32768 + 64 := by
    have h1 : 2 ^ (eb - 1) ≤ 2 ^ 15 := Nat.pow_le_pow_right (by decide) (by have := lay.heb16; omega)
    have := lay.hp64
    omega
  have hlim : litPower2Limit = 1073741823 := by decide
  unfold calculatePower2 satMulI64 wrapI64 wrapI
  rw [hlim]
  rw [hlog]
  generalize F.C.exponentBias = B at *
  generalize 2 ^ (eb - 1) - 1 + (p - 1) = Bn at *
  subst hB
  have h28 : (2 : Int) ^ 27 = 134217728 := by decide
  have h63 : (2 : Int) ^ 63 = 9223372036854775808 := by decide
  have h64 : (2 : Int) ^ 64 = 18446744073709551616 := by decide
  have h64n : (2 : Nat) ^ 64 = 18446744073709551616 := by decide
  rw [h28] at he1 he2
  simp only [h63, h64, show (64 - 1 : Nat) = 63 by rfl]
  -- the product lg * e
  have hmul1 : (lg : Int) * e ≤ 5 * 134217728 := by
    calc (lg : Int) * e ≤ (lg : Int) * 134217728 := Int.mul_le_mul_of_nonneg_left he2 (by omega)
      _ ≤ 5 * 134217728 := Int.mul_le_mul_of_nonneg_right (by omega) (by decide)
  have hmul2 : -(5 * 134217728) ≤ (lg : Int) * e := by
    have : (lg : Int) * (-134217728) ≤ (lg : Int) * e := Int.mul_le_mul_of_nonneg_left he1 (by omega)
    have h2 : (5 : Int) * (-134217728) ≤ (lg : Int) * (-134217728) :=
      Int.mul_le_mul_of_nonpos_right (by omega) (by decide)
    omega
  rw [Int.mul_comm e]
  generalize (lg : Int) * e = P at *
  omega

/-! ## the value of a normalised significand at a binary exponent -/

theorem pow_pow2 (lg n : Nat) : (2 ^ lg) ^ n = 2 ^ (lg * n) := (Nat.pow_mul 2 lg n).symm

theorem L_eq {F p eb} (lay : Layout F p eb) : L F.fmt = 2 ^ (eb - 1) - 1 + (p - 1) - 1 := by
  unfold L Fmt.bias; rw [lay.fmt]

/-- bounds on the truncated quotient in the two regimes of `shiftOf` -/
theorem quot_bounds {p : Nat} (hp : 2 ≤ p) (hp64 : p ≤ 62) {mant : Nat} (hm1 : 2 ^ 63 ≤ mant)
    (hm2 : mant < 2 ^ 64) (power2 : Int) (hp2 : -power2 + 1 ≤ 64) :
    (0 < (power2 + 64 - p - 1).toNat →
        shiftOf p power2 = 64 - p ∧ 2 ^ (p - 1) ≤ mant / 2 ^ shiftOf p power2 ∧
        2 ^ shiftOf p power2 * 2 ^ (p - 1) ≤ mant) ∧
    mant / 2 ^ shiftOf p power2 < 2 * 2 ^ (p - 1) ∧ 0 < shiftOf p power2 ∧ shiftOf p power2 ≤ 64 ∧
    ((shiftOf p power2 : Int) + (power2 - 1) = ((power2 + 64 - p - 1).toNat : Int)) := by
  have hS : 2 ^ 64 = 2 ^ (64 - p) * (2 * 2 ^ (p - 1)) := by
    rw [← Nat.pow_succ', ← Nat.pow_add]; congr 1; omega
  have hS63 : 2 ^ 63 = 2 ^ (64 - p) * 2 ^ (p - 1) := by
    rw [← Nat.pow_add]; congr 1; omega
  unfold shiftOf
  by_cases hden : -power2 ≥ 64 - (p : Int)
  · rw [if_pos hden]
    refine ⟨fun h => by omega, ?_, by omega, by omega, by omega⟩
    have : mant / 2 ^ (-power2 + 1).toNat < 2 ^ (p - 1) := by
      rw [Nat.div_lt_iff_lt_mul (Nat.two_pow_pos _), ← Nat.pow_add]
      exact Nat.lt_of_lt_of_le hm2 (Nat.pow_le_pow_right (by decide) (by omega))
    have := Nat.two_pow_pos (p - 1)
    omega
  · rw [if_neg hden]
    refine ⟨fun _ => ⟨rfl, ?_, ?_⟩, ?_, by omega, by omega, by omega⟩
    · rw [Nat.le_div_iff_mul_le (Nat.two_pow_pos _), Nat.mul_comm, ← hS63]; exact hm1
    · rw [← hS63]; exact hm1
    · rw [Nat.div_lt_iff_lt_mul (Nat.two_pow_pos _), Nat.mul_comm, ← hS]; exact hm2

/-- **value lemma**: `M·(2^lg)^e` with `M·2^c` normalised, `power2 = lg·e + EXPONENT_BIAS − c`,
not below the underflow cut: `roundNE` is the encoding of the half-to-even quotient by `2^shift`. -/
theorem roundNE_norm {F p eb} (lay : Layout F p eb) (lg M c : Nat) (e : Int)
    (hm1 : 2 ^ 63 ≤ M * 2 ^ c) (hm2 : M * 2 ^ c < 2 ^ 64) (hc : c ≤ 63)
    (power2 : Int) (hpw : power2 = (lg : Int) * e + F.C.exponentBias - c) (hp2 : -power2 + 1 ≤ 64) :
    roundNE F.fmt (powFrac (2 ^ lg) e M).1 (powFrac (2 ^ lg) e M).2 =
      encode F.fmt (power2 + 64 - p - 1).toNat (rhe (M * 2 ^ c) (2 ^ shiftOf p power2)) := by
  have hf := lay.wf
  have hp := lay.hp; have hp64 := lay.hp64; have heb := lay.heb
  have hfp : F.fmt.p = p := by rw [lay.fmt]
  have hL := L_eq lay
  have hLge := lay.hL
  have hB := lay.bias
  obtain ⟨qa, qb, qc, qd, qe⟩ := quot_bounds hp (by omega) hm1 hm2 power2 hp2
  generalize hk : (power2 + 64 - (p : Int) - 1).toNat = k at *
  generalize hs : shiftOf p power2 = s at *
  have hg := rhe_ge (M * 2 ^ c) (2 ^ s)
  -- the key exponent identity: s + (power2 - 1) = k, power2 - 1 = lg*e + L - c
  have hkey : (s : Int) + ((lg : Int) * e + (L F.fmt : Int) - c) = (k : Int) := by
    rw [hL]; rw [hpw, hB] at qe; omega
  unfold powFrac
  by_cases he : e ≥ 0
  · rw [if_pos he]
    obtain ⟨en, hen⟩ : ∃ en : Nat, e = (en : Int) := ⟨e.toNat, by omega⟩
    subst hen
    simp only [Int.toNat_natCast]
    rw [pow_pow2]
    have hkey' : s + (lg * en + L F.fmt - c) = k := by
      have : ((lg * en : Nat) : Int) = (lg : Int) * (en : Int) := by push_cast; rfl
      omega
    have hγ : c ≤ lg * en + L F.fmt := by omega
    apply roundNE_of_scaled hf (by decide) k (M * 2 ^ c) (2 ^ s) (2 ^ (lg * en + L F.fmt - c))
      (Nat.two_pow_pos _) (Nat.two_pow_pos _)
    · rw [Nat.mul_assoc, Nat.mul_assoc, ← Nat.pow_add, ← Nat.pow_add]; congr 2; omega
    · rw [Nat.one_mul, ← Nat.pow_add, hkey']
    · intro h0; rw [hfp]; exact Nat.le_trans (qa h0).2.1 hg.1
    · rw [hfp]; omega
    · intro h0; rw [hfp]; exact (qa h0).2.2
  · rw [if_neg he]
    obtain ⟨en, hen⟩ : ∃ en : Nat, -e = (en : Int) := ⟨(-e).toNat, by omega⟩
    have he' : e = -(en : Int) := by omega
    subst he'
    simp only [Int.neg_neg, Int.toNat_natCast]
    rw [pow_pow2]
    have hkey' : s + (L F.fmt - c) = lg * en + k := by
      have : ((lg * en : Nat) : Int) = (lg : Int) * (en : Int) := by push_cast; rfl
      have h2 : (lg : Int) * -(en : Int) = -((lg : Int) * (en : Int)) := Int.mul_neg _ _
      omega
    apply roundNE_of_scaled hf (Nat.ne_of_gt (Nat.two_pow_pos _)) k (M * 2 ^ c) (2 ^ s) (2 ^ (L F.fmt - c))
      (Nat.two_pow_pos _) (Nat.two_pow_pos _)
    · rw [Nat.mul_assoc, ← Nat.pow_add]; congr 2; omega
    · rw [← Nat.pow_add, ← Nat.pow_add, hkey']
    · intro h0; rw [hfp]; exact Nat.le_trans (qa h0).2.1 hg.1
    · rw [hfp]; omega
    · intro h0; rw [hfp]; exact (qa h0).2.2

/-- a value below half the least subnormal rounds to zero -/
theorem roundNE_tiny {f : Fmt} (hf : WF f) {num den : Nat} (hd : den ≠ 0)
    (h : 2 * (num * 2 ^ L f) < den) : roundNE f num den = 0 := by
  have := roundNE_of_q0 (num := num) hf hd 0 0 (fun h => absurd h (Nat.lt_irrefl 0)) (Nat.zero_le _)
    (by omega) (by omega) (fun _ => rfl) (fun _ => rfl) (fun h => absurd h (Nat.lt_irrefl 0))
  rw [this]
  unfold encode
  have := infBits_pos hf
  rw [Nat.zero_mul, Nat.add_zero, if_neg (by omega)]

/-- **underflow cut** of `binary`: `-power2 + 1 > 64` -/
theorem roundNE_norm_zero {F p eb} (lay : Layout F p eb) (lg M c : Nat) (e : Int)
    (hm2 : M * 2 ^ c < 2 ^ 64) (hc : c ≤ 63)
    (power2 : Int) (hpw : power2 = (lg : Int) * e + F.C.exponentBias - c) (hp2 : -power2 + 1 > 64) :
    roundNE F.fmt (powFrac (2 ^ lg) e M).1 (powFrac (2 ^ lg) e M).2 = 0 := by
  have hf := lay.wf
  have hL := L_eq lay
  have hLge := lay.hL
  have hB := lay.bias
  have hneg : ¬ e ≥ 0 := by
    intro he
    have : 0 ≤ (lg : Int) * e := Int.mul_nonneg (by omega) he
    rw [hB] at hpw; omega
  unfold powFrac
  rw [if_neg hneg]
  obtain ⟨en, hen⟩ : ∃ en : Nat, -e = (en : Int) := ⟨(-e).toNat, by omega⟩
  have he' : e = -(en : Int) := by omega
  subst he'
  simp only [Int.neg_neg, Int.toNat_natCast]
  rw [pow_pow2]
  apply roundNE_tiny hf (Nat.ne_of_gt (Nat.two_pow_pos _))
  -- 2·M·2^L < 2^(65 - c + L) ≤ 2^(lg·en)
  have h2 : (lg : Int) * -(en : Int) = -((lg : Int) * (en : Int)) := Int.mul_neg _ _
  have hcast : ((lg * en : Nat) : Int) = (lg : Int) * (en : Int) := by push_cast; rfl
  have hexp : 65 + (L F.fmt - c) ≤ lg * en := by
    rw [hL]; rw [hB, h2] at hpw; omega
  have hM : M * 2 ^ c * 2 ^ (L F.fmt - c) < 2 ^ 64 * 2 ^ (L F.fmt - c) :=
    Nat.mul_lt_mul_of_pos_right hm2 (Nat.two_pow_pos _)
  have e1 : M * 2 ^ c * 2 ^ (L F.fmt - c) = M * 2 ^ L F.fmt := by
    rw [Nat.mul_assoc, ← Nat.pow_add]; congr 2; omega
  have e2 : 2 * (2 ^ 64 * 2 ^ (L F.fmt - c)) = 2 ^ (65 + (L F.fmt - c)) := by
    rw [← Nat.pow_add, ← Nat.pow_succ']; congr 1; omega
  have h3 : 2 ^ (65 + (L F.fmt - c)) ≤ 2 ^ (lg * en) := Nat.pow_le_pow_right (by decide) hexp
  rw [e1] at hM
  omega

/-! ## `binary` -/

/-- the increment `binary` computes is the half-to-even increment -/
theorem binary_up (mant shift : Nat) (hs0 : 0 < shift) (hs : shift ≤ 64) (hm : mant < 2 ^ 64) :
    let isEven := if shift = 64 then true else decide (mant / 2 ^ (shift % 64) % 2 = 0)
    let truncatedBits := if shift = 64 then mant else mant % 2 ^ (shift % 64)
    let isHalfway := decide (truncatedBits = lowerNHalfway shift)
    let isAbove := decide (truncatedBits > lowerNHalfway shift)
    mant / 2 ^ shift + upOf mant shift (fun _ _ _ => isAbove || (!isEven && isHalfway)) =
      rhe mant (2 ^ shift) := by
  intro isEven truncatedBits isHalfway isAbove
  rw [rhe_pow2 mant shift hs0]
  congr 1
  unfold upOf
  have hh := lowerNHalfway_eq hs0 hs
  have htb : truncatedBits = mant % 2 ^ shift := by
    show (if shift = 64 then mant else mant % 2 ^ (shift % 64)) = _
    split
    · subst_vars; rw [Nat.mod_eq_of_lt hm]
    · rw [Nat.mod_eq_of_lt (show shift < 64 by omega)]
  have hev : isEven = decide (mant / 2 ^ shift % 2 = 0) := by
    show (if shift = 64 then true else decide (mant / 2 ^ (shift % 64) % 2 = 0)) = _
    split
    · subst_vars; rw [Nat.div_eq_of_lt hm]; rfl
    · rw [Nat.mod_eq_of_lt (show shift < 64 by omega)]
  have e1 : isAbove = decide (mant % 2 ^ shift > 2 ^ (shift - 1)) := by
    show decide (truncatedBits > lowerNHalfway shift) = _
    rw [htb, hh]
  have e2 : isHalfway = decide (mant % 2 ^ shift = 2 ^ (shift - 1)) := by
    show decide (truncatedBits = lowerNHalfway shift) = _
    rw [htb, hh]
  rw [e1, e2, hev]
  generalize mant % 2 ^ shift = t
  generalize mant / 2 ^ shift = a
  generalize 2 ^ (shift - 1) = h
  by_cases c1 : t > h <;> by_cases c2 : t = h <;> by_cases c3 : a % 2 = 0 <;>
    simp [c1, c2, c3] <;> omega

theorem ext_zero {F p eb} (lay : Layout F p eb) : extendedToFloat F ⟨0, 0⟩ = 0 := by
  have := ext_of_fields F (p - 1) (p + eb) lay.msNat (by rw [lay.bits]; rfl) 0 0
    (Nat.two_pow_pos _) (by rw [Nat.zero_mul]; exact Nat.two_pow_pos _) lay.hp64
  simpa using this

theorem powFrac_zero (base : Nat) (e : Int) (f : Fmt) :
    roundNE f (powFrac base e 0).1 (powFrac base e 0).2 = 0 := by
  unfold powFrac
  split <;> simp [roundNE_zero]

/-- the "cannot decide" test of `binary` -/
def binUndecided (mantissa shift : Nat) (lossy many : Bool) : Bool :=
  let isEven := if shift = 64 then true else decide (mantissa / 2 ^ (shift % 64) % 2 = 0)
  let truncatedBits := if shift = 64 then mantissa else mantissa % 2 ^ (shift % 64)
  let isHalfway := decide (truncatedBits = lowerNHalfway shift)
  !lossy && isEven && isHalfway && many

/-- the rounding direction `binary` hands to `round_nearest_tie_even` -/
def binRoundUp (mantissa shift : Nat) : Bool :=
  let isEven := if shift = 64 then true else decide (mantissa / 2 ^ (shift % 64) % 2 = 0)
  let truncatedBits := if shift = 64 then mantissa else mantissa % 2 ^ (shift % 64)
  let isHalfway := decide (truncatedBits = lowerNHalfway shift)
  let isAbove := decide (truncatedBits > lowerNHalfway shift)
  isAbove || (!isEven && isHalfway)

theorem binary_eq (F : FTy) (base : Nat) (n : Num) (lossy : Bool) :
    binary F base n lossy =
      if n.mantissa = 0 then .ok ⟨0, 0⟩
      else
        let mantissa := shl64m n.mantissa (clz64 n.mantissa)
        let power2 := calculatePower2 F base n.exponent (clz64 n.mantissa)
        if -power2 + 1 > 64 then .ok ⟨0, 0⟩
        else if power2 ≥ F.C.infinitePower then .ok ⟨0, F.C.infinitePower⟩
        else if binUndecided mantissa (calculateShift F power2).toNat lossy n.manyDigits then
          .ok ⟨mantissa, power2 + invalidFp⟩
        else .ok (round F ⟨mantissa, power2⟩ fun f s =>
          roundNearestTieEven f s fun _ _ _ => binRoundUp mantissa (calculateShift F power2).toNat) := rfl

theorem ext_infinite {F p eb} (lay : Layout F p eb) :
    extendedToFloat F ⟨0, F.C.infinitePower⟩ = F.fmt.infBits := by
  have hT : 0 < 2 ^ (p - 1) := Nat.two_pow_pos _
  have hbits : F.C.bits.toNat = p + eb := by rw [lay.bits]; rfl
  have hTT : 2 ^ p = 2 * 2 ^ (p - 1) := by
    rw [← Nat.pow_succ']; congr 1; have := lay.hp; omega
  have hpow : 2 ^ (p + eb) = 2 ^ eb * (2 * 2 ^ (p - 1)) := by rw [← hTT, ← Nat.pow_add, Nat.add_comm]
  have h1 : (2 ^ eb - 1) * 2 ^ (p - 1) < 2 ^ eb * 2 ^ (p - 1) :=
    Nat.mul_lt_mul_of_pos_right (by have := Nat.two_pow_pos eb; omega) hT
  have h2 : 2 ^ eb * (2 * 2 ^ (p - 1)) = 2 * (2 ^ eb * 2 ^ (p - 1)) := by ac_rfl
  have := ext_of_fields F (p - 1) (p + eb) lay.msNat hbits 0 (2 ^ eb - 1) hT
    (by rw [Nat.add_zero, hpow, h2]; omega) lay.hp64
  rw [lay.infp, this, Nat.add_zero, lay.fmt]; rfl

/-- **overflow cut** of `binary` (/repo commit 6cdda4d): `power2 ≥ INFINITE_POWER` ⇒ the value rounds to `+∞` -/
theorem roundNE_norm_inf {F p eb} (lay : Layout F p eb) (lg M c : Nat) (e : Int)
    (hm1 : 2 ^ 63 ≤ M * 2 ^ c) (hm2 : M * 2 ^ c < 2 ^ 64) (hc : c ≤ 63)
    (power2 : Int) (hpw : power2 = (lg : Int) * e + F.C.exponentBias - c)
    (hinf : power2 ≥ F.C.infinitePower) :
    roundNE F.fmt (powFrac (2 ^ lg) e M).1 (powFrac (2 ^ lg) e M).2 = F.fmt.infBits := by
  have hp := lay.hp; have hp64 := lay.hp64; have heb := lay.heb
  rw [lay.infp] at hinf
  have hMpos : 0 < 2 ^ eb - 1 := by
    have : 2 ^ 2 ≤ 2 ^ eb := Nat.pow_le_pow_right (by decide) heb
    omega
  rw [roundNE_norm lay lg M c e hm1 hm2 hc power2 hpw (by omega)]
  unfold encode
  have hinfB : F.fmt.infBits = (2 ^ eb - 1) * 2 ^ (p - 1) := by rw [lay.fmt]; rfl
  have hfp : F.fmt.p = p := by rw [lay.fmt]
  rw [hinfB, hfp]
  have hk : 2 ^ eb - 1 ≤ (power2 + 64 - (p : Int) - 1).toNat := by omega
  have : (2 ^ eb - 1) * 2 ^ (p - 1) ≤ (power2 + 64 - (p : Int) - 1).toNat * 2 ^ (p - 1) :=
    Nat.mul_le_mul_right _ hk
  rw [if_pos (by omega)]

/-- **`binary` is exact.** A valid answer of the model's `binary` is `roundNE (mantissa · base^exponent)`. -/
theorem binary_exact {F p eb} (lay : Layout F p eb) {base : Nat}
    (hb : base = 2 ∨ base = 4 ∨ base = 8 ∨ base = 16 ∨ base = 32) (n : Num) (lossy : Bool)
    (hm : n.mantissa < 2 ^ 64) (he1 : -(2 ^ 27 : Int) ≤ n.exponent) (he2 : n.exponent ≤ (2 ^ 27 : Int))
    {fp : ExtendedFloat80}
    (h : binary F base n lossy = .ok fp) (hv : 0 ≤ fp.exp) :
    extendedToFloat F fp =
      roundNE F.fmt (powFrac base n.exponent n.mantissa).1 (powFrac base n.exponent n.mantissa).2 := by
  obtain ⟨lg, hlg⟩ := isPow2Base_of base hb
  have hbase : base = 2 ^ lg := hlg.1
  rw [binary_eq] at h
  by_cases h0 : n.mantissa = 0
  · rw [if_pos h0] at h
    injection h with h; subst h
    rw [h0, powFrac_zero, ext_zero lay]
  · rw [if_neg h0] at h
    obtain ⟨hc, hm1, hm2, hshl⟩ := clz_norm h0 hm
    have hpw := calculatePower2_eq lay hlg n.exponent he1 he2 (clz64 n.mantissa) (by omega)
    simp only [hshl] at h
    generalize hP : calculatePower2 F base n.exponent (clz64 n.mantissa) = power2 at *
    generalize hcz : clz64 n.mantissa = c at *
    rw [hbase]
    by_cases hz : -power2 + 1 > 64
    · rw [if_pos hz] at h
      injection h with h; subst h
      rw [roundNE_norm_zero lay lg n.mantissa c n.exponent hm2 hc power2 hpw hz, ext_zero lay]
    · rw [if_neg hz] at h
      have hp2 : -power2 + 1 ≤ 64 := by omega
      by_cases hinf : power2 ≥ F.C.infinitePower
      · rw [if_pos hinf] at h
        injection h with h; subst h
        rw [ext_infinite lay, roundNE_norm_inf lay lg n.mantissa c n.exponent hm1 hm2 hc power2 hpw hinf]
      rw [if_neg hinf] at h
      have hmk : power2 + invalidFp < 0 := by
        have h15 : 2 ^ eb ≤ 2 ^ 15 := Nat.pow_le_pow_right (by decide) lay.heb15
        have : invalidFp = -32768 := rfl
        rw [lay.infp] at hinf
        omega
      rw [calculateShift_eq lay power2] at h
      obtain ⟨_, _, hs0, hs64, _⟩ := quot_bounds lay.hp (by have := lay.hp64; have := lay.heb; omega)
        hm1 hm2 power2 hp2
      by_cases hu : binUndecided (n.mantissa * 2 ^ c) (shiftOf p power2) lossy n.manyDigits = true
      · -- undecided: the marker is negative, so this is not a valid answer
        rw [if_pos hu] at h
        injection h with h; subst h
        exfalso; simp only [] at hv; omega
      · rw [if_neg hu] at h
        injection h with h; subst h
        obtain ⟨_, hbits⟩ := round_bits lay (n.mantissa * 2 ^ c) power2
          (fun _ _ _ => binRoundUp (n.mantissa * 2 ^ c) (shiftOf p power2)) hm1 hm2 hp2
        rw [hbits]
        have hup := binary_up (n.mantissa * 2 ^ c) (shiftOf p power2) hs0 hs64 hm2
        simp only [] at hup
        unfold binRoundUp
        rw [hup]
        exact (roundNE_norm lay lg n.mantissa c n.exponent hm1 hm2 hc power2 hpw hp2).symm

/-- without `many_digits` (or with `lossy`) `binary` always decides -/
theorem binary_valid {F p eb} (lay : Layout F p eb) {base : Nat}
    (hb : base = 2 ∨ base = 4 ∨ base = 8 ∨ base = 16 ∨ base = 32) (n : Num) (lossy : Bool)
    (hm : n.mantissa < 2 ^ 64) (he1 : -(2 ^ 27 : Int) ≤ n.exponent) (he2 : n.exponent ≤ (2 ^ 27 : Int))
    (hdec : n.manyDigits = false ∨ lossy = true) :
    ∃ fp, binary F base n lossy = .ok fp ∧ 0 ≤ fp.exp := by
  obtain ⟨lg, hlg⟩ := isPow2Base_of base hb
  rw [binary_eq]
  by_cases h0 : n.mantissa = 0
  · rw [if_pos h0]; exact ⟨_, rfl, Int.le_refl _⟩
  · rw [if_neg h0]
    obtain ⟨hc, hm1, hm2, hshl⟩ := clz_norm h0 hm
    simp only [hshl]
    generalize hP : calculatePower2 F base n.exponent (clz64 n.mantissa) = power2 at *
    by_cases hz : -power2 + 1 > 64
    · rw [if_pos hz]; exact ⟨_, rfl, Int.le_refl _⟩
    · rw [if_neg hz]
      by_cases hinf : power2 ≥ F.C.infinitePower
      · rw [if_pos hinf]
        exact ⟨_, rfl, by show 0 ≤ F.C.infinitePower; rw [lay.infp]; omega⟩
      rw [if_neg hinf]
      have hu : binUndecided (n.mantissa * 2 ^ clz64 n.mantissa) (calculateShift F power2).toNat lossy
          n.manyDigits = false := by
        unfold binUndecided
        rcases hdec with h | h <;> rw [h] <;> simp
      rw [hu]
      simp only [Bool.false_eq_true, if_false]
      exact ⟨_, rfl, (round_bits lay _ power2 _ hm1 hm2 (by omega)).1⟩

/-- regression example for the defect fixed by /repo commit 6cdda4d: radix 2, the 64-bit mantissa `2^63 + 2^10`
(even, exactly half-way), `many_digits`, exponent 40000, i.e. `power2 = 41075`. Before the fix the "invalid"
marker `41075 − 32768 = 8307` was returned, taken for a valid float by the caller and assembled into
`0x8730000000000400`; now the answer is `+∞`, which is `roundNE` of the exact value (`<<< 40000` = `· 2^40000`). -/
theorem binary_marker_overflow_regression :
    binary FTy.f64 2 ⟨2 ^ 63 + 2 ^ 10, 40000, false, true⟩ false = .ok ⟨0, 2047⟩ ∧
    extendedToFloat FTy.f64 ⟨0, 2047⟩ = 0x7ff0000000000000 ∧
    roundNE f64 ((2 ^ 63 + 2 ^ 10) <<< 40000) 1 = 0x7ff0000000000000 := by
  refine ⟨by decide +kernel, by decide +kernel, by decide +kernel⟩

end LexVerif.Proof.BinaryCorrect
