import LexVerif.Proof.SepGen6
/-!
# Proof.SepGen7 — the complete parser: `strip_preserves` for any separator predicates with consistent re-scan
-/
set_option linter.unusedSimpArgs false
namespace LexVerif.Proof.Sep
open LexVerif LexVerif.Model LexVerif.Spec
open LexVerif.Props.C12

/-- a separator that `peek` returned (did not skip) is not skipped by a second `peek` from where the first one stopped -/
def PeekStable (c : Cfg) (k : Comp) : Prop :=
  ∀ (b b1 : Bytes) (x : Nat), Bytes.Valid b → peek c k b = .ok (some x, b1) → c.isSep x = true →
    peek c k b1 = .ok (some x, b1)

/-- moving the left cursor over separator bytes keeps the correspondence -/
theorem StripRel.skip {c : Cfg} {s : List Nat} {b b' b0 : Bytes} (h : StripRel c s b b') (k : Comp) (v : Option Nat)
    (hv : Bytes.Valid b) (hp : peek c k b = .ok (v, b0)) : StripRel c s b0 b' := by
  have hs := peek_spec c k b b0 v hv hp
  have hk := peek_skips c k b b0 v hp
  obtain ⟨h1, h2, h3, h4, h5, h6⟩ := h
  refine ⟨by rw [hs.1]; exact h1, h2, ?_, by rw [hs.2.1]; exact h4, by rw [hs.2.2.1]; exact h5,
    by rw [hs.2.2.2.1]; exact h6⟩
  have e : b0.index = b.index + (b0.index - b.index) := by have := hs.2.2.2.2.1; omega
  rw [e, nonSep_take_add, ← h1]
  have : nonSep c ((b.slc.drop b.index).take (b0.index - b.index)) = [] := nonSep_of_all_sep c _ hk
  rw [this, h3, h1]; simp

/-- **strip_preserves, general form**: release build of a separator format of class `GenStrip` whose integer and
fraction iterators re-scan their stored slices consistently (`Rescan`) — any of the `peek` variants otherwise —:
an input the complete parser accepts as a number is accepted, as the same number (`NumRel`), after all separator
bytes are deleted. -/
theorem parseFloatSyntax_strip_gen (c : Cfg) (o : POpts) (hG : GenStrip c o) (hresI : Rescan c .integer)
    (hresF : Rescan c .fraction) (hstab : PeekStable c .integer) (s : List Nat) (hb256 : ∀ x ∈ s, x < 256)
    (fv : Bool) (n : Number) (cnt : Nat) (h : parseFloatSyntax c o false s fv = .ok (.number n cnt)) :
    ∃ n', parseFloatSyntax c o false (nonSep c s) fv = .ok (.number n' (nonSep c s).length) ∧ NumRel c n n' ∧
      SlicesOK c n := by
  unfold parseFloatSyntax at h ⊢
  simp only [] at h ⊢
  unfold parseMantissaSign at h ⊢
  cases hps : parseSign c c.noPositiveMantissaSign c.requiredMantissaSign "InvalidPositiveSign" "MissingSign"
      (Bytes.new s) with
  | error e => simp [hps, bind, Except.bind] at h
  | ok r =>
    obtain ⟨neg, b1⟩ := r
    have hb1s : b1.slc = s := parseSign_slc c hG.rel.debug _ _ _ _ _ _ _ hps
    have hv1 : Bytes.Valid b1 := by
      have := parseSign_spec c c.noPositiveMantissaSign c.requiredMantissaSign "InvalidPositiveSign" "MissingSign"
        (Bytes.new s) (by simp [Bytes.Valid, Bytes.new]) hG.rel.debug
      rw [hps] at this
      exact this.2.1
    have hic1 : b1.ic = 0 ∧ b1.fc = 0 := by
      unfold parseSign at hps
      simp only [step_release c hG.rel.debug, bind, Except.bind, pure, Except.pure] at hps
      split at hps
      · split at hps
        · simp only [Except.ok.injEq, Prod.mk.injEq] at hps; rw [← hps.2]; exact ⟨rfl, rfl⟩
        · cases hps
      · simp only [Except.ok.injEq, Prod.mk.injEq] at hps; rw [← hps.2]; exact ⟨rfl, rfl⟩
      · split at hps
        · cases hps
        · simp only [Except.ok.injEq, Prod.mk.injEq] at hps; rw [← hps.2]; exact ⟨rfl, rfl⟩
    simp only [hps, bind, Except.bind] at h
    unfold isConsumed at h
    simp only [hG.format, Bool.not_true, Bool.false_eq_true, if_false, bind, Except.bind] at h
    cases hp : peek c .integer b1 with
    | error e => simp [hp] at h
    | ok pr =>
      obtain ⟨v, b0⟩ := pr
      simp only [hp, pure, Except.pure] at h
      have hsp := peek_spec c .integer b1 b0 v hv1 hp
      have hb0s : b0.slc = s := by rw [hsp.1]; exact hb1s
      have hv0 : b0.index ≤ s.length := by have := hsp.2.2.2.2.2.1; unfold Bytes.Valid at this; rw [hb0s] at this; exact this
      -- the left run is not at the end of the input, and its complete number parse succeeds
      cases hvn : v with
      | none =>
        simp only [hvn, Option.isNone_none, if_true] at h
        split at h <;> simp [pure, Except.pure] at h
      | some x =>
        simp only [hvn, Option.isNone_some, Bool.false_eq_true, if_false] at h
        have hcn : parseCompleteNumber c o b0 neg fv = .ok n := by
          cases hcn : parseCompleteNumber c o b0 neg fv with
          | ok n0 =>
            simp only [hcn, Except.ok.injEq, Parsed.number.injEq] at h
            rw [h.1]
          | error e =>
            exfalso
            simp only [hcn] at h
            cases e with
            | err k i =>
              simp only at h
              cases hsp2 : parseSpecialComplete c o b0 with
              | error e2 => simp [hsp2] at h
              | ok sp =>
                cases sp with
                | none => simp [hsp2] at h
                | some y => simp [hsp2] at h
            | panic t => simp at h
            | fault t => simp at h
        unfold parseCompleteNumber at hcn
        cases hpn : parseNumber c false o b0 neg fv with
        | error e => simp [hpn, bind, Except.bind] at hcn
        | ok rn =>
          obtain ⟨nn, count⟩ := rn
          simp only [hpn, bind, Except.bind] at hcn
          split at hcn
          · next hfull =>
            simp only [pure, Except.pure, Except.ok.injEq] at hcn
            subst hcn
            have hlen : count = s.length := by
              simp only [Bytes.bufferLength] at hfull; rw [← hb0s]; exact hfull
            have hx0 : s[b0.index]? = some x := by rw [← hb0s, ← hvn]; exact hsp.2.2.2.2.2.2.symm
            have hr0 := stripRel_new c s
            rcases parseSign_strip_g c hG.rel.debug hG.sepPlus hG.sepMinus s _ _ _ _ _ _ hr0 (neg, b1) hps with
              ⟨r', h1, h2, h3, h4⟩ | ⟨h1, y, hy, hsg⟩
            · -- both runs handle the sign alike
              obtain ⟨neg', b1'⟩ := r'
              simp only at h2 h3 h4
              subst h2
              have hr00 : StripRel c s b0 b1' := h3.skip .integer v hv1 hp
              obtain ⟨n', hn', hrel, hsok⟩ := number_strip_gen c o hG hresI hresF s hb256 b0 b1' hr00 hv0
                (by rw [hsp.2.1]; exact hic1.1) (by rw [hsp.2.2.1]; exact hic1.2)
                (Or.inr (by
                  intro x' hx' hcs
                  rw [hx0] at hx'; cases hx'
                  exact hstab b1 b0 x hv1 (by rw [hp, hvn]) hcs))
                false neg' fv nn count hpn hlen
              -- the stripped run is not at the end either
              have hn1' : NoSep c b1'.slc := by rw [h3.2.1]; exact nonSep_noSep c s
              have hnonempty : (b1'.slc[b1'.index]?).isNone = false := by
                cases hq : b1'.slc[b1'.index]? with
                | some z => rfl
                | none =>
                  exfalso
                  -- then `parse_number` over the stripped input starts at its end: no digits, no mantissa
                  obtain ⟨dsI, eI, fp, ep, hRI, _, _, hFL, hm, _⟩ := parseNumber_left c o hG b1'
                    (by unfold Bytes.Valid
                        have := List.getElem?_eq_none_iff.mp hq
                        have h5 := hr00.2.2.1
                        have := nonSep_take_length_le c s b0.index
                        rw [h3.2.1] at *
                        omega)
                    false neg' fv n' _ hn'
                  have hend : b1'.slc.length ≤ b1'.index := List.getElem?_eq_none_iff.mp hq
                  have hle := hRI.le
                  have hvl := hRI.valid
                  have hds : dsI.length = 0 := by
                    have hy2 := map_some_length hRI.yields
                    have : (slice b1'.slc b1'.index eI.index) = [] := by
                      apply List.eq_nil_of_length_eq_zero
                      rw [slice_length _ _ _ hvl]; omega
                    rw [this] at hy2; simp [nonSep] at hy2; omega
                  rcases hFL with ⟨rfl, _⟩ | ⟨dsF, eF, hdp, _, _, _, _⟩
                  · simp [hds] at hm
                  · have := (List.getElem?_eq_some_iff.mp hdp).1
                    omega
              rw [h1]
              simp only [bind, Except.bind]
              unfold isConsumed
              simp only [hG.format, Bool.not_true, Bool.false_eq_true, if_false, bind, Except.bind,
                peek_nosep c .integer b1' hn1' (hG.rel.reach _), pure, Except.pure, hnonempty]
              unfold parseCompleteNumber
              simp only [hn', bind, Except.bind, Bytes.bufferLength, h3.2.1, if_true, pure, Except.pure]
              exact ⟨n', rfl, hrel, hsok⟩
            · -- the left run stands on a separator and a sign follows: it finds no mantissa digit
              exfalso
              simp only at h1
              subst h1
              obtain ⟨dsI, eI, fp, ep, hRI, _, _, hFL, hm, _, _, _, heI, _, _, _, _, hNI⟩ :=
                parseNumber_left2 c o hG s b0 hb0s hv0 false neg fv nn count hpn hlen
              -- the first non-separator byte from `b0` on is the sign
              have hhead : (nonSep c (s.drop b0.index)).head? = some y := by
                have hk := peek_skips c .integer (Bytes.new s) b0 v hp
                simp only [new_slc, new_index] at hk hy
                have := drop_slice_append s 0 b0.index (Nat.zero_le _)
                simp only [List.drop_zero] at this hy
                have h2 : nonSep c s = nonSep c (slice s 0 b0.index ++ s.drop b0.index) := congrArg (nonSep c) this
                rw [h2, nonSep_append, nonSep_of_all_sep c _ hk, List.nil_append] at hy
                exact hy
              rw [drop_slice_append s b0.index eI.index hRI.le, nonSep_append] at hhead
              have hyl := hRI.yields
              rw [hb0s] at hyl
              have hsgn := charToDigit_sign c.mantissaRadix hG.radixM
              have hyd : charToDigit y c.mantissaRadix = none := by rcases hsg with rfl | rfl; exact hsgn.1; exact hsgn.2
              have hnil : nonSep c (slice s b0.index eI.index) = [] := by
                cases hl : nonSep c (slice s b0.index eI.index) with
                | nil => rfl
                | cons z zs =>
                  rw [hl] at hhead hyl
                  simp only [List.cons_append, List.head?_cons, Option.some.injEq] at hhead
                  subst hhead
                  cases dsI with
                  | nil => simp at hyl
                  | cons d ds' =>
                    simp only [List.map_cons, List.cons.injEq] at hyl
                    rw [hyd] at hyl; cases hyl.1
              have hds : dsI.length = 0 := by
                rw [hnil] at hyl
                cases dsI with
                | nil => rfl
                | cons d ds' => simp at hyl
              rw [hnil, List.nil_append] at hhead
              rcases hFL with ⟨rfl, _⟩ | ⟨dsF, eF, hdp, _, _, _, _⟩
              · simp [hds] at hm
              · rw [hb0s] at hdp
                rw [drop_of_get hdp, nonSep_cons_non c _ _ hG.sepDp] at hhead
                simp only [List.head?_cons, Option.some.injEq] at hhead
                rcases hsg with rfl | rfl
                · exact hG.dpSign.1 hhead
                · exact hG.dpSign.2 hhead
          · cases hcn

end LexVerif.Proof.Sep
