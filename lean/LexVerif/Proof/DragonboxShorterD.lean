import LexVerif.Proof.DragonboxSpec
/-! `compute_nearest_shorter` (f64): exponent fields 1536 … 2047, every one checked against `Spec.shortest` by the kernel. -/
namespace LexVerif.Proof.DragonboxSpec
open LexVerif.Model.Dragonbox

theorem shorter64_1536_1664 : (expChunk .f64 1536 1664).all (dragonboxOk .f64) = true := by decide +kernel
theorem shorter64_1664_1792 : (expChunk .f64 1664 1792).all (dragonboxOk .f64) = true := by decide +kernel
theorem shorter64_1792_1920 : (expChunk .f64 1792 1920).all (dragonboxOk .f64) = true := by decide +kernel
theorem shorter64_1920_2048 : (expChunk .f64 1920 2048).all (dragonboxOk .f64) = true := by decide +kernel

end LexVerif.Proof.DragonboxSpec
