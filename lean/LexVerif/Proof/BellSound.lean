import LexVerif.Proof.BellError
import LexVerif.Proof.LemireBasics
/-!
# Proof.BellSound — Bellerophon is sound for untruncated mantissas

`bellerophon_untruncated_sound`: for every radix whose tables pass `bellCheck`, every mantissa `< 2^64` without
`many_digits` and every exponent, a **valid** non-lossy answer of the model's `bellerophon` is
`roundNE (w·r^e)`: early exits (zero / infinity cut-offs, table range), the error accounting of the two
multiplications (`scale_bound`), the accuracy decision and the rounding (`bellFinish_sound`).
-/
namespace LexVerif.Proof.Bell
open LexVerif.Spec LexVerif.Model LexVerif.Model.Bellerophon
open LexVerif.Gen.Bellerophon (Powers)
open LexVerif.Proof.RoundNE LexVerif.Proof.ExtRound LexVerif.Proof.BinaryCorrect

theorem ext_inf {F p eb} (lay : Layout F p eb) :
    extendedToFloat F ⟨0, F.C.infinitePower⟩ = F.fmt.infBits := by
  have hT : 0 < 2 ^ (p - 1) := Nat.two_pow_pos _
  have hbits : F.C.bits.toNat = p + eb := by rw [lay.bits]; rfl
  have hTT : 2 ^ p = 2 * 2 ^ (p - 1) := two_pow_pred (by have := lay.hp; omega)
  have hpow : 2 ^ (p + eb) = 2 ^ eb * (2 * 2 ^ (p - 1)) := by rw [← hTT, ← Nat.pow_add, Nat.add_comm]
  have h1 : (2 ^ eb - 1) * 2 ^ (p - 1) < 2 ^ eb * 2 ^ (p - 1) :=
    Nat.mul_lt_mul_of_pos_right (by have := Nat.two_pow_pos eb; omega) hT
  have h2 : 2 ^ eb * (2 * 2 ^ (p - 1)) = 2 * (2 ^ eb * 2 ^ (p - 1)) := by ring
  have := ext_of_fields F (p - 1) (p + eb) lay.msNat hbits 0 (2 ^ eb - 1) hT
    (by rw [Nat.add_zero, hpow, h2]; omega) lay.hp64
  rw [lay.infp, this, Nat.add_zero, lay.fmt]; rfl

/-- values below `r^(−m)·2^64` with `r^m ≥ 2^1140` round to zero -/
theorem tiny_pow {F p eb} (lay : Layout F p eb) {r : Nat} (w m : Nat) (hw : w < 2 ^ 64)
    (hm : 2 ^ 1140 ≤ r ^ m) : roundNE F.fmt w (r ^ m) = 0 := by
  have hf := lay.wf
  have hL : L F.fmt ≤ 1074 := by rw [L_eq lay]; exact lay.hL1074
  apply roundNE_tiny hf (by have := Nat.two_pow_pos 1140; omega)
  have h1 : w * 2 ^ L F.fmt < 2 ^ 64 * 2 ^ L F.fmt := Nat.mul_lt_mul_of_pos_right hw (Nat.two_pow_pos _)
  have h2 : 2 ^ 64 * 2 ^ L F.fmt ≤ 2 ^ 64 * 2 ^ 1074 :=
    Nat.mul_le_mul_left _ (Nat.pow_le_pow_right (by norm_num) hL)
  have h3 : 2 * ((2 : Nat) ^ 64 * 2 ^ 1074) ≤ 2 ^ 1140 := by
    rw [← Nat.pow_add, ← Nat.pow_succ']; exact Nat.pow_le_pow_right (by norm_num) (by norm_num)
  omega

/-- values of at least `2^1024` round to infinity -/
theorem huge_pow {F p eb} (lay : Layout F p eb) (num : Nat) (h : 2 ^ 1024 ≤ num) :
    roundNE F.fmt num 1 = F.fmt.infBits := by
  have hf := lay.wf
  apply LexVerif.Proof.Lemire.roundNE_huge hf Nat.one_pos
  rw [Nat.one_mul]
  have hb0 : F.fmt.bias = 2 ^ (eb - 1) - 1 := by unfold Fmt.bias; rw [lay.fmt]
  have hb : F.fmt.bias + 1 = 2 ^ (eb - 1) := by
    rw [hb0]; have := Nat.two_pow_pos (eb - 1); omega
  rw [hb]
  have : 2 ^ 2 ^ (eb - 1) ≤ 2 ^ 1024 := Nat.pow_le_pow_right (by norm_num) lay.hb1024
  omega

/-- from the rational bound on the scaled value to the cross-multiplied form `bellFinish_sound` wants -/
theorem bridge (Ln num den mant cl ch : Nat) (pw : Int) (hd : 0 < den)
    (h1 : (mant : ℚ) - cl < (num : ℚ) / den * 2 ^ ((Ln : Int) + 1 - pw))
    (h2 : (num : ℚ) / den * 2 ^ ((Ln : Int) + 1 - pw) < (mant : ℚ) + ch) :
    mant * (den * 2 ^ (pw - 1).toNat) < num * 2 ^ Ln * 2 ^ (1 - pw).toNat + cl * (den * 2 ^ (pw - 1).toNat) ∧
    num * 2 ^ Ln * 2 ^ (1 - pw).toNat < (mant + ch) * (den * 2 ^ (pw - 1).toNat) := by
  have hdq : (0 : ℚ) < den := by exact_mod_cast hd
  have hexp : (2 : ℚ) ^ ((Ln : Int) + 1 - pw) = 2 ^ Ln * 2 ^ (1 - pw).toNat / 2 ^ (pw - 1).toNat := by
    have : (Ln : Int) + 1 - pw = (Ln : Int) + (((1 - pw).toNat : Int) - ((pw - 1).toNat : Int)) := by omega
    rw [this, zpow_add₀ (by norm_num), zpow_sub₀ (by norm_num), zpow_natCast, zpow_natCast, zpow_natCast]
    ring
  rw [hexp] at h1 h2
  generalize (1 - pw).toNat = α at *
  generalize (pw - 1).toNat = β at *
  have hU : (0 : ℚ) < (den : ℚ) * 2 ^ β := by positivity
  have e : (num : ℚ) / den * (2 ^ Ln * 2 ^ α / 2 ^ β) = ((num : ℚ) * 2 ^ Ln * 2 ^ α) / ((den : ℚ) * 2 ^ β) := by
    field_simp
  rw [e] at h1 h2
  rw [lt_div_iff₀ hU] at h1
  rw [div_lt_iff₀ hU] at h2
  constructor
  · have : ((mant * (den * 2 ^ β) : Nat) : ℚ) < ((num * 2 ^ Ln * 2 ^ α + cl * (den * 2 ^ β) : Nat) : ℚ) := by
      push_cast; nlinarith
    exact_mod_cast this
  · have : ((num * 2 ^ Ln * 2 ^ α : Nat) : ℚ) < (((mant + ch) * (den * 2 ^ β) : Nat) : ℚ) := by
      push_cast; nlinarith
    exact_mod_cast this

/-- `w·r^e` as a rational, from `powFrac` -/
theorem powFrac_q (r w : Nat) (e : Int) (hr : 0 < r) :
    ((powFrac r e w).1 : ℚ) / (powFrac r e w).2 = (w : ℚ) * (r : ℚ) ^ e ∧ 0 < (powFrac r e w).2 := by
  have hr0 : (r : ℚ) ≠ 0 := by
    have : (0 : ℚ) < r := by exact_mod_cast hr
    exact ne_of_gt this
  unfold powFrac
  by_cases he : e ≥ 0
  · rw [if_pos he]
    obtain ⟨n, rfl⟩ := Int.eq_ofNat_of_zero_le he
    simp only [Int.toNat_natCast]
    refine ⟨?_, Nat.one_pos⟩
    push_cast; rw [zpow_natCast]; ring
  · rw [if_neg he]
    obtain ⟨n, hn⟩ := Int.eq_ofNat_of_zero_le (show 0 ≤ -e by omega)
    have he' : e = -(n : Int) := by omega
    subst he'
    simp only [Int.neg_neg, Int.toNat_natCast]
    refine ⟨?_, Nat.pow_pos hr⟩
    push_cast; rw [zpow_neg, zpow_natCast]; ring

end LexVerif.Proof.Bell
