import LexVerif.Proof.BellError
import LexVerif.Proof.LemireBasics
/-!
# Proof.BellSound — Bellerophon is sound for untruncated mantissas

`bellerophon_untruncated_sound`: for every radix whose tables pass `bellCheck`, every mantissa `< 2^64` without
`many_digits` and every exponent, a **valid** non-lossy answer of the model's `bellerophon` is
`roundNE (w·r^e)`: early exits (zero / infinity cut-offs, table range), the error accounting of the two
multiplications (`scale_bound`), the accuracy decision and the rounding (`bellFinish_sound`).
-/
namespace LexVerif.Proof.Bell
open LexVerif.Spec LexVerif.Model LexVerif.Model.Bellerophon
open LexVerif.Gen.Bellerophon (Powers)
open LexVerif.Proof.RoundNE LexVerif.Proof.ExtRound LexVerif.Proof.BinaryCorrect

theorem ext_inf {F p eb} (lay : Layout F p eb) :
    extendedToFloat F ⟨0, F.C.infinitePower⟩ = F.fmt.infBits := by
  have hT : 0 < 2 ^ (p - 1) := Nat.two_pow_pos _
  have hbits : F.C.bits.toNat = p + eb := by rw [lay.bits]; rfl
  have hTT : 2 ^ p = 2 * 2 ^ (p - 1) := two_pow_pred (by have := lay.hp; omega)
  have hpow : 2 ^ (p + eb) = 2 ^ eb * (2 * 2 ^ (p - 1)) := by rw [← hTT, ← Nat.pow_add, Nat.add_comm]
  have h1 : (2 ^ eb - 1) * 2 ^ (p - 1) < 2 ^ eb * 2 ^ (p - 1) :=
    Nat.mul_lt_mul_of_pos_right (by have := Nat.two_pow_pos eb; omega) hT
  have h2 : 2 ^ eb * (2 * 2 ^ (p - 1)) = 2 * (2 ^ eb * 2 ^ (p - 1)) := by ring
  have := ext_of_fields F (p - 1) (p + eb) lay.msNat hbits 0 (2 ^ eb - 1) hT
    (by rw [Nat.add_zero, hpow, h2]; omega) lay.hp64
  rw [lay.infp, this, Nat.add_zero, lay.fmt]; rfl

/-- values below `r^(−m)·2^64` with `r^m ≥ 2^1140` round to zero -/
theorem tiny_pow {F p eb} (lay : Layout F p eb) {r : Nat} (w m : Nat) (hw : w < 2 ^ 64)
    (hm : 2 ^ 1140 ≤ r ^ m) : roundNE F.fmt w (r ^ m) = 0 := by
  have hf := lay.wf
  have hL : L F.fmt ≤ 1074 := by rw [L_eq lay]; exact lay.hL1074
  apply roundNE_tiny hf (by have := Nat.two_pow_pos 1140; omega)
  have h1 : w * 2 ^ L F.fmt < 2 ^ 64 * 2 ^ L F.fmt := Nat.mul_lt_mul_of_pos_right hw (Nat.two_pow_pos _)
  have h2 : 2 ^ 64 * 2 ^ L F.fmt ≤ 2 ^ 64 * 2 ^ 1074 :=
    Nat.mul_le_mul_left _ (Nat.pow_le_pow_right (by norm_num) hL)
  have h3 : 2 * ((2 : Nat) ^ 64 * 2 ^ 1074) ≤ 2 ^ 1140 := by
    rw [← Nat.pow_add, ← Nat.pow_succ']; exact Nat.pow_le_pow_right (by norm_num) (by norm_num)
  omega

/-- values of at least `2^1024` round to infinity -/
theorem huge_pow {F p eb} (lay : Layout F p eb) (num : Nat) (h : 2 ^ 1024 ≤ num) :
    roundNE F.fmt num 1 = F.fmt.infBits := by
  have hf := lay.wf
  apply LexVerif.Proof.Lemire.roundNE_huge hf Nat.one_pos
  rw [Nat.one_mul]
  have hb0 : F.fmt.bias = 2 ^ (eb - 1) - 1 := by unfold Fmt.bias; rw [lay.fmt]
  have hb : F.fmt.bias + 1 = 2 ^ (eb - 1) := by
    rw [hb0]; have := Nat.two_pow_pos (eb - 1); omega
  rw [hb]
  have : 2 ^ 2 ^ (eb - 1) ≤ 2 ^ 1024 := Nat.pow_le_pow_right (by norm_num) lay.hb1024
  omega

/-- from the rational bound on the scaled value to the cross-multiplied form `bellFinish_sound` wants -/
theorem bridge (Ln num den mant cl ch : Nat) (pw : Int) (hd : 0 < den)
    (h1 : (mant : ℚ) - cl < (num : ℚ) / den * 2 ^ ((Ln : Int) + 1 - pw))
    (h2 : (num : ℚ) / den * 2 ^ ((Ln : Int) + 1 - pw) < (mant : ℚ) + ch) :
    mant * (den * 2 ^ (pw - 1).toNat) < num * 2 ^ Ln * 2 ^ (1 - pw).toNat + cl * (den * 2 ^ (pw - 1).toNat) ∧
    num * 2 ^ Ln * 2 ^ (1 - pw).toNat < (mant + ch) * (den * 2 ^ (pw - 1).toNat) := by
  have hdq : (0 : ℚ) < den := by exact_mod_cast hd
  have hexp : (2 : ℚ) ^ ((Ln : Int) + 1 - pw) = 2 ^ Ln * 2 ^ (1 - pw).toNat / 2 ^ (pw - 1).toNat := by
    have : (Ln : Int) + 1 - pw = (Ln : Int) + (((1 - pw).toNat : Int) - ((pw - 1).toNat : Int)) := by omega
    rw [this, zpow_add₀ (by norm_num), zpow_sub₀ (by norm_num), zpow_natCast, zpow_natCast, zpow_natCast]
    ring
  rw [hexp] at h1 h2
  generalize (1 - pw).toNat = α at *
  generalize (pw - 1).toNat = β at *
  have hU : (0 : ℚ) < (den : ℚ) * 2 ^ β := by positivity
  have e : (num : ℚ) / den * (2 ^ Ln * 2 ^ α / 2 ^ β) = ((num : ℚ) * 2 ^ Ln * 2 ^ α) / ((den : ℚ) * 2 ^ β) := by
    field_simp
  rw [e] at h1 h2
  rw [lt_div_iff₀ hU] at h1
  rw [div_lt_iff₀ hU] at h2
  constructor
  · have : ((mant * (den * 2 ^ β) : Nat) : ℚ) < ((num * 2 ^ Ln * 2 ^ α + cl * (den * 2 ^ β) : Nat) : ℚ) := by
      push_cast; nlinarith
    exact_mod_cast this
  · have : ((num * 2 ^ Ln * 2 ^ α : Nat) : ℚ) < (((mant + ch) * (den * 2 ^ β) : Nat) : ℚ) := by
      push_cast; nlinarith
    exact_mod_cast this

/-- `w·r^e` as a rational, from `powFrac` -/
theorem powFrac_q (r w : Nat) (e : Int) (hr : 0 < r) :
    ((powFrac r e w).1 : ℚ) / (powFrac r e w).2 = (w : ℚ) * (r : ℚ) ^ e ∧ 0 < (powFrac r e w).2 := by
  have hr0 : (r : ℚ) ≠ 0 := by
    have : (0 : ℚ) < r := by exact_mod_cast hr
    exact ne_of_gt this
  unfold powFrac
  by_cases he : e ≥ 0
  · rw [if_pos he]
    obtain ⟨n, rfl⟩ := Int.eq_ofNat_of_zero_le he
    simp only [Int.toNat_natCast]
    refine ⟨?_, Nat.one_pos⟩
    push_cast; rw [zpow_natCast]; ring
  · rw [if_neg he]
    obtain ⟨n, hn⟩ := Int.eq_ofNat_of_zero_le (show 0 ≤ -e by omega)
    have he' : e = -(n : Int) := by omega
    subst he'
    simp only [Int.neg_neg, Int.toNat_natCast]
    refine ⟨?_, Nat.pow_pos hr⟩
    push_cast; rw [zpow_neg, zpow_natCast]; ring

/-- **`bellerophon` is sound for untruncated mantissas.** -/
theorem bellerophon_untruncated_sound {F : FTy} {p eb : Nat} (lay : Layout F p eb) (hp60 : p ≤ 60)
    {r : Nat} {P : Powers} (hc : BellFacts r P) (n : Num) (hmany : n.manyDigits = false)
    (hw : n.mantissa < 2 ^ 64) {fp : ExtendedFloat80}
    (h : bellerophon F P n false = .ok fp) (hv : 0 ≤ fp.exp) :
    extendedToFloat F fp =
      roundNE F.fmt (powFrac r n.exponent n.mantissa).1 (powFrac r n.exponent n.mantissa).2 := by
  have hf := lay.wf
  have hr2 := hc.r2
  have hr0 : 0 < r := by omega
  have hstep := hc.step_pos
  have hbias0 := hc.bias_nn
  have hbias := hc.bias_le
  have hpow_mono : ∀ {a b : Nat}, a ≤ b → r ^ a ≤ r ^ b := fun h => Nat.pow_le_pow_right hr0 h
  have h2r : ∀ m : Nat, 2 ^ m ≤ r ^ m := fun m => Nat.pow_le_pow_left hr2 m
  unfold bellerophon at h
  unfold bellPrepare litExpCut at h
  simp only [] at h
  by_cases h1 : n.mantissa = 0 ∨ n.exponent ≤ -0x1000
  · -- zero
    rw [if_pos h1] at h
    simp only [] at h
    injection h with h; subst h
    rw [ext_zero lay]
    rcases h1 with h0 | he
    · rw [h0, powFrac_zero]
    · unfold powFrac
      rw [if_neg (by omega)]
      symm
      apply tiny_pow lay _ _ hw
      have : 1140 ≤ (-n.exponent).toNat := by omega
      exact Nat.le_trans (Nat.pow_le_pow_right (by norm_num) this) (h2r _)
  · rw [if_neg h1] at h
    have hw0 : n.mantissa ≠ 0 := fun h0 => h1 (Or.inl h0)
    have he1 : -0x1000 < n.exponent := by
      apply Classical.byContradiction; intro hc'; exact h1 (Or.inr (by omega))
    by_cases h2 : n.exponent ≥ 0x1000
    · -- infinity
      rw [if_pos h2] at h
      simp only [] at h
      injection h with h; subst h
      rw [ext_inf lay]
      unfold powFrac
      rw [if_pos (by omega)]
      symm
      apply huge_pow lay
      have h1024 : 1024 ≤ n.exponent.toNat := by omega
      have : 2 ^ 1024 ≤ r ^ n.exponent.toNat :=
        Nat.le_trans (Nat.pow_le_pow_right (by norm_num) h1024) (h2r _)
      have : 1 * r ^ n.exponent.toNat ≤ n.mantissa * r ^ n.exponent.toNat :=
        Nat.mul_le_mul_right _ (by omega)
      omega
    · rw [if_neg h2] at h
      have he2 : n.exponent < 0x1000 := by omega
      -- the biased exponent
      have hE : wrapI32 (wrapI32 n.exponent + P.bias) = n.exponent + P.bias := by
        unfold wrapI32 wrapI
        have h32 : (2 : Int) ^ 32 = 4294967296 := by norm_num
        have h31 : (2 : Int) ^ (32 - 1) = 2147483648 := by norm_num
        simp only [h32, h31]
        omega
      rw [hE] at h
      rw [if_neg (by omega)] at h
      by_cases h3 : n.exponent + P.bias < 0
      · rw [if_pos h3] at h
        simp only [] at h
        injection h with h; subst h
        rw [ext_zero lay]
        unfold powFrac
        rw [if_neg (by omega)]
        symm
        apply tiny_pow lay _ _ hw
        have : P.bias.toNat + 1 ≤ (-n.exponent).toNat := by omega
        exact Nat.le_trans hc.under (hpow_mono this)
      · rw [if_neg h3] at h
        obtain ⟨En, hEn⟩ := Int.eq_ofNat_of_zero_le (show 0 ≤ n.exponent + P.bias by omega)
        obtain ⟨sn, hsn⟩ := Int.eq_ofNat_of_zero_le (show 0 ≤ P.step by omega)
        have hsn0 : 0 < sn := by omega
        rw [hEn, hsn] at h
        have hdiv : (Int.tdiv (En : Int) (sn : Int)).toNat = En / sn := by
          rw [Int.tdiv_eq_ediv_of_nonneg (by omega)]; norm_cast
        have hmod : (Int.tmod (En : Int) (sn : Int)).toNat = En % sn := by
          rw [Int.tmod_eq_emod_of_nonneg (by omega)]; norm_cast
        rw [hdiv, hmod] at h
        by_cases h4 : En / sn ≥ P.large.size
        · rw [if_pos h4] at h
          simp only [] at h
          injection h with h; subst h
          rw [ext_inf lay]
          have hge : P.large.size * sn ≤ En := by
            have := Nat.div_mul_le_self En sn
            have := Nat.mul_le_mul_right sn h4
            omega
          have hsn' : P.step.toNat = sn := by omega
          have hen : P.large.size * sn - P.bias.toNat ≤ n.exponent.toNat := by omega
          have hbsz := hc.bsz
          rw [hsn'] at hbsz
          unfold powFrac
          rw [if_pos (show n.exponent ≥ 0 by omega)]
          symm
          apply huge_pow lay
          have := hc.over
          rw [hsn'] at this
          have h5 := hpow_mono hen
          have : 1 * r ^ n.exponent.toNat ≤ n.mantissa * r ^ n.exponent.toNat :=
            Nat.mul_le_mul_right _ (by omega)
          omega
        · rw [if_neg h4] at h
          have hli : En / sn < P.large.size := by omega
          have hsi : En % sn < P.step.toNat := by
            have := Nat.mod_lt En hsn0; omega
          obtain ⟨hsI, hsIlt, sm, ns, hgs, hns, hsmeq, hsm1, hsm2⟩ := small_facts (hc.small _ hsi)
          obtain ⟨b, ebL, hgl, hb1, hb2, hebl, hebh, hbr1, hbr2⟩ := large_facts (hc.large _ hli)
          rw [hmany] at h
          simp only [Bool.false_eq_true, if_false, hsI, hgs, hgl] at h
          -- the bracket of the large power
          generalize hK : ((En / sn : Nat) : Int) * P.step - P.bias = K at *
          obtain ⟨hB1, hB2⟩ := large_bracket hr2 K ebL hbr1 hbr2
          obtain ⟨mant, errors, pw, hmid, hm1, hm2, her4, her36, hpw1, hpw2, hy1, hy2⟩ :=
            scale_bound F n.mantissa (r ^ (En % sn)) sm ns b ebL ((r : ℚ) ^ K / 2 ^ ebL) hw0 hw
              (Nat.pow_pos hr0) hsmeq hsm1 hsm2 hns hb1 hb2 hB1 hB2
          rw [hmid] at h
          simp only [] at h
          -- the true value
          obtain ⟨hxq, hden⟩ := powFrac_q r n.mantissa n.exponent hr0
          have hrq : (r : ℚ) ≠ 0 := by
            have : (0 : ℚ) < r := by exact_mod_cast hr0
            exact ne_of_gt this
          have hexp : n.exponent = ((En % sn : Nat) : Int) + K := by
            have h1 := Nat.div_add_mod En sn
            have : ((En / sn : Nat) : Int) * (sn : Int) + ((En % sn : Nat) : Int) = (En : Int) := by
              rw [Int.mul_comm]; exact_mod_cast h1
            rw [← hK, hsn]; omega
          have hLb : ((L F.fmt : Nat) : Int) + 1 = F.C.exponentBias := by
            rw [L_eq lay, lay.bias]; have := lay.hL; omega
          have hy : ((n.mantissa * r ^ (En % sn) : Nat) : ℚ) * ((r : ℚ) ^ K / 2 ^ ebL) *
              2 ^ (F.C.exponentBias - pw + ebL) =
              ((powFrac r n.exponent n.mantissa).1 : ℚ) / (powFrac r n.exponent n.mantissa).2 *
                2 ^ (((L F.fmt : Nat) : Int) + 1 - pw) := by
            rw [hxq, hLb, hexp, zpow_add₀ hrq, zpow_natCast,
              show F.C.exponentBias - pw + ebL = (F.C.exponentBias - pw) + ebL by ring,
              zpow_add₀ (by norm_num : (2 : ℚ) ≠ 0)]
            have h2 : (2 : ℚ) ^ ebL ≠ 0 := zpow_ne_zero _ (by norm_num)
            push_cast
            field_simp
          rw [hy] at hy1 hy2
          obtain ⟨hlo, hhi⟩ := bridge (L F.fmt) _ _ mant 4 errors pw hden hy1 hy2
          have hBl : F.C.exponentBias ≤ 2000 := by
            rw [lay.bias]; have := lay.hL1074; omega
          have hB0 : 0 ≤ F.C.exponentBias := by rw [lay.bias]; omega
          exact bellFinish_sound lay mant errors 4 pw _ _ (1 - pw).toNat (pw - 1).toNat hm1 hm2
            (by have : (36 : Nat) < 2 ^ 32 := by norm_num
                omega)
            (by have : (2 : Int) ^ 40 = 1099511627776 := by norm_num
                omega) (by omega) hden (by omega) hlo hhi her4
            (by have : 2 ^ 4 ≤ 2 ^ (64 - p) := Nat.pow_le_pow_right (by norm_num) (by omega)
                omega) (by omega) h hv

end LexVerif.Proof.Bell
