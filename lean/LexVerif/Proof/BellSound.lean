import LexVerif.Proof.BellError
import LexVerif.Proof.LemireBasics
/-!
# Proof.BellSound — Bellerophon is sound for untruncated mantissas

`bellerophon_untruncated_sound`: for every radix whose tables pass `bellCheck`, every mantissa `< 2^64` without
`many_digits` and every exponent, a **valid** non-lossy answer of the model's `bellerophon` is
`roundNE (w·r^e)`: early exits (zero / infinity cut-offs, table range), the error accounting of the two
multiplications (`scale_bound`), the accuracy decision and the rounding (`bellFinish_sound`).
-/
namespace LexVerif.Proof.Bell
open LexVerif.Spec LexVerif.Model LexVerif.Model.Bellerophon
open LexVerif.Gen.Bellerophon (Powers)
open LexVerif.Proof.RoundNE LexVerif.Proof.ExtRound LexVerif.Proof.BinaryCorrect

theorem ext_inf {F p eb} (lay : Layout F p eb) :
    extendedToFloat F ⟨0, F.C.infinitePower⟩ = F.fmt.infBits := by
  have hT : 0 < 2 ^ (p - 1) := Nat.two_pow_pos _
  have hbits : F.C.bits.toNat = p + eb := by rw [lay.bits]; rfl
  have hTT : 2 ^ p = 2 * 2 ^ (p - 1) := two_pow_pred (by have := lay.hp; omega)
  have hpow : 2 ^ (p + eb) = 2 ^ eb * (2 * 2 ^ (p - 1)) := by rw [← hTT, ← Nat.pow_add, Nat.add_comm]
  have h1 : (2 ^ eb - 1) * 2 ^ (p - 1) < 2 ^ eb * 2 ^ (p - 1) :=
    Nat.mul_lt_mul_of_pos_right (by have := Nat.two_pow_pos eb; omega) hT
  have h2 : 2 ^ eb * (2 * 2 ^ (p - 1)) = 2 * (2 ^ eb * 2 ^ (p - 1)) := by ring
  have := ext_of_fields F (p - 1) (p + eb) lay.msNat hbits 0 (2 ^ eb - 1) hT
    (by rw [Nat.add_zero, hpow, h2]; omega) lay.hp64
  rw [lay.infp, this, Nat.add_zero, lay.fmt]; rfl

/-- values below `r^(−m)·2^64` with `r^m ≥ 2^1140` round to zero -/
theorem tiny_pow {F p eb} (lay : Layout F p eb) {r : Nat} (w m : Nat) (hw : w ≤ 2 ^ 64)
    (hm : 2 ^ 1140 ≤ r ^ m) : roundNE F.fmt w (r ^ m) = 0 := by
  have hf := lay.wf
  have hL : L F.fmt ≤ 1074 := by rw [L_eq lay]; exact lay.hL1074
  apply roundNE_tiny hf (by have := Nat.two_pow_pos 1140; omega)
  have h1 : w * 2 ^ L F.fmt ≤ 2 ^ 64 * 2 ^ L F.fmt := Nat.mul_le_mul_right _ hw
  have h2 : 2 ^ 64 * 2 ^ L F.fmt ≤ 2 ^ 64 * 2 ^ 1074 :=
    Nat.mul_le_mul_left _ (Nat.pow_le_pow_right (by norm_num) hL)
  have h3 : 2 * ((2 : Nat) ^ 64 * 2 ^ 1074) < 2 ^ 1140 := by
    rw [← Nat.pow_add, ← Nat.pow_succ']; exact Nat.pow_lt_pow_right (by norm_num) (by norm_num)
  omega

/-- values of at least `2^1024` round to infinity -/
theorem huge_pow {F p eb} (lay : Layout F p eb) (num : Nat) (h : 2 ^ 1024 ≤ num) :
    roundNE F.fmt num 1 = F.fmt.infBits := by
  have hf := lay.wf
  apply LexVerif.Proof.Lemire.roundNE_huge hf Nat.one_pos
  rw [Nat.one_mul]
  have hb0 : F.fmt.bias = 2 ^ (eb - 1) - 1 := by unfold Fmt.bias; rw [lay.fmt]
  have hb : F.fmt.bias + 1 = 2 ^ (eb - 1) := by
    rw [hb0]; have := Nat.two_pow_pos (eb - 1); omega
  rw [hb]
  have : 2 ^ 2 ^ (eb - 1) ≤ 2 ^ 1024 := Nat.pow_le_pow_right (by norm_num) lay.hb1024
  omega

/-- from the rational bound on the scaled value to the cross-multiplied form `bellFinish_sound` wants -/
theorem bridge (Ln num den mant cl ch : Nat) (pw : Int) (hd : 0 < den)
    (h1 : (mant : ℚ) - cl < (num : ℚ) / den * 2 ^ ((Ln : Int) + 1 - pw))
    (h2 : (num : ℚ) / den * 2 ^ ((Ln : Int) + 1 - pw) < (mant : ℚ) + ch) :
    mant * (den * 2 ^ (pw - 1).toNat) < num * 2 ^ Ln * 2 ^ (1 - pw).toNat + cl * (den * 2 ^ (pw - 1).toNat) ∧
    num * 2 ^ Ln * 2 ^ (1 - pw).toNat < (mant + ch) * (den * 2 ^ (pw - 1).toNat) := by
  have hdq : (0 : ℚ) < den := by exact_mod_cast hd
  have hexp : (2 : ℚ) ^ ((Ln : Int) + 1 - pw) = 2 ^ Ln * 2 ^ (1 - pw).toNat / 2 ^ (pw - 1).toNat := by
    have : (Ln : Int) + 1 - pw = (Ln : Int) + (((1 - pw).toNat : Int) - ((pw - 1).toNat : Int)) := by omega
    rw [this, zpow_add₀ (by norm_num), zpow_sub₀ (by norm_num), zpow_natCast, zpow_natCast, zpow_natCast]
    ring
  rw [hexp] at h1 h2
  generalize (1 - pw).toNat = α at *
  generalize (pw - 1).toNat = β at *
  have hU : (0 : ℚ) < (den : ℚ) * 2 ^ β := by positivity
  have e : (num : ℚ) / den * (2 ^ Ln * 2 ^ α / 2 ^ β) = ((num : ℚ) * 2 ^ Ln * 2 ^ α) / ((den : ℚ) * 2 ^ β) := by
    field_simp
  rw [e] at h1 h2
  rw [lt_div_iff₀ hU] at h1
  rw [div_lt_iff₀ hU] at h2
  constructor
  · have : ((mant * (den * 2 ^ β) : Nat) : ℚ) < ((num * 2 ^ Ln * 2 ^ α + cl * (den * 2 ^ β) : Nat) : ℚ) := by
      push_cast; nlinarith
    exact_mod_cast this
  · have : ((num * 2 ^ Ln * 2 ^ α : Nat) : ℚ) < (((mant + ch) * (den * 2 ^ β) : Nat) : ℚ) := by
      push_cast; nlinarith
    exact_mod_cast this

/-- `w·r^e` as a rational, from `powFrac` -/
theorem powFrac_q (r w : Nat) (e : Int) (hr : 0 < r) :
    ((powFrac r e w).1 : ℚ) / (powFrac r e w).2 = (w : ℚ) * (r : ℚ) ^ e ∧ 0 < (powFrac r e w).2 := by
  have hr0 : (r : ℚ) ≠ 0 := by
    have : (0 : ℚ) < r := by exact_mod_cast hr
    exact ne_of_gt this
  unfold powFrac
  by_cases he : e ≥ 0
  · rw [if_pos he]
    obtain ⟨n, rfl⟩ := Int.eq_ofNat_of_zero_le he
    simp only [Int.toNat_natCast]
    refine ⟨?_, Nat.one_pos⟩
    push_cast; rw [zpow_natCast]; ring
  · rw [if_neg he]
    obtain ⟨n, hn⟩ := Int.eq_ofNat_of_zero_le (show 0 ≤ -e by omega)
    have he' : e = -(n : Int) := by omega
    subst he'
    simp only [Int.neg_neg, Int.toNat_natCast]
    refine ⟨?_, Nat.pow_pos hr⟩
    push_cast; rw [zpow_neg, zpow_natCast]; ring

/-- **`bellerophon` never panics** for a radix whose tables pass `bellCheck` (the remainder by `step`, the three
checked table indices) -/
theorem bellPrepare_no_panic {F : FTy} {r : Nat} {P : Powers} (hc : BellFacts r P) (n : Num) :
    bellPrepare F P n ≠ .panic := by
  have hstep := hc.step_pos
  unfold bellPrepare
  simp only []
  split
  · simp
  · split
    · simp
    · rw [if_neg (show ¬ P.step = 0 by omega)]
      split
      · simp
      · rename_i hE
        split
        · simp
        · rename_i hli
          generalize hEv : wrapI32 (wrapI32 n.exponent + P.bias) = E at *
          have hsi : (Int.tmod E P.step).toNat < P.step.toNat := by
            have h1 := Int.tmod_lt_of_pos E hstep
            have h2 := Int.tmod_nonneg P.step (show 0 ≤ E by omega)
            omega
          have hli' : (Int.tdiv E P.step).toNat < P.large.size := by omega
          obtain ⟨hsI, _, sm, ns, hgs, _⟩ := small_facts (hc.small _ hsi)
          obtain ⟨b, ebL, hgl, _⟩ := large_facts (hc.large _ hli')
          simp only [hsI, hgs, hgl]
          unfold scaleLarge
          simp

theorem bellerophon_no_panic {F : FTy} {r : Nat} {P : Powers} (hc : BellFacts r P) (n : Num) (lossy : Bool) :
    bellerophon F P n lossy ≠ .panic := by
  unfold bellerophon
  have := bellPrepare_no_panic (F := F) hc n
  split
  · simp
  · simp
  · rename_i h; exact absurd h this
  · unfold bellFinish
    simp only []
    split
    · simp
    · split
      · simp
      · split <;> simp

/-- the true value of the literal: `x = w·r^e` for an untruncated mantissa, `x ∈ [w, w+1)·r^e` for a
truncated one (cross-multiplied) -/
def TrueValue (r : Nat) (n : Num) (num den : Nat) : Prop :=
  (powFrac r n.exponent n.mantissa).1 * den ≤ num * (powFrac r n.exponent n.mantissa).2 ∧
  (if n.manyDigits then
    num * (powFrac r n.exponent (n.mantissa + 1)).2 < (powFrac r n.exponent (n.mantissa + 1)).1 * den
   else num * (powFrac r n.exponent n.mantissa).2 ≤ (powFrac r n.exponent n.mantissa).1 * den)

/-- **`bellerophon_error_bound`**: what `bellPrepare` (the first half of `bellerophon`: early exits, the two
multiplications, error booking, normalisation) guarantees about the **true** value `num/den` of the literal.
Either an early exit that is already the correctly rounded result, or a normalised significand `mant` at
biased exponent `pw` with booked `errors = E·2^sh` such that, in units of the last place of `mant`
(`U = den·2^β`, `Y = num·2^L·2^α`, `β − α = pw − 1`), `mant − 4 < Y/U < mant + errors`, and more tightly
`Y/U < mant + 8` (`+ 2·2^ctlz + 1` for a truncated mantissa). A truncated mantissa holds at least 44 bits (as every
`u64_step`-digit mantissa does: then `ctlz + 1 ≤ 20` and the cap of the booked error is not reached). -/
theorem prepare_cases {F : FTy} {p eb : Nat} (lay : Layout F p eb)
    {r : Nat} {P : Powers} (hc : BellFacts r P) (n : Num)
    (hw : n.mantissa < 2 ^ 64) (hmw : n.manyDigits = true → 2 ^ 44 ≤ n.mantissa)
    (num den : Nat) (hd : 0 < den) (htv : TrueValue r n num den) :
    (bellPrepare F P n = .zero ∧ roundNE F.fmt num den = 0) ∨
    (bellPrepare F P n = .inf ∧ roundNE F.fmt num den = F.fmt.infBits) ∨
    ∃ (mant E sh : Nat) (pw : Int),
      bellPrepare F P n = .mid ⟨mant, pw⟩ (E * 2 ^ sh) ∧ 2 ^ 63 ≤ mant ∧ mant < 2 ^ 64 ∧
      4 ≤ E * 2 ^ sh ∧ E * 2 ^ sh < 2 ^ 32 ∧ -4400 ≤ pw ∧ pw < 32768 ∧
      mant * (den * 2 ^ (pw - 1).toNat) <
        num * 2 ^ L F.fmt * 2 ^ (1 - pw).toNat + 4 * (den * 2 ^ (pw - 1).toNat) ∧
      num * 2 ^ L F.fmt * 2 ^ (1 - pw).toNat < (mant + E * 2 ^ sh) * (den * 2 ^ (pw - 1).toNat) ∧
      num * 2 ^ L F.fmt * 2 ^ (1 - pw).toNat <
        (mant + (8 + if n.manyDigits then 2 * 2 ^ clz64 n.mantissa + 1 else 0)) * (den * 2 ^ (pw - 1).toNat) := by
  have hf := lay.wf
  have hr2 := hc.r2
  have hr0 : 0 < r := by omega
  have hstep := hc.step_pos
  have hbias0 := hc.bias_nn
  have hbias := hc.bias_le
  have hpow_mono : ∀ {a b : Nat}, a ≤ b → r ^ a ≤ r ^ b := fun h => Nat.pow_le_pow_right hr0 h
  have h2r : ∀ m : Nat, 2 ^ m ≤ r ^ m := fun m => Nat.pow_le_pow_left hr2 m
  obtain ⟨htv1, htv2⟩ := htv
  have hden0 : ∀ m, 0 < (powFrac r n.exponent m).2 := fun m => (powFrac_q r m n.exponent hr0).2
  -- squeeze lemmas for the cut-offs
  have hzero : roundNE F.fmt (powFrac r n.exponent (n.mantissa + 1)).1 (powFrac r n.exponent (n.mantissa + 1)).2 = 0 →
      roundNE F.fmt num den = 0 := by
    intro hz
    have hle : roundNE F.fmt num den ≤
        roundNE F.fmt (powFrac r n.exponent (n.mantissa + 1)).1 (powFrac r n.exponent (n.mantissa + 1)).2 := by
      apply roundNE_mono' hf hd (hden0 _)
      by_cases hm : n.manyDigits = true
      · rw [if_pos hm] at htv2; exact Nat.le_of_lt htv2
      · rw [if_neg hm] at htv2
        -- num/den ≤ w·r^e ≤ (w+1)·r^e
        have hmono : (powFrac r n.exponent n.mantissa).1 * (powFrac r n.exponent (n.mantissa + 1)).2 ≤
            (powFrac r n.exponent (n.mantissa + 1)).1 * (powFrac r n.exponent n.mantissa).2 := by
          unfold powFrac; split
          · simp only []; exact Nat.mul_le_mul_right _ (Nat.mul_le_mul_right _ (by omega))
          · simp only []; exact Nat.mul_le_mul_right _ (by omega)
        have h1 := Nat.mul_le_mul_right (powFrac r n.exponent (n.mantissa + 1)).2 htv2
        have h2 := Nat.mul_le_mul_right den hmono
        have hp := hden0 n.mantissa
        have : num * (powFrac r n.exponent (n.mantissa + 1)).2 * (powFrac r n.exponent n.mantissa).2 ≤
            (powFrac r n.exponent (n.mantissa + 1)).1 * den * (powFrac r n.exponent n.mantissa).2 := by
          calc num * (powFrac r n.exponent (n.mantissa + 1)).2 * (powFrac r n.exponent n.mantissa).2
              = num * (powFrac r n.exponent n.mantissa).2 * (powFrac r n.exponent (n.mantissa + 1)).2 := by ring
            _ ≤ (powFrac r n.exponent n.mantissa).1 * den * (powFrac r n.exponent (n.mantissa + 1)).2 := h1
            _ = (powFrac r n.exponent n.mantissa).1 * (powFrac r n.exponent (n.mantissa + 1)).2 * den := by ring
            _ ≤ (powFrac r n.exponent (n.mantissa + 1)).1 * (powFrac r n.exponent n.mantissa).2 * den := h2
            _ = (powFrac r n.exponent (n.mantissa + 1)).1 * den * (powFrac r n.exponent n.mantissa).2 := by ring
        exact Nat.le_of_mul_le_mul_right this hp
    omega
  have hinf : roundNE F.fmt (powFrac r n.exponent n.mantissa).1 (powFrac r n.exponent n.mantissa).2 = F.fmt.infBits →
      roundNE F.fmt num den = F.fmt.infBits := by
    intro hi
    have h1 := roundNE_mono' hf (hden0 n.mantissa) hd htv1
    have h2 := roundNE_le_infBits hf num hd
    omega
  generalize hprep : bellPrepare F P n = prep
  unfold bellPrepare litExpCut at hprep
  simp only [] at hprep
  by_cases h1 : n.mantissa = 0 ∨ n.exponent ≤ -0x1000
  · -- zero
    rw [if_pos h1] at hprep
    subst hprep
    left
    refine ⟨rfl, ?_⟩
    rcases h1 with h0 | he
    · -- w = 0 is untruncated
      have hm : ¬ n.manyDigits = true := fun hm => by have := hmw hm; omega
      rw [if_neg hm, h0] at htv2
      rw [h0] at htv1
      have : (powFrac r n.exponent 0).1 = 0 := by unfold powFrac; split <;> simp
      rw [this, Nat.zero_mul] at htv2
      have hp := hden0 0
      have hn0 : num = 0 := by
        rcases Nat.eq_zero_or_pos num with h | h
        · exact h
        · have := Nat.mul_pos h hp; omega
      rw [hn0, roundNE_zero]
    · apply hzero
      unfold powFrac
      rw [if_neg (by omega)]
      apply tiny_pow lay _ _ (by omega)
      have : 1140 ≤ (-n.exponent).toNat := by omega
      exact Nat.le_trans (Nat.pow_le_pow_right (by norm_num) this) (h2r _)
  · rw [if_neg h1] at hprep
    have hw0 : n.mantissa ≠ 0 := fun h0 => h1 (Or.inl h0)
    have he1 : -0x1000 < n.exponent := by
      apply Classical.byContradiction; intro hc'; exact h1 (Or.inr (by omega))
    by_cases h2 : n.exponent ≥ 0x1000
    · -- infinity
      rw [if_pos h2] at hprep
      subst hprep
      right; left
      refine ⟨rfl, ?_⟩
      apply hinf
      unfold powFrac
      rw [if_pos (by omega)]
      apply huge_pow lay
      have h1024 : 1024 ≤ n.exponent.toNat := by omega
      have : 2 ^ 1024 ≤ r ^ n.exponent.toNat :=
        Nat.le_trans (Nat.pow_le_pow_right (by norm_num) h1024) (h2r _)
      have : 1 * r ^ n.exponent.toNat ≤ n.mantissa * r ^ n.exponent.toNat :=
        Nat.mul_le_mul_right _ (by omega)
      omega
    · rw [if_neg h2] at hprep
      have he2 : n.exponent < 0x1000 := by omega
      have hE : wrapI32 (wrapI32 n.exponent + P.bias) = n.exponent + P.bias := by
        unfold wrapI32 wrapI
        have h32 : (2 : Int) ^ 32 = 4294967296 := by norm_num
        have h31 : (2 : Int) ^ (32 - 1) = 2147483648 := by norm_num
        simp only [h32, h31]
        omega
      rw [hE] at hprep
      rw [if_neg (by omega)] at hprep
      by_cases h3 : n.exponent + P.bias < 0
      · rw [if_pos h3] at hprep
        subst hprep
        left
        refine ⟨rfl, ?_⟩
        apply hzero
        unfold powFrac
        rw [if_neg (by omega)]
        apply tiny_pow lay _ _ (by omega)
        have : P.bias.toNat + 1 ≤ (-n.exponent).toNat := by omega
        exact Nat.le_trans hc.under (hpow_mono this)
      · rw [if_neg h3] at hprep
        obtain ⟨En, hEn⟩ := Int.eq_ofNat_of_zero_le (show 0 ≤ n.exponent + P.bias by omega)
        obtain ⟨sn, hsn⟩ := Int.eq_ofNat_of_zero_le (show 0 ≤ P.step by omega)
        have hsn0 : 0 < sn := by omega
        rw [hEn, hsn] at hprep
        have hdiv : (Int.tdiv (En : Int) (sn : Int)).toNat = En / sn := by
          rw [Int.tdiv_eq_ediv_of_nonneg (by omega)]; norm_cast
        have hmod : (Int.tmod (En : Int) (sn : Int)).toNat = En % sn := by
          rw [Int.tmod_eq_emod_of_nonneg (by omega)]; norm_cast
        rw [hdiv, hmod] at hprep
        by_cases h4 : En / sn ≥ P.large.size
        · rw [if_pos h4] at hprep
          subst hprep
          right; left
          refine ⟨rfl, ?_⟩
          have hge : P.large.size * sn ≤ En := by
            have := Nat.div_mul_le_self En sn
            have := Nat.mul_le_mul_right sn h4
            omega
          have hsn' : P.step.toNat = sn := by omega
          have hen : P.large.size * sn - P.bias.toNat ≤ n.exponent.toNat := by omega
          have hbsz := hc.bsz
          rw [hsn'] at hbsz
          apply hinf
          unfold powFrac
          rw [if_pos (show n.exponent ≥ 0 by omega)]
          apply huge_pow lay
          have := hc.over
          rw [hsn'] at this
          have h5 := hpow_mono hen
          have : 1 * r ^ n.exponent.toNat ≤ n.mantissa * r ^ n.exponent.toNat :=
            Nat.mul_le_mul_right _ (by omega)
          omega
        · rw [if_neg h4] at hprep
          have hli : En / sn < P.large.size := by omega
          have hsi : En % sn < P.step.toNat := by
            have := Nat.mod_lt En hsn0; omega
          obtain ⟨hsI, hsIlt, sm, ns, hgs, hns, hsmeq, hsm1, hsm2⟩ := small_facts (hc.small _ hsi)
          obtain ⟨b, ebL, hgl, hb1, hb2, hebl, hebh, hbr1, hbr2⟩ := large_facts (hc.large _ hli)
          simp only [hsI, hgs, hgl] at hprep
          -- the booked truncation error
          obtain ⟨hlz, hn1, hn2, _⟩ := clz_norm hw0 hw
          generalize hlzv : clz64 n.mantissa = lz at *
          generalize he0v : (if n.manyDigits = true then
              wrap32 (shl64m litErrorScale (if lz + 1 < litManyShiftCap then lz + 1 else litManyShiftCap) % 2 ^ 32)
            else 0) = errors0 at *
          have he0 : (n.manyDigits = false ∧ errors0 = 0) ∨
              (n.manyDigits = true ∧ lz ≤ 19 ∧ errors0 = 16 * 2 ^ lz) := by
            by_cases hm : n.manyDigits = true
            · right
              have h44 := hmw hm
              have hlz19 : lz ≤ 19 := by
                apply Classical.byContradiction; intro hcn
                have h1 : n.mantissa * 2 ^ 20 ≤ n.mantissa * 2 ^ lz :=
                  Nat.mul_le_mul_left _ (Nat.pow_le_pow_right (by norm_num) (by omega))
                have h2 : 2 ^ 44 * 2 ^ 20 ≤ n.mantissa * 2 ^ 20 := Nat.mul_le_mul_right _ h44
                have h3 : (2 : Nat) ^ 44 * 2 ^ 20 = 2 ^ 64 := by norm_num
                omega
              refine ⟨hm, hlz19, ?_⟩
              rw [← he0v, if_pos hm]
              unfold litManyShiftCap litErrorScale wrap32 shl64m shl64
              have hmin : (if lz + 1 < 20 then lz + 1 else 20) = lz + 1 := by split <;> omega
              rw [hmin, Nat.mod_eq_of_lt (show lz + 1 < 64 by omega)]
              have hpw : 2 ^ (lz + 1) ≤ 2 ^ 20 := Nat.pow_le_pow_right (by norm_num) (by omega)
              have e1 : 8 * 2 ^ (lz + 1) = 16 * 2 ^ lz := by rw [Nat.pow_succ]; ring
              have h20 : (2 : Nat) ^ 20 = 1048576 := by norm_num
              have h32 : (2 : Nat) ^ 32 = 4294967296 := by norm_num
              have h64 : (2 : Nat) ^ 64 = 18446744073709551616 := by norm_num
              rw [h20] at hpw; rw [h32, h64, e1] at *
              rw [Nat.mod_eq_of_lt (by omega), Nat.mod_eq_of_lt (by omega), Nat.mod_eq_of_lt (by omega)]
            · left
              have hmf : n.manyDigits = false := by cases hmd : n.manyDigits <;> simp_all
              exact ⟨hmf, by rw [← he0v, if_neg hm]⟩
          have he0lt : errors0 < 2 ^ 24 := by
            have h24 : (2 : Nat) ^ 24 = 16777216 := by norm_num
            rcases he0 with ⟨_, h⟩ | ⟨_, hl, h⟩
            · rw [h]; norm_num
            · have : 2 ^ lz ≤ 2 ^ 19 := Nat.pow_le_pow_right (by norm_num) hl
              have h19 : (2 : Nat) ^ 19 = 524288 := by norm_num
              omega
          -- the bracket of the large power
          generalize hK : ((En / sn : Nat) : Int) * P.step - P.bias = K at *
          obtain ⟨hB1, hB2⟩ := large_bracket hr2 K ebL hbr1 hbr2
          obtain ⟨mant, sh, E, pw, hmid, hm1, hm2, hsh, hEcase, hpw1, hpw2, hy1, hy2⟩ :=
            scale_bound F n.mantissa (r ^ (En % sn)) sm ns b errors0 ebL ((r : ℚ) ^ K / 2 ^ ebL) hw0 hw
              (Nat.pow_pos hr0) hsmeq hsm1 hsm2 hns hb1 hb2 hB1 hB2 he0lt
          rw [hmid] at hprep
          subst hprep
          -- the value of the truncated mantissa
          obtain ⟨hxq, hden⟩ := powFrac_q r n.mantissa n.exponent hr0
          obtain ⟨hxq1, hden1⟩ := powFrac_q r (n.mantissa + 1) n.exponent hr0
          have hrq : (r : ℚ) ≠ 0 := by
            have : (0 : ℚ) < r := by exact_mod_cast hr0
            exact ne_of_gt this
          have hexp : n.exponent = ((En % sn : Nat) : Int) + K := by
            have h1 := Nat.div_add_mod En sn
            have : ((En / sn : Nat) : Int) * (sn : Int) + ((En % sn : Nat) : Int) = (En : Int) := by
              rw [Int.mul_comm]; exact_mod_cast h1
            rw [← hK, hsn]; omega
          have hLb : ((L F.fmt : Nat) : Int) + 1 = F.C.exponentBias := by
            rw [L_eq lay, lay.bias]; have := lay.hL; omega
          have hy : ((n.mantissa * r ^ (En % sn) : Nat) : ℚ) * ((r : ℚ) ^ K / 2 ^ ebL) *
              2 ^ (F.C.exponentBias - pw + ebL) =
              (n.mantissa : ℚ) * (r : ℚ) ^ n.exponent * 2 ^ (((L F.fmt : Nat) : Int) + 1 - pw) := by
            rw [hLb, hexp, zpow_add₀ hrq, zpow_natCast,
              show F.C.exponentBias - pw + ebL = (F.C.exponentBias - pw) + ebL by ring,
              zpow_add₀ (by norm_num : (2 : ℚ) ≠ 0)]
            have h2 : (2 : ℚ) ^ ebL ≠ 0 := zpow_ne_zero _ (by norm_num)
            push_cast
            field_simp
          rw [hy] at hy1 hy2
          -- the true value
          have hdq : (0 : ℚ) < den := by exact_mod_cast hd
          have hcpos : (0 : ℚ) < 2 ^ (((L F.fmt : Nat) : Int) + 1 - pw) := zpow_pos (by norm_num) _
          have hrpos : (0 : ℚ) < (r : ℚ) ^ n.exponent := zpow_pos (by exact_mod_cast hr0) _
          have hwq : (0 : ℚ) < n.mantissa := by exact_mod_cast Nat.pos_of_ne_zero hw0
          have hx_lo : (n.mantissa : ℚ) * (r : ℚ) ^ n.exponent ≤ (num : ℚ) / den := by
            rw [← hxq, div_le_div_iff₀ (by exact_mod_cast hden) hdq]
            exact_mod_cast htv1
          have hsh1 : (1 : ℚ) ≤ 2 ^ sh := one_le_pow₀ (by norm_num)
          have hsh4 : (2 : ℚ) ^ sh ≤ 4 := by
            have : (2 : ℚ) ^ sh ≤ 2 ^ 2 := pow_le_pow_right₀ (by norm_num) hsh
            linarith
          have hx_hi : (num : ℚ) / den ≤ (n.mantissa : ℚ) * (r : ℚ) ^ n.exponent ∨
              (n.manyDigits = true ∧ (num : ℚ) / den < ((n.mantissa : ℚ) + 1) * (r : ℚ) ^ n.exponent) := by
            by_cases hm : n.manyDigits = true
            · right
              rw [if_pos hm] at htv2
              refine ⟨hm, ?_⟩
              have : (((n.mantissa + 1 : Nat) : ℚ)) * (r : ℚ) ^ n.exponent =
                  ((n.mantissa : ℚ) + 1) * (r : ℚ) ^ n.exponent := by push_cast; ring
              rw [← this, ← hxq1, div_lt_div_iff₀ hdq (by exact_mod_cast hden1)]
              exact_mod_cast htv2
            · left
              rw [if_neg hm] at htv2
              rw [← hxq, div_le_div_iff₀ hdq (by exact_mod_cast hden)]
              exact_mod_cast htv2
          have hE4 : (4 : ℚ) ≤ E := by
            have : 4 ≤ E := by
              rcases hEcase with ⟨_, h | h⟩ | ⟨hpos, h | h⟩ <;> omega
            exact_mod_cast this
          have hwlo : (2 : ℚ) ^ 63 ≤ (n.mantissa : ℚ) * 2 ^ lz := by
            have := (Nat.cast_le (α := ℚ)).mpr hn1
            push_cast at this; exact this
          have hmq : (mant : ℚ) < 2 * 2 ^ 63 := by
            have := (Nat.cast_lt (α := ℚ)).mpr hm2
            push_cast at this
            have hP64 : (2 : ℚ) ^ 64 = 2 * 2 ^ 63 := by norm_num
            linarith
          have hEm : n.manyDigits = true → lz ≤ 19 ∧ (16 : ℚ) * 2 ^ lz + 5 ≤ E := by
            intro hm
            rcases he0 with ⟨hmf, _⟩ | ⟨_, hl19, h16⟩
            · rw [hmf] at hm; exact absurd hm (by decide)
            · refine ⟨hl19, ?_⟩
              rcases hEcase with ⟨h0, _⟩ | ⟨_, h | h⟩
              · rw [h16] at h0
                have := Nat.two_pow_pos lz; omega
              · rw [h, h16]; push_cast; linarith
              · rw [h, h16]; push_cast; linarith
          have hbounds : (mant : ℚ) - 4 < (num : ℚ) / den * 2 ^ (((L F.fmt : Nat) : Int) + 1 - pw) ∧
              (num : ℚ) / den * 2 ^ (((L F.fmt : Nat) : Int) + 1 - pw) < (mant : ℚ) + ((E * 2 ^ sh : Nat) : ℚ) ∧
              (num : ℚ) / den * 2 ^ (((L F.fmt : Nat) : Int) + 1 - pw) <
                (mant : ℚ) + ((8 + if n.manyDigits then 2 * 2 ^ lz + 1 else 0 : Nat) : ℚ) := by
            have hcast8 : ((8 + if n.manyDigits then 2 * 2 ^ lz + 1 else 0 : Nat) : ℚ) =
                8 + if n.manyDigits then 2 * (2 : ℚ) ^ lz + 1 else 0 := by
              split <;> push_cast <;> ring
            rw [hcast8]
            push_cast
            generalize (2 : ℚ) ^ (((L F.fmt : Nat) : Int) + 1 - pw) = c at *
            generalize (r : ℚ) ^ n.exponent = R at *
            generalize (2 : ℚ) ^ sh = S at *
            generalize (num : ℚ) / den = X at *
            generalize (n.mantissa : ℚ) = W at *
            generalize (mant : ℚ) = M at *
            generalize (E : ℚ) = Eq at *
            have hRc : 0 < R * c := mul_pos hrpos hcpos
            constructor
            · have : W * R * c ≤ X * c := mul_le_mul_of_nonneg_right hx_lo (le_of_lt hcpos)
              linarith only [this, hy1, hsh4]
            · rcases hx_hi with hle | ⟨hm, hlt⟩
              · have h1 : X * c ≤ W * R * c := mul_le_mul_of_nonneg_right hle (le_of_lt hcpos)
                have h2 : 4 * S ≤ Eq * S := mul_le_mul_of_nonneg_right hE4 (by linarith only [hsh1])
                have hnn : (0 : ℚ) ≤ if n.manyDigits = true then 2 * (2 : ℚ) ^ lz + 1 else 0 := by
                  split
                  · positivity
                  · exact le_refl _
                constructor
                · linarith only [h1, h2, hy2, hsh1]
                · linarith only [h1, hy2, hsh4, hnn]
              · obtain ⟨hl19, hE⟩ := hEm hm
                have hT1 : (1 : ℚ) ≤ 2 ^ lz := one_le_pow₀ (by norm_num)
                have hT19 : (2 : ℚ) ^ lz ≤ 524288 := by
                  have : (2 : ℚ) ^ lz ≤ 2 ^ 19 := pow_le_pow_right₀ (by norm_num) hl19
                  have h19 : (2 : ℚ) ^ 19 = 524288 := by norm_num
                  linarith only [this, h19]
                have hQ22 : (4194304 : ℚ) ≤ 2 ^ 63 := by norm_num
                generalize (2 : ℚ) ^ lz = T at *
                generalize (2 : ℚ) ^ 63 = Q at *
                have hQpos : 0 < Q := by linarith only [hQ22]
                have hyp : X * c < (W + 1) * R * c := mul_lt_mul_of_pos_right hlt hcpos
                generalize hRcv : R * c = Rc at *
                have hy2' : W * Rc < M + 2 * S := by
                  have : W * R * c = W * Rc := by rw [← hRcv]; ring
                  linarith only [this, hy2]
                have h63 : Rc * Q < (2 * T + 1) * Q := by
                  have h1 : Rc * Q ≤ Rc * (W * T) := mul_le_mul_of_nonneg_left hwlo (le_of_lt hRc)
                  have h2 : Rc * (W * T) = (W * Rc) * T := by ring
                  have h3 : (W * Rc) * T < (M + 2 * S) * T :=
                    mul_lt_mul_of_pos_right hy2' (by linarith only [hT1])
                  have h4 : (M + 2 * S) * T ≤ (2 * Q + 8) * T :=
                    mul_le_mul_of_nonneg_right (by linarith only [hmq, hsh4]) (by linarith only [hT1])
                  have h5 : (2 * Q + 8) * T = (2 * T) * Q + 8 * T := by ring
                  have h6 : (2 * T + 1) * Q = (2 * T) * Q + Q := by ring
                  linarith only [h1, h2, h3, h4, h5, h6, hT19, hQ22]
                have hRcb : Rc < 2 * T + 1 := lt_of_mul_lt_mul_right h63 (le_of_lt hQpos)
                have h7 : (W + 1) * R * c = W * Rc + Rc := by rw [← hRcv]; ring
                have hES : (16 * T + 5) * S ≤ Eq * S := mul_le_mul_of_nonneg_right hE (by linarith only [hsh1])
                have hTS : 16 * T * 1 ≤ 16 * T * S :=
                  mul_le_mul_of_nonneg_left hsh1 (by linarith only [hT1])
                have hexp2 : (16 * T + 5) * S = 16 * T * S + 5 * S := by ring
                rw [if_pos hm]
                constructor
                · linarith only [hyp, h7, hy2', hRcb, hES, hTS, hexp2, hsh1, hT1]
                · linarith only [hyp, h7, hy2', hRcb, hsh4]
          obtain ⟨hlo', hhi', htight'⟩ := hbounds
          obtain ⟨hlo, hhi⟩ := bridge (L F.fmt) num den mant 4 (E * 2 ^ sh) pw hd hlo' hhi'
          obtain ⟨_, htight⟩ := bridge (L F.fmt) num den mant 4
            (8 + if n.manyDigits then 2 * 2 ^ lz + 1 else 0) pw hd hlo' htight'
          have hBl : F.C.exponentBias ≤ 2000 := by
            rw [lay.bias]; have := lay.hL1074; omega
          have hB0 : 0 ≤ F.C.exponentBias := by rw [lay.bias]; omega
          have hElo : 4 ≤ E * 2 ^ sh := by
            have h1 := Nat.two_pow_pos sh
            have : 4 ≤ E := by
              rcases hEcase with ⟨_, h | h⟩ | ⟨hpos, h | h⟩ <;> omega
            calc 4 ≤ E := this
              _ ≤ E * 2 ^ sh := Nat.le_mul_of_pos_right _ h1
          have hEhi : E * 2 ^ sh < 2 ^ 32 := by
            have h1 : 2 ^ sh ≤ 2 ^ 2 := Nat.pow_le_pow_right (by norm_num) hsh
            have h24 : (2 : Nat) ^ 24 = 16777216 := by norm_num
            have h32 : (2 : Nat) ^ 32 = 4294967296 := by norm_num
            have : E ≤ errors0 + 9 := by
              rcases hEcase with ⟨h0, h | h⟩ | ⟨hpos, h | h⟩ <;> omega
            have : E * 2 ^ sh ≤ E * 2 ^ 2 := Nat.mul_le_mul_left _ h1
            omega
          right; right
          exact ⟨mant, E, sh, pw, rfl, hm1, hm2, hElo, hEhi, by omega, by omega, hlo, hhi, htight⟩

/-- **`bellerophon` is sound**: truncated and untruncated mantissas. -/
theorem bellerophon_sound_all {F : FTy} {p eb : Nat} (lay : Layout F p eb) (hp60 : p ≤ 60)
    {r : Nat} {P : Powers} (hc : BellFacts r P) (n : Num)
    (hw : n.mantissa < 2 ^ 64) (hmw : n.manyDigits = true → 2 ^ 44 ≤ n.mantissa)
    (num den : Nat) (hd : 0 < den) (htv : TrueValue r n num den) {fp : ExtendedFloat80}
    (h : bellerophon F P n false = .ok fp) (hv : 0 ≤ fp.exp) :
    extendedToFloat F fp = roundNE F.fmt num den := by
  unfold bellerophon at h
  rcases prepare_cases lay hc n hw hmw num den hd htv with ⟨hp, hz⟩ | ⟨hp, hi⟩ |
    ⟨mant, E, sh, pw, hp, hm1, hm2, hElo, hEhi, hpw1, hpw2, hlo, hhi, _⟩
  · rw [hp] at h; simp only [] at h
    injection h with h; subst h
    rw [ext_zero lay, hz]
  · rw [hp] at h; simp only [] at h
    injection h with h; subst h
    rw [ext_inf lay, hi]
  · rw [hp] at h; simp only [] at h
    exact bellFinish_sound lay mant (E * 2 ^ sh) 4 pw num den (1 - pw).toNat (pw - 1).toNat hm1 hm2
      hEhi
      (by have : (2 : Int) ^ 40 = 1099511627776 := by norm_num
          omega) hpw2 hd (by omega) hlo hhi hElo
      (by have : 2 ^ 4 ≤ 2 ^ (64 - p) := Nat.pow_le_pow_right (by norm_num) (by omega)
          omega) (by omega) h hv

/-- the untruncated case as a corollary -/
theorem bellerophon_untruncated_sound {F : FTy} {p eb : Nat} (lay : Layout F p eb) (hp60 : p ≤ 60)
    {r : Nat} {P : Powers} (hc : BellFacts r P) (n : Num) (hmany : n.manyDigits = false)
    (hw : n.mantissa < 2 ^ 64) {fp : ExtendedFloat80}
    (h : bellerophon F P n false = .ok fp) (hv : 0 ≤ fp.exp) :
    extendedToFloat F fp =
      roundNE F.fmt (powFrac r n.exponent n.mantissa).1 (powFrac r n.exponent n.mantissa).2 := by
  have hden := (powFrac_q r n.mantissa n.exponent (by have := hc.r2; omega)).2
  apply bellerophon_sound_all lay hp60 hc n hw (by rw [hmany]; intro h; exact absurd h (by decide))
    _ _ hden ⟨Nat.le_refl _, by rw [hmany]; exact Nat.le_refl _⟩ h hv

end LexVerif.Proof.Bell
