import LexVerif.Proof.LemireFallback
/-!
# Proof.LemireError — `compute_error` is an estimate on every row

`lemire` answers a truncated mantissa whose two roundings differ with `compute_error(q, w)`: the upper word `hi` of the
product, normalised, with the invalid marker — whatever the low word is. `Proof.LemireStable` characterised this answer
only for an all-ones low word (the fall-back inside `compute_float`). Here: for **every** row `−342 ≤ q ≤ 308` and every
`w ≠ 0`, the exact value `w·10^q` lies in `[hi, hi + 2)` units of the upper word (rows truncated down: `hi_bounds_down`;
the reciprocal rows `−27..−1`, rounded up: `hi_bounds_up`, no borrow because the value is a multiple of `2^128`), hence
`EstOK` (`computeError_estOK_nonneg`, `computeError_estOK_neg`).
-/
namespace LexVerif.Proof.Lemire
open LexVerif.Spec LexVerif.Model LexVerif.Model.Lemire LexVerif.Model.Bellerophon
open LexVerif.Proof.RoundNE LexVerif.Proof.ExtRound LexVerif.Proof.BinaryCorrect

/-- rows truncated down, any low word: the exact value lies in `[hi, hi + 2)` units of the upper word
(`fallback_bounds` without the all-ones hypothesis) -/
theorem hi_bounds_down (wn hi5 lo5 lo hi N Dn : Nat)
    (hwn1 : 2 ^ 63 ≤ wn) (hwn2 : wn < 2 ^ 64) (hhi5n : 2 ^ 63 ≤ hi5) (hlo : lo < 2 ^ 64) (hhi : hi < 2 ^ 64)
    (hzlow : (hi * 2 ^ 64 + lo) * 2 ^ 64 ≤ wn * (hi5 * 2 ^ 64 + lo5))
    (hzup : wn * (hi5 * 2 ^ 64 + lo5) < (hi * 2 ^ 64 + lo + 1) * 2 ^ 64 ∨
      (hi * 2 ^ 64 + lo = wn * hi5 ∧
        wn * (hi5 * 2 ^ 64 + lo5) < (hi * 2 ^ 64 + lo + 2 ^ 64) * 2 ^ 64))
    (hDn : 0 < Dn) (hNlo : wn * (hi5 * 2 ^ 64 + lo5) * Dn ≤ N)
    (hNhi : N < (wn * (hi5 * 2 ^ 64 + lo5) + wn) * Dn) :
    2 ^ 62 ≤ hi ∧ hi * (2 ^ 64 * (2 ^ 64 * Dn)) ≤ N ∧ N < (hi + 2) * (2 ^ 64 * (2 ^ 64 * Dn)) := by
  have hX190 : 2 ^ 126 * 2 ^ 64 ≤ wn * (hi5 * 2 ^ 64 + lo5) := by
    have hT : 2 ^ 63 * 2 ^ 64 ≤ hi5 * 2 ^ 64 + lo5 :=
      Nat.le_trans (Nat.mul_le_mul_right (2 ^ 64) hhi5n) (Nat.le_add_right _ _)
    calc 2 ^ 126 * 2 ^ 64 = 2 ^ 63 * (2 ^ 63 * 2 ^ 64) := by
          rw [← Nat.pow_add, ← Nat.pow_add, ← Nat.pow_add]
      _ ≤ wn * (hi5 * 2 ^ 64 + lo5) := Nat.mul_le_mul hwn1 hT
  have hF126 : 2 ^ 126 ≤ wn * hi5 := by
    calc 2 ^ 126 = 2 ^ 63 * 2 ^ 63 := by rw [← Nat.pow_add]
      _ ≤ wn * hi5 := Nat.mul_le_mul hwn1 hhi5n
  generalize hXv : wn * (hi5 * 2 ^ 64 + lo5) = X at *
  have hz126 : 2 ^ 126 ≤ hi * 2 ^ 64 + lo := by
    rcases hzup with h | ⟨h, _⟩
    · have h1 := Nat.lt_of_le_of_lt hX190 h
      have h2 := Nat.lt_of_mul_lt_mul_right h1
      omega
    · rw [h]; exact hF126
  have hhi62 : 2 ^ 62 ≤ hi := by
    have e : (2 : Nat) ^ 126 = 2 ^ 62 * 2 ^ 64 := by rw [← Nat.pow_add]
    apply Classical.byContradiction; intro hcon
    have h1 : hi + 1 ≤ 2 ^ 62 := by omega
    have h2 := Nat.mul_le_mul_right (2 ^ 64) h1
    rw [Nat.add_mul, Nat.one_mul] at h2
    omega
  refine ⟨hhi62, ?_, ?_⟩
  · calc hi * (2 ^ 64 * (2 ^ 64 * Dn)) = (hi * 2 ^ 64 * 2 ^ 64) * Dn := by ring
      _ ≤ ((hi * 2 ^ 64 + lo) * 2 ^ 64) * Dn :=
        Nat.mul_le_mul_right _ (Nat.mul_le_mul_right _ (Nat.le_add_right _ _))
      _ ≤ X * Dn := Nat.mul_le_mul_right _ hzlow
      _ ≤ N := hNlo
  · have hXw : X + wn ≤ (hi + 2) * 2 ^ 64 * 2 ^ 64 := by
      generalize 2 ^ 64 = B at hzup hwn2 hlo ⊢
      have e4 : (hi + 2) * B * B = (hi * B + B) * B + B * B := by ring
      have e5 : B ≤ B * B := Nat.le_mul_of_pos_left _ (by omega)
      rcases hzup with h | ⟨_, h⟩
      · have e3 : (hi * B + lo + 1) * B ≤ (hi * B + B) * B := Nat.mul_le_mul_right _ (by omega)
        rw [e4]
        generalize (hi * B + B) * B = Y at e3 ⊢
        generalize (hi * B + lo + 1) * B = Y' at h e3
        generalize B * B = BB at e5 ⊢
        omega
      · have e3 : (hi * B + lo + B + 1) * B ≤ (hi * B + 2 * B) * B := Nat.mul_le_mul_right _ (by omega)
        have e6 : (hi * B + lo + B + 1) * B = (hi * B + lo + B) * B + B := by ring
        have e7 : (hi * B + 2 * B) * B = (hi + 2) * B * B := by ring
        rw [e6, e7] at e3
        generalize (hi * B + lo + B) * B = Y at h e3
        generalize (hi + 2) * B * B = Z at e3 ⊢
        omega
    calc N < (X + wn) * Dn := hNhi
      _ ≤ ((hi + 2) * 2 ^ 64 * 2 ^ 64) * Dn := Nat.mul_le_mul_right _ hXw
      _ = (hi + 2) * (2 ^ 64 * (2 ^ 64 * Dn)) := by ring

/-- the reciprocal rows rounded up: the same bounds — the value is a multiple of `2^128`, so the one-unit excess of the
product cannot carry into the upper word -/
theorem hi_bounds_up {p : Nat} (hp61 : p ≤ 61) (wn hi5 lo5 lo hi N Dn : Nat)
    (hwn1 : 2 ^ 63 ≤ wn) (hwn2 : wn < 2 ^ 64) (hhi5n : 2 ^ 63 ≤ hi5) (hlo : lo < 2 ^ 64) (hhi : hi < 2 ^ 64)
    (hzlow : (hi * 2 ^ 64 + lo) * 2 ^ 64 ≤ wn * (hi5 * 2 ^ 64 + lo5))
    (hzup : wn * (hi5 * 2 ^ 64 + lo5) < (hi * 2 ^ 64 + lo + 1) * 2 ^ 64 ∨
      (hi % 2 ^ (62 - p) ≠ 2 ^ (62 - p) - 1 ∧ hi * 2 ^ 64 + lo = wn * hi5 ∧
        wn * (hi5 * 2 ^ 64 + lo5) < (hi * 2 ^ 64 + lo + 2 ^ 64) * 2 ^ 64))
    (hDn : 0 < Dn) (hDn63 : Dn < 2 ^ 63) (hNlt : N < wn * (hi5 * 2 ^ 64 + lo5) * Dn)
    (hNge : wn * (hi5 * 2 ^ 64 + lo5) * Dn ≤ N + wn * Dn) (hdiv : 2 ^ 129 ∣ N) :
    2 ^ 62 ≤ hi ∧ hi * (2 ^ 64 * (2 ^ 64 * Dn)) ≤ N ∧ N < (hi + 2) * (2 ^ 64 * (2 ^ 64 * Dn)) := by
  obtain ⟨hhi62, _, hgt⟩ := upper_bits_upper hp61 wn hi5 lo5 lo hi N Dn hwn1 hwn2 hhi5n hlo hhi hzlow hzup hDn hDn63
    hNlt hNge hdiv (hi / 2 ^ 63) (hi / 2 ^ 63 + 62 - p) rfl rfl
  refine ⟨hhi62, ?_, ?_⟩
  · apply Classical.byContradiction; intro hcon
    have hlt : N < hi * (2 ^ 64 * (2 ^ 64 * Dn)) := Nat.lt_of_not_le hcon
    have h128 : (2 : Nat) ^ 64 * 2 ^ 64 = 2 ^ 128 := by rw [← Nat.pow_add]
    have hY : hi * (2 ^ 64 * (2 ^ 64 * Dn)) = 2 ^ 128 * (hi * Dn) := by rw [← h128]; ring
    obtain ⟨n', hn'⟩ : 2 ^ 128 ∣ N := Nat.dvd_trans (Nat.pow_dvd_pow 2 (by decide)) hdiv
    rw [hY, hn'] at hlt
    have h1 : n' < hi * Dn := Nat.lt_of_mul_lt_mul_left hlt
    have h2 : 2 ^ 128 * (n' + 1) ≤ 2 ^ 128 * (hi * Dn) := Nat.mul_le_mul_left _ h1
    rw [Nat.mul_add, Nat.mul_one, ← hn', ← hY] at h2
    have h3 : 2 ^ 64 * Dn < 2 ^ 128 := by
      calc 2 ^ 64 * Dn < 2 ^ 64 * 2 ^ 63 := Nat.mul_lt_mul_of_pos_left hDn63 (Nat.two_pow_pos _)
        _ ≤ 2 ^ 128 := by rw [← Nat.pow_add]; exact Nat.pow_le_pow_right (by decide) (by decide)
    have h4 : hi * (2 ^ 64 * (2 ^ 64 * Dn)) ≤ (hi * 2 ^ 64 + lo) * (2 ^ 64 * Dn) := by
      calc hi * (2 ^ 64 * (2 ^ 64 * Dn)) = (hi * 2 ^ 64) * (2 ^ 64 * Dn) := by ring
        _ ≤ (hi * 2 ^ 64 + lo) * (2 ^ 64 * Dn) := Nat.mul_le_mul_right _ (Nat.le_add_right _ _)
    generalize hi * (2 ^ 64 * (2 ^ 64 * Dn)) = Y at h2 h4
    generalize (hi * 2 ^ 64 + lo) * (2 ^ 64 * Dn) = Z at h4 hgt
    generalize 2 ^ 64 * Dn = W at h3 hgt
    clear * - h2 h3 h4 hgt
    omega
  · have hXw : wn * (hi5 * 2 ^ 64 + lo5) ≤ (hi + 2) * 2 ^ 64 * 2 ^ 64 := by
      generalize wn * (hi5 * 2 ^ 64 + lo5) = X at *
      generalize 2 ^ 64 = B at hzup hwn2 hlo ⊢
      have e4 : (hi + 2) * B * B = (hi * B + B) * B + B * B := by ring
      rcases hzup with h | ⟨_, _, h⟩
      · have e3 : (hi * B + lo + 1) * B ≤ (hi * B + B) * B := Nat.mul_le_mul_right _ (by omega)
        rw [e4]
        generalize (hi * B + B) * B = Y at e3 ⊢
        generalize (hi * B + lo + 1) * B = Y' at h e3
        omega
      · have e3 : (hi * B + lo + B) * B ≤ (hi * B + 2 * B) * B := Nat.mul_le_mul_right _ (by omega)
        have e7 : (hi * B + 2 * B) * B = (hi + 2) * B * B := by ring
        rw [e7] at e3
        generalize (hi * B + lo + B) * B = Y at h e3
        generalize (hi + 2) * B * B = Z at e3 ⊢
        omega
    calc N < wn * (hi5 * 2 ^ 64 + lo5) * Dn := hNlt
      _ ≤ ((hi + 2) * 2 ^ 64 * 2 ^ 64) * Dn := Nat.mul_le_mul_right _ hXw
      _ = (hi + 2) * (2 ^ 64 * (2 ^ 64 * Dn)) := by ring

/-! ## rows `0 ≤ q ≤ 308`, uniformly -/

/-- the facts of `rows_exact` and `rows_pos` in one shape -/
theorem rows_nonneg (q : Nat) (h308 : q ≤ 308) :
    ∃ hi5 lo5, Gen.Lemire.powerOfFive128[q + 342]? = some (hi5, lo5) ∧ hi5 < 2 ^ 64 ∧ lo5 < 2 ^ 64 ∧
      2 ^ 63 ≤ hi5 ∧
      (hi5 * 2 ^ 64 + lo5) * 2 ^ (bitlen (5 ^ q) - 128) ≤ 5 ^ q * 2 ^ (128 - bitlen (5 ^ q)) ∧
      5 ^ q * 2 ^ (128 - bitlen (5 ^ q)) < (hi5 * 2 ^ 64 + lo5 + 1) * 2 ^ (bitlen (5 ^ q) - 128) ∧
      power (wrapI32 q) = 62 + q + bitlen (5 ^ q) ∧ bitlen (5 ^ q) ≤ 716 := by
  by_cases h27 : q ≤ 27
  · obtain ⟨hrow, hb63, hb1, hpow⟩ := rows_exact q h27
    have h5 : (5 : Nat) ^ q ≠ 0 := Nat.ne_of_gt (Nat.pow_pos (by decide))
    have hlow := bitlen_lower h5
    have hup := bitlen_upper (5 ^ q)
    generalize bitlen (5 ^ q) = b at *
    refine ⟨_, 0, hrow, ?_, Nat.two_pow_pos _, ?_, ?_, ?_, hpow, by omega⟩
    · calc 5 ^ q * 2 ^ (64 - b) < 2 ^ b * 2 ^ (64 - b) := Nat.mul_lt_mul_of_pos_right hup (Nat.two_pow_pos _)
        _ = 2 ^ 64 := by rw [← Nat.pow_add, show b + (64 - b) = 64 by omega]
    · calc 2 ^ 63 = 2 ^ (b - 1) * 2 ^ (64 - b) := by rw [← Nat.pow_add, show b - 1 + (64 - b) = 63 by omega]
        _ ≤ 5 ^ q * 2 ^ (64 - b) := Nat.mul_le_mul_right _ hlow
    · have : b - 128 = 0 := by omega
      rw [this, Nat.pow_zero, Nat.mul_one, Nat.add_zero, Nat.mul_assoc, ← Nat.pow_add,
        show 64 - b + 64 = 128 - b by omega]
    · have : b - 128 = 0 := by omega
      rw [this, Nat.pow_zero, Nat.mul_one, Nat.add_zero, Nat.mul_assoc, ← Nat.pow_add,
        show 64 - b + 64 = 128 - b by omega]
      exact Nat.lt_succ_self _
  · obtain ⟨hi5, lo5, h1, h2, h3, h4, _, h6, h7, h8, h9, _⟩ := rows_pos q (by omega) h308
    exact ⟨hi5, lo5, h1, h2, h3, h4, h6, h7, h8, h9⟩

theorem fb_eq_pos0 (q b lz hilz K S Lf : Nat) (Cb P : Int) (hL : (Lf : Int) = Cb - 1)
    (hP : P = 62 + (q : Int) + (b : Int) + Cb - hilz - lz - 62) (hrel : (S : Int) + (P - 1) = K) :
    (128 + (b - 128)) + (q + Lf + S) = (hilz + K) + (lz + (128 - b)) := by omega

/-- `estOK_pos` for every row `0 ≤ q ≤ 308` -/
theorem estOK_pos0 {F p eb} (lay : Layout F p eb) (q b lz hi w : Nat) (hb716 : b ≤ 716)
    (hq308 : q ≤ 308) (hlz : lz ≤ 63) (hhi : hi < 2 ^ 64) (hhi62 : 2 ^ 62 ≤ hi)
    (hpow : power (wrapI32 (q : Int)) = 62 + (q : Int) + (b : Int))
    (hlow : hi * (2 ^ 64 * (2 ^ 64 * 2 ^ (b - 128))) ≤ w * 2 ^ lz * 5 ^ q * 2 ^ (128 - b))
    (hupp : w * 2 ^ lz * 5 ^ q * 2 ^ (128 - b) < (hi + 2) * (2 ^ 64 * (2 ^ 64 * 2 ^ (b - 128)))) :
    EstOK F p (computeErrorScaled F (q : Int) hi lz) (w * 10 ^ q) 1 := by
  obtain ⟨hilz, hh1, hm, hm1, hm2, he⟩ := ces_fields F (q : Int) hi lz hhi hhi62
  have hLeq : (L F.fmt : Int) = F.C.exponentBias - 1 := by
    rw [L_eq lay, lay.bias]; have := lay.hL127; omega
  have hbias := lay.bias
  have hb1024 := lay.hb1024
  have hp64 := lay.hp64
  unfold EstOK
  rw [hm, he]
  refine ⟨hm1, hm2, by rw [hpow, hbias]; omega, by rw [hpow, hbias]; omega, ?_, ?_⟩
  all_goals
    rw [show power (wrapI32 (q : Int)) + F.C.exponentBias - (hilz : Int) - (lz : Int) - 62 + invalidFp - invalidFp =
      power (wrapI32 (q : Int)) + F.C.exponentBias - (hilz : Int) - (lz : Int) - 62 by omega]
    generalize hP : power (wrapI32 (q : Int)) + F.C.exponentBias - (hilz : Int) - (lz : Int) - 62 = P
    have hrel := shift_rel p (by have := lay.hp64; omega) P
    generalize hK : (P + 64 - p - 1).toNat = K at *
    generalize hS : shiftOf p P = S at *
    have heq := fb_eq_pos0 q b lz hilz K S (L F.fmt) F.C.exponentBias P hLeq (by rw [← hP, hpow]) hrel
    have h10 : (10 : Nat) ^ q = 5 ^ q * 2 ^ q := by rw [← Nat.mul_pow]
  · have h1 : hi * 2 ^ (128 + (b - 128)) ≤ (w * 5 ^ q) * 2 ^ (lz + (128 - b)) := by
      calc hi * 2 ^ (128 + (b - 128)) = hi * (2 ^ 64 * (2 ^ 64 * 2 ^ (b - 128))) := by
            rw [Nat.pow_add, show (2 : Nat) ^ 128 = 2 ^ 64 * 2 ^ 64 by rw [← Nat.pow_add]]; ring
        _ ≤ w * 2 ^ lz * 5 ^ q * 2 ^ (128 - b) := hlow
        _ = (w * 5 ^ q) * 2 ^ (lz + (128 - b)) := by rw [Nat.pow_add]; ring
    have h2 := pow_shift_le hi (w * 5 ^ q) _ _ (hilz + K) (q + L F.fmt + S) h1 heq
    calc hi * 2 ^ hilz * 2 ^ K * 1 = hi * 2 ^ (hilz + K) := by rw [Nat.pow_add]; ring
      _ ≤ (w * 5 ^ q) * 2 ^ (q + L F.fmt + S) := h2
      _ = w * 10 ^ q * 2 ^ L F.fmt * 2 ^ S := by rw [h10, Nat.pow_add, Nat.pow_add]; ring
  · have h1 : (w * 5 ^ q) * 2 ^ (lz + (128 - b)) < (hi + 2) * 2 ^ (128 + (b - 128)) := by
      calc (w * 5 ^ q) * 2 ^ (lz + (128 - b)) = w * 2 ^ lz * 5 ^ q * 2 ^ (128 - b) := by rw [Nat.pow_add]; ring
        _ < (hi + 2) * (2 ^ 64 * (2 ^ 64 * 2 ^ (b - 128))) := hupp
        _ = (hi + 2) * 2 ^ (128 + (b - 128)) := by
            rw [Nat.pow_add, show (2 : Nat) ^ 128 = 2 ^ 64 * 2 ^ 64 by rw [← Nat.pow_add]]; ring
    have h2 := pow_shift_lt (hi + 2) (w * 5 ^ q) _ _ (hilz + K) (q + L F.fmt + S) h1 heq
    have h4 : 2 * 2 ^ hilz ≤ 4 := by
      rcases Nat.le_one_iff_eq_zero_or_eq_one.mp hh1 with h | h <;> rw [h] <;> decide
    calc w * 10 ^ q * 2 ^ L F.fmt * 2 ^ S = (w * 5 ^ q) * 2 ^ (q + L F.fmt + S) := by
          rw [h10, Nat.pow_add, Nat.pow_add]; ring
      _ < (hi + 2) * 2 ^ (hilz + K) := h2
      _ = (hi * 2 ^ hilz + 2 * 2 ^ hilz) * 2 ^ K := by rw [Nat.pow_add]; ring
      _ ≤ (hi * 2 ^ hilz + 4) * 2 ^ K := Nat.mul_le_mul_right _ (by omega)
      _ = (hi * 2 ^ hilz + 4) * 2 ^ K * 1 := by ring

/-! ## `compute_error` -/

/-- **`compute_error` on the rows `0 ≤ q ≤ 308`** answers with an estimate of `w·10^q` -/
theorem computeError_estOK_nonneg {F p eb} (lay : Layout F p eb) (q : Nat) (h308 : q ≤ 308) (w : Nat) (hw0 : w ≠ 0)
    (hw : w < 2 ^ 64) :
    ∃ fp, computeError F (q : Int) w = .ok fp ∧ EstOK F p fp (w * 10 ^ q) 1 := by
  have hp := lay.hp; have hp64 := lay.hp64; have heb := lay.heb
  have hms := lay.msNat
  have hp61 : p ≤ 61 := by
    have h1 := lay.hpb
    have : eb ≠ 2 := by intro h; subst h; omega
    omega
  obtain ⟨hi5, lo5, hrow, hhi5, hlo5, hhi5n, hTlo, hThi, hpow, hb716⟩ := rows_nonneg q h308
  obtain ⟨hlz, hwn1, hwn2, hshl⟩ := clz_norm hw0 hw
  have hidx : ((q : Int) + 342).toNat = q + 342 := by omega
  have hprec : F.ms + litPrecisionExtra = p + 2 := by rw [hms]; show p - 1 + 3 = p + 2; omega
  obtain ⟨lo, hi, hcpa, hlo, hhi, hzlow, hzup⟩ := cpa_bounds (q : Int) (by omega) (by omega) hi5 lo5
    (by rw [hidx]; exact hrow) hhi5 hlo5 (w * 2 ^ clz64 w) (F.ms + litPrecisionExtra) (by rw [hprec]; omega) hwn2
  unfold computeError
  simp only [hshl, hcpa]
  generalize hlzv : clz64 w = lz at *
  generalize hb5 : bitlen (5 ^ q) = b at *
  have hwn0 : 0 < w * 2 ^ lz := by have := Nat.two_pow_pos 63; omega
  have hNlo : w * 2 ^ lz * (hi5 * 2 ^ 64 + lo5) * 2 ^ (b - 128) ≤ w * 2 ^ lz * 5 ^ q * 2 ^ (128 - b) := by
    calc w * 2 ^ lz * (hi5 * 2 ^ 64 + lo5) * 2 ^ (b - 128)
        = w * 2 ^ lz * ((hi5 * 2 ^ 64 + lo5) * 2 ^ (b - 128)) := by ring
      _ ≤ w * 2 ^ lz * (5 ^ q * 2 ^ (128 - b)) := Nat.mul_le_mul_left _ hTlo
      _ = w * 2 ^ lz * 5 ^ q * 2 ^ (128 - b) := by ring
  have hNhi : w * 2 ^ lz * 5 ^ q * 2 ^ (128 - b) <
      (w * 2 ^ lz * (hi5 * 2 ^ 64 + lo5) + w * 2 ^ lz) * 2 ^ (b - 128) := by
    calc w * 2 ^ lz * 5 ^ q * 2 ^ (128 - b) = w * 2 ^ lz * (5 ^ q * 2 ^ (128 - b)) := by ring
      _ < w * 2 ^ lz * ((hi5 * 2 ^ 64 + lo5 + 1) * 2 ^ (b - 128)) := Nat.mul_lt_mul_of_pos_left hThi hwn0
      _ = (w * 2 ^ lz * (hi5 * 2 ^ 64 + lo5) + w * 2 ^ lz) * 2 ^ (b - 128) := by ring
  obtain ⟨hhi62, hlow, hupp⟩ := hi_bounds_down (w * 2 ^ lz) hi5 lo5 lo hi (w * 2 ^ lz * 5 ^ q * 2 ^ (128 - b))
    (2 ^ (b - 128)) hwn1 hwn2 hhi5n hlo hhi hzlow (hzup.imp id (fun h => ⟨h.2.1, h.2.2⟩)) (Nat.two_pow_pos _)
    hNlo hNhi
  exact ⟨_, rfl, estOK_pos0 lay q b lz hi w hb716 h308 hlz hhi hhi62 hpow hlow hupp⟩

/-- **`compute_error` on the rows `−342 ≤ −e ≤ −1`** answers with an estimate of `w / 10^e` -/
theorem computeError_estOK_neg {F p eb} (lay : Layout F p eb) (e : Nat) (h1 : 1 ≤ e) (h342 : e ≤ 342) (w : Nat)
    (hw0 : w ≠ 0) (hw : w < 2 ^ 64) :
    ∃ fp, computeError F (-(e : Int)) w = .ok fp ∧ EstOK F p fp w (10 ^ e) := by
  have hp := lay.hp; have hp64 := lay.hp64; have heb := lay.heb
  have hms := lay.msNat
  have hp61 : p ≤ 61 := by
    have h1 := lay.hpb
    have : eb ≠ 2 := by intro h; subst h; omega
    omega
  obtain ⟨hlz, hwn1, hwn2, hshl⟩ := clz_norm hw0 hw
  have hidx : (-(e : Int) + 342).toNat = 342 - e := by omega
  have hprec : F.ms + litPrecisionExtra = p + 2 := by rw [hms]; show p - 1 + 3 = p + 2; omega
  have hwn0 : 0 < w * 2 ^ clz64 w := by have := Nat.two_pow_pos 63; omega
  have h5pos : 0 < 5 ^ e := Nat.pow_pos (by decide)
  by_cases h27 : e ≤ 27
  · obtain ⟨hi5, lo5, hrow, hhi5, hlo5, hhi5n, hb3, hb63, h5lt, hTgt, hTle, hpow⟩ := rows_neg_small e h1 h27
    obtain ⟨lo, hi, hcpa, hlo, hhi, hzlow, hzup⟩ := cpa_bounds (-(e : Int)) (by omega) (by omega) hi5 lo5
      (by rw [hidx]; exact hrow) hhi5 hlo5 (w * 2 ^ clz64 w) (F.ms + litPrecisionExtra) (by rw [hprec]; omega) hwn2
    unfold computeError
    simp only [hshl, hcpa]
    generalize hlzv : clz64 w = lz at *
    generalize hb5 : bitlen (5 ^ e) = b at *
    have hNlt : w * 2 ^ lz * 2 ^ (b + 127) < w * 2 ^ lz * (hi5 * 2 ^ 64 + lo5) * 5 ^ e := by
      rw [Nat.mul_assoc (w * 2 ^ lz)]; exact Nat.mul_lt_mul_of_pos_left hTgt hwn0
    have hNge : w * 2 ^ lz * (hi5 * 2 ^ 64 + lo5) * 5 ^ e ≤ w * 2 ^ lz * 2 ^ (b + 127) + w * 2 ^ lz * 5 ^ e := by
      rw [Nat.mul_assoc (w * 2 ^ lz), ← Nat.mul_add]; exact Nat.mul_le_mul_left _ hTle
    have hdiv : 2 ^ 129 ∣ w * 2 ^ lz * 2 ^ (b + 127) :=
      Dvd.dvd.mul_left (Nat.pow_dvd_pow 2 (by omega)) _
    have hmb : 64 - (F.ms + litPrecisionExtra) = 62 - p := by rw [hprec]; omega
    rw [hmb] at hzup
    obtain ⟨hhi62, hlow, hupp⟩ := hi_bounds_up hp61 (w * 2 ^ lz) hi5 lo5 lo hi (w * 2 ^ lz * 2 ^ (b + 127)) (5 ^ e)
      hwn1 hwn2 hhi5n hlo hhi hzlow hzup h5pos h5lt hNlt hNge hdiv
    exact ⟨_, rfl, estOK_neg lay e b lz hi w (by omega) h342 hlz hhi hhi62 hpow hlow hupp⟩
  · obtain ⟨hi5, lo5, hrow, hhi5, hlo5, hhi5n, hb66, hTlo, hThi, hpow, hb795⟩ := rows_neg e (by omega) h342
    obtain ⟨lo, hi, hcpa, hlo, hhi, hzlow, hzup⟩ := cpa_bounds (-(e : Int)) (by omega) (by omega) hi5 lo5
      (by rw [hidx]; exact hrow) hhi5 hlo5 (w * 2 ^ clz64 w) (F.ms + litPrecisionExtra) (by rw [hprec]; omega) hwn2
    unfold computeError
    simp only [hshl, hcpa]
    generalize hlzv : clz64 w = lz at *
    generalize hb5 : bitlen (5 ^ e) = b at *
    have hNlo : w * 2 ^ lz * (hi5 * 2 ^ 64 + lo5) * 5 ^ e ≤ w * 2 ^ lz * 2 ^ (b + 127) := by
      rw [Nat.mul_assoc]; exact Nat.mul_le_mul_left _ hTlo
    have hNhi : w * 2 ^ lz * 2 ^ (b + 127) < (w * 2 ^ lz * (hi5 * 2 ^ 64 + lo5) + w * 2 ^ lz) * 5 ^ e := by
      calc w * 2 ^ lz * 2 ^ (b + 127) < w * 2 ^ lz * ((hi5 * 2 ^ 64 + lo5 + 1) * 5 ^ e) :=
            Nat.mul_lt_mul_of_pos_left hThi hwn0
        _ = (w * 2 ^ lz * (hi5 * 2 ^ 64 + lo5) + w * 2 ^ lz) * 5 ^ e := by ring
    obtain ⟨hhi62, hlow, hupp⟩ := hi_bounds_down (w * 2 ^ lz) hi5 lo5 lo hi (w * 2 ^ lz * 2 ^ (b + 127))
      (5 ^ e) hwn1 hwn2 hhi5n hlo hhi hzlow (hzup.imp id (fun h => ⟨h.2.1, h.2.2⟩)) h5pos hNlo hNhi
    exact ⟨_, rfl, estOK_neg lay e b lz hi w hb795 h342 hlz hhi hhi62 hpow hlow hupp⟩

end LexVerif.Proof.Lemire
