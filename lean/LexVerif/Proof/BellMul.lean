import LexVerif.Proof.BinaryCorrect
import Mathlib.Tactic.Ring
import Mathlib.Tactic.Linarith
/-!
# Proof.BellMul — `bellerophon::mul` and `normalize`

`mul_eq`: the four-partial-product multiplication with its `1 << 31` rounding term is exactly the
128-bit product rounded half-up to its high 64 bits: `(x·y + 2^63) / 2^64`, no wrap-around.
`normalize_eq`: shift left by the number of leading zeros.
-/
namespace LexVerif.Proof.Bell
open LexVerif.Spec LexVerif.Model LexVerif.Model.Bellerophon

theorem mul_mant (x y : Nat) (hx : x < 2 ^ 64) (hy : y < 2 ^ 64) (ex ey : Int) :
    mul ⟨x, ex⟩ ⟨y, ey⟩ = ⟨(x * y + 2 ^ 63) / 2 ^ 64, ex + ey + 64⟩ := by
  unfold mul shr wrap64
  simp only []
  have hx1 : x / 2 ^ 32 < 2 ^ 32 := by rw [Nat.div_lt_iff_lt_mul (by decide)]; exact hx
  have hy1 : y / 2 ^ 32 < 2 ^ 32 := by rw [Nat.div_lt_iff_lt_mul (by decide)]; exact hy
  have hx0 : x % 2 ^ 32 < 2 ^ 32 := Nat.mod_lt _ (by decide)
  have hy0 : y % 2 ^ 32 < 2 ^ 32 := Nat.mod_lt _ (by decide)
  have hxs := Nat.div_add_mod x (2 ^ 32)
  have hys := Nat.div_add_mod y (2 ^ 32)
  generalize x / 2 ^ 32 = x1 at *
  generalize x % 2 ^ 32 = x0 at *
  generalize y / 2 ^ 32 = y1 at *
  generalize y % 2 ^ 32 = y0 at *
  have hA : x1 * y1 < 2 ^ 32 * 2 ^ 32 := Nat.mul_lt_mul'' hx1 hy1
  have hB : x1 * y0 < 2 ^ 32 * 2 ^ 32 := Nat.mul_lt_mul'' hx1 hy0
  have hC : x0 * y1 < 2 ^ 32 * 2 ^ 32 := Nat.mul_lt_mul'' hx0 hy1
  have hD : x0 * y0 < 2 ^ 32 * 2 ^ 32 := Nat.mul_lt_mul'' hx0 hy0
  have hA' : x1 * y1 ≤ (2 ^ 32 - 1) * (2 ^ 32 - 1) := Nat.mul_le_mul (by omega) (by omega)
  have hprod : x * y = x1 * y1 * 2 ^ 64 + (x1 * y0 + x0 * y1) * 2 ^ 32 + x0 * y0 := by
    rw [← hxs, ← hys]; ring
  have hxy : x * y ≤ (2 ^ 64 - 1) * (2 ^ 64 - 1) := Nat.mul_le_mul (by omega) (by omega)
  rw [hprod] at hxy
  rw [hprod]
  generalize x1 * y1 = A at *
  generalize x1 * y0 = B at *
  generalize x0 * y1 = C at *
  generalize x0 * y0 = D at *
  norm_num at *
  congr 1
  omega

theorem normalize_eq (m : Nat) (e : Int) (h0 : m ≠ 0) (hm : m < 2 ^ 64) :
    normalize ⟨m, e⟩ = (⟨m * 2 ^ clz64 m, e - clz64 m⟩, clz64 m) := by
  unfold normalize
  simp only [h0, ne_eq, not_false_eq_true, if_true]
  rw [(LexVerif.Proof.BinaryCorrect.clz_norm h0 hm).2.2.2]

end LexVerif.Proof.Bell
