import LexVerif.Proof.SepBasic
/-!
# Proof.SepFree — the iterators on inputs that do not contain the separator byte

Canonical forms: on such inputs `peek` never moves, `parse_digits` consumes the longest prefix of digit bytes,
`skip_zeros` the leading `'0'` bytes, and both add what they consumed to the cursor and to the component's count.
-/
namespace LexVerif.Proof.Sep
open LexVerif LexVerif.Model
open LexVerif.Props.C12

/-- the input does not contain the digit-separator byte of the format -/
def NoSep (c : Cfg) (s : List Nat) : Prop := ∀ x ∈ s, c.isSep x = false

theorem NoSep.drop {c : Cfg} {s : List Nat} (h : NoSep c s) (n : Nat) : NoSep c (s.drop n) :=
  fun x hx => h x (List.mem_of_mem_drop hx)

theorem NoSep.take {c : Cfg} {s : List Nat} (h : NoSep c s) (n : Nat) : NoSep c (s.take n) :=
  fun x hx => h x (List.mem_of_mem_take hx)

theorem noSep_of_sep_zero (c : Cfg) (h : c.digitSeparator = 0) (s : List Nat) : NoSep c s := by
  intro x _; simp [Cfg.isSep, h]

/-- on a separator-free buffer every skip iterator's `peek` is `slc.get(index)` -/
theorem peek_nosep (c : Cfg) (k : Comp) (b : Bytes) (hn : NoSep c b.slc) (hk : c.skip k ≠ .unreachable) :
    peek c k b = .ok (b.slc[b.index]?, b) := by
  unfold peek
  split
  · rfl
  · next p _ =>
    simp only [peekPred]
    cases hv : b.slc[b.index]? with
    | none => rfl
    | some v =>
      have : c.isSep v = false := hn v (List.mem_of_getElem? hv)
      simp [this]
  · next h => exact absurd h hk

/-- advance the cursor by `n` digits of component `k` (cursor and, with `format`, the component's count) -/
def adv (c : Cfg) (k : Comp) (n : Nat) (b : Bytes) : Bytes :=
  let f := if c.feats.format then n else 0
  match k with
  | .integer => { b with index := b.index + n, ic := b.ic + f }
  | .fraction => { b with index := b.index + n, fc := b.fc + f }
  | .exponent => { b with index := b.index + n, ec := b.ec + f }
  | .special => { b with index := b.index + n }

theorem adv_zero (c : Cfg) (k : Comp) (b : Bytes) : adv c k 0 b = b := by
  cases k <;> simp [adv]

theorem adv_succ (c : Cfg) (k : Comp) (n : Nat) (b : Bytes) :
    adv c k n (Bytes.incCount c k { b with index := b.index + 1 }) = adv c k (n + 1) b := by
  cases k <;> cases hf : c.feats.format <;> simp [adv, Bytes.incCount, hf] <;> omega

@[simp] theorem adv_slc (c : Cfg) (k : Comp) (n : Nat) (b : Bytes) : (adv c k n b).slc = b.slc := by
  cases k <;> rfl

@[simp] theorem adv_index (c : Cfg) (k : Comp) (n : Nat) (b : Bytes) : (adv c k n b).index = b.index + n := by
  cases k <;> rfl

/-- digit values of the longest prefix of digit bytes -/
def digitsPrefix (radix : Nat) : List Nat → List Nat
  | [] => []
  | x :: xs =>
    match charToDigit x radix with
    | some d => d :: digitsPrefix radix xs
    | none => []

theorem digitsPrefix_length_le (radix : Nat) (l : List Nat) : (digitsPrefix radix l).length ≤ l.length := by
  induction l with
  | nil => simp [digitsPrefix]
  | cons x xs ih =>
    simp only [digitsPrefix]
    split <;> simp <;> omega

theorem drop_of_get {s : List Nat} {i x : Nat} (h : s[i]? = some x) : s.drop i = x :: s.drop (i + 1) := by
  rcases List.getElem?_eq_some_iff.mp h with ⟨hl, hx⟩
  rw [List.drop_eq_getElem_cons hl, hx]

theorem drop_of_none {s : List Nat} {i : Nat} (h : s[i]? = none) : s.drop i = [] := by
  simp only [List.getElem?_eq_none_iff] at h
  exact List.drop_eq_nil_of_le h

/-- `parse_digits` on a separator-free buffer (release build) -/
theorem parseDigitsLoop_nosep (c : Cfg) (k : Comp) (radix : Nat) (hd : c.debug = false)
    (hk : c.skip k ≠ .unreachable) :
    ∀ (fuel : Nat) (b : Bytes), NoSep c b.slc → b.slc.length - b.index < fuel →
      parseDigitsLoop c k radix fuel b =
        .ok (digitsPrefix radix (b.slc.drop b.index),
             adv c k (digitsPrefix radix (b.slc.drop b.index)).length b) := by
  intro fuel
  induction fuel with
  | zero => intro b _ h; omega
  | succ n ih =>
    intro b hn hf
    unfold parseDigitsLoop
    rw [peek_nosep c k b hn hk]
    simp only [bind, Except.bind]
    cases hv : b.slc[b.index]? with
    | none => simp [drop_of_none hv, digitsPrefix, adv_zero, pure, Except.pure]
    | some ch =>
      have hlt : b.index < b.slc.length := (List.getElem?_eq_some_iff.mp hv).1
      simp only [drop_of_get hv, digitsPrefix]
      cases hdg : charToDigit ch radix with
      | none => simp [adv_zero, pure, Except.pure]
      | some d =>
        simp only [iterStep, stepUnchecked_release c _ b hd]
        have hi := incCount_spec c k { b with index := b.index + 1 }
        have hn2 : NoSep c (Bytes.incCount c k { b with index := b.index + 1 }).slc := by rw [hi.1]; exact hn
        have hf2 : (Bytes.incCount c k { b with index := b.index + 1 }).slc.length
            - (Bytes.incCount c k { b with index := b.index + 1 }).index < n := by
          rw [hi.1, hi.2]; simp only; omega
        rw [ih _ hn2 hf2, hi.1, hi.2]
        simp only [pure, Except.pure, List.length_cons, adv_succ]

theorem parseDigits_nosep (c : Cfg) (k : Comp) (radix : Nat) (hd : c.debug = false)
    (hk : c.skip k ≠ .unreachable) (b : Bytes) (hn : NoSep c b.slc) :
    parseDigits c k radix b =
      .ok (digitsPrefix radix (b.slc.drop b.index), adv c k (digitsPrefix radix (b.slc.drop b.index)).length b) :=
  parseDigitsLoop_nosep c k radix hd hk _ b hn (by omega)

/-- number of leading `'0'` bytes -/
def zerosPrefix : List Nat → Nat
  | [] => 0
  | x :: xs => if x = 48 then zerosPrefix xs + 1 else 0

theorem readIfValueCased_nosep (c : Cfg) (k : Comp) (v : Nat) (b : Bytes) (hd : c.debug = false)
    (hn : NoSep c b.slc) (hk : c.skip k ≠ .unreachable) :
    readIfValueCased c k v b =
      .ok (if b.slc[b.index]? = some v then (true, { b with index := b.index + 1 }) else (false, b)) := by
  unfold readIfValueCased
  rw [peek_nosep c k b hn hk]
  simp only [bind, Except.bind, iterStep, stepUnchecked_release c _ b hd]
  by_cases h : b.slc[b.index]? = some v <;> simp [h, pure, Except.pure]

theorem readIfValueUncased_nosep (c : Cfg) (k : Comp) (v : Nat) (b : Bytes) (hd : c.debug = false)
    (hn : NoSep c b.slc) (hk : c.skip k ≠ .unreachable) :
    readIfValueUncased c k v b =
      .ok (match b.slc[b.index]? with
           | some y => if eqIgnoreCase y v then (true, { b with index := b.index + 1 }) else (false, b)
           | none => (false, b)) := by
  unfold readIfValueUncased
  rw [peek_nosep c k b hn hk]
  simp only [bind, Except.bind, iterStep, stepUnchecked_release c _ b hd]
  cases b.slc[b.index]? with
  | none => rfl
  | some y => by_cases h : eqIgnoreCase y v = true <;> simp [h, pure, Except.pure]

/-- loop of `skip_zeros` on a separator-free buffer -/
theorem skipZerosLoop_nosep (c : Cfg) (k : Comp) (hd : c.debug = false) (hk : c.skip k ≠ .unreachable) :
    ∀ (fuel : Nat) (b : Bytes), NoSep c b.slc → b.slc.length - b.index < fuel →
      skipZerosLoop c k fuel b = .ok (adv c k (zerosPrefix (b.slc.drop b.index)) b) := by
  intro fuel
  induction fuel with
  | zero => intro b _ h; omega
  | succ n ih =>
    intro b hn hf
    unfold skipZerosLoop
    rw [readIfValueCased_nosep c k 48 b hd hn hk]
    simp only [bind, Except.bind]
    cases hv : b.slc[b.index]? with
    | none => simp [drop_of_none hv, zerosPrefix, adv_zero, pure, Except.pure]
    | some ch =>
      have hlt : b.index < b.slc.length := (List.getElem?_eq_some_iff.mp hv).1
      simp only [drop_of_get hv, zerosPrefix]
      by_cases h48 : ch = 48
      · subst h48
        simp only [if_true]
        have hi := incCount_spec c k { b with index := b.index + 1 }
        have hn2 : NoSep c (Bytes.incCount c k { b with index := b.index + 1 }).slc := by rw [hi.1]; exact hn
        have hf2 : (Bytes.incCount c k { b with index := b.index + 1 }).slc.length
            - (Bytes.incCount c k { b with index := b.index + 1 }).index < n := by
          rw [hi.1, hi.2]; simp only; omega
        rw [ih _ hn2 hf2, hi.1, hi.2]
        simp only [adv_succ]
      · simp [h48, adv_zero, pure, Except.pure]

end LexVerif.Proof.Sep
