import LexVerif.Proof.LemireExact
/-!
# Proof.LemireTrunc — `compute_float` on the truncated rows `28 ≤ q ≤ 308`

For `q ≥ 28` the table row `T = hi5·2^64 + lo5` is `5^q` normalised to 128 bits: exact for `q ≤ 55`
(`5^q < 2^128`), truncated above. `compute_product_approx` returns `z = hi·2^64 + lo` with
`z·2^64 ≤ wn·T`, and either `wn·T < (z+1)·2^64` (second multiplication done) or the low `64 − precision`
bits of `hi` are not all ones. **Stability**: unless `lo` is all ones on a truncated row (where the code falls
back), the `p + 1` bits `hi >> sh` are those of the exact product `wn·5^q`; an exact tie is impossible
(`5^q > 2^(p+1)`), so round-half-up on the round bit is round-half-even. No continued fractions.
-/
namespace LexVerif.Proof.Lemire
open LexVerif.Spec LexVerif.Model LexVerif.Model.Lemire
open LexVerif.Proof.RoundNE LexVerif.Proof.ExtRound LexVerif.Proof.BinaryCorrect

/-- what is needed of row `q ≥ 28` and of `power(q)` (checked by evaluation): words in range, normalised,
`T = ⌊5^q / 2^(b−128)⌋` resp. `5^q·2^(128−b)` with `b = bitlen (5^q) ≥ 65` -/
def rowPosOk (q : Nat) : Bool :=
  match Gen.Lemire.powerOfFive128[q + 342]? with
  | some (hi5, lo5) =>
    decide (hi5 < 2 ^ 64) && decide (lo5 < 2 ^ 64) && decide (2 ^ 63 ≤ hi5) && decide (65 ≤ bitlen (5 ^ q)) &&
    decide ((hi5 * 2 ^ 64 + lo5) * 2 ^ (bitlen (5 ^ q) - 128) ≤ 5 ^ q * 2 ^ (128 - bitlen (5 ^ q))) &&
    decide (5 ^ q * 2 ^ (128 - bitlen (5 ^ q)) < (hi5 * 2 ^ 64 + lo5 + 1) * 2 ^ (bitlen (5 ^ q) - 128)) &&
    decide (power (wrapI32 q) = 62 + q + bitlen (5 ^ q)) && decide (bitlen (5 ^ q) ≤ 716) &&
    (decide (55 < q) || decide (bitlen (5 ^ q) ≤ 128)) && (decide (q ≤ 55) || decide (129 ≤ bitlen (5 ^ q)))
  | none => false

theorem rows_pos_all : ((List.range 281).map (· + 28)).all rowPosOk = true := by decide +kernel

theorem rows_pos (q : Nat) (h28 : 28 ≤ q) (h308 : q ≤ 308) :
    ∃ hi5 lo5, Gen.Lemire.powerOfFive128[q + 342]? = some (hi5, lo5) ∧ hi5 < 2 ^ 64 ∧ lo5 < 2 ^ 64 ∧
      2 ^ 63 ≤ hi5 ∧ 65 ≤ bitlen (5 ^ q) ∧
      (hi5 * 2 ^ 64 + lo5) * 2 ^ (bitlen (5 ^ q) - 128) ≤ 5 ^ q * 2 ^ (128 - bitlen (5 ^ q)) ∧
      5 ^ q * 2 ^ (128 - bitlen (5 ^ q)) < (hi5 * 2 ^ 64 + lo5 + 1) * 2 ^ (bitlen (5 ^ q) - 128) ∧
      power (wrapI32 q) = 62 + q + bitlen (5 ^ q) ∧ bitlen (5 ^ q) ≤ 716 ∧
      (q ≤ 55 → bitlen (5 ^ q) ≤ 128) ∧ (55 < q → 129 ≤ bitlen (5 ^ q)) := by
  have hall := rows_pos_all
  rw [List.all_eq_true] at hall
  have := hall q (by
    rw [List.mem_map]; exact ⟨q - 28, List.mem_range.mpr (by omega), by omega⟩)
  unfold rowPosOk at this
  cases hrow : Gen.Lemire.powerOfFive128[q + 342]? with
  | none => rw [hrow] at this; simp at this
  | some r =>
    obtain ⟨hi5, lo5⟩ := r
    rw [hrow] at this
    simp only [Bool.and_eq_true, Bool.or_eq_true, decide_eq_true_eq] at this
    obtain ⟨⟨⟨⟨⟨⟨⟨⟨⟨h1, h2⟩, h3⟩, h4⟩, h5⟩, h6⟩, h7⟩, h8⟩, h9⟩, h10⟩ := this
    exact ⟨hi5, lo5, rfl, h1, h2, h3, h4, h5, h6, h7, h8, fun h => by omega, fun h => by omega⟩

theorem table_index (q : Int) (h1 : -342 ≤ q) (h2 : q ≤ 308) :
    asU64 (wrapI64 (q - Gen.Lemire.smallestPowerOfFive)) = (q + 342).toNat := by
  have hsm : Gen.Lemire.smallestPowerOfFive = -342 := rfl
  rw [hsm]
  unfold asU64 wrapI64 wrapI
  have h64 : (2 : Int) ^ 64 = 18446744073709551616 := by decide
  have h63 : (2 : Int) ^ (64 - 1) = 9223372036854775808 := by decide
  simp only [h64, h63]
  omega

theorem allOnes_shr (prec : Nat) (h : prec ≤ 64) : shr litAllOnes prec = 2 ^ (64 - prec) - 1 := by
  unfold shr litAllOnes
  have h64 : (0xFFFFFFFFFFFFFFFF : Nat) = 2 ^ 64 - 1 := by decide
  rw [h64]
  have hsplit : 2 ^ 64 = 2 ^ (64 - prec) * 2 ^ prec := by
    rw [← Nat.pow_add]; congr 1; omega
  have hp := Nat.two_pow_pos prec
  have hq := Nat.two_pow_pos (64 - prec)
  rw [hsplit]
  apply Nat.div_eq_of_lt_le
  · -- (A - 1) * B ≤ A * B - 1
    rw [Nat.sub_mul, Nat.one_mul]
    generalize 2 ^ (64 - prec) * 2 ^ prec = AB at *
    omega
  · rw [Nat.sub_add_cancel hq]
    generalize 2 ^ (64 - prec) * 2 ^ prec = AB at *
    omega

/-- **what `compute_product_approx` returns** for a normalised `wn` and a row `(hi5, lo5)`:
`z = hi·2^64 + lo` is a lower bound of the 192-bit product `wn·T` in units of `2^64`, tight to one unit after the
second multiplication, and to `2^64` units — with the `mb = 64 − precision` low bits of `hi` not all ones — without. -/
theorem cpa_bounds (q : Int) (hq1 : -342 ≤ q) (hq2 : q ≤ 308) (hi5 lo5 : Nat)
    (hrow : Gen.Lemire.powerOfFive128[(q + 342).toNat]? = some (hi5, lo5))
    (hhi5 : hi5 < 2 ^ 64) (hlo5 : lo5 < 2 ^ 64) (wn prec : Nat) (hprec : prec < 64) (hwn : wn < 2 ^ 64) :
    ∃ lo hi, computeProductApprox q wn prec = some (lo, hi) ∧ lo < 2 ^ 64 ∧ hi < 2 ^ 64 ∧
      (hi * 2 ^ 64 + lo) * 2 ^ 64 ≤ wn * (hi5 * 2 ^ 64 + lo5) ∧
      (wn * (hi5 * 2 ^ 64 + lo5) < (hi * 2 ^ 64 + lo + 1) * 2 ^ 64 ∨
        (hi % 2 ^ (64 - prec) ≠ 2 ^ (64 - prec) - 1 ∧ hi * 2 ^ 64 + lo = wn * hi5 ∧
          wn * (hi5 * 2 ^ 64 + lo5) < (hi * 2 ^ 64 + lo + 2 ^ 64) * 2 ^ 64)) := by
  have hF1 : wn * hi5 < 2 ^ 64 * 2 ^ 64 := by
    have h1 : wn * hi5 ≤ wn * 2 ^ 64 := Nat.mul_le_mul_left _ (Nat.le_of_lt hhi5)
    have h2 : wn * 2 ^ 64 < 2 ^ 64 * 2 ^ 64 := Nat.mul_lt_mul_of_pos_right hwn (Nat.two_pow_pos 64)
    exact Nat.lt_of_le_of_lt h1 h2
  have hS : wn * lo5 < 2 ^ 64 * 2 ^ 64 := by
    have h1 : wn * lo5 ≤ wn * 2 ^ 64 := Nat.mul_le_mul_left _ (Nat.le_of_lt hlo5)
    have h2 : wn * 2 ^ 64 < 2 ^ 64 * 2 ^ 64 := Nat.mul_lt_mul_of_pos_right hwn (Nat.two_pow_pos 64)
    exact Nat.lt_of_le_of_lt h1 h2
  have hX : wn * (hi5 * 2 ^ 64 + lo5) = wn * hi5 * 2 ^ 64 + wn * lo5 := by
    rw [Nat.mul_add, Nat.mul_assoc]
  have hXlt : wn * (hi5 * 2 ^ 64 + lo5) < 2 ^ 64 * 2 ^ 64 * 2 ^ 64 := by
    have h1 : hi5 * 2 ^ 64 + lo5 < 2 ^ 64 * 2 ^ 64 := by
      have h0 : hi5 + 1 ≤ 2 ^ 64 := hhi5
      have := Nat.mul_le_mul_right (2 ^ 64) h0
      rw [Nat.add_mul, Nat.one_mul] at this
      generalize 2 ^ 64 = B at this hlo5 ⊢
      generalize B * B = BB at this ⊢
      generalize hi5 * B = A at this ⊢
      omega
    have h2 : wn * (hi5 * 2 ^ 64 + lo5) ≤ wn * (2 ^ 64 * 2 ^ 64) := Nat.mul_le_mul_left _ (Nat.le_of_lt h1)
    have h3 : wn * (2 ^ 64 * 2 ^ 64) < 2 ^ 64 * (2 ^ 64 * 2 ^ 64) :=
      Nat.mul_lt_mul_of_pos_right hwn (Nat.mul_pos (Nat.two_pow_pos 64) (Nat.two_pow_pos 64))
    rw [Nat.mul_assoc]
    exact Nat.lt_of_le_of_lt h2 h3
  rw [hX] at hXlt ⊢
  have hdivF : wn * hi5 / 2 ^ 64 < 2 ^ 64 := by
    rw [Nat.div_lt_iff_lt_mul (Nat.two_pow_pos _)]; exact hF1
  have hdivS : wn * lo5 / 2 ^ 64 < 2 ^ 64 := by
    rw [Nat.div_lt_iff_lt_mul (Nat.two_pow_pos _)]; exact hS
  have hmask : shr litAllOnes prec + 1 = 2 ^ (64 - prec) := by
    rw [allOnes_shr prec (by omega)]; have := Nat.two_pow_pos (64 - prec); omega
  unfold computeProductApprox
  simp only [table_index q hq1 hq2, hrow, fullMultiplication, if_pos hprec, hmask,
    Nat.mod_eq_of_lt hdivF, Nat.mod_eq_of_lt hdivS]
  rw [allOnes_shr prec (by omega)]
  have hdmF := Nat.div_add_mod (wn * hi5) (2 ^ 64)
  have hdmS := Nat.div_add_mod (wn * lo5) (2 ^ 64)
  have hmF := Nat.mod_lt (wn * hi5) (Nat.two_pow_pos 64)
  have hmS := Nat.mod_lt (wn * lo5) (Nat.two_pow_pos 64)
  generalize wn * hi5 / 2 ^ 64 = fh at *
  generalize wn * hi5 % 2 ^ 64 = fl at *
  generalize wn * lo5 / 2 ^ 64 = sh' at *
  generalize wn * lo5 % 2 ^ 64 = sl at *
  generalize hF : wn * hi5 = F1 at *
  generalize hSv : wn * lo5 = S at *
  by_cases hm : fh % 2 ^ (64 - prec) = 2 ^ (64 - prec) - 1
  · rw [if_pos hm]
    unfold wrap64
    -- the sum of the two upper parts fits 128 bits
    have hsum : (fh * 2 ^ 64 + fl + sh') * 2 ^ 64 ≤ F1 * 2 ^ 64 + S := by
      rw [← hdmF, ← hdmS]
      generalize 2 ^ 64 = B at *
      have : (fh * B + fl + sh') * B = (B * fh + fl) * B + B * sh' := by
        rw [Nat.add_mul, Nat.mul_comm sh' B, Nat.mul_comm fh B]
      omega
    have hzlt : fh * 2 ^ 64 + fl + sh' < 2 ^ 64 * 2 ^ 64 := by
      apply Nat.lt_of_mul_lt_mul_right (a := 2 ^ 64)
      exact Nat.lt_of_le_of_lt hsum hXlt
    by_cases hc : fl + sh' < 2 ^ 64
    · have hlo : (fl + sh') % 2 ^ 64 = fl + sh' := Nat.mod_eq_of_lt hc
      rw [hlo, if_neg (by omega)]
      refine ⟨_, _, rfl, hc, hdivF, ?_, Or.inl ?_⟩
      · rw [← Nat.add_assoc]; exact hsum
      · rw [← hdmF, ← hdmS]
        generalize 2 ^ 64 = B at *
        have : (fh * B + (fl + sh') + 1) * B = (B * fh + fl) * B + B * sh' + B := by
          rw [Nat.add_mul, Nat.add_mul, Nat.add_mul, Nat.one_mul, Nat.mul_comm sh' B, Nat.mul_comm fh B,
            Nat.add_mul]
          omega
        omega
    · have hlo : (fl + sh') % 2 ^ 64 = fl + sh' - 2 ^ 64 := by
        rw [Nat.mod_eq_sub_mod (by omega)]; exact Nat.mod_eq_of_lt (by omega)
      have hfh1 : fh + 1 < 2 ^ 64 := by
        apply Classical.byContradiction; intro hcon
        have : 2 ^ 64 * 2 ^ 64 ≤ fh * 2 ^ 64 + 2 ^ 64 := by
          have := Nat.mul_le_mul_right (2 ^ 64) (show 2 ^ 64 ≤ fh + 1 by omega)
          rw [Nat.add_mul, Nat.one_mul] at this; exact this
        omega
      rw [hlo, if_pos (by omega), Nat.mod_eq_of_lt hfh1]
      have hz : (fh + 1) * 2 ^ 64 + (fl + sh' - 2 ^ 64) = fh * 2 ^ 64 + fl + sh' := by
        rw [Nat.add_mul, Nat.one_mul]; omega
      refine ⟨_, _, rfl, by omega, hfh1, ?_, Or.inl ?_⟩
      · rw [hz]; exact hsum
      · rw [hz, ← hdmF, ← hdmS]
        generalize 2 ^ 64 = B at *
        have : (fh * B + fl + sh' + 1) * B = (B * fh + fl) * B + B * sh' + B := by
          rw [Nat.add_mul, Nat.add_mul, Nat.add_mul, Nat.one_mul, Nat.mul_comm sh' B, Nat.mul_comm fh B,
            Nat.add_mul]
        rw [this]
        generalize (B * fh + fl) * B = U at *
        generalize B * sh' = V at *
        omega
  · rw [if_neg hm]
    refine ⟨_, _, rfl, hmF, hdivF, ?_, Or.inr ⟨hm, by rw [Nat.mul_comm]; omega, ?_⟩⟩
    · have : fh * 2 ^ 64 + fl = F1 := by rw [Nat.mul_comm]; omega
      rw [this]; omega
    · have : fh * 2 ^ 64 + fl = F1 := by rw [Nat.mul_comm]; omega
      rw [this, Nat.add_mul]
      omega

/-- **the second half of `compute_float`, abstractly** (normal range): `hi ∈ [2^62, 2^64)`, the `p + 1` bits
`m0 = hi >> sh` are the quotient `N / D'` of the exact value, the tie test is equivalent to "exact odd multiple above
an even quotient", and `power2 = En + 1 ≥ 1`. Then the answer is valid and encodes the half-to-even quotient
`rhe N (2·D')` at exponent field `En + 1`. -/
theorem cfRound_of_quot {F p eb sm lg rlo rhi} (LL : LemLayout F p eb sm lg rlo rhi) (q : Int) (lo hi lz : Nat)
    (hhi_lt : hi < 2 ^ 64) (hhi_ge : 2 ^ 62 ≤ hi) (u sh : Nat) (hu : hi / 2 ^ 63 = u) (hshv : u + 62 - p = sh)
    (N D' En : Nat) (hD : 0 < D') (hm0eq : hi / 2 ^ sh = N / D')
    (htie : ((decide (lo ≤ litTieLo) && decide (q ≥ F.C.minExponentRoundToEven) &&
        decide (q ≤ F.C.maxExponentRoundToEven) &&
        (hi / 2 ^ sh % (litTieMask + 1) == litTieVal) &&
        (shl64 (hi / 2 ^ sh) sh == hi)) = true) ↔ (N % D' = 0 ∧ N / D' % 4 = 1))
    (hpw2 : power (wrapI32 q) + (u : Int) - (lz : Int) - F.C.minimumExponent = (((En + 1 : Nat)) : Int)) :
    ∃ fp, cfRound F q lo hi lz = .ok fp ∧ 0 ≤ fp.exp ∧
      extendedToFloat F fp = encode F.fmt En (rhe N (D' * 2)) ∧
      2 ^ (p - 1) ≤ rhe N (D' * 2) ∧ rhe N (D' * 2) ≤ 2 * 2 ^ (p - 1) ∧ 2 ^ p ≤ hi / 2 ^ sh := by
  have lay := LL.lay
  have hf := lay.wf
  have hp := lay.hp; have hp64 := lay.hp64; have heb := lay.heb
  have hms := lay.msNat
  have hfp : F.fmt.p = p := by rw [lay.fmt]
  unfold cfRound shr
  simp only []
  rw [hms]
  have hext : litPrecisionExtra = 3 := rfl
  rw [hext, hu]
  have hu01 : u ≤ 1 := by
    rw [← hu]
    have : hi / 2 ^ 63 < 2 := by
      rw [Nat.div_lt_iff_lt_mul (Nat.two_pow_pos _)]; omega
    omega
  have hsh : u + 64 - (p - 1) - 3 = u + 62 - p := by omega
  rw [hsh, hshv]
  have hu_iff : (u = 1 ↔ 2 ^ 63 ≤ hi) := by
    rw [← hu]
    constructor
    · intro h
      apply Classical.byContradiction; intro hc
      have : hi / 2 ^ 63 = 0 := Nat.div_eq_of_lt (by omega)
      omega
    · intro h
      have : 1 ≤ hi / 2 ^ 63 := by
        rw [Nat.le_div_iff_mul_le (Nat.two_pow_pos _)]; omega
      omega
  have hm0lo : 2 ^ p ≤ hi / 2 ^ sh := by
    rw [Nat.le_div_iff_mul_le (Nat.two_pow_pos _), ← Nat.pow_add]
    by_cases h1 : u = 1
    · have := hu_iff.mp h1
      rw [show p + sh = 63 by omega]; exact this
    · rw [show p + sh = 62 by omega]; exact hhi_ge
  have hm0up : hi / 2 ^ sh < 2 * 2 ^ p := by
    rw [Nat.div_lt_iff_lt_mul (Nat.two_pow_pos _), ← Nat.pow_succ', ← Nat.pow_add]
    by_cases h1 : u = 1
    · rw [show p + 1 + sh = 64 by omega]; exact hhi_lt
    · have : ¬ 2 ^ 63 ≤ hi := fun h => h1 (hu_iff.mpr h)
      rw [show p + 1 + sh = 63 by omega]; omega
  rw [hpw2]
  rw [if_neg (by omega)]
  have hwrap : ∀ m, m < 2 ^ 63 → wrap64 (m + m % 2) = m + m % 2 := by
    intro m hm; unfold wrap64; apply Nat.mod_eq_of_lt; omega
  generalize htv : (decide (lo ≤ litTieLo) && decide (q ≥ F.C.minExponentRoundToEven) &&
        decide (q ≤ F.C.maxExponentRoundToEven) &&
        (hi / 2 ^ sh % (litTieMask + 1) == litTieVal) &&
        (shl64 (hi / 2 ^ sh) sh == hi)) = tie at *
  have hstep := round_step N D' (hi / 2 ^ sh) tie hD hm0eq (by rw [hm0eq]; exact htie)
  simp only [] at hstep
  have hp63 : 2 * 2 ^ p ≤ 2 ^ 63 := by
    rw [← Nat.pow_succ']; exact Nat.pow_le_pow_right (by decide) (by omega)
  refine (fun (hh : 2 ^ p ≤ hi / 2 ^ sh) => ?_) hm0lo
  generalize hm0 : hi / 2 ^ sh = m0 at *
  have hm1lt : (if tie = true then m0 - m0 % 2 else m0) < 2 ^ 63 := by split <;> omega
  rw [hwrap _ hm1lt, Nat.pow_one]
  simp only [decide_eq_true_eq] at *
  rw [hstep]
  have hge := rhe_ge N (D' * 2)
  have hquot : N / (D' * 2) = m0 / 2 := by
    rw [hm0eq, Nat.div_div_eq_div_mul]
  have hTT : 2 ^ p = 2 * 2 ^ (p - 1) := two_pow_pred (by omega)
  have hq0lo : 2 ^ (p - 1) ≤ rhe N (D' * 2) := by omega
  have hq0hi : rhe N (D' * 2) ≤ 2 * 2 ^ (p - 1) := by omega
  obtain ⟨fp, hfp1, hfp2, hfp3⟩ := assemble lay (rhe N (D' * 2)) En hq0lo hq0hi
  rw [hms] at hfp1
  simp only [decide_eq_true_eq] at hfp1
  exact ⟨fp, hfp1, hfp2, hfp3, hq0lo, hq0hi, hh⟩

end LexVerif.Proof.Lemire
