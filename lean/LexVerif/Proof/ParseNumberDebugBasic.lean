import LexVerif.Props.C12
/-!
# Proof.ParseNumberDebugBasic — vocabulary for "no panic, no fault" proofs about the float syntax model

`Safe r P`: the result `r` is `ok a` with `P a`, or an ordinary `Error::Kind(idx)`; never `panic`, never `fault`.
`Ctx c`: everything format validity (`formatError = none`, `checkRadix`) and `Bytes::IS_CONTIGUOUS` give.
-/
namespace LexVerif.Proof.PNDebug
open LexVerif LexVerif.Model

/-- `r` is neither a panic nor a fault, and satisfies `P` when it is `ok` -/
def Safe {α : Type} (r : Except Err α) (P : α → Prop) : Prop :=
  match r with
  | .ok a => P a
  | .error (.err _ _) => True
  | .error _ => False

theorem Safe.ok {α : Type} {P : α → Prop} {a : α} (h : P a) : Safe (.ok a) P := h
theorem Safe.pure {α : Type} {P : α → Prop} {a : α} (h : P a) : Safe (pure a : Except Err α) P := h
theorem Safe.err {α : Type} {P : α → Prop} {k : String} {i : Nat} : Safe (.error (.err k i) : Except Err α) P := trivial

theorem Safe.bind {α β : Type} {x : Except Err α} {f : α → Except Err β} {P : α → Prop} {Q : β → Prop}
    (hx : Safe x P) (hf : ∀ a, P a → Safe (f a) Q) : Safe (x >>= f) Q := by
  cases x with
  | ok a => exact hf a hx
  | error e => cases e <;> simp_all [Safe, Bind.bind, Except.bind]

theorem Safe.bind_eq {α β : Type} {x : Except Err α} {f : α → Except Err β} {P : α → Prop} {Q : β → Prop}
    (hx : Safe x P) (hf : ∀ a, x = .ok a → P a → Safe (f a) Q) : Safe (x >>= f) Q := by
  cases x with
  | ok a => exact hf a rfl hx
  | error e => cases e <;> simp_all [Safe, Bind.bind, Except.bind]

theorem Safe.mono {α : Type} {x : Except Err α} {P Q : α → Prop} (hx : Safe x P) (h : ∀ a, P a → Q a) : Safe x Q := by
  cases x with
  | ok a => exact h a hx
  | error e => cases e <;> simp_all [Safe]

theorem Safe.of_eq_ok {α : Type} {x : Except Err α} {P : α → Prop} {a : α} (hx : Safe x P) (h : x = .ok a) : P a := by
  subst h; exact hx

theorem Safe.not_panic {α : Type} {x : Except Err α} {P : α → Prop} (hx : Safe x P) (t : String) : x ≠ .error (.panic t) := by
  intro h; subst h; exact hx

theorem Safe.not_fault {α : Type} {x : Except Err α} {P : α → Prop} (hx : Safe x P) (t : String) : x ≠ .error (.fault t) := by
  intro h; subst h; exact hx

/-! ## digits -/

/-- `ch` is a digit of radix `r` (`char_to_digit_const` returns `Some`) -/
def IsDig (r ch : Nat) : Prop := charToValidDigit ch r < r

theorem charToDigit_some {ch r d : Nat} (h : charToDigit ch r = some d) : IsDig r ch := by
  unfold charToDigit at h
  unfold IsDig
  by_cases hc : charToValidDigit ch r < r
  · exact hc
  · simp [hc] at h

theorem not_isDig_zero {r : Nat} (hr : r ≤ 36) : ¬ IsDig r 0 := by
  unfold IsDig charToValidDigit
  split
  · omega
  · simp; omega

/-- all bytes of `s` at positions `[i, j)` exist and are digits of radix `r` -/
def DigRange (r : Nat) (s : List Nat) (i j : Nat) : Prop :=
  ∀ n, i ≤ n → n < j → ∃ x, s[n]? = some x ∧ IsDig r x

theorem DigRange.refl (r : Nat) (s : List Nat) (i : Nat) : DigRange r s i i := by
  intro n h1 h2; omega

theorem DigRange.trans {r : Nat} {s : List Nat} {i j k : Nat} (h1 : DigRange r s i j) (h2 : DigRange r s j k) :
    DigRange r s i k := by
  intro n hn1 hn2
  by_cases h : n < j
  · exact h1 n hn1 h
  · exact h2 n (by omega) hn2

theorem DigRange.step {r : Nat} {s : List Nat} {i : Nat} {x : Nat} (hx : s[i]? = some x) (hd : IsDig r x) :
    DigRange r s i (i + 1) := by
  intro n h1 h2
  have : n = i := by omega
  subst this
  exact ⟨x, hx, hd⟩

/-- `is_8digits` bytes are digits (radix ≤ 10) -/
theorem isDig_of_range {r x : Nat} (hr : r ≤ 10) (h1 : 48 ≤ x) (h2 : x < 48 + r) : IsDig r x := by
  unfold IsDig charToValidDigit
  simp [hr]
  omega

/-! ## the table fact behind `parse_u64_digits`' overflow check -/

theorem pow_step_radix : ∀ r : Fin 37, 2 ≤ r.val → r.val ^ (u64StepTable.getD (r.val - 2) 1) ≤ pow2_64 := by
  decide +kernel

theorem pow_u64Step (feats : Features) (r : Nat) (hv : isValidRadix feats r = true) :
    r ^ u64Step feats r ≤ pow2_64 := by
  unfold isValidRadix at hv
  unfold u64Step
  by_cases hrad : feats.radix = true
  · simp only [hrad, if_true] at hv ⊢
    simp only [Bool.and_eq_true, decide_eq_true_eq] at hv
    rw [if_pos hv]
    exact pow_step_radix ⟨r, by omega⟩ hv.1
  · simp only [hrad] at hv ⊢
    by_cases hp : feats.powerOfTwo = true
    · simp only [hp, if_true, Bool.false_eq_true, if_false] at hv ⊢
      simp only [Bool.or_eq_true, decide_eq_true_eq] at hv
      rcases hv with ((((h | h) | h) | h) | h) | h <;> subst h <;> decide
    · simp only [hp, Bool.false_eq_true, if_false, decide_eq_true_eq] at hv ⊢
      subst hv; decide

end LexVerif.Proof.PNDebug
