import LexVerif.Spec.Shortest
import LexVerif.Proof.RoundNEDecode
import Mathlib.Tactic.Ring
import Mathlib.Tactic.Linarith
/-!
# Proof.Shortest — `Spec.shortest` returns decimals inside the rounding cell of `bits`
-/
namespace LexVerif.Proof.RoundNE
open LexVerif.Spec

/-- `D·10^E` as a fraction -/
def decFrac (D : Nat) (E : Int) : Nat × Nat :=
  if E ≥ 0 then (D * 10 ^ E.toNat, 1) else (D, 10 ^ (-E).toNat)

/-- significand/exponent form of a finite pattern, matching both `decode` and `ival` -/
theorem decode_kq {f : Fmt} (hf : WF f) {b : Nat} (hb : b < f.infBits) :
    ∃ k q, b = k * 2 ^ (f.p - 1) + q ∧ (0 < k → 2 ^ (f.p - 1) ≤ q) ∧ q < 2 * 2 ^ (f.p - 1) ∧
      f.decode b = ⟨false, q, (k : Int) - (L f : Int)⟩ ∧ (f.expField b > 1 ↔ 0 < k) := by
  have hp := hf.hp
  have hbias := bias_pos hf
  have h1 := expField_lt hb
  have h4 : f.expField b = b / 2 ^ (f.p - 1) := by
    unfold Fmt.expField
    apply Nat.mod_eq_of_lt
    unfold Fmt.maxExpField at h1
    generalize b / 2 ^ (f.p - 1) = x at *
    generalize 2 ^ f.ebits = y at *
    omega
  rw [decode_finite hf hb, h4]
  have hTpos := Nat.two_pow_pos (f.p - 1)
  have d1 := Nat.div_add_mod b (2 ^ (f.p - 1))
  have d2 := Nat.mod_lt b hTpos
  generalize 2 ^ (f.p - 1) = T at *
  generalize b / T = ef at *
  generalize b % T = mf at *
  by_cases h0 : ef = 0
  · refine ⟨0, mf, ?_, by omega, by omega, ?_, by omega⟩
    · subst h0; omega
    · simp only [h0, if_true]; rw [eminLsb_eq hf]; simp
  · obtain ⟨j, rfl⟩ : ∃ j, ef = j + 1 := ⟨ef - 1, by omega⟩
    refine ⟨j, mf + T, ?_, by omega, by omega, ?_, by omega⟩
    · rw [← d1]; ring
    · simp only [h0, if_false]
      congr 1
      unfold L; omega

theorem interval_eq {f : Fmt} (hf : WF f) {b : Nat} (hb : b < f.infBits) :
    ∃ k q, b = k * 2 ^ (f.p - 1) + q ∧ (0 < k → 2 ^ (f.p - 1) ≤ q) ∧ q < 2 * 2 ^ (f.p - 1) ∧
      interval f b = { v := 4 * q,
                       lo := if q = 2 ^ (f.p - 1) ∧ 0 < k then 4 * q - 1 else 4 * q - 2,
                       hi := 4 * q + 2, e2 := (k : Int) - (L f : Int) - 2, incl := q % 2 = 0 } := by
  obtain ⟨k, q, h1, h2, h3, h4, h5⟩ := decode_kq hf hb
  refine ⟨k, q, h1, h2, h3, ?_⟩
  unfold interval
  simp only [h4]
  have : (q = 2 ^ (f.p - 1) ∧ f.expField b > 1) ↔ (q = 2 ^ (f.p - 1) ∧ 0 < k) := by rw [h5]
  simp only [this]

/-- the interval end points are the cell midpoints -/
theorem cell_midpoints {f : Fmt} (k q : Nat) (h1 : 0 < k → 2 ^ (f.p - 1) ≤ q)
    (h2 : q < 2 * 2 ^ (f.p - 1)) (h0 : k * 2 ^ (f.p - 1) + q ≠ 0) :
    let b := k * 2 ^ (f.p - 1) + q
    (ival f b + ival f (b + 1)) * 2 = (4 * q + 2) * 2 ^ k ∧
    (ival f (b - 1) + ival f b) * 2 =
      (if q = 2 ^ (f.p - 1) ∧ 0 < k then 4 * q - 1 else 4 * q - 2) * 2 ^ k := by
  intro b
  have hb : b = k * 2 ^ (f.p - 1) + q := rfl
  clear_value b
  have hTpos := Nat.two_pow_pos (f.p - 1)
  have v0 : ival f b = q * 2 ^ k := by rw [hb]; exact ival_kq f k q h1 (by omega)
  have v1 : ival f (b + 1) = (q + 1) * 2 ^ k := by
    rw [hb, Nat.add_assoc]; exact ival_kq f k (q + 1) (by omega) (by omega)
  constructor
  · rw [v0, v1]; ring
  · split
    · rename_i hc
      obtain ⟨hq, hk⟩ := hc
      obtain ⟨j, rfl⟩ : ∃ j, k = j + 1 := ⟨k - 1, by omega⟩
      have e : b - 1 = j * 2 ^ (f.p - 1) + (2 * 2 ^ (f.p - 1) - 1) := by
        rw [hb, hq, Nat.succ_mul]; omega
      rw [v0, e, ival_kq f j _ (by omega) (by omega), hq]
      generalize 2 ^ (f.p - 1) = T at *
      obtain ⟨t, rfl⟩ : ∃ t, T = t + 1 := ⟨T - 1, by omega⟩
      rw [show 2 * (t + 1) - 1 = 2 * t + 1 by omega, show 4 * (t + 1) - 1 = 4 * t + 3 by omega]
      ring
    · rename_i hc
      have hq1 : 1 ≤ q := by
        by_contra h
        have hq0 : q = 0 := by omega
        have hk0 : k = 0 := by by_contra hk; have := h1 (by omega); omega
        apply h0; rw [hq0, hk0]; simp
      have e : b - 1 = k * 2 ^ (f.p - 1) + (q - 1) := by rw [hb]; omega
      have hq' : 0 < k → 2 ^ (f.p - 1) ≤ q - 1 := by
        intro hk; have := h1 hk
        have : q ≠ 2 ^ (f.p - 1) := fun h => hc ⟨h, hk⟩
        omega
      rw [v0, e, ival_kq f k _ hq' (by omega)]
      obtain ⟨t, rfl⟩ : ∃ t, q = t + 1 := ⟨q - 1, by omega⟩
      rw [show t + 1 - 1 = t by omega, show 4 * (t + 1) - 2 = 4 * t + 2 by omega]
      ring

/-! ## `scalePQ`, `candRange`, `closestIn`, `shortestGo` -/

/-- the two fractions inside `scalePQ` -/
def binFrac (e2 : Int) : Nat × Nat := if e2 ≥ 0 then (2 ^ e2.toNat, 1) else (1, 2 ^ (-e2).toNat)
def tenFrac (E : Int) : Nat × Nat := if E ≥ 0 then (10 ^ E.toNat, 1) else (1, 10 ^ (-E).toNat)

theorem scalePQ_eq (e2 E : Int) :
    scalePQ e2 E = ((tenFrac E).1 * (binFrac e2).2, (binFrac e2).1 * (tenFrac E).2) := by
  unfold scalePQ binFrac tenFrac
  split; split; simp_all

theorem binFrac_pos (e2 : Int) : 0 < (binFrac e2).1 ∧ 0 < (binFrac e2).2 := by
  unfold binFrac; split <;> simp

theorem tenFrac_pos (E : Int) : 0 < (tenFrac E).1 ∧ 0 < (tenFrac E).2 := by
  unfold tenFrac; split <;> simp

/-- `2^e2 = an/ad` with `e2 = k - L - 2` -/
theorem binFrac_scale (k l : Nat) :
    (binFrac ((k : Int) - (l : Int) - 2)).1 * 2 ^ l * 4 = (binFrac ((k : Int) - (l : Int) - 2)).2 * 2 ^ k := by
  unfold binFrac
  split
  · rename_i h
    obtain ⟨j, hj⟩ : ∃ j : Nat, ((k : Int) - (l : Int) - 2).toNat = j := ⟨_, rfl⟩
    have : k = j + l + 2 := by omega
    rw [hj, this]; simp only []; ring
  · rename_i h
    obtain ⟨j, hj⟩ : ∃ j : Nat, (-((k : Int) - (l : Int) - 2)).toNat = j := ⟨_, rfl⟩
    have : l + 2 = j + k := by omega
    rw [hj]; simp only []
    calc 1 * 2 ^ l * 4 = 2 ^ (l + 2) := by ring
      _ = 2 ^ (j + k) := by rw [this]
      _ = 2 ^ j * 2 ^ k := by ring

theorem decFrac_eq (D : Nat) (E : Int) : decFrac D E = (D * (tenFrac E).1, (tenFrac E).2) := by
  unfold decFrac tenFrac; split <;> simp

theorem ceil_le {P a D : Nat} (hP : 0 < P) (h : (a + P - 1) / P ≤ D) : a ≤ D * P := by
  have : (a + P - 1) / P < D + 1 := by omega
  rw [Nat.div_lt_iff_lt_mul hP, Nat.succ_mul] at this
  omega

theorem floor_le {P a D : Nat} (hP : 0 < P) (h : D ≤ a / P) : D * P ≤ a :=
  (Nat.le_div_iff_mul_le hP).mp h

/-- every `D` in the candidate range is `≥ 1` and lies inside `[lo, hi]·Q/P`, strictly if `¬incl` -/
theorem candRange_spec (iv : Interval) (E : Int) (P Q : Nat) (hPQ : scalePQ iv.e2 E = (P, Q))
    (hP : 0 < P) (D : Nat) (h1 : (candRange iv E).1 ≤ D) (h2 : D ≤ (candRange iv E).2) :
    1 ≤ D ∧ iv.lo * Q ≤ D * P ∧ D * P ≤ iv.hi * Q ∧
    (iv.incl = false → iv.lo * Q < D * P ∧ D * P < iv.hi * Q) := by
  unfold candRange at h1 h2
  simp only [hPQ] at h1 h2
  generalize iv.lo * Q = loN at *
  generalize iv.hi * Q = hiN at *
  have hD1 : 1 ≤ D := le_trans (le_max_right _ _) h1
  have hdlo := le_trans (le_max_left _ _) h1
  clear h1
  by_cases hin : iv.incl = true
  · simp only [hin, not_true_eq_false, false_and, if_false] at hdlo h2
    exact ⟨hD1, ceil_le hP hdlo, floor_le hP h2, by simp [hin]⟩
  · have hin' : iv.incl = false := by simpa using hin
    simp only [hin', Bool.false_eq_true, not_false_eq_true, true_and] at hdlo h2
    have lo_le : loN ≤ D * P := ceil_le hP (by split at hdlo <;> omega)
    have hi_le : D * P ≤ hiN := floor_le hP (by split at h2 <;> omega)
    refine ⟨hD1, lo_le, hi_le, fun _ => ⟨?_, ?_⟩⟩
    · by_cases hm : loN % P = 0
      · rw [if_pos hm] at hdlo
        obtain ⟨D', rfl⟩ : ∃ D', D = D' + 1 := ⟨D - 1, by omega⟩
        have := ceil_le (a := loN) (D := D') hP (by omega)
        rw [Nat.succ_mul]; omega
      · apply lt_of_le_of_ne lo_le
        intro he; apply hm; rw [he]; exact Nat.mul_mod_left _ _
    · by_cases hm : hiN % P = 0
      · rw [if_pos hm] at h2
        have := floor_le (a := hiN) (D := D + 1) hP (by omega)
        rw [Nat.succ_mul] at this; omega
      · apply lt_of_le_of_ne hi_le
        intro he; apply hm; rw [← he]; exact Nat.mul_mod_left _ _

theorem pick_mem (c : List Nat) (dlo dhi d1 D : Nat) (h : dlo ≤ dhi)
    (hD : D ∈ (if (c.filter (fun d => dlo ≤ d ∧ d ≤ dhi)).isEmpty then (if d1 < dlo then [dlo] else [dhi])
      else c.filter (fun d => dlo ≤ d ∧ d ≤ dhi))) : dlo ≤ D ∧ D ≤ dhi := by
  by_cases he : (c.filter (fun d => dlo ≤ d ∧ d ≤ dhi)).isEmpty = true
  · rw [if_pos he] at hD
    split at hD <;> simp only [List.mem_singleton] at hD <;> omega
  · rw [if_neg he] at hD
    have := (List.mem_filter.mp hD).2
    simpa using this

theorem closestIn_mem (iv : Interval) (E : Int) (dlo dhi : Nat) (h : dlo ≤ dhi) (D : Nat)
    (hD : D ∈ closestIn iv E dlo dhi) : dlo ≤ D ∧ D ≤ dhi := by
  unfold closestIn at hD
  exact pick_mem _ dlo dhi _ D h hD

theorem shortestGo_mem (iv : Interval) (fuel : Nat) (E0 : Int) (D : Nat) (E : Int)
    (h : (D, E) ∈ shortestGo iv fuel E0) : (candRange iv E).1 ≤ D ∧ D ≤ (candRange iv E).2 := by
  induction fuel generalizing E0 with
  | zero => simp [shortestGo] at h
  | succ n ih =>
    unfold shortestGo at h
    simp only [] at h
    split at h
    · rename_i hle
      obtain ⟨d, hd, he⟩ := List.mem_map.mp h
      simp only [Prod.mk.injEq] at he
      obtain ⟨rfl, rfl⟩ := he
      exact closestIn_mem iv E0 _ _ hle d hd
    · exact ih _ h

theorem scale_cmp {X Y A B S c : Nat} (hc : 0 < c) (hS : 0 < S) (hX : X * c = A * S)
    (hY : Y * c = B * S) : (A ≤ B → X ≤ Y) ∧ (A < B → X < Y) := by
  constructor
  · intro h
    apply Nat.le_of_mul_le_mul_right _ hc
    rw [hX, hY]; exact Nat.mul_le_mul_right S h
  · intro h
    apply Nat.lt_of_mul_lt_mul_right (a := c)
    rw [hX, hY]; exact Nat.mul_lt_mul_of_pos_right h hS

/-- every output of `shortest` lies in the rounding cell of `bits`, hence rounds back to `bits` -/
theorem shortest_roundtrips' {f : Fmt} (hf : WF f) {b : Nat} (hb0 : 0 < b) (hb : b < f.infBits)
    {D : Nat} {E : Int} (h : (D, E) ∈ shortest f b) :
    roundNE f (decFrac D E).1 (decFrac D E).2 = b := by
  obtain ⟨k, q, hbk, h1, h2, hiv⟩ := interval_eq hf hb
  unfold shortest at h
  obtain ⟨m1, m2⟩ := shortestGo_mem _ _ _ _ _ h
  have hPQ := scalePQ_eq (interval f b).e2 E
  obtain ⟨an_pos, ad_pos⟩ := binFrac_pos (interval f b).e2
  obtain ⟨tn_pos, td_pos⟩ := tenFrac_pos E
  obtain ⟨hD1, clo, chi, cstrict⟩ := candRange_spec _ E _ _ hPQ (Nat.mul_pos tn_pos ad_pos) D m1 m2
  rw [hiv] at clo chi cstrict an_pos ad_pos
  simp only [] at clo chi cstrict an_pos ad_pos
  have hsc := binFrac_scale k (L f)
  obtain ⟨mid_hi, mid_lo⟩ := cell_midpoints (f := f) k q h1 h2 (by rw [← hbk]; omega)
  rw [← hbk] at mid_hi mid_lo
  obtain ⟨t, ht, _⟩ := T_even hf
  have hpar : b % 2 = q % 2 := by rw [hbk, ht, Nat.mul_left_comm]; omega
  have hincl : b % 2 ≠ 0 → decide (q % 2 = 0) = false := by
    intro hne; rw [hpar] at hne; simpa using hne
  generalize (binFrac ((k : Int) - (L f : Int) - 2)).1 = an at *
  generalize (binFrac ((k : Int) - (L f : Int) - 2)).2 = ad at *
  rw [decFrac_eq]
  dsimp only
  generalize (tenFrac E).1 = tn at *
  generalize (tenFrac E).2 = td at *
  generalize (if q = 2 ^ (f.p - 1) ∧ 0 < k then 4 * q - 1 else 4 * q - 2) = lo at *
  have hS : 0 < 2 ^ (L f) * 4 := by positivity
  have hc : 0 < 2 * ad := by omega
  -- lower: X = td * Ilo, Y = 2 * (D*tn*2^L); A = lo*(an*td), B = D*(tn*ad)
  have eXlo : td * (ival f (b - 1) + ival f b) * (2 * ad) = lo * (an * td) * (2 ^ (L f) * 4) := by
    calc td * (ival f (b - 1) + ival f b) * (2 * ad)
        = td * ((ival f (b - 1) + ival f b) * 2) * ad := by ring
      _ = td * lo * (ad * 2 ^ k) := by rw [mid_lo]; ring
      _ = td * lo * (an * 2 ^ (L f) * 4) := by rw [hsc]
      _ = lo * (an * td) * (2 ^ (L f) * 4) := by ring
  have eXhi : td * (ival f b + ival f (b + 1)) * (2 * ad) = (4 * q + 2) * (an * td) * (2 ^ (L f) * 4) := by
    calc td * (ival f b + ival f (b + 1)) * (2 * ad)
        = td * ((ival f b + ival f (b + 1)) * 2) * ad := by ring
      _ = td * (4 * q + 2) * (ad * 2 ^ k) := by rw [mid_hi]; ring
      _ = td * (4 * q + 2) * (an * 2 ^ (L f) * 4) := by rw [hsc]
      _ = (4 * q + 2) * (an * td) * (2 ^ (L f) * 4) := by ring
  have eY : 2 * (D * tn * 2 ^ (L f)) * (2 * ad) = D * (tn * ad) * (2 ^ (L f) * 4) := by ring
  obtain ⟨lo1, lo2⟩ := scale_cmp hc hS eXlo eY
  obtain ⟨hi1, hi2⟩ := scale_cmp hc hS eY eXhi
  apply roundNE_unique hf (Nat.ne_of_gt td_pos)
  refine ⟨Nat.le_of_lt hb, fun _ => lo1 clo, ?_, fun _ => hi1 chi, ?_⟩
  · intro _ heq
    by_contra hne
    have := lo2 (cstrict (hincl hne)).1
    omega
  · intro _ heq
    by_contra hne
    have := hi2 (cstrict (hincl hne)).2
    omega

/-! ## minimality: `shortest` stops at the largest exponent that admits a candidate -/

theorem shortestGo_first (iv : Interval) (fuel : Nat) (E0 : Int) (D : Nat) (E : Int)
    (h : (D, E) ∈ shortestGo iv fuel E0) :
    E ≤ E0 ∧ ∀ E', E < E' → E' ≤ E0 → ¬ ((candRange iv E').1 ≤ (candRange iv E').2) := by
  induction fuel generalizing E0 with
  | zero => simp [shortestGo] at h
  | succ n ih =>
    unfold shortestGo at h
    simp only [] at h
    split at h
    · obtain ⟨d, _, he⟩ := List.mem_map.mp h
      simp only [Prod.mk.injEq] at he
      obtain ⟨_, rfl⟩ := he
      exact ⟨le_refl _, fun E' h1 h2 => by omega⟩
    · rename_i hne
      obtain ⟨i1, i2⟩ := ih _ h
      refine ⟨by omega, fun E' h1 h2 => ?_⟩
      by_cases he : E' = E0
      · subst he; exact hne
      · exact i2 E' h1 (by omega)

theorem ceil_ge {P a D : Nat} (hP : 0 < P) (h : a ≤ D * P) : (a + P - 1) / P ≤ D := by
  have : (a + P - 1) / P < D + 1 := by
    rw [Nat.div_lt_iff_lt_mul hP, Nat.succ_mul]; omega
  omega

/-- converse of `candRange_spec` -/
theorem candRange_complete (iv : Interval) (E : Int) (P Q : Nat) (hPQ : scalePQ iv.e2 E = (P, Q))
    (hP : 0 < P) (D : Nat) (hD1 : 1 ≤ D) (hlo : iv.lo * Q ≤ D * P) (hhi : D * P ≤ iv.hi * Q)
    (hs : iv.incl = false → iv.lo * Q < D * P ∧ D * P < iv.hi * Q) :
    (candRange iv E).1 ≤ D ∧ D ≤ (candRange iv E).2 := by
  unfold candRange
  simp only [hPQ]
  generalize iv.lo * Q = loN at *
  generalize iv.hi * Q = hiN at *
  have g1 : (loN + P - 1) / P ≤ D := ceil_ge hP hlo
  have g2 : D ≤ hiN / P := (Nat.le_div_iff_mul_le hP).mpr hhi
  by_cases hin : iv.incl = true
  · simp only [hin, not_true_eq_false, false_and, if_false]
    exact ⟨max_le g1 hD1, g2⟩
  · have hin' : iv.incl = false := by simpa using hin
    obtain ⟨s1, s2⟩ := hs hin'
    simp only [hin', Bool.false_eq_true, not_false_eq_true, true_and]
    constructor
    · apply max_le _ hD1
      split
      · rename_i hm
        obtain ⟨c, hc⟩ : ∃ c, loN = P * c := ⟨loN / P, by have := Nat.div_add_mod loN P; omega⟩
        have hcD : c < D := by
          rw [hc, Nat.mul_comm] at s1; exact Nat.lt_of_mul_lt_mul_right s1
        have : (loN + P - 1) / P ≤ c := ceil_ge hP (by rw [hc, Nat.mul_comm])
        omega
      · exact g1
    · split
      · rename_i hm
        obtain ⟨c, hc⟩ : ∃ c, hiN = P * c := ⟨hiN / P, by have := Nat.div_add_mod hiN P; omega⟩
        have hcD : D < c := by
          rw [hc, Nat.mul_comm P] at s2; exact Nat.lt_of_mul_lt_mul_right s2
        have : hiN / P = c := by rw [hc]; exact Nat.mul_div_cancel_left c hP
        omega
      · exact g2

/-- any decimal `D'·10^E'` (`D' ≥ 1`) that rounds to `b` is in the candidate range at scale `E'` -/
theorem cand_complete {f : Fmt} (hf : WF f) {b : Nat} (hb0 : 0 < b) (hb : b < f.infBits)
    {D : Nat} {E : Int} (hD1 : 1 ≤ D) (hrt : roundNE f (decFrac D E).1 (decFrac D E).2 = b) :
    (candRange (interval f b) E).1 ≤ D ∧ D ≤ (candRange (interval f b) E).2 := by
  obtain ⟨k, q, hbk, h1, h2, hiv⟩ := interval_eq hf hb
  have hPQ := scalePQ_eq (interval f b).e2 E
  obtain ⟨an_pos, ad_pos⟩ := binFrac_pos (interval f b).e2
  obtain ⟨tn_pos, td_pos⟩ := tenFrac_pos E
  have cell := inCell_roundNE hf (decFrac D E).1 (Nat.ne_of_gt (show 0 < (decFrac D E).2 by
    rw [decFrac_eq]; exact td_pos))
  rw [hrt] at cell
  apply candRange_complete _ E _ _ hPQ (Nat.mul_pos tn_pos ad_pos) D hD1
  all_goals rw [hiv]; rw [hiv] at an_pos ad_pos
  all_goals simp only [] at an_pos ad_pos ⊢
  all_goals
    have hsc := binFrac_scale k (L f)
    obtain ⟨mid_hi, mid_lo⟩ := cell_midpoints (f := f) k q h1 h2 (by rw [← hbk]; omega)
    rw [← hbk] at mid_hi mid_lo
    obtain ⟨t, ht, _⟩ := T_even hf
    have hpar : b % 2 = q % 2 := by rw [hbk, ht, Nat.mul_left_comm]; omega
    have hlo := cell.lower (by omega)
    have hhi := cell.upper hb
    have hlot := cell.lower_tie (by omega)
    have hhit := cell.upper_tie hb
    clear cell
    generalize (binFrac ((k : Int) - (L f : Int) - 2)).1 = an at *
    generalize (binFrac ((k : Int) - (L f : Int) - 2)).2 = ad at *
    rw [decFrac_eq] at hlo hhi hlot hhit
    dsimp only at hlo hhi hlot hhit
    generalize (tenFrac E).1 = tn at *
    generalize (tenFrac E).2 = td at *
    generalize (if q = 2 ^ (f.p - 1) ∧ 0 < k then 4 * q - 1 else 4 * q - 2) = lo at *
    have hS : 0 < 2 ^ (L f) * 4 := by positivity
    have hc : 0 < 2 * ad := by omega
    have eXlo : td * (ival f (b - 1) + ival f b) * (2 * ad) = lo * (an * td) * (2 ^ (L f) * 4) := by
      calc td * (ival f (b - 1) + ival f b) * (2 * ad)
          = td * ((ival f (b - 1) + ival f b) * 2) * ad := by ring
        _ = td * lo * (ad * 2 ^ k) := by rw [mid_lo]; ring
        _ = td * lo * (an * 2 ^ (L f) * 4) := by rw [hsc]
        _ = lo * (an * td) * (2 ^ (L f) * 4) := by ring
    have eXhi : td * (ival f b + ival f (b + 1)) * (2 * ad) = (4 * q + 2) * (an * td) * (2 ^ (L f) * 4) := by
      calc td * (ival f b + ival f (b + 1)) * (2 * ad)
          = td * ((ival f b + ival f (b + 1)) * 2) * ad := by ring
        _ = td * (4 * q + 2) * (ad * 2 ^ k) := by rw [mid_hi]; ring
        _ = td * (4 * q + 2) * (an * 2 ^ (L f) * 4) := by rw [hsc]
        _ = (4 * q + 2) * (an * td) * (2 ^ (L f) * 4) := by ring
    have eY : 2 * (D * tn * 2 ^ (L f)) * (2 * ad) = D * (tn * ad) * (2 ^ (L f) * 4) := by ring
    obtain ⟨lo1, lo2⟩ := scale_cmp hS hc eXlo.symm eY.symm
    obtain ⟨hi1, hi2⟩ := scale_cmp hS hc eY.symm eXhi.symm
  · exact lo1 hlo
  · exact hi1 hhi
  · intro hincl
    have hodd : b % 2 ≠ 0 := by rw [hpar]; simpa using hincl
    constructor
    · exact lo2 (lt_of_le_of_ne hlo (fun he => hodd (hlot he)))
    · exact hi2 (lt_of_le_of_ne hhi (fun he => hodd (hhit he)))

/-- the exponent at which `shortest` starts its downward search -/
def upOf (f : Fmt) (b : Nat) : Int :=
  ((bitlen (interval f b).hi : Int) + (interval f b).e2) * 30103 / 100000 + 2

theorem shortest_eq (f : Fmt) (b : Nat) : shortest f b = shortestGo (interval f b) 420 (upOf f b) := rfl

/-- among all exponents up to the search start, `shortest` returns the largest that admits a
round-tripping decimal -/
theorem shortest_maximal_exp {f : Fmt} (hf : WF f) {b : Nat} (hb0 : 0 < b) (hb : b < f.infBits)
    {D : Nat} {E : Int} (h : (D, E) ∈ shortest f b) {D' : Nat} {E' : Int} (hD1 : 1 ≤ D')
    (hrt : roundNE f (decFrac D' E').1 (decFrac D' E').2 = b) (hup : E' ≤ upOf f b) : E' ≤ E := by
  rw [shortest_eq] at h
  obtain ⟨_, hfirst⟩ := shortestGo_first _ _ _ _ _ h
  by_contra hlt
  obtain ⟨c1, c2⟩ := cand_complete hf hb0 hb hD1 hrt
  exact hfirst E' (by omega) hup (le_trans c1 c2)

end LexVerif.Proof.RoundNE
