import LexVerif.Spec.Shortest
import LexVerif.Proof.RoundNEDecode
import Mathlib.Tactic.Ring
import Mathlib.Tactic.Linarith
/-!
# Proof.Shortest — `Spec.shortest` returns decimals inside the rounding cell of `bits`
-/
namespace LexVerif.Proof.RoundNE
open LexVerif.Spec

/-- `D·10^E` as a fraction -/
def decFrac (D : Nat) (E : Int) : Nat × Nat :=
  if E ≥ 0 then (D * 10 ^ E.toNat, 1) else (D, 10 ^ (-E).toNat)

/-- significand/exponent form of a finite pattern, matching both `decode` and `ival` -/
theorem decode_kq {f : Fmt} (hf : WF f) {b : Nat} (hb : b < f.infBits) :
    ∃ k q, b = k * 2 ^ (f.p - 1) + q ∧ (0 < k → 2 ^ (f.p - 1) ≤ q) ∧ q < 2 * 2 ^ (f.p - 1) ∧
      f.decode b = ⟨false, q, (k : Int) - (L f : Int)⟩ ∧ (f.expField b > 1 ↔ 0 < k) := by
  have hp := hf.hp
  have hbias := bias_pos hf
  have h1 := expField_lt hb
  have h4 : f.expField b = b / 2 ^ (f.p - 1) := by
    unfold Fmt.expField
    apply Nat.mod_eq_of_lt
    unfold Fmt.maxExpField at h1
    generalize b / 2 ^ (f.p - 1) = x at *
    generalize 2 ^ f.ebits = y at *
    omega
  rw [decode_finite hf hb, h4]
  have hTpos := Nat.two_pow_pos (f.p - 1)
  have d1 := Nat.div_add_mod b (2 ^ (f.p - 1))
  have d2 := Nat.mod_lt b hTpos
  generalize 2 ^ (f.p - 1) = T at *
  generalize b / T = ef at *
  generalize b % T = mf at *
  by_cases h0 : ef = 0
  · refine ⟨0, mf, ?_, by omega, by omega, ?_, by omega⟩
    · subst h0; omega
    · simp only [h0, if_true]; rw [eminLsb_eq hf]; simp
  · obtain ⟨j, rfl⟩ : ∃ j, ef = j + 1 := ⟨ef - 1, by omega⟩
    refine ⟨j, mf + T, ?_, by omega, by omega, ?_, by omega⟩
    · rw [← d1]; ring
    · simp only [h0, if_false]
      congr 1
      unfold L; omega

theorem interval_eq {f : Fmt} (hf : WF f) {b : Nat} (hb : b < f.infBits) :
    ∃ k q, b = k * 2 ^ (f.p - 1) + q ∧ (0 < k → 2 ^ (f.p - 1) ≤ q) ∧ q < 2 * 2 ^ (f.p - 1) ∧
      interval f b = { v := 4 * q,
                       lo := if q = 2 ^ (f.p - 1) ∧ 0 < k then 4 * q - 1 else 4 * q - 2,
                       hi := 4 * q + 2, e2 := (k : Int) - (L f : Int) - 2, incl := q % 2 = 0 } := by
  obtain ⟨k, q, h1, h2, h3, h4, h5⟩ := decode_kq hf hb
  refine ⟨k, q, h1, h2, h3, ?_⟩
  unfold interval
  simp only [h4]
  have : (q = 2 ^ (f.p - 1) ∧ f.expField b > 1) ↔ (q = 2 ^ (f.p - 1) ∧ 0 < k) := by rw [h5]
  simp only [this]

/-- the interval end points are the cell midpoints -/
theorem cell_midpoints {f : Fmt} (k q : Nat) (h1 : 0 < k → 2 ^ (f.p - 1) ≤ q)
    (h2 : q < 2 * 2 ^ (f.p - 1)) (h0 : k * 2 ^ (f.p - 1) + q ≠ 0) :
    let b := k * 2 ^ (f.p - 1) + q
    (ival f b + ival f (b + 1)) * 2 = (4 * q + 2) * 2 ^ k ∧
    (ival f (b - 1) + ival f b) * 2 =
      (if q = 2 ^ (f.p - 1) ∧ 0 < k then 4 * q - 1 else 4 * q - 2) * 2 ^ k := by
  intro b
  have hb : b = k * 2 ^ (f.p - 1) + q := rfl
  clear_value b
  have hTpos := Nat.two_pow_pos (f.p - 1)
  have v0 : ival f b = q * 2 ^ k := by rw [hb]; exact ival_kq f k q h1 (by omega)
  have v1 : ival f (b + 1) = (q + 1) * 2 ^ k := by
    rw [hb, Nat.add_assoc]; exact ival_kq f k (q + 1) (by omega) (by omega)
  constructor
  · rw [v0, v1]; ring
  · split
    · rename_i hc
      obtain ⟨hq, hk⟩ := hc
      obtain ⟨j, rfl⟩ : ∃ j, k = j + 1 := ⟨k - 1, by omega⟩
      have e : b - 1 = j * 2 ^ (f.p - 1) + (2 * 2 ^ (f.p - 1) - 1) := by
        rw [hb, hq, Nat.succ_mul]; omega
      rw [v0, e, ival_kq f j _ (by omega) (by omega), hq]
      generalize 2 ^ (f.p - 1) = T at *
      obtain ⟨t, rfl⟩ : ∃ t, T = t + 1 := ⟨T - 1, by omega⟩
      rw [show 2 * (t + 1) - 1 = 2 * t + 1 by omega, show 4 * (t + 1) - 1 = 4 * t + 3 by omega]
      ring
    · rename_i hc
      have hq1 : 1 ≤ q := by
        by_contra h
        have hq0 : q = 0 := by omega
        have hk0 : k = 0 := by by_contra hk; have := h1 (by omega); omega
        apply h0; rw [hq0, hk0]; simp
      have e : b - 1 = k * 2 ^ (f.p - 1) + (q - 1) := by rw [hb]; omega
      have hq' : 0 < k → 2 ^ (f.p - 1) ≤ q - 1 := by
        intro hk; have := h1 hk
        have : q ≠ 2 ^ (f.p - 1) := fun h => hc ⟨h, hk⟩
        omega
      rw [v0, e, ival_kq f k _ hq' (by omega)]
      obtain ⟨t, rfl⟩ : ∃ t, q = t + 1 := ⟨q - 1, by omega⟩
      rw [show t + 1 - 1 = t by omega, show 4 * (t + 1) - 2 = 4 * t + 2 by omega]
      ring

end LexVerif.Proof.RoundNE
