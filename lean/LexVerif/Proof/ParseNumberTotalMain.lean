import LexVerif.Proof.ParseNumberTotalMany
/-!
# Proof.ParseNumberTotalMain — `parse_number`, the special-value parsers and `parse_complete/partial` are total
(release mode)
-/
namespace LexVerif.Proof.PNTotal
open LexVerif LexVerif.Model LexVerif.Props.C12 LexVerif.Spec

variable {c : Cfg}

/-- what `parse_number` guarantees in a release build -/
def NumOK (c : Cfg) (b : Bytes) (r : Except Err (Number × Nat)) : Prop :=
  match r with
  | .ok (num, count) => b.index ≤ count ∧ count ≤ b.slc.length ∧
      num.exponent.natAbs ≤ 5 * b.slc.length + num.explicitExp.natAbs ∧
      ∃ ds : List Nat, (∀ d ∈ ds, d < c.exponentRadix) ∧ num.explicitExp.natAbs = foldExponent c.exponentRadix 0 ds
  | .error e => ErrOK b.slc.length e

theorem parseNumber_tot (hc : Rel c) (isPartial : Bool) (o : POpts) (b : Bytes) (neg fv : Bool)
    (hv : b.index ≤ b.slc.length) : NumOK c b (parseNumber c isPartial o b neg fv) := by
  unfold parseNumber
  simp only [hc.hd, Bool.false_and, Bool.false_eq_true, ↓reduceIte, bind, Except.bind, pure, Except.pure]
  have hI := integerPhase_tot hc b hv
  cases hip : integerPhase c b with
  | error e => rw [hip] at hI; exact hI
  | ok ip =>
    rw [hip] at hI
    obtain ⟨ha0, ha1, hnI, hlI, hcI⟩ := hI
    simp only
    have hF := fractionPhase_tot hc o ip.byte ip.mantissa ha1.valid'
    cases hfp : fractionPhase c o ip.byte ip.mantissa with
    | error e =>
      rw [hfp] at hF
      have : ErrOK ip.byte.slc.length e := hF
      rw [(ha0.trans ha1).len] at this
      exact this
    | ok fp =>
      rw [hfp] at hF
      obtain ⟨ha2, hfnone, hnF, heF, hlF⟩ := hF
      simp only
      have ha02 := ha0.trans (ha1.trans ha2)
      split
      · obtain ⟨v, b', hp, _⟩ := peek_tot hc .integer ip.start ha0.valid'
        simp only [hp]
        split
        · exact ha02.valid
        · exact ha0.valid
      · have hE := exponentPhase_tot hc (fp.byte.firstIs o.exp (c.caseSensitiveExponent && c.feats.format)) fp.byte
          fp.fraction fp.exponent ha2.valid' (fun h => firstIs_lt h)
        cases hep : exponentPhase c (fp.byte.firstIs o.exp (c.caseSensitiveExponent && c.feats.format)) fp.byte
            fp.fraction fp.exponent with
        | error e =>
          rw [hep] at hE
          have : ErrOK fp.byte.slc.length e := hE
          rw [ha02.len] at this
          exact this
        | ok ep =>
          rw [hep] at hE
          obtain ⟨ha3, hexp, ds, hds, hmag⟩ := hE
          simp only
          obtain ⟨byte4, hsf, ha4⟩ := suffixPhase_tot hc ep.byte ha3.valid'
          simp only [hsf]
          have ha04 := ha02.trans (ha3.trans ha4)
          have hlen1 : ip.start.slc.length = b.slc.length := ha0.len
          have hlen2 : ip.byte.slc.length = b.slc.length := (ha0.trans ha1).len
          have hm1 := ha1.mono
          have hv1 := ha1.valid
          have hm2 := ha2.mono
          have hv2 := ha2.valid
          have hnA : fp.nAfterDot ≤ b.slc.length := by omega
          have hexpb : ep.exponent.natAbs ≤ 5 * b.slc.length + ep.explicit.natAbs := by
            rw [hexp]; omega
          split
          · refine ⟨ha04.mono, ha04.valid, ?_, ds, hds, hmag⟩
            simp only
            split
            · simp
            · exact hexpb
          · obtain ⟨num, hm, hbnd, hex⟩ := manyDigitsPhase_tot hc o neg ip fp ep (ip.nDigits + fp.nAfterDot)
              (u64Step c.feats c.mantissaRadix)
              (if (c.feats.format && !c.requiredMantissaDigits && decide (ip.nDigits + fp.nAfterDot = 0)) = true then 0
                else ep.exponent) byte4.index b.slc.length ha0.valid' rfl (by rw [hlen1]; omega) hcI hfnone
              (by omega) (by omega) (fun fd hfd => by have := hlF fd hfd; omega)
            rw [hm]
            refine ⟨ha04.mono, ha04.valid, ?_, ds, hds, by rw [hex]; exact hmag⟩
            rw [hex]
            rcases hbnd with h0 | h5
            · rw [h0]
              split
              · simp
              · exact hexpb
            · omega

theorem parseCompleteNumber_tot (hc : Rel c) (o : POpts) (b : Bytes) (neg fv : Bool) (hv : b.index ≤ b.slc.length) :
    match parseCompleteNumber c o b neg fv with
    | .ok num => num.exponent.natAbs ≤ 5 * b.slc.length + num.explicitExp.natAbs ∧
        ∃ ds : List Nat, (∀ d ∈ ds, d < c.exponentRadix) ∧ num.explicitExp.natAbs = foldExponent c.exponentRadix 0 ds
    | .error e => ErrOK b.slc.length e := by
  unfold parseCompleteNumber
  have h := parseNumber_tot hc false o b neg fv hv
  cases hp : parseNumber c false o b neg fv with
  | error e => rw [hp] at h; simp only [bind, Except.bind]; exact h
  | ok r =>
    obtain ⟨n, count⟩ := r
    rw [hp] at h
    simp only [bind, Except.bind, pure, Except.pure]
    by_cases hcl : count = b.bufferLength
    · simp only [hcl, ↓reduceIte]
      exact h.2.2
    · simp only [hcl, ↓reduceIte]
      exact h.2.1

/-! ## special values -/

theorem iterNext_tot (hc : Rel c) (k : Comp) (b : Bytes) (hv : b.index ≤ b.slc.length) :
    ∃ v b', iterNext c k b = .ok (v, b') ∧ Adv b b' := by
  obtain ⟨x, b1, hp, ha, hx, hcs⟩ := peek_tot hc k b hv
  unfold iterNext
  simp only [hp, bind, Except.bind, pure, Except.pure]
  cases x with
  | none => exact ⟨none, b1, rfl, ha⟩
  | some y =>
    simp only
    have hlt := some_lt hx
    have ha1 : Adv b { b1 with index := b1.index + 1 } := ha.trans (step_adv b1 1 hlt)
    refine ⟨_, _, rfl, ?_⟩
    split
    · have hm := ha.mono
      exact incCount_adv (c := c) k ha1 (by simp only [csum] at *; omega)
    · exact ha1

theorem startsWith_tot (hc : Rel c) : ∀ (ys : List Nat) (b : Bytes), b.index ≤ b.slc.length →
    ∃ hit b', Model.startsWith c ys b = .ok (hit, b') ∧ Adv b b' := by
  intro ys
  induction ys with
  | nil => intro b hv; exact ⟨true, b, rfl, Adv.refl b hv⟩
  | cons y ys ih =>
    intro b hv
    obtain ⟨x, b1, hn, ha⟩ := iterNext_tot hc .special b hv
    unfold Model.startsWith
    simp only [hn, bind, Except.bind, pure, Except.pure]
    split
    · obtain ⟨hit, b2, h2, ha2⟩ := ih b1 ha.valid'
      exact ⟨hit, b2, h2, ha.trans ha2⟩
    · exact ⟨false, b1, rfl, ha⟩

theorem startsWithUncased_tot (hc : Rel c) : ∀ (ys : List Nat) (b : Bytes), b.index ≤ b.slc.length →
    ∃ hit b', Model.startsWithUncased c ys b = .ok (hit, b') ∧ Adv b b' := by
  intro ys
  induction ys with
  | nil => intro b hv; exact ⟨true, b, rfl, Adv.refl b hv⟩
  | cons y ys ih =>
    intro b hv
    obtain ⟨x, b1, hn, ha⟩ := iterNext_tot hc .special b hv
    unfold Model.startsWithUncased
    simp only [hn, bind, Except.bind, pure, Except.pure]
    cases x with
    | none => exact ⟨false, b1, rfl, ha⟩
    | some xi =>
      simp only
      split
      · exact ⟨false, b1, rfl, ha⟩
      · obtain ⟨hit, b2, h2, ha2⟩ := ih b1 ha.valid'
        exact ⟨hit, b2, h2, ha.trans ha2⟩

theorem isSpecialEq_tot (hc : Rel c) (b : Bytes) (s : List Nat) (hv : b.index ≤ b.slc.length) :
    ∃ n, isSpecialEq c b s = .ok n ∧ n ≤ b.slc.length := by
  unfold isSpecialEq
  simp only [bind, Except.bind, pure, Except.pure]
  split
  · obtain ⟨hit, b1, h, ha⟩ := startsWith_tot hc s b hv
    simp only [h]
    cases hit with
    | false => exact ⟨0, rfl, Nat.zero_le _⟩
    | true =>
      simp only [if_true]
      obtain ⟨v, b2, hp, ha2, _⟩ := peek_tot hc .special b1 ha.valid'
      simp only [hp]
      exact ⟨_, rfl, (ha.trans ha2).valid⟩
  · obtain ⟨hit, b1, h, ha⟩ := startsWithUncased_tot hc s b hv
    simp only [h]
    cases hit with
    | false => exact ⟨0, rfl, Nat.zero_le _⟩
    | true =>
      simp only [if_true]
      obtain ⟨v, b2, hp, ha2, _⟩ := peek_tot hc .special b1 ha.valid'
      simp only [hp]
      exact ⟨_, rfl, (ha.trans ha2).valid⟩

/-- the `try1` closure of `parsePositiveSpecial` -/
def try1 (c : Cfg) (b : Bytes) (length : Nat) (str : Option (List Nat)) : Except Err Nat :=
  match str with
  | some s => if length ≥ s.length then isSpecialEq c b s else pure 0
  | none => pure 0

theorem parsePositiveSpecial_eq (o : POpts) (b : Bytes) : parsePositiveSpecial c o b =
  (if c.feats.format && c.noSpecial then pure none
  else do
    let length := b.bufferLength - b.index
    let n ← try1 c b length o.nan
    if n ≠ 0 then pure (some (.nan, n))
    else
      let n ← try1 c b length o.infinity
      if n ≠ 0 then pure (some (.inf, n))
      else
        let n ← try1 c b length o.inf
        if n ≠ 0 then pure (some (.inf, n)) else pure none) := rfl

theorem try1_tot (hc : Rel c) (b : Bytes) (length : Nat) (str : Option (List Nat)) (hv : b.index ≤ b.slc.length) :
    ∃ n, try1 c b length str = .ok n ∧ n ≤ b.slc.length := by
  unfold try1
  cases str with
  | none => exact ⟨0, rfl, Nat.zero_le _⟩
  | some s =>
    simp only
    split
    · exact isSpecialEq_tot hc b s hv
    · exact ⟨0, rfl, Nat.zero_le _⟩

theorem parsePositiveSpecial_tot (hc : Rel c) (o : POpts) (b : Bytes) (hv : b.index ≤ b.slc.length) :
    ∃ r, parsePositiveSpecial c o b = .ok r ∧ ∀ s n, r = some (s, n) → n ≤ b.slc.length := by
  rw [parsePositiveSpecial_eq]
  split
  · exact ⟨none, rfl, by simp⟩
  · simp only [bind, Except.bind, pure, Except.pure]
    obtain ⟨n1, h1, hl1⟩ := try1_tot hc b (b.bufferLength - b.index) o.nan hv
    simp only [h1]
    split
    · exact ⟨_, rfl, by intro s n h; simp only [Option.some.injEq, Prod.mk.injEq] at h; omega⟩
    · obtain ⟨n2, h2, hl2⟩ := try1_tot hc b (b.bufferLength - b.index) o.infinity hv
      simp only [h2]
      split
      · exact ⟨_, rfl, by intro s n h; simp only [Option.some.injEq, Prod.mk.injEq] at h; omega⟩
      · obtain ⟨n3, h3, hl3⟩ := try1_tot hc b (b.bufferLength - b.index) o.inf hv
        simp only [h3]
        split
        · exact ⟨_, rfl, by intro s n h; simp only [Option.some.injEq, Prod.mk.injEq] at h; omega⟩
        · exact ⟨none, rfl, by simp⟩

theorem parseSpecialComplete_tot (hc : Rel c) (o : POpts) (b : Bytes) (hv : b.index ≤ b.slc.length) :
    ∃ r, parseSpecialComplete c o b = .ok r := by
  unfold parseSpecialComplete
  obtain ⟨r, h, _⟩ := parsePositiveSpecial_tot hc o b hv
  simp only [h, bind, Except.bind, pure, Except.pure]
  cases r with
  | none => exact ⟨none, rfl⟩
  | some p =>
    obtain ⟨s, n⟩ := p
    simp only
    split
    · exact ⟨_, rfl⟩
    · exact ⟨_, rfl⟩

/-! ## `parse_complete` / `parse_partial` up to the `Number` -/

def Parsed.count : Parsed → Nat
  | .zero n => n
  | .number _ n => n
  | .special _ _ n => n

/-- what the entry points guarantee in a release build: counts and error indices inside the input; for a number
the exponent bounds of `NumOK` -/
def SynOK (c : Cfg) (input : List Nat) (r : Except Err Parsed) : Prop :=
  match r with
  | .ok p => Parsed.count p ≤ input.length ∧
      (∀ num n, p = .number num n →
        num.exponent.natAbs ≤ 5 * input.length + num.explicitExp.natAbs ∧
        ∃ ds : List Nat, (∀ d ∈ ds, d < c.exponentRadix) ∧ num.explicitExp.natAbs = foldExponent c.exponentRadix 0 ds)
  | .error e => ErrOK input.length e

theorem parseFloatSyntax_tot (hc : Rel c) (o : POpts) (isPartial : Bool) (input : List Nat) (fv : Bool) :
    SynOK c input (parseFloatSyntax c o isPartial input fv) := by
  unfold parseFloatSyntax
  simp only [bind, Except.bind, pure, Except.pure]
  have hs := parseSign_tot hc c.noPositiveMantissaSign c.requiredMantissaSign "InvalidPositiveSign" "MissingSign"
    (Bytes.new input) (new_valid input)
  unfold parseMantissaSign
  cases hps : parseSign c c.noPositiveMantissaSign c.requiredMantissaSign "InvalidPositiveSign" "MissingSign"
      (Bytes.new input) with
  | error e => rw [hps] at hs; exact hs
  | ok r =>
    obtain ⟨neg, b1⟩ := r
    rw [hps] at hs
    have ha1 : Adv (Bytes.new input) b1 := hs
    have hlen1 : b1.slc.length = input.length := ha1.len
    simp only
    obtain ⟨consumed, b2, hic, ha2⟩ := isConsumed_tot hc .integer b1 ha1.valid'
    simp only [hic]
    have ha12 := ha1.trans ha2
    have hlen2 : b2.slc.length = input.length := ha12.len
    have hv2 : b2.index ≤ input.length := ha12.valid
    cases consumed with
    | true =>
      simp only [if_true]
      split
      · exact hv2
      · exact ⟨hv2, by intro num n h; cases h⟩
    | false =>
      simp only [Bool.false_eq_true, if_false]
      cases isPartial with
      | true =>
        simp only [if_true]
        have hN := parseNumber_tot hc true o b2 neg fv ha2.valid'
        cases hpn : parseNumber c true o b2 neg fv with
        | ok r =>
          obtain ⟨num, count⟩ := r
          rw [hpn] at hN
          obtain ⟨_, hcl, hb1, hb2⟩ := hN
          rw [hlen2] at hcl hb1
          refine ⟨hcl, ?_⟩
          intro num' n' h
          simp only [Parsed.number.injEq] at h
          obtain ⟨rfl, rfl⟩ := h
          exact ⟨hb1, hb2⟩
        | error e =>
          rw [hpn] at hN
          cases e with
          | err k i =>
            simp only
            obtain ⟨r, hsp, hle⟩ := parsePositiveSpecial_tot hc o b2 ha2.valid'
            simp only [hsp]
            cases r with
            | none => have : i ≤ b2.slc.length := hN; rw [hlen2] at this; exact this
            | some p =>
              obtain ⟨s, n⟩ := p
              have := hle s n rfl
              rw [hlen2] at this
              exact ⟨this, by intro num n h; cases h⟩
          | panic t => exact hN.elim
          | fault t => exact hN.elim
      | false =>
        simp only [Bool.false_eq_true, if_false]
        have hN := parseCompleteNumber_tot hc o b2 neg fv ha2.valid'
        cases hpn : parseCompleteNumber c o b2 neg fv with
        | ok num =>
          rw [hpn] at hN
          rw [hlen2] at hN
          refine ⟨Nat.le_refl _, ?_⟩
          intro num' n' h
          simp only [Parsed.number.injEq] at h
          obtain ⟨rfl, rfl⟩ := h
          exact hN
        | error e =>
          rw [hpn] at hN
          cases e with
          | err k i =>
            simp only
            obtain ⟨r, hsp⟩ := parseSpecialComplete_tot hc o b2 ha2.valid'
            simp only [hsp]
            cases r with
            | none => have : i ≤ b2.slc.length := hN; rw [hlen2] at this; exact this
            | some s => exact ⟨Nat.le_refl _, by intro num n h; cases h⟩
          | panic t => exact hN.elim
          | fault t => exact hN.elim

/-! ## format validity gives `Rel` -/

theorem skip_unreachable_iff (f : SepFlags) : f.skip = .unreachable ↔ f = ⟨false, false, false, true⟩ := by
  obtain ⟨i, l, t, cc⟩ := f
  cases i <;> cases l <;> cases t <;> cases cc <;> simp [SepFlags.skip]

theorem ite_some_isNone {p : Prop} [Decidable p] {s : String} {x : Option String}
    (h : (if p then some s else x).isNone = true) : ¬ p ∧ x.isNone = true := by
  by_cases hp : p
  · simp [hp] at h
  · simp only [hp, if_false] at h; exact ⟨hp, h⟩

theorem formatError_sep (feats : Features) (fmt : Format) (h : (formatError feats fmt).isNone = true)
    (hf : feats.format = true) :
    ¬ ((!fmt.bit 32 && !fmt.bit (32 + 3) && !fmt.bit (32 + 6) && fmt.bit (32 + 9)) = true) ∧
    ¬ ((!fmt.bit 33 && !fmt.bit (33 + 3) && !fmt.bit (33 + 6) && fmt.bit (33 + 9)) = true) ∧
    ¬ ((!fmt.bit 34 && !fmt.bit (34 + 3) && !fmt.bit (34 + 6) && fmt.bit (34 + 9)) = true) := by
  unfold formatError at h
  simp only [hf] at h
  obtain ⟨-, h⟩ := ite_some_isNone h
  obtain ⟨-, h⟩ := ite_some_isNone h
  obtain ⟨-, h⟩ := ite_some_isNone h
  obtain ⟨-, h⟩ := ite_some_isNone h
  obtain ⟨-, h⟩ := ite_some_isNone h
  obtain ⟨-, h⟩ := ite_some_isNone h
  obtain ⟨-, h⟩ := ite_some_isNone h
  simp only [Bool.not_true, Bool.false_eq_true, if_false] at h
  obtain ⟨-, h⟩ := ite_some_isNone h
  obtain ⟨-, h⟩ := ite_some_isNone h
  obtain ⟨-, h⟩ := ite_some_isNone h
  obtain ⟨-, h⟩ := ite_some_isNone h
  obtain ⟨-, h⟩ := ite_some_isNone h
  obtain ⟨h1, h⟩ := ite_some_isNone h
  obtain ⟨h2, h⟩ := ite_some_isNone h
  obtain ⟨h3, h⟩ := ite_some_isNone h
  exact ⟨h1, h2, h3⟩

/-- `format.is_valid()` excludes the `unreachable!()` arm of every `peek` -/
theorem rel_of_valid (c : Cfg) (hd : c.debug = false) (h : (formatError c.feats c.fmt).isNone = true) : Rel c := by
  refine ⟨hd, ?_⟩
  intro k
  cases hf : c.feats.format with
  | false =>
    cases k <;> simp [Cfg.skip, Cfg.sepFlags, Cfg.flag, Cfg.specialSep, hf, SepFlags.skip]
  | true =>
    obtain ⟨h1, h2, h3⟩ := formatError_sep c.feats c.fmt h hf
    cases k with
    | special => simp only [Cfg.skip]; split <;> simp
    | integer =>
      intro hk
      simp only [Cfg.skip, skip_unreachable_iff, Cfg.sepFlags, Cfg.flag, hf, if_true, SepFlags.mk.injEq,
        Format.integerInternalSep, Format.integerLeadingSep, Format.integerTrailingSep, Format.integerConsecutiveSep] at hk
      apply h1
      simp [hk.1, hk.2.1, hk.2.2.1, hk.2.2.2]
    | fraction =>
      intro hk
      simp only [Cfg.skip, skip_unreachable_iff, Cfg.sepFlags, Cfg.flag, hf, if_true, SepFlags.mk.injEq,
        Format.fractionInternalSep, Format.fractionLeadingSep, Format.fractionTrailingSep, Format.fractionConsecutiveSep] at hk
      apply h2
      simp [hk.1, hk.2.1, hk.2.2.1, hk.2.2.2]
    | exponent =>
      intro hk
      simp only [Cfg.skip, skip_unreachable_iff, Cfg.sepFlags, Cfg.flag, hf, if_true, SepFlags.mk.injEq,
        Format.exponentInternalSep, Format.exponentLeadingSep, Format.exponentTrailingSep, Format.exponentConsecutiveSep] at hk
      apply h3
      simp [hk.1, hk.2.1, hk.2.2.1, hk.2.2.2]
end LexVerif.Proof.PNTotal
