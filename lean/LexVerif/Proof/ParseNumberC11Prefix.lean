import LexVerif.Proof.ParseNumberC11Many
import LexVerif.Proof.ParseNumberC11Key
/-!
# Proof.ParseNumberC11Prefix — C11 (B) `partial_prefix` for the no-`format` release build

Front end (`parse_sign!`, emptiness test) and special-value parser under truncation, then the composition.
-/
set_option linter.unusedSectionVars false
set_option linter.unusedSimpArgs false
namespace LexVerif.Proof.C11
open LexVerif LexVerif.Model LexVerif.Spec
open LexVerif.Props.C12 (Bytes.Valid peek_noformat)

section
variable {c : Cfg} (hf : c.feats.format = false) (hd : c.debug = false)
include hf hd

/-- front end under truncation: same sign, still not consumed -/
theorem afterSign_trunc (s : List Nat) (neg : Bool) (b : Bytes) (h : afterSign c s = .ok (neg, false, b)) :
    ∀ n, b.index < n → afterSign c (s.take n) = .ok (neg, false, trunc n b) := by
  intro n hn
  unfold afterSign at h ⊢
  simp only [bind, Except.bind, pure, Except.pure] at h ⊢
  cases hs : parseMantissaSign c (Bytes.new s) with
  | error e => rw [hs] at h; cases h
  | ok pr =>
    obtain ⟨n0, b0⟩ := pr
    rw [hs] at h
    simp only [isConsumed, hf, Bool.not_false, if_true, Except.ok.injEq, Prod.mk.injEq] at h
    obtain ⟨rfl, he, rfl⟩ := h
    have hv0 : Bytes.Valid (Bytes.new s) := by simp [Bytes.Valid, Bytes.new]
    obtain ⟨_, _, a3, a4⟩ := parseSign_trunc hf hd _ _ _ _ (Bytes.new s) b0 n0 hv0 hs
    have := a4 n (by omega)
    have e : trunc n (Bytes.new s) = Bytes.new (s.take n) := rfl
    rw [e] at this
    unfold parseMantissaSign at hs ⊢
    rw [this]
    simp only [isConsumed, hf, Bool.not_false, if_true, Except.ok.injEq, Prod.mk.injEq, true_and, and_true]
    simp only [Bytes.isBufferEmpty, decide_eq_false_iff_not, trunc_slc, trunc_index, List.length_take, ge_iff_le,
      Nat.not_le] at he ⊢
    omega

/-! ## the special-value parser under truncation -/

theorem iterNext_nf (k : Comp) (b : Bytes) :
    iterNext c k b = .ok (match b.slc[b.index]? with
      | none => (none, b)
      | some x => (some x, Bytes.at b (b.index + 1))) := by
  unfold iterNext
  simp only [peek_noformat c k b hf, bind, Except.bind, pure, Except.pure, hf, Bool.false_and, Bool.false_eq_true,
    if_false]
  cases b.slc[b.index]? <;> rfl

theorem startsWithUncased_trunc : ∀ (ys : List Nat) (b b' : Bytes) (hit : Bool), Bytes.Valid b →
    Model.startsWithUncased c ys b = .ok (hit, b') →
    (hit = true → b'.index = b.index + ys.length ∧ b.index + ys.length ≤ b.slc.length) ∧
    ∀ n, b.index + ys.length ≤ n → Model.startsWithUncased c ys (trunc n b) = .ok (hit, trunc n b') := by
  intro ys
  induction ys with
  | nil =>
    intro b b' hit hv h
    simp only [Model.startsWithUncased, pure, Except.pure, Except.ok.injEq, Prod.mk.injEq] at h
    obtain ⟨rfl, rfl⟩ := h
    exact ⟨fun _ => ⟨by simp, by simp only [List.length_nil, Nat.add_zero]; exact hv⟩, fun n _ => rfl⟩
  | cons y ys ih =>
    intro b b' hit hv h
    unfold Model.startsWithUncased at h
    simp only [iterNext_nf hf hd, bind, Except.bind, pure, Except.pure] at h
    cases hx : b.slc[b.index]? with
    | none =>
      rw [hx] at h
      simp only [Except.ok.injEq, Prod.mk.injEq] at h
      obtain ⟨rfl, rfl⟩ := h
      refine ⟨fun hh => (by cases hh), ?_⟩
      intro n hn
      unfold Model.startsWithUncased
      simp only [iterNext_nf hf hd, bind, Except.bind, pure, Except.pure, trunc_slc, trunc_index]
      have : (b.slc.take n)[b.index]? = none := by
        have := List.getElem?_eq_none_iff.mp hx
        exact List.getElem?_eq_none_iff.mpr (by simp only [List.length_take]; omega)
      rw [this]
    | some xi =>
      rw [hx] at h
      simp only at h
      have hlt : b.index < b.slc.length := (List.getElem?_eq_some_iff.mp hx).1
      have hstep : ∀ n, b.index + (y :: ys).length ≤ n → (b.slc.take n)[b.index]? = some xi := by
        intro n hn
        simp only [List.length_cons] at hn
        rw [take_get_lt _ _ _ (by omega), hx]
      by_cases hxor : (Nat.xor xi y ≠ 0 && Nat.xor xi y ≠ 32) = true
      · rw [if_pos hxor] at h
        simp only [Except.ok.injEq, Prod.mk.injEq] at h
        obtain ⟨rfl, rfl⟩ := h
        refine ⟨fun hh => (by cases hh), ?_⟩
        intro n hn
        unfold Model.startsWithUncased
        simp only [iterNext_nf hf hd, bind, Except.bind, pure, Except.pure, trunc_slc, trunc_index, hstep n hn]
        rw [if_pos hxor]
        rfl
      · rw [if_neg hxor] at h
        have hv1 : Bytes.Valid (Bytes.at b (b.index + 1)) := by
          simp only [Bytes.Valid, at_index, at_slc]; omega
        obtain ⟨r1, r2⟩ := ih (Bytes.at b (b.index + 1)) b' hit hv1 h
        simp only [at_index, at_slc] at r1 r2
        refine ⟨fun hh => by have := r1 hh; simp only [List.length_cons]; omega, ?_⟩
        intro n hn
        unfold Model.startsWithUncased
        simp only [iterNext_nf hf hd, bind, Except.bind, pure, Except.pure, trunc_slc, trunc_index, hstep n hn]
        rw [if_neg hxor]
        simp only [List.length_cons] at hn
        exact r2 n (by omega)

/-- `is_special_eq` in the no-skip build: 0, or the cursor after the match -/
theorem isSpecialEq_trunc (b : Bytes) (s : List Nat) (m : Nat) (hv : Bytes.Valid b)
    (h : isSpecialEq c b s = .ok m) :
    (m ≠ 0 → m = b.index + s.length ∧ m ≤ b.slc.length) ∧
    ∀ n, b.index + s.length ≤ n → isSpecialEq c (trunc n b) s = .ok m := by
  unfold isSpecialEq at h
  simp only [hf, Bool.false_and, Bool.false_eq_true, if_false, bind, Except.bind, pure, Except.pure] at h
  cases hs : Model.startsWithUncased c s b with
  | error e => rw [hs] at h; cases h
  | ok pr =>
    obtain ⟨hit, b1⟩ := pr
    obtain ⟨r1, r2⟩ := startsWithUncased_trunc hf hd s b b1 hit hv hs
    rw [hs] at h
    simp only [peek_noformat c _ _ hf] at h
    have htr : ∀ n, b.index + s.length ≤ n → isSpecialEq c (trunc n b) s = .ok m := by
      intro n hn
      unfold isSpecialEq
      simp only [hf, Bool.false_and, Bool.false_eq_true, if_false, bind, Except.bind, pure, Except.pure, r2 n hn,
        peek_noformat c _ _ hf]
      cases hit <;> simpa using h
    cases hit with
    | false =>
      simp only [Bool.false_eq_true, if_false, Except.ok.injEq] at h
      subst h
      exact ⟨fun hh => absurd rfl hh, htr⟩
    | true =>
      simp only [if_true, Except.ok.injEq] at h
      subst h
      have := r1 rfl
      exact ⟨fun _ => ⟨this.1, by omega⟩, htr⟩

theorem try1_trunc (b : Bytes) (so : Option (List Nat)) (m n : Nat) (hv : Bytes.Valid b) (hn : b.index ≤ n)
    (h : PNTotal.try1 c b (b.bufferLength - b.index) so = .ok m) :
    (m ≠ 0 → b.index < m ∨ so = some []) ∧ (m ≠ 0 → m ≤ b.slc.length) ∧
    ∃ m', PNTotal.try1 c (trunc n b) ((trunc n b).bufferLength - (trunc n b).index) so = .ok m' ∧
      (m = 0 → m' = 0) ∧ (m ≠ 0 → m ≤ n → m' = m) := by
  unfold PNTotal.try1 at h ⊢
  cases so with
  | none =>
    cases h
    exact ⟨fun hh => absurd rfl hh, fun hh => absurd rfl hh, 0, rfl, fun _ => rfl, fun hh => absurd rfl hh⟩
  | some s =>
    simp only at h ⊢
    have hbl : b.bufferLength = b.slc.length := rfl
    have hbl2 : (trunc n b).bufferLength = min n b.slc.length := by
      simp only [Bytes.bufferLength, trunc_slc, List.length_take]
    split at h
    · next hl =>
      rw [hbl] at hl
      obtain ⟨q1, q2⟩ := isSpecialEq_trunc hf hd b s m hv h
      refine ⟨?_, fun hh => (q1 hh).2, ?_⟩
      · intro hh
        have := (q1 hh).1
        cases s with
        | nil => exact Or.inr rfl
        | cons y ys => simp only [List.length_cons] at this; exact Or.inl (by omega)
      · split
        · next hl2 =>
          rw [hbl2, trunc_index] at hl2
          have hle : b.index + s.length ≤ n := by omega
          exact ⟨m, q2 n hle, fun h0 => h0, fun _ _ => rfl⟩
        · next hl2 =>
          rw [hbl2, trunc_index] at hl2
          refine ⟨0, rfl, fun _ => rfl, ?_⟩
          intro hm0 hmn
          have := (q1 hm0).1
          omega
    · next hl =>
      rw [hbl] at hl
      cases h
      refine ⟨fun hh => absurd rfl hh, fun hh => absurd rfl hh, ?_⟩
      split
      · next hl2 => rw [hbl2, trunc_index] at hl2; omega
      · exact ⟨0, rfl, fun _ => rfl, fun hh => absurd rfl hh⟩

/-- a special-value match is reproduced on the buffer cut right after the match -/
theorem parsePositiveSpecial_trunc (o : POpts) (b : Bytes) (sp : Special) (cnt : Nat) (hv : Bytes.Valid b)
    (hidx : b.index ≤ cnt) (h : parsePositiveSpecial c o b = .ok (some (sp, cnt))) :
    cnt ≤ b.slc.length ∧ parsePositiveSpecial c o (trunc cnt b) = .ok (some (sp, cnt)) := by
  rw [PNTotal.parsePositiveSpecial_eq] at h ⊢
  simp only [hf, Bool.false_and, Bool.false_eq_true, if_false, bind, Except.bind, pure, Except.pure] at h ⊢
  cases h1 : PNTotal.try1 c b (b.bufferLength - b.index) o.nan with
  | error e => rw [h1] at h; cases h
  | ok n1 =>
    obtain ⟨_, l1, m1, t1, z1, e1⟩ := try1_trunc hf hd b o.nan n1 cnt hv hidx h1
    rw [h1] at h
    simp only at h
    rw [t1]
    simp only
    by_cases hn1 : n1 ≠ 0
    · rw [if_pos hn1] at h
      simp only [Except.ok.injEq, Option.some.injEq, Prod.mk.injEq] at h
      obtain ⟨rfl, rfl⟩ := h
      have := e1 hn1 (Nat.le_refl _)
      subst this
      rw [if_pos hn1]
      exact ⟨l1 hn1, rfl⟩
    · rw [if_neg hn1] at h
      have hm1 : m1 = 0 := z1 (by omega)
      rw [if_neg (by omega)]
      cases h2 : PNTotal.try1 c b (b.bufferLength - b.index) o.infinity with
      | error e => rw [h2] at h; cases h
      | ok n2 =>
        obtain ⟨_, l2, m2, t2, z2, e2⟩ := try1_trunc hf hd b o.infinity n2 cnt hv hidx h2
        rw [h2] at h
        simp only at h
        rw [t2]
        simp only
        by_cases hn2 : n2 ≠ 0
        · rw [if_pos hn2] at h
          simp only [Except.ok.injEq, Option.some.injEq, Prod.mk.injEq] at h
          obtain ⟨rfl, rfl⟩ := h
          have := e2 hn2 (Nat.le_refl _)
          subst this
          rw [if_pos hn2]
          exact ⟨l2 hn2, rfl⟩
        · rw [if_neg hn2] at h
          have hm2 : m2 = 0 := z2 (by omega)
          rw [if_neg (by omega)]
          cases h3 : PNTotal.try1 c b (b.bufferLength - b.index) o.inf with
          | error e => rw [h3] at h; cases h
          | ok n3 =>
            obtain ⟨_, l3, m3, t3, z3, e3⟩ := try1_trunc hf hd b o.inf n3 cnt hv hidx h3
            rw [h3] at h
            simp only at h
            rw [t3]
            simp only
            by_cases hn3 : n3 ≠ 0
            · rw [if_pos hn3] at h
              simp only [Except.ok.injEq, Option.some.injEq, Prod.mk.injEq] at h
              obtain ⟨rfl, rfl⟩ := h
              have := e3 hn3 (Nat.le_refl _)
              subst this
              rw [if_pos hn3]
              exact ⟨l3 hn3, rfl⟩
            · rw [if_neg hn3] at h
              cases h

/-! ## composition -/

omit hf hd in
theorem tail_partial_number (o : POpts) (s : List Nat) (fv neg : Bool) (b : Bytes) (x : Number) (cnt : Nat)
    (h : tail c o true s fv neg b = .ok (.number x cnt)) : parseNumber c true o b neg fv = .ok (x, cnt) := by
  unfold tail at h
  simp only [if_true] at h
  cases h1 : parseNumber c true o b neg fv with
  | ok r => rw [h1] at h; cases h; rfl
  | error e =>
    rw [h1] at h
    cases e with
    | err k i =>
      simp only at h
      cases h3 : parsePositiveSpecial c o b with
      | error e => rw [h3] at h; cases h
      | ok r => cases r <;> rw [h3] at h <;> cases h
    | panic t => cases h
    | fault t => cases h

omit hf hd in
theorem tail_partial_special (o : POpts) (s : List Nat) (fv neg : Bool) (b : Bytes) (sp : Special) (ng : Bool)
    (cnt : Nat) (h : tail c o true s fv neg b = .ok (.special sp ng cnt)) :
    ng = neg ∧ parsePositiveSpecial c o b = .ok (some (sp, cnt)) := by
  unfold tail at h
  simp only [if_true] at h
  cases h1 : parseNumber c true o b neg fv with
  | ok r => rw [h1] at h; cases h
  | error e =>
    rw [h1] at h
    cases e with
    | err k i =>
      simp only at h
      cases h3 : parsePositiveSpecial c o b with
      | error e => rw [h3] at h; cases h
      | ok r =>
        cases r with
        | none => rw [h3] at h; cases h
        | some pr => rw [h3] at h; cases h; exact ⟨rfl, rfl⟩
    | panic t => cases h
    | fault t => cases h

/-- `partial_prefix`, number results: no `format` feature, release build, every input and options -/
theorem partial_prefix_number_nf (o : POpts) (s : List Nat) (fv : Bool) (x : Number) (cnt : Nat)
    (hr : 1 ≤ c.mantissaRadix) (h : parseFloatSyntax c o true s fv = .ok (.number x cnt)) :
    parseFloatSyntax c o false (s.take cnt) fv = .ok (.number x cnt) := by
  rw [parseFloatSyntax_eq] at h ⊢
  cases ha : afterSign c s with
  | error e => rw [ha] at h; cases h
  | ok pr =>
    obtain ⟨neg, consumed, b⟩ := pr
    rw [ha] at h
    simp only at h
    cases consumed with
    | true => simp only [if_true] at h; split at h <;> cases h
    | false =>
      simp only [Bool.false_eq_true, if_false] at h
      obtain ⟨hslc, hv, _⟩ := afterSign_ok c s neg false b ha
      have hpn := tail_partial_number o s fv neg b x cnt h
      obtain ⟨p1, p2, p3⟩ := parseNumber_trunc hf hd true o b neg fv x cnt hr hv hpn
      rw [afterSign_trunc hf hd s neg b ha cnt p1]
      simp only [Bool.false_eq_true, if_false]
      unfold tail
      simp only [Bool.false_eq_true, if_false]
      rw [parseCompleteNumber_eq, (parseNumber_ok_iff c o _ neg fv _).mp (p3 cnt (Nat.le_refl _))]
      have hlen : (trunc cnt b).slc.length = cnt := by
        simp only [trunc_slc, List.length_take]; omega
      have hlen2 : (s.take cnt).length = cnt := by
        rw [← hslc]; simp only [List.length_take]; omega
      simp only [hlen, if_true, hlen2, pure, Except.pure]

/-- `partial_prefix`, special results: needs the exclusion of class (iii) (`SpecialHeadsOK`) -/
theorem partial_prefix_special_nf (o : POpts) (s : List Nat) (fv : Bool) (sp : Special) (ng : Bool) (cnt : Nat)
    (hr : 1 ≤ c.mantissaRadix) (hrad : c.feats.powerOfTwo = false → c.mantissaRadix ≤ 10) (hh : SpecialHeadsOK c o)
    (h : parseFloatSyntax c o true s fv = .ok (.special sp ng cnt)) :
    parseFloatSyntax c o false (s.take cnt) fv = .ok (.special sp ng cnt) := by
  rw [parseFloatSyntax_eq] at h ⊢
  cases ha : afterSign c s with
  | error e => rw [ha] at h; cases h
  | ok pr =>
    obtain ⟨neg, consumed, b⟩ := pr
    rw [ha] at h
    simp only at h
    cases consumed with
    | true => simp only [if_true] at h; split at h <;> cases h
    | false =>
      simp only [Bool.false_eq_true, if_false] at h
      obtain ⟨hslc, hv, _⟩ := afterSign_ok c s neg false b ha
      obtain ⟨rfl, hps⟩ := tail_partial_special o s fv neg b sp ng cnt h
      -- the match is non-empty
      obtain ⟨str, hstr, _, heq, hn0⟩ := parsePositiveSpecial_some o b sp cnt hps
      obtain ⟨y, ys, rfl, _⟩ := hh str hstr
      have hcnt := ((isSpecialEq_trunc hf hd b (y :: ys) cnt hv heq).1 hn0).1
      simp only [List.length_cons] at hcnt
      have hidx : b.index < cnt := by omega
      obtain ⟨hle, hpt⟩ := parsePositiveSpecial_trunc hf hd o b sp cnt hv (by omega) hps
      rw [afterSign_trunc hf hd s ng b ha cnt hidx]
      simp only [Bool.false_eq_true, if_false]
      have hb := PNTotal.notFormat_bytesContig (c := c) hf
      have hm := requiredMantissaDigits_nf hf hd
      have hvt : (trunc cnt b).index ≤ (trunc cnt b).slc.length := by
        simp only [trunc_slc, trunc_index, List.length_take]; omega
      have hnot := parseNumber_not_ok_of_special hb false o (trunc cnt b) ng fv sp cnt hh hrad hr hm hpt
      have htot := PNTotal.parseNumber_tot (rel_nf hf hd) false o (trunc cnt b) ng fv hvt
      have hlen : (trunc cnt b).slc.length = cnt := by
        simp only [trunc_slc, List.length_take]; omega
      have hlen2 : (s.take cnt).length = cnt := by
        rw [← hslc]; simp only [List.length_take]; omega
      unfold tail
      simp only [Bool.false_eq_true, if_false]
      rw [parseCompleteNumber_eq, parseSpecialComplete_eq, hpt]
      cases hpn : parseNumber c false o (trunc cnt b) ng fv with
      | ok r => exact absurd hpn (hnot r)
      | error e =>
        rw [hpn] at htot
        cases e with
        | err k i => simp only [hlen, if_true, hlen2, pure, Except.pure]
        | panic t => exact absurd htot (by simp [PNTotal.NumOK, PNTotal.ErrOK])
        | fault t => exact absurd htot (by simp [PNTotal.NumOK, PNTotal.ErrOK])

/-- **C11 (B) for the no-`format` release build**: every successful partial parse is reproduced by the complete
parser on exactly the consumed prefix, provided no special string starts (in either case) with a mantissa digit or
the decimal point. (No `count > 0` hypothesis is needed: mantissa digits are required in this build.) -/
theorem partial_prefix_nf (o : POpts) (s : List Nat) (fv : Bool) (p : Parsed)
    (hr : 1 ≤ c.mantissaRadix) (hrad : c.feats.powerOfTwo = false → c.mantissaRadix ≤ 10) (hh : SpecialHeadsOK c o)
    (h : parseFloatSyntax c o true s fv = .ok p) :
    parseFloatSyntax c o false (s.take (pcount p)) fv = .ok p := by
  cases p with
  | number x cnt => exact partial_prefix_number_nf hf hd o s fv x cnt hr h
  | special sp ng cnt => exact partial_prefix_special_nf hf hd o s fv sp ng cnt hr hrad hh h
  | zero n =>
    exfalso
    rw [parseFloatSyntax_eq] at h
    cases ha : afterSign c s with
    | error e => rw [ha] at h; cases h
    | ok pr =>
      obtain ⟨neg, consumed, b⟩ := pr
      rw [ha] at h
      simp only at h
      cases consumed with
      | true =>
        simp only [if_true, requiredMantissaDigits_nf hf hd, Bool.or_true] at h
        cases h
      | false =>
        simp only [Bool.false_eq_true, if_false] at h
        unfold tail at h
        simp only [if_true] at h
        split at h
        · cases h
        · split at h <;> cases h
        · cases h

end
end LexVerif.Proof.C11
