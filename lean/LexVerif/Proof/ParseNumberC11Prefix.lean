import LexVerif.Proof.ParseNumberC11Many
import LexVerif.Proof.ParseNumberC11Key
/-!
# Proof.ParseNumberC11Prefix — C11 (B) `partial_prefix`: release build; number results for every format without a
separator flag on integer / fraction / exponent (`NumContig`), special results without a digit-separator byte

Front end (`parse_sign!`, emptiness test) and special-value parser under truncation, then the composition.
-/
set_option linter.unusedSectionVars false
set_option linter.unusedSimpArgs false
namespace LexVerif.Proof.C11
open LexVerif LexVerif.Model LexVerif.Spec
open LexVerif.Props.C12 (Bytes.Valid)
open LexVerif.Proof.PNTotal (Rel peek_contig)

/-! ## number results: `NumContig` (no separator byte, or no separator flag on integer / fraction / exponent) -/

section
variable {c : Cfg} (hc : Rel c) (hb : NumContig c)
include hc hb

theorem isConsumed_g (k : Comp) (hk : k ≠ .special) (b : Bytes) :
    isConsumed c k b = .ok (decide (b.index ≥ b.slc.length), b) := by
  unfold isConsumed
  split
  · rfl
  · simp only [peek_num hc hb k hk, bind, Except.bind, pure, Except.pure, Except.ok.injEq, Prod.mk.injEq, and_true]
    cases hx : b.slc[b.index]? with
    | none => have := List.getElem?_eq_none_iff.mp hx; simp; omega
    | some x => have := (List.getElem?_eq_some_iff.mp hx).1; simp; omega

/-- front end under truncation: same sign, still not consumed -/
theorem afterSign_trunc (s : List Nat) (neg : Bool) (b : Bytes) (h : afterSign c s = .ok (neg, false, b)) :
    ∀ n, b.index < n → afterSign c (s.take n) = .ok (neg, false, trunc n b) := by
  intro n hn
  unfold afterSign at h ⊢
  simp only [bind, Except.bind, pure, Except.pure] at h ⊢
  cases hs : parseMantissaSign c (Bytes.new s) with
  | error e => rw [hs] at h; cases h
  | ok pr =>
    obtain ⟨n0, b0⟩ := pr
    rw [hs] at h
    simp only [isConsumed_g hc hb .integer (by decide), Except.ok.injEq, Prod.mk.injEq] at h
    obtain ⟨rfl, he, rfl⟩ := h
    have hv0 : Bytes.Valid (Bytes.new s) := by simp [Bytes.Valid, Bytes.new]
    obtain ⟨_, _, a3, a4⟩ := parseSign_trunc hc hb _ _ _ _ (Bytes.new s) b0 n0 hv0 hs
    have := a4 n (by omega)
    have e : trunc n (Bytes.new s) = Bytes.new (s.take n) := rfl
    rw [e] at this
    unfold parseMantissaSign at hs ⊢
    rw [this]
    simp only [isConsumed_g hc hb .integer (by decide), Except.ok.injEq, Prod.mk.injEq, true_and, and_true]
    simp only [decide_eq_false_iff_not, trunc_slc, trunc_index, List.length_take, ge_iff_le, Nat.not_le] at he ⊢
    omega

omit hc hb in
theorem tail_partial_number (o : POpts) (s : List Nat) (fv neg : Bool) (b : Bytes) (x : Number) (cnt : Nat)
    (h : tail c o true s fv neg b = .ok (.number x cnt)) : parseNumber c true o b neg fv = .ok (x, cnt) := by
  unfold tail at h
  simp only [if_true] at h
  cases h1 : parseNumber c true o b neg fv with
  | ok r => rw [h1] at h; cases h; rfl
  | error e =>
    rw [h1] at h
    cases e with
    | err k i =>
      simp only at h
      cases h3 : parsePositiveSpecial c o b with
      | error e => rw [h3] at h; cases h
      | ok r => cases r <;> rw [h3] at h <;> cases h
    | panic t => cases h
    | fault t => cases h

/-- `partial_prefix`, number results: every input and options -/
theorem partial_prefix_number_g (o : POpts) (s : List Nat) (fv : Bool) (x : Number) (cnt : Nat)
    (hr : 1 ≤ c.mantissaRadix) (hm : c.requiredMantissaDigits = true)
    (h : parseFloatSyntax c o true s fv = .ok (.number x cnt)) :
    parseFloatSyntax c o false (s.take cnt) fv = .ok (.number x cnt) := by
  rw [parseFloatSyntax_eq] at h ⊢
  cases ha : afterSign c s with
  | error e => rw [ha] at h; cases h
  | ok pr =>
    obtain ⟨neg, consumed, b⟩ := pr
    rw [ha] at h
    simp only at h
    cases consumed with
    | true => simp only [if_true] at h; split at h <;> cases h
    | false =>
      simp only [Bool.false_eq_true, if_false] at h
      obtain ⟨hslc, hv, _⟩ := afterSign_ok c s neg false b ha
      have hpn := tail_partial_number o s fv neg b x cnt h
      obtain ⟨p1, p2, p3⟩ := parseNumber_trunc hc hb true o b neg fv x cnt hr hm hv hpn
      rw [afterSign_trunc hc hb s neg b ha cnt p1]
      simp only [Bool.false_eq_true, if_false]
      unfold tail
      simp only [Bool.false_eq_true, if_false]
      rw [parseCompleteNumber_eq, (parseNumber_ok_iff c o _ neg fv _).mp (p3 cnt (Nat.le_refl _))]
      have hlen : (trunc cnt b).slc.length = cnt := by
        simp only [trunc_slc, List.length_take]; omega
      have hlen2 : (s.take cnt).length = cnt := by
        rw [← hslc]; simp only [List.length_take]; omega
      simp only [hlen, if_true, hlen2, pure, Except.pure]

end

/-! ## special results and the composition: no separator byte -/

section
variable {c : Cfg} (hc : Rel c) (hb : c.bytesContiguous = true)
include hc hb

/-! ## the special-value parser under truncation -/

theorem iterNext_g (b : Bytes) :
    iterNext c .special b = .ok (match b.slc[b.index]? with
      | none => (none, b)
      | some x => (some x, Bytes.at b (b.index + 1))) := by
  unfold iterNext
  simp only [peek_contig hc hb, bind, Except.bind, pure, Except.pure]
  cases b.slc[b.index]? with
  | none => rfl
  | some x =>
    simp only [Bytes.incCount]
    split <;> (try split) <;> rfl

theorem startsWithUncased_trunc : ∀ (ys : List Nat) (b b' : Bytes) (hit : Bool), Bytes.Valid b →
    Model.startsWithUncased c ys b = .ok (hit, b') →
    (hit = true → b'.index = b.index + ys.length ∧ b.index + ys.length ≤ b.slc.length) ∧
    ∀ n, b.index + ys.length ≤ n → Model.startsWithUncased c ys (trunc n b) = .ok (hit, trunc n b') := by
  intro ys
  induction ys with
  | nil =>
    intro b b' hit hv h
    simp only [Model.startsWithUncased, pure, Except.pure, Except.ok.injEq, Prod.mk.injEq] at h
    obtain ⟨rfl, rfl⟩ := h
    exact ⟨fun _ => ⟨by simp, by simp only [List.length_nil, Nat.add_zero]; exact hv⟩, fun n _ => rfl⟩
  | cons y ys ih =>
    intro b b' hit hv h
    unfold Model.startsWithUncased at h
    simp only [iterNext_g hc hb, bind, Except.bind, pure, Except.pure] at h
    cases hx : b.slc[b.index]? with
    | none =>
      rw [hx] at h
      simp only [Except.ok.injEq, Prod.mk.injEq] at h
      obtain ⟨rfl, rfl⟩ := h
      refine ⟨fun hh => (by cases hh), ?_⟩
      intro n hn
      unfold Model.startsWithUncased
      simp only [iterNext_g hc hb, bind, Except.bind, pure, Except.pure, trunc_slc, trunc_index]
      have : (b.slc.take n)[b.index]? = none := by
        have := List.getElem?_eq_none_iff.mp hx
        exact List.getElem?_eq_none_iff.mpr (by simp only [List.length_take]; omega)
      rw [this]
    | some xi =>
      rw [hx] at h
      simp only at h
      have hlt : b.index < b.slc.length := (List.getElem?_eq_some_iff.mp hx).1
      have hstep : ∀ n, b.index + (y :: ys).length ≤ n → (b.slc.take n)[b.index]? = some xi := by
        intro n hn
        simp only [List.length_cons] at hn
        rw [take_get_lt _ _ _ (by omega), hx]
      by_cases hxor : (Nat.xor xi y ≠ 0 && Nat.xor xi y ≠ 32) = true
      · rw [if_pos hxor] at h
        simp only [Except.ok.injEq, Prod.mk.injEq] at h
        obtain ⟨rfl, rfl⟩ := h
        refine ⟨fun hh => (by cases hh), ?_⟩
        intro n hn
        unfold Model.startsWithUncased
        simp only [iterNext_g hc hb, bind, Except.bind, pure, Except.pure, trunc_slc, trunc_index, hstep n hn]
        rw [if_pos hxor]
        rfl
      · rw [if_neg hxor] at h
        have hv1 : Bytes.Valid (Bytes.at b (b.index + 1)) := by
          simp only [Bytes.Valid, at_index, at_slc]; omega
        obtain ⟨r1, r2⟩ := ih (Bytes.at b (b.index + 1)) b' hit hv1 h
        simp only [at_index, at_slc] at r1 r2
        refine ⟨fun hh => by have := r1 hh; simp only [List.length_cons]; omega, ?_⟩
        intro n hn
        unfold Model.startsWithUncased
        simp only [iterNext_g hc hb, bind, Except.bind, pure, Except.pure, trunc_slc, trunc_index, hstep n hn]
        rw [if_neg hxor]
        simp only [List.length_cons] at hn
        exact r2 n (by omega)

theorem startsWith_trunc : ∀ (ys : List Nat) (b b' : Bytes) (hit : Bool), Bytes.Valid b →
    Model.startsWith c ys b = .ok (hit, b') →
    (hit = true → b'.index = b.index + ys.length ∧ b.index + ys.length ≤ b.slc.length) ∧
    ∀ n, b.index + ys.length ≤ n → Model.startsWith c ys (trunc n b) = .ok (hit, trunc n b') := by
  intro ys
  induction ys with
  | nil =>
    intro b b' hit hv h
    simp only [Model.startsWith, pure, Except.pure, Except.ok.injEq, Prod.mk.injEq] at h
    obtain ⟨rfl, rfl⟩ := h
    exact ⟨fun _ => ⟨by simp, by simp only [List.length_nil, Nat.add_zero]; exact hv⟩, fun n _ => rfl⟩
  | cons y ys ih =>
    intro b b' hit hv h
    unfold Model.startsWith at h
    simp only [iterNext_g hc hb, bind, Except.bind, pure, Except.pure] at h
    cases hx : b.slc[b.index]? with
    | none =>
      rw [hx] at h
      simp only [reduceCtorEq, if_false, Except.ok.injEq, Prod.mk.injEq] at h
      obtain ⟨rfl, rfl⟩ := h
      refine ⟨fun hh => (by cases hh), ?_⟩
      intro n hn
      unfold Model.startsWith
      simp only [iterNext_g hc hb, bind, Except.bind, pure, Except.pure]
      rw [get_trunc, hx]
      have : (if b.index < n then (none : Option Nat) else none) = none := by split <;> rfl
      rw [this]
      simp only [reduceCtorEq, if_false]
    | some xi =>
      rw [hx] at h
      simp only at h
      have hlt : b.index < b.slc.length := (List.getElem?_eq_some_iff.mp hx).1
      have hstep : ∀ n, b.index + (y :: ys).length ≤ n → (trunc n b).slc[(trunc n b).index]? = some xi := by
        intro n hn
        simp only [List.length_cons] at hn
        rw [get_trunc, if_pos (by omega), hx]
      by_cases hxy : some xi = some y
      · rw [if_pos hxy] at h
        have hv1 : Bytes.Valid (Bytes.at b (b.index + 1)) := by
          simp only [Bytes.Valid, at_index, at_slc]; omega
        obtain ⟨r1, r2⟩ := ih (Bytes.at b (b.index + 1)) b' hit hv1 h
        simp only [at_index, at_slc] at r1 r2
        refine ⟨fun hh => by have := r1 hh; simp only [List.length_cons]; omega, ?_⟩
        intro n hn
        unfold Model.startsWith
        simp only [iterNext_g hc hb, bind, Except.bind, pure, Except.pure, hstep n hn]
        rw [if_pos hxy]
        simp only [List.length_cons] at hn
        exact r2 n (by omega)
      · rw [if_neg hxy] at h
        simp only [Except.ok.injEq, Prod.mk.injEq] at h
        obtain ⟨rfl, rfl⟩ := h
        refine ⟨fun hh => (by cases hh), ?_⟩
        intro n hn
        unfold Model.startsWith
        simp only [iterNext_g hc hb, bind, Except.bind, pure, Except.pure, hstep n hn]
        rw [if_neg hxy]
        rfl

omit hc hb in
/-- `is_special_eq` after the `starts_with` call -/
def spFinish (c : Cfg) (r : Except Err (Bool × Bytes)) : Except Err Nat :=
  match r with
  | .error e => .error e
  | .ok (hit, b1) =>
    if hit then
      match peek c .special b1 with
      | .error e => .error e
      | .ok (_, b2) => .ok b2.index
    else .ok 0

omit hc hb in
theorem isSpecialEq_eq (b : Bytes) (s : List Nat) :
    isSpecialEq c b s = spFinish c (if (c.feats.format && c.caseSensitiveSpecial) = true then Model.startsWith c s b
      else Model.startsWithUncased c s b) := by
  unfold isSpecialEq spFinish
  by_cases hcs : (c.feats.format && c.caseSensitiveSpecial) = true
  · simp only [hcs, if_true, bind, Except.bind, pure, Except.pure]
    cases Model.startsWith c s b with
    | error e => rfl
    | ok pr =>
      obtain ⟨hit, b1⟩ := pr
      cases hit with
      | false => rfl
      | true =>
        simp only [if_true]
        cases peek c .special b1 <;> rfl
  · simp only [hcs, Bool.false_eq_true, if_false, bind, Except.bind, pure, Except.pure]
    cases Model.startsWithUncased c s b with
    | error e => rfl
    | ok pr =>
      obtain ⟨hit, b1⟩ := pr
      cases hit with
      | false => rfl
      | true =>
        simp only [if_true]
        cases peek c .special b1 <;> rfl

theorem spFinish_ok (hit : Bool) (b1 : Bytes) : spFinish c (.ok (hit, b1)) = .ok (if hit then b1.index else 0) := by
  unfold spFinish
  simp only [peek_contig hc hb]
  cases hit <;> rfl

/-- `is_special_eq`: 0, or the cursor after the match -/
theorem isSpecialEq_trunc (b : Bytes) (s : List Nat) (m : Nat) (hv : Bytes.Valid b)
    (h : isSpecialEq c b s = .ok m) :
    (m ≠ 0 → m = b.index + s.length ∧ m ≤ b.slc.length) ∧
    ∀ n, b.index + s.length ≤ n → isSpecialEq c (trunc n b) s = .ok m := by
  rw [isSpecialEq_eq] at h
  have fin : ∀ (hit : Bool) (b1 : Bytes),
      (hit = true → b1.index = b.index + s.length ∧ b.index + s.length ≤ b.slc.length) →
      spFinish c (.ok (hit, b1)) = .ok m → (m ≠ 0 → m = b.index + s.length ∧ m ≤ b.slc.length) ∧
        ∀ n, spFinish c (.ok (hit, trunc n b1)) = .ok m := by
    intro hit b1 r1 hm
    rw [spFinish_ok hc hb] at hm
    simp only [Except.ok.injEq] at hm
    refine ⟨?_, fun n => by rw [spFinish_ok hc hb, trunc_index]; rw [hm]⟩
    intro hm0
    cases hit with
    | false => simp only [Bool.false_eq_true, if_false] at hm; exact absurd hm.symm hm0
    | true =>
      simp only [if_true] at hm
      have := r1 rfl
      exact ⟨by omega, by omega⟩
  by_cases hcs : (c.feats.format && c.caseSensitiveSpecial) = true
  · rw [if_pos hcs] at h
    cases hs : Model.startsWith c s b with
    | error e => rw [hs] at h; cases h
    | ok pr =>
      obtain ⟨hit, b1⟩ := pr
      obtain ⟨r1, r2⟩ := startsWith_trunc hc hb s b b1 hit hv hs
      rw [hs] at h
      obtain ⟨q1, q2⟩ := fin hit b1 r1 h
      refine ⟨q1, fun n hn => ?_⟩
      rw [isSpecialEq_eq, if_pos hcs, r2 n hn]
      exact q2 n
  · rw [if_neg hcs] at h
    cases hs : Model.startsWithUncased c s b with
    | error e => rw [hs] at h; cases h
    | ok pr =>
      obtain ⟨hit, b1⟩ := pr
      obtain ⟨r1, r2⟩ := startsWithUncased_trunc hc hb s b b1 hit hv hs
      rw [hs] at h
      obtain ⟨q1, q2⟩ := fin hit b1 r1 h
      refine ⟨q1, fun n hn => ?_⟩
      rw [isSpecialEq_eq, if_neg hcs, r2 n hn]
      exact q2 n

theorem try1_trunc (b : Bytes) (so : Option (List Nat)) (m n : Nat) (hv : Bytes.Valid b) (hn : b.index ≤ n)
    (h : PNTotal.try1 c b (b.bufferLength - b.index) so = .ok m) :
    (m ≠ 0 → b.index < m ∨ so = some []) ∧ (m ≠ 0 → m ≤ b.slc.length) ∧
    ∃ m', PNTotal.try1 c (trunc n b) ((trunc n b).bufferLength - (trunc n b).index) so = .ok m' ∧
      (m = 0 → m' = 0) ∧ (m ≠ 0 → m ≤ n → m' = m) := by
  unfold PNTotal.try1 at h ⊢
  cases so with
  | none =>
    cases h
    exact ⟨fun hh => absurd rfl hh, fun hh => absurd rfl hh, 0, rfl, fun _ => rfl, fun hh => absurd rfl hh⟩
  | some s =>
    simp only at h ⊢
    have hbl : b.bufferLength = b.slc.length := rfl
    have hbl2 : (trunc n b).bufferLength = min n b.slc.length := by
      simp only [Bytes.bufferLength, trunc_slc, List.length_take]
    split at h
    · next hl =>
      rw [hbl] at hl
      obtain ⟨q1, q2⟩ := isSpecialEq_trunc hc hb b s m hv h
      refine ⟨?_, fun hh => (q1 hh).2, ?_⟩
      · intro hh
        have := (q1 hh).1
        cases s with
        | nil => exact Or.inr rfl
        | cons y ys => simp only [List.length_cons] at this; exact Or.inl (by omega)
      · split
        · next hl2 =>
          rw [hbl2, trunc_index] at hl2
          have hle : b.index + s.length ≤ n := by omega
          exact ⟨m, q2 n hle, fun h0 => h0, fun _ _ => rfl⟩
        · next hl2 =>
          rw [hbl2, trunc_index] at hl2
          refine ⟨0, rfl, fun _ => rfl, ?_⟩
          intro hm0 hmn
          have := (q1 hm0).1
          omega
    · next hl =>
      rw [hbl] at hl
      cases h
      refine ⟨fun hh => absurd rfl hh, fun hh => absurd rfl hh, ?_⟩
      split
      · next hl2 => rw [hbl2, trunc_index] at hl2; omega
      · exact ⟨0, rfl, fun _ => rfl, fun hh => absurd rfl hh⟩

/-- a special-value match is reproduced on the buffer cut right after the match -/
theorem parsePositiveSpecial_trunc (o : POpts) (b : Bytes) (sp : Special) (cnt : Nat) (hv : Bytes.Valid b)
    (hidx : b.index ≤ cnt) (h : parsePositiveSpecial c o b = .ok (some (sp, cnt))) :
    cnt ≤ b.slc.length ∧ parsePositiveSpecial c o (trunc cnt b) = .ok (some (sp, cnt)) := by
  rw [PNTotal.parsePositiveSpecial_eq] at h ⊢
  by_cases hns : (c.feats.format && c.noSpecial) = true
  · rw [if_pos hns] at h; cases h
  rw [if_neg hns] at h ⊢
  simp only [bind, Except.bind, pure, Except.pure] at h ⊢
  cases h1 : PNTotal.try1 c b (b.bufferLength - b.index) o.nan with
  | error e => rw [h1] at h; cases h
  | ok n1 =>
    obtain ⟨_, l1, m1, t1, z1, e1⟩ := try1_trunc hc hb b o.nan n1 cnt hv hidx h1
    rw [h1] at h
    simp only at h
    rw [t1]
    simp only
    by_cases hn1 : n1 ≠ 0
    · rw [if_pos hn1] at h
      simp only [Except.ok.injEq, Option.some.injEq, Prod.mk.injEq] at h
      obtain ⟨rfl, rfl⟩ := h
      have := e1 hn1 (Nat.le_refl _)
      subst this
      rw [if_pos hn1]
      exact ⟨l1 hn1, rfl⟩
    · rw [if_neg hn1] at h
      have hm1 : m1 = 0 := z1 (by omega)
      rw [if_neg (by omega)]
      cases h2 : PNTotal.try1 c b (b.bufferLength - b.index) o.infinity with
      | error e => rw [h2] at h; cases h
      | ok n2 =>
        obtain ⟨_, l2, m2, t2, z2, e2⟩ := try1_trunc hc hb b o.infinity n2 cnt hv hidx h2
        rw [h2] at h
        simp only at h
        rw [t2]
        simp only
        by_cases hn2 : n2 ≠ 0
        · rw [if_pos hn2] at h
          simp only [Except.ok.injEq, Option.some.injEq, Prod.mk.injEq] at h
          obtain ⟨rfl, rfl⟩ := h
          have := e2 hn2 (Nat.le_refl _)
          subst this
          rw [if_pos hn2]
          exact ⟨l2 hn2, rfl⟩
        · rw [if_neg hn2] at h
          have hm2 : m2 = 0 := z2 (by omega)
          rw [if_neg (by omega)]
          cases h3 : PNTotal.try1 c b (b.bufferLength - b.index) o.inf with
          | error e => rw [h3] at h; cases h
          | ok n3 =>
            obtain ⟨_, l3, m3, t3, z3, e3⟩ := try1_trunc hc hb b o.inf n3 cnt hv hidx h3
            rw [h3] at h
            simp only at h
            rw [t3]
            simp only
            by_cases hn3 : n3 ≠ 0
            · rw [if_pos hn3] at h
              simp only [Except.ok.injEq, Option.some.injEq, Prod.mk.injEq] at h
              obtain ⟨rfl, rfl⟩ := h
              have := e3 hn3 (Nat.le_refl _)
              subst this
              rw [if_pos hn3]
              exact ⟨l3 hn3, rfl⟩
            · rw [if_neg hn3] at h
              cases h

/-! ## composition -/

omit hc hb in
theorem tail_partial_special (o : POpts) (s : List Nat) (fv neg : Bool) (b : Bytes) (sp : Special) (ng : Bool)
    (cnt : Nat) (h : tail c o true s fv neg b = .ok (.special sp ng cnt)) :
    ng = neg ∧ parsePositiveSpecial c o b = .ok (some (sp, cnt)) := by
  unfold tail at h
  simp only [if_true] at h
  cases h1 : parseNumber c true o b neg fv with
  | ok r => rw [h1] at h; cases h
  | error e =>
    rw [h1] at h
    cases e with
    | err k i =>
      simp only at h
      cases h3 : parsePositiveSpecial c o b with
      | error e => rw [h3] at h; cases h
      | ok r =>
        cases r with
        | none => rw [h3] at h; cases h
        | some pr => rw [h3] at h; cases h; exact ⟨rfl, rfl⟩
    | panic t => cases h
    | fault t => cases h

/-- `partial_prefix`, special results: needs the exclusion of class (iii) (`SpecialHeadsOK`) -/
theorem partial_prefix_special_g (o : POpts) (s : List Nat) (fv : Bool) (sp : Special) (ng : Bool) (cnt : Nat)
    (hr : 1 ≤ c.mantissaRadix) (hm : c.requiredMantissaDigits = true)
    (hrad : c.feats.powerOfTwo = false → c.mantissaRadix ≤ 10) (hh : SpecialHeadsOK c o)
    (h : parseFloatSyntax c o true s fv = .ok (.special sp ng cnt)) :
    parseFloatSyntax c o false (s.take cnt) fv = .ok (.special sp ng cnt) := by
  rw [parseFloatSyntax_eq] at h ⊢
  cases ha : afterSign c s with
  | error e => rw [ha] at h; cases h
  | ok pr =>
    obtain ⟨neg, consumed, b⟩ := pr
    rw [ha] at h
    simp only at h
    cases consumed with
    | true => simp only [if_true] at h; split at h <;> cases h
    | false =>
      simp only [Bool.false_eq_true, if_false] at h
      obtain ⟨hslc, hv, _⟩ := afterSign_ok c s neg false b ha
      obtain ⟨rfl, hps⟩ := tail_partial_special o s fv neg b sp ng cnt h
      -- the match is non-empty
      obtain ⟨str, hstr, _, heq, hn0⟩ := parsePositiveSpecial_some o b sp cnt hps
      obtain ⟨y, ys, rfl, _⟩ := hh str hstr
      have hcnt := ((isSpecialEq_trunc hc hb b (y :: ys) cnt hv heq).1 hn0).1
      simp only [List.length_cons] at hcnt
      have hidx : b.index < cnt := by omega
      obtain ⟨hle, hpt⟩ := parsePositiveSpecial_trunc hc hb o b sp cnt hv (by omega) hps
      rw [afterSign_trunc hc (NumContig.of_bytes hb) s ng b ha cnt hidx]
      simp only [Bool.false_eq_true, if_false]
      have hvt : (trunc cnt b).index ≤ (trunc cnt b).slc.length := by
        simp only [trunc_slc, trunc_index, List.length_take]; omega
      have hnot := parseNumber_not_ok_of_special hb false o (trunc cnt b) ng fv sp cnt hh hrad hr hm hpt
      have htot := PNTotal.parseNumber_tot hc false o (trunc cnt b) ng fv hvt
      have hlen : (trunc cnt b).slc.length = cnt := by
        simp only [trunc_slc, List.length_take]; omega
      have hlen2 : (s.take cnt).length = cnt := by
        rw [← hslc]; simp only [List.length_take]; omega
      unfold tail
      simp only [Bool.false_eq_true, if_false]
      rw [parseCompleteNumber_eq, parseSpecialComplete_eq, hpt]
      cases hpn : parseNumber c false o (trunc cnt b) ng fv with
      | ok r => exact absurd hpn (hnot r)
      | error e =>
        rw [hpn] at htot
        cases e with
        | err k i => simp only [hlen, if_true, hlen2, pure, Except.pure]
        | panic t => exact absurd htot (by simp [PNTotal.NumOK, PNTotal.ErrOK])
        | fault t => exact absurd htot (by simp [PNTotal.NumOK, PNTotal.ErrOK])

/-- **C11 (B), no digit-separator byte, release build** (with or without the `format` feature: base prefix/suffix and
all syntax flags allowed): every successful partial parse is reproduced by the complete parser on exactly the consumed
prefix, provided mantissa digits are required and no special string starts (in either case) with a mantissa digit or
the decimal point. (No `count > 0` hypothesis is needed.) -/
theorem partial_prefix_g (o : POpts) (s : List Nat) (fv : Bool) (p : Parsed)
    (hr : 1 ≤ c.mantissaRadix) (hm : c.requiredMantissaDigits = true)
    (hrad : c.feats.powerOfTwo = false → c.mantissaRadix ≤ 10) (hh : SpecialHeadsOK c o)
    (h : parseFloatSyntax c o true s fv = .ok p) :
    parseFloatSyntax c o false (s.take (pcount p)) fv = .ok p := by
  cases p with
  | number x cnt => exact partial_prefix_number_g hc (NumContig.of_bytes hb) o s fv x cnt hr hm h
  | special sp ng cnt => exact partial_prefix_special_g hc hb o s fv sp ng cnt hr hm hrad hh h
  | zero n =>
    exfalso
    rw [parseFloatSyntax_eq] at h
    cases ha : afterSign c s with
    | error e => rw [ha] at h; cases h
    | ok pr =>
      obtain ⟨neg, consumed, b⟩ := pr
      rw [ha] at h
      simp only at h
      cases consumed with
      | true =>
        simp only [if_true, hm, Bool.or_true] at h
        cases h
      | false =>
        simp only [Bool.false_eq_true, if_false] at h
        unfold tail at h
        simp only [if_true] at h
        split at h
        · cases h
        · split at h <;> cases h
        · cases h

end
end LexVerif.Proof.C11
