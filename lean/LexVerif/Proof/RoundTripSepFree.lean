import LexVerif.Proof.RoundTripFlags
/-!
# Proof.RoundTripSepFree — the writer never emits the format's digit-separator byte (C08)

`Spec.Grammar` covers separator-free inputs (`Spec.separatorFree`); what the decimal writer emits is in that scope:
digits, signs, the decimal point and the exponent character all differ from a valid format's digit separator.
-/
namespace LexVerif.Proof.RoundTrip
open LexVerif.Spec LexVerif.Model LexVerif.Model.WriteFloat

theorem not_mem_chars (sep R : Nat) (hR : R ≤ 36) (hsep : digitVal R sep = none) (l : List Nat)
    (hl : ∀ d ∈ l, d < R) : sep ∉ chars l := by
  intro h
  unfold chars at h
  obtain ⟨d, hd, rfl⟩ := List.mem_map.mp h
  rw [digitVal_digitChar R d hR (hl d hd)] at hsep
  cases hsep

theorem not_mem_render (dp expc er : Nat) (plusReq : Bool) (s : Shape) (sep R : Nat) (hR : R ≤ 36)
    (hsep : digitVal R sep = none) (h43 : sep ≠ 43) (h45 : sep ≠ 45) (hdp : sep ≠ dp) (hexp : sep ≠ expc)
    (hints : ∀ d ∈ s.ints, d < R) (hfrac : ∀ fs, s.frac = some fs → ∀ d ∈ fs, d < R)
    (her2 : 2 ≤ er) (her : er ≤ R) : sep ∉ s.render dp expc er plusReq := by
  obtain ⟨ints, frac, exp⟩ := s
  unfold Shape.render
  simp only [List.mem_append, not_or]
  refine ⟨not_mem_chars sep R hR hsep ints hints, ?_, ?_⟩
  · cases frac with
    | none => simp [fracText]
    | some fs =>
      simp only [fracText, List.mem_cons, not_or]
      exact ⟨hdp, not_mem_chars sep R hR hsep fs (hfrac fs rfl)⟩
  · cases exp with
    | none => simp [expPart]
    | some e =>
      simp only [expPart, expText, List.mem_append, List.mem_singleton, not_or]
      refine ⟨⟨hexp, ?_⟩, ?_⟩
      · unfold expSignBytes
        split
        · simpa using h45
        · split
          · simpa using h43
          · simp
      · have := not_mem_chars sep R hR hsep (toDigits er e.natAbs)
          (fun d hd => Nat.lt_of_lt_of_le (toDigits_digit_lt er _ her2 d hd) her)
        simpa [numeral, chars] using this

/-- **the decimal writer's output is separator-free** (in the scope of `Spec.Grammar` and of C12) -/
theorem writeDecimal_separatorFree (feats : Features) (fmt : Format) (wo : WOpts) (po : POpts) (ds : List Nat)
    (sci : Int) (neg : Bool) (hv : FormatValid feats (unpack fmt.raw)) (h10 : fmt.mantissaRadix = 10)
    (hdp : wo.dp = po.dp) (hexp : wo.exp = po.exp)
    (hpunct : OptionsPunctuationValid feats (unpack fmt.raw) po.exp po.dp)
    (hmx : wo.maxDigits ≠ some 0) (hin : WriterInput ds sci) :
    separatorFree fmt (signBytes (mantSign feats fmt neg) ++ writeDecimal fmt feats ds sci wo) = true := by
  unfold separatorFree
  by_cases hz : fmt.digitSeparator = 0
  · simp [hz]
  · have e := unpack_eta fmt
    obtain ⟨hr1, _, hr3, hsepc, _, _, _, _⟩ := hv
    have hR1 := radixSupported_range hr1
    have hR3 := radixSupported_range hr3
    rw [e.2.2.2.2.2.2.2.1] at hR1
    rw [e.2.2.2.2.2.2.1] at hR3
    have hRdef : (unpack fmt.raw).digitRadix = max fmt.mantissaRadix fmt.exponentRadix := by
      unfold Unpacked.digitRadix; rw [e.2.2.2.2.2.2.2.1, e.2.2.2.2.2.2.1]
    have hR36 : (unpack fmt.raw).digitRadix ≤ 36 := by rw [hRdef]; omega
    unfold OptionalControl at hsepc
    rw [e.2.2.2.2.2.2.2.2.2] at hsepc
    have hf : feats.format = true := by
      cases hff : feats.format
      · simp [hff] at hsepc; exact absurd hsepc hz
      · rfl
    simp only [hf, if_true] at hsepc
    have hcc : ControlChar (unpack fmt.raw).digitRadix fmt.digitSeparator := by
      rcases hsepc with h | h
      · exact absurd h hz
      · exact h
    obtain ⟨_, _, _, h4⟩ := hpunct
    obtain ⟨h5, h6, _⟩ := h4 hf
    rw [e.2.2.2.2.2.2.2.2.2] at h5 h6
    have hsd := shapeOf_digits fmt feats ds sci wo hin hmx
    have hnot : fmt.digitSeparator ∉ signBytes (mantSign feats fmt neg) ++ writeDecimal fmt feats ds sci wo := by
      rw [writeDecimal_shape, effFmt_exponentRadix, hdp, hexp]
      simp only [List.mem_append, not_or]
      constructor
      · unfold mantSign signBytes
        cases neg <;> cases mantPlus feats fmt <;> simp [hcc.2.2.1, hcc.2.2.2]
      · apply not_mem_render _ _ _ _ _ _ (unpack fmt.raw).digitRadix hR36 hcc.2.1 hcc.2.2.1 hcc.2.2.2 h5 h6
        · intro d hd; have := hsd.ints_lt d hd; rw [hRdef, h10]; omega
        · intro fs hfs d hd; have := hsd.frac_lt fs hfs d hd; rw [hRdef, h10]; omega
        · exact hR3.1
        · rw [hRdef]; omega
    simp [hz, hnot]

end LexVerif.Proof.RoundTrip
