import LexVerif.Model.Slow
import LexVerif.Proof.RoundNECore
import Mathlib.Tactic.Ring
import Mathlib.Tactic.Linarith
/-!
# Proof.SlowBigint — the value-level big-integer operations of `Model.Slow` compute what they should

The capacity guard `limbsOf x ≤ cap` is `x < 2^(64·cap)` (`limbsOf_le_iff`); under it `smallMul`, `smallAdd`,
`largeMul`, `shl`, `powOdd`, `bigintPow` return the exact product / sum / shift / power (`*_eq`), and they fail
exactly when the result does not fit (`*_none`: used for the panic witnesses).  `hi64_spec`: the 64 leading bits
and the sticky flag.
-/
namespace LexVerif.Proof.Slow
open LexVerif.Spec LexVerif.Spec.PowerTables LexVerif.Proof.Tables LexVerif.Model LexVerif.Model.Slow
open LexVerif.Proof.RoundNE

/-! ## bit length -/

theorem bitlen_unique {n b : Nat} (hb : 0 < b) (h1 : 2 ^ (b - 1) ≤ n) (h2 : n < 2 ^ b) : bitlen n = b := by
  have hn : n ≠ 0 := by have := Nat.two_pow_pos (b - 1); omega
  have l := bitlen_lower hn
  have u := bitlen_upper n
  have p := bitlen_pos hn
  -- 2^(bitlen n - 1) ≤ n < 2^b  and 2^(b-1) ≤ n < 2^bitlen n
  have a1 : bitlen n - 1 < b := (Nat.pow_lt_pow_iff_right (by decide : 1 < 2)).mp (Nat.lt_of_le_of_lt l h2)
  have a2 : b - 1 < bitlen n := (Nat.pow_lt_pow_iff_right (by decide : 1 < 2)).mp (Nat.lt_of_le_of_lt h1 u)
  omega

theorem bitlen_zero : bitlen 0 = 0 := by simp [bitlen]

theorem bitlen_le_iff (n k : Nat) : bitlen n ≤ k ↔ n < 2 ^ k := by
  by_cases hn : n = 0
  · subst hn; simp [bitlen_zero]
  · constructor
    · intro h
      exact Nat.lt_of_lt_of_le (bitlen_upper n) (Nat.pow_le_pow_right (by decide) h)
    · intro h
      have l := bitlen_lower hn
      have p := bitlen_pos hn
      have : bitlen n - 1 < k := (Nat.pow_lt_pow_iff_right (by decide : 1 < 2)).mp (Nat.lt_of_le_of_lt l h)
      omega

theorem bitlen_mul_pow {x : Nat} (hx : x ≠ 0) (k : Nat) : bitlen (x * 2 ^ k) = bitlen x + k := by
  have l := bitlen_lower hx
  have u := bitlen_upper x
  have p := bitlen_pos hx
  apply bitlen_unique (by omega)
  · have : bitlen x + k - 1 = (bitlen x - 1) + k := by omega
    rw [this, Nat.pow_add]
    exact Nat.mul_le_mul_right _ l
  · rw [Nat.pow_add]
    exact Nat.mul_lt_mul_of_pos_right u (Nat.two_pow_pos k)

/-- **the capacity guard**: a normalised vector of `≤ cap` limbs holds exactly the values below `2^(64·cap)` -/
theorem limbsOf_le_iff (x cap : Nat) : limbsOf x ≤ cap ↔ x < 2 ^ (64 * cap) := by
  rw [← bitlen_le_iff]
  unfold limbsOf
  omega

theorem limbsOf_shift64 {x : Nat} (hx : x ≠ 0) (d : Nat) : limbsOf (x * 2 ^ (64 * d)) = limbsOf x + d := by
  unfold limbsOf
  rw [bitlen_mul_pow hx]
  omega

/-! ## single operations -/

theorem smallMul_eq {cap x y : Nat} (h : x * y < 2 ^ (64 * cap)) : smallMul cap x y = some (x * y) := by
  unfold smallMul
  split
  · subst_vars; simp
  · simp [Slow.guard, (limbsOf_le_iff _ _).mpr h]

theorem smallMul_none {cap x y : Nat} (hx : x ≠ 0) (h : 2 ^ (64 * cap) ≤ x * y) : smallMul cap x y = none := by
  unfold smallMul
  rw [if_neg hx]
  have : ¬ limbsOf (x * y) ≤ cap := by rw [limbsOf_le_iff]; omega
  simp [Slow.guard, this]

theorem smallAdd_eq {cap x y : Nat} (hx : x < 2 ^ (64 * cap)) (h : x + y < 2 ^ (64 * cap)) :
    smallAdd cap x y = some (x + y) := by
  unfold smallAdd
  split
  · subst_vars; simp
  · simp [Slow.guard, (limbsOf_le_iff _ _).mpr h]

theorem addTemporary_eq {cap r p v : Nat} (h : r * p + v < 2 ^ (64 * cap)) :
    addTemporary cap r p v = some (r * p + v) := by
  unfold addTemporary
  rw [smallMul_eq (by omega)]
  exact smallAdd_eq (by omega) h

/-- what `large_mul` needs to know about a table entry -/
structure LargeEntry (cap : Nat) (Y : Array Nat) (V : Nat) : Prop where
  val : limbsVal 64 Y.toList = V
  size : Y.size ≤ cap
  one : Y.size = 1 → Y[0]! = V

theorem largeMul_eq {cap x V : Nat} {Y : Array Nat} (hY : LargeEntry cap Y V) (hx : x ≠ 0)
    (h : x * V < 2 ^ (64 * cap)) : largeMul cap x Y = some (x * V) := by
  unfold largeMul
  by_cases h1 : Y.size = 1
  · rw [if_pos h1, hY.one h1]; exact smallMul_eq h
  · rw [if_neg h1, if_neg (by have := hY.size; omega), if_neg hx, hY.val]
    simp [Slow.guard, (limbsOf_le_iff _ _).mpr h]

theorem iterOpt_mul {f : Nat → Option Nat} {c cap : Nat} (hc : 0 < c)
    (hf : ∀ x, x ≠ 0 → x * c < 2 ^ (64 * cap) → f x = some (x * c)) :
    ∀ (n x : Nat), x ≠ 0 → x * c ^ n < 2 ^ (64 * cap) → iterOpt f n x = some (x * c ^ n)
  | 0, x, _, _ => by simp [iterOpt]
  | n + 1, x, hx, h => by
    have e : x * c ^ (n + 1) = x * c * c ^ n := by rw [Nat.pow_succ]; ring
    have hle : x * c ≤ x * c ^ (n + 1) := by
      rw [e]; exact Nat.le_mul_of_pos_right _ (Nat.pow_pos hc)
    unfold iterOpt
    rw [hf x hx (by omega)]
    simp only [Option.bind_some]
    rw [iterOpt_mul hc hf n (x * c) (Nat.mul_ne_zero hx (by omega)) (by rw [← e]; exact h), e]

/-- `iterOpt` of a multiplication that allows `x = 0` (small_mul) -/
theorem iterOpt_smallMul {c cap : Nat} (hc : 0 < c) :
    ∀ (n x : Nat), x * c ^ n < 2 ^ (64 * cap) → iterOpt (fun x => smallMul cap x c) n x = some (x * c ^ n)
  | 0, x, _ => by simp [iterOpt]
  | n + 1, x, h => by
    have e : x * c ^ (n + 1) = x * c * c ^ n := by rw [Nat.pow_succ]; ring
    have hle : x * c ≤ x * c ^ (n + 1) := by
      rw [e]; exact Nat.le_mul_of_pos_right _ (Nat.pow_pos hc)
    unfold iterOpt
    rw [smallMul_eq (by omega)]
    simp only [Option.bind_some]
    rw [iterOpt_smallMul hc n (x * c) (by rw [← e]; exact h), e]

/-! ## `pow` -/

/-- the table facts the free function `pow(x, base, exp)` relies on, for one build and one base -/
structure PowOk (E : Env) (cap base : Nat) : Prop where
  base_pos : 0 < base
  large : E.L.hasLarge = true →
    0 < E.L.largeStep base ∧ LargeEntry cap (E.L.largeLimbs base) (base ^ E.L.largeStep base)
  small_pos : 0 < E.S.u64PowerLimit base
  small_lt : base ^ E.S.u64PowerLimit base < 2 ^ 64
  intpow : ∀ e, e < E.S.u64PowerLimit base → intPowFastPath E e base = some (base ^ e)

theorem powOdd_eq {E : Env} {cap base : Nat} (T : PowOk E cap base) {x : Nat} (hx : x ≠ 0) (exp : Nat)
    (h : x * base ^ exp < 2 ^ (64 * cap)) : powOdd E cap x base exp = some (x * base ^ exp) := by
  have hb := T.base_pos
  unfold powOdd
  -- the part after the large powers, as a function of `(x, exp)`
  have small : ∀ (x e : Nat), x * base ^ e < 2 ^ (64 * cap) →
      (if E.S.u64PowerLimit base = 0 then none
       else (iterOpt (fun x => smallMul cap x (wrap64 (base ^ E.S.u64PowerLimit base)))
              (e / E.S.u64PowerLimit base) x).bind fun x =>
            if e % E.S.u64PowerLimit base ≠ 0 then
              (intPowFastPath E (e % E.S.u64PowerLimit base) base).bind fun sp => smallMul cap x sp
            else some x) = some (x * base ^ e) := by
    intro x e hxe
    have hs := T.small_pos
    generalize hS : E.S.u64PowerLimit base = s at *
    rw [if_neg (by omega)]
    have hw : wrap64 (base ^ s) = base ^ s := by
      unfold wrap64; exact Nat.mod_eq_of_lt (by rw [← hS]; exact T.small_lt)
    rw [hw]
    have hdm := Nat.div_add_mod e s
    have esplit : base ^ e = (base ^ s) ^ (e / s) * base ^ (e % s) := by
      rw [← Nat.pow_mul, ← Nat.pow_add, hdm]
    have hle : x * (base ^ s) ^ (e / s) ≤ x * base ^ e := by
      rw [esplit, ← Nat.mul_assoc]; exact Nat.le_mul_of_pos_right _ (Nat.pow_pos hb)
    rw [iterOpt_smallMul (Nat.pow_pos hb) _ _ (by omega)]
    simp only [Option.bind_some]
    by_cases hr : e % s = 0
    · rw [if_neg (by omega), esplit, hr, Nat.pow_zero, Nat.mul_one]
    · rw [if_pos hr, T.intpow _ (by rw [hS]; exact Nat.mod_lt _ hs)]
      simp only [Option.bind_some]
      rw [smallMul_eq (by rw [Nat.mul_assoc, ← esplit]; exact hxe), Nat.mul_assoc, ← esplit]
  by_cases hl : E.L.hasLarge = true
  · obtain ⟨hstep, hent⟩ := T.large hl
    rw [if_pos hl]
    generalize hSt : E.L.largeStep base = st at *
    simp only [if_neg (show ¬ st = 0 by omega)]
    have hdm := Nat.div_add_mod exp st
    have esplit : base ^ exp = (base ^ st) ^ (exp / st) * base ^ (exp % st) := by
      rw [← Nat.pow_mul, ← Nat.pow_add, hdm]
    have hle : x * (base ^ st) ^ (exp / st) ≤ x * base ^ exp := by
      rw [esplit, ← Nat.mul_assoc]; exact Nat.le_mul_of_pos_right _ (Nat.pow_pos hb)
    rw [iterOpt_mul (Nat.pow_pos hb) (fun y hy hyc => largeMul_eq hent hy hyc) _ _ hx (by omega)]
    simp only [Option.map_some, Option.bind_some]
    rw [small _ _ (by rw [Nat.mul_assoc, ← esplit]; exact h), Nat.mul_assoc, ← esplit]
  · rw [if_neg hl]
    simp only [Option.bind_some]
    exact small x exp h

/-! ## shifts -/

theorem shlBits_eq {cap x n : Nat} (h : x * 2 ^ n < 2 ^ (64 * cap)) : shlBits cap x n = some (x * 2 ^ n) := by
  unfold shlBits
  split
  · subst_vars; simp
  · simp [Slow.guard, (limbsOf_le_iff _ _).mpr h]

theorem shlLimbs_eq {cap x n : Nat} (hx : x ≠ 0) (h : x * 2 ^ (64 * n) < 2 ^ (64 * cap)) :
    shlLimbs cap x n = some (x * 2 ^ (64 * n)) := by
  unfold shlLimbs
  have := (limbsOf_le_iff _ _).mpr h
  rw [limbsOf_shift64 hx] at this
  rw [if_neg (by omega)]

theorem shl_eq {cap x : Nat} (hx : x ≠ 0) (n : Nat) (h : x * 2 ^ n < 2 ^ (64 * cap)) :
    shl cap x n = some (x * 2 ^ n) := by
  unfold shl
  have hdm := Nat.div_add_mod n 64
  have esplit : 2 ^ n = 2 ^ (n % 64) * 2 ^ (64 * (n / 64)) := by rw [← Nat.pow_add]; congr 1; omega
  have hle : x * 2 ^ (n % 64) ≤ x * 2 ^ n := by
    rw [esplit, ← Nat.mul_assoc]; exact Nat.le_mul_of_pos_right _ (Nat.two_pow_pos _)
  have step2 : ∀ y, y ≠ 0 → y * 2 ^ (64 * (n / 64)) < 2 ^ (64 * cap) →
      (if n / 64 ≠ 0 then shlLimbs cap y (n / 64) else some y) = some (y * 2 ^ (64 * (n / 64))) := by
    intro y hy hyc
    by_cases hd : n / 64 = 0
    · rw [if_neg (by omega), hd]; simp
    · rw [if_pos hd, shlLimbs_eq hy hyc]
  dsimp only
  by_cases hr : n % 64 = 0
  · rw [if_neg (by omega)]
    simp only [Option.bind_some]
    rw [step2 x hx (by rw [esplit, hr] at h; simpa using h), esplit, hr]; simp
  · rw [if_pos hr, shlBits_eq (by omega)]
    simp only [Option.bind_some]
    rw [step2 _ (Nat.mul_ne_zero hx (Nat.ne_of_gt (Nat.two_pow_pos _)))
      (by rw [Nat.mul_assoc, ← esplit]; exact h), Nat.mul_assoc, ← esplit]

/-! ## `Bigint::pow` -/

/-- what `Bigint::pow(base, ·)` needs: `split_radix(base) = (odd, shift)` with `odd·2^shift = base`
(`odd = 0`: a pure power of two), and the `pow` tables for `odd` -/
structure BigPowOk (E : Env) (base : Nat) : Prop where
  split : (if (E.L.splitRadix base).1 = 0 then 1 else (E.L.splitRadix base).1) * 2 ^ (E.L.splitRadix base).2 = base
  odd : (E.L.splitRadix base).1 ≠ 0 → PowOk E E.L.bigintLimbs (E.L.splitRadix base).1
  shift_le : (E.L.splitRadix base).2 ≤ 5

theorem bigintPow_eq {E : Env} {base : Nat} (T : BigPowOk E base) {x : Nat} (hx : x ≠ 0) (exp : Nat)
    (hexp : exp < 2 ^ 29) (h : x * base ^ exp < 2 ^ (64 * E.L.bigintLimbs)) :
    bigintPow E x base exp = some (x * base ^ exp) := by
  unfold bigintPow
  have hs := T.split
  have hsl := T.shift_le
  generalize hos : E.L.splitRadix base = os at *
  obtain ⟨odd, sh⟩ := os
  simp only at hs hsl ⊢
  have hw : wrap32 (exp * sh) = exp * sh := by
    unfold wrap32; apply Nat.mod_eq_of_lt
    calc exp * sh ≤ exp * 5 := Nat.mul_le_mul_left _ hsl
      _ < 2 ^ 29 * 5 := Nat.mul_lt_mul_of_pos_right hexp (by decide)
      _ < 2 ^ 32 := by decide
  rw [hw]
  have step2 : ∀ y, y ≠ 0 → y * 2 ^ (exp * sh) < 2 ^ (64 * E.L.bigintLimbs) →
      (if sh ≠ 0 then shl E.L.bigintLimbs y (exp * sh) else some y) = some (y * 2 ^ (exp * sh)) := by
    intro y hy hyc
    by_cases hz : sh = 0
    · rw [if_neg (by omega), hz]; simp
    · rw [if_pos hz, shl_eq hy _ hyc]
  by_cases ho : odd = 0
  · rw [if_pos ho, Nat.one_mul] at hs
    rw [if_neg (by omega)]
    simp only [Option.bind_some]
    have e : base ^ exp = 2 ^ (exp * sh) := by rw [← hs, ← Nat.pow_mul, Nat.mul_comm]
    rw [step2 x hx (by rw [← e]; exact h), e]
  · rw [if_neg ho] at hs
    rw [if_pos ho]
    have e : base ^ exp = odd ^ exp * 2 ^ (exp * sh) := by
      rw [← hs, Nat.mul_pow, ← Nat.pow_mul, Nat.mul_comm sh]
    have hle : x * odd ^ exp ≤ x * base ^ exp := by
      rw [e, ← Nat.mul_assoc]; exact Nat.le_mul_of_pos_right _ (Nat.two_pow_pos _)
    have T' : PowOk E E.L.bigintLimbs odd := by
      have := T.odd (by rw [hos]; exact ho)
      rw [hos] at this; exact this
    rw [powOdd_eq T' hx exp (by omega)]
    simp only [Option.bind_some]
    rw [step2 _ (Nat.mul_ne_zero hx (Nat.ne_of_gt (Nat.pow_pos T'.base_pos)))
      (by rw [Nat.mul_assoc, ← e]; exact h), Nat.mul_assoc, ← e]

/-! ## `hi64` -/

/-- the significand `hi64` returns is normalised and, with the sticky flag, determines `x` up to the lost bits -/
theorem hi64_spec {x : Nat} (hx : x ≠ 0) :
    2 ^ 63 ≤ (hi64 x).1 ∧ (hi64 x).1 < 2 ^ 64 ∧
    (bitlen x ≤ 64 → (hi64 x).1 = x * 2 ^ (64 - bitlen x) ∧ (hi64 x).2 = false) ∧
    (64 < bitlen x → x = (hi64 x).1 * 2 ^ (bitlen x - 64) + x % 2 ^ (bitlen x - 64) ∧
      ((hi64 x).2 = true ↔ x % 2 ^ (bitlen x - 64) ≠ 0)) := by
  have l := bitlen_lower hx
  have u := bitlen_upper x
  have p := bitlen_pos hx
  unfold hi64
  rw [if_neg hx]
  by_cases hb : bitlen x ≤ 64
  · rw [if_pos hb]
    refine ⟨?_, ?_, fun _ => ⟨rfl, rfl⟩, fun h => by omega⟩
    · show 2 ^ 63 ≤ x * 2 ^ (64 - bitlen x)
      calc 2 ^ 63 = 2 ^ (bitlen x - 1) * 2 ^ (64 - bitlen x) := by rw [← Nat.pow_add]; congr 1; omega
        _ ≤ x * 2 ^ (64 - bitlen x) := Nat.mul_le_mul_right _ l
    · show x * 2 ^ (64 - bitlen x) < 2 ^ 64
      calc x * 2 ^ (64 - bitlen x) < 2 ^ bitlen x * 2 ^ (64 - bitlen x) :=
            Nat.mul_lt_mul_of_pos_right u (Nat.two_pow_pos _)
        _ = 2 ^ 64 := by rw [← Nat.pow_add]; congr 1; omega
  · rw [if_neg hb]
    have hk : 0 < 2 ^ (bitlen x - 64) := Nat.two_pow_pos _
    refine ⟨?_, ?_, fun h => by omega, fun _ => ⟨?_, by simp⟩⟩
    · show 2 ^ 63 ≤ x / 2 ^ (bitlen x - 64)
      rw [Nat.le_div_iff_mul_le hk, ← Nat.pow_add]
      have : 63 + (bitlen x - 64) = bitlen x - 1 := by omega
      rw [this]; exact l
    · show x / 2 ^ (bitlen x - 64) < 2 ^ 64
      rw [Nat.div_lt_iff_lt_mul hk, ← Nat.pow_add]
      have : 64 + (bitlen x - 64) = bitlen x := by omega
      rw [this]; exact u
    · show x = x / 2 ^ (bitlen x - 64) * 2 ^ (bitlen x - 64) + x % 2 ^ (bitlen x - 64)
      rw [Nat.mul_comm]; exact (Nat.div_add_mod x _).symm

end LexVerif.Proof.Slow
