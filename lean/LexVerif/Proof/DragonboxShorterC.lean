import LexVerif.Proof.DragonboxSpec
/-! `compute_nearest_shorter` (f64): exponent fields 1024 … 1535, every one checked against `Spec.shortest` by the kernel. -/
namespace LexVerif.Proof.DragonboxSpec
open LexVerif.Model.Dragonbox

theorem shorter64_1024_1152 : (expChunk .f64 1024 1152).all (dragonboxOk .f64) = true := by decide +kernel
theorem shorter64_1152_1280 : (expChunk .f64 1152 1280).all (dragonboxOk .f64) = true := by decide +kernel
theorem shorter64_1280_1408 : (expChunk .f64 1280 1408).all (dragonboxOk .f64) = true := by decide +kernel
theorem shorter64_1408_1536 : (expChunk .f64 1408 1536).all (dragonboxOk .f64) = true := by decide +kernel

end LexVerif.Proof.DragonboxSpec
