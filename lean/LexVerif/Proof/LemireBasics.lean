import LexVerif.Proof.BinaryCorrect
import LexVerif.Model.Lemire
/-!
# Proof.LemireBasics — cut-offs, the invalid marker and the two-pass wrapper of the Eisel–Lemire path

* `cutoff_zero` / `cutoff_inf`: `q < SMALLEST_POWER_OF_TEN ⇒ 0`, `q > LARGEST_POWER_OF_TEN ⇒ ∞` are what
  `compute_float` answers **and** what `roundNE (w·10^q)` is, for every `w < 2^64` (`w ≥ 1` for ∞);
* `computeError_invalid`: a `compute_error` result always carries a negative exponent;
* `lemire_wrapper`: a valid answer of `lemire` for a truncated mantissa is right for every value in
  `[w, w+1]·10^q`, provided `compute_float` is right for `w` and `w+1` (`roundNE` is monotone).
Mathlib-free.
-/
namespace LexVerif.Proof.Lemire
open LexVerif.Spec LexVerif.Model LexVerif.Model.Lemire
open LexVerif.Proof.RoundNE LexVerif.Proof.ExtRound LexVerif.Proof.BinaryCorrect

/-- the `LemireFloat` constants of `F` (instances by evaluation of `Gen.FloatConsts`) -/
structure LemLayout (F : FTy) (p eb : Nat) (sm lg rlo rhi : Nat) : Prop where
  lay : Layout F p eb
  smallest : F.C.smallestPowerOfTen = -(sm : Int)
  largest : F.C.largestPowerOfTen = (lg : Int)
  minRTE : F.C.minExponentRoundToEven = -(rlo : Int)
  maxRTE : F.C.maxExponentRoundToEven = (rhi : Int)
  minimum : F.C.minimumExponent = -((2 ^ (eb - 1) - 1 : Nat) : Int)
  /-- below the cut-off every `w < 2^64` is under half the least subnormal -/
  small_ok : (2 ^ 64 - 1) * 2 ^ (2 ^ (eb - 1) - 1 + (p - 1)) < 10 ^ (sm + 1)
  /-- above the cut-off every `w ≥ 1` is at least `2^(emax+1)` -/
  large_ok : 2 ^ (2 ^ (eb - 1) - 1 + 1) ≤ 10 ^ (lg + 1)
  /-- beyond the round-to-even window a power of five exceeds every odd `p+1`-bit number -/
  rte_ok : 2 ^ (p + 1) < 5 ^ (rhi + 1)
  sm342 : sm ≤ 342
  lg308 : lg ≤ 308
  bias_small : 2 ^ (eb - 1) - 1 + (p - 1) ≤ 2000

theorem lemLayout_f64 : LemLayout FTy.f64 53 11 342 308 4 23 := by
  constructor
  · exact layout_f64
  all_goals decide +kernel

theorem lemLayout_f32 : LemLayout FTy.f32 24 8 65 38 17 10 := by
  constructor
  · exact layout_f32
  all_goals decide +kernel

/-- a value of at least `2^(emax+1)` rounds to infinity -/
theorem roundNE_huge {f : Fmt} (hf : WF f) {num den : Nat} (hd : 0 < den)
    (h : den * 2 ^ (f.bias + 1) ≤ num) : roundNE f num den = f.infBits := by
  rw [roundNE_eq_inf_iff hf num hd]
  obtain ⟨i1, i2⟩ := ival_infBits hf
  have hM := M_eq hf
  have hp := hf.hp
  have hb := bias_pos hf
  have hV : 2 * 2 ^ (f.p - 1) * 2 ^ (f.maxExpField - 2) = 2 ^ (f.bias + 1) * 2 ^ L f := by
    rw [← Nat.pow_succ', ← Nat.pow_add, ← Nat.pow_add]; congr 1; unfold L; omega
  rw [hV] at i1 i2
  have h1 := Nat.mul_le_mul_right (2 ^ L f) h
  have : den * (ival f (f.infBits - 1) + ival f f.infBits) ≤ den * (2 * (2 ^ (f.bias + 1) * 2 ^ L f)) := by
    apply Nat.mul_le_mul_left den
    generalize 2 ^ (f.maxExpField - 2) = Z at *
    generalize 2 ^ (f.bias + 1) * 2 ^ L f = V at *
    omega
  calc den * (ival f (f.infBits - 1) + ival f f.infBits)
      ≤ den * (2 * (2 ^ (f.bias + 1) * 2 ^ L f)) := this
    _ = 2 * (den * 2 ^ (f.bias + 1) * 2 ^ L f) := by ac_rfl
    _ ≤ 2 * (num * 2 ^ L f) := Nat.mul_le_mul_left 2 h1

/-- `q < SMALLEST_POWER_OF_TEN`: the answer is zero, and so is `roundNE (w·10^q)` for every `w < 2^64` -/
theorem cutoff_zero {F p eb sm lg a b} (LL : LemLayout F p eb sm lg a b) (q : Int) (w : Nat) (lossy : Bool)
    (hw : w < 2 ^ 64) (hq : q < F.C.smallestPowerOfTen) :
    computeFloat F q w lossy = .ok ⟨0, 0⟩ ∧
    roundNE F.fmt (powFrac 10 q w).1 (powFrac 10 q w).2 = 0 := by
  have hf := LL.lay.wf
  constructor
  · unfold computeFloat; rw [if_pos (Or.inr hq)]; rfl
  · rw [LL.smallest] at hq
    unfold powFrac
    rw [if_neg (by omega)]
    apply roundNE_tiny hf (Nat.ne_of_gt (Nat.pow_pos (by decide)))
    have hL : L F.fmt + 1 = 2 ^ (eb - 1) - 1 + (p - 1) := by
      rw [L_eq LL.lay]; have := LL.lay.hL; omega
    have h1 : 10 ^ (sm + 1) ≤ 10 ^ (-q).toNat := Nat.pow_le_pow_right (by decide) (by omega)
    have h2 : 2 * (w * 2 ^ L F.fmt) = w * 2 ^ (L F.fmt + 1) := by rw [Nat.pow_succ]; ac_rfl
    have h3 : w * 2 ^ (L F.fmt + 1) ≤ (2 ^ 64 - 1) * 2 ^ (L F.fmt + 1) :=
      Nat.mul_le_mul_right _ (by omega)
    have := LL.small_ok
    rw [← hL] at this
    simp only []
    omega

/-- `q > LARGEST_POWER_OF_TEN`: the answer is infinity, and so is `roundNE (w·10^q)` for every `w ≥ 1` -/
theorem cutoff_inf {F p eb sm lg a b} (LL : LemLayout F p eb sm lg a b) (q : Int) (w : Nat) (lossy : Bool)
    (hw0 : w ≠ 0) (hq : q > F.C.largestPowerOfTen) :
    computeFloat F q w lossy = .ok ⟨0, F.C.infinitePower⟩ ∧
    roundNE F.fmt (powFrac 10 q w).1 (powFrac 10 q w).2 = F.fmt.infBits := by
  have hf := LL.lay.wf
  have hs := LL.smallest
  have hl := LL.largest
  constructor
  · unfold computeFloat
    rw [if_neg (by intro h; rcases h with h | h; exact hw0 h; omega), if_pos hq]; rfl
  · rw [hl] at hq
    unfold powFrac
    rw [if_pos (by omega)]
    apply roundNE_huge hf Nat.one_pos
    have hbias : F.fmt.bias = 2 ^ (eb - 1) - 1 := by unfold Fmt.bias; rw [LL.lay.fmt]
    rw [hbias, Nat.one_mul]
    have h1 : 10 ^ (lg + 1) ≤ 10 ^ q.toNat := Nat.pow_le_pow_right (by decide) (by omega)
    have h2 : 1 * 10 ^ q.toNat ≤ w * 10 ^ q.toNat := Nat.mul_le_mul_right _ (by omega)
    have := LL.large_ok
    simp only []
    omega

/-! ## `power`, the table index, the invalid marker -/

theorem power_eq (q : Int) (h1 : -5000 ≤ q) (h2 : q ≤ 5000) :
    power (wrapI32 q) = q * 217706 / 65536 + 63 := by
  unfold power wrapI32 wrapI sar litPowerMulA litPowerMulB litPowerShift litPowerAdd
  have h32 : (2 : Int) ^ 32 = 4294967296 := by decide
  have h31 : (2 : Int) ^ (32 - 1) = 2147483648 := by decide
  have h16 : (2 : Int) ^ 16 = 65536 := by decide
  simp only [h32, h31, h16]
  omega

theorem table_size : Gen.Lemire.powerOfFive128.size = 651 := by decide +kernel

/-- `compute_product_approx` answers only for exponents inside the table -/
theorem cpa_some {q : Int} {w prec : Nat} {r : Nat × Nat} (hq1 : -(2 ^ 63 : Int) ≤ q) (hq2 : q < (2 ^ 63 : Int))
    (h : computeProductApprox q w prec = some r) : -342 ≤ q ∧ q ≤ 308 := by
  unfold computeProductApprox at h
  simp only [] at h
  have hsm : Gen.Lemire.smallestPowerOfFive = -342 := rfl
  rw [hsm] at h
  split at h
  · exact absurd h (by simp)
  · rename_i lo5 hi5 hget
    obtain ⟨hlt, _⟩ := Array.getElem?_eq_some_iff.mp hget
    rw [table_size] at hlt
    unfold asU64 wrapI64 wrapI at hlt
    have h64 : (2 : Int) ^ 64 = 18446744073709551616 := by decide
    have h63 : (2 : Int) ^ (64 - 1) = 9223372036854775808 := by decide
    have h63' : (2 : Int) ^ 63 = 9223372036854775808 := by decide
    simp only [h64, h63] at hlt
    rw [h63'] at hq1 hq2
    omega

theorem computeErrorScaled_exp {F p eb sm lg a b} (LL : LemLayout F p eb sm lg a b) (q : Int) (w : Nat) (lz : Nat)
    (hq1 : -342 ≤ q) (hq2 : q ≤ 308) : (computeErrorScaled F q w lz).exp < 0 := by
  unfold computeErrorScaled
  simp only []
  rw [power_eq q (by omega) (by omega), LL.lay.bias]
  have := LL.bias_small
  unfold litErrorBias invalidFp
  have : Gen.FloatConsts.invalidFp = -32768 := rfl
  rw [this]
  split <;> omega

/-- a `compute_error` result always carries the invalid marker -/
theorem computeError_invalid {F p eb sm lg a b} (LL : LemLayout F p eb sm lg a b) (q : Int) (w : Nat)
    (hq1 : -(2 ^ 63 : Int) ≤ q) (hq2 : q < (2 ^ 63 : Int)) {fp : ExtendedFloat80}
    (h : computeError F q w = .ok fp) : fp.exp < 0 := by
  unfold computeError at h
  simp only [] at h
  split at h
  · exact absurd h (by simp)
  · rename_i lo hi hc
    obtain ⟨r1, r2⟩ := cpa_some hq1 hq2 hc
    injection h with h; subst h
    exact computeErrorScaled_exp LL q hi _ r1 r2

/-- `compute_product_approx` answers for every exponent inside the table -/
theorem cpa_isSome (q : Int) (w prec : Nat) (h1 : -342 ≤ q) (h2 : q ≤ 308) :
    ∃ r, computeProductApprox q w prec = some r := by
  have hsm : Gen.Lemire.smallestPowerOfFive = -342 := rfl
  have hidx : asU64 (wrapI64 (q - Gen.Lemire.smallestPowerOfFive)) = (q + 342).toNat := by
    rw [hsm]
    unfold asU64 wrapI64 wrapI
    have h64 : (2 : Int) ^ 64 = 18446744073709551616 := by decide
    have h63 : (2 : Int) ^ (64 - 1) = 9223372036854775808 := by decide
    simp only [h64, h63]
    omega
  have hlt : (q + 342).toNat < Gen.Lemire.powerOfFive128.size := by rw [table_size]; omega
  unfold computeProductApprox
  simp only [hidx, Array.getElem?_eq_getElem hlt]
  split <;> (split <;> exact ⟨_, rfl⟩)

theorem ok_ite_ne (c : Prop) [Decidable c] (a b : ExtendedFloat80) :
    (if c then AlgoRes.ok a else .ok b) ≠ .panic := by split <;> simp

theorem cfRound_no_panic (F : FTy) (q : Int) (lo hi lz : Nat) : cfRound F q lo hi lz ≠ .panic := by
  unfold cfRound
  simp only []
  split
  · exact ok_ite_ne _ _ _
  · exact ok_ite_ne _ _ _

/-- **`compute_float` never panics** (the checked table index is always in range) -/
theorem computeFloat_no_panic {F p eb sm lg a b} (LL : LemLayout F p eb sm lg a b) (q : Int) (w : Nat)
    (lossy : Bool) : computeFloat F q w lossy ≠ .panic := by
  unfold computeFloat
  split
  · simp
  · split
    · simp
    · rename_i h1 h2
      have hq1 : -342 ≤ q := by
        have := LL.smallest; have := LL.sm342
        have : ¬ q < F.C.smallestPowerOfTen := fun h => h1 (Or.inr h)
        omega
      have hq2 : q ≤ 308 := by have := LL.largest; have := LL.lg308; omega
      obtain ⟨r, hr⟩ := cpa_isSome q (shl64m w (clz64 w)) (F.ms + litPrecisionExtra) hq1 hq2
      simp only [hr]
      split
      · simp
      · exact cfRound_no_panic _ _ _ _ _

/-! ## the two-pass wrapper -/

/-- `compute_float` is right on `(q, w)`: a valid answer is `roundNE (w·10^q)` -/
def CFSound (F : FTy) (q : Int) (w : Nat) : Prop :=
  ∀ fp, computeFloat F q w false = .ok fp → 0 ≤ fp.exp →
    extendedToFloat F fp = roundNE F.fmt (powFrac 10 q w).1 (powFrac 10 q w).2

/-- **wrapper lemma**: a valid answer of `lemire` for a truncated mantissa `w` is correct for every value
in `[w·10^q, (w+1)·10^q]`. -/
theorem lemire_wrapper {F p eb sm lg a b} (LL : LemLayout F p eb sm lg a b) (q : Int) (w : Nat) (neg : Bool)
    (hq1 : -(2 ^ 63 : Int) ≤ q) (hq2 : q < (2 ^ 63 : Int)) (hw : w + 1 < 2 ^ 64)
    (S0 : CFSound F q w) (S1 : CFSound F q (w + 1)) {fp : ExtendedFloat80}
    (h : lemire F ⟨w, q, neg, true⟩ false = .ok fp) (hv : 0 ≤ fp.exp)
    (num den : Nat) (hd : 0 < den)
    (hlo : (powFrac 10 q w).1 * den ≤ num * (powFrac 10 q w).2)
    (hhi : num * (powFrac 10 q (w + 1)).2 ≤ (powFrac 10 q (w + 1)).1 * den) :
    extendedToFloat F fp = roundNE F.fmt num den := by
  have hf := LL.lay.wf
  have hden : ∀ m, 0 < (powFrac 10 q m).2 := by
    intro m; unfold powFrac; split
    · exact Nat.one_pos
    · exact Nat.pow_pos (by decide)
  unfold lemire at h
  simp only [] at h
  split at h
  · exact absurd h (by simp)
  · rename_i fp0 h0
    by_cases hv0 : fp0.exp ≥ 0
    · have hc : (!false && true && decide (fp0.exp ≥ 0)) = true := by simp [hv0]
      rw [if_pos hc] at h
      have hwrap : wrap64 (w + 1) = w + 1 := Nat.mod_eq_of_lt hw
      rw [hwrap] at h
      split at h
      · exact absurd h (by simp)
      · rename_i fp1 h1
        by_cases hne : fp0 ≠ fp1
        · rw [if_pos hne] at h
          have := computeError_invalid LL q w hq1 hq2 h
          omega
        · rw [if_neg hne] at h
          injection h with h; subst h
          have heq : fp0 = fp1 := Classical.not_not.mp hne
          have e0 := S0 fp0 h0 hv0
          have e1 := S1 fp1 h1 (by rw [← heq]; exact hv0)
          rw [← heq] at e1
          apply Nat.le_antisymm
          · rw [e0]; exact roundNE_mono' hf (hden w) hd hlo
          · rw [e1]; exact roundNE_mono' hf hd (hden (w + 1)) hhi
    · have hc : ¬ (!false && true && decide (fp0.exp ≥ 0)) = true := by simp [hv0]
      rw [if_neg hc] at h
      injection h with h; subst h
      omega

end LexVerif.Proof.Lemire
