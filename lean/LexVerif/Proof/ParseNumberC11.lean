import LexVerif.Props.C12
/-!
# Proof.ParseNumberC11 — helpers for C11 (A): `is_partial` only selects an error kind

`parse_number::<FORMAT, IS_PARTIAL>` uses `IS_PARTIAL` only to choose between `EmptyMantissa` and
`InvalidDigit`; hence the partial and the complete entry point differ only in (1) the `count == length`
test of `parse_complete_number` / `parse_special` and (2) which fall-back runs after a *successful*
`parse_number` on a proper prefix (none in the partial parser, the special parser in the complete one).
-/
namespace LexVerif.Proof.C11
open LexVerif LexVerif.Model LexVerif.Spec
open LexVerif.Props.C12 (Bytes.Valid peek_spec)

deriving instance DecidableEq for Except

/-- equal, except that two `Error::Kind(idx)` results may differ in kind and index -/
def SameModErr {α : Type} : Except Err α → Except Err α → Prop
  | .ok a, .ok b => a = b
  | .error (.err _ _), .error (.err _ _) => True
  | .error (.panic s), .error (.panic t) => s = t
  | .error (.fault s), .error (.fault t) => s = t
  | _, _ => False

theorem SameModErr.refl {α : Type} (x : Except Err α) : SameModErr x x := by
  cases x with
  | ok a => simp [SameModErr]
  | error e => cases e <;> simp [SameModErr]

/-- `IS_PARTIAL` changes nothing but the kind/index of an ordinary error — every format, feature set, debug flag -/
theorem parseNumber_partial_rel (c : Cfg) (o : POpts) (b : Bytes) (neg fv : Bool) :
    SameModErr (parseNumber c true o b neg fv) (parseNumber c false o b neg fv) := by
  unfold parseNumber
  simp only [bind, Except.bind]
  split
  · exact SameModErr.refl _
  split
  · exact SameModErr.refl _
  cases integerPhase c b with
  | error e => exact SameModErr.refl _
  | ok ip =>
    simp only
    cases fractionPhase c o ip.byte ip.mantissa with
    | error e => exact SameModErr.refl _
    | ok fp =>
      simp only
      split
      · cases peek c .integer ip.start with
        | error e => exact SameModErr.refl _
        | ok r =>
          simp only
          split <;> split <;> simp [SameModErr]
      · exact SameModErr.refl _

/-- lemma 1: success (and the result) does not depend on `IS_PARTIAL` -/
theorem parseNumber_ok_iff (c : Cfg) (o : POpts) (b : Bytes) (neg fv : Bool) (r : Number × Nat) :
    parseNumber c true o b neg fv = .ok r ↔ parseNumber c false o b neg fv = .ok r := by
  have h := parseNumber_partial_rel c o b neg fv
  cases h1 : parseNumber c true o b neg fv with
  | ok a =>
    cases h2 : parseNumber c false o b neg fv with
    | ok a2 => rw [h1, h2] at h; simp only [SameModErr] at h; subst h; exact Iff.rfl
    | error e => rw [h1, h2] at h; simp [SameModErr] at h
  | error e =>
    cases h2 : parseNumber c false o b neg fv with
    | ok a2 => rw [h1, h2] at h; cases e <;> simp [SameModErr] at h
    | error e2 => simp

/-- lemma 2a: an ordinary error of one is an ordinary error of the other -/
theorem parseNumber_err_iff (c : Cfg) (o : POpts) (b : Bytes) (neg fv : Bool) :
    (∃ k i, parseNumber c true o b neg fv = .error (.err k i)) ↔
      (∃ k i, parseNumber c false o b neg fv = .error (.err k i)) := by
  have h := parseNumber_partial_rel c o b neg fv
  cases h1 : parseNumber c true o b neg fv with
  | ok a =>
    cases h2 : parseNumber c false o b neg fv with
    | ok a2 => simp
    | error e => rw [h1, h2] at h; simp [SameModErr] at h
  | error e =>
    cases h2 : parseNumber c false o b neg fv with
    | ok a2 => rw [h1, h2] at h; cases e <;> simp [SameModErr] at h
    | error e2 => rw [h1, h2] at h; cases e <;> cases e2 <;> simp [SameModErr] at h ⊢

/-- lemma 2b: panics and faults are identical -/
theorem parseNumber_panic_iff (c : Cfg) (o : POpts) (b : Bytes) (neg fv : Bool) (e : Err)
    (he : ∀ k i, e ≠ .err k i) :
    parseNumber c true o b neg fv = .error e ↔ parseNumber c false o b neg fv = .error e := by
  have h := parseNumber_partial_rel c o b neg fv
  cases h1 : parseNumber c true o b neg fv with
  | ok a =>
    cases h2 : parseNumber c false o b neg fv with
    | ok a2 => simp
    | error e => rw [h1, h2] at h; simp [SameModErr] at h
  | error e1 =>
    cases h2 : parseNumber c false o b neg fv with
    | ok a2 => rw [h1, h2] at h; cases e1 <;> simp [SameModErr] at h
    | error e2 =>
      rw [h1, h2] at h
      cases e1 <;> cases e2 <;> simp [SameModErr] at h ⊢ <;> try (subst h; exact Iff.rfl)
      · constructor <;> intro hh <;> exact absurd hh.symm (he _ _)

/-! ## the common front end: sign and emptiness test -/

theorem stepBy_ok (c : Cfg) (contig : Bool) (n : Nat) (b b' : Bytes) (h : b.stepBy c contig n = .ok b') :
    b' = { b with index := b.index + n } := by
  unfold Bytes.stepBy at h
  repeat (split at h; · cases h)
  cases h; rfl

theorem stepUnchecked_ok (c : Cfg) (contig : Bool) (b b' : Bytes) (h : b.stepUnchecked c contig = .ok b') :
    b' = { b with index := b.index + 1 } := by
  unfold Bytes.stepUnchecked at h
  split at h
  · cases h
  · exact stepBy_ok c contig 1 b b' h

theorem first_some_lt (b : Bytes) (v : Nat) (h : b.first = some v) : b.index < b.slc.length := by
  unfold Bytes.first at h
  rcases List.getElem?_eq_some_iff.mp h with ⟨hl, _⟩; exact hl

/-- `parse_sign!`, any build: buffer unchanged, cursor valid -/
theorem parseSign_ok (c : Cfg) (np rq : Bool) (ip ms : String) (b b' : Bytes) (neg : Bool) (hv : Bytes.Valid b)
    (h : parseSign c np rq ip ms b = .ok (neg, b')) :
    b'.slc = b.slc ∧ Bytes.Valid b' ∧ b.index ≤ b'.index := by
  unfold Bytes.Valid at *
  unfold parseSign at h
  split at h
  · next hf =>
    have := first_some_lt b _ hf
    split at h
    · simp only [Bytes.step, bind, Except.bind, pure, Except.pure] at h
      cases hs : b.stepUnchecked c c.bytesContiguous with
      | error e => simp [hs] at h
      | ok b1 =>
        have := stepUnchecked_ok c _ b b1 hs
        simp only [hs, Except.ok.injEq, Prod.mk.injEq] at h
        obtain ⟨_, rfl⟩ := h
        subst this; simp; omega
    · cases h
  · next hf =>
    have := first_some_lt b _ hf
    simp only [Bytes.step, bind, Except.bind, pure, Except.pure] at h
    cases hs : b.stepUnchecked c c.bytesContiguous with
    | error e => simp [hs] at h
    | ok b1 =>
      have := stepUnchecked_ok c _ b b1 hs
      simp only [hs, Except.ok.injEq, Prod.mk.injEq] at h
      obtain ⟨_, rfl⟩ := h
      subst this; simp; omega
  · split at h
    · cases h
    · simp only [pure, Except.pure, Except.ok.injEq, Prod.mk.injEq] at h
      obtain ⟨_, rfl⟩ := h
      exact ⟨rfl, hv, Nat.le_refl _⟩

/-- `is_consumed`, any build -/
theorem isConsumed_ok (c : Cfg) (k : Comp) (b b' : Bytes) (r : Bool) (hv : Bytes.Valid b)
    (h : isConsumed c k b = .ok (r, b')) :
    b'.slc = b.slc ∧ Bytes.Valid b' ∧ b.index ≤ b'.index ∧ (r = true ↔ b'.index = b'.slc.length) := by
  unfold isConsumed at h
  split at h
  · simp only [Except.ok.injEq, Prod.mk.injEq] at h
    obtain ⟨rfl, rfl⟩ := h
    refine ⟨rfl, hv, Nat.le_refl _, ?_⟩
    unfold Bytes.Valid at hv
    simp only [Bytes.isBufferEmpty, decide_eq_true_eq]
    omega
  · simp only [bind, Except.bind, pure, Except.pure] at h
    cases hp : peek c k b with
    | error e => simp [hp] at h
    | ok p =>
      obtain ⟨v, b1⟩ := p
      simp only [hp, Except.ok.injEq, Prod.mk.injEq] at h
      obtain ⟨rfl, rfl⟩ := h
      have hs := peek_spec c k b b1 v hv hp
      refine ⟨hs.1, hs.2.2.2.2.2.1, hs.2.2.2.2.1, ?_⟩
      have hv1 : b1.index ≤ b1.slc.length := hs.2.2.2.2.2.1
      rw [hs.2.2.2.2.2.2]
      cases hg : b1.slc[b1.index]? with
      | none =>
        have := List.getElem?_eq_none_iff.mp hg
        simp; omega
      | some x =>
        rcases List.getElem?_eq_some_iff.mp hg with ⟨hl, _⟩
        simp; omega

/-- the front end shared by `parse_complete` and `parse_partial` -/
def afterSign (c : Cfg) (input : List Nat) : Except Err (Bool × Bool × Bytes) := do
  let (neg, byte) ← parseMantissaSign c (Bytes.new input)
  let (consumed, byte) ← isConsumed c .integer byte
  pure (neg, consumed, byte)

theorem afterSign_ok (c : Cfg) (input : List Nat) (neg consumed : Bool) (b : Bytes)
    (h : afterSign c input = .ok (neg, consumed, b)) :
    b.slc = input ∧ Bytes.Valid b ∧ (consumed = true ↔ b.index = input.length) := by
  unfold afterSign at h
  simp only [bind, Except.bind, pure, Except.pure] at h
  cases hs : parseMantissaSign c (Bytes.new input) with
  | error e => simp [hs] at h
  | ok r =>
    obtain ⟨n0, b0⟩ := r
    simp only [hs] at h
    cases hc : isConsumed c .integer b0 with
    | error e => simp [hc] at h
    | ok r =>
      obtain ⟨c1, b1⟩ := r
      simp only [hc, Except.ok.injEq, Prod.mk.injEq] at h
      obtain ⟨rfl, rfl, rfl⟩ := h
      have hv0 : Bytes.Valid (Bytes.new input) := by simp [Bytes.Valid, Bytes.new]
      have h1 := parseSign_ok c _ _ _ _ _ _ _ hv0 hs
      have h2 := isConsumed_ok c .integer b0 b1 c1 h1.2.1 hc
      have hslc : b1.slc = input := by rw [h2.1, h1.1]; rfl
      refine ⟨hslc, h2.2.1, ?_⟩
      rw [h2.2.2.2, hslc]

/-- what the two entry points do after the front end -/
def tail (c : Cfg) (o : POpts) (isPartial : Bool) (input : List Nat) (fv : Bool) (neg : Bool) (byte : Bytes) :
    Except Err Parsed :=
  if isPartial then
    match parseNumber c true o byte neg fv with
    | .ok (n, count) => pure (.number n count)
    | .error (.err k i) =>
      match parsePositiveSpecial c o byte with
      | .ok (some (s, count)) => pure (.special s neg count)
      | .ok none => .error (.err k i)
      | .error e => .error e
    | .error e => .error e
  else
    match parseCompleteNumber c o byte neg fv with
    | .ok n => pure (.number n input.length)
    | .error (.err k i) =>
      match parseSpecialComplete c o byte with
      | .ok (some s) => pure (.special s neg input.length)
      | .ok none => .error (.err k i)
      | .error e => .error e
    | .error e => .error e

theorem parseFloatSyntax_eq (c : Cfg) (o : POpts) (isPartial : Bool) (input : List Nat) (fv : Bool) :
    parseFloatSyntax c o isPartial input fv =
      match afterSign c input with
      | .error e => .error e
      | .ok (neg, consumed, byte) =>
        if consumed then
          (if c.requiredIntegerDigits || c.requiredMantissaDigits then .error (.err "Empty" byte.index)
           else .ok (.zero byte.index))
        else tail c o isPartial input fv neg byte := by
  unfold parseFloatSyntax afterSign tail
  simp only [bind, Except.bind, pure, Except.pure]
  cases parseMantissaSign c (Bytes.new input) with
  | error e => rfl
  | ok r =>
    obtain ⟨n0, b0⟩ := r
    simp only
    cases isConsumed c .integer b0 with
    | error e => rfl
    | ok r =>
      obtain ⟨c1, b1⟩ := r
      simp only
      cases c1
      · simp only [Bool.false_eq_true, if_false]
        cases isPartial
        · simp only [Bool.false_eq_true, if_false]
          cases parseCompleteNumber c o b1 n0 fv with
          | ok n => rfl
          | error e =>
            cases e with
            | err k i =>
              simp only
              cases parseSpecialComplete c o b1 with
              | error e => rfl
              | ok r => cases r <;> rfl
            | panic t => rfl
            | fault t => rfl
        · simp only [if_true]
          cases parseNumber c true o b1 n0 fv with
          | ok n => rfl
          | error e =>
            cases e with
            | err k i =>
              simp only
              cases parsePositiveSpecial c o b1 with
              | error e => rfl
              | ok r =>
                cases r with
                | none => rfl
                | some p => rfl
            | panic t => rfl
            | fault t => rfl
      · simp only [if_true]

/-! ## (A) complete ⇔ partial with full count -/

def pcount : Parsed → Nat
  | .zero n => n
  | .number _ n => n
  | .special _ _ n => n

theorem parseCompleteNumber_eq (c : Cfg) (o : POpts) (b : Bytes) (neg fv : Bool) :
    parseCompleteNumber c o b neg fv =
      match parseNumber c false o b neg fv with
      | .ok (n, count) => if count = b.slc.length then .ok n else .error (.err "InvalidDigit" count)
      | .error e => .error e := by
  unfold parseCompleteNumber
  simp only [bind, Except.bind, pure, Except.pure, Bytes.bufferLength]
  cases parseNumber c false o b neg fv with
  | error e => rfl
  | ok r => rfl

theorem parseSpecialComplete_eq (c : Cfg) (o : POpts) (b : Bytes) :
    parseSpecialComplete c o b =
      match parsePositiveSpecial c o b with
      | .ok (some (s, n)) => if n = b.slc.length then .ok (some s) else .ok none
      | .ok none => .ok none
      | .error e => .error e := by
  unfold parseSpecialComplete
  simp only [bind, Except.bind, pure, Except.pure, Bytes.bufferLength]
  cases parsePositiveSpecial c o b with
  | error e => rfl
  | ok r =>
    cases r with
    | none => rfl
    | some p => rfl

/-- direction ⇐ on the tail: no hypothesis on the format -/
theorem tail_complete_of_partial (c : Cfg) (o : POpts) (s : List Nat) (fv neg : Bool) (b : Bytes) (q : Parsed)
    (hslc : b.slc = s) (h : tail c o true s fv neg b = .ok q) (hc : pcount q = s.length) :
    tail c o false s fv neg b = .ok q := by
  unfold tail at h ⊢
  simp only [if_true] at h
  simp only [Bool.false_eq_true, if_false]
  rw [parseCompleteNumber_eq, parseSpecialComplete_eq]
  cases h1 : parseNumber c true o b neg fv with
  | ok r =>
    obtain ⟨n, count⟩ := r
    rw [h1] at h
    simp only [pure, Except.pure, Except.ok.injEq] at h
    subst h
    simp only [pcount] at hc
    rw [(parseNumber_ok_iff c o b neg fv (n, count)).mp h1]
    simp [hslc, hc, pure, Except.pure]
  | error e =>
    rw [h1] at h
    cases e with
    | err k i =>
      obtain ⟨k2, i2, h2⟩ := (parseNumber_err_iff c o b neg fv).mp ⟨k, i, h1⟩
      rw [h2]
      simp only at h ⊢
      cases h3 : parsePositiveSpecial c o b with
      | error e => rw [h3] at h; cases h
      | ok r =>
        rw [h3] at h
        cases r with
        | none => cases h
        | some p =>
          obtain ⟨sp, count⟩ := p
          simp only [pure, Except.pure, Except.ok.injEq] at h
          subst h
          simp only [pcount] at hc
          simp [hslc, hc, pure, Except.pure]
    | panic t => cases h
    | fault t => cases h

/-- the only way the two parsers can disagree on an accepted complete input: `parse_number` succeeds on a proper
prefix (so the partial parser returns that number) while the special parser matches the whole buffer -/
def ShadowAt (c : Cfg) (o : POpts) (s : List Nat) (fv neg : Bool) (b : Bytes) : Prop :=
  ∃ n count sp, parseNumber c true o b neg fv = .ok (n, count) ∧ count ≠ s.length ∧
    parseSpecialComplete c o b = .ok (some sp)

/-- direction ⇒ on the tail -/
theorem tail_partial_of_complete (c : Cfg) (o : POpts) (s : List Nat) (fv neg : Bool) (b : Bytes) (p : Parsed)
    (hslc : b.slc = s) (hns : ¬ ShadowAt c o s fv neg b) (h : tail c o false s fv neg b = .ok p) :
    tail c o true s fv neg b = .ok p ∧ pcount p = s.length := by
  unfold tail at h ⊢
  simp only [Bool.false_eq_true, if_false] at h
  simp only [if_true]
  rw [parseCompleteNumber_eq] at h
  cases h1 : parseNumber c false o b neg fv with
  | ok r =>
    obtain ⟨n, count⟩ := r
    have h1t := (parseNumber_ok_iff c o b neg fv (n, count)).mpr h1
    rw [h1] at h
    simp only at h
    by_cases hcnt : count = b.slc.length
    · simp only [hcnt, if_true, pure, Except.pure, Except.ok.injEq] at h
      subst h
      rw [h1t]
      simp [pure, Except.pure, pcount, hcnt, hslc]
    · exfalso
      simp only [hcnt, if_false] at h
      cases h3 : parseSpecialComplete c o b with
      | error e => rw [h3] at h; cases h
      | ok r =>
        cases r with
        | none => rw [h3] at h; cases h
        | some sp => exact hns ⟨n, count, sp, h1t, by rw [← hslc]; exact hcnt, h3⟩
  | error e =>
    rw [h1] at h
    cases e with
    | err k i =>
      obtain ⟨k2, i2, h2⟩ := (parseNumber_err_iff c o b neg fv).mpr ⟨k, i, h1⟩
      rw [h2]
      simp only at h ⊢
      rw [parseSpecialComplete_eq] at h
      cases h3 : parsePositiveSpecial c o b with
      | error e => rw [h3] at h; cases h
      | ok r =>
        rw [h3] at h
        cases r with
        | none => cases h
        | some pr =>
          obtain ⟨sp, count⟩ := pr
          simp only at h
          by_cases hcnt : count = b.slc.length
          · simp only [hcnt, if_true, pure, Except.pure, Except.ok.injEq] at h
            subst h
            simp [pure, Except.pure, pcount, hcnt, hslc]
          · simp only [hcnt, if_false] at h
            cases h
    | panic t =>
      have := (parseNumber_panic_iff c o b neg fv (.panic t) (by intro k i hh; cases hh)).mpr h1
      cases h
    | fault t => cases h

/-- conversely a shadowed input is a disagreement: complete returns the special, partial the number -/
theorem tail_shadow (c : Cfg) (o : POpts) (s : List Nat) (fv neg : Bool) (b : Bytes)
    (hslc : b.slc = s) (hs : ShadowAt c o s fv neg b) :
    ∃ sp n count, tail c o false s fv neg b = .ok (.special sp neg s.length) ∧
      tail c o true s fv neg b = .ok (.number n count) ∧ count ≠ s.length := by
  obtain ⟨n, count, sp, h1, h2, h3⟩ := hs
  refine ⟨sp, n, count, ?_, ?_, h2⟩
  · unfold tail
    simp only [Bool.false_eq_true, if_false]
    rw [parseCompleteNumber_eq, (parseNumber_ok_iff c o b neg fv (n, count)).mp h1, h3]
    simp [hslc, h2, pure, Except.pure]
  · unfold tail
    simp [h1, pure, Except.pure]

/-- a complete parse that returns a number never involved the fall-back -/
theorem tail_complete_number (c : Cfg) (o : POpts) (s : List Nat) (fv neg : Bool) (b : Bytes) (n : Number) (m : Nat)
    (hslc : b.slc = s) (h : tail c o false s fv neg b = .ok (.number n m)) :
    parseNumber c false o b neg fv = .ok (n, s.length) ∧ m = s.length := by
  unfold tail at h
  simp only [Bool.false_eq_true, if_false] at h
  rw [parseCompleteNumber_eq] at h
  cases h1 : parseNumber c false o b neg fv with
  | ok r =>
    obtain ⟨n1, count⟩ := r
    rw [h1] at h
    simp only at h
    by_cases hcnt : count = b.slc.length
    · simp only [hcnt, if_true, pure, Except.pure, Except.ok.injEq, Parsed.number.injEq] at h
      obtain ⟨rfl, rfl⟩ := h
      rw [hcnt, hslc]; exact ⟨rfl, rfl⟩
    · simp only [hcnt, if_false] at h
      cases h3 : parseSpecialComplete c o b with
      | error e => rw [h3] at h; cases h
      | ok r => cases r <;> rw [h3] at h <;> cases h
  | error e =>
    rw [h1] at h
    cases e with
    | err k i =>
      simp only at h
      cases h3 : parseSpecialComplete c o b with
      | error e => rw [h3] at h; cases h
      | ok r => cases r <;> rw [h3] at h <;> cases h
    | panic t => cases h
    | fault t => cases h

/-- input-level exclusion: after the sign, no shadowing -/
def NoShadow (c : Cfg) (o : POpts) (s : List Nat) (fv : Bool := true) : Prop :=
  ∀ neg b, afterSign c s = .ok (neg, false, b) → ¬ ShadowAt c o s fv neg b

end LexVerif.Proof.C11
