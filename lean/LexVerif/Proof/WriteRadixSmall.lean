import LexVerif.Proof.WriteRadixBig
import Mathlib.Tactic.Ring
import Mathlib.Tactic.Linarith
/-!
# Proof.WriteRadixSmall — the ulp clause for floats `0 ≤ x < 1` (leading zeros)

The float is its own fraction; `round(fraction · base)` has a RELATIVE error `≤ 2^-p` (exact for subnormal results), so
after `N` digits the accumulated error is `≤ (N+1)` ulps of the input; `delta` grows by a factor `≥ 3·(1 − 2^-p)` per
step, which bounds `N` by `log₃ 2^(L+1)` (679 / 95 digits).
-/
namespace LexVerif.Proof.WriteRadixSmall
open LexVerif.Spec LexVerif.Model LexVerif.Proof.RoundNE LexVerif.Proof.WriteRadixF LexVerif.Proof.WriteRadixTerm
open LexVerif.Proof.WriteRadixWF LexVerif.Proof.WriteRadixInteger LexVerif.Proof.WriteRadixError
open LexVerif.Proof.WriteRadixFrac LexVerif.Proof.WriteRadixTermInt LexVerif.Proof.WriteRadixRound
open LexVerif.Proof.WriteRadixMid LexVerif.Proof.WriteRadixBig
open LexVerif.Model.WriteRadix
open LexVerif.Model.WriteInt (Res)

/-- **relative error of one product** `P = round(x · base)`, `x ≤ 1`: with `eb = |P − x·r|`,
`(2^p − 1)·eb ≤ x·r` and `P` is within a factor `1 ± 1/(2^p ∓ 1)` of `x·r` -/
theorem fmul_rel {f : Fmt} (h : FOK f) {r : Nat} (hr0 : 0 < r) (hr36 : r ≤ 36) (hrp : r < 2 * 2 ^ (f.p - 1)) {x : Nat}
    (hx : x ≤ one f) :
    ∃ eb, RoundNE.ival f (fmul f x (ofNat f r)) ≤ RoundNE.ival f x * r + eb ∧
      RoundNE.ival f x * r ≤ RoundNE.ival f (fmul f x (ofNat f r)) + eb ∧
      (2 * 2 ^ (f.p - 1) - 1) * eb ≤ RoundNE.ival f x * r ∧
      (2 * 2 ^ (f.p - 1) - 1) * RoundNE.ival f (fmul f x (ofNat f r)) ≤ 2 * 2 ^ (f.p - 1) * (RoundNE.ival f x * r) ∧
      2 * 2 ^ (f.p - 1) * (RoundNE.ival f x * r) ≤ (2 * 2 ^ (f.p - 1) + 1) * RoundNE.ival f (fmul f x (ofNat f r)) := by
  have hu := unit_pos f
  have hT := Nat.two_pow_pos (f.p - 1)
  obtain ⟨hrv, hrf⟩ := ofNat_ival h hrp
  have hfm : fmul f x (ofNat f r) = roundNE f (RoundNE.ival f x * (r * unit f)) (unit f * unit f) := by
    unfold fmul; simp only [ival_eq]; rw [hrv]
  have hle := fmul_le_base h hrp hx
  have hfin : fmul f x (ofNat f r) < f.infBits := Nat.lt_of_le_of_lt hle hrf
  generalize hX : RoundNE.ival f x = X at *
  by_cases hsmall : X * r < 2 * 2 ^ (f.p - 1)
  · -- exact
    have hiv : RoundNE.ival f (X * r) = X * r := by
      have := ival_kq f 0 (X * r) (fun h => absurd h (Nat.lt_irrefl 0)) (Nat.le_of_lt hsmall)
      simpa using this
    have hM := M_ge h.wf
    have hpf : X * r < f.infBits := by
      rw [infBits_eq]
      have : 3 * 2 ^ (f.p - 1) ≤ f.maxExpField * 2 ^ (f.p - 1) := Nat.mul_le_mul_right _ hM
      omega
    have : fmul f x (ofNat f r) = X * r := by
      rw [hfm]
      apply roundNE_of_ival h.wf hpf (Nat.mul_pos hu hu)
      rw [hiv, unit_eq]; ring
    rw [this, hiv]
    refine ⟨0, by omega, by omega, by simp, ?_, ?_⟩
    · exact Nat.mul_le_mul_right _ (by omega)
    · exact Nat.mul_le_mul_right _ (by omega)
  · rw [hfm] at hfin ⊢
    obtain ⟨e1, e2⟩ := round_err h.wf (X * (r * unit f)) (Nat.mul_pos hu hu) hfin
    generalize roundNE f (X * (r * unit f)) (unit f * unit f) = c at *
    rw [← unit_eq] at e1 e2
    have e1' : 2 * (X * r) ≤ 2 * RoundNE.ival f c + 2 ^ (c / 2 ^ (f.p - 1) - 1) := by
      apply Nat.le_of_mul_le_mul_left _ (Nat.mul_pos hu hu)
      calc unit f * unit f * (2 * (X * r)) = 2 * (X * (r * unit f) * unit f) := by ring
        _ ≤ _ := e1
    have e2' : 2 * RoundNE.ival f c ≤ 2 * (X * r) + 2 ^ (c / 2 ^ (f.p - 1) - 1) := by
      apply Nat.le_of_mul_le_mul_left _ (Nat.mul_pos hu hu)
      calc unit f * unit f * (2 * RoundNE.ival f c) ≤ 2 * (X * (r * unit f) * unit f)
            + unit f * unit f * 2 ^ (c / 2 ^ (f.p - 1) - 1) := e2
        _ = unit f * unit f * (2 * (X * r) + 2 ^ (c / 2 ^ (f.p - 1) - 1)) := by ring
    have hcT : 2 ^ (f.p - 1) ≤ c := by
      apply Nat.le_of_not_lt; intro hlt
      have h0 : c / 2 ^ (f.p - 1) = 0 := Nat.div_eq_of_lt hlt
      have hic : RoundNE.ival f c = c := by
        have := ival_kq f 0 c (fun h => absurd h (Nat.lt_irrefl 0)) (by omega)
        simpa using this
      rw [h0, hic] at e1'
      simp at e1'
      omega
    have hs := T_step_le f hcT
    generalize RoundNE.ival f c = P at *
    generalize 2 ^ (c / 2 ^ (f.p - 1) - 1) = s at *
    generalize 2 ^ (f.p - 1) = T at *
    generalize X * r = xr at *
    refine ⟨(P - xr) + (xr - P), by omega, by omega, ?_, ?_, ?_⟩
    · have : 2 * T * ((P - xr) + (xr - P)) ≤ P := by
        have : 2 * ((P - xr) + (xr - P)) ≤ s := by omega
        calc 2 * T * ((P - xr) + (xr - P)) = T * (2 * ((P - xr) + (xr - P))) := by ring
          _ ≤ T * s := Nat.mul_le_mul_left _ this
          _ ≤ P := hs
      have h1 : 1 ≤ 2 * T := by omega
      have : (2 * T - 1) * ((P - xr) + (xr - P)) + ((P - xr) + (xr - P)) = 2 * T * ((P - xr) + (xr - P)) := by
        calc _ = (2 * T - 1 + 1) * ((P - xr) + (xr - P)) := by ring
          _ = _ := by rw [Nat.sub_add_cancel h1]
      omega
    · have h1 : 1 ≤ 2 * T := by omega
      have e : (2 * T - 1) * P + P = 2 * T * P := by
        calc _ = (2 * T - 1 + 1) * P := by ring
          _ = _ := by rw [Nat.sub_add_cancel h1]
      have : 2 * T * (P - xr) ≤ P := by
        have : 2 * (P - xr) ≤ s := by omega
        calc 2 * T * (P - xr) = T * (2 * (P - xr)) := by ring
          _ ≤ T * s := Nat.mul_le_mul_left _ this
          _ ≤ P := hs
      have e3 : 2 * T * (P - xr) = 2 * T * P - 2 * T * xr := Nat.mul_sub _ _ _
      omega
    · have : 2 * T * (xr - P) ≤ P := by
        have : 2 * (xr - P) ≤ s := by omega
        calc 2 * T * (xr - P) = T * (2 * (xr - P)) := by ring
          _ ≤ T * s := Nat.mul_le_mul_left _ this
          _ ≤ P := hs
      have e3 : 2 * T * (xr - P) = 2 * T * xr - 2 * T * P := Nat.mul_sub _ _ _
      have e4 : (2 * T + 1) * P = 2 * T * P + P := by ring
      omega

/-- arithmetic of one step of the relative error accumulation (`T2 = m + n + 1`) -/
theorem rel_step {m n a1 a2 a3 a4 E' : Nat} (h1 : (m + n) * a1 ≤ a2) (h2 : (m + 1) * E' ≤ n * a3) (h3 : a3 ≤ a4)
    (h4 : (m + n) * a4 ≤ (m + n + 1) * a2) : m * (a1 + E') ≤ (n + 1) * a2 := by
  rcases Nat.eq_zero_or_pos (m + n) with h0 | hpos
  · have : m = 0 := by omega
    subst this; simp
  · apply Nat.le_of_mul_le_mul_left _ hpos
    have k1 : (m + n) * (m * a1) ≤ m * a2 := by
      calc (m + n) * (m * a1) = m * ((m + n) * a1) := by ring
        _ ≤ m * a2 := Nat.mul_le_mul_left _ h1
    have k2 : (m + n) * (m * E') ≤ (m + n) * ((m + 1) * E') := by
      apply Nat.mul_le_mul_left; exact Nat.mul_le_mul_right _ (by omega)
    have k3 : (m + n) * ((m + 1) * E') ≤ (m + n) * (n * a3) := Nat.mul_le_mul_left _ h2
    have k4 : (m + n) * (n * a3) ≤ n * ((m + n) * a4) := by
      calc (m + n) * (n * a3) = n * ((m + n) * a3) := by ring
        _ ≤ n * ((m + n) * a4) := Nat.mul_le_mul_left _ (Nat.mul_le_mul_left _ h3)
    have k5 : n * ((m + n) * a4) ≤ n * ((m + n + 1) * a2) := Nat.mul_le_mul_left _ h4
    have e1 : (m + n) * (m * (a1 + E')) = (m + n) * (m * a1) + (m + n) * (m * E') := by ring
    have e2 : (m + n) * ((n + 1) * a2) = m * a2 + n * ((m + n + 1) * a2) := by ring
    omega

/-- **telescoped RELATIVE error of `n` iterations**: `|x·rⁿ − (d₁…dₙ)·1.0 − xₙ| ≤ E` with `(2^p − n)·E ≤ n·x·rⁿ` -/
theorem fracIter_rel {f : Fmt} (h : FOK f) {r : Nat} (hr0 : 0 < r) (hr36 : r ≤ 36) (hrp : r < 2 * 2 ^ (f.p - 1)) :
    ∀ (n x : Nat), x ≤ one f → n < 2 * 2 ^ (f.p - 1) →
      ∃ E, ofDigits r (fracIter f r n x).1 * unit f + RoundNE.ival f (fracIter f r n x).2
            ≤ RoundNE.ival f x * r ^ n + E ∧
        RoundNE.ival f x * r ^ n
            ≤ ofDigits r (fracIter f r n x).1 * unit f + RoundNE.ival f (fracIter f r n x).2 + E ∧
        (2 * 2 ^ (f.p - 1) - n) * E ≤ n * (RoundNE.ival f x * r ^ n)
  | 0, x, _, _ => ⟨0, by simp [fracIter, ofDigits], by simp [fracIter, ofDigits], by simp⟩
  | n + 1, x, hx, hn => by
    obtain ⟨hd, _, hmod, hlt⟩ := frac_step h hr36 hrp hx
    obtain ⟨eb, p1, p2, p3, p4, _⟩ := fmul_rel h hr0 hr36 hrp hx
    obtain ⟨E', i1, i2, i3⟩ := fracIter_rel h hr0 hr36 hrp n _ (Nat.le_of_lt hlt) (by omega)
    have hlen := (fracIter_err h hr36 hrp n _ (Nat.le_of_lt hlt)).1
    have hsplit : asU32 f (fmul f x (ofNat f r)) * unit f
        + RoundNE.ival f (fsub f (fmul f x (ofNat f r)) (ofNat f (asU32 f (fmul f x (ofNat f r)))))
        = RoundNE.ival f (fmul f x (ofNat f r)) := by
      rw [hmod, hd]
      have := Nat.div_add_mod (RoundNE.ival f (fmul f x (ofNat f r))) (unit f)
      rw [Nat.mul_comm] at this
      exact this
    refine ⟨eb * r ^ n + E', ?_, ?_, ?_⟩
    all_goals
      try unfold fracIter
      try dsimp only
    all_goals
      try rw [WriteRadixError.ofDigits_cons, hlen]
    all_goals
      generalize RoundNE.ival f (fracIter f r n _).2 = xn at *
      generalize ofDigits r (fracIter f r n _).1 = D at *
      generalize RoundNE.ival f (fsub f (fmul f x (ofNat f r)) (ofNat f (asU32 f (fmul f x (ofNat f r))))) = x1 at *
      generalize asU32 f (fmul f x (ofNat f r)) = d at *
      generalize RoundNE.ival f (fmul f x (ofNat f r)) = P at *
      generalize RoundNE.ival f x = x0 at *
      generalize unit f = U at *
    · subst hsplit
      have := Nat.mul_le_mul_right (r ^ n) p1
      calc (d * r ^ n + D) * U + xn = d * U * r ^ n + (D * U + xn) := by ring
        _ ≤ d * U * r ^ n + (x1 * r ^ n + E') := by omega
        _ = (d * U + x1) * r ^ n + E' := by ring
        _ ≤ (x0 * r + eb) * r ^ n + E' := by omega
        _ = x0 * r ^ (n + 1) + (eb * r ^ n + E') := by ring
    · subst hsplit
      have := Nat.mul_le_mul_right (r ^ n) p2
      calc x0 * r ^ (n + 1) = x0 * r * r ^ n := by ring
        _ ≤ (d * U + x1 + eb) * r ^ n := this
        _ = d * U * r ^ n + x1 * r ^ n + eb * r ^ n := by ring
        _ ≤ d * U * r ^ n + (D * U + xn + E') + eb * r ^ n := by omega
        _ = (d * r ^ n + D) * U + xn + (eb * r ^ n + E') := by ring
    · obtain ⟨m, hm⟩ : ∃ m, 2 * 2 ^ (f.p - 1) = m + n + 1 := ⟨2 * 2 ^ (f.p - 1) - n - 1, by omega⟩
      rw [hm] at p3 p4 i3 ⊢
      rw [show m + n + 1 - 1 = m + n by omega] at p3 p4
      rw [show m + n + 1 - n = m + 1 by omega] at i3
      rw [show m + n + 1 - (n + 1) = m by omega]
      have hx1P : x1 ≤ P := by omega
      have := rel_step (m := m) (n := n) (a1 := eb * r ^ n) (a2 := x0 * r * r ^ n) (a3 := x1 * r ^ n) (a4 := P * r ^ n)
        (E' := E')
        (by calc (m + n) * (eb * r ^ n) = (m + n) * eb * r ^ n := by ring
              _ ≤ x0 * r * r ^ n := Nat.mul_le_mul_right _ p3)
        i3 (Nat.mul_le_mul_right _ hx1P)
        (by calc (m + n) * (P * r ^ n) = (m + n) * P * r ^ n := by ring
              _ ≤ (m + n + 1) * (x0 * r) * r ^ n := Nat.mul_le_mul_right _ p4
              _ = _ := by ring)
      calc m * (eb * r ^ n + E') ≤ (n + 1) * (x0 * r * r ^ n) := this
        _ = _ := by rw [Nat.pow_succ]; ring

/-! ## growth of `delta` -/

/-- after `j` steps `delta` is within a factor `(1 ± 1/2^p)^j` of `d0 · r^j` -/
def DInv (f : Fmt) (r d0 j d : Nat) : Prop :=
  (2 * 2 ^ (f.p - 1) - j) * RoundNE.ival f d ≤ 2 * 2 ^ (f.p - 1) * (d0 * r ^ j) ∧
  (2 * 2 ^ (f.p - 1) + 1 - j) * (d0 * r ^ j) ≤ (2 * 2 ^ (f.p - 1) + 1) * RoundNE.ival f d

theorem dinv_step {f : Fmt} (h : FOK f) {r : Nat} (hr0 : 0 < r) (hr36 : r ≤ 36) (hrp : r < 2 * 2 ^ (f.p - 1))
    {d0 j d : Nat} (hinv : DInv f r d0 j d) (hd : d ≤ one f) (hj : j + 1 < 2 * 2 ^ (f.p - 1)) :
    DInv f r d0 (j + 1) (fmul f d (ofNat f r)) := by
  obtain ⟨_, _, _, _, p4, p5⟩ := fmul_rel h hr0 hr36 hrp hd
  obtain ⟨i1, i2⟩ := hinv
  unfold DInv
  generalize RoundNE.ival f (fmul f d (ofNat f r)) = P at *
  generalize RoundNE.ival f d = D at *
  obtain ⟨m, hm⟩ : ∃ m, 2 * 2 ^ (f.p - 1) = m + j + 1 := ⟨2 * 2 ^ (f.p - 1) - j - 1, by omega⟩
  rw [hm] at i1 i2 p4 p5 ⊢
  rw [show m + j + 1 - j = m + 1 by omega] at i1
  rw [show m + j + 1 + 1 - j = m + 2 by omega] at i2
  rw [show m + j + 1 - 1 = m + j by omega] at p4
  rw [show m + j + 1 - (j + 1) = m by omega, show m + j + 1 + 1 - (j + 1) = m + 1 by omega]
  have e : d0 * r ^ (j + 1) = d0 * r ^ j * r := by rw [Nat.pow_succ]; ring
  rw [e]
  constructor
  · apply up_step (a := D * r) (j := j)
    · calc (m + 1) * (D * r) = (m + 1) * D * r := by ring
        _ ≤ (m + j + 1) * (d0 * r ^ j) * r := Nat.mul_le_mul_right _ i1
        _ = _ := by ring
    · exact p4
  · have := lo_step (a := D * r) (a' := P) (iv := d0 * r ^ j * r) (m := m) (j := j)
      (by calc (m + 2) * (d0 * r ^ j * r) = (m + 2) * (d0 * r ^ j) * r := by ring
            _ ≤ (m + j + 1 + 1) * D * r := Nat.mul_le_mul_right _ i2
            _ = _ := by ring)
      p5
    exact this

/-- the fraction loop with the exit condition and the RELATIVE growth of `delta` -/
theorem fracLoop_exit2 {f : Fmt} (h : FOK f) {r : Nat} (hr2 : 2 ≤ r) (hr36 : r ≤ 36) (hrp : r < 2 * 2 ^ (f.p - 1))
    (hpo : PredOne f r) (d0 : Nat) : ∀ (fuel x delta : Nat) (acc : List Nat) (out : List Nat × List Nat × Bool) (j : Nat),
      x < one f → delta < x → DInv f r d0 j delta → j + fuel < 2 * 2 ^ (f.p - 1) →
      fracLoop true f r (ofNat f r) fuel x delta acc = .ok out →
      ∃ n dP, 1 ≤ n ∧ n ≤ fuel ∧ (∀ d ∈ (fracIter f r n x).1, d < r) ∧ (fracIter f r n x).2 < one f ∧
        DInv f r d0 (j + n - 1) dP ∧ dP < one f ∧
        ((out = (((fracIter f r n x).1.map (digitToCharConst · r)).reverse ++ acc, [], false) ∧
            (fracIter f r n x).2 ≤ fmul f dP (ofNat f r)) ∨
         (out = backtrace true r (((fracIter f r n x).1.map (digitToCharConst · r)).reverse ++ acc) [] ∧
            one f < fadd f (fracIter f r n x).2 (fmul f dP (ofNat f r))))
  | 0, _, _, _, _, _, _, _, _, _, hx => by simp [fracLoop] at hx
  | fuel + 1, x, delta, acc, out, j, hx1, hdx, hinv, hjf, hx => by
    have hd := fracDigit_lt h hr36 hrp hpo hx1
    obtain ⟨_, _, _, hlt⟩ := frac_step h hr36 hrp (Nat.le_of_lt hx1)
    have hone : ∀ d ∈ (fracIter f r 1 x).1, d < r := by
      intro d hd'; simp [fracIter] at hd'; rw [hd']; exact hd
    unfold fracLoop at hx
    dsimp only at hx
    split at hx
    · rename_i hc
      simp only [Res.ok.injEq] at hx
      exact ⟨1, delta, Nat.le_refl _, by omega, hone, by simpa [fracIter] using hlt, by simpa using hinv, by omega,
        Or.inr ⟨by rw [← hx]; simp [fracIter], by simpa [fracIter] using hc.2⟩⟩
    · split at hx
      · rename_i hge
        simp only [Res.ok.injEq] at hx
        exact ⟨1, delta, Nat.le_refl _, by omega, hone, by simpa [fracIter] using hlt, by simpa using hinv, by omega,
          Or.inl ⟨by rw [← hx]; simp [fracIter], by simpa [fracIter] using hge⟩⟩
      · rename_i hnge
        have hinv' := dinv_step h (by omega) hr36 hrp hinv (show delta ≤ one f by omega) (by omega)
        obtain ⟨n, dP, h1, h1', h2, h3, h4, h4', h5⟩ :=
          fracLoop_exit2 h hr2 hr36 hrp hpo d0 fuel _ _ _ out (j + 1) hlt (Nat.lt_of_not_le hnge) hinv' (by omega) hx
        refine ⟨n + 1, dP, by omega, by omega, ?_, by simpa [fracIter] using h3, ?_, h4', ?_⟩
        · intro d hd'
          simp only [fracIter, List.mem_cons] at hd'
          rcases hd' with rfl | hd'
          · exact hd
          · exact h2 d hd'
        · rw [show j + (n + 1) - 1 = j + 1 + n - 1 by omega]; exact h4
        · rcases h5 with ⟨h5, h6⟩ | ⟨h5, h6⟩
          · exact Or.inl ⟨by rw [h5]; simp [fracIter], by simpa [fracIter] using h6⟩
          · exact Or.inr ⟨by rw [h5]; simp [fracIter], by simpa [fracIter] using h6⟩

/-! ## arithmetic core -/

/-- `(T2 − N)·E ≤ N·A`, `A < T2·KR`, `N² + N ≤ T2` ⇒ `E ≤ (N+1)·KR` -/
theorem rel_to_add {E A KR m N : Nat} (h1 : m * E ≤ N * A) (h2 : A < (m + N) * KR) (h3 : N * N + N ≤ m + N)
    (hm : 0 < m) : E ≤ (N + 1) * KR := by
  apply Nat.le_of_mul_le_mul_left _ hm
  have k1 : N * A ≤ N * ((m + N) * KR) := Nat.mul_le_mul_left _ (Nat.le_of_lt h2)
  have k2 : N * (m + N) ≤ (N + 1) * m := by nlinarith
  have k3 : N * ((m + N) * KR) = N * (m + N) * KR := by ring
  have k4 : N * (m + N) * KR ≤ (N + 1) * m * KR := Nat.mul_le_mul_right _ k2
  have k5 : m * ((N + 1) * KR) = (N + 1) * m * KR := by ring
  omega

/-- `(T2 − N)·d ≤ T2·KR`, `2N ≤ T2` ⇒ `d ≤ 2·KR` -/
theorem half_bound {d KR m N : Nat} (h1 : m * d ≤ (m + N) * KR) (h2 : N ≤ m) (hm : 0 < m) : d ≤ 2 * KR := by
  apply Nat.le_of_mul_le_mul_left _ hm
  have : (m + N) * KR ≤ (m + m) * KR := Nat.mul_le_mul_right _ (by omega)
  have e : m * (2 * KR) = (m + m) * KR := by ring
  omega

theorem core_sA {iv R KR N Nm DtU xN E dN : Nat} (e1 : DtU + xN ≤ iv * R + E) (e2 : iv * R ≤ DtU + xN + E)
    (hE : E ≤ (N + 1) * KR) (hd : dN ≤ 2 * KR) (hx : xN ≤ dN) (hN : N ≤ Nm) :
    DtU ≤ iv * R + (Nm + 3) * KR ∧ iv * R ≤ DtU + (Nm + 3) * KR := by
  have h1 : (N + 1) * KR ≤ (Nm + 1) * KR := Nat.mul_le_mul_right _ (by omega)
  have e3 : (Nm + 3) * KR = (Nm + 1) * KR + 2 * KR := by ring
  rw [e3]
  generalize (N + 1) * KR = a at *
  generalize (Nm + 1) * KR = b at *
  generalize iv * R = c at *
  omega

theorem core_sB {iv R KR N Nm DtU U xN E dN : Nat} (e1 : DtU + xN ≤ iv * R + E) (e2 : iv * R ≤ DtU + xN + E)
    (hE : E ≤ (N + 1) * KR) (hd : dN ≤ 2 * KR) (hx : U < xN + dN) (hx1 : xN < U) (hN : N ≤ Nm) :
    DtU + U ≤ iv * R + (Nm + 3) * KR ∧ iv * R ≤ DtU + U + (Nm + 3) * KR := by
  have h1 : (N + 1) * KR ≤ (Nm + 1) * KR := Nat.mul_le_mul_right _ (by omega)
  have e3 : (Nm + 3) * KR = (Nm + 1) * KR + 2 * KR := by ring
  rw [e3]
  generalize (N + 1) * KR = a at *
  generalize (Nm + 1) * KR = b at *
  generalize iv * R = c at *
  omega

/-- `pattern_dist` for every finite `v` (also subnormal and tiny ones) -/
theorem pattern_dist3 {f : Fmt} (hf : WF f) {v N D a b : Nat} (hD : 0 < D) (hvfin : v < f.infBits)
    (hbT : 2 * b ≤ 2 ^ (f.p - 1))
    (hup : N * 2 ^ L f ≤ (RoundNE.ival f v + a * 2 ^ (v / 2 ^ (f.p - 1) - 1)) * D)
    (hlo : RoundNE.ival f v * D ≤ N * 2 ^ L f + b * 2 ^ (v / 2 ^ (f.p - 1) - 1) * D) :
    ulpDist (roundNE f N D) v ≤ max a (2 * b) := by
  have hu := Nat.two_pow_pos (L f)
  have up : roundNE f N D ≤ v + a := by
    by_cases hfin : v + a < f.infBits
    · have e : roundNE f (RoundNE.ival f (v + a)) (2 ^ L f) = v + a := roundNE_of_ival hf hfin hu rfl
      rw [← e]
      apply roundNE_mono' hf hD hu
      calc N * 2 ^ L f ≤ (RoundNE.ival f v + a * 2 ^ (v / 2 ^ (f.p - 1) - 1)) * D := hup
        _ ≤ RoundNE.ival f (v + a) * D := Nat.mul_le_mul_right _ (ival_add_ge f v a)
    · exact Nat.le_trans (roundNE_le_infBits hf N hD) (by omega)
  have lo : v - 2 * b ≤ roundNE f N D := by
    by_cases hb : 2 * b ≤ v
    · have e : roundNE f (RoundNE.ival f (v - 2 * b)) (2 ^ L f) = v - 2 * b :=
        roundNE_of_ival hf (by omega) hu rfl
      rw [← e]
      apply roundNE_mono' hf hu hD
      have hs := ival_sub_le f v (2 * b) hb hbT
      have e2 : 2 ^ (v / 2 ^ (f.p - 1) - 1) ≤ 2 * 2 ^ (v / 2 ^ (f.p - 1) - 2) := by
        by_cases hk : 2 ≤ v / 2 ^ (f.p - 1)
        · rw [show v / 2 ^ (f.p - 1) - 1 = (v / 2 ^ (f.p - 1) - 2) + 1 by omega, Nat.pow_succ]; omega
        · rw [show v / 2 ^ (f.p - 1) - 1 = 0 by omega, show v / 2 ^ (f.p - 1) - 2 = 0 by omega]; decide
      have hs' : RoundNE.ival f (v - 2 * b) + b * 2 ^ (v / 2 ^ (f.p - 1) - 1) ≤ RoundNE.ival f v := by
        calc RoundNE.ival f (v - 2 * b) + b * 2 ^ (v / 2 ^ (f.p - 1) - 1)
            ≤ RoundNE.ival f (v - 2 * b) + b * (2 * 2 ^ (v / 2 ^ (f.p - 1) - 2)) :=
              Nat.add_le_add_left (Nat.mul_le_mul_left _ e2) _
          _ = RoundNE.ival f (v - 2 * b) + 2 * b * 2 ^ (v / 2 ^ (f.p - 1) - 2) := by ring
          _ ≤ _ := hs
      have h3 : RoundNE.ival f (v - 2 * b) * D + b * 2 ^ (v / 2 ^ (f.p - 1) - 1) * D ≤ RoundNE.ival f v * D := by
        rw [← Nat.add_mul]; exact Nat.mul_le_mul_right _ hs'
      omega
    · omega
  unfold ulpDist
  split <;> omega

/-! ## `delta` and the integer digit of a float below 1 -/

theorem delta_bounds {f : Fmt} (h : FOK f) {v : Nat} (hv2 : v + 1 < f.infBits) :
    1 ≤ RoundNE.ival f (deltaOf f v) ∧ RoundNE.ival f (deltaOf f v) ≤ 2 ^ (v / 2 ^ (f.p - 1) - 1) := by
  have hu := unit_pos f
  constructor
  · rw [← ival_one_pattern h.wf]; exact ival_mono f (deltaOf_pos f v)
  · generalize hkk : v / 2 ^ (f.p - 1) - 1 = k
    have hstep := ival_step f v
    rw [hkk] at hstep
    have hT2 : 1 < 2 * 2 ^ (f.p - 1) := by have := Nat.two_pow_pos (f.p - 1); omega
    obtain ⟨c1, hc1⟩ := exists_pattern f k 1 hT2
    rw [Nat.one_mul] at hc1
    have hc1f : c1 < f.infBits := by
      have : c1 ≤ v + 1 := le_of_ival_le f (by rw [hc1, hstep]; omega)
      omega
    have hs : fsub f (v + 1) v = c1 := by
      unfold fsub
      simp only [ival_eq]
      rw [hstep, Nat.add_sub_cancel_left, unit_eq]
      exact roundNE_of_ival h.wf hc1f (Nat.two_pow_pos _) (by rw [hc1])
    have hd : fmul f (half f) c1 ≤ c1 := by
      have e : fmul f (one f) c1 = c1 := by
        unfold fmul
        simp only [ival_eq]
        rw [(one_ival h).1]
        exact roundNE_of_ival h.wf hc1f (Nat.mul_pos hu hu) (by rw [unit_eq]; ring)
      calc fmul f (half f) c1 ≤ fmul f (one f) c1 := fmul_mono h.wf (Nat.le_of_lt (half_ival h).2) (Nat.le_refl _)
        _ = c1 := e
    have hne : v ≠ maxFinite f := by unfold maxFinite; omega
    unfold deltaOf
    dsimp only
    rw [if_neg hne, hs]
    split
    · rw [← hc1]; exact ival_mono f hd
    · rw [ival_one_pattern h.wf]; exact Nat.one_le_two_pow

theorem genInteger_zero {f : Fmt} (h : FOK f) (hpH : f.p + 1 ≤ halfSize) {r : Nat} (hr : 2 ≤ r) (hr36 : r ≤ 36)
    (hrp : r < 2 * 2 ^ (f.p - 1)) : genInteger f r 0 = .ok [48] := by
  have hd0 : fdiv f 0 (ofNat f r) = 0 := by
    unfold fdiv; simp only [ival_eq, ival_zero]; exact roundNE_zero f _
  have hexp : exponent f 0 ≤ 0 := by
    unfold exponent
    have : f.expField 0 = 0 := by unfold Fmt.expField; simp
    rw [this, if_pos rfl, eminLsb_eq h.wf]; omega
  have hpad : padLoop f (ofNat f r) halfSize 0 [] = .ok (0, [], halfSize) := by
    show padLoop f (ofNat f r) (1099 + 1) 0 [] = _
    unfold padLoop
    rw [hd0, if_neg (by omega)]
    rfl
  have hpos : 0 < (f.bias + f.p) * 2 ^ (f.p - 1) :=
    Nat.mul_pos (by have := h.wf.hp; omega) (Nat.two_pow_pos _)
  have hdl := digitLoop_small h hr hr36 hrp (fuel := halfSize - 1) (y := 0) [] hpos (by omega)
  have hhs : halfSize - 1 + 1 = halfSize := by decide
  rw [hhs, ival_zero, Nat.zero_div, toDigits_zero r hr] at hdl
  unfold genInteger
  simp only [hpad, Res.bind, hdl]
  rfl

/-! ## assembly -/

/-- format constants for `0 ≤ x < 1`: at most `Ns + 1` fraction digits -/
structure SmallFmt (f : Fmt) (Ns : Nat) : Prop where
  fok : FOK f
  hNs : 2 ^ (L f + 1) ≤ 3 ^ (Ns + 1)
  tbig : 2 * (halfSize * halfSize + halfSize) ≤ 2 ^ (f.p - 1)
  nb : 2 * (Ns + 4) ≤ 2 ^ (f.p - 1)
  pH : f.p + 1 ≤ halfSize
  oneFin : one f + 1 < f.infBits

theorem smallFmt_f64 : SmallFmt f64 678 :=
  ⟨fok_f64, by decide +kernel, by decide, by decide, by decide, by decide +kernel⟩
theorem smallFmt_f32 : SmallFmt f32 94 :=
  ⟨fok_f32, by decide +kernel, by decide, by decide, by decide, by decide +kernel⟩

theorem genFraction_small {f : Fmt} {Ns : Nat} (m : SmallFmt f Ns) {r : Nat} (hr3 : 3 ≤ r) (hr36 : r ≤ 36)
    (hpo : PredOne f r) {v : Nat} (hv : v < one f)
    {fr : List Nat × List Nat × Bool} (hfr : genFraction true f r v = .ok fr) :
    ∃ N fv, fr.1 = fv.map (digitToCharConst · r) ∧ (∀ d ∈ fv, d < r) ∧ fv.length ≤ N ∧
      ((if fr.2.2 then 1 else 0) * r ^ N + ofDigits r fv * r ^ (N - fv.length)) * unit f
        ≤ (RoundNE.ival f v + (Ns + 4) * 2 ^ (v / 2 ^ (f.p - 1) - 1)) * r ^ N ∧
      RoundNE.ival f v * r ^ N
        ≤ ((if fr.2.2 then 1 else 0) * r ^ N + ofDigits r fv * r ^ (N - fv.length)) * unit f
          + (Ns + 4) * 2 ^ (v / 2 ^ (f.p - 1) - 1) * r ^ N := by
  have h := m.fok
  have hT := Nat.two_pow_pos (f.p - 1)
  have hu := unit_pos f
  have hhs : halfSize = 1100 := rfl
  have hTbig := m.tbig
  have hrp : r < 2 * 2 ^ (f.p - 1) := by rw [hhs] at hTbig; omega
  have hvfin : v + 1 < f.infBits := by have := m.oneFin; omega
  have hivU : RoundNE.ival f v < unit f := (lt_one_iff h).mp hv
  have hfloor : ffloor f v = 0 := by
    apply ival_inj f
    rw [(ffloor_exact h.wf (show v < f.infBits by omega)).1, Nat.div_eq_of_lt hivU, Nat.zero_mul, ival_zero]
  have hx : fsub f v 0 = v := by
    unfold fsub
    simp only [ival_eq, ival_zero, Nat.sub_zero]
    exact roundNE_of_ival h.wf (by omega) hu (by rw [unit_eq])
  obtain ⟨hd1, hdK⟩ := delta_bounds h hvfin
  have hKlt := ival_lt_step f v
  generalize hK : 2 ^ (v / 2 ^ (f.p - 1) - 1) = K at *
  unfold genFraction at hfr
  dsimp only at hfr
  rw [hfloor, hx] at hfr
  split at hfr
  · rename_i hgt
    cases hl : fracLoop true f r (ofNat f r) halfSize v (deltaOf f v) [] with
    | ok out =>
      rw [hl] at hfr
      simp only [Res.bind, Res.ok.injEq] at hfr
      subst hfr
      have hinv0 : DInv f r (RoundNE.ival f (deltaOf f v)) 0 (deltaOf f v) := by unfold DInv; simp
      obtain ⟨N, dP, hN1, hNf, hdig, hxN1, hdinv, hdP1, hcase⟩ :=
        fracLoop_exit2 h (by omega) hr36 hrp hpo (RoundNE.ival f (deltaOf f v)) halfSize v (deltaOf f v) [] out 0
          hv hgt hinv0 (by rw [hhs] at hTbig ⊢; omega) hl
      simp only [Nat.zero_add] at hdinv
      have hNT : N < 2 * 2 ^ (f.p - 1) := by rw [hhs] at hTbig hNf; omega
      -- number of digits
      have hNNs : N ≤ Ns + 1 := by
        apply Nat.le_of_not_lt; intro hlt
        obtain ⟨_, i2⟩ := hdinv
        have hdPU := (lt_one_iff h).mp hdP1
        obtain ⟨M, hM⟩ : ∃ M, 2 * 2 ^ (f.p - 1) + 1 = M + (N - 1) + (N - 1) := ⟨2 * 2 ^ (f.p - 1) + 1 - 2 * (N - 1), by
          rw [hhs] at hTbig hNf; omega⟩
        rw [hM, show M + (N - 1) + (N - 1) - (N - 1) = M + (N - 1) by omega] at i2
        have hA : RoundNE.ival f (deltaOf f v) * r ^ (N - 1) < 2 * unit f := by
          generalize RoundNE.ival f (deltaOf f v) * r ^ (N - 1) = A at *
          generalize RoundNE.ival f dP = D at *
          apply Nat.lt_of_not_le; intro hge
          have k1 : (M + (N - 1)) * (2 * unit f) ≤ (M + (N - 1)) * A := Nat.mul_le_mul_left _ hge
          have k2 : (M + (N - 1) + (N - 1)) * D < (M + (N - 1) + (N - 1)) * unit f :=
            Nat.mul_lt_mul_of_pos_left hdPU (by omega)
          have k3 : (M + (N - 1) + (N - 1)) * unit f ≤ (M + (N - 1)) * (2 * unit f) := by
            have : (M + (N - 1)) * (2 * unit f) = (M + (N - 1) + (M + (N - 1))) * unit f := by ring
            rw [this]; exact Nat.mul_le_mul_right _ (by omega)
          omega
        have hpow : r ^ (N - 1) < 2 ^ (L f + 1) := by
          have : r ^ (N - 1) ≤ RoundNE.ival f (deltaOf f v) * r ^ (N - 1) := Nat.le_mul_of_pos_left _ hd1
          rw [Nat.pow_succ, ← unit_eq]; omega
        have h5 : 3 ^ (Ns + 1) ≤ r ^ (N - 1) :=
          Nat.le_trans (Nat.pow_le_pow_left hr3 _) (Nat.pow_le_pow_right (by omega) (by omega))
        have := m.hNs
        omega
      -- errors
      obtain ⟨E, e1, e2, e3⟩ := fracIter_rel h (by omega) hr36 hrp N v (Nat.le_of_lt hv) hNT
      have hlen := (fracIter_err h hr36 hrp N v (Nat.le_of_lt hv)).1
      have hdN := dinv_step h (by omega) hr36 hrp hdinv (Nat.le_of_lt hdP1) (by omega)
      rw [show N - 1 + 1 = N by omega] at hdN
      obtain ⟨mm, hmm⟩ : ∃ mm, 2 * 2 ^ (f.p - 1) = mm + N := ⟨2 * 2 ^ (f.p - 1) - N, by omega⟩
      have hmpos : 0 < mm := by omega
      have hNN : N * N + N ≤ mm + N := by
        rw [← hmm]
        have : N * N ≤ halfSize * halfSize := Nat.mul_le_mul hNf hNf
        omega
      rw [hmm, show mm + N - N = mm by omega] at e3
      have hE : E ≤ (N + 1) * (K * r ^ N) := by
        apply rel_to_add e3 _ hNN hmpos
        rw [← hmm]
        calc RoundNE.ival f v * r ^ N < 2 * 2 ^ (f.p - 1) * K * r ^ N :=
              Nat.mul_lt_mul_of_pos_right hKlt (Nat.pow_pos (by omega))
          _ = _ := by ring
      have hdNb : RoundNE.ival f (fmul f dP (ofNat f r)) ≤ 2 * (K * r ^ N) := by
        obtain ⟨i1, _⟩ := hdN
        rw [hmm, show mm + N - N = mm by omega] at i1
        apply half_bound (m := mm) (N := N) _ (by rw [hhs] at hTbig hNf; omega) hmpos
        calc mm * RoundNE.ival f (fmul f dP (ofNat f r)) ≤ (mm + N) * (RoundNE.ival f (deltaOf f v) * r ^ N) := i1
          _ ≤ (mm + N) * (K * r ^ N) := Nat.mul_le_mul_left _ (Nat.mul_le_mul_right _ hdK)
      generalize hDt : ofDigits r (fracIter f r N v).1 = Dt at *
      generalize hxN : (fracIter f r N v).2 = xN at *
      generalize htd : (fracIter f r N v).1 = td at *
      generalize hdNe : fmul f dP (ofNat f r) = dN at *
      have eK : ∀ c : Nat, c * K * r ^ N = c * (K * r ^ N) := fun c => by ring
      have eK2 : ∀ c : Nat, (RoundNE.ival f v + c * K) * r ^ N = RoundNE.ival f v * r ^ N + c * (K * r ^ N) :=
        fun c => by ring
      rcases hcase with ⟨ho, hle⟩ | ⟨ho, hlt⟩
      · subst ho
        obtain ⟨c1, c2⟩ := core_sA (Nm := Ns + 1) e1 e2 hE hdNb (ival_mono f hle) hNNs
        refine ⟨N, td, by simp, hdig, by omega, ?_, ?_⟩
        · simp only [Bool.false_eq_true, if_false, Nat.zero_mul, Nat.zero_add, hlen, Nat.sub_self, Nat.pow_zero,
            Nat.mul_one, hDt]
          rw [eK2]; exact c1
        · simp only [Bool.false_eq_true, if_false, Nat.zero_mul, Nat.zero_add, hlen, Nat.sub_self, Nat.pow_zero,
            Nat.mul_one, hDt]
          rw [eK]; exact c2
      · have hsum : unit f < RoundNE.ival f xN + RoundNE.ival f dN := by
          apply Nat.lt_of_not_le; intro hle
          have : fadd f xN dN ≤ one f := by
            have e : roundNE f (unit f) (unit f) = one f :=
              roundNE_of_ival h.wf (one_ival h).2 hu (by rw [(one_ival h).1, unit_eq])
            rw [← e]
            unfold fadd
            simp only [ival_eq]
            exact roundNE_mono' h.wf hu hu (Nat.mul_le_mul_right _ hle)
          omega
        obtain ⟨c1, c2⟩ := core_sB (Nm := Ns + 1) e1 e2 hE hdNb hsum ((lt_one_iff h).mp hxN1) hNNs
        have hrev : (td.map (digitToCharConst · r)).reverse ++ [] = td.reverse.map (digitToCharConst · r) := by
          simp [List.map_reverse]
        rw [hrev] at ho
        obtain ⟨rv', b1, b2, b3, b4, b5⟩ := backtrace_value hr36 td.reverse []
          (fun d hd => hdig d (List.mem_reverse.mp hd))
        rw [← ho] at b1 b4 b5
        simp only [List.length_reverse, List.reverse_reverse] at b3 b4 b5
        rw [hDt] at b4 b5
        rw [hlen] at b3 b4 b5
        refine ⟨N, rv'.reverse, by rw [b1]; simp [List.map_reverse], fun d hd => b2 d (List.mem_reverse.mp hd),
          by simpa using b3, ?_, ?_⟩
        · cases hc : out.2.2 with
          | false =>
            have := b4 hc
            simp only [List.length_reverse, Bool.false_eq_true, if_false, Nat.zero_mul, Nat.zero_add]
            rw [this, eK2, Nat.add_mul, Nat.one_mul]; exact c1
          | true =>
            obtain ⟨q1, q2⟩ := b5 hc
            subst q1
            simp only [List.reverse_nil, List.length_nil, if_true, ofDigits, List.foldl_nil, Nat.zero_mul,
              Nat.add_zero, Nat.one_mul]
            have e9 : r ^ N * unit f = Dt * unit f + unit f := by rw [← q2]; ring
            rw [eK2, e9]; exact c1
        · cases hc : out.2.2 with
          | false =>
            have := b4 hc
            simp only [List.length_reverse, Bool.false_eq_true, if_false, Nat.zero_mul, Nat.zero_add]
            rw [this, eK, Nat.add_mul, Nat.one_mul]; exact c2
          | true =>
            obtain ⟨q1, q2⟩ := b5 hc
            subst q1
            simp only [List.reverse_nil, List.length_nil, if_true, ofDigits, List.foldl_nil, Nat.zero_mul,
              Nat.add_zero, Nat.one_mul]
            have e9 : r ^ N * unit f = Dt * unit f + unit f := by rw [← q2]; ring
            rw [eK, e9]; exact c2
    | fault => rw [hl] at hfr; simp [Res.bind] at hfr
    | panic => rw [hl] at hfr; simp [Res.bind] at hfr
  · rename_i hngt
    simp only [Res.ok.injEq] at hfr
    subst hfr
    have hxle : RoundNE.ival f v ≤ RoundNE.ival f (deltaOf f v) := ival_mono f (Nat.le_of_not_lt hngt)
    refine ⟨0, [], rfl, by simp, by simp, ?_, ?_⟩
    · simp [ofDigits]
    · simp [ofDigits]
      have : K ≤ (Ns + 4) * K := Nat.le_mul_of_pos_left _ (by omega)
      omega

/-- **the ulp clause for `0 ≤ x < 1`**: at most `2·(Ns + 4)` patterns (1364 for binary64, 196 for binary32) -/
theorem error_small {f : Fmt} {Ns : Nat} (m : SmallFmt f Ns) {r : Nat} (hr3 : 3 ≤ r) (hr36 : r ≤ 36)
    (hpo : PredOne f r) {v : Nat} (hv : v < one f) {g : Gen} (hg : generate true f r v = .ok g) :
    ulpDist (roundNE f (ofDigits r ((g.ints ++ g.fracs).map byteDigit)) (r ^ g.fracs.length)) v ≤ 2 * (Ns + 4) := by
  have h := m.fok
  have hu := unit_pos f
  have hhs : halfSize = 1100 := rfl
  have hTbig := m.tbig
  have hrp : r < 2 * 2 ^ (f.p - 1) := by rw [hhs] at hTbig; omega
  have hvfin : v < f.infBits := by have := m.oneFin; omega
  have hivU : RoundNE.ival f v < unit f := (lt_one_iff h).mp hv
  have hfloor : ffloor f v = 0 := by
    apply ival_inj f
    rw [(ffloor_exact h.wf hvfin).1, Nat.div_eq_of_lt hivU, Nat.zero_mul, ival_zero]
  unfold generate at hg
  cases hfr : genFraction true f r v with
  | ok fr =>
    rw [hfr] at hg
    simp only [Res.bind] at hg
    obtain ⟨N, fv, hf1, hf2, hf3, c1, c2⟩ := genFraction_small m hr3 hr36 hpo hv hfr
    have hint : genInteger f r (if fr.2.2 = true then fadd f (ffloor f v) (one f) else ffloor f v)
        = .ok ((toDigits r (if fr.2.2 then 1 else 0)).map digitChar) := by
      rw [hfloor]
      cases hc : fr.2.2 with
      | false =>
        simp only [Bool.false_eq_true, if_false]
        rw [genInteger_zero h m.pH (by omega) hr36 hrp, toDigits_zero r (by omega)]; rfl
      | true =>
        simp only [if_true]
        have : fadd f 0 (one f) = ofNat f 1 := by
          have := fadd_one_ofNat h (n := 0) (by have := Nat.two_pow_pos (f.p - 1); omega)
          rwa [ofNat_zero] at this
        rw [this]
        exact genInteger_ofNat h (by have := m.pH; omega) (by omega) hr36 hrp (by omega)
          (by have := Nat.two_pow_pos (f.p - 1); omega)
    rw [hint] at hg
    simp only [Res.ok.injEq] at hg
    subst hg
    dsimp only
    rw [hf1, digits_value (by omega) hr36 _ fv hf2, List.length_map]
    generalize (if fr.2.2 = true then 1 else 0) = n' at *
    have hscale : roundNE f (n' * r ^ fv.length + ofDigits r fv) (r ^ fv.length)
        = roundNE f (n' * r ^ N + ofDigits r fv * r ^ (N - fv.length)) (r ^ N) := by
      have hpow : r ^ N = r ^ (N - fv.length) * r ^ fv.length := by
        rw [← Nat.pow_add]; congr 1; omega
      have hk : 0 < r ^ (N - fv.length) := Nat.pow_pos (by omega)
      rw [← roundNE_scale' h.wf hk _ (Nat.pow_pos (by omega : 0 < r))]
      congr 1
      · rw [hpow]; ring
      · rw [hpow]
    rw [hscale]
    have := pattern_dist3 h.wf (v := v) (N := n' * r ^ N + ofDigits r fv * r ^ (N - fv.length)) (D := r ^ N)
      (a := Ns + 4) (b := Ns + 4) (Nat.pow_pos (by omega)) hvfin m.nb
      (by rw [← unit_eq]; exact c1) (by rw [← unit_eq]; exact c2)
    have hmax : max (Ns + 4) (2 * (Ns + 4)) = 2 * (Ns + 4) := by omega
    rw [hmax] at this
    exact this
  | fault => rw [hfr] at hg; simp [Res.bind] at hg
  | panic => rw [hfr] at hg; simp [Res.bind] at hg

end LexVerif.Proof.WriteRadixSmall
