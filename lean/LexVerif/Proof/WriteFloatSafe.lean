import LexVerif.Proof.WriteFloatArith
import LexVerif.Proof.Numeral
/-!
# Proof.WriteFloatSafe — `sign + need ≤ buffer_size_const` outside the excluded option regions
-/
namespace LexVerif.Proof.WriteFloatBound
open LexVerif.Spec LexVerif.Model LexVerif.Model.WriteFloat LexVerif.Proof.WriteFloatBuf

/-- Option regions in which `buffer_size_const` is proved sufficient for every value.
`D`/`E`: digit and exponent allowances of `buffer_size_const`; `P`/`K`: largest positive / negative scientific exponent
written positionally.  The complement is exactly where the implementation panics with a buffer of the documented size
(see the witnesses in `Props/C09.lean`):
* Dragonbox builds: many leading zeros followed by the digit writer's fixed 20/10-byte slice demand (`nd > D`),
  many padding zeros followed by the exponent writer's fixed 10-byte demand (`min > 50` with small breaks),
  a large positive break with at most two digits kept (sign + carry + ".0");
* `compact` builds: a large positive break with one digit kept. -/
def SafeOpts (feats : Features) (f : Fmt) (fmt : Format) (o : WOpts) : Prop :=
  let D := sizeDigits fmt.mantissaRadix o
  let E := sizeExp feats fmt o
  let P : Nat := if (effFmt feats fmt).noExponentNotation = true then 309 else (o.posBreak.getD 9).toNat
  let K : Nat := if (effFmt feats fmt).noExponentNotation = true then 324 else (o.negBreak.getD (-5)).natAbs
  if feats.compact = true then 2 ≤ D ∨ P + 4 ≤ 64
  else (mantNeed f ≤ D ∨ K + 2 + mantNeed f ≤ 64) ∧ (o.minDigits.getD 0 ≤ 50 ∨ 12 ≤ E) ∧ (3 ≤ D ∨ P + 5 ≤ 64)

/-- well-formed option numbers (what `OptionsBuilder::build` and the `NonZero` / `i32` types guarantee) -/
structure NumOpts (o : WOpts) : Prop where
  mx : o.maxDigits ≠ some 0
  mnmx : ∀ a b, o.minDigits = some a → o.maxDigits = some b → a ≤ b
  nb : o.negBreak.getD (-5) ≤ 0 ∧ -(2 ^ 31) < o.negBreak.getD (-5)
  pb : 0 ≤ o.posBreak.getD 9 ∧ o.posBreak.getD 9 < 2 ^ 31

theorem expSign_length_le (fmt : Format) (feats : Features) (e : Int) : (expSign fmt feats e).length ≤ 1 := by
  unfold expSign; repeat' split
  all_goals simp

theorem numeral10_length_le (n : Nat) (h : n < 1000) : (numeral 10 n).length ≤ 3 := by
  unfold numeral
  rw [List.length_map]
  exact LexVerif.Spec.toDigits_length_le 10 n 3 (by omega) (by omega) (by omega)

theorem minExact_le (c : Nat) (o : WOpts) : minExactDigits c o ≤ max c (o.minDigits.getD 0) ∧ c ≤ minExactDigits c o := by
  unfold minExactDigits
  cases o.minDigits <;> simp <;> omega

theorem sizeDigits_ge_min (o : WOpts) : o.minDigits.getD 0 ≤ sizeDigits 10 o := by
  unfold sizeDigits
  cases o.minDigits <;> cases o.maxDigits <;> simp <;> omega

theorem sizeDigits_ge_count (o : WOpts) (c : Nat) (hc : c ≤ 28) (hmx : ∀ m, o.maxDigits = some m → c ≤ m) :
    c ≤ sizeDigits 10 o := by
  unfold sizeDigits
  cases hm : o.maxDigits with
  | none => cases o.minDigits <;> simp <;> omega
  | some m =>
    have := hmx m hm
    cases o.minDigits <;> simp <;> omega

theorem formattedSizeDecimal_float (feats : Features) (f : Fmt) : formattedSizeDecimal feats (tyName f) = 64 := by
  unfold formattedSizeDecimal sizeRows tyName
  by_cases h1 : feats.powerOfTwo = true <;> by_cases h2 : feats.compact = true <;> by_cases h3 : f.p = 24 <;>
    simp [h1, h2, h3] <;> decide

theorem bufferSizeConst_ge (feats : Features) (f : Fmt) (fmt : Format) (o : WOpts) (h10 : fmt.mantissaRadix = 10) :
    2 + sizeExp feats fmt o + sizeDigits 10 o ≤ bufferSizeConstOld feats f fmt o ∧ 64 ≤ bufferSizeConstOld feats f fmt o := by
  unfold bufferSizeConstOld
  simp only [h10, if_true, formattedSizeDecimal_float]
  omega

theorem sizeExp_facts (feats : Features) (fmt : Format) (o : WOpts) (hno : NumOpts o) :
    5 ≤ sizeExp feats fmt o ∧
    (¬ (effFmt feats fmt).noExponentNotation = true →
      (o.negBreak.getD (-5)).natAbs ≤ sizeExp feats fmt o ∧ (o.posBreak.getD 9).toNat ≤ sizeExp feats fmt o) ∧
    ((effFmt feats fmt).noExponentNotation = true → 324 ≤ sizeExp feats fmt o) := by
  obtain ⟨⟨hnb1, hnb2⟩, ⟨hpb1, hpb2⟩⟩ := And.intro hno.nb hno.pb
  unfold sizeExp
  by_cases hne : (effFmt feats fmt).noExponentNotation = true
  · have hnn : ¬ ¬ (effFmt feats fmt).noExponentNotation = true := fun h => h hne
    simp only [if_neg hnn]
    refine ⟨by split <;> omega, fun h => absurd hne h, by intro _; split <;> omega⟩
  · simp only [if_pos hne]
    generalize o.negBreak.getD (-5) = nb at hnb1 hnb2 ⊢
    generalize o.posBreak.getD 9 = pb at hpb1 hpb2 ⊢
    have habs : absI32 nb = -nb := by
      unfold absI32
      rw [if_neg (by omega)]
      split <;> omega
    have hmax : 0 ≤ max (absI32 nb) pb ∧ max (absI32 nb) pb < 2 ^ 31 := by rw [habs]; omega
    have hus : asUsize (max (absI32 nb) pb) = (max (absI32 nb) pb).toNat := by
      unfold asUsize
      rw [Int.emod_eq_of_lt hmax.1 (by omega)]
    rw [hus, habs]
    have h1 : nb.natAbs ≤ (max (-nb) pb).toNat := by omega
    have h2 : pb.toNat ≤ (max (-nb) pb).toNat := by omega
    generalize (max (-nb) pb).toNat = ex at h1 h2 ⊢
    refine ⟨?_, fun _ => ⟨?_, ?_⟩, fun h => absurd h hne⟩
    all_goals (repeat' split)
    all_goals omega

theorem mantNeed_le (f : Fmt) : mantNeed f ≤ 20 := by unfold mantNeed; split <;> omega

theorem need_le_general (feats : Features) (f : Fmt) (fmt : Format) (o : WOpts) (ds : List Nat) (sci : Int) (S D E B : Nat)
    (her : (effFmt feats fmt).exponentRadix = 10) (hmx : o.maxDigits ≠ some 0)
    (hds1 : 1 ≤ ds.length) (hdsn : ds.length ≤ mantNeed f) (hrange : -324 ≤ sci ∧ sci ≤ 308) (hS : S ≤ 1)
    (hB : 2 + E + D ≤ B) (hB64 : 64 ≤ B) (hE5 : 5 ≤ E)
    (hEbr : ¬ (effFmt feats fmt).noExponentNotation = true →
      (o.negBreak.getD (-5)).natAbs ≤ E ∧ (o.posBreak.getD 9).toNat ≤ E)
    (hEno : (effFmt feats fmt).noExponentNotation = true → 324 ≤ E)
    (hcD : (truncateAndRound ds o).1.length ≤ D) (hmnD : o.minDigits.getD 0 ≤ D)
    (hsafe : if feats.compact = true then
        2 ≤ D ∨ (if (effFmt feats fmt).noExponentNotation = true then 309 else (o.posBreak.getD 9).toNat) + 4 ≤ 64
      else (mantNeed f ≤ D ∨
          (if (effFmt feats fmt).noExponentNotation = true then 324 else (o.negBreak.getD (-5)).natAbs) + 2 + mantNeed f ≤ 64) ∧
        (o.minDigits.getD 0 ≤ 50 ∨ 12 ≤ E) ∧
        (3 ≤ D ∨ (if (effFmt feats fmt).noExponentNotation = true then 309 else (o.posBreak.getD 9).toNat) + 5 ≤ 64)) :
    S + needDec fmt feats f ds sci o ≤ B := by
  obtain ⟨hc1, hc2, hc3, hc4⟩ := truncateAndRound_length ds o hds1 hmx
  have hnd := mantNeed_le f
  have hexD : minExactDigits (truncateAndRound ds o).1.length o ≤ D := by
    have := (minExact_le (truncateAndRound ds o).1.length o).1; omega
  have hK : ∀ c, c ≤ (truncateAndRound ds o).1.length → c ≤ D ∧ minExactDigits c o ≤ D ∧ c ≤ ds.length := by
    intro c hc
    have := (minExact_le c o).1
    omega
  unfold needDec
  by_cases hcomp : feats.compact = true
  · rw [if_pos hcomp]
    rw [if_pos hcomp] at hsafe
    unfold needDecC
    dsimp only
    have hcar : (if (truncateAndRound ds o).2 = true then (1 : Int) else 0) ≤ 1 ∧
        0 ≤ (if (truncateAndRound ds o).2 = true then (1 : Int) else 0) := by split <;> omega
    generalize hsci' : sci + (if (truncateAndRound ds o).2 = true then 1 else 0) = sci' at hcar ⊢
    have hr' : -324 ≤ sci' ∧ sci' ≤ 309 := by omega
    by_cases c2 : ¬ (effFmt feats fmt).noExponentNotation = true ∧ ((effFmt feats fmt).requiredExponentNotation = true ∨
        sci' < o.negBreak.getD (-5) ∨ sci' > o.posBreak.getD 9)
    · rw [if_pos c2, her]
      obtain ⟨k1, k2⟩ := trimSci_length o _ hc1
      obtain ⟨kD, kE, _⟩ := hK _ k2
      exact sciC_arith _ feats S _ _ _ E D B o hcomp hS (expSign_length_le _ _ _)
        (numeral10_length_le _ (by omega)) k1 kD kE hE5 hB hB64
    · rw [if_neg c2]
      by_cases c3 : sci' < 0
      · rw [if_pos c3]
        refine negC_arith S _ _ _ E D B hS ?_ hcD hexD hB
        by_cases hne : (effFmt feats fmt).noExponentNotation = true
        · have := hEno hne; omega
        · have := (hEbr hne).1
          have : o.negBreak.getD (-5) ≤ sci' := by
            by_cases hh : sci' < o.negBreak.getD (-5)
            · exact absurd ⟨hne, Or.inr (Or.inl hh)⟩ c2
            · omega
          omega
      · rw [if_neg c3]
        have hex1 := (minExact_le (sci'.toNat + 1 + 1) o).1
        obtain ⟨k1, k2⟩ := trimPos_length o (sci'.toNat + 1) _ hc1 (by omega)
        obtain ⟨kD, kE, _⟩ := hK _ k2
        by_cases hne : (effFmt feats fmt).noExponentNotation = true
        · rw [if_pos hne] at hsafe
          exact posC_arith S _ _ _ _ E D B 309 o.trim hS (by omega) (by have := hEno hne; omega) kD kE (by omega) hB hB64
            hsafe
        · rw [if_neg hne] at hsafe
          have : sci' ≤ o.posBreak.getD 9 := by
            by_cases hh : sci' > o.posBreak.getD 9
            · exact absurd ⟨hne, Or.inr (Or.inr hh)⟩ c2
            · omega
          exact posC_arith S _ _ _ _ E D B (o.posBreak.getD 9).toNat o.trim hS (by omega) (hEbr hne).2 kD kE (by omega)
            hB hB64 hsafe
  · rw [if_neg hcomp]
    rw [if_neg hcomp] at hsafe
    obtain ⟨hs1, hs2, hs3⟩ := hsafe
    unfold needDecN
    dsimp only
    by_cases c2 : ¬ (effFmt feats fmt).noExponentNotation = true ∧ ((effFmt feats fmt).requiredExponentNotation = true ∨
        sci < o.negBreak.getD (-5) ∨ sci > o.posBreak.getD 9)
    · rw [if_pos c2, her]
      have hcar : (if (truncateAndRound ds o).2 = true then (1 : Int) else 0) ≤ 1 ∧
          0 ≤ (if (truncateAndRound ds o).2 = true then (1 : Int) else 0) := by split <;> omega
      obtain ⟨k1, _, _, _, k2⟩ := roundSci_length ds o hds1 hmx
      obtain ⟨kD, kE, _⟩ := hK _ k2
      exact sciN_arith _ feats S _ _ _ _ _ E D B o hS (expSign_length_le _ _ _)
        (numeral10_length_le _ (by omega)) hdsn hnd k1 kD (by omega) kE (minExact_le _ o).1 hE5 hB hB64 hs2
    · rw [if_neg c2]
      by_cases c3 : sci < 0
      · rw [if_pos c3]
        refine negN_arith S _ _ _ _ _ E D B _ o.trim hS (by omega) ?_ hdsn hc1 hcD hc2 hexD ?_ hB hB64 ?_
        · by_cases hne : (effFmt feats fmt).noExponentNotation = true
          · have := hEno hne; omega
          · have := (hEbr hne).1
            have : o.negBreak.getD (-5) ≤ sci := by
              by_cases hh : sci < o.negBreak.getD (-5)
              · exact absurd ⟨hne, Or.inr (Or.inl hh)⟩ c2
              · omega
            omega
        · intro hc; rw [hc4 hc]; rfl
        · by_cases hne : (effFmt feats fmt).noExponentNotation = true
          · rw [if_pos hne] at hs1; omega
          · rw [if_neg hne] at hs1
            have : o.negBreak.getD (-5) ≤ sci := by
              by_cases hh : sci < o.negBreak.getD (-5)
              · exact absurd ⟨hne, Or.inr (Or.inl hh)⟩ c2
              · omega
            omega
      · rw [if_neg c3]
        have hcarN : (if (truncateAndRound ds o).2 = true then 1 else 0) ≤ 1 := by split <;> omega
        generalize (if (truncateAndRound ds o).2 = true then 1 else 0) = cy at hcarN ⊢
        have hex1 := (minExact_le (sci.toNat + 1 + cy + 1) o).1
        obtain ⟨k1, _, _, _, k2⟩ := roundPos_length ds sci o hds1 hmx
        obtain ⟨kD, kE, kn⟩ := hK _ k2
        by_cases hne : (effFmt feats fmt).noExponentNotation = true
        · rw [if_pos hne] at hs3
          exact posN_arith S _ _ _ _ _ _ E D B 309 o.trim hS (by omega) (by have := hEno hne; omega) hdsn hnd kD kn kE
            (by omega) hB hB64 hs3
        · rw [if_neg hne] at hs3
          have : sci ≤ o.posBreak.getD 9 := by
            by_cases hh : sci > o.posBreak.getD 9
            · exact absurd ⟨hne, Or.inr (Or.inr hh)⟩ c2
            · omega
          exact posN_arith S _ _ _ _ _ _ E D B (o.posBreak.getD 9).toNat o.trim hS (by omega) (hEbr hne).2 hdsn hnd kD kn
            kE (by omega) hB hB64 hs3



/-- **the arithmetic heart of C09**: outside the excluded option regions the sign byte plus the slice need of the
decimal back-end is at most the (pre-repair) `buffer_size_const`, for every digit list the digit generator can produce and
every scientific exponent of a finite float. -/
theorem need_le_bound (feats : Features) (f : Fmt) (fmt : Format) (o : WOpts) (ds : List Nat) (sci : Int) (S : Nat)
    (h10 : fmt.mantissaRadix = 10) (her : (effFmt feats fmt).exponentRadix = 10) (hno : NumOpts o)
    (hds1 : 1 ≤ ds.length) (hdsn : ds.length ≤ mantNeed f) (hrange : -324 ≤ sci ∧ sci ≤ 308) (hS : S ≤ 1)
    (hsafe : SafeOpts feats f fmt o) :
    S + needDec fmt feats f ds sci o ≤ bufferSizeConstOld feats f fmt o := by
  obtain ⟨hB, hB64⟩ := bufferSizeConst_ge feats f fmt o h10
  obtain ⟨hE5, hEbr, hEno⟩ := sizeExp_facts feats fmt o hno
  obtain ⟨hc1, hc2, hc3, hc4⟩ := truncateAndRound_length ds o hds1 hno.mx
  have hnd := mantNeed_le f
  have hcD : (truncateAndRound ds o).1.length ≤ sizeDigits 10 o :=
    sizeDigits_ge_count o _ (by omega) hc3
  unfold SafeOpts at hsafe
  rw [h10] at hsafe
  dsimp only at hsafe
  exact need_le_general feats f fmt o ds sci S _ _ _ her hno.mx hds1 hdsn hrange hS hB hB64 hE5 hEbr hEno hcD
    (sizeDigits_ge_min o) hsafe

end LexVerif.Proof.WriteFloatBound
