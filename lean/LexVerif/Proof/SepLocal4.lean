import LexVerif.Proof.SepLocal3
/-!
# Proof.SepLocal4 — `strip_preserves` for every separator format of class `GenStrip` whose integer and fraction
component are not I+T+C
-/
set_option linter.unusedSimpArgs false
namespace LexVerif.Proof.Sep
open LexVerif LexVerif.Model LexVerif.Spec
open LexVerif.Props.C12

theorem contig_of_noskip (c : Cfg) (k : Comp) (h : c.skip k = .noskip) : c.iterContiguous k = true := by
  cases hc : c.iterContiguous k
  · exfalso
    cases k with
    | special =>
      simp only [Cfg.iterContiguous, Bool.not_eq_false'] at hc
      simp [Cfg.skip, hc] at h
    | integer =>
      simp only [Cfg.iterContiguous, Bool.not_eq_false'] at hc
      generalize hx : c.sepFlags .integer = x at *
      obtain ⟨i, l, t, cc⟩ := x
      simp only [Cfg.skip, hx] at h
      cases i <;> cases l <;> cases t <;> cases cc <;> simp_all [SepFlags.skip, SepFlags.any]
    | fraction =>
      simp only [Cfg.iterContiguous, Bool.not_eq_false'] at hc
      generalize hx : c.sepFlags .fraction = x at *
      obtain ⟨i, l, t, cc⟩ := x
      simp only [Cfg.skip, hx] at h
      cases i <;> cases l <;> cases t <;> cases cc <;> simp_all [SepFlags.skip, SepFlags.any]
    | exponent =>
      simp only [Cfg.iterContiguous, Bool.not_eq_false'] at hc
      generalize hx : c.sepFlags .exponent = x at *
      obtain ⟨i, l, t, cc⟩ := x
      simp only [Cfg.skip, hx] at h
      cases i <;> cases l <;> cases t <;> cases cc <;> simp_all [SepFlags.skip, SepFlags.any]
  · rfl

theorem sep_lt_256 (c : Cfg) (x : Nat) (h : c.isSep x = true) : x < 256 := by
  simp only [Cfg.isSep, Bool.and_eq_true, decide_eq_true_eq] at h
  rw [h.2]
  unfold Cfg.digitSeparator
  split
  · unfold Format.digitSeparator Format.byteAt
    exact Nat.mod_lt _ (by decide)
  · decide

theorem GenStrip.sepNotDigit {c : Cfg} {o : POpts} (hG : GenStrip c o) (x : Nat) (h : c.isSep x = true) :
    c.isDigit x = false :=
  isDigit_of_stop c x (sep_lt_256 c x h) hG.radixM (hG.sepDigM x h)

theorem rescan_of_not_itc (c : Cfg) (o : POpts) (hG : GenStrip c o) (k : Comp) (hks : k ≠ .special)
    (h : c.skip k ≠ .pred .itc ∨ Fix.itc = true) : Rescan c k := by
  cases hk : c.skip k with
  | noskip => exact rescan_contig c k (contig_of_noskip c k hk)
  | unreachable => exact absurd hk (hG.rel.reach k)
  | pred p =>
    exact rescan_pred c k p hk (h.imp (fun h1 e => by subst e; exact h1 hk) id) hG.rel.debug hG.rel.reach hG.format hks
      hG.sepDigM

theorem peekStable_any (c : Cfg) (o : POpts) (hG : GenStrip c o) (k : Comp) : PeekStable c k := by
  cases hk : c.skip k with
  | noskip => exact peekStable_contig c k (contig_of_noskip c k hk)
  | unreachable => exact absurd hk (hG.rel.reach k)
  | pred p => exact peekStable_pred c k p hk hG.sepNotDigit

/-- **strip_preserves for every flag combination except I+T+C on the integer / fraction component** -/
theorem parseFloatSyntax_strip_all (c : Cfg) (o : POpts) (hG : GenStrip c o)
    (hI : c.skip .integer ≠ .pred .itc ∨ Fix.itc = true) (hF : c.skip .fraction ≠ .pred .itc ∨ Fix.itc = true)
    (s : List Nat)
    (hb256 : ∀ x ∈ s, x < 256) (fv : Bool) (n : Number) (cnt : Nat)
    (h : parseFloatSyntax c o false s fv = .ok (.number n cnt)) :
    ∃ n', parseFloatSyntax c o false (nonSep c s) fv = .ok (.number n' (nonSep c s).length) ∧ NumRel c n n' ∧
      SlicesOK c n :=
  parseFloatSyntax_strip_gen c o hG (rescan_of_not_itc c o hG .integer (by decide) hI)
    (rescan_of_not_itc c o hG .fraction (by decide) hF) (peekStable_any c o hG .integer) s hb256 fv n cnt h

end LexVerif.Proof.Sep
