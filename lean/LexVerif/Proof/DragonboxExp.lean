import LexVerif.Proof.Tables.DragonboxExp32
import LexVerif.Proof.Tables.DragonboxExp64_00
import LexVerif.Proof.Tables.DragonboxExp64_01
import LexVerif.Proof.Tables.DragonboxExp64_02
import LexVerif.Proof.Tables.DragonboxExp64_03
import LexVerif.Proof.Tables.DragonboxExp64_04
import LexVerif.Proof.Tables.DragonboxExp64_05
import LexVerif.Proof.Tables.DragonboxExp64_06
import LexVerif.Proof.Tables.DragonboxExp64_07
import LexVerif.Proof.Tables.DragonboxExp64_08
import LexVerif.Proof.Tables.DragonboxExp64_09
import LexVerif.Proof.Tables.DragonboxExp64_10
import LexVerif.Proof.Tables.DragonboxExp64_11
import LexVerif.Proof.Tables.DragonboxExp64_12
import LexVerif.Proof.Tables.DragonboxExp64_13
import LexVerif.Proof.Tables.DragonboxExp64_14
import LexVerif.Proof.Tables.DragonboxExp64_15
/-!
# Proof.DragonboxExp — the per-exponent certificate holds for every binary exponent of a finite float
(collects the kernel-evaluated chunks of `Proof/Tables/DragonboxExp*.lean`)
-/
namespace LexVerif.Proof.DragonboxExp
open LexVerif.Model.Dragonbox

theorem expOk_f32 (e : Int) (h1 : -149 ≤ e) (h2 : e ≤ 104) : expOk .f32 e = true :=
  List.all_eq_true.mp exp32_all e (mem_expList (by omega) (by omega))

theorem expOk_f64 (e : Int) (h1 : -1074 ≤ e) (h2 : e ≤ 971) : expOk .f64 e = true := by
    by_cases c00_0 : e < -1010
    · exact List.all_eq_true.mp exp64_00_0 e (mem_expList (by omega) (by omega))
    by_cases c00_1 : e < -946
    · exact List.all_eq_true.mp exp64_00_1 e (mem_expList (by omega) (by omega))
    by_cases c01_0 : e < -882
    · exact List.all_eq_true.mp exp64_01_0 e (mem_expList (by omega) (by omega))
    by_cases c01_1 : e < -818
    · exact List.all_eq_true.mp exp64_01_1 e (mem_expList (by omega) (by omega))
    by_cases c02_0 : e < -754
    · exact List.all_eq_true.mp exp64_02_0 e (mem_expList (by omega) (by omega))
    by_cases c02_1 : e < -690
    · exact List.all_eq_true.mp exp64_02_1 e (mem_expList (by omega) (by omega))
    by_cases c03_0 : e < -626
    · exact List.all_eq_true.mp exp64_03_0 e (mem_expList (by omega) (by omega))
    by_cases c03_1 : e < -562
    · exact List.all_eq_true.mp exp64_03_1 e (mem_expList (by omega) (by omega))
    by_cases c04_0 : e < -498
    · exact List.all_eq_true.mp exp64_04_0 e (mem_expList (by omega) (by omega))
    by_cases c04_1 : e < -434
    · exact List.all_eq_true.mp exp64_04_1 e (mem_expList (by omega) (by omega))
    by_cases c05_0 : e < -370
    · exact List.all_eq_true.mp exp64_05_0 e (mem_expList (by omega) (by omega))
    by_cases c05_1 : e < -306
    · exact List.all_eq_true.mp exp64_05_1 e (mem_expList (by omega) (by omega))
    by_cases c06_0 : e < -242
    · exact List.all_eq_true.mp exp64_06_0 e (mem_expList (by omega) (by omega))
    by_cases c06_1 : e < -178
    · exact List.all_eq_true.mp exp64_06_1 e (mem_expList (by omega) (by omega))
    by_cases c07_0 : e < -114
    · exact List.all_eq_true.mp exp64_07_0 e (mem_expList (by omega) (by omega))
    by_cases c07_1 : e < -50
    · exact List.all_eq_true.mp exp64_07_1 e (mem_expList (by omega) (by omega))
    by_cases c08_0 : e < 14
    · exact List.all_eq_true.mp exp64_08_0 e (mem_expList (by omega) (by omega))
    by_cases c08_1 : e < 78
    · exact List.all_eq_true.mp exp64_08_1 e (mem_expList (by omega) (by omega))
    by_cases c09_0 : e < 142
    · exact List.all_eq_true.mp exp64_09_0 e (mem_expList (by omega) (by omega))
    by_cases c09_1 : e < 206
    · exact List.all_eq_true.mp exp64_09_1 e (mem_expList (by omega) (by omega))
    by_cases c10_0 : e < 270
    · exact List.all_eq_true.mp exp64_10_0 e (mem_expList (by omega) (by omega))
    by_cases c10_1 : e < 334
    · exact List.all_eq_true.mp exp64_10_1 e (mem_expList (by omega) (by omega))
    by_cases c11_0 : e < 398
    · exact List.all_eq_true.mp exp64_11_0 e (mem_expList (by omega) (by omega))
    by_cases c11_1 : e < 462
    · exact List.all_eq_true.mp exp64_11_1 e (mem_expList (by omega) (by omega))
    by_cases c12_0 : e < 526
    · exact List.all_eq_true.mp exp64_12_0 e (mem_expList (by omega) (by omega))
    by_cases c12_1 : e < 590
    · exact List.all_eq_true.mp exp64_12_1 e (mem_expList (by omega) (by omega))
    by_cases c13_0 : e < 654
    · exact List.all_eq_true.mp exp64_13_0 e (mem_expList (by omega) (by omega))
    by_cases c13_1 : e < 718
    · exact List.all_eq_true.mp exp64_13_1 e (mem_expList (by omega) (by omega))
    by_cases c14_0 : e < 782
    · exact List.all_eq_true.mp exp64_14_0 e (mem_expList (by omega) (by omega))
    by_cases c14_1 : e < 846
    · exact List.all_eq_true.mp exp64_14_1 e (mem_expList (by omega) (by omega))
    by_cases c15_0 : e < 910
    · exact List.all_eq_true.mp exp64_15_0 e (mem_expList (by omega) (by omega))
    exact List.all_eq_true.mp exp64_15_1 e (mem_expList (by omega) (by omega))

end LexVerif.Proof.DragonboxExp
