import LexVerif.Proof.WriteRadixTerm
/-!
# Proof.WriteRadixTermInt — the integer loops of radix.rs terminate within the scratch buffer (Mathlib-free)

Measure: the exponent field `x / 2^(p-1)` of the running `integer`. Dividing by `base ≥ 2` and rounding never gives
more than half (`fdiv_le_half`: halving is exact and rounding is monotone), i.e. the field drops by at least one per
iteration of either loop; the zero-padding loop runs only while the quotient is `≥ 2^p`, the digit loop ends one
iteration after `integer < base`. So both loops together write at most `bias + 2` (1025 / 129) bytes `< 1100`:
`genInteger_total` — no PANIC, for every pattern up to `+∞`; `generate_total` — digit generation never PANICs.
-/
namespace LexVerif.Proof.WriteRadixTermInt
open LexVerif.Spec LexVerif.Model LexVerif.Proof.RoundNE LexVerif.Proof.WriteRadixF LexVerif.Proof.WriteRadixTerm
open LexVerif.Model.WriteRadix
open LexVerif.Model.WriteInt (Res)

/-- halving a pattern with exponent field `≥ 2` is subtracting `2^(p-1)` -/
theorem ival_half (f : Fmt) {x : Nat} (hx : 2 * 2 ^ (f.p - 1) ≤ x) :
    2 * RoundNE.ival f (x - 2 ^ (f.p - 1)) = RoundNE.ival f x := by
  obtain ⟨k, q, rfl, h1, h2⟩ := decomp f x
  have hk : 0 < k := by
    apply Nat.pos_of_ne_zero; intro h0; subst h0; omega
  obtain ⟨j, rfl⟩ : ∃ j, k = j + 1 := ⟨k - 1, by omega⟩
  have e : (j + 1) * 2 ^ (f.p - 1) + q - 2 ^ (f.p - 1) = j * 2 ^ (f.p - 1) + q := by
    rw [Nat.succ_mul]; omega
  rw [e, ival_kq f j q (fun _ => h1 (by omega)) (by omega), ival_kq f (j + 1) q h1 (by omega), Nat.pow_succ]
  ac_rfl

/-- a quotient by `b ≥ 2` is at most half the (larger) dividend, after rounding -/
theorem fdiv_le_half {f : Fmt} (hf : WF f) {x y b : Nat} (hx : 2 * 2 ^ (f.p - 1) ≤ x) (hxi : x ≤ f.infBits)
    (hy : y ≤ x) (hb : 2 * unit f ≤ RoundNE.ival f b) : fdiv f y b ≤ x - 2 ^ (f.p - 1) := by
  have hT := Nat.two_pow_pos (f.p - 1)
  have hh := ival_half f hx
  have e : roundNE f (RoundNE.ival f x) (2 * unit f) = x - 2 ^ (f.p - 1) := by
    apply roundNE_of_ival hf (by omega) (by have := unit_pos f; omega)
    rw [← hh, unit_eq]; ac_rfl
  rw [← e]
  unfold fdiv
  simp only [ival_eq]
  apply roundNE_mono' hf (by have := unit_pos f; omega) (by have := unit_pos f; omega)
  exact Nat.mul_le_mul (ival_mono f hy) hb

theorem sub_T_div (T x : Nat) (hT : 0 < T) (hx : T ≤ x) : (x - T) / T + 1 = x / T := by
  have := Nat.add_div_right (x - T) hT
  rw [Nat.sub_add_cancel hx] at this
  omega

/-- the pattern of `2.0` -/
theorem ofNat_two {f : Fmt} (h : FOK f) : ofNat f 2 = (f.bias + 1) * 2 ^ (f.p - 1) := by
  have hp := h.wf.hp
  have hb := bias_pos h.wf
  have hT2 : 2 ≤ 2 ^ (f.p - 1) := by
    calc 2 = 2 ^ 1 := rfl
      _ ≤ 2 ^ (f.p - 1) := Nat.pow_le_pow_right (by decide) (by omega)
  obtain ⟨hv, _⟩ := ofNat_ival h (n := 2) (by omega)
  apply ival_inj f
  have e : (f.bias + 1) * 2 ^ (f.p - 1) = f.bias * 2 ^ (f.p - 1) + 2 ^ (f.p - 1) := Nat.succ_mul _ _
  rw [hv, e, ival_kq f f.bias _ (fun _ => Nat.le_refl _) (by omega), unit_eq]
  have : L f + 1 = (f.p - 1) + f.bias := by unfold L; omega
  rw [show 2 * 2 ^ L f = 2 ^ (L f + 1) by rw [Nat.pow_succ]; ac_rfl, this, Nat.pow_add]

theorem ofNat_mono {f : Fmt} (hf : WF f) {m n : Nat} (h : m ≤ n) : ofNat f m ≤ ofNat f n := by
  unfold ofNat
  exact roundNE_mono' hf Nat.one_pos Nat.one_pos (by omega)

theorem base_ge {f : Fmt} (h : FOK f) {r : Nat} (hr : 2 ≤ r) (hrp : r < 2 * 2 ^ (f.p - 1)) :
    (f.bias + 1) * 2 ^ (f.p - 1) ≤ ofNat f r ∧ 2 * unit f ≤ RoundNE.ival f (ofNat f r) := by
  refine ⟨by rw [← ofNat_two h]; exact ofNat_mono h.wf hr, ?_⟩
  rw [(ofNat_ival h hrp).1]; exact Nat.mul_le_mul_right _ hr

/-- `exponent() > 0` only for patterns at or above that of `2^p` -/
theorem le_of_exponent_pos {f : Fmt} (h : FOK f) {y : Nat} (hy : 0 < exponent f y) :
    (f.bias + f.p) * 2 ^ (f.p - 1) ≤ y := by
  apply Nat.le_of_not_lt; intro hlt
  have hfin : y < f.infBits := by
    apply Nat.lt_of_lt_of_le hlt
    rw [infBits_eq, M_eq h.wf]
    apply Nat.mul_le_mul_right
    have := h.hb; omega
  have := exponent_le_zero h hlt hfin
  omega

theorem fdiv_le_self {f : Fmt} (hf : WF f) {x b : Nat} (_hxi : x ≤ f.infBits) (hb : unit f ≤ RoundNE.ival f b) :
    fdiv f x b ≤ x := by
  have hu := unit_pos f
  have hle : fdiv f x b ≤ roundNE f (RoundNE.ival f x) (unit f) := by
    unfold fdiv
    simp only [ival_eq]
    exact roundNE_mono' hf (by omega) hu (Nat.mul_le_mul_left _ hb)
  rcases Nat.lt_or_ge x f.infBits with hlt | hge
  · rwa [roundNE_of_ival hf hlt hu (by rw [unit_eq])] at hle
  · exact Nat.le_trans hle (Nat.le_trans (roundNE_le_infBits hf _ hu) hge)

theorem fsub_le_self {f : Fmt} (hf : WF f) {x b : Nat} (_hxi : x ≤ f.infBits) : fsub f x b ≤ x := by
  have hu := unit_pos f
  have hle : fsub f x b ≤ roundNE f (RoundNE.ival f x) (unit f) := by
    unfold fsub
    simp only [ival_eq]
    exact roundNE_mono' hf hu hu (Nat.mul_le_mul_right _ (Nat.sub_le _ _))
  rcases Nat.lt_or_ge x f.infBits with hlt | hge
  · rwa [roundNE_of_ival hf hlt hu (by rw [unit_eq])] at hle
  · exact Nat.le_trans hle (Nat.le_trans (roundNE_le_infBits hf _ hu) hge)

section
variable {f : Fmt} (h : FOK f) {r : Nat} (hr : 2 ≤ r) (hrp : r < 2 * 2 ^ (f.p - 1))
include h hr hrp

/-- the zero-padding loop: terminates, and leaves the invariant for the digit loop -/
theorem padLoop_total : ∀ (fuel x : Nat) (acc : List Nat), x ≤ f.infBits → 1 ≤ fuel →
    x / 2 ^ (f.p - 1) + 1 ≤ fuel + f.bias →
    ∃ y, padLoop f (ofNat f r) fuel x acc = .ok y ∧ y.1 ≤ f.infBits ∧ 1 ≤ y.2.2 ∧
      y.1 / 2 ^ (f.p - 1) + 1 ≤ y.2.2 + f.bias ∧
      y.2.1.length + y.1 / 2 ^ (f.p - 1) ≤ acc.length + x / 2 ^ (f.p - 1) ∧
      y.2.1.length ≤ acc.length + (x / 2 ^ (f.p - 1) - (f.bias + f.p))
  | 0, _, _, _, h1, _ => by omega
  | fuel + 1, x, acc, hxi, _, hm => by
    have hT := Nat.two_pow_pos (f.p - 1)
    obtain ⟨_, hb2⟩ := base_ge h hr hrp
    unfold padLoop
    split
    · rename_i hpos
      have hge := le_of_exponent_pos h hpos
      have hself := fdiv_le_self h.wf (b := ofNat f r) hxi (by omega)
      have hp := h.wf.hp
      have hx2 : 2 * 2 ^ (f.p - 1) ≤ x := by
        have : 2 * 2 ^ (f.p - 1) ≤ (f.bias + f.p) * 2 ^ (f.p - 1) := Nat.mul_le_mul_right _ (by omega)
        omega
      have hhalf := fdiv_le_half h.wf hx2 hxi (Nat.le_refl x) hb2
      have hd1 := sub_T_div _ x hT (by omega)
      have hd2 : fdiv f x (ofNat f r) / 2 ^ (f.p - 1) ≤ (x - 2 ^ (f.p - 1)) / 2 ^ (f.p - 1) :=
        Nat.div_le_div_right hhalf
      have hd3 : f.bias + f.p ≤ fdiv f x (ofNat f r) / 2 ^ (f.p - 1) := by
        rw [Nat.le_div_iff_mul_le hT]; exact hge
      obtain ⟨y, hy, a1, a2, a3, a4, a5⟩ := padLoop_total fuel (fdiv f x (ofNat f r)) (48 :: acc)
        (Nat.le_trans hself hxi) (by omega) (by omega)
      refine ⟨y, hy, a1, a2, a3, ?_, ?_⟩
      · simp only [List.length_cons] at a4; omega
      · simp only [List.length_cons] at a5; omega
    · exact ⟨_, rfl, hxi, by simp, hm, Nat.le_refl _, by simp⟩

/-- the digit loop terminates -/
theorem digitLoop_total : ∀ (fuel x : Nat) (acc : List Nat), x ≤ f.infBits → 1 ≤ fuel →
    x / 2 ^ (f.p - 1) + 1 ≤ fuel + f.bias → ∃ out, digitLoop f r (ofNat f r) fuel x acc = .ok out ∧
      out.length ≤ acc.length + 1 + (x / 2 ^ (f.p - 1) - f.bias)
  | 0, _, _, _, h1, _ => by omega
  | fuel + 1, x, acc, hxi, _, hm => by
    have hT := Nat.two_pow_pos (f.p - 1)
    obtain ⟨hb1, hb2⟩ := base_ge h hr hrp
    obtain ⟨hrv, hrf⟩ := ofNat_ival h hrp
    have hb0 : RoundNE.ival f (ofNat f r) ≠ 0 := by have := unit_pos f; omega
    unfold digitLoop
    dsimp only
    split
    · exact ⟨_, rfl, by simp only [List.length_cons]; omega⟩
    · rename_i hne
      by_cases hlt : x < ofNat f r
      · exfalso; apply hne
        have hrem : fmod f x (ofNat f r) = x := by
          apply ival_inj f
          rw [(fmod_exact h.wf x hrf hb0).1]
          exact Nat.mod_eq_of_lt (ival_strictMono f hlt)
        rw [hrem, WriteRadixInteger.fsub_self]
        unfold fdiv
        simp only [ival_eq, ival_zero]
        exact roundNE_zero f _
      · have hge : ofNat f r ≤ x := Nat.le_of_not_lt hlt
        have hbias := bias_pos h.wf
        have hx2 : 2 * 2 ^ (f.p - 1) ≤ x := by
          have : 2 * 2 ^ (f.p - 1) ≤ (f.bias + 1) * 2 ^ (f.p - 1) := Nat.mul_le_mul_right _ (by omega)
          omega
        have hhalf := fdiv_le_half h.wf hx2 hxi (fsub_le_self h.wf (b := fmod f x (ofNat f r)) hxi) hb2
        have hd1 := sub_T_div _ x hT (by omega)
        have hd2 := Nat.div_le_div_right (c := 2 ^ (f.p - 1)) hhalf
        have hd3 : f.bias + 1 ≤ x / 2 ^ (f.p - 1) := by
          rw [Nat.le_div_iff_mul_le hT]; omega
        obtain ⟨out, ho, hl⟩ := digitLoop_total fuel (fdiv f (fsub f x (fmod f x (ofNat f r))) (ofNat f r))
          (digitToCharConst (asU32 f (fmod f x (ofNat f r))) r :: acc) (by omega) (by omega) (by omega)
        refine ⟨out, ho, ?_⟩
        simp only [List.length_cons] at hl
        omega

/-- **fuel adequacy of the integer loops**: no PANIC for any pattern up to `+∞` -/
theorem genInteger_total (hB : f.bias + 2 ≤ halfSize) {x : Nat} (hxi : x ≤ f.infBits) :
    ∃ ints, genInteger f r x = .ok ints ∧ ints.length ≤ f.bias + 2 := by
  have hT := Nat.two_pow_pos (f.p - 1)
  have hdiv : x / 2 ^ (f.p - 1) ≤ f.maxExpField := by
    rw [Nat.div_le_iff_le_mul_add_pred hT, Nat.mul_comm, ← infBits_eq]; omega
  have hM := M_eq h.wf
  obtain ⟨y, hy, h1, h2, h3, h4, h5⟩ := padLoop_total h hr hrp halfSize x [] hxi (by decide) (by omega)
  obtain ⟨out, ho, hl⟩ := digitLoop_total h hr hrp y.2.2 y.1 y.2.1 h1 h2 h3
  refine ⟨out, by unfold genInteger; simp only [hy, Res.bind, ho], ?_⟩
  simp only [List.length_nil] at h4 h5
  have hp := h.wf.hp
  omega

/-- **digit generation never PANICs**: both loops stay inside the 2200-byte scratch buffer, for every finite pattern -/
theorem generate_total (cf : Bool) (hL : L f ≤ halfSize) (hB : f.bias + 2 ≤ halfSize) (hr36 : r ≤ 36) {bits : Nat}
    (hb : bits < f.infBits) : ∃ g, generate cf f r bits = .ok g ∧ g.ints.length ≤ f.bias + 2 := by
  obtain ⟨x, hx⟩ := genFraction_total cf h hL hr hr36 hrp hb
  have hi : (if x.2.2 = true then fadd f (ffloor f bits) (one f) else ffloor f bits) ≤ f.infBits := by
    split
    · exact roundNE_le_infBits h.wf _ (unit_pos f)
    · exact roundNE_le_infBits h.wf _ Nat.one_pos
  obtain ⟨ints, hints, hl⟩ := genInteger_total h hr hrp hB hi
  exact ⟨⟨ints, x.1, x.2.1⟩, by unfold generate; simp only [hx, Res.bind, hints], hl⟩

end

end LexVerif.Proof.WriteRadixTermInt
