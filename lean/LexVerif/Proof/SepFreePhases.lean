import LexVerif.Proof.SepFree8
/-!
# Proof.SepFreePhases — `parse_number` phase by phase on separator-free input:
a format of the class "separator byte set, integer and fraction components both carry separator flags"
against a format without separators whose other parameters agree.
-/
set_option linter.unusedSimpArgs false
namespace LexVerif.Proof.Sep
open LexVerif LexVerif.Model LexVerif.Spec
open LexVerif.Props.C12

/-- the class of separator formats for which `sep_free_same` holds -/
structure SepClass (c : Cfg) : Prop where
  debug : c.debug = false
  sep : c.digitSeparator ≠ 0
  int : c.iterContiguous .integer = false
  frac : c.iterContiguous .fraction = false
  reach : ∀ k, c.skip k ≠ .unreachable

/-- a format without separators (release build; multi-digit fast paths only for radix ≤ 10) -/
structure PlainClass (c : Cfg) : Prop where
  debug : c.debug = false
  sep : c.digitSeparator = 0
  contig : ∀ k, c.iterContiguous k = true
  radix : c.feats.powerOfTwo = false → c.mantissaRadix ≤ 10

theorem SepClass.format {c : Cfg} (h : SepClass c) : c.feats.format = true := by
  have := h.sep
  unfold Cfg.digitSeparator at this
  cases hf : c.feats.format
  · simp [hf] at this
  · rfl

theorem SepClass.bytes {c : Cfg} (h : SepClass c) : c.bytesContiguous = false := by
  simp [Cfg.bytesContiguous, h.sep]

theorem PlainClass.bytes {c : Cfg} (h : PlainClass c) : c.bytesContiguous = true := by
  simp [Cfg.bytesContiguous, h.sep]

theorem PlainClass.noSep {c : Cfg} (h : PlainClass c) (s : List Nat) : NoSep c s := noSep_of_sep_zero c h.sep s

theorem PlainClass.reach {c : Cfg} (h : PlainClass c) (k : Comp) : c.skip k ≠ .unreachable := by
  have hc := h.contig k
  cases k with
  | special =>
    simp only [Cfg.iterContiguous, Bool.not_eq_true'] at hc
    simp [Cfg.skip, hc]
  | integer =>
    simp only [Cfg.iterContiguous, Bool.not_eq_true', SepFlags.any, Bool.or_eq_false_iff] at hc
    obtain ⟨⟨⟨h1, h2⟩, h3⟩, h4⟩ := hc
    generalize hx : c.sepFlags .integer = x at *
    obtain ⟨i, l, t, cc⟩ := x
    simp only at h1 h2 h3 h4
    subst h1 h2 h3 h4
    simp [Cfg.skip, hx, SepFlags.skip]
  | fraction =>
    simp only [Cfg.iterContiguous, Bool.not_eq_true', SepFlags.any, Bool.or_eq_false_iff] at hc
    obtain ⟨⟨⟨h1, h2⟩, h3⟩, h4⟩ := hc
    generalize hx : c.sepFlags .fraction = x at *
    obtain ⟨i, l, t, cc⟩ := x
    simp only at h1 h2 h3 h4
    subst h1 h2 h3 h4
    simp [Cfg.skip, hx, SepFlags.skip]
  | exponent =>
    simp only [Cfg.iterContiguous, Bool.not_eq_true', SepFlags.any, Bool.or_eq_false_iff] at hc
    obtain ⟨⟨⟨h1, h2⟩, h3⟩, h4⟩ := hc
    generalize hx : c.sepFlags .exponent = x at *
    obtain ⟨i, l, t, cc⟩ := x
    simp only at h1 h2 h3 h4
    subst h1 h2 h3 h4
    simp [Cfg.skip, hx, SepFlags.skip]

/-- release build of a format whose separator flags are not "consecutive alone" (what `format.is_valid()` gives) and
whose multi-digit fast paths run for radix ≤ 10 only: **every** valid format, with or without digit separators, on any
component. Since /repo 7e8a135 + 12a2453 (`try_parse_8digits` counts the digits it steps over, a contiguous iterator
counts by cursor) the closed forms below hold for this whole class. -/
structure RelClass (c : Cfg) : Prop where
  debug : c.debug = false
  reach : ∀ k, c.skip k ≠ .unreachable
  radix : c.feats.powerOfTwo = false → c.mantissaRadix ≤ 10

theorem PlainClass.rel {c : Cfg} (h : PlainClass c) : RelClass c := ⟨h.debug, h.reach, h.radix⟩

/-- a digit separator byte exists only with the `format` feature -/
theorem format_of_bytes {c : Cfg} (h : c.bytesContiguous = false) : c.feats.format = true := by
  cases hf : c.feats.format
  · simp [Cfg.bytesContiguous, Cfg.digitSeparator, hf] at h
  · rfl

/-- `Bytes::current_count` after `n` digits of a digit component: `n` more, whatever the format -/
theorem currentCount_adv (c : Cfg) (k : Comp) (n : Nat) (b : Bytes) (hk : k ≠ .special) :
    Bytes.currentCount c (adv c k n b) = Bytes.currentCount c b + n := by
  unfold Bytes.currentCount
  cases hb : c.bytesContiguous
  · have hf := format_of_bytes hb
    cases k <;> simp [adv, hf] at hk ⊢ <;> omega
  · simp

theorem currentCount_adv_sub (c : Cfg) (k : Comp) (n : Nat) (b : Bytes) (hk : k ≠ .special) :
    Bytes.currentCount c (adv c k n b) - Bytes.currentCount c b = n := by
  rw [currentCount_adv c k n b hk]; omega

/-- `parse_8digits` on any iterator: `8·j` digits consumed *and counted*, folded as the digit loop would -/
theorem parse8Digits_rel (c : Cfg) (k : Comp) (hS : RelClass c) (b : Bytes) (m : Nat) :
    ∃ j m1, parse8Digits c k b m = .ok (m1, adv c k (8 * j) b) ∧
      (digitsPrefix c.mantissaRadix (b.slc.drop b.index)).length
        = 8 * j + (digitsPrefix c.mantissaRadix (b.slc.drop (b.index + 8 * j))).length ∧
      foldMantissa c.mantissaRadix m1 (digitsPrefix c.mantissaRadix (b.slc.drop (b.index + 8 * j)))
        = foldMantissa c.mantissaRadix m (digitsPrefix c.mantissaRadix (b.slc.drop b.index)) := by
  unfold parse8Digits
  by_cases hc : c.feats.compact = true
  · exact ⟨0, m, by simp [hc, pure, Except.pure, adv_zero], by simp, by simp⟩
  · by_cases hm : canMultidigit c k = true
    · have hr : c.mantissaRadix ≤ 10 := by
        simp only [canMultidigit, Bool.and_eq_true, Bool.or_eq_true, Bool.not_eq_true',
          decide_eq_true_eq] at hm
        rcases hm.2 with h | h
        · exact hS.radix h
        · exact h
      obtain ⟨j, m1, h1, h2, h3⟩ := parse8Loop_spec c k hS.debug hr (b.slc.length + 1) b m (by omega)
      refine ⟨j, m1, ?_, h2, h3⟩
      simp only [hc, hm, hS.debug, Bool.false_and, Bool.false_eq_true, if_false, if_true, h1]
    · exact ⟨0, m, by simp [hc, hm, pure, Except.pure, adv_zero], by simp, by simp⟩

/-- `parse_8digits` then `parse_digits` on separator-free input: the whole digit run, consumed and counted -/
theorem digitsRun_rel (c : Cfg) (k : Comp) (hS : RelClass c) (b : Bytes) (m : Nat) (hn : NoSep c b.slc) :
    ∃ m1 b1 ds1, parse8Digits c k b m = .ok (m1, b1) ∧
      parseDigits c k c.mantissaRadix b1 =
        .ok (ds1, adv c k (digitsPrefix c.mantissaRadix (b.slc.drop b.index)).length b) ∧
      foldMantissa c.mantissaRadix m1 ds1
        = foldMantissa c.mantissaRadix m (digitsPrefix c.mantissaRadix (b.slc.drop b.index)) := by
  obtain ⟨j, m1, h1, h2, h3⟩ := parse8Digits_rel c k hS b m
  refine ⟨m1, _, _, h1, ?_, h3⟩
  rw [parseDigits_nosep c k _ hS.debug (hS.reach _) _ (by simpa using hn)]
  simp only [adv_slc, adv_index, adv_add, h2]

/-- `parse_8digits` does nothing on a non-contiguous component iterator -/
theorem parse8Digits_sep (c : Cfg) (k : Comp) (hk : c.iterContiguous k = false) (b : Bytes) (m : Nat) :
    parse8Digits c k b m = .ok (m, b) := by
  unfold parse8Digits
  by_cases hc : c.feats.compact = true
  · simp [hc, pure, Except.pure]
  · simp [hc, canMultidigit, hk, pure, Except.pure]

/-- the remainder of `integerPhase` after the base prefix, in closed form (`e` = the iterator after the digits) -/
def intClosed (g : Cfg) (isPrefix : Bool) (start e : Bytes) : Except Err IntPart :=
  let ds := digitsPrefix g.mantissaRadix (start.slc.drop start.index)
  if g.feats.format && g.requiredIntegerDigits && ds.length = 0 then .error (.err "EmptyInteger" e.index)
  else
    let digits := (start.slc.drop start.index).take ds.length
    if g.feats.format && !isPrefix && g.noFloatLeadingZeros && digits.length > 1 && digits.head? = some 48 then
      .error (.err "InvalidLeadingZeros" start.index)
    else .ok ⟨isPrefix, start, e, foldMantissa g.mantissaRadix 0 ds, ds.length, digits⟩

theorem sliceTo_ok (c : Cfg) (b : Bytes) (n : Nat) (tag : String) (h : n ≤ (b.slc.drop b.index).length) :
    sliceTo c b n tag = .ok ((b.slc.drop b.index).take n) := by
  simp [sliceTo, Bytes.asSlice, pure, Except.pure]
  intro h2
  simp only [List.length_drop] at h
  omega

theorem integerPhase_sep (c : Cfg) (hS : SepClass c) (b start : Bytes) (isPrefix : Bool) (hn : NoSep c start.slc)
    (hp : prefixPhase c b = .ok (isPrefix, start)) :
    integerPhase c b = intClosed c isPrefix start
      (adv c .integer (digitsPrefix c.mantissaRadix (start.slc.drop start.index)).length start) := by
  unfold integerPhase
  simp only [hp, bind, Except.bind, parse8Digits_sep c .integer hS.int,
    parseDigits_nosep c .integer _ hS.debug (hS.reach _) start hn, pure, Except.pure]
  have hlen := digitsPrefix_length_le c.mantissaRadix (start.slc.drop start.index)
  have hcc : Bytes.currentCount c (adv c Comp.integer (digitsPrefix c.mantissaRadix (List.drop start.index start.slc)).length start)
      - Bytes.currentCount c start = (digitsPrefix c.mantissaRadix (List.drop start.index start.slc)).length := by
    simp only [Bytes.currentCount, hS.bytes, Bool.false_eq_true, if_false, adv, hS.format, if_true]
    omega
  simp only [hcc, hS.int, hS.format, Bool.true_and, Bool.not_false, if_true, adv_index, Nat.add_sub_cancel_left,
    sliceTo_ok c start _ _ hlen, intClosed]

/-- `integerPhase` of **any** valid format on separator-free input, in closed form -/
theorem integerPhase_rel (c : Cfg) (hS : RelClass c) (b start : Bytes) (isPrefix : Bool) (hn : NoSep c start.slc)
    (hp : prefixPhase c b = .ok (isPrefix, start)) :
    integerPhase c b = intClosed c isPrefix start
      (adv c .integer (digitsPrefix c.mantissaRadix (start.slc.drop start.index)).length start) := by
  obtain ⟨m1, b1, ds1, h1, h2, h3⟩ := digitsRun_rel c .integer hS start 0 hn
  unfold integerPhase
  simp only [hp, bind, Except.bind, h1, h2, pure, Except.pure, h3]
  have hlen := digitsPrefix_length_le c.mantissaRadix (start.slc.drop start.index)
  simp only [currentCount_adv_sub c .integer _ _ (by decide), adv_index, Nat.add_sub_cancel_left, ite_self,
    sliceTo_ok c start _ _ hlen, intClosed]

theorem integerPhase_plain (c : Cfg) (hP : PlainClass c) (b start : Bytes) (isPrefix : Bool)
    (hp : prefixPhase c b = .ok (isPrefix, start)) :
    ∃ e, e.slc = start.slc ∧
      e.index = start.index + (digitsPrefix c.mantissaRadix (start.slc.drop start.index)).length ∧
      integerPhase c b = intClosed c isPrefix start e :=
  ⟨_, by simp, by simp, integerPhase_rel c hP.rel b start isPrefix (hP.noSep _) hp⟩

end LexVerif.Proof.Sep

namespace LexVerif.Proof.Sep
open LexVerif LexVerif.Model LexVerif.Spec
open LexVerif.Props.C12

/-- `c'` is `c` with the separators removed: every parameter that is not a separator flag / the separator byte agrees -/
structure Counterpart (c c' : Cfg) : Prop where
  feats : c'.feats = c.feats
  requiredIntegerDigits : c'.requiredIntegerDigits = c.requiredIntegerDigits
  requiredFractionDigits : c'.requiredFractionDigits = c.requiredFractionDigits
  requiredExponentDigits : c'.requiredExponentDigits = c.requiredExponentDigits
  requiredMantissaDigits : c'.requiredMantissaDigits = c.requiredMantissaDigits
  noPositiveMantissaSign : c'.noPositiveMantissaSign = c.noPositiveMantissaSign
  requiredMantissaSign : c'.requiredMantissaSign = c.requiredMantissaSign
  noExponentNotation : c'.noExponentNotation = c.noExponentNotation
  noPositiveExponentSign : c'.noPositiveExponentSign = c.noPositiveExponentSign
  requiredExponentSign : c'.requiredExponentSign = c.requiredExponentSign
  noExponentWithoutFraction : c'.noExponentWithoutFraction = c.noExponentWithoutFraction
  noSpecial : c'.noSpecial = c.noSpecial
  caseSensitiveSpecial : c'.caseSensitiveSpecial = c.caseSensitiveSpecial
  noFloatLeadingZeros : c'.noFloatLeadingZeros = c.noFloatLeadingZeros
  requiredExponentNotation : c'.requiredExponentNotation = c.requiredExponentNotation
  caseSensitiveExponent : c'.caseSensitiveExponent = c.caseSensitiveExponent
  caseSensitiveBasePrefix : c'.caseSensitiveBasePrefix = c.caseSensitiveBasePrefix
  caseSensitiveBaseSuffix : c'.caseSensitiveBaseSuffix = c.caseSensitiveBaseSuffix
  basePrefix : c'.basePrefix = c.basePrefix
  baseSuffix : c'.baseSuffix = c.baseSuffix
  mantissaRadix : c'.mantissaRadix = c.mantissaRadix
  exponentBase : c'.exponentBase = c.exponentBase
  exponentRadix : c'.exponentRadix = c.exponentRadix

/-- results related by `R`, errors equal -/
def RelE {α β : Type} (R : α → β → Prop) : Except Err α → Except Err β → Prop
  | .ok a, .ok b => R a b
  | .error e, .error e' => e = e'
  | _, _ => False

theorem RelE.bind {α β γ δ : Type} {R : α → β → Prop} {Q : γ → δ → Prop} {x : Except Err α} {y : Except Err β}
    {f : α → Except Err γ} {g : β → Except Err δ} (h : RelE R x y) (hf : ∀ a b, R a b → RelE Q (f a) (g b)) :
    RelE Q (x >>= f) (y >>= g) := by
  cases x <;> cases y <;> simp only [RelE] at h
  · subst h; simp [RelE, Bind.bind, Except.bind]
  · exact hf _ _ h

theorem RelE.eq {α : Type} {x y : Except Err α} (h : RelE Eq x y) : x = y := by
  cases x <;> cases y <;> simp only [RelE] at h <;> simp [h]

theorem RelE.of_eq {α : Type} {x y : Except Err α} (h : x = y) : RelE Eq x y := by
  subst h; cases x <;> simp [RelE]

theorem RelE.refl_ok {α β : Type} {R : α → β → Prop} {a : α} {b : β} (h : R a b) :
    RelE R (Except.ok a) (Except.ok b) := h

/-- two cursors over the fixed input `s` at the same position -/
def Sim (s : List Nat) (b b' : Bytes) : Prop := b.slc = s ∧ b'.slc = s ∧ b.index = b'.index

/-- lower bound on the digit counts (separator side) -/
def CountLB (b : Bytes) (n : Nat) : Prop := n ≤ b.ic + b.fc + b.ec

/-- lower bound on `Bytes::current_count` (any format) -/
def CountLBc (c : Cfg) (b : Bytes) (n : Nat) : Prop := n ≤ b.currentCount c

theorem prefixPhase_same (c c' : Cfg) (hS : RelClass c) (hP : PlainClass c') (hC : Counterpart c c') (b : Bytes)
    (hn : NoSep c b.slc) : prefixPhase c' b = prefixPhase c b := by
  unfold prefixPhase
  simp only [prefixRepair, Bool.false_eq_true, if_false]
  rw [hC.feats, hC.basePrefix]
  split
  · have hn1 : NoSep c ({ b with index := b.index + 1 } : Bytes).slc := hn
    rw [readIfValueCased_nosep c .integer 48 b hS.debug hn (hS.reach _),
      readIfValueCased_nosep c' .integer 48 b hP.debug (hP.noSep _) (hP.reach _)]
    simp only [bind, Except.bind]
    split
    · simp only [readIfValue, hC.caseSensitiveBasePrefix, hC.requiredIntegerDigits,
        readIfValueCased_nosep c .integer _ _ hS.debug hn1 (hS.reach _),
        readIfValueCased_nosep c' .integer _ _ hP.debug (hP.noSep _) (hP.reach _),
        readIfValueUncased_nosep c .integer _ _ hS.debug hn1 (hS.reach _),
        readIfValueUncased_nosep c' .integer _ _ hP.debug (hP.noSep _) (hP.reach _)]
    · rfl
  · rfl

theorem ite_pair {p : Prop} [Decidable p] {x y r : Bool × Bytes} (h : (if p then x else y) = r) :
    r.2 = x.2 ∨ r.2 = y.2 := by
  split at h <;> simp [← h]

theorem readIfValue_slc (c : Cfg) (k : Comp) (v : Nat) (cased : Bool) (b b' : Bytes) (hit : Bool)
    (hd : c.debug = false) (hn : NoSep c b.slc) (hk : c.skip k ≠ .unreachable)
    (h : readIfValue c k v cased b = .ok (hit, b')) : b'.slc = b.slc ∧ b.index ≤ b'.index := by
  unfold readIfValue at h
  split at h
  · rw [readIfValueCased_nosep c k v b hd hn hk] at h
    simp only [Except.ok.injEq] at h
    rcases ite_pair h with h2 | h2 <;> simp only at h2 <;> subst h2 <;> simp
  · rw [readIfValueUncased_nosep c k v b hd hn hk] at h
    simp only [Except.ok.injEq] at h
    split at h
    · rcases ite_pair h with h2 | h2 <;> simp only at h2 <;> subst h2 <;> simp
    · cases h; simp

theorem prefixPhase_slc (c : Cfg) (hd : c.debug = false) (hk : c.skip .integer ≠ .unreachable) (b start : Bytes)
    (p : Bool) (hn : NoSep c b.slc) (h : prefixPhase c b = .ok (p, start)) :
    start.slc = b.slc ∧ b.index ≤ start.index := by
  unfold prefixPhase at h
  simp only [prefixRepair, Bool.false_eq_true, if_false] at h
  split at h
  · have hn1 : NoSep c ({ b with index := b.index + 1 } : Bytes).slc := hn
    rw [readIfValueCased_nosep c .integer 48 b hd hn hk] at h
    simp only [bind, Except.bind] at h
    by_cases h48 : b.slc[b.index]? = some 48
    · simp only [h48, if_true] at h
      cases hr : readIfValue c .integer c.basePrefix c.caseSensitiveBasePrefix { b with index := b.index + 1 } with
      | error e => simp [hr] at h
      | ok r =>
        obtain ⟨hit, b2⟩ := r
        simp only [hr] at h
        have := readIfValue_slc c .integer _ _ _ _ _ hd hn1 hk hr
        split at h
        · cases h
        · simp only [pure, Except.pure, Except.ok.injEq, Prod.mk.injEq] at h
          obtain ⟨_, rfl⟩ := h
          exact ⟨this.1, by have := this.2; simp only at this; omega⟩
    · simp only [h48, if_false, pure, Except.pure] at h
      obtain ⟨_, rfl⟩ := h; simp
  · simp only [pure, Except.pure, Except.ok.injEq, Prod.mk.injEq] at h
    obtain ⟨_, rfl⟩ := h; simp

/-- what the two runs agree on after the integer digits -/
def IntRel (c : Cfg) (s : List Nat) (ip ip' : IntPart) : Prop :=
  ip'.isPrefix = ip.isPrefix ∧ ip'.start = ip.start ∧ ip.start.slc = s ∧ Sim s ip.byte ip'.byte ∧
  ip'.mantissa = ip.mantissa ∧ ip'.nDigits = ip.nDigits ∧ ip'.integerDigits = ip.integerDigits ∧
  CountLBc c ip.byte ip.nDigits ∧ ip.nDigits ≤ ip'.byte.index ∧
  ip.integerDigits = (s.drop ip.start.index).take ip.nDigits ∧ ip.nDigits ≤ (s.drop ip.start.index).length

theorem integerPhase_prefix_error (c : Cfg) (b : Bytes) (e : Err) (h : prefixPhase c b = .error e) :
    integerPhase c b = .error e := by
  unfold integerPhase
  simp [h, bind, Except.bind]

theorem int_rel (c c' : Cfg) (hS : RelClass c) (hP : PlainClass c') (hC : Counterpart c c') (b : Bytes)
    (hn : NoSep c b.slc) : RelE (IntRel c b.slc) (integerPhase c b) (integerPhase c' b) := by
  have hpp := prefixPhase_same c c' hS hP hC b hn
  cases hp : prefixPhase c b with
  | error e =>
    rw [integerPhase_prefix_error c b e hp, integerPhase_prefix_error c' b e (by rw [hpp]; exact hp)]
    simp [RelE]
  | ok r =>
    obtain ⟨p, start⟩ := r
    have hsl := prefixPhase_slc c hS.debug (hS.reach _) b start p hn hp
    have hns : NoSep c start.slc := by rw [hsl.1]; exact hn
    rw [integerPhase_rel c hS b start p hns hp]
    obtain ⟨e, he1, he2, he3⟩ := integerPhase_plain c' hP b start p (by rw [hpp]; exact hp)
    rw [he3]
    rw [hC.mantissaRadix] at he2
    unfold intClosed
    simp only [hC.feats, hC.requiredIntegerDigits, hC.mantissaRadix, hC.noFloatLeadingZeros]
    by_cases h1 : (c.feats.format && c.requiredIntegerDigits &&
        decide ((digitsPrefix c.mantissaRadix (List.drop start.index start.slc)).length = 0)) = true
    · simp only [h1, if_true, RelE, adv_index, he2]
    · simp only [h1, Bool.false_eq_true, if_false]
      split
      · simp [RelE]
      · simp only [RelE, IntRel, Sim, adv_slc, adv_index, he1, he2, hsl.1, true_and, and_true]
        refine ⟨?_, by omega, ?_⟩
        · simp only [CountLBc, currentCount_adv c .integer _ _ (by decide)]
          omega
        · exact digitsPrefix_length_le _ _

theorem adv_count (c : Cfg) (k : Comp) (n : Nat) (b : Bytes) (hf : c.feats.format = true) (hk : k ≠ .special) :
    (adv c k n b).ic + (adv c k n b).fc + (adv c k n b).ec = b.ic + b.fc + b.ec + n := by
  cases k <;> simp [adv, hf] at hk ⊢ <;> omega

/-- value of `scaleExponent` in a release build -/
def scaleVal (c : Cfg) (implicit : Int) : Int :=
  if c.mantissaRadix = c.exponentBase then implicit
  else Int.tdiv (implicit * log2Radix c.mantissaRadix) (log2Radix c.exponentBase)

theorem scaleExponent_release (c : Cfg) (hd : c.debug = false) (x : Int) : scaleExponent c x = .ok (scaleVal c x) := by
  unfold scaleExponent scaleVal
  split
  · rfl
  · simp [hd, pure, Except.pure]

theorem scaleVal_same (c c' : Cfg) (hC : Counterpart c c') (x : Int) : scaleVal c' x = scaleVal c x := by
  simp [scaleVal, hC.mantissaRadix, hC.exponentBase]

theorem step_release (c : Cfg) (hd : c.debug = false) (b : Bytes) : b.step c = .ok { b with index := b.index + 1 } := by
  simp [Bytes.step, stepUnchecked_release c _ b hd]

theorem Sim.first {s : List Nat} {b b' : Bytes} (h : Sim s b b') : b'.first = b.first := by
  simp [Bytes.first, h.1, h.2.1, h.2.2]

/-- `fractionPhase` in closed form -/
def fracClosed (g : Cfg) (o : POpts) (b : Bytes) (m : Nat) : Except Err FracPart :=
  if b.firstIsCased o.dp then
    let ds := digitsPrefix g.mantissaRadix (b.slc.drop (b.index + 1))
    if g.feats.format && g.requiredFractionDigits && ds.length = 0 then
      .error (.err "EmptyFraction" (b.index + 1 + ds.length))
    else .ok ⟨adv g .fraction ds.length { b with index := b.index + 1 }, foldMantissa g.mantissaRadix m ds, ds.length,
      scaleVal g (-(ds.length : Int)), some ((b.slc.drop (b.index + 1)).take ds.length), true⟩
  else .ok ⟨b, m, 0, 0, none, false⟩

/-- `fractionPhase` of **any** valid format on separator-free input -/
theorem fractionPhase_rel (c : Cfg) (hS : RelClass c) (o : POpts) (b : Bytes) (m : Nat) (hn : NoSep c b.slc) :
    fractionPhase c o b m = fracClosed c o b m := by
  unfold fractionPhase fracClosed
  by_cases hdp : b.firstIsCased o.dp = true
  · simp only [hdp, if_true, step_release c hS.debug, bind, Except.bind]
    obtain ⟨m1, b1, ds1, h1, h2, h3⟩ := digitsRun_rel c .fraction hS { b with index := b.index + 1 } m hn
    simp only at h1 h2 h3
    have hlen := digitsPrefix_length_le c.mantissaRadix (b.slc.drop (b.index + 1))
    have hsl : ∀ tag, sliceTo c { b with index := b.index + 1 }
        (digitsPrefix c.mantissaRadix (List.drop (b.index + 1) b.slc)).length tag
          = .ok ((b.slc.drop (b.index + 1)).take (digitsPrefix c.mantissaRadix (List.drop (b.index + 1) b.slc)).length) :=
      fun tag => sliceTo_ok c _ _ tag hlen
    simp only [h1, h2, h3, pure, Except.pure, currentCount_adv_sub c .fraction _ _ (by decide), adv_index,
      Nat.add_sub_cancel_left, ite_self, scaleExponent_release c hS.debug, hsl]
  · simp only [hdp, Bool.false_eq_true, if_false, pure, Except.pure]

/-- what the two runs agree on after the fraction digits (`L` = digits counted before the fraction) -/
def FracRel (c : Cfg) (s : List Nat) (L : Nat) (fp fp' : FracPart) : Prop :=
  Sim s fp.byte fp'.byte ∧ fp'.mantissa = fp.mantissa ∧ fp'.nAfterDot = fp.nAfterDot ∧ fp'.exponent = fp.exponent ∧
  fp'.fraction = fp.fraction ∧ fp'.hasDecimal = fp.hasDecimal ∧
  CountLBc c fp.byte (L + fp.nAfterDot) ∧ L + fp.nAfterDot ≤ fp'.byte.index ∧
  (∀ fd, fp.fraction = some fd → ∀ x ∈ fd, x ∈ s) ∧ (fp.fraction = none → fp.nAfterDot = 0)

theorem frac_rel (c c' : Cfg) (hS : RelClass c) (hP : PlainClass c') (hC : Counterpart c c') (s : List Nat)
    (hn : NoSep c s) (o : POpts) (bC bP : Bytes) (hsim : Sim s bC bP) (m L : Nat) (hL : CountLBc c bC L)
    (hL' : L ≤ bP.index) :
    RelE (FracRel c s L) (fractionPhase c o bC m) (fractionPhase c' o bP m) := by
  rw [fractionPhase_rel c hS o bC m (by rw [hsim.1]; exact hn),
    fractionPhase_rel c' hP.rel o bP m (hP.noSep _)]
  unfold fracClosed
  have hf : bP.firstIsCased o.dp = bC.firstIsCased o.dp := by simp [Bytes.firstIsCased, hsim.first]
  rw [hf]
  have hidx := hsim.2.2
  by_cases hdp : bC.firstIsCased o.dp = true
  · simp only [hdp, if_true, hC.feats, hC.requiredFractionDigits, hC.mantissaRadix, hsim.1, hsim.2.1, ← hidx,
      scaleVal_same c c' hC]
    by_cases hz : (c.feats.format && c.requiredFractionDigits &&
        decide ((digitsPrefix c.mantissaRadix (List.drop (bC.index + 1) s)).length = 0)) = true
    · simp only [hz, if_true, RelE]
    · simp only [hz, Bool.false_eq_true, if_false, RelE, FracRel, Sim, adv_slc, adv_index, hsim.1, hsim.2.1, ← hidx,
        true_and, and_true]
      refine ⟨?_, by omega, ?_, (by intro h; cases h)⟩
      · simp only [CountLBc, currentCount_adv c .fraction _ _ (by decide)] at hL ⊢
        have : ∀ sl : List Nat, Bytes.currentCount c
            { slc := sl, index := bC.index + 1, ic := bC.ic, fc := bC.fc, ec := bC.ec } ≥ Bytes.currentCount c bC := by
          intro sl; simp only [Bytes.currentCount]; split <;> simp
        have := this s
        omega
      · intro fd hfd x hx
        simp only [Option.some.injEq] at hfd
        subst hfd
        exact List.mem_of_mem_drop (List.mem_of_mem_take hx)
  · simp only [hdp, Bool.false_eq_true, if_false, RelE, FracRel, and_true, true_and]
    exact ⟨hsim, hL, hL', (by intro fd h; cases h), (by intro _; trivial)⟩

theorem parseSign_sim (c c' : Cfg) (hd : c.debug = false) (hd' : c'.debug = false) (s : List Nat) (np rq : Bool)
    (ip ms : String) (b b' : Bytes) (hsim : Sim s b b') :
    RelE (fun r r' => r'.1 = r.1 ∧ Sim s r.2 r'.2) (parseSign c np rq ip ms b) (parseSign c' np rq ip ms b') := by
  unfold parseSign
  rw [hsim.first]
  have hi := hsim.2.2
  split
  · cases np
    · simp only [Bool.not_false, if_true, step_release c hd, step_release c' hd', bind, Except.bind, pure, Except.pure, RelE,
        Sim, hsim.1, hsim.2.1, hi, true_and, and_self]
    · simp [RelE, hi]
  · simp only [step_release c hd, step_release c' hd', bind, Except.bind, pure, Except.pure, RelE,
      Sim, hsim.1, hsim.2.1, hi, true_and, and_self]
  · cases rq
    · simp only [Bool.false_eq_true, if_false, pure, Except.pure, RelE, true_and]; exact hsim
    · simp [RelE, hi]

/-- what the two runs agree on after the exponent -/
def ExpRel (s : List Nat) (ep ep' : ExpPart) : Prop :=
  Sim s ep.byte ep'.byte ∧ ep'.explicit = ep.explicit ∧ ep'.exponent = ep.exponent

theorem exp_rel (c c' : Cfg) (hS : RelClass c) (hP : PlainClass c') (hC : Counterpart c c') (s : List Nat)
    (hn : NoSep c s) (hasExp : Bool) (bC bP : Bytes) (hsim : Sim s bC bP) (fr : Option (List Nat)) (ex : Int) :
    RelE (ExpRel s) (exponentPhase c hasExp bC fr ex) (exponentPhase c' hasExp bP fr ex) := by
  unfold exponentPhase
  have hi := hsim.2.2
  cases hasExp
  · simp only [Bool.false_eq_true, if_false, hC.feats, hC.requiredExponentNotation]
    split
    · simp [RelE, hi]
    · simp only [pure, Except.pure, RelE, ExpRel, and_true]; exact hsim
  · simp only [if_true, step_release c hS.debug, step_release c' hP.debug, bind, Except.bind, hC.feats,
      hC.noExponentNotation, hC.noExponentWithoutFraction]
    split
    · simp [RelE, hi]
    · split
      · simp [RelE, hi]
      · have hsim1 : Sim s { bC with index := bC.index + 1 } { bP with index := bP.index + 1 } :=
          ⟨hsim.1, hsim.2.1, by simp [hi]⟩
        have hsg := parseSign_sim c c' hS.debug hP.debug s c.noPositiveExponentSign c.requiredExponentSign
          "InvalidPositiveExponentSign" "MissingExponentSign" _ _ hsim1
        unfold parseExponentSign
        rw [hC.noPositiveExponentSign, hC.requiredExponentSign]
        refine RelE.bind hsg ?_
        intro r r' hr
        obtain ⟨neg, b1⟩ := r
        obtain ⟨neg', b1'⟩ := r'
        obtain ⟨hneg, hs1⟩ := hr
        simp only at hneg hs1
        subst hneg
        have hn1 : NoSep c b1.slc := by rw [hs1.1]; exact hn
        simp only [parseDigits_nosep c .exponent _ hS.debug (hS.reach _) b1 hn1,
          parseDigits_nosep c' .exponent _ hP.debug (hP.reach _) b1' (hP.noSep _), pure, Except.pure,
          hC.exponentRadix, hC.requiredExponentDigits, hs1.1, hs1.2.1, ← hs1.2.2,
          currentCount_adv_sub c .exponent _ _ (by decide), currentCount_adv_sub c' .exponent _ _ (by decide),
          adv_index]
        split
        · simp [RelE, hs1.2.2]
        · simp only [RelE, ExpRel, Sim, adv_slc, adv_index, hs1.1, hs1.2.1, hs1.2.2, and_self]

theorem suffix_rel (c c' : Cfg) (hS : RelClass c) (hP : PlainClass c') (hC : Counterpart c c') (s : List Nat)
    (bC bP : Bytes) (hsim : Sim s bC bP) :
    RelE (Sim s) (suffixPhase c bC) (suffixPhase c' bP) := by
  unfold suffixPhase
  have hf : ∀ v cased, bP.firstIs v cased = bC.firstIs v cased := by
    intro v cased; simp [Bytes.firstIs, Bytes.firstIsCased, Bytes.firstIsUncased, hsim.first]
  rw [hC.feats, hC.baseSuffix, hC.caseSensitiveBaseSuffix, hf]
  split
  · simp only [step_release c hS.debug, step_release c' hP.debug, RelE, Sim, hsim.1, hsim.2.1, hsim.2.2, and_self]
  · simp only [pure, Except.pure, RelE]; exact hsim

end LexVerif.Proof.Sep
